/- Hw.Io.ConcLemmas — lemmas about the reader part of the C17 model (Hw.Io.Conc). -/
import Hw.Io.Conc
namespace Hw.Conc

/-! ### refresh validates -/

theorem refreshDists_valid (ds : List DistSlot) : ∀ d ∈ refreshDists ds, d.valid = true := by
  intro d hd
  simp only [refreshDists, List.mem_filterMap] at hd
  obtain ⟨x, _, hx⟩ := hd
  by_cases hv : x.valid = true
  · simp only [hv, if_true, Option.some.injEq] at hx; subst hx; exact hv
  · by_cases hs : x.survives = true
    · simp [hv, hs] at hx
      subst hx; rfl
    · simp [hv, hs] at hx

theorem refresh_cachesValid (s : TopoState) : CachesValid (refresh s) := by
  refine ⟨refreshDists_valid s.dists, ?_⟩
  intro a ha
  simp only [refresh, List.mem_map] at ha
  obtain ⟨x, _, hx⟩ := ha
  subst hx; rfl

theorem refresh_strong (s : TopoState) :
    (∀ d ∈ (refresh s).dists, d.valid = true) ∧ (∀ a ∈ (refresh s).attrs, a.valid = true) := by
  refine ⟨refreshDists_valid s.dists, ?_⟩
  intro a ha
  simp only [refresh, List.mem_map] at ha
  obtain ⟨x, _, hx⟩ := ha
  subst hx; rfl

theorem refresh_warm (s : TopoState) : (refresh s).warm = s.warm := rfl
theorem refresh_content (s : TopoState) : (refresh s).content = s.content := rfl
theorem invalidate_warm (f : Nat → Bool) (s : TopoState) : (invalidate f s).warm = s.warm := rfl

theorem refreshDists_id (ds : List DistSlot) (h : ∀ d ∈ ds, d.valid = true) : refreshDists ds = ds := by
  induction ds with
  | nil => rfl
  | cons d ds ih =>
    have hd : d.valid = true := h d (List.mem_cons_self ..)
    have ih' := ih (fun x hx => h x (List.mem_cons_of_mem _ hx))
    simp only [refreshDists] at ih' ⊢
    simp only [List.filterMap_cons, hd, if_true, ih']

/-- a second refresh changes nothing on the distances side -/
theorem refresh_idem_dists (s : TopoState) : (refresh (refresh s)).dists = (refresh s).dists :=
  refreshDists_id _ (refreshDists_valid s.dists)

theorem hasFlag_binding (flags : Nat) :
    hasFlag flags (flagRestrictToCpubinding ||| flagRestrictToMembinding) =
      (hasFlag flags flagRestrictToCpubinding || hasFlag flags flagRestrictToMembinding) := by
  simp only [hasFlag, Nat.and_or_distrib_left]
  cases h1 : (flags &&& flagRestrictToCpubinding != 0) <;> cases h2 : (flags &&& flagRestrictToMembinding != 0) <;>
    simp_all [Nat.or_eq_zero_iff]

theorem guardOk_nk (f : Nat) : guardOk f (flagNoCpukinds, false) = !hasFlag f flagNoCpukinds := by
  have : (flagNoCpukinds == 0) = false := by decide
  cases h : hasFlag f flagNoCpukinds <;> simp [guardOk, this, h]
theorem guardOk_nd (f : Nat) : guardOk f (flagNoDistances, false) = !hasFlag f flagNoDistances := by
  have : (flagNoDistances == 0) = false := by decide
  cases h : hasFlag f flagNoDistances <;> simp [guardOk, this, h]
theorem guardOk_nm (f : Nat) : guardOk f (flagNoMemattrs, false) = !hasFlag f flagNoMemattrs := by
  have : (flagNoMemattrs == 0) = false := by decide
  cases h : hasFlag f flagNoMemattrs <;> simp [guardOk, this, h]
theorem guardOk_zero (f : Nat) : guardOk f (0, false) = true := by simp [guardOk]
theorem guardOk_c (f : Nat) : guardOk f (flagRestrictToCpubinding, true) = hasFlag f flagRestrictToCpubinding := by
  have : (flagRestrictToCpubinding == 0) = false := by decide
  cases h : hasFlag f flagRestrictToCpubinding <;> simp [guardOk, this, h]
theorem guardOk_m (f : Nat) : guardOk f (flagRestrictToMembinding, true) = hasFlag f flagRestrictToMembinding := by
  have : (flagRestrictToMembinding == 0) = false := by decide
  cases h : hasFlag f flagRestrictToMembinding <;> simp [guardOk, this, h]
theorem guardOk_cm (f : Nat) : guardOk f (flagRestrictToCpubinding ||| flagRestrictToMembinding, true) =
    (hasFlag f flagRestrictToCpubinding || hasFlag f flagRestrictToMembinding) := by
  have : (flagRestrictToCpubinding ||| flagRestrictToMembinding == 0) = false := by decide
  rw [← hasFlag_binding]
  cases h : hasFlag f (flagRestrictToCpubinding ||| flagRestrictToMembinding) <;> simp [guardOk, this, h]

/-- hwloc_topology_refresh as a step sequence is `refresh`, whatever the flags -/
theorem runSeq_refreshSeq (flags : Nat) (o : LoadOracle) (s : TopoState) :
    runSeq Model.refreshSeq flags o s = refresh s := by
  simp only [runSeq, Model.refreshSeq, List.foldl_cons, List.foldl_nil, guardOk_zero, if_true, effect, refresh]

/-- the first six steps of load leave every cache valid -/
theorem loadPrefix_cachesValid (flags : Nat) (o : LoadOracle) (s : TopoState) (h : FlaggedOffValid flags s) :
    CachesValid (runSeq (Model.loadSeq.take 6) flags o s) := by
  obtain ⟨hd, ha⟩ := h
  have hav : ∀ (l : List AttrSlot), ∀ a ∈ l.map validateAttr, a.valid = true := by
    intro l a ham
    simp only [List.mem_map] at ham
    obtain ⟨x, _, hx⟩ := ham
    subst hx; rfl
  cases hD : hasFlag flags flagNoDistances <;> cases hM : hasFlag flags flagNoMemattrs <;>
    simp only [runSeq, Model.loadSeq, List.take, List.foldl_cons, List.foldl_nil, guardOk_nk, guardOk_nd, guardOk_nm,
      guardOk_zero, hD, hM, Bool.not_false, Bool.not_true, if_true, Bool.false_eq_true, if_false, effect,
      invalidateDistsOnly, needRefreshAttrsOnly, CachesValid, ite_self]
  · exact ⟨refreshDists_valid _, hav _⟩
  · exact ⟨refreshDists_valid _, ha hM⟩
  · exact ⟨hd hD, hav _⟩
  · exact ⟨hd hD, ha hM⟩

/-- P0 (load part): for EVERY flag word and every outcome of the binding restricts, load ends with valid caches -/
theorem loadTail_cachesValid (flags : Nat) (o : LoadOracle) (s : TopoState) (h : FlaggedOffValid flags s) :
    CachesValid (loadTail flags o s) := by
  have hsplit : loadTail flags o s =
      runSeq (Model.loadSeq.drop 6) flags o (runSeq (Model.loadSeq.take 6) flags o s) := by
    simp only [loadTail, runSeq, ← List.foldl_append, List.take_append_drop]
  rw [hsplit]
  have hpre := loadPrefix_cachesValid flags o s h
  generalize runSeq (Model.loadSeq.take 6) flags o s = x at hpre
  cases hC : hasFlag flags flagRestrictToCpubinding <;> cases hB : hasFlag flags flagRestrictToMembinding
  · -- no binding flag: nothing runs after setLoaded
    simpa only [runSeq, Model.loadSeq, List.drop, List.foldl_cons, List.foldl_nil, guardOk_c, guardOk_m, guardOk_cm, hC, hB,
      Bool.or_self, Bool.false_eq_true, if_false] using hpre
  all_goals
    -- a binding flag: the last step is hwloc_topology_refresh, which validates everything
    have hlast : runSeq (Model.loadSeq.drop 6) flags o x =
        refresh (runSeq ((Model.loadSeq.drop 6).dropLast) flags o x) := by
      simp only [runSeq, Model.loadSeq, List.drop, List.dropLast, List.foldl_cons, List.foldl_nil, guardOk_cm, hC, hB,
        Bool.or_true, Bool.or_false, if_true, effect]
    rw [hlast]
    exact refresh_cachesValid _

/-- why the second refresh is needed (finding F51, fixed by 6c24a9e): without the last step, a load with
    RESTRICT_TO_CPUBINDING whose restrict runs leaves every distances structure invalid. -/
theorem loadUnfixed_binding_invalid (o : LoadOracle) (ho : o.ranCpu = true) (s : TopoState) :
    ∀ d ∈ (runSeq Model.loadSeqUnfixed flagRestrictToCpubinding o s).dists, d.valid = false := by
  intro d hd
  simp [runSeq, Model.loadSeqUnfixed, Model.loadSeq, guardOk, hasFlag, effect, ho, invalidate, invalidateDistsOnly,
    flagRestrictToCpubinding, flagRestrictToMembinding, flagNoDistances, flagNoMemattrs, flagNoCpukinds] at hd
  obtain ⟨x, _, hx⟩ := hd
  subst hx; rfl

/-! ### valid state: no unlocked write -/

theorem distEvents_valid (d : DistSlot) (h : d.valid = true) : distEvents d = [rd (.dist d.id)] := by
  simp [distEvents, h]

theorem distsEvents_valid (ds : List DistSlot) (h : ∀ d ∈ ds, d.valid = true) :
    ∀ e ∈ distsEvents ds, e.acc = .R := by
  intro e he
  simp only [distsEvents, List.mem_cons, List.mem_flatMap] at he
  rcases he with rfl | ⟨d, hd, hed⟩
  · rfl
  · rw [distEvents_valid d (h d hd)] at hed
    simp only [List.mem_singleton] at hed
    subst hed; rfl

theorem refreshes_false (q : MemQ) (a : AttrSlot)
    (h : a.valid = true) : refreshes q a = false := by
  simp [refreshes, h]

theorem staticEvents_warm (s : TopoState) (hw : Warm s) (c : StaticCache) : staticEvents s c = [rd (.static c)] := by
  simp [staticEvents, hw c]

/-- an access that cannot take part in a race between consulting calls: a plain read of topology data, or an
    access to the component registry made under the components mutex -/
def benign (e : Event) : Bool := (e.acc == .R && e.loc != .registry) || (e.locked && e.loc == .registry)

theorem benign_rd (l : Loc) (h : l ≠ .registry) : benign (rd l) = true := by
  simp [benign, rd, h]

theorem benign_lockedRegistry : benign lockedRegistry = true := by decide

theorem distsEvents_benign (ds : List DistSlot) (h : ∀ d ∈ ds, d.valid = true) :
    ∀ e ∈ distsEvents ds, benign e = true := by
  intro e he
  simp only [distsEvents, List.mem_cons, List.mem_flatMap] at he
  rcases he with rfl | ⟨d, hd, hed⟩
  · decide
  · rw [distEvents_valid d (h d hd)] at hed
    simp only [List.mem_singleton] at hed
    subst hed; exact benign_rd _ (by simp)

theorem attrsRefreshEvents_benign (as : List AttrSlot) (h : ∀ a ∈ as, a.valid = true) :
    ∀ e ∈ attrsRefreshEvents as, benign e = true := by
  intro e he
  simp only [attrsRefreshEvents, List.mem_flatMap, List.mem_range] at he
  obtain ⟨i, _, hi⟩ := he
  cases hg : as[i]? with
  | none => simp [hg] at hi
  | some a =>
    have hv := h a (List.mem_of_getElem? hg)
    simp only [hg, hv, if_true, List.mem_singleton] at hi
    subst hi; exact benign_rd _ (by simp)

/-- P0 valid_readers_write_free: in a valid state every access of every consulting call is a read of topology
    data, or an access to the registry under the components mutex. -/
theorem events_valid (s : TopoState) (hv : Valid s) (r : Reader) :
    ∀ e ∈ events s r, benign e = true := by
  obtain ⟨⟨hd, ha⟩, hw⟩ := hv
  intro e he
  cases r with
  | pure f =>
    cases f <;> simp only [events, List.mem_cons, List.not_mem_nil, or_false] at he <;>
      (first | (subst he; decide) | (rcases he with rfl | rfl <;> decide))
  | distancesGet ok =>
    cases ok
    · simp only [events, List.mem_singleton] at he; subst he; decide
    · simp only [events, List.mem_cons] at he
      rcases he with rfl | he
      · decide
      · exact distsEvents_benign s.dists hd e he
  | memattrQuery q id ok =>
    cases ok
    · simp only [events, Bool.not_false, if_true, List.mem_singleton] at he; subst he; decide
    · simp only [events, Bool.not_true, Bool.false_eq_true, if_false] at he
      cases hg : s.attrs[id]? with
      | none => simp only [hg, List.mem_singleton] at he; subst he; decide
      | some a =>
        have hmem : a ∈ s.attrs := List.mem_of_getElem? hg
        simp only [hg, refreshes_false q a (ha a hmem), Bool.false_eq_true, if_false, List.mem_cons,
          List.not_mem_nil, or_false] at he
        rcases he with rfl | rfl
        · decide
        · exact benign_rd _ (by simp)
  | diffBuild =>
    simp only [events, List.mem_cons, List.mem_append] at he
    rcases he with rfl | he | he
    · decide
    · exact distsEvents_benign s.dists hd e he
    · exact attrsRefreshEvents_benign s.attrs ha e he
  | exportXml ok =>
    cases ok
    · simp only [events, List.mem_singleton] at he; subst he; decide
    · simp only [events, List.mem_cons, List.mem_append, List.mem_flatMap, List.mem_map, List.mem_range,
        List.not_mem_nil, or_false] at he
      rcases he with rfl | rfl | ((⟨c, _, hc⟩ | he) | ⟨i, _, rfl⟩) | rfl | rfl
      · decide
      · decide
      · rw [staticEvents_warm s hw c] at hc
        simp only [List.mem_singleton] at hc; subst hc; exact benign_rd _ (by simp)
      · exact distsEvents_benign s.dists hd e he
      · exact benign_rd _ (by simp)
      · decide
      · decide

theorem benign_not_unlocked_write (e : Event) (h : benign e = true) : (e.acc == .W && !e.locked) = false := by
  cases e with | mk l a k => cases a <;> cases k <;> simp_all [benign]

theorem unlockedWrites_valid (s : TopoState) (hv : Valid s) (r : Reader) : unlockedWrites (events s r) = [] := by
  simp only [unlockedWrites, List.map_eq_nil_iff, List.filter_eq_nil_iff]
  intro e he
  simp [benign_not_unlocked_write e (events_valid s hv r e he)]

theorem conflict_of_benign (a b : Event) (ha : benign a = true) (hb : benign b = true) : conflict a b = false := by
  cases a with | mk la aa ka => cases b with | mk lb ab kb =>
  cases aa <;> cases ab <;> cases ka <;> cases kb <;> simp_all [benign, conflict] <;>
    (intro h; simp_all)

/-! ### every schedule from a valid state -/

structure SysInv (s0 : TopoState) (y : Sys) : Prop where
  st : y.st = s0
  pend : ∀ th ∈ y.thr, ∀ p, th.pending = some p → p.snap = s0
  tr : ∀ e ∈ y.trace, e.snap = s0 ∧ e.events = events s0 e.reader

theorem mem_set_cases {α} (l : List α) (i : Nat) (x y : α) (h : y ∈ l.set i x) : y = x ∨ y ∈ l := by
  rcases List.mem_or_eq_of_mem_set h with h | h
  · exact Or.inr h
  · exact Or.inl h

theorem step_sysInv (s0 : TopoState) (hv : Valid s0) (y : Sys) (t : Nat) (h : SysInv s0 y) :
    SysInv s0 (step y t) := by
  cases hg : y.thr[t]? with
  | none => simp only [step, hg]; exact h
  | some th =>
    have hth : th ∈ y.thr := List.mem_of_getElem? hg
    cases hp : th.pending with
    | some p =>
      have hsnap : p.snap = s0 := h.pend th hth p hp
      simp only [step, hg, hp]
      refine ⟨?_, ?_, ?_⟩
      · simp only [hsnap, unlockedWrites_valid s0 hv, applyWrites, List.foldl_nil]; exact h.st
      · intro th' hth' p' hp'
        rcases mem_set_cases _ _ _ _ hth' with rfl | hm
        · simp at hp'
        · exact h.pend th' hm p' hp'
      · intro e he
        simp only [List.mem_append, List.mem_singleton] at he
        rcases he with he | rfl
        · exact h.tr e he
        · exact ⟨hsnap, by simp only [hsnap]⟩
    | none =>
      cases hpr : th.prog with
      | nil => simp only [step, hg, hp, hpr]; exact h
      | cons r rest =>
        simp only [step, hg, hp, hpr]
        refine ⟨h.st, ?_, h.tr⟩
        intro th' hth' p' hp'
        rcases mem_set_cases _ _ _ _ hth' with rfl | hm
        · simp only [Option.some.injEq] at hp'; subst hp'; exact h.st
        · exact h.pend th' hm p' hp'

theorem start_sysInv (s0 : TopoState) (progs : List (List Reader)) : SysInv s0 (start s0 progs) := by
  refine ⟨rfl, ?_, ?_⟩
  · intro th hth p hp
    simp only [start, List.mem_map] at hth
    obtain ⟨_, _, rfl⟩ := hth
    simp at hp
  · intro e he; simp [start] at he

theorem run_sysInv (s0 : TopoState) (hv : Valid s0) (sched : List Nat) (y : Sys) (h : SysInv s0 y) :
    SysInv s0 (run y sched) := by
  induction sched generalizing y with
  | nil => exact h
  | cons t ts ih => exact ih (step y t) (step_sysInv s0 hv y t h)

theorem raceFree_of_sysInv (s0 : TopoState) (hv : Valid s0) (y : Sys) (h : SysInv s0 y) : RaceFree y.trace := by
  intro a ha b hb _ e₁ he₁ e₂ he₂
  rw [(h.tr a ha).2] at he₁
  rw [(h.tr b hb).2] at he₂
  exact conflict_of_benign _ _ (events_valid s0 hv _ _ he₁) (events_valid s0 hv _ _ he₂)

/-! ### without the refresh there is a race -/

theorem distEvents_invalid_has_write (d : DistSlot) (h : d.valid = false) : wr (.dist d.id) ∈ distEvents d := by
  simp [distEvents, h]

theorem events_get_invalid (s : TopoState) (d : DistSlot) (hd : d ∈ s.dists) (h : d.valid = false) :
    wr (.dist d.id) ∈ events s (.distancesGet true) := by
  simp only [events, distsEvents, List.mem_cons, List.mem_flatMap]
  exact Or.inr (Or.inr ⟨d, hd, distEvents_invalid_has_write d h⟩)

/-- the 4-step schedule: both threads observe, then both commit -/
theorem run_two_getters (s : TopoState) :
    (run (start s [[.distancesGet true], [.distancesGet true]]) [0, 1, 0, 1]).trace =
      [{ tid := 0, reader := .distancesGet true, snap := s, events := events s (.distancesGet true) },
       { tid := 1, reader := .distancesGet true, snap := s, events := events s (.distancesGet true) }] := by
  simp [run, start, step]

end Hw.Conc
