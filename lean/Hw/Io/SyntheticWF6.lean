/-
  Hw.Io.SyntheticWF6 — the `total-memory` clause of `Hw.Topo.WF` for `toDump t`: the total_memory of every object is its
  own local memory (NUMA nodes) plus the totals of its normal and memory children, for every `t` with `topoOK t`.
-/
import Hw.Io.SyntheticWF5
namespace Hw.Syn
open Hw Hw.Topo

set_option linter.unusedSectionVars false
set_option linter.unusedSimpArgs false

theorem fold_tot : ∀ (l : List Obj) (c : Cell), (∀ o ∈ l, (isNormal o.type || isMemory o.type) = true) →
    (l.foldl cellStep c).totSum = c.totSum + (l.map (·.totalMem)).sum := by
  intro l
  induction l with
  | nil => intro c _; simp
  | cons o l ih =>
    intro c hn
    have ho := hn o List.mem_cons_self
    rw [List.foldl_cons, ih (cellStep c o) (fun x hx => hn x (List.mem_cons_of_mem _ hx))]
    have : (cellStep c o).totSum = c.totSum + o.totalMem := by
      unfold cellStep
      simp only [ho, if_true]
      split
      · rfl
      · split
        · rfl
        · split <;> rfl
    rw [this]; simp [Nat.add_assoc]

theorem sum_map_lin (l : List Nat) (a : Nat) (g hh : Nat → Nat) :
    (l.map (fun e => a * g e + hh e)).sum = a * (l.map g).sum + (l.map hh).sum := by
  induction l with
  | nil => simp
  | cons x l ih => simp only [List.map_cons, List.sum_cons, ih, Nat.mul_add]; omega

theorem sum_indicator (d c : Nat) : ∀ n, ((List.range n).map (fun e => if e = d then c else 0)).sum = if d < n then c else 0 := by
  intro n
  induction n with
  | zero => simp
  | succ n ih =>
    rw [List.range_succ, List.map_append, List.sum_append, ih]
    simp only [List.map_cons, List.map_nil, List.sum_cons, List.sum_nil, Nat.add_zero]
    by_cases h1 : d < n
    · rw [if_pos h1, if_neg (by omega), if_pos (by omega)]; rfl
    · by_cases h2 : n = d
      · rw [if_neg h1, if_pos h2, if_pos (by omega)]; omega
      · rw [if_neg h1, if_neg h2, if_neg (by omega)]

theorem sum_const_range (a c : Nat) : ((List.range a).map (fun _ => c)).sum = a * c := by
  induction a with
  | zero => simp
  | succ a ih => rw [List.range_succ, List.map_append, List.sum_append, ih]; simp [Nat.succ_mul]

theorem map_range_getD {α β : Type} (ms : List α) (dflt : α) (f : α → β) :
    (List.range ms.length).map (fun s => f (ms[s]?.getD dflt)) = ms.map f := by
  apply List.ext_getElem
  · simp
  · intro i h1 h2
    simp only [List.length_map, List.length_range] at h1
    simp [List.getElem?_eq_getElem h1]

/-- local memory of the memory children of one object of depth `e` -/
def mOf (T : DTab) (e : Nat) : Nat := ((T.mem[e]?.getD []).map (·.mem)).sum

/-- memory below one object of depth `d` (it does not depend on `k`) -/
def mbOf (T : DTab) (d : Nat) : Nat :=
  ((List.range (T.D + 1)).map (fun e => if e ≥ d then (nOf T e / nOf T d) * mOf T e else 0)).sum

theorem memBelow_eq (E : DEnv) (d k : Nat) : memBelow E d k = mbOf E.T d := rfl

section
variable (t : Topo) (h : OK t)
include h

theorem q_spec (e : Nat) (he : e ≤ (mkTab t).D) : ∀ j d, d + j = e →
    nOf (mkTab t) e = nOf (mkTab t) d * (nOf (mkTab t) e / nOf (mkTab t) d) ∧
    (1 ≤ j → nOf (mkTab t) e / nOf (mkTab t) d = arOf (mkTab t) d * (nOf (mkTab t) e / nOf (mkTab t) (d + 1))) := by
  intro j
  induction j with
  | zero =>
    intro d hd
    have : d = e := by omega
    subst this
    have hp := nOf_pos t h d he
    refine ⟨?_, fun h0 => by omega⟩
    rw [Nat.div_self hp, Nat.mul_one]
  | succ j ih =>
    intro d hd
    have hd' : d < (mkTab t).D := by omega
    obtain ⟨h1, _⟩ := ih (d + 1) (by omega)
    have hp := nOf_pos t h d (Nat.le_of_lt hd')
    have hs := nOf_succ t d hd'
    have e1 : nOf (mkTab t) e = nOf (mkTab t) d * (arOf (mkTab t) d * (nOf (mkTab t) e / nOf (mkTab t) (d + 1))) := by
      rw [← Nat.mul_assoc, ← hs]; exact h1
    have hw : nOf (mkTab t) e / nOf (mkTab t) d = arOf (mkTab t) d * (nOf (mkTab t) e / nOf (mkTab t) (d + 1)) := by
      conv => lhs; rw [e1]
      rw [Nat.mul_div_cancel_left _ hp]
    exact ⟨by rw [hw]; exact e1, fun _ => hw⟩

theorem mb_rec (d : Nat) (hd : d ≤ (mkTab t).D) :
    mbOf (mkTab t) d = arOf (mkTab t) d * mbOf (mkTab t) (d + 1) + mOf (mkTab t) d := by
  unfold mbOf
  have hpt : ∀ e ∈ List.range ((mkTab t).D + 1),
      (if e ≥ d then (nOf (mkTab t) e / nOf (mkTab t) d) * mOf (mkTab t) e else 0) =
      arOf (mkTab t) d * (if e ≥ d + 1 then (nOf (mkTab t) e / nOf (mkTab t) (d + 1)) * mOf (mkTab t) e else 0) +
        (if e = d then mOf (mkTab t) d else 0) := by
    intro e he
    have he' : e ≤ (mkTab t).D := by have := List.mem_range.1 he; omega
    by_cases h1 : e < d
    · rw [if_neg (by omega), if_neg (by omega), if_neg (by omega)]; simp
    · by_cases h2 : e = d
      · subst h2
        rw [if_pos (by omega), if_neg (by omega), if_pos rfl, Nat.div_self (nOf_pos t h e he')]; simp
      · rw [if_pos (by omega), if_pos (by omega), if_neg h2, (q_spec t h e he' (e - d) d (by omega)).2 (by omega), Nat.mul_assoc]
        simp
  rw [List.map_congr_left hpt, sum_map_lin, sum_indicator, if_pos (by omega)]

theorem cl_total_memory (o : Obj) (ho : o ∈ (toDump t).objs) :
    (fun (_ : Dump) (a : Aux) (o : Obj) =>
      o.totalMem == (if o.type == tNUMA then ((o.attrs[0]?).getD 0).toNat else 0) + getN a.totSum o.id)
      (toDump t) (mkAux (toDump t)) o = true := by
  obtain ⟨_, _, _, _, e5, _⟩ := mkAux_fold (toDump t)
  simp only [e5]
  show (o.totalMem == (if o.type == tNUMA then ((o.attrs[0]?).getD 0).toNat else 0) + (cellOf (auxFold (toDump t)) o.id).totSum) = true
  rw [beq_iff_eq]
  cases objs_kind t o ho with
  | normal d k hd hk e =>
    have hnn : (ntype t d == tNUMA) = false := by
      have := (normal_facts _ (isNormal_lt _ (ntype_normal t h d hd))).1
      simp [this]
    rw [e, normalObj_type, hnn, normalObj_id, envOf_T, cell_normal t h d k hd hk]
    have hall : ∀ x ∈ kidsOf (envOf t) d k, (isNormal x.type || isMemory x.type) = true := by
      intro x hx
      unfold kidsOf at hx
      rcases List.mem_append.1 hx with hx | hx
      · obtain ⟨r, hr, rfl⟩ := List.mem_map.1 hx
        have hr1 : r < arOf (mkTab t) d := List.mem_range.1 hr
        rw [normalObj_type, ntype_normal t h (d + 1) (ar_pos_lt t d hd (by omega))]; rfl
      · obtain ⟨s, _, rfl⟩ := List.mem_map.1 hx
        rw [(firstObj_type (envOf t) d k s).2]; simp
    rw [fold_tot _ cell0 hall]
    have htm : (normalObj (envOf t) d k).totalMem = mbOf (mkTab t) d := rfl
    rw [htm, mb_rec t h d hd]
    unfold kidsOf
    rw [List.map_append, List.sum_append, List.map_map, List.map_map]
    have h1 : ((fun (x : Obj) => x.totalMem) ∘ fun r => normalObj (envOf t) (d + 1) (k * arOf (envOf t).T d + r)) =
        fun _ => mbOf (mkTab t) (d + 1) := rfl
    have h2 : ((fun (x : Obj) => x.totalMem) ∘ fun s => firstObj (envOf t) d k s) =
        fun s => (((mkTab t).mem[d]?.getD [])[s]?.getD ⟨0, 0⟩).mem := by
      funext s
      show (firstObj (envOf t) d k s).totalMem = _
      unfold firstObj; split <;> rfl
    rw [h1, h2, sum_const_range]
    have h3 : memLen (envOf t).T d = ((mkTab t).mem[d]?.getD []).length := rfl
    rw [h3, map_range_getD ((mkTab t).mem[d]?.getD []) ⟨0, 0⟩ (·.mem)]
    simp [cell0, mOf, envOf_T]
  | numa d k s hd hk hs e =>
    have hid : (numaObj (envOf t) d k s).id = numaId (mkTab t) d k s := rfl
    have hlt : numaId (mkTab t) d k s < (toDump t).objs.length := obj_id_lt t h _ (numaObj_mem t d k s hd hk hs)
    rw [e, hid, auxFold_cell _ _ hlt, parentIs_eq, numa_kids_filter t h d k s hd hk hs]
    simp [numaObj, cell0, tNUMA]
  | mc d k s hd hk hs hm e =>
    have hid : (mcObj (envOf t) d k s).id = memId (mkTab t) d k s := rfl
    have hlt : memId (mkTab t) d k s < (toDump t).objs.length := obj_id_lt t h _ (mcObj_mem t d k s hd hk hs hm)
    rw [e, hid, auxFold_cell _ _ hlt, parentIs_eq, mc_kids_filter t h d k s hd hk hs hm]
    simp [cellStep, cell0, mcObj, numaObj, isNormal, isMemory, tNUMA, tGROUP, tMEMCACHE]

end

section
variable (t : Topo) (h : OK t)
include h

theorem tc_pu_osindex_unique (hp : puOK t = true) :
    (fun (d : Dump) (_ : Aux) => decide (((d.objs.filter (fun o => o.type == tPU)).map (·.osidx)).Nodup)) (toDump t) (mkAux (toDump t)) = true := by
  simp only [decide_eq_true_eq]
  have hnd : ((toDump t).objs.filter (fun o => o.type == tPU)).Nodup := by
    have := (objs_pairwise t).filter (fun o => o.type == tPU)
    exact this.imp (fun {a b} hab heq => by rw [heq] at hab; exact Nat.lt_irrefl _ hab)
  unfold List.Nodup
  rw [List.pairwise_map]
  refine List.Pairwise.imp_of_mem ?_ hnd
  intro a b ha hb hne heq
  rw [List.mem_filter, beq_iff_eq] at ha hb
  have key : ∀ x, x ∈ (toDump t).objs → x.type = tPU → ∃ k, k < nOf (mkTab t) (mkTab t).D ∧ x = normalObj (envOf t) (mkTab t).D k ∧
      x.osidx = ((pu t k : Nat) : Int) := by
    intro x hx hty
    cases objs_kind t x hx with
    | normal d k hd hk e =>
      rw [e, normalObj_type] at hty
      have hD := (ntype_pu t h d hd).1 hty
      subst hD
      refine ⟨k, hk, e, ?_⟩
      have hd0 : (mkTab t).D ≠ 0 := by rw [mkTab_D]; have := h.ne; omega
      rw [e, normalObj_osidx t _ k hd0, mkTab_D, h.puOs]
      simp only [List.getElem?_map, pu]
      cases t.puIdx[k]? <;> rfl
    | numa d k s hd hk hs e =>
      rw [e] at hty
      have : (numaObj (envOf t) d k s).type = tNUMA := rfl
      rw [this] at hty; exact absurd hty (by decide)
    | mc d k s hd hk hs hm e =>
      rw [e] at hty
      have : (mcObj (envOf t) d k s).type = tMEMCACHE := rfl
      rw [this] at hty; exact absurd hty (by decide)
  obtain ⟨k, hk, ea, oa⟩ := key a ha.1 ha.2
  obtain ⟨k', hk', eb, ob⟩ := key b hb.1 hb.2
  rw [oa, ob] at heq
  have : k = k' := pu_inj t h hp k k' hk hk' (by omega)
  subst this
  exact hne (by rw [ea, eb])

end

end Hw.Syn
