/- Hw.Io.XmlDiffPerm — the attribute loop of hwloc__xml_import_diff_one does not depend on the ORDER of the attributes as long as no
   name is repeated (with a repeated name the last occurrence wins, which a permutation can change). -/
import Hw.Io.XmlDiffLemmas
namespace Hw.XmlDiff
open Hw Hw.Xml Hw.Diff

def AK.name : AK → Bytes
  | .type => nmType | .depth => nmDepth | .index => nmIndex | .atype => nmAType
  | .aindex => nmAIndex | .aname => nmAName | .old => nmOld | .new => nmNew

theorem attrKind_eq_some (n : Bytes) (k : AK) (h : attrKind n = some k) : n = k.name := by
  unfold attrKind at h
  repeat' split at h
  all_goals first
    | (cases h; assumption)
    | (cases h)

/-- two iterations of the attribute loop on attributes with different names commute -/
theorem slotStep_comm (s : Slots) (a b : Bytes × Bytes) (hne : a.1 ≠ b.1) :
    (slotStep s a).bind (fun s' => slotStep s' b) = (slotStep s b).bind (fun s' => slotStep s' a) := by
  unfold slotStep
  cases ha : attrKind a.1 with
  | none => cases hb : attrKind b.1 with
    | none => rfl
    | some kb => cases kb <;> simp [ha]
  | some ka =>
    cases hb : attrKind b.1 with
    | none => cases ka <;> simp [hb]
    | some kb =>
      have h1 := attrKind_eq_some _ _ ha
      have h2 := attrKind_eq_some _ _ hb
      have hk : ka ≠ kb := fun e => hne (by rw [h1, h2, e])
      cases ka <;> cases kb <;> first | (exact absurd rfl hk) | (simp [ha, hb])

theorem slotsLoop_cons (s : Slots) (a : Bytes × Bytes) (r : AttrL) :
    slotsLoop s (a :: r) = (slotStep s a).bind (fun s' => slotsLoop s' r) := by
  simp only [slotsLoop]
  cases slotStep s a <;> rfl

theorem slotsLoop_perm {a b : AttrL} (hp : a.Perm b) : (a.map (·.1)).Nodup → ∀ s, slotsLoop s a = slotsLoop s b := by
  induction hp with
  | nil => intro _ s; rfl
  | cons x _ ih =>
    intro hn s
    simp only [List.map_cons, List.nodup_cons] at hn
    rw [slotsLoop_cons, slotsLoop_cons]
    cases slotStep s x with
    | none => rfl
    | some s' => exact ih hn.2 s'
  | swap x y l =>
    intro hn s
    simp only [List.map_cons, List.nodup_cons, List.mem_cons, not_or] at hn
    have hne : y.1 ≠ x.1 := hn.1.1
    have hc := slotStep_comm s y x hne
    simp only [slotsLoop_cons]
    rw [← Option.bind_assoc, ← Option.bind_assoc, hc]
  | trans h1 _ ih1 ih2 =>
    intro hn s
    have hn2 := (List.Perm.nodup_iff (h1.map (·.1))).1 hn
    rw [ih1 hn s, ih2 hn2 s]

/-- the entry an element contributes does not depend on the order of its attributes when no name is repeated -/
theorem importOne_perm {a b : AttrL} (hp : a.Perm b) (hn : (a.map (·.1)).Nodup) : importOne a = importOne b := by
  unfold importOne
  rw [slotsLoop_perm hp hn]

end Hw.XmlDiff
