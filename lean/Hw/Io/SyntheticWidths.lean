/-
  Hw.Io.SyntheticWidths — the total widths of hwloc_backend_synthetic_init never wrap (the parser rejects a
  description whose number of objects does not fit an unsigned long): `totalwidth` of every level is the product of the
  arities above it as a natural number, positive, below 2^64 and non-decreasing with the depth; hence the divisions
  of hwloc_synthetic_process_indexes never divide by zero (`Err.divzero` is unreachable).
-/
import Hw.Io.SyntheticLemmas
namespace Hw.Syn
open Hw Hw.Topo

theorem lvAt_append (A : List Level) (x : Level) (j : Nat) :
    lvAt (A ++ [x]) j = if j < A.length then lvAt A j else if j = A.length then x else {} := by
  unfold lvAt
  by_cases h1 : j < A.length
  · simp [h1, List.getElem?_append_left h1]
  · by_cases h2 : j = A.length
    · subst h2; simp
    · have : A.length < j := by omega
      simp only [h1, h2, if_false]
      rw [List.getElem?_eq_none (by simp; omega)]
      rfl

/-- the widths of the initialised slots: positive, bounded by the running total `T` < 2^64, non-decreasing,
each the product of the width and the arity of the level above; the last one is `T` -/
structure WOK (L : List Level) (T : Nat) : Prop where
  tpos : 1 ≤ T
  tlt : T < u64
  pos : ∀ j, j < L.length → 1 ≤ (lvAt L j).width
  le : ∀ j, j < L.length → (lvAt L j).width ≤ T
  mono : ∀ i j, i ≤ j → j < L.length → (lvAt L i).width ≤ (lvAt L j).width
  chain : ∀ j, j + 1 < L.length → (lvAt L (j + 1)).width = (lvAt L j).width * (lvAt L j).arity
  last : 1 ≤ L.length → (lvAt L (L.length - 1)).width = T

theorem WOK.same {L L' : List Level} {T : Nat} (h : WOK L T) (hs : SameArity L L') : WOK L' T := by
  obtain ⟨hl, ha, hw⟩ := hs
  refine ⟨h.tpos, h.tlt, ?_, ?_, ?_, ?_, ?_⟩
  · intro j hj; rw [hw]; exact h.pos j (by omega)
  · intro j hj; rw [hw]; exact h.le j (by omega)
  · intro i j hij hj; rw [hw, hw]; exact h.mono i j hij (by omega)
  · intro j hj; rw [hw, hw, ha]; exact h.chain j (by omega)
  · intro h1; rw [hl, hw]; exact h.last (by omega)

/-- changing the arity of the last level only -/
theorem WOK.setLastArity {L : List Level} {T : Nat} (h : WOK L T) (a : Nat) :
    WOK (updLevel L (L.length - 1) (fun l => { l with arity := a })) T := by
  have hw : ∀ j, (lvAt (updLevel L (L.length - 1) (fun l => { l with arity := a })) j).width = (lvAt L j).width := by
    intro j; rw [lvAt_updLevel]; split
    · rename_i hj; rw [hj.1]
    · rfl
  have har : ∀ j, j ≠ L.length - 1 → (lvAt (updLevel L (L.length - 1) (fun l => { l with arity := a })) j).arity = (lvAt L j).arity := by
    intro j hj; rw [lvAt_updLevel]; split
    · rename_i h'; exact absurd h'.1 hj
    · rfl
  refine ⟨h.tpos, h.tlt, ?_, ?_, ?_, ?_, ?_⟩
  · intro j hj; rw [updLevel_length] at hj; rw [hw]; exact h.pos j hj
  · intro j hj; rw [updLevel_length] at hj; rw [hw]; exact h.le j hj
  · intro i j hij hj; rw [updLevel_length] at hj; rw [hw, hw]; exact h.mono i j hij hj
  · intro j hj; rw [updLevel_length] at hj; rw [hw, hw, har j (by omega)]; exact h.chain j hj
  · intro h1; rw [updLevel_length] at h1 ⊢; rw [hw]; exact h.last h1

/-- a new level of `item` objects per object of the last one -/
theorem WOK.append {L : List Level} {T : Nat} (h : WOK L T) (hne : 1 ≤ L.length) (item : Nat) (hi : 1 ≤ item)
    (hfit : T * item < u64) (nl : Level) (hnl : nl.width = T * item) :
    WOK (updLevel L (L.length - 1) (fun l => { l with arity := item }) ++ [nl]) (T * item) := by
  have h0 := h.setLastArity item
  generalize hM : updLevel L (L.length - 1) (fun l => { l with arity := item }) = M at h0
  have hlen : M.length = L.length := by rw [← hM, updLevel_length]
  have hlastA : (lvAt M (M.length - 1)).arity = item := by
    rw [← hM, updLevel_length, lvAt_updLevel]
    have : L.length - 1 < L.length := by omega
    simp [this]
  have hTle : T ≤ T * item := Nat.le_mul_of_pos_right T (by omega)
  refine ⟨by have := h.tpos; omega, hfit, ?_, ?_, ?_, ?_, ?_⟩
  · intro j hj
    rw [lvAt_append]
    simp only [List.length_append, List.length_cons, List.length_nil] at hj
    split
    · rename_i hj'; exact h0.pos j hj'
    · have : j = M.length := by omega
      simp only [this, if_true, hnl]; have := h.tpos; omega
  · intro j hj
    rw [lvAt_append]
    simp only [List.length_append, List.length_cons, List.length_nil] at hj
    split
    · rename_i hj'; exact Nat.le_trans (h0.le j hj') hTle
    · have : j = M.length := by omega
      simp only [this, if_true, hnl]; exact Nat.le_refl _
  · intro i j hij hj
    simp only [List.length_append, List.length_cons, List.length_nil] at hj
    rw [lvAt_append, lvAt_append]
    by_cases hj' : j < M.length
    · have hi' : i < M.length := by omega
      simp only [hi', hj', if_true]; exact h0.mono i j hij hj'
    · have hjm : j = M.length := by omega
      by_cases hi' : i < M.length
      · simp only [hi', hjm, if_true, Nat.lt_irrefl, if_false, hnl]
        exact Nat.le_trans (h0.le i hi') hTle
      · have him : i = M.length := by omega
        simp only [hjm, him]; exact Nat.le_refl _
  · intro j hj
    simp only [List.length_append, List.length_cons, List.length_nil] at hj
    rw [lvAt_append, lvAt_append]
    by_cases hj' : j + 1 < M.length
    · have : j < M.length := by omega
      simp only [hj', this, if_true]; exact h0.chain j hj'
    · have hjm : j + 1 = M.length := by omega
      have hjl : j < M.length := by omega
      have hjm' : j = M.length - 1 := by omega
      simp only [hjm, hjl, if_true, Nat.lt_irrefl, if_false, hnl]
      rw [hjm', hlastA, h0.last (by omega)]
  · intro _
    simp only [List.length_append, List.length_cons, List.length_nil, Nat.add_sub_cancel]
    rw [lvAt_append]
    simp [hnl]

/-! ### through the parsing loop -/

structure WInv (st : Loop) : Prop where
  wok : WOK st.levels st.total
  ne : 1 ≤ st.levels.length
  w0 : (lvAt st.levels 0).width = 1

theorem w0_upd (L : List Level) (i : Nat) (f : Level → Level) (hf : ∀ x, (f x).width = x.width) :
    (lvAt (updLevel L i f) 0).width = (lvAt L 0).width := by
  rw [lvAt_updLevel]
  split
  · rename_i h; rw [hf, h.1]
  · rfl

theorem attachedStep_winv (p : Bytes) (st : Loop) (h : WInv st) (st' : Loop) (next : Bytes)
    (he : attachedStep p st = .ok (st', next)) : WInv st' := by
  unfold attachedStep at he
  simp only at he
  split at he
  · cases he
  · split at he
    · cases he
    · split at he
      · cases he
      · split at he
        · cases he
        · simp only [Except.ok.injEq, Prod.mk.injEq] at he
          obtain ⟨rfl, _⟩ := he
          exact ⟨h.wok.same (SameArity.upd _ _ _ (fun x => rfl) (fun x => rfl)), by simp only [updLevel_length]; exact h.ne,
            by simp only; exact Eq.trans (w0_upd _ _ _ (fun x => rfl)) h.w0⟩

theorem levelStep_winv (c : Byte) (pos : Bytes) (st : Loop) (h : WInv st) (st' : Loop) (next : Bytes)
    (he : levelStep c pos st = .ok (st', next)) : WInv st' := by
  unfold levelStep at he
  simp only at he
  split at he
  · cases he
  · generalize strtoulS 0 _ = q at he
    obtain ⟨item, nx⟩ := q
    simp only at he
    split at he
    · cases he
    · split at he
      · cases he
      · split at he
        · cases he
        · rename_i hitem0 hfit
          split at he
          · cases he
          · split at he
            · cases he
            · split at he
              · cases he
              · simp only [Except.ok.injEq, Prod.mk.injEq] at he
                obtain ⟨rfl, _⟩ := he
                have htp := h.wok.tpos
                have hmul : st.total * item ≤ ulongMax := by
                  have : item ≤ ulongMax / st.total := by omega
                  rw [Nat.le_div_iff_mul_le (by omega)] at this
                  rw [Nat.mul_comm]; exact this
                have hlt : st.total * item < u64 := by unfold ulongMax at hmul; unfold u64; omega
                have hmod : (st.total * item) % u64 = st.total * item := Nat.mod_eq_of_lt hlt
                refine ⟨?_, by simp only [List.length_append, updLevel_length, List.length_cons, List.length_nil]; omega, ?_⟩
                · simp only [hmod]
                  exact h.wok.append h.ne item (by omega) hlt _ rfl
                · simp only
                  rw [lvAt_append]
                  have : 0 < (updLevel st.levels (st.levels.length - 1) (fun l => { l with arity := item })).length := by
                    rw [updLevel_length]; exact h.ne
                  simp only [this, if_true]
                  exact Eq.trans (w0_upd _ _ _ (fun x => rfl)) h.w0

theorem loopBody_winv (pos : Bytes) (st : Loop) (h : WInv st) (st' : Loop) (next : Option Bytes)
    (he : loopBody pos st = .ok (st', next)) : WInv st' := by
  have h' : WInv { st with levels := updLevel st.levels (st.levels.length - 1) (fun l => { l with arity := 0 }), log := (st.levels.length - 1) :: st.log } :=
    ⟨h.wok.setLastArity 0, by simp only [updLevel_length]; exact h.ne, by simp only; exact Eq.trans (w0_upd _ _ _ (fun x => rfl)) h.w0⟩
  unfold loopBody at he
  simp only at he
  split at he
  · simp only [Except.ok.injEq, Prod.mk.injEq] at he
    obtain ⟨rfl, _⟩ := he; exact h'
  · split at he
    · split at he
      · rename_i s2 n2 heq
        simp only [Except.ok.injEq, Prod.mk.injEq] at he
        obtain ⟨rfl, _⟩ := he
        exact attachedStep_winv _ _ h' _ _ heq
      · cases he
    · split at he
      · rename_i s2 n2 heq
        simp only [Except.ok.injEq, Prod.mk.injEq] at he
        obtain ⟨rfl, _⟩ := he
        exact levelStep_winv _ _ _ h' _ _ heq
      · cases he

theorem mainLoop_winv : ∀ (fuel : Nat) (pos : Bytes) (st : Loop), WInv st → ∀ st', mainLoop fuel pos st = .ok st' → WInv st' := by
  intro fuel
  induction fuel with
  | zero => intro pos st h st' he; simp [mainLoop] at he; subst he; exact h
  | succ f ih =>
    intro pos st h st' he
    unfold mainLoop at he
    split at he
    · simp only [Except.ok.injEq] at he; subst he; exact h
    · split at he
      · cases he
      · rename_i s2 heq
        simp only [Except.ok.injEq] at he; subst he
        exact loopBody_winv _ _ h _ _ heq
      · rename_i s2 nx heq
        exact ih _ _ (loopBody_winv _ _ h _ _ heq) _ he

/-! ### after the loop -/

theorem sanity_wok (st : Loop) (h : WInv st) (levels : List Level) (log : Log)
    (he : sanity st = .ok (levels, log)) : WOK levels st.total := by
  have h1 : WOK (setType (updLevel st.levels (st.levels.length - 1) (fun l => { l with arity := 0 })) (st.levels.length - 1) tPU) st.total :=
    (h.wok.setLastArity 0).same (setType_same _ _ _ _ _ _)
  unfold sanity at he
  simp only at he
  repeat' split at he
  all_goals first
    | cases he; done
    | (simp only [Except.ok.injEq, Prod.mk.injEq] at he; obtain ⟨rfl, _⟩ := he; exact h1)

theorem insertNuma_wok (levels : List Level) (count T : Nat) (h : WOK levels T) (hne : 1 ≤ levels.length)
    (h0 : (lvAt levels 0).width = 1) : WOK (insertNuma levels count).1 T ∧ (lvAt (insertNuma levels count).1 0).width = 1 := by
  unfold insertNuma
  cases levels with
  | nil => simp at hne
  | cons l0 rest =>
    simp only
    have hw0 : l0.width = 1 := by simpa [lvAt] using h0
    -- index arithmetic on the new list: slot 0 = l0 (arity 1), slot 1 = the NUMA level, slot j+2 = old slot j+1
    have e0 : ∀ (x y : Level) (r : List Level), lvAt (x :: y :: r) 0 = x := fun _ _ _ => rfl
    have e1 : ∀ (x y : Level) (r : List Level), lvAt (x :: y :: r) 1 = y := fun _ _ _ => rfl
    have e2 : ∀ (x y : Level) (r : List Level) (j : Nat), lvAt (x :: y :: r) (j + 2) = lvAt (l0 :: r) (j + 1) := by
      intro x y r j; simp [lvAt]
    have old0 : lvAt (l0 :: rest) 0 = l0 := rfl
    refine ⟨⟨h.tpos, h.tlt, ?_, ?_, ?_, ?_, ?_⟩, by rw [e0]; exact hw0⟩
    · intro j hj
      match j with
      | 0 => rw [e0]; show 1 ≤ l0.width; omega
      | 1 => rw [e1]; show 1 ≤ l0.width; omega
      | j + 2 => rw [e2]; exact h.pos (j + 1) (by simp only [List.length_cons] at hj ⊢; omega)
    · intro j hj
      match j with
      | 0 => rw [e0]; have := h.le 0 (by simp); rw [old0] at this; exact this
      | 1 => rw [e1]; simp only; have := h.le 0 (by simp); rw [old0] at this; exact this
      | j + 2 => rw [e2]; exact h.le (j + 1) (by simp only [List.length_cons] at hj ⊢; omega)
    · intro i j hij hj
      match i, j with
      | 0, 0 => exact Nat.le_refl _
      | 0, 1 => rw [e0, e1]; exact Nat.le_refl _
      | 0, j + 2 =>
        rw [e0, e2]
        have := h.mono 0 (j + 1) (by omega) (by simp only [List.length_cons] at hj ⊢; omega)
        rw [old0] at this; exact this
      | 1, 1 => exact Nat.le_refl _
      | 1, j + 2 =>
        rw [e1, e2]; simp only
        have := h.mono 0 (j + 1) (by omega) (by simp only [List.length_cons] at hj ⊢; omega)
        rw [old0] at this; exact this
      | i + 2, j + 2 =>
        rw [e2, e2]
        exact h.mono (i + 1) (j + 1) (by omega) (by simp only [List.length_cons] at hj ⊢; omega)
      | 1, 0 => omega
      | i + 2, 0 => omega
      | i + 2, 1 => omega
    · intro j hj
      match j with
      | 0 => rw [e1, e0]; show l0.width = l0.width * 1; omega
      | 1 =>
        rw [show (1 : Nat) + 1 = 0 + 2 from rfl, e2, e1]; simp only
        have := h.chain 0 (by simp only [List.length_cons] at hj ⊢; omega)
        rw [old0] at this; exact this
      | j + 2 =>
        rw [show j + 2 + 1 = (j + 1) + 2 from rfl, e2, e2]
        exact h.chain (j + 1) (by simp only [List.length_cons] at hj ⊢; omega)
    · intro _
      cases rest with
      | nil =>
        simp only [List.length_cons, List.length_nil]
        rw [e1]; simp only
        have := h.last (by simp); simpa [lvAt] using this
      | cons r rs =>
        have := h.last (by simp)
        simp only [List.length_cons, Nat.add_sub_cancel] at this ⊢
        rw [show rs.length + 1 + 1 = rs.length + 2 from rfl, e2]
        exact this

theorem typesAndNuma_wok (st : Loop) (levels : List Level) (log : Log) (T : Nat) (h : WOK levels T)
    (hne : 1 ≤ levels.length) (h0 : (lvAt levels 0).width = 1) :
    WOK (typesAndNuma st levels log).1 T ∧ (lvAt (typesAndNuma st levels log).1 0).width = 1 := by
  unfold typesAndNuma
  simp only
  have hr : ∀ r : List Level × Log × Bool × Nat,
      r = (if (((levels.drop 1).take (levels.length - 2)).filter (fun l => l.attr.type == tNONE)).length ≠ 0
            then assignDefaultTypes levels levels.length st.numaNr
            else (levels, [], typeCount levels tNUMA ≠ 0, 0)) → SameArity levels r.1 := by
    intro r hr
    subst hr
    split
    · exact (assignDefaultTypes_spec levels levels.length st.numaNr).1
    · exact SameArity.refl _
  generalize hrd : (if (((levels.drop 1).take (levels.length - 2)).filter (fun l => l.attr.type == tNONE)).length ≠ 0
            then assignDefaultTypes levels levels.length st.numaNr
            else (levels, [], typeCount levels tNUMA ≠ 0, 0)) = r
  have hsp := hr r hrd.symm
  have hw := h.same hsp
  have h0' : (lvAt r.1 0).width = 1 := by rw [hsp.2.2]; exact h0
  split
  · exact insertNuma_wok r.1 levels.length T hw (by rw [hsp.1]; exact hne) h0'
  · exact ⟨hw, h0'⟩

/-! ### no division by zero, no failed `assert(nb)` / `assert(step)` -/

theorem xyLoop_err (cap total : Nat) : ∀ (fuel : Nat) (s : Bytes) (m nbs : Nat) (acc : List ILoop) (e : Err),
    xyLoop cap total fuel s m nbs acc = .err e → e = .loopsOverflow := by
  intro fuel
  induction fuel with
  | zero => intro s m nbs acc e h; simp [xyLoop] at h
  | succ f ih =>
    intro s m nbs acc e h
    unfold xyLoop at h
    generalize strtolU32 0 s = p at h
    obtain ⟨step, t2⟩ := p
    simp only at h
    repeat' split at h
    all_goals first
      | cases h; done
      | (simp only [XY.err.injEq] at h; exact h.symm)
      | exact ih _ _ _ _ _ h

/-- the product of the loop counts as hwloc_synthetic_process_indexes accumulates it -/
def nbsOf (loops : List ILoop) : Nat := loops.foldl (fun p l => (p * l.nb) % u64) 1

theorem nbsOf_snoc (acc : List ILoop) (x : ILoop) : nbsOf (acc ++ [x]) = (nbsOf acc * x.nb) % u64 := by
  simp [nbsOf, List.foldl_append]

/-- F69: every accepted `x*y` loop keeps `nbs * nb ≤ total`: the product never wraps and is never 0 -/
theorem xyLoop_nbs (cap total : Nat) (ht : total < u64) : ∀ (fuel : Nat) (s : Bytes) (m nbs : Nat) (acc loops : List ILoop),
    nbsOf acc = nbs → 1 ≤ nbs → nbs ≤ total → xyLoop cap total fuel s m nbs acc = .ok loops →
    1 ≤ nbsOf loops ∧ nbsOf loops ≤ total := by
  intro fuel
  induction fuel with
  | zero => intro s m nbs acc loops _ _ _ h; simp [xyLoop] at h
  | succ f ih =>
    intro s m nbs acc loops hacc h1 h2 h
    unfold xyLoop at h
    generalize strtolU32 0 s = p at h
    obtain ⟨step, t2⟩ := p
    simp only at h
    split at h
    · cases h
    · split at h
      · split at h
        · cases h
        · generalize strtolU32 0 _ = q at h
          obtain ⟨nb, t3⟩ := q
          simp only at h
          split at h
          · cases h
          · split at h
            · cases h
            · split at h
              · cases h
              · split at h
                · cases h
                · split at h
                  · cases h
                  · rename_i hnb0 hnbs _
                    have hmul : nbs * nb ≤ total := by
                      have : nb ≤ total / nbs := by omega
                      rw [Nat.le_div_iff_mul_le (by omega)] at this
                      rw [Nat.mul_comm]; exact this
                    have hmod : (nbs * nb) % u64 = nbs * nb := Nat.mod_eq_of_lt (by omega)
                    have hpos : 1 ≤ nbs * nb := Nat.mul_pos (by omega) (by omega)
                    have hnew : nbsOf (acc ++ [⟨step, nb⟩]) = nbs * nb := by rw [nbsOf_snoc, hacc, hmod]
                    split at h
                    · simp only [XY.ok.injEq] at h; subst h
                      rw [hnew]; exact ⟨hpos, hmul⟩
                    · split at h
                      · cases h
                      · exact ih _ _ _ _ loops (by rw [hnew, hmod]) (by rw [hmod]; exact hpos) (by rw [hmod]; exact hmul) h
      · cases h

theorem tyLoop_err (levels : List Level) (cap len : Nat) : ∀ (fuel : Nat) (s : Bytes) (off : Nat) (acc : List Nat) (log : Log) (e : Err),
    (tyLoop levels cap len fuel s off acc log).1 = .err e → e = .loopsOverflow := by
  intro fuel
  induction fuel with
  | zero => intro s off acc log e h; simp [tyLoop] at h
  | succ f ih =>
    intro s off acc log e h
    unfold tyLoop at h
    split at h
    · cases h
    · split at h
      · cases h
      · generalize scanLevels levels _ (maxDepth + 1) 0 log = q at h
        obtain ⟨r, log'⟩ := q
        simp only at h
        split at h
        · simp only [TY.err.injEq] at h; exact h.symm
        · split at h
          · cases h
          · split at h
            · cases h
            · split at h
              · cases h
              · exact ih _ _ _ _ _ h

/-- with positive, non-decreasing widths and an allocatable `total`, "compute actual loop step/nb" never fails an
assertion and never divides by zero -/
theorem tyCompute_no_err (levels : List Level) (total : Nat) (depths : List Nat)
    (hdep : ∀ d ∈ depths, d < levels.length) (hne : 1 ≤ levels.length)
    (hpos : ∀ j, j < levels.length → 1 ≤ (lvAt levels j).width)
    (hmono : ∀ i j, i ≤ j → j < levels.length → (lvAt levels i).width ≤ (lvAt levels j).width)
    (htot : total ≤ u32 - 1) :
    ∀ (rest : List Nat) (k : Nat) (loops : List ILoop) (minstep nbs : Nat) (log : Log) (e : Err),
    (∀ d ∈ rest, d < levels.length) → (tyCompute levels total depths rest k loops minstep nbs log).1 ≠ .err e := by
  intro rest
  induction rest with
  | nil => intro k loops minstep nbs log e _; simp [tyCompute]
  | cons my rest ih =>
    intro k loops minstep nbs log e hrest
    have hmy : my < levels.length := hrest my List.mem_cons_self
    have hprev := prev_lt levels.length my depths 0 hdep (by omega)
    -- prev ≤ my
    have hpm : ∀ (ds : List Nat) (p : Nat), p ≤ my → ds.foldl (fun p d => if d < my ∧ d > p then d else p) p ≤ my := by
      intro ds
      induction ds with
      | nil => intro p hp; simpa using hp
      | cons d ds ihd =>
        intro p hp
        simp only [List.foldl_cons]
        apply ihd
        split
        · rename_i hd; omega
        · exact hp
    have hprevle := hpm depths 0 (Nat.zero_le _)
    have hwmy := hpos my hmy
    have hwprev := hpos _ hprev
    have hwle := hmono _ my hprevle hmy
    unfold tyCompute
    split
    · simp
    · simp only
      split
      · simp
      · rename_i hwt
        split
        · rename_i hz; omega
        · split
          · rename_i hab
            exfalso
            -- step and nb are in 1 .. 2^24
            have htl : total < 4294967296 := by unfold u32 at htot; omega
            have h1 : 1 ≤ total / (lvAt levels my).width := (Nat.le_div_iff_mul_le (by omega)).2 (by omega)
            have h2 : total / (lvAt levels my).width ≤ total := Nat.div_le_self _ _
            have h3 : 1 ≤ (lvAt levels my).width / (lvAt levels (depths.foldl (fun p d => if d < my ∧ d > p then d else p) 0)).width :=
              (Nat.le_div_iff_mul_le (by omega)).2 (by omega)
            have h4 : (lvAt levels my).width / (lvAt levels (depths.foldl (fun p d => if d < my ∧ d > p then d else p) 0)).width ≤ (lvAt levels my).width :=
              Nat.div_le_self _ _
            unfold u32 at hab
            omega
          · exact ih _ _ _ _ _ e (fun d hd => hrest d (List.mem_cons_of_mem _ hd))

theorem finishLoops_err (total : Nat) (loops : List ILoop) (minstep nbs : Nat) (e : Err)
    (h : piOf (finishLoops total loops minstep nbs) = .err e) : e = .abort ∧ nbs = 0 := by
  unfold finishLoops at h
  split at h
  · rename_i hn; simp only [piOf, PI.err.injEq] at h; exact ⟨h.symm, hn⟩
  · simp only at h
    split at h
    · simp [piOf] at h
    · split at h <;> simp [piOf] at h

/-- the only way hwloc_synthetic_process_indexes can fail an assertion: the product of the `nb` of an `x*y` (or type)
interleaving is 0 modulo 2^64 (`assert(nbs)`); it never divides by zero -/
theorem processIndexes_err (levels : List Level) (ix : Idx) (total : Nat) (e : Err) (hne : 1 ≤ levels.length)
    (hlast : LastZero levels) (hpos : ∀ j, j < levels.length → 1 ≤ (lvAt levels j).width)
    (hmono : ∀ i j, i ≤ j → j < levels.length → (lvAt levels i).width ≤ (lvAt levels j).width)
    (h : (processIndexes levels ix total).1 = .err e) : e = .abort := by
  have hno := processIndexes_loops_safe levels ix total
  have h0 := h
  unfold processIndexes at h
  split at h
  · cases h
  · rename_i s len _
    split at h
    · cases h
    · rename_i htot
      split at h
      · split at h <;> cases h
      · simp only at h
        split at h
        · split at h
          · cases h
          · rename_i e' he
            simp only [PI.err.injEq] at h; subst h
            have := xyLoop_err _ _ _ _ _ _ _ _ he
            subst this
            exact absurd h0 hno
          · exact (finishLoops_err _ _ _ _ _ h).1
        · have hs := tyLoop_spec levels (1 + countColons s len + 1) len hne hlast (s.length + 1) s 0 [] []
            (AllLt.nil _) (by simp)
          split at h
          · cases h
          · rename_i e' log he
            simp only [PI.err.injEq] at h; subst h
            have := tyLoop_err levels _ _ _ _ _ _ _ e' (by rw [he])
            subst this
            exact absurd h0 hno
          · rename_i depths0 log he
            rw [he] at hs
            have hdep : ∀ d ∈ depths0.take (1 + countColons s len), d < levels.length :=
              fun d hd => hs.2 depths0 rfl d (List.mem_of_mem_take hd)
            split at h
            · cases h
            · rename_i e' log2 he2
              exfalso
              exact tyCompute_no_err levels total _ hdep hne hpos hmono (by omega) _ 0 [] (total % u32) 1 log e' hdep (by rw [he2])
            · exact (finishLoops_err _ _ _ _ _ h).1

/-- F69: the `x*y` notation never fails an assertion: its only outcomes are an array or "indexes ignored" -/
theorem processIndexes_xy_no_err (levels : List Level) (ix : Idx) (total : Nat) (s : Bytes) (len : Nat) (e : Err)
    (hs : ix.str = some (s, len)) (hd : isDig (s.head?.getD 0) = true) : (processIndexes levels ix total).1 ≠ .err e := by
  intro h
  have h0 := h
  unfold processIndexes at h
  rw [hs] at h
  simp only at h
  split at h
  · cases h
  · rename_i htot
    split at h
    · split at h <;> cases h
    · split at h
      · cases h
      · rename_i e' he
        simp only [PI.err.injEq] at h; subst h
        have := xyLoop_err _ _ _ _ _ _ _ _ he
        subst this
        exact absurd h0 (processIndexes_loops_safe levels ix total)
      · rename_i loops he
        have hnz := (finishLoops_err _ _ _ _ _ h).2
        have ht : total < u64 := by unfold u32 at htot; unfold u64; omega
        have := xyLoop_nbs _ total ht _ _ _ 1 [] loops rfl (Nat.le_refl 1) (by
          -- total ≥ 1: otherwise the first loop (nb ≥ 1 > total / 1) is refused and there is no `.ok`
          cases Nat.eq_zero_or_pos total with
          | inl h0t =>
            exfalso
            subst h0t
            -- with total = 0 every pair is refused
            have : ∀ fuel s m acc, xyLoop (1 + countColons s len + 1) 0 fuel s m 1 acc ≠ .ok loops := by
              intro fuel s' m acc hh
              cases fuel with
              | zero => simp [xyLoop] at hh
              | succ f =>
                unfold xyLoop at hh
                generalize strtolU32 0 s' = p at hh
                obtain ⟨step, t2⟩ := p
                simp only at hh
                split at hh
                · cases hh
                · split at hh
                  · split at hh
                    · cases hh
                    · generalize strtolU32 0 _ = q at hh
                      obtain ⟨nb, t3⟩ := q
                      simp only at hh
                      split at hh
                      · cases hh
                      · split at hh
                        · cases hh
                        · split at hh
                          · cases hh
                          · split at hh
                            · cases hh
                            · rename_i hnb0 hnbs
                              simp at hnbs
                              exact hnb0 hnbs
                  · cases hh
            exact this _ _ _ _ he
          | inr hp => exact hp) he
        unfold nbsOf at this
        omega

theorem defaultsLoop_same : ∀ (is : List Nat) (st : Fin2) (f : Fin2), defaultsLoop is st = .ok f → SameArity st.levels f.levels := by
  intro is
  induction is with
  | nil => intro st f h; simp [defaultsLoop] at h; subst h; exact SameArity.refl _
  | cons i rest ih =>
    intro st f h
    unfold defaultsLoop at h
    simp only at h
    generalize setDefaultAttrs (lvAt st.levels i).attr st.gcount = ag at h
    obtain ⟨a, g⟩ := ag
    simp only at h
    have hs1 : SameArity st.levels (updLevel st.levels i (fun l => { l with attr := a, attached := (lvAt st.levels i).attached.map (fun x => (setDefaultAttrs x g).1) })) :=
      SameArity.upd _ _ _ (fun x => rfl) (fun x => rfl)
    generalize updLevel st.levels i (fun l => { l with attr := a, attached := (lvAt st.levels i).attached.map (fun x => (setDefaultAttrs x g).1) }) = lv1 at hs1 h
    generalize processIndexes lv1 (lvAt st.levels i).idx (lvAt st.levels i).width = pr at h
    obtain ⟨r, rl⟩ := pr
    simp only at h
    split at h
    · cases h
    · rename_i arr
      have hs2 : SameArity lv1 (updLevel lv1 i (fun l => { l with idx := { l.idx with arr := arr } })) :=
        SameArity.upd _ _ _ (fun x => rfl) (fun x => rfl)
      have := ih _ f h
      exact hs1.trans (hs2.trans this)

theorem defaultsLoop_err : ∀ (is : List Nat) (st : Fin2) (T : Nat), 1 ≤ st.levels.length → LastZero st.levels →
    WOK st.levels T → ∀ e log, defaultsLoop is st = .error (e, log) → e = .abort := by
  intro is
  induction is with
  | nil => intro st T _ _ _ e log h; simp [defaultsLoop] at h
  | cons i rest ih =>
    intro st T hne hz hw e log h
    unfold defaultsLoop at h
    simp only at h
    generalize hsd : setDefaultAttrs (lvAt st.levels i).attr st.gcount = ag at h
    obtain ⟨a, g⟩ := ag
    simp only at h
    have hs1 : SameArity st.levels (updLevel st.levels i (fun l => { l with attr := a, attached := (lvAt st.levels i).attached.map (fun x => (setDefaultAttrs x g).1) })) :=
      SameArity.upd _ _ _ (fun x => rfl) (fun x => rfl)
    generalize hlv : updLevel st.levels i (fun l => { l with attr := a, attached := (lvAt st.levels i).attached.map (fun x => (setDefaultAttrs x g).1) }) = lv1 at hs1 h
    have hw1 := hw.same hs1
    have hz1 := hs1.lastZero hz
    have hne1 : 1 ≤ lv1.length := by rw [hs1.1]; exact hne
    generalize hpi : processIndexes lv1 (lvAt st.levels i).idx (lvAt st.levels i).width = pr at h
    obtain ⟨r, rl⟩ := pr
    simp only at h
    split at h
    · rename_i e'
      simp only [Except.error.injEq, Prod.mk.injEq] at h
      rw [← h.1]
      exact processIndexes_err lv1 _ _ e' hne1 hz1 hw1.pos hw1.mono (by rw [hpi])
    · rename_i arr
      have hs2 : SameArity lv1 (updLevel lv1 i (fun l => { l with idx := { l.idx with arr := arr } })) :=
        SameArity.upd _ _ _ (fun x => rfl) (fun x => rfl)
      exact ih _ T (by simp only; rw [hs2.1]; exact hne1) (hs2.lastZero hz1) (hw1.same hs2) e log h

/-! ### errors of the parsing loop are rejections -/

/-- the only error kind is EINVAL -/
def ErrEinval {α : Type} (r : R α) : Prop := ∀ e log, r = .error (e, log) → e = .einval

theorem attachedStep_einval (p : Bytes) (st : Loop) : ErrEinval (attachedStep p st) := by
  intro e log h
  unfold attachedStep at h
  simp only at h
  split at h
  · simp only [Except.error.injEq, Prod.mk.injEq] at h; exact h.1.symm
  · split at h
    · simp only [Except.error.injEq, Prod.mk.injEq] at h; exact h.1.symm
    · split at h
      · simp only [Except.error.injEq, Prod.mk.injEq] at h; exact h.1.symm
      · split at h
        · rename_i e' he
          simp only [Except.error.injEq, Prod.mk.injEq] at h
          rw [← h.1]
          -- the only source is parseAttrs
          split at he
          · split at he
            · split at he
              · cases he
              · rename_i e'' hp
                simp only [Except.error.injEq] at he; subst he
                exact parseAttrs_err _ _ _ _ hp
            · cases he
          · cases he
        · cases h

theorem levelStep_einval (c : Byte) (pos : Bytes) (st : Loop) : ErrEinval (levelStep c pos st) := by
  intro e log h
  unfold levelStep at h
  simp only at h
  split at h
  · rename_i e' he
    simp only [Except.error.injEq, Prod.mk.injEq] at h
    rw [← h.1]
    split at he
    · split at he
      · simp only [Except.error.injEq] at he; exact he.symm
      · split at he
        · simp only [Except.error.injEq] at he; exact he.symm
        · split at he
          · simp only [Except.error.injEq] at he; exact he.symm
          · cases he
    · cases he
  · generalize strtoulS 0 _ = q at h
    obtain ⟨item, next⟩ := q
    simp only at h
    split at h
    · simp only [Except.error.injEq, Prod.mk.injEq] at h; exact h.1.symm
    · split at h
      · simp only [Except.error.injEq, Prod.mk.injEq] at h; exact h.1.symm
      · split at h
        · simp only [Except.error.injEq, Prod.mk.injEq] at h; exact h.1.symm
        · split at h
          · rename_i e' he
            simp only [Except.error.injEq, Prod.mk.injEq] at h
            rw [← h.1]
            split at he
            · exact parseAttrs_err _ _ _ _ he
            · cases he
          · split at h
            · simp only [Except.error.injEq, Prod.mk.injEq] at h; exact h.1.symm
            · split at h
              · simp only [Except.error.injEq, Prod.mk.injEq] at h; exact h.1.symm
              · cases h

theorem loopBody_einval (pos : Bytes) (st : Loop) : ErrEinval (loopBody pos st) := by
  intro e log h
  unfold loopBody at h
  simp only at h
  split at h
  · cases h
  · split at h
    · split at h
      · cases h
      · rename_i e' he
        simp only [Except.error.injEq] at h; subst h
        exact attachedStep_einval _ _ e log he
    · split at h
      · cases h
      · rename_i e' he
        simp only [Except.error.injEq] at h; subst h
        exact levelStep_einval _ _ _ e log he

theorem mainLoop_einval : ∀ (fuel : Nat) (pos : Bytes) (st : Loop), ErrEinval (mainLoop fuel pos st) := by
  intro fuel
  induction fuel with
  | zero => intro pos st e log h; simp [mainLoop] at h
  | succ f ih =>
    intro pos st e log h
    unfold mainLoop at h
    split at h
    · cases h
    · split at h
      · rename_i e' he
        simp only [Except.error.injEq] at h; subst h
        exact loopBody_einval pos st e log he
      · cases h
      · exact ih _ _ e log h


/-! ### the whole parser -/

theorem wok_singleton (l0 : Level) (h : l0.width = 1) : WOK [l0] 1 := by
  have e : ∀ j, j < [l0].length → lvAt [l0] j = l0 := by
    intro j hj
    simp only [List.length_cons, List.length_nil] at hj
    have : j = 0 := by omega
    subst this; rfl
  refine ⟨by omega, by unfold u64; omega, ?_, ?_, ?_, ?_, ?_⟩
  · intro j hj; rw [e j hj, h]; omega
  · intro j hj; rw [e j hj, h]; omega
  · intro i j hij hj; rw [e j hj, e i (by omega)]; omega
  · intro j hj; simp only [List.length_cons, List.length_nil] at hj; omega
  · intro _; simpa [lvAt] using h

/-- the facts about the levels reached by `finish`, and the kinds of its errors -/
theorem finish_widths (st : Loop) (hl : LInv st) (hw : WInv st) (h0 : (lvAt st.levels 0).width = 1) :
    (∀ p, finish st = .ok p → WOK p.levels st.total ∧ (lvAt p.levels 0).width = 1) ∧
    (∀ e log, finish st = .error (e, log) → e = .einval ∨ e = .abort) := by
  unfold finish
  have hs := sanity_safe st hl
  split
  · rename_i e' heq
    refine ⟨(fun p hp => by cases hp), ?_⟩
    intro e log he
    simp only [Except.error.injEq] at he; subst he
    -- sanity only fails with EINVAL
    left
    unfold sanity at heq
    simp only at heq
    repeat' split at heq
    all_goals first
      | cases heq; done
      | (simp only [Except.error.injEq, Prod.mk.injEq] at heq; exact heq.1.symm)
  · rename_i levels log heq
    rw [heq] at hs
    obtain ⟨hlen, hz, _⟩ := hs
    simp only at hlen hz
    have hwk := sanity_wok st hw levels log heq
    have h0' : (lvAt levels 0).width = 1 := by
      -- sanity keeps the widths
      have hsame : SameArity (updLevel st.levels (st.levels.length - 1) (fun l => { l with arity := 0 })) levels ∨ True := Or.inr trivial
      have : ∀ j, (lvAt levels j).width = (lvAt st.levels j).width := by
        intro j
        have h1 : levels = setType (updLevel st.levels (st.levels.length - 1) (fun l => { l with arity := 0 })) (st.levels.length - 1) tPU := by
          unfold sanity at heq
          simp only at heq
          repeat' split at heq
          all_goals first
            | cases heq; done
            | (simp only [Except.ok.injEq, Prod.mk.injEq] at heq; exact heq.1.symm)
        rw [h1, (setType_same _ _ _ _ _ _).2.2, lvAt_updLevel]
        split
        · rename_i hj; rw [hj.1]
        · rfl
      rw [this]; exact h0
    have hne : 1 ≤ levels.length := by rw [hlen]; exact hl.pos
    have ht := typesAndNuma_spec st levels log hne (by rw [hlen]; exact hl.le) hz (by
      have := sanity_safe st hl; rw [heq] at this; exact this.2.2)
    have htw := typesAndNuma_wok st levels log st.total hwk hne h0'
    generalize typesAndNuma st levels log = tn at ht htw
    obtain ⟨lv, lg, gc⟩ := tn
    simp only at ht htw ⊢
    obtain ⟨hp, _, hz2, _⟩ := ht
    obtain ⟨hwk2, h02⟩ := htw
    split
    · rename_i e' heq2
      refine ⟨(fun p hp => by cases hp), ?_⟩
      intro e log he
      simp only [Except.error.injEq] at he; subst he
      right
      exact defaultsLoop_err _ _ st.total hp hz2 hwk2 _ _ heq2
    · rename_i f heq2
      have hsame := defaultsLoop_same _ _ f heq2
      simp only at hsame
      have hwf := hwk2.same hsame
      have hzf := hsame.lastZero hz2
      have hnf : 1 ≤ f.levels.length := by rw [hsame.1]; exact hp
      generalize hpi : processIndexes f.levels st.numaIdx st.numaNr = pr
      obtain ⟨r, rl⟩ := pr
      simp only
      split
      · rename_i e'
        refine ⟨(fun p hp => by cases hp), ?_⟩
        intro e log he
        simp only [Except.error.injEq, Prod.mk.injEq] at he
        right
        rw [← he.1]
        exact processIndexes_err f.levels _ _ e' hnf hzf hwf.pos hwf.mono (by rw [hpi])
      · refine ⟨?_, (fun e log he => by cases he)⟩
        intro p hp
        simp only [Except.ok.injEq] at hp
        subst hp
        exact ⟨hwf, by rw [hsame.2.2]; exact h02⟩

/-- **no wrap**: in the result of every accepted description the total width of every level is positive, below 2^64,
non-decreasing with the depth and equal to the width of the level above times its arity — as natural numbers; the root
has width 1 (so `totalwidth` = the product of the arities above, never reduced modulo 2^64) -/
theorem parse_widths (s : Bytes) (p : Parsed) (h : parse s = .ok p) :
    ∃ T, WOK p.levels T ∧ (lvAt p.levels 0).width = 1 := by
  unfold parse at h
  simp only at h
  split at h
  · cases h
  · rename_i pos l0 hr0
    have hl0 : l0.width = 1 := by
      split at hr0
      · split at hr0
        · simp only [Except.ok.injEq, Prod.mk.injEq] at hr0
          obtain ⟨_, rfl⟩ := hr0; rfl
        · cases hr0
      · simp only [Except.ok.injEq, Prod.mk.injEq] at hr0
        obtain ⟨_, rfl⟩ := hr0; rfl
    have h0 : AllLt maxDepth [0, 0, 0, 0, 0, 0, 0] := by
      intro j hj; simp only [List.mem_cons, List.not_mem_nil, or_false] at hj; unfold maxDepth; omega
    split at h
    · cases h
    · rename_i st hm
      have hlinv := mainLoop_safe (pos.length + 1) pos { levels := [l0], log := [0, 0, 0, 0, 0, 0, 0] } ⟨by simp, by simp, h0⟩
      rw [hm] at hlinv
      have hwinv := mainLoop_winv _ _ _ ⟨wok_singleton l0 hl0, by simp, by simpa [lvAt] using hl0⟩ _ hm
      have hw0 := hwinv.w0
      exact ⟨st.total, (finish_widths st hlinv hwinv hw0).1 p h⟩

/-- **error kinds of the whole parser**: hwloc_backend_synthetic_init either rejects (EINVAL) or fails `assert(nbs)`;
it never divides by zero and never writes past `loops[]` -/
theorem parse_err_kinds (s : Bytes) (e : Err) (log : Log) (h : parse s = .error (e, log)) : e = .einval ∨ e = .abort := by
  unfold parse at h
  simp only at h
  split at h
  · rename_i e' he
    simp only [Except.error.injEq, Prod.mk.injEq] at h
    left
    rw [← h.1]
    split at he
    · split at he
      · cases he
      · rename_i e'' hp
        simp only [Except.error.injEq] at he; subst he
        exact parseAttrs_err _ _ _ _ hp
    · cases he
  · rename_i pos l0 hr0
    have hl0 : l0.width = 1 := by
      split at hr0
      · split at hr0
        · simp only [Except.ok.injEq, Prod.mk.injEq] at hr0
          obtain ⟨_, rfl⟩ := hr0; rfl
        · cases hr0
      · simp only [Except.ok.injEq, Prod.mk.injEq] at hr0
        obtain ⟨_, rfl⟩ := hr0; rfl
    have h0 : AllLt maxDepth [0, 0, 0, 0, 0, 0, 0] := by
      intro j hj; simp only [List.mem_cons, List.not_mem_nil, or_false] at hj; unfold maxDepth; omega
    split at h
    · rename_i e' he
      simp only [Except.error.injEq] at h; subst h
      left
      exact mainLoop_einval _ _ _ e log he
    · rename_i st hm
      have hlinv := mainLoop_safe (pos.length + 1) pos { levels := [l0], log := [0, 0, 0, 0, 0, 0, 0] } ⟨by simp, by simp, h0⟩
      rw [hm] at hlinv
      have hwinv := mainLoop_winv _ _ _ ⟨wok_singleton l0 hl0, by simp, by simpa [lvAt] using hl0⟩ _ hm
      exact (finish_widths st hlinv hwinv hwinv.w0).2 e log h
