/-
  Hw.Io.SyntheticWF10 — where the objects of a special level (NUMA nodes, memory-side caches) sit in the level list:
  the recursive listing `specialIds` against the start offsets `sOff` (DFS post-order), for every `t` with `topoOK t`.
-/
import Hw.Io.SyntheticWF9
namespace Hw.Syn
open Hw Hw.Topo

set_option linter.unusedSectionVars false
set_option linter.unusedSimpArgs false
set_option linter.unnecessarySimpa false

theorem length_flatMap_const {α : Type} (f : Nat → List α) (c : Nat) : ∀ a, (∀ r, r < a → (f r).length = c) →
    ((List.range a).flatMap f).length = a * c := by
  intro a
  induction a with
  | zero => intro _; simp
  | succ a ih =>
    intro hl
    rw [List.range_succ, List.flatMap_append, List.length_append, ih (fun r hr => hl r (by omega))]
    simp [hl a (by omega), Nat.succ_mul]

theorem getElem?_flatMap_const {α : Type} (f : Nat → List α) (c : Nat) : ∀ a, (∀ r, r < a → (f r).length = c) →
    ∀ r i, r < a → i < c → ((List.range a).flatMap f)[r * c + i]? = (f r)[i]? := by
  intro a
  induction a with
  | zero => intro _ r i hr; omega
  | succ a ih =>
    intro hl r i hr hi
    have hlen := length_flatMap_const f c a (fun r hr => hl r (by omega))
    rw [List.range_succ, List.flatMap_append]
    by_cases hra : r < a
    · have : r * c + i < a * c := by
        have := Nat.mul_le_mul_right c (Nat.succ_le_of_lt hra)
        rw [Nat.succ_mul] at this; omega
      rw [List.getElem?_append_left (by rw [hlen]; exact this)]
      exact ih (fun r hr => hl r (by omega)) r i hra hi
    · have hra' : r = a := by omega
      subst hra'
      rw [List.getElem?_append_right (by rw [hlen]; omega), hlen]
      simp

/-- objects of the special level per normal object of depth `e` -/
def wSel (T : DTab) (numa : Bool) : Nat → Nat := if numa then numaCnt T else mcCnt T

/-- start of the listing of the subtree of (d, k) in the special level -/
def sOff (T : DTab) (numa : Bool) : Nat → Nat → Nat
  | 0, _ => 0
  | d + 1, k => sOff T numa d (k / arOf T d) + (k % arOf T d) * sumW T (wSel T numa) (d + 1)

section
variable (t : Topo) (h : OK t)
include h

theorem specialIds_len (numa : Bool) (d k : Nat) (hd : d ≤ (mkTab t).D) :
    (specialIds (mkTab t) numa ((mkTab t).D + 1 - d) d k).length = sumW (mkTab t) (wSel (mkTab t) numa) d := by
  have := specialIds_length t h numa ((mkTab t).D + 1 - d) d k (by omega) hd
  unfold wSel; exact this

theorem specialIds_unfold (numa : Bool) (d k : Nat) (hd : d < (mkTab t).D) :
    specialIds (mkTab t) numa ((mkTab t).D + 1 - d) d k =
      (List.range (arOf (mkTab t) d)).flatMap (fun r => specialIds (mkTab t) numa ((mkTab t).D + 1 - (d + 1)) (d + 1) (k * arOf (mkTab t) d + r)) ++
        specialIds.own (mkTab t) numa d k := by
  have hf : (mkTab t).D + 1 - d = ((mkTab t).D + 1 - (d + 1)) + 1 := by omega
  rw [hf]
  show (if d < (mkTab t).D then _ else []) ++ _ = _
  rw [if_pos hd]; rfl

/-- the listing of the subtree of (d, k) is the segment of the level list that starts at `sOff d k` -/
theorem level_segment (numa : Bool) : ∀ d k, d ≤ (mkTab t).D → k < nOf (mkTab t) d → ∀ i, i < sumW (mkTab t) (wSel (mkTab t) numa) d →
    (specialIds (mkTab t) numa ((mkTab t).D + 1) 0 0)[sOff (mkTab t) numa d k + i]? =
      (specialIds (mkTab t) numa ((mkTab t).D + 1 - d) d k)[i]? := by
  intro d
  induction d with
  | zero =>
    intro k _ hk i _
    rw [nOf_zero] at hk
    have : k = 0 := by omega
    subst this
    simp [sOff]
  | succ d ih =>
    intro k hd hk i hi
    have hd' : d < (mkTab t).D := hd
    have ⟨ha, hlt⟩ := div_lt_parent t d k hd' hk
    have hr : k % arOf (mkTab t) d < arOf (mkTab t) d := Nat.mod_lt _ ha
    have hkk : k / arOf (mkTab t) d * arOf (mkTab t) d + k % arOf (mkTab t) d = k := by
      rw [Nat.mul_comm]; exact Nat.div_add_mod k _
    have hrec := sumW_rec t h (wSel (mkTab t) numa) d (Nat.le_of_lt hd')
    -- position inside the parent's segment
    have hin : k % arOf (mkTab t) d * sumW (mkTab t) (wSel (mkTab t) numa) (d + 1) + i < sumW (mkTab t) (wSel (mkTab t) numa) d := by
      rw [hrec]
      have := Nat.mul_le_mul_right (sumW (mkTab t) (wSel (mkTab t) numa) (d + 1)) (Nat.succ_le_of_lt hr)
      rw [Nat.succ_mul] at this; omega
    show (specialIds (mkTab t) numa ((mkTab t).D + 1) 0 0)[sOff (mkTab t) numa d (k / arOf (mkTab t) d) +
      (k % arOf (mkTab t) d) * sumW (mkTab t) (wSel (mkTab t) numa) (d + 1) + i]? = _
    rw [Nat.add_assoc, ih (k / arOf (mkTab t) d) (Nat.le_of_lt hd') hlt _ hin, specialIds_unfold t h numa d _ hd']
    have hblk : ∀ r, r < arOf (mkTab t) d →
        (specialIds (mkTab t) numa ((mkTab t).D + 1 - (d + 1)) (d + 1) (k / arOf (mkTab t) d * arOf (mkTab t) d + r)).length =
        sumW (mkTab t) (wSel (mkTab t) numa) (d + 1) := fun r _ => specialIds_len t h numa (d + 1) _ hd
    rw [List.getElem?_append_left (by
      rw [length_flatMap_const _ _ _ hblk]
      have := Nat.mul_le_mul_right (sumW (mkTab t) (wSel (mkTab t) numa) (d + 1)) (Nat.succ_le_of_lt hr)
      rw [Nat.succ_mul] at this; omega)]
    rw [getElem?_flatMap_const _ _ _ hblk _ _ hr hi, hkk]

/-- the objects attached to (d, k) itself follow the listings of its children -/
theorem level_own (numa : Bool) (d k : Nat) (hd : d ≤ (mkTab t).D) (hk : k < nOf (mkTab t) d) (j : Nat)
    (hj : j < wSel (mkTab t) numa d) :
    (specialIds (mkTab t) numa ((mkTab t).D + 1) 0 0)[sOff (mkTab t) numa d k +
        arOf (mkTab t) d * sumW (mkTab t) (wSel (mkTab t) numa) (d + 1) + j]? =
      (specialIds.own (mkTab t) numa d k)[j]? := by
  have hrec := sumW_rec t h (wSel (mkTab t) numa) d hd
  rw [Nat.add_assoc, level_segment t h numa d k hd hk _ (by rw [hrec]; omega)]
  have hf : (mkTab t).D + 1 - d = ((mkTab t).D - d) + 1 := by omega
  rw [hf]
  unfold specialIds
  have hkids : (if d < (mkTab t).D then (List.range ((mkTab t).ar[d]?.getD 0)).flatMap
      (fun r => specialIds (mkTab t) numa ((mkTab t).D - d) (d + 1) (k * ((mkTab t).ar[d]?.getD 0) + r)) else []).length =
      arOf (mkTab t) d * sumW (mkTab t) (wSel (mkTab t) numa) (d + 1) := by
    by_cases hdd : d < (mkTab t).D
    · rw [if_pos hdd]
      have : (mkTab t).D - d = (mkTab t).D + 1 - (d + 1) := by omega
      rw [this]
      exact length_flatMap_const _ _ _ (fun r _ => specialIds_len t h numa (d + 1) _ hdd)
    · have : d = (mkTab t).D := by omega
      rw [if_neg hdd, this, mkTab_ar_last]; simp
  rw [List.getElem?_append_right (by rw [hkids]; omega), hkids]
  congr 1; omega

end

/-- closed form of the start offset -/
def scOf (T : DTab) (w : Nat → Nat) (d k : Nat) : Nat :=
  ((List.range (T.D + 1)).map (fun e => if e ≥ d then k * (nOf T e / nOf T d) * w e else (k / (nOf T d / nOf T e)) * w e)).sum

theorem postPos_eq (T : DTab) (w : Nat → Nat) (d k s : Nat) : postPos T w d k s =
    ((List.range (T.D + 1)).map (fun e => if e > d then (k + 1) * (nOf T e / nOf T d) * w e else if e = d then k * w e
      else (k / (nOf T d / nOf T e)) * w e)).sum + s := rfl

theorem sum_congr_add (l : List Nat) (f g f' g' : Nat → Nat) (hpt : ∀ e ∈ l, f e + g e = f' e + g' e) :
    (l.map f).sum + (l.map g).sum = (l.map f').sum + (l.map g').sum := by
  rw [← sum_map_add, ← sum_map_add]
  congr 1
  exact List.map_congr_left hpt

section
variable (t : Topo) (h : OK t)
include h

theorem postPos_closed (w : Nat → Nat) (d k s : Nat) (hd : d ≤ (mkTab t).D) :
    postPos (mkTab t) w d k s = scOf (mkTab t) w d k + arOf (mkTab t) d * sumW (mkTab t) w (d + 1) + s := by
  have key : ((List.range ((mkTab t).D + 1)).map (fun e => if e > d then (k + 1) * (nOf (mkTab t) e / nOf (mkTab t) d) * w e else if e = d then k * w e
      else (k / (nOf (mkTab t) d / nOf (mkTab t) e)) * w e)).sum + ((List.range ((mkTab t).D + 1)).map (fun e => if e = d then w d else 0)).sum =
      scOf (mkTab t) w d k + sumW (mkTab t) w d := by
    unfold scOf sumW
    apply sum_congr_add
    intro e he
    have he' : e ≤ (mkTab t).D := by have := List.mem_range.1 he; omega
    by_cases h1 : e > d
    · rw [if_pos h1, if_neg (by omega), if_pos (by omega), if_pos (by omega), Nat.add_mul, Nat.add_mul, Nat.one_mul]; omega
    · by_cases h2 : e = d
      · subst h2
        rw [if_neg h1, if_pos rfl, if_pos rfl, if_pos (Nat.le_refl _), if_pos (Nat.le_refl _), Nat.div_self (nOf_pos t h e he')]
        simp
      · rw [if_neg h1, if_neg h2, if_neg h2, if_neg (by omega), if_neg (by omega)]
  rw [sum_indicator, if_pos (by omega), sumW_rec t h w d hd] at key
  rw [postPos_eq]
  omega

theorem scOf_zero (w : Nat → Nat) : scOf (mkTab t) w 0 0 = 0 := by
  unfold scOf
  have : ∀ e ∈ List.range ((mkTab t).D + 1),
      (if e ≥ 0 then 0 * (nOf (mkTab t) e / nOf (mkTab t) 0) * w e else (0 / (nOf (mkTab t) 0 / nOf (mkTab t) e)) * w e) = 0 := by
    intro e _; simp
  rw [List.map_congr_left this, sum_const_range, Nat.mul_zero]

theorem scOf_succ (w : Nat → Nat) (d k : Nat) (hd : d < (mkTab t).D) (hk : k < nOf (mkTab t) (d + 1)) :
    scOf (mkTab t) w (d + 1) k = scOf (mkTab t) w d (k / arOf (mkTab t) d) + (k % arOf (mkTab t) d) * sumW (mkTab t) w (d + 1) := by
  have ⟨ha, _⟩ := div_lt_parent t d k hd hk
  have hsucc := nOf_succ t d hd
  have hpd := nOf_pos t h d (Nat.le_of_lt hd)
  have hkk : k / arOf (mkTab t) d * arOf (mkTab t) d + k % arOf (mkTab t) d = k := by
    rw [Nat.mul_comm]; exact Nat.div_add_mod k _
  unfold scOf sumW
  have hpt : ∀ e ∈ List.range ((mkTab t).D + 1),
      (if e ≥ d + 1 then k * (nOf (mkTab t) e / nOf (mkTab t) (d + 1)) * w e else (k / (nOf (mkTab t) (d + 1) / nOf (mkTab t) e)) * w e) =
      (k % arOf (mkTab t) d) * (if e ≥ d + 1 then (nOf (mkTab t) e / nOf (mkTab t) (d + 1)) * w e else 0) +
      (if e ≥ d then (k / arOf (mkTab t) d) * (nOf (mkTab t) e / nOf (mkTab t) d) * w e
        else ((k / arOf (mkTab t) d) / (nOf (mkTab t) d / nOf (mkTab t) e)) * w e) := by
    intro e he
    have he' : e ≤ (mkTab t).D := by have := List.mem_range.1 he; omega
    by_cases h1 : e ≥ d + 1
    · rw [if_pos h1, if_pos h1, if_pos (by omega), q_succ t h e d he' (by omega)]
      generalize nOf (mkTab t) e / nOf (mkTab t) (d + 1) = q'
      have e1 : k * q' * w e = (k / arOf (mkTab t) d * arOf (mkTab t) d + k % arOf (mkTab t) d) * q' * w e := by rw [hkk]
      rw [e1, Nat.add_mul, Nat.add_mul, Nat.mul_assoc (k / arOf (mkTab t) d) (arOf (mkTab t) d) q', Nat.mul_assoc (k % arOf (mkTab t) d) q' (w e)]
      omega
    · by_cases h2 : e = d
      · subst h2
        have hq : nOf (mkTab t) (e + 1) / nOf (mkTab t) e = arOf (mkTab t) e := by
          rw [hsucc, Nat.mul_div_cancel_left _ hpd]
        rw [if_neg h1, if_neg h1, if_pos (Nat.le_refl _), hq, Nat.div_self hpd]; simp
      · have hpe := nOf_pos t h e he'
        have hde := q_total t h d e (Nat.le_of_lt hd) (by omega)
        have hq : nOf (mkTab t) (d + 1) / nOf (mkTab t) e = (nOf (mkTab t) d / nOf (mkTab t) e) * arOf (mkTab t) d := by
          rw [hsucc]
          conv => lhs; rw [hde]
          rw [Nat.mul_assoc, Nat.mul_div_cancel_left _ hpe]
        rw [if_neg h1, if_neg h1, if_neg (by omega), hq, Nat.mul_comm (nOf (mkTab t) d / nOf (mkTab t) e), ← Nat.div_div_eq_div_mul]
        simp
  rw [List.map_congr_left hpt, sum_map_lin]
  omega

theorem scOf_sOff (numa : Bool) : ∀ d k, d ≤ (mkTab t).D → k < nOf (mkTab t) d →
    scOf (mkTab t) (wSel (mkTab t) numa) d k = sOff (mkTab t) numa d k := by
  intro d
  induction d with
  | zero =>
    intro k _ hk
    rw [nOf_zero] at hk
    have : k = 0 := by omega
    subst this
    rw [scOf_zero t h]; rfl
  | succ d ih =>
    intro k hd hk
    have hd' : d < (mkTab t).D := hd
    have ⟨_, hlt⟩ := div_lt_parent t d k hd' hk
    rw [scOf_succ t h _ d k hd' hk, ih _ (Nat.le_of_lt hd') hlt]; rfl

/-- **position of slot objects in their special level**: the `j`-th own object of (d, k) sits at `postPos d k j` -/
theorem level_at_postPos (numa : Bool) (d k j : Nat) (hd : d ≤ (mkTab t).D) (hk : k < nOf (mkTab t) d)
    (hj : j < wSel (mkTab t) numa d) :
    (specialIds (mkTab t) numa ((mkTab t).D + 1) 0 0)[postPos (mkTab t) (wSel (mkTab t) numa) d k j]? =
      (specialIds.own (mkTab t) numa d k)[j]? := by
  rw [postPos_closed t h _ d k j hd, scOf_sOff t h numa d k hd hk]
  exact level_own t h numa d k hd hk j hj

end

end Hw.Syn
