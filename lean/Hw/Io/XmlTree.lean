/-
  Hw.Io.XmlTree — the TREE level of the XML round trip (v3 format), on top of the object level of Hw.Io.XmlObj.

  * `Elem`  = token-level XML: an element is (tag, attribute list, optional text content, child elements).
  * `Tree`  = an object tree as hwloc stores it: per object the start-tag fields (`ObjFields`), its info pairs, page types
              and userdata entries, and the FOUR child lists (memory_first_child, first_child, io_first_child, misc_first_child).
  * `exportTree` follows hwloc__xml_v2export_object + hwloc__xml_export_object_contents (the only object exporter of this tree; v3 flags):
              start-tag attributes, then `<page_type>` (NUMA nodes only), `<info>`, `<userdata>` child elements, then the memory, normal,
              I/O and Misc children, in that order.
  * `importTree` follows hwloc__xml_import_object: attribute loop, the loop over non-object child elements (page_type only below a NUMA
              node or the root, info, userdata; anything else is an error), the checks (type vs parent kind, ...: `XmlObj.checks`),
              then the loop over `<object>` children (any other element there is an error), each child appended to the list of its kind
              by hwloc_insert_object_by_parent, and the final order test on the normal children.

  Outside the model (`Res.outside`, never reached from an export of a valid tree, see XmlTreeLemmas): objects the importer *ignores*
  (unparsable pci_busid / bridge_pci; filtered types — the reload keeps every type), the re-sorting of out-of-order normal children
  (hwloc__reorder_children), v1/v2 compatibility rules, `userdata_not_decoded`, a topology without import callback (the entries are
  delivered to a callback here).  Text content is carried as a token (the raw, unescaped bytes nolibxml writes with "%s").
-/
import Hw.Io.XmlObj
import Hw.Io.Base64
import Hw.Bitmap.Ops
namespace Hw.XmlTree
open Hw Hw.Topo Hw.XmlObj

/-- token-level XML element -/
inductive Elem where
  | mk (tag : Bytes) (attrs : List (Bytes × Bytes)) (content : Option Bytes) (kids : List Elem)
deriving Repr, Inhabited

def Elem.tag : Elem → Bytes | .mk t _ _ _ => t
def Elem.attrs : Elem → List (Bytes × Bytes) | .mk _ a _ _ => a
def Elem.content : Elem → Option Bytes | .mk _ _ c _ => c
def Elem.kids : Elem → List Elem | .mk _ _ _ k => k

/-- one userdata entry as the application hands it to hwloc_export_obj_userdata(_base64) / receives it in the import callback -/
structure UData where
  name : Option Bytes
  b64 : Bool
  data : Bytes
deriving DecidableEq, Repr, Inhabited

/-- what one object carries besides its children -/
structure Node where
  f : ObjFields
  infos : List (Bytes × Bytes) := []
  pts : List (Nat × Nat) := []          -- (size, count); on the root: topology->machine_memory.page_types (import only)
  uds : List UData := []
deriving DecidableEq, Repr, Inhabited

inductive Tree where
  | mk (d : Node) (mem nor io misc : List Tree)
deriving Repr, Inhabited

def Tree.d : Tree → Node | .mk d _ _ _ _ => d
def Tree.type (t : Tree) : Nat := t.d.f.type
def Tree.mem : Tree → List Tree | .mk _ m _ _ _ => m
def Tree.nor : Tree → List Tree | .mk _ _ n _ _ => n
def Tree.io : Tree → List Tree | .mk _ _ _ i _ => i
def Tree.misc : Tree → List Tree | .mk _ _ _ _ x => x

/-! ### export -/

def tagObject : Bytes := b "object"
def tagInfo : Bytes := b "info"
def tagPageType : Bytes := b "page_type"
def tagUserdata : Bytes := b "userdata"

def ptElem (p : Nat × Nat) : Elem := .mk tagPageType [(b "size", decDigits p.1), (b "count", decDigits p.2)] none []
def infoElem (p : Bytes × Bytes) : Elem := .mk tagInfo (exportInfo p) none []

def allValid (s : Bytes) : Bool := s.all Xml.xmlCharValid

/-- hwloc_export_obj_userdata / hwloc_export_obj_userdata_base64 return -1 (nothing is written) when the name, or the plain
    buffer, fails hwloc__xml_export_check_buffer -/
def udExportable (u : UData) : Bool :=
  (match u.name with | some n => allValid n | none => true) && (u.b64 || allValid u.data)

/-- hwloc__export_obj_userdata -/
def udElem (u : UData) : Elem :=
  .mk tagUserdata
    ((match u.name with | some n => [(b "name", n)] | none => []) ++ [(b "length", decDigits u.data.length)] ++
     (if u.b64 then [(b "encoding", b "base64")] else []))
    (if u.data.length = 0 then none else some (if u.b64 then B64.encText u.data else u.data)) []

/-- the child elements hwloc__xml_export_object_contents adds after the attributes -/
def subElems (d : Node) : List Elem :=
  (if d.f.type = tNUMA then d.pts.map ptElem else []) ++ d.infos.map infoElem ++ (d.uds.filter udExportable).map udElem

mutual
/-- hwloc__xml_v2export_object (v3 flags) -/
def exportTree (root : Bool) : Tree → Elem
  | .mk d mem nor io misc =>
    .mk tagObject (exportAttrs root d.f) none
      (subElems d ++ (exportList mem ++ (exportList nor ++ (exportList io ++ exportList misc))))
def exportList : List Tree → List Elem
  | [] => []
  | t :: ts => exportTree false t :: exportList ts
end

/-! ### import -/

inductive Res (α : Type) where
  | ok (a : α)
  | reject              -- return -1: the whole load fails
  | outside             -- outside the modelled domain
deriving Repr

def Res.bind {α β : Type} (r : Res α) (k : α → Res β) : Res β :=
  match r with | .ok a => k a | .reject => .reject | .outside => .outside

/-- attribute loop of hwloc__xml_import_pagetype (an attribute called `info` starts a nested parser: outside) -/
def ptLoop : List (Bytes × Bytes) → Nat → Nat → Res (Nat × Nat)
  | [], s, c => .ok (s, c)
  | (a, v) :: l, s, c =>
    if a = b "info" then .outside
    else if a = b "size" then (match strtoulV v with | some n => ptLoop l n c | none => .outside)
    else if a = b "count" then (match strtoulV v with | some n => ptLoop l s n | none => .outside)
    else .reject

/-- attribute loop of hwloc__xml_import_userdata -/
def udLoop : List (Bytes × Bytes) → Nat → Bool → Option Bytes → Res (Nat × Bool × Option Bytes)
  | [], len, enc, name => .ok (len, enc, name)
  | (a, v) :: l, len, enc, name =>
    if a = b "length" then (match strtoulV v with | some n => udLoop l n enc name | none => .outside)
    else if a = b "encoding" then udLoop l len (v == b "base64") name
    else if a = b "name" then udLoop l len enc (some v)
    else .reject

/-- the content part of hwloc__xml_import_userdata with an import callback and decoded delivery: get_content with the expected
    length (nolibxml: an auto-closed tag has no content; otherwise the text up to the next `<` must have exactly that length),
    base64 decoding into `length + 1` bytes -/
def udContent (len : Nat) (enc : Bool) (name : Option Bytes) (content : Option Bytes) : Res UData :=
  if enc && len != 0 then
    match content with
    | none => .reject
    | some ct =>
      if ct.length ≠ B64.encodedLength len then .reject
      else
        let r := B64.decode ct (some { cells := List.replicate (len + 1) 0 })
        if r.1 ≠ (len : Int) then .reject
        else .ok { name := name, b64 := true, data := ((r.2.map (·.cells)).getD []).take len }
  else
    match content with
    | none => if len ≠ 0 then .reject else .ok { name := name, b64 := enc, data := [] }
    | some ct => if ct.length ≠ len then .reject else .ok { name := name, b64 := enc, data := ct }

/-- what the loops of hwloc__xml_import_object collect for one object -/
structure Acc where
  pts : List (Nat × Nat) := []
  infos : List (Bytes × Bytes) := []
  uds : List UData := []
  kids : List Tree := []         -- in document order; hwloc_insert_object_by_parent appends each to the list of its kind
  seenObj : Bool := false        -- the first loop ended on an `object` tag
deriving Repr, Inhabited

/-- one non-object child element (first loop of hwloc__xml_import_object).  close_tag of nolibxml accepts neither text nor
    child elements inside `<info>` / `<page_type>`; `<userdata>` has text only. -/
def importSub (ptOk : Bool) (acc : Acc) (e : Elem) : Res Acc :=
  if e.tag = tagPageType then
    if !ptOk then .reject
    else (ptLoop e.attrs 0 0).bind (fun p =>
      if e.content.isSome || !e.kids.isEmpty then .reject
      else .ok (if p.1 ≠ 0 then { acc with pts := acc.pts ++ [p] } else acc))
  else if e.tag = tagInfo then
    match importInfo e.attrs with
    | .error => .reject
    | r =>
      if e.content.isSome || !e.kids.isEmpty then .reject
      else .ok (match r with | .pair p => { acc with infos := acc.infos ++ [p] } | _ => acc)
  else if e.tag = tagUserdata then
    (udLoop e.attrs 0 false none).bind (fun x =>
      (udContent x.1 x.2.1 x.2.2 e.content).bind (fun u =>
        if !e.kids.isEmpty then .reject else .ok { acc with uds := acc.uds ++ [u] }))
  else .reject

/-- the test that triggers hwloc__reorder_children: some normal child comes before its predecessor by complete_cpuset -/
def outOfOrder : List Tree → Bool
  | x :: y :: r =>
    decide (Bitmap.compareFirst (Calc.ofMask (y.d.f.ccpuset.getD 0)) (Calc.ofMask (x.d.f.ccpuset.getD 0)) < 0) || outOfOrder (y :: r)
  | _ => false

def isMiscT (t : Nat) : Bool := t == tMISC

/-- the end of hwloc__xml_import_object for an object that is kept -/
def finish (f : ObjFields) (acc : Acc) : Res Tree :=
  let nor := acc.kids.filter (fun t => isNormalT t.type)
  if outOfOrder nor then .outside
  else .ok (.mk { f := f, infos := acc.infos, pts := acc.pts, uds := acc.uds }
              (acc.kids.filter (fun t => isMemoryT t.type)) nor
              (acc.kids.filter (fun t => isIOT t.type)) (acc.kids.filter (fun t => isMiscT t.type)))

mutual
/-- hwloc__xml_import_object on an `<object>` element -/
def importObj (c : Ctx) : Elem → Res Tree
  | .mk _ attrs content kids =>
    if content.isSome then .reject          -- find_child wants `<` after the blanks
    else match importAttrs c attrs with
      | .reject => .reject
      | .outside => .outside
      | .ignored => .outside
      | .ok f =>
        (importKids { root := false, parentType := f.type, parentHasSets := f.cpuset.isSome } (f.type == tNUMA || c.root) kids {}).bind
          (finish f)
/-- the two child loops of hwloc__xml_import_object: non-object elements first, then only `object` elements -/
def importKids (cc : Ctx) (ptOk : Bool) : List Elem → Acc → Res Acc
  | [], acc => .ok acc
  | e :: es, acc =>
    if e.tag = tagObject then
      match importObj cc e with
      | .ok t => importKids cc ptOk es { acc with kids := acc.kids ++ [t], seenObj := true }
      | .reject => .reject
      | .outside => .outside
    else if acc.seenObj then .reject
    else match importSub ptOk acc e with
      | .ok acc' => importKids cc ptOk es acc'
      | .reject => .reject
      | .outside => .outside
end

/-- the root `<object>` of a `<topology>` element -/
def importTree (e : Elem) : Res Tree :=
  if e.tag = tagObject then importObj { root := true } e else .reject

/-! ### normalisation and validity -/

def sanPair (p : Bytes × Bytes) : Bytes × Bytes := (Xml.sanitize p.1, Xml.sanitize p.2)

/-- what one export + import does to the data of one object: the per-object normalisation of XmlObj (strings filtered by
    safestrdup, the two core-derived depths), info strings filtered, page types of size 0 dropped by the importer (and page types
    exported for NUMA nodes only), userdata entries the export functions refuse dropped -/
def normNode (d : Node) : Node :=
  { f := normalise d.f, infos := d.infos.map sanPair,
    pts := if d.f.type = tNUMA then d.pts.filter (fun p => p.1 ≠ 0) else [],
    uds := d.uds.filter udExportable }

mutual
def normTree : Tree → Tree
  | .mk d mem nor io misc => .mk (normNode d) (normList mem) (normList nor) (normList io) (normList misc)
def normList : List Tree → List Tree
  | [] => []
  | t :: ts => normTree t :: normList ts
end

def udValid (u : UData) : Bool := decide (u.data.length < 2 ^ 64) && u.data.all (fun x => decide (x < 256))

def nodeValid (d : Node) : Bool :=
  d.pts.all (fun p => decide (p.1 < 2 ^ 64) && decide (p.2 < 2 ^ 64)) && d.uds.all udValid

def childCtx (f : ObjFields) : Ctx := { root := false, parentType := f.type, parentHasSets := f.cpuset.isSome }

mutual
/-- a tree of valid objects (decidable): every object is `XmlObj.Valid` in the context of its parent, its side data fits the C
    field widths, every child sits in the list of its kind, and the normal children are in complete_cpuset order -/
def TreeValid (c : Ctx) : Tree → Bool
  | .mk d mem nor io misc =>
    Valid c d.f && nodeValid d &&
    mem.all (fun t => isMemoryT t.type) && nor.all (fun t => isNormalT t.type) &&
    io.all (fun t => isIOT t.type) && misc.all (fun t => isMiscT t.type) &&
    !outOfOrder nor &&
    ListValid (childCtx d.f) mem && ListValid (childCtx d.f) nor && ListValid (childCtx d.f) io && ListValid (childCtx d.f) misc
def ListValid (c : Ctx) : List Tree → Bool
  | [] => true
  | t :: ts => TreeValid c t && ListValid c ts
end

/-! ### start tags as bytes: every attribute list of the export survives nolibxml's render + scan -/

mutual
/-- every start tag rendered by the nolibxml exporter (`new_prop` per attribute) and read back by its `next_attr` loop -/
def rescan : Elem → Elem
  | .mk t a c ks => .mk t (Xml.scanAttrs (a.length + 1) (Xml.renderAttrs a)) c (rescanList ks)
def rescanList : List Elem → List Elem
  | [] => []
  | e :: es => rescan e :: rescanList es
end

/-! ### what a second export can differ in -/

/-- an object with the two attributes the core recomputes on every load (a Group's and a Bridge's depth) cleared -/
def clearDerived (f : ObjFields) : ObjFields := { f with attrs := (normalise f).attrs }
/-- ... and the page types the importer drops (size 0) removed -/
def clearNode (d : Node) : Node := { d with f := clearDerived d.f, pts := d.pts.filter (fun p => p.1 ≠ 0) }
mutual
def clearTree : Tree → Tree
  | .mk d mem nor io misc => .mk (clearNode d) (clearList mem) (clearList nor) (clearList io) (clearList misc)
def clearList : List Tree → List Tree
  | [] => []
  | t :: ts => clearTree t :: clearList ts
end

end Hw.XmlTree
