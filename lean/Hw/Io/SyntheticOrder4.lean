/-
  Hw.Io.SyntheticOrder4 — `orderTopo` establishes `puOK` and the normal-children half of `sibOK` (from `mkNode_spec`), and the
  resulting form of build_wf for the topologies `orderTopo` returns.
-/
import Hw.Io.SyntheticOrder
import Hw.Io.SyntheticOrder3
namespace Hw.Syn
open Hw Hw.Topo

/-- **what `orderTopo` establishes**: for a duplicate-free PU index sequence with at least one entry per PU, the result has one
distinct PU os_index per PU (`puOK`) and lists the normal children of every object in the order of the smallest PU os_index
below them (`sibNormalOK`) -/
theorem orderTopo_sib (rm : List MemChild) (l0 : List NLevel) (pu numa : List Nat) (hnd : pu.Nodup)
    (hOK : topoOK (orderTopo rm l0 pu numa) = true) (hlen : prodL (arities (orderTopo rm l0 pu numa)) ≤ pu.length) :
    puOK (orderTopo rm l0 pu numa) = true ∧ sibNormalOK (orderTopo rm l0 pu numa) = true := by
  apply orderTopo_sib_of_spec rm l0 pu numa ?_ hOK hlen
  intro as att osf hpos hl
  have := mkNode_spec pu hnd as att osf 0 0 hpos (by rw [Nat.zero_add]; exact hl)
  exact ⟨this.2.1, this.2.2.1, this.2.2.2.2.2⟩

/-- build_wf for the topologies `orderTopo` returns: `puOK` and the normal half of `sibOK` are discharged -/
theorem build_wf_of_order (rm : List MemChild) (l0 : List NLevel) (pu numa : List Nat) (hnd : pu.Nodup)
    (hOK : topoOK (orderTopo rm l0 pu numa) = true) (hlen : prodL (arities (orderTopo rm l0 pu numa)) ≤ pu.length)
    (hm : memOK (orderTopo rm l0 pu numa) = true) (hn : numaOK (orderTopo rm l0 pu numa) = true)
    (hs : sibMemOK (orderTopo rm l0 pu numa) = true) : WF (toDump (orderTopo rm l0 pu numa)) := by
  obtain ⟨h1, h2⟩ := orderTopo_sib rm l0 pu numa hnd hOK hlen
  exact build_wf _ hOK h1 hm hn (by rw [sibOK_split, h2, hs]; rfl)

end Hw.Syn
