/-
  Hw.Io.LinuxParseList — specification of hwloc__read_path_as_cpulist (model: Hw.Io.LinuxParse).

    strtoulS_of_ok   the signed scanner `strtoulS` agrees with the C04 model `Hw.strtoul` wherever the
                     latter is defined (`.ok`, i.e. no sign character)
    cpulist_spec     on every well-formed kernel list (ascending disjoint items `a` / `a-b`, all below
                     2^31-1, decimal, comma separated, newline terminated) the parser is defined (no
                     signed overflow), the result is finite and denotes exactly the union of the items

  Route: the rendered text contains no NUL and no comma inside an item (`cstr_renderList`,
  `segs_renderList`), each piece parses back to its bounds (`parseSeg_render`), one loop iteration
  clears exactly the gap `[prevlast+1, first)` (`clStep_spec`), the fold is characterised relative to
  its start state (`fold_spec`), and the final `clr_range(prevlast+1, -1)` cuts the infinite tail.
-/
import Hw.Io.LinuxParse
import Hw.Base.NumLemmas
import Hw.Bitmap.Lemmas
namespace Hw.LinuxParse
open Hw

/-! ### the signed scanner agrees with the C04 `strtoul` model -/

theorem numBody_other (base : Nat) (s1 : List Byte)
    (h1 : ∀ (x d : Byte) (r : List Byte), s1 = 48 :: x :: d :: r → False)
    (h2 : ∀ (tail : List Byte), s1 = 48 :: tail → False) :
    numBody base s1 = takeDigits (if (base == 0) = true then (10, s1) else (base, s1)).fst
                (if (base == 0) = true then (10, s1) else (base, s1)).snd 0 0 := by
  unfold numBody
  split
  rename_i heq
  split at heq
  · exact (h1 _ _ _ rfl).elim
  · exact (h2 _ rfl).elim
  · rw [heq]

theorem numBody_48 (base : Nat) (tail : List Byte)
    (h1 : ∀ (x d : Byte) (r : List Byte), tail = x :: d :: r → False) :
    numBody base (48 :: tail) =
      takeDigits (if (base == 0) = true then (8, 48 :: tail) else (base, 48 :: tail)).fst
                (if (base == 0) = true then (8, 48 :: tail) else (base, 48 :: tail)).snd 0 0 := by
  unfold numBody
  split
  rename_i heq
  split at heq
  · rename_i e; cases e; exact (h1 _ _ _ rfl).elim
  · rename_i e; cases e; rw [heq]
  · rename_i h2 h3; exact (h3 _ rfl).elim

theorem strtoul_numBody (base : Nat) (s s1 : List Byte) (hs : s.dropWhile isSpace = s1)
    (h43 : ∀ t, s1 ≠ 43 :: t) (h45 : ∀ t, s1 ≠ 45 :: t) :
    strtoul base s =
      (if (numBody base s1).2.1 = 0 then .ok 0 s
       else .ok (min (numBody base s1).1 ulongMax) (numBody base s1).2.2) := by
  unfold strtoul
  simp only [hs]
  split
  · rfl
  · rename_i h1
    rw [numBody_48 base _ h1]
  · rename_i h1 h2
    rw [numBody_other base s1 h1 h2]

theorem scanNum_nosign (base : Nat) (s s1 : List Byte) (hs : s.dropWhile isSpace = s1)
    (h43 : ∀ t, s1 ≠ 43 :: t) (h45 : ∀ t, s1 ≠ 45 :: t) :
    scanNum base s =
      (if (numBody base s1).2.1 = 0 then none
       else some (signedVal false (numBody base s1).1, (numBody base s1).2.2)) := by
  unfold scanNum
  simp only [hs]

theorem strtoulS_of_ok (base : Nat) (s : List Byte) (v : Nat) (r : List Byte)
    (h : strtoul base s = .ok v r) : strtoulS base s = (v, r) := by
  by_cases h43 : ∃ t, s.dropWhile isSpace = 43 :: t
  · obtain ⟨t, ht⟩ := h43
    unfold strtoul at h; simp only [ht] at h; cases h
  by_cases h45 : ∃ t, s.dropWhile isSpace = 45 :: t
  · obtain ⟨t, ht⟩ := h45
    unfold strtoul at h; simp only [ht] at h; cases h
  have h43' : ∀ t, s.dropWhile isSpace ≠ 43 :: t := fun t e => h43 ⟨t, e⟩
  have h45' : ∀ t, s.dropWhile isSpace ≠ 45 :: t := fun t e => h45 ⟨t, e⟩
  rw [strtoul_numBody base s _ rfl h43' h45'] at h
  unfold strtoulS
  rw [scanNum_nosign base s _ rfl h43' h45']
  generalize numBody base (s.dropWhile isSpace) = nb at h ⊢
  obtain ⟨v', n, rest⟩ := nb
  simp only at h ⊢
  by_cases hn : n = 0
  · simp only [hn, if_true] at h ⊢
    cases h; rfl
  · simp only [hn, if_false] at h ⊢
    cases h
    unfold signedVal
    by_cases hv : ulongMax < v'
    · rw [if_pos hv, Nat.min_eq_right (Nat.le_of_lt hv)]
    · rw [if_neg hv, Nat.min_eq_left (by omega)]; simp


/-! ### the rendered text -/

theorem renderItem_chars (it : Nat × Nat) : ∀ c : Nat, c ∈ renderItem it → IsDecChar c ∨ c = 45 := by
  intro c hc
  unfold renderItem at hc
  split at hc
  · exact Or.inl (decDigits_chars _ c hc)
  · simp only [List.mem_append, List.mem_singleton] at hc
    rcases hc with (hc | hc) | hc
    · exact Or.inl (decDigits_chars _ c hc)
    · exact Or.inr hc
    · exact Or.inl (decDigits_chars _ c hc)

theorem renderItem_ne_comma (it : Nat × Nat) : ∀ c : Nat, c ∈ renderItem it → c ≠ 44 := by
  intro c hc
  rcases renderItem_chars it c hc with h | h
  · unfold IsDecChar at h; omega
  · omega

theorem renderItem_ne_nul (it : Nat × Nat) : ∀ c : Nat, c ∈ renderItem it → c ≠ 0 := by
  intro c hc
  rcases renderItem_chars it c hc with h | h
  · unfold IsDecChar at h; omega
  · omega

theorem renderList_chars (items : List (Nat × Nat)) : ∀ c : Nat, c ∈ renderList items → c ≠ 0 := by
  induction items with
  | nil => intro c hc; simp [renderList] at hc; omega
  | cons it rest ih =>
    intro c hc
    cases rest with
    | nil =>
      simp only [renderList, List.mem_append, List.mem_singleton] at hc
      rcases hc with hc | hc
      · exact renderItem_ne_nul it c hc
      · omega
    | cons it2 rest2 =>
      simp only [renderList, List.mem_append, List.mem_singleton] at hc
      rcases hc with (hc | hc) | hc
      · exact renderItem_ne_nul it c hc
      · omega
      · exact ih c hc

private theorem takeWhile_all {α} (p : α → Bool) (l : List α) (h : ∀ x, x ∈ l → p x = true) :
    l.takeWhile p = l := by
  induction l with
  | nil => rfl
  | cons x xs ih =>
    rw [List.takeWhile_cons, h x (by simp), if_pos rfl, ih (fun y hy => h y (by simp [hy]))]

theorem cstr_renderList (items : List (Nat × Nat)) : cstr (renderList items) = renderList items := by
  unfold cstr
  apply takeWhile_all
  intro c hc
  have := renderList_chars items c hc
  simpa using this

theorem splitComma_cons_ne (c : Nat) (cs : List Byte) (h : c ≠ 44) :
    splitComma (c :: cs) = (match splitComma cs with
      | p :: ps => (c :: p) :: ps
      | [] => [[c]]) := by
  rw [splitComma, if_neg h]
  cases splitComma cs <;> rfl

theorem splitComma_nocomma (s : List Byte) (h : ∀ c : Nat, c ∈ s → c ≠ 44) : splitComma s = [s] := by
  induction s with
  | nil => rfl
  | cons c cs ih =>
    rw [splitComma_cons_ne c cs (h c (by simp)), ih (fun c hc => h c (by simp [hc]))]

theorem splitComma_append_comma (s t : List Byte) (h : ∀ c : Nat, c ∈ s → c ≠ 44) :
    splitComma (s ++ 44 :: t) = s :: splitComma t := by
  induction s with
  | nil => rw [List.nil_append, splitComma, if_pos rfl]
  | cons c cs ih =>
    rw [List.cons_append, splitComma_cons_ne c _ (h c (by simp)), ih (fun c hc => h c (by simp [hc]))]

/-! ### one piece -/

theorem noDigitHead_nl (s : List Byte) : NoDigitHead (10 :: s) := by
  intro c cs h; cases h; decide

theorem strtoulS0_dec (n : Nat) (rest : List Byte) (hn : n < 2 ^ 64) (h : NoDigitHead rest) :
    strtoulS 0 (decDigits n ++ rest) = (n, rest) :=
  strtoulS_of_ok _ _ _ _ (strtoul0_decDigits n rest hn h)

theorem toInt32_small (v : Nat) (h : v < 2 ^ 31) : toInt32 v = (v : Int) := by
  unfold toInt32
  have e : v % 2 ^ 32 = v := Nat.mod_eq_of_lt (by omega)
  simp only [e]
  rw [if_pos h]

theorem parseSeg_render (a b : Nat) (tail : List Byte) (hab : a ≤ b) (hb : b < 2 ^ 31)
    (ht : tail = [] ∨ tail = [10]) :
    parseSeg (renderItem (a, b) ++ tail) = ((a : Int), (b : Int)) := by
  have hnd : NoDigitHead tail := by
    rcases ht with rfl | rfl
    · exact noDigitHead_nil
    · exact noDigitHead_nl _
  have ht45 : ∀ t, tail ≠ 45 :: t := by
    intro t e
    rcases ht with rfl | rfl
    · cases e
    · cases e
  have ha : a < 2 ^ 31 := by omega
  unfold renderItem
  simp only
  split
  · rename_i e
    subst e
    unfold parseSeg
    rw [strtoulS0_dec a tail (by omega) hnd]
    simp only
    rw [toInt32_small a ha]
  · have e : decDigits a ++ [45] ++ decDigits b ++ tail = decDigits a ++ (45 :: (decDigits b ++ tail)) := by
      simp
    rw [e]
    unfold parseSeg
    rw [strtoulS0_dec a _ (by omega) (noDigitHead_minus _)]
    simp only
    rw [strtoulS0_dec b tail (by omega) hnd, toInt32_small a ha, toInt32_small b hb]

/-! ### all pieces -/

def toSeg (it : Nat × Nat) : Int × Int := ((it.1 : Int), (it.2 : Int))

theorem segs_renderList (items : List (Nat × Nat)) : ∀ lo, items ≠ [] → AscFrom lo items →
    (splitComma (renderList items)).map parseSeg = items.map toSeg := by
  induction items with
  | nil => intro lo h; exact absurd rfl h
  | cons it rest ih =>
    intro lo _ hasc
    obtain ⟨a, b⟩ := it
    obtain ⟨_, hab, hb, hrest⟩ := hasc
    cases rest with
    | nil =>
      have hc : ∀ c : Nat, c ∈ renderItem (a, b) ++ [10] → c ≠ 44 := by
        intro c hc
        simp only [List.mem_append, List.mem_singleton] at hc
        rcases hc with hc | hc
        · exact renderItem_ne_comma _ c hc
        · omega
      show (splitComma (renderItem (a, b) ++ [10])).map parseSeg = [toSeg (a, b)]
      rw [splitComma_nocomma _ hc, List.map_cons, List.map_nil,
        parseSeg_render a b [10] hab (by omega) (Or.inr rfl)]
      rfl
    | cons it2 rest2 =>
      show (splitComma (renderItem (a, b) ++ [44] ++ renderList (it2 :: rest2))).map parseSeg
        = toSeg (a, b) :: (it2 :: rest2).map toSeg
      have e : renderItem (a, b) ++ [44] ++ renderList (it2 :: rest2)
          = renderItem (a, b) ++ 44 :: renderList (it2 :: rest2) := by simp
      rw [e, splitComma_append_comma _ _ (renderItem_ne_comma _), List.map_cons,
        ih (b + 1) (by simp) hrest]
      have := parseSeg_render a b [] hab (by omega) (Or.inl rfl)
      rw [List.append_nil] at this
      rw [this]
      rfl

theorem clSegs_renderList (items : List (Nat × Nat)) (lo : Nat) (hne : items ≠ [])
    (h : AscFrom lo items) : clSegs (renderList items) = items.map toSeg := by
  unfold clSegs
  rw [cstr_renderList, segs_renderList items lo hne h]

/-! ### the bitmap side -/

theorem mem_fill (dst : Bitmap) (n : Nat) : (dst.fill).mem n = true := by
  have hm : n % 64 < 64 := Nat.mod_lt _ (by omega)
  have hw : ∀ k, (dst.fill).readWord k = BitVec.allOnes 64 := by
    intro k
    unfold Bitmap.fill Bitmap.readWord
    cases k <;> rfl
  unfold Bitmap.mem
  rw [hw, BitVec.getLsbD_allOnes]
  simp [hm]

theorem clrRange_none_inf (b : Bitmap) (beg : Nat) : (b.clrRange beg none).inf = false := by
  unfold Bitmap.clrRange
  simp only
  split
  · rename_i h
    simp only [Bool.and_eq_true, Bool.not_eq_true'] at h
    exact h.1
  · rfl

theorem clrRangeC_some (s : Bitmap) (lo a : Nat) (hlo : lo < 2 ^ 31) (ha : a < 2 ^ 31) (h : lo < a) :
    clrRangeC s ((lo : Int) - 1 + 1) ((a : Int) - 1) = s.clrRange lo (some (a - 1)) := by
  unfold clrRangeC
  have e1 : (((lo : Int) - 1 + 1) % 2 ^ 32).toNat = lo := by omega
  have e2 : (((a : Int) - 1) % 2 ^ 32).toNat = a - 1 := by omega
  have e3 : ¬ ((a : Int) - 1 = -1) := by omega
  rw [e1, e2, if_neg e3]

theorem clrRangeC_none (s : Bitmap) (lo : Nat) (hlo : lo < 2 ^ 31) :
    clrRangeC s ((lo : Int) - 1 + 1) (-1) = s.clrRange lo none := by
  unfold clrRangeC
  have e1 : (((lo : Int) - 1 + 1) % 2 ^ 32).toNat = lo := by omega
  rw [e1, if_pos rfl]

/-! ### the loop -/

theorem clStep_spec (st : CLState) (lo a b : Nat) (hub : st.ub = false)
    (hp : st.prevlast = (lo : Int) - 1) (hlo : lo ≤ a) (ha : a < 2 ^ 31) :
    (clStep st (toSeg (a, b))).ub = false ∧ (clStep st (toSeg (a, b))).prevlast = (b : Int) ∧
      ∀ n, (clStep st (toSeg (a, b))).set.mem n
            = (st.set.mem n && !(decide (lo ≤ n) && decide (n < a))) := by
  have h1 : ¬ (st.ub = true) := by rw [hub]; decide
  have h2 : ¬ (st.prevlast = intMax ∨ (toSeg (a, b)).1 = intMin) := by
    unfold intMax intMin toSeg
    rw [hp]
    simp only
    omega
  unfold clStep
  rw [if_neg h1, if_neg h2]
  refine ⟨rfl, rfl, ?_⟩
  intro n
  simp only [toSeg]
  by_cases h : lo < a
  · have hc : st.prevlast + 1 ≤ (a : Int) - 1 := by rw [hp]; omega
    simp only [hc, if_true]
    rw [hp, clrRangeC_some st.set lo a (by omega) ha h, Bitmap.mem_clrRange_some]
    have e : decide (n ≤ a - 1) = decide (n < a) := by
      by_cases hn : n < a
      · have : n ≤ a - 1 := by omega
        simp [hn, this]
      · have : ¬ n ≤ a - 1 := by omega
        simp [hn, this]
    rw [e]
  · have hc : ¬ (st.prevlast + 1 ≤ (a : Int) - 1) := by rw [hp]; omega
    simp only [hc, if_false]
    have e : (decide (lo ≤ n) && decide (n < a)) = false := by
      have : ¬ (lo ≤ n ∧ n < a) := by omega
      simpa using this
    rw [e]; simp

private theorem bool_step (m r : Bool) (lo a b hi n : Nat) (hlo : lo ≤ a) (hab : a ≤ b) (hhi : b + 1 ≤ hi)
    (hr : r = true → b + 1 ≤ n ∧ n < hi) :
    ((m && !(decide (lo ≤ n) && decide (n < a))) && (decide (n < b + 1) || decide (hi ≤ n) || r))
      = (m && (decide (n < lo) || decide (hi ≤ n) || ((decide (a ≤ n) && decide (n ≤ b)) || r))) := by
  cases m with
  | false => simp
  | true =>
    cases r with
    | true =>
      have := hr rfl
      have f1 : ¬ n < a := by omega
      simp [f1]
    | false =>
      simp only [Bool.true_and, Bool.or_false]
      rw [Bool.eq_iff_iff]
      simp only [Bool.and_eq_true, Bool.or_eq_true, Bool.not_eq_true', decide_eq_true_eq,
        Bool.and_eq_false_iff, decide_eq_false_iff_not]
      omega

theorem fold_spec (items : List (Nat × Nat)) : ∀ (st : CLState) (lo : Nat), st.ub = false →
    st.prevlast = (lo : Int) - 1 → lo < 2 ^ 31 → AscFrom lo items →
    ∃ hi, lo ≤ hi ∧ hi < 2 ^ 31 ∧ ((items.map toSeg).foldl clStep st).ub = false ∧
      ((items.map toSeg).foldl clStep st).prevlast = (hi : Int) - 1 ∧
      (∀ n, items.any (fun it => decide (it.1 ≤ n) && decide (n ≤ it.2)) = true → lo ≤ n ∧ n < hi) ∧
      ∀ n, ((items.map toSeg).foldl clStep st).set.mem n =
        (st.set.mem n && (decide (n < lo) || decide (hi ≤ n) ||
          items.any (fun it => decide (it.1 ≤ n) && decide (n ≤ it.2)))) := by
  induction items with
  | nil =>
    intro st lo hub hp hlo _
    refine ⟨lo, Nat.le_refl _, hlo, hub, hp, ?_, ?_⟩
    · intro n h; simp at h
    · intro n
      have : (decide (n < lo) || decide (lo ≤ n)) = true := by
        by_cases h : n < lo
        · simp [h]
        · have : lo ≤ n := by omega
          simp [this]
      simp [this]
  | cons it rest ih =>
    intro st lo hub hp hlo hasc
    obtain ⟨a, b⟩ := it
    obtain ⟨hloa, hab, hb, hrest⟩ := hasc
    obtain ⟨s1, s2, s3⟩ := clStep_spec st lo a b hub hp hloa (by omega)
    have hp1 : (clStep st (toSeg (a, b))).prevlast = ((b + 1 : Nat) : Int) - 1 := by
      rw [s2]; omega
    obtain ⟨hi, i1, i2, i3, i4, i5, i6⟩ := ih (clStep st (toSeg (a, b))) (b + 1) s1 hp1 hb hrest
    refine ⟨hi, by omega, i2, ?_, ?_, ?_, ?_⟩
    · rw [List.map_cons, List.foldl_cons]; exact i3
    · rw [List.map_cons, List.foldl_cons]; exact i4
    · intro n h
      rw [List.any_cons] at h
      simp only [Bool.or_eq_true, Bool.and_eq_true, decide_eq_true_eq] at h
      rcases h with h | h
      · omega
      · have := i5 n (by simpa using h)
        omega
    · intro n
      rw [List.map_cons, List.foldl_cons, i6 n, s3 n, List.any_cons]
      exact bool_step _ _ lo a b hi n hloa hab i1 (i5 n)

/-! ### the specification -/

/-- for every well-formed kernel cpulist (ascending disjoint items `a` or `a-b`, all below 2^31-1,
rendered in decimal, comma separated, newline terminated) the parser yields exactly the union -/
theorem cpulist_spec (dst : Bitmap) (items : List (Nat × Nat)) (hne : items ≠ []) (h : AscFrom 0 items) :
    ∃ b, cpulist dst (renderList items) = some b ∧ b.inf = false ∧
      ∀ n, b.mem n = items.any (fun it => decide (it.1 ≤ n) && decide (n ≤ it.2)) := by
  have hp0 : (clInit dst).prevlast = ((0 : Nat) : Int) - 1 := rfl
  obtain ⟨hi, _, i2, i3, i4, i5, i6⟩ := fold_spec items (clInit dst) 0 rfl hp0 (by omega) h
  have hfin : clFinal dst (renderList items) = (items.map toSeg).foldl clStep (clInit dst) := by
    unfold clFinal
    rw [clSegs_renderList items 0 hne h]
  have hc : ¬ ((clFinal dst (renderList items)).ub = true ∨
      (clFinal dst (renderList items)).prevlast = intMax) := by
    rw [hfin, i3, i4]
    unfold intMax
    intro hh
    rcases hh with hh | hh
    · cases hh
    · omega
  refine ⟨(((items.map toSeg).foldl clStep (clInit dst)).set).clrRange hi none, ?_, ?_, ?_⟩
  · unfold cpulist
    simp only [hc, if_false]
    rw [hfin, i4, clrRangeC_none _ hi i2]
  · exact clrRange_none_inf _ _
  · intro n
    rw [Bitmap.mem_clrRange_none, i6 n]
    have hm : (clInit dst).set.mem n = true := mem_fill dst n
    rw [hm]
    have h5 := i5 n
    generalize items.any (fun it => decide (it.1 ≤ n) && decide (n ≤ it.2)) = r at h5 ⊢
    cases r with
    | true =>
      have := h5 rfl
      have f : ¬ hi ≤ n := by omega
      simp [f]
    | false =>
      by_cases f : hi ≤ n <;> simp [f]

end Hw.LinuxParse
