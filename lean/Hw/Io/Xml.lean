/-
  Hw.Io.Xml — the byte-level building blocks of the XML round trip and the equivalence `TopoEquiv`.

  * `escapeC`   = hwloc__nolibxml_export_escape_string  (topology-xml-nolibxml.c), with its strcspn runs
  * `nextAttr`  = hwloc__nolibxml_import_next_attr: attribute name, the un-escaping copy with its
                  `len` / `escaped` cursors, the skip to the next attribute
  * `sanitize`  = hwloc__xml_export_safestrdup (HWLOC_XML_CHAR_VALID filter applied to names, subtypes, infos)
  * `atoi`, `%d` = the signed conversions the exporter/importer use besides the unsigned ones of Hw.Base.Num
  * `TopoEquiv` = the equivalence of the property over topology dumps (Hw.Topo.Types)
-/
import Hw.Base.Num
import Hw.Topo.Types
namespace Hw.Xml
open Hw

/-! ### export: escaping of attribute values -/

/-- the reject set of `strcspn(src, "\n\r\t\"<>&")` -/
def isEsc (c : Nat) : Bool := c == 10 || c == 13 || c == 9 || c == 34 || c == 60 || c == 62 || c == 38
def notEsc (c : Nat) : Bool := !isEsc c

/-- the `switch (*src)` of the escaper: replacement text (`default: replen = 0`) -/
def entity (c : Nat) : List Nat :=
  if c = 10 then [38, 35, 49, 48, 59]            -- "&#10;"
  else if c = 13 then [38, 35, 49, 51, 59]       -- "&#13;"
  else if c = 9 then [38, 35, 57, 59]            -- "&#9;"
  else if c = 34 then [38, 113, 117, 111, 116, 59]   -- "&quot;"
  else if c = 60 then [38, 108, 116, 59]         -- "&lt;"
  else if c = 62 then [38, 103, 116, 59]         -- "&gt;"
  else if c = 38 then [38, 97, 109, 112, 59]     -- "&amp;"
  else []

/-- the `while (*src)` loop: emit the replacement of the current char, then copy the run up to the next special char -/
def escapeLoop : Nat → List Nat → List Nat
  | 0, _ => []
  | _, [] => []
  | fuel + 1, c :: cs => entity c ++ cs.takeWhile notEsc ++ escapeLoop fuel (cs.dropWhile notEsc)

/-- `hwloc__nolibxml_export_escape_string(src)`; `none` = NULL ("nothing to escape") -/
def escapeC (s : List Nat) : Option (List Nat) :=
  let sub := s.takeWhile notEsc
  if sub.length = s.length then none
  else some (sub ++ escapeLoop s.length (s.dropWhile notEsc))

/-- what `new_prop` prints between the quotes: `escaped ? escaped : value` -/
def escape (s : List Nat) : List Nat := (escapeC s).getD s

/-- character-wise description of the result (proved equal to `escape` in XmlLemmas) -/
def esc1 (c : Nat) : List Nat := if isEsc c then entity c else [c]
def escapeSpec : List Nat → List Nat
  | [] => []
  | c :: cs => esc1 c ++ escapeSpec cs

/-! ### import: attribute scanner -/

/-- `buffer[i]`; reads past the end see the NUL terminator(s) -/
def rd (b : List Nat) (i : Nat) : Nat := (b.drop i).headD 0
/-- `!strncmp(&b[i], pat, pat.length)` for a NUL-free `pat` -/
def matchAt (b : List Nat) (i : Nat) (pat : List Nat) : Bool := pat.isPrefixOf (b.drop i)

def isBlank (c : Nat) : Bool := c == 32 || c == 9 || c == 10 || c == 13          -- " \t\n\r"
def isAttrNameChar (c : Nat) : Bool := (97 ≤ c && c ≤ 122) || c == 95             -- a-z _

/-- the entity chain of the un-escaper at position `i` (just after the `&`): `(char, extra bytes consumed)` -/
def decodeEntity (v : List Nat) (i : Nat) : Option (Nat × Nat) :=
  if matchAt v i [35, 49, 48, 59] then some (10, 4)
  else if matchAt v i [35, 49, 51, 59] then some (13, 4)
  else if matchAt v i [35, 57, 59] then some (9, 3)
  else if matchAt v i [113, 117, 111, 116, 59] then some (34, 5)
  else if matchAt v i [108, 116, 59] then some (60, 3)
  else if matchAt v i [103, 116, 59] then some (62, 3)
  else if matchAt v i [97, 109, 112, 59] then some (38, 4)
  else none

/-- the un-escaping loop over `value` with the C cursors `len` (bytes produced) and `escaped` (extra bytes
    consumed).  The C code writes `value[len]` in place; every read is at an index `≥ len + escaped`, i.e. at or
    after the cell being written, and the cell is written after the reads of its iteration, so the copy never
    reads a byte it has overwritten: the model reads the original buffer and collects the output.
    Result: `(unescaped value, index of the closing quote)`; `none` = `return -1`. -/
def unescLoop (v : List Nat) : Nat → Nat → Nat → List Nat → Option (List Nat × Nat)
  | 0, _, _, _ => none
  | fuel + 1, len, esc, out =>
    let c := rd v (len + esc)
    if c = 34 then some (out, len + esc)
    else
      let r : Option (Nat × Nat) := if c = 38 then decodeEntity v (1 + len + esc) else some (c, 0)
      match r with
      | none => none
      | some (w, k) =>
        if rd v (len + 1 + (esc + k)) = 0 then none
        else unescLoop v fuel (len + 1) (esc + k) (out ++ [w])

/-- un-escape a value that starts at the beginning of `v` (just after the opening quote) -/
def unescape (v : List Nat) : Option (List Nat × Nat) := unescLoop v (v.length + 1) 0 0 []

/-- `hwloc__nolibxml_import_next_attr` on `attrbuffer = b`: `(name, value, offset of the new attrbuffer)` -/
def nextAttr (b : List Nat) : Option (List Nat × List Nat × Nat) :=
  let lead := (b.takeWhile isBlank).length
  let b1 := b.drop lead
  let namelen := (b1.takeWhile isAttrNameChar).length
  if rd b1 namelen ≠ 61 ∨ rd b1 (namelen + 1) ≠ 34 then none
  else
    let v := b1.drop (namelen + 2)
    match unescape v with
    | none => none
    | some (val, q) =>
      let endOff := lead + namelen + 2 + q + 1
      some (b1.take namelen, val, endOff + ((b.drop endOff).takeWhile isBlank).length)

/-! ### the attribute list of a tag: what `new_prop` writes and how the importer's `while (next_attr(...) >= 0)` loop reads it -/

/-- `hwloc__nolibxml_export_new_prop`: ` name="escaped value"` -/
def renderAttr (a : List Nat × List Nat) : List Nat := 32 :: a.1 ++ 61 :: 34 :: escape a.2 ++ [34]
/-- the attributes of one tag, as they stand in the attribute buffer (find_child replaced the closing `>` or `/>` by NUL) -/
def renderAttrs : List (List Nat × List Nat) → List Nat
  | [] => []
  | a :: l => renderAttr a ++ renderAttrs l

/-- the importer's loop over `next_attr` until it fails -/
def scanAttrs : Nat → List Nat → List (List Nat × List Nat)
  | 0, _ => []
  | fuel + 1, b =>
    match nextAttr b with
    | none => []
    | some (n, v, off) => (n, v) :: scanAttrs fuel (b.drop off)

/-! ### strings that reach the XML file -/

/-- `HWLOC_XML_CHAR_VALID` (with `char` signed: bytes ≥ 128 are invalid) -/
def xmlCharValid (c : Nat) : Bool := (32 ≤ c && c ≤ 126) || c == 9 || c == 10 || c == 13
/-- `hwloc__xml_export_safestrdup` -/
def sanitize (s : List Nat) : List Nat := s.filter xmlCharValid

/-! ### signed numbers -/

/-- `%d` -/
def printInt (i : Int) : List Nat := if i < 0 then 45 :: decDigits i.natAbs else decDigits i.toNat

/-- `atoi` (no overflow modelled: callers stay inside `int`) -/
def atoi (s : List Nat) : Int :=
  let s1 := s.dropWhile isSpace
  match s1 with
  | 45 :: r => - ((takeDigits 10 r 0 0).1 : Int)
  | 43 :: r => ((takeDigits 10 r 0 0).1 : Int)
  | _ => ((takeDigits 10 s1 0 0).1 : Int)

/-! ### the equivalence of the property -/

open Hw.Topo

/-- what the property constrains of one object: tree position and child order (ids are DFS numbers, so the pointer
    fields are positions), type, subtype, name, os_index, gp_index, the four sets, type attributes (incl. the number
    of page types), infos in order, and the values derived from them (depth, logical index, total memory, symmetry) -/
structure ObjObs where
  id : Nat
  type : Nat
  depth : Int
  lidx : Nat
  osidx : Int
  gp : Nat
  parent : Int
  rank : Nat
  arities : List Nat
  links : List Int
  symm : Int
  sets : List (Option Nat)
  totalMem : Nat
  attrs : List Int
  children : List Int
  subtype : Option String
  name : Option String
  infos : List (String × String)
deriving DecidableEq, Repr

/-- type attributes as exported: a Group's `depth` (first slot) is not exported, every load recomputes it from the tree
    (hwloc_set_group_depth) -/
def exportedAttrs (o : Obj) : List Int :=
  if o.type = tGROUP then (match o.attrs with | _ :: r => 0 :: r | [] => []) else o.attrs

def obsObj (o : Obj) : ObjObs :=
  { id := o.id, type := o.type, depth := o.depth, lidx := o.lidx, osidx := o.osidx, gp := o.gp, parent := o.parent, rank := o.rank,
    arities := [o.arity, o.marity, o.ioarity, o.miscarity],
    links := [o.nextSib, o.prevSib, o.nextCousin, o.prevCousin, o.firstChild, o.lastChild, o.memFirst, o.ioFirst, o.miscFirst],
    symm := o.symm, sets := [o.cpuset, o.ccpuset, o.nodeset, o.cnodeset], totalMem := o.totalMem, attrs := exportedAttrs o,
    children := o.children, subtype := o.subtype, name := o.name, infos := o.infos }

/-- everything of a dump except the type filters (the reload keeps all types by construction) -/
structure DumpObs where
  flags : Nat
  depth : Nat
  root : Int
  nobjs : Nat
  allowedCpuset : Option Nat
  allowedNodeset : Option Nat
  objs : List ObjObs
  levels : List Level
  typeDepths : List Int
deriving DecidableEq, Repr

def obs (d : Dump) : DumpObs :=
  { flags := d.flags, depth := d.depth, root := d.root, nobjs := d.nobjs, allowedCpuset := d.allowedCpuset,
    allowedNodeset := d.allowedNodeset, objs := d.objs.map obsObj, levels := d.levels, typeDepths := d.typeDepths }

/-- the equivalence named in the property (v3 format) -/
def TopoEquiv (a b : Dump) : Prop := obs a = obs b
instance (a b : Dump) : Decidable (TopoEquiv a b) := inferInstanceAs (Decidable (obs a = obs b))

/-- v2 format: "same tree and sets" -/
structure TreeObs where
  type : Nat
  parent : Int
  rank : Nat
  arities : List Nat
  children : List Int
  sets : List (Option Nat)
deriving DecidableEq, Repr

def treeObsObj (o : Obj) : TreeObs :=
  { type := o.type, parent := o.parent, rank := o.rank, arities := [o.arity, o.marity, o.ioarity, o.miscarity],
    children := o.children, sets := [o.cpuset, o.ccpuset, o.nodeset, o.cnodeset] }

def treeObs (d : Dump) : List TreeObs × Option Nat × Option Nat × Int := (d.objs.map treeObsObj, d.allowedCpuset, d.allowedNodeset, d.root)

def TreeSetsEquiv (a b : Dump) : Prop := treeObs a = treeObs b
instance (a b : Dump) : Decidable (TreeSetsEquiv a b) := inferInstanceAs (Decidable (treeObs a = treeObs b))

/-- backward-compatibility rule of the importer for files of format version ≤ 2 (hwloc 2.0 had no Die type): a Group whose
    subtype is "Die" or whose kind is HWLOC_GROUP_KIND_INTEL_DIE (104) is loaded as a Die object -/
def v2DieRuleObj (o : Obj) : Obj :=
  if o.type = tGROUP ∧ (o.subtype = some "Die" ∨ o.attrs[1]? = some 104) then { o with type := tDIE } else o
def v2DieRule (d : Dump) : Dump := { d with objs := d.objs.map v2DieRuleObj }

/-- strings of a dump are byte strings decoded one char per byte (Driver.Topo.hexStr) -/
def sanitizeStr (s : String) : String := String.ofList (s.toList.filter (fun c => xmlCharValid c.toNat))

/-- what the exporter does to the strings of an object before they reach the file -/
def sanitizeObj (o : Obj) : Obj :=
  { o with subtype := o.subtype.map sanitizeStr, name := o.name.map sanitizeStr,
           infos := o.infos.map (fun p => (sanitizeStr p.1, sanitizeStr p.2)) }
def sanitizeDump (d : Dump) : Dump := { d with objs := d.objs.map sanitizeObj }

/-- `fixup_sets` of the core (run on every load, hence on the reloaded topology): a memory child takes the cpuset and
    complete_cpuset of its parent.  `normMem` applies it along the DFS order (parents come before children). -/
def normMemStep (acc : List Obj) (o : Obj) : List Obj :=
  if isMemory o.type then
    match (if o.parent < 0 then none else acc[o.parent.toNat]?) with
    | some p => acc ++ [{ o with cpuset := p.cpuset, ccpuset := p.ccpuset }]
    | none => acc ++ [o]
  else acc ++ [o]
def normMem (d : Dump) : Dump := { d with objs := d.objs.foldl normMemStep [] }

end Hw.Xml
