/-
  Hw.Io.XmlObj — the object level of the XML round trip (v3 format): which attributes
  hwloc__xml_export_object_contents writes in the start tag of one `<object>` (`exportAttrs`: names, order, formatted
  values) and what hwloc__xml_import_object_attr + the checks of hwloc__xml_import_object make of an attribute list
  (`importAttrs`).

  `ObjFields` = the fields of an object that the start tag carries: type, os_index, gp_index, the four sets (and the
  topology's allowed sets on the root), name, subtype, the attribute union as harness/dump.h prints it (a0..a5) and, for PCI
  devices and bridges with a PCI upstream side, the `pcidev` fields (a0..a5 of a bridge describe its bridge part).
  OUTSIDE the start tag (child elements, not modelled here): infos, page types, userdata, children.
  Not modelled: floating point — `pci_link_speed` is carried as the text that `%f` printed (the importer's atof is trusted).

  Values are byte strings (`List Nat`), as in Hw.Io.Xml.
-/
import Hw.Io.Xml
import Hw.Io.TypeStr
import Hw.Io.Calc
import Hw.Bitmap.Print
import Hw.Bitmap.Scan
namespace Hw.XmlObj
open Hw Hw.Topo

abbrev Bytes := List Nat

structure PciFields where
  domain : Nat
  bus : Nat
  dev : Nat
  func : Nat
  classId : Nat
  vendor : Nat
  device : Nat
  subvendor : Nat
  subdevice : Nat
  revision : Nat
  progIf : Nat
  linkspeed : Bytes
deriving DecidableEq, Repr, Inhabited

structure ObjFields where
  type : Nat
  osidx : Option Nat            -- none = HWLOC_UNKNOWN_INDEX
  gp : Nat
  cpuset : Option Nat
  ccpuset : Option Nat
  nodeset : Option Nat
  cnodeset : Option Nat
  allowed : Option (Nat × Nat)  -- root only: topology->allowed_cpuset / allowed_nodeset
  name : Option Bytes
  subtype : Option Bytes
  attrs : List Int              -- a0..a5
  pci : Option PciFields
deriving DecidableEq, Repr, Inhabited

def ObjFields.a (f : ObjFields) (i : Nat) : Int := f.attrs.getD i 0
def ObjFields.n (f : ObjFields) (i : Nat) : Nat := (f.a i).toNat

def isCacheT (t : Nat) : Bool := decide (tL1 ≤ t) && decide (t ≤ tL3I)      -- hwloc__obj_type_is_cache
def isCacheLike (t : Nat) : Bool := isCacheT t || t == tMEMCACHE           -- the types whose attr union is `cache`
def isSpecialT (t : Nat) : Bool := t == tBRIDGE || t == tPCI || t == tOSDEV || t == tMISC
def isNormalT (t : Nat) : Bool := decide (t ≤ tGROUP)
def isMemoryT (t : Nat) : Bool := t == tNUMA || t == tMEMCACHE
def isIOT (t : Nat) : Bool := t == tBRIDGE || t == tPCI || t == tOSDEV

/-! ### formatting -/

/-- `hwloc_bitmap_asprintf` of a finite set given as a mask (hwloc format, C04 model) -/
def setText (m : Nat) : Bytes := text (Calc.ofMask m).chunksHwloc

inductive SetScan
  | ok (m : Nat)
  | infinite            -- outside `ObjFields` (never exported for a loaded topology)
  | unsupported
deriving DecidableEq, Repr

/-- `hwloc_bitmap_sscanf` into a (freshly allocated or existing) set; on a parse error the destination is zeroed -/
def setScan (s : Bytes) : SetScan :=
  match Bitmap.hwlocScan s with
  | .ok ws inf =>
    if inf then .infinite
    else match ws.mapM id with
      | some w => .ok (Calc.maskOf ⟨w, false⟩ 0)
      | none => .unsupported
  | .fail => .ok 0
  | .unsupported => .unsupported

/-- a `%x` conversion with field width `w` (`none` = unlimited): at least one, at most `w` hex digits, either case.
    (Leading white space, signs and `0x` prefixes, which scanf also accepts, are not modelled: the exporter writes none.) -/
def scanHex (w : Option Nat) (s : Bytes) : Option (Nat × Bytes) :=
  let pre := match w with | some k => s.take k | none => s
  let r := takeDigits 16 pre 0 0
  if r.2.1 = 0 then none else some (r.1, s.drop r.2.1)

/-- `%u` / `%lu` of sscanf on an unsigned decimal text -/
def scanDec (s : Bytes) : Option (Nat × Bytes) :=
  let r := takeDigits 10 s 0 0
  if r.2.1 = 0 then none else some (r.1, r.2.2)

def expect (c : Nat) (s : Bytes) : Option Bytes := match s with | x :: r => if x = c then some r else none | [] => none
/-- a blank in a scanf format: any amount of white space, also none -/
def skipWs (s : Bytes) : Bytes := s.dropWhile isSpace

/-- `sscanf(value, "%x:%02x:%02x.%01x", ...) == 4` -/
def scanBusid (s : Bytes) : Option (Nat × Nat × Nat × Nat) := do
  let (d, s) ← scanHex none s
  let s ← expect 58 s
  let (b, s) ← scanHex (some 2) s
  let s ← expect 58 s
  let (dv, s) ← scanHex (some 2) s
  let s ← expect 46 s
  let (f, _) ← scanHex (some 1) s
  pure (d, b, dv, f)

/-- `"%x [%04x:%04x] [%04x:%04x] %02x %02x"` (7 conversions) with the 6-conversion fallback of hwloc < 3 files -/
def scanPciType (s : Bytes) : Option (Nat × Nat × Nat × Nat × Nat × Nat × Nat) := do
  let (c, s) ← scanHex none s
  let s ← expect 91 (skipWs s)
  let (v, s) ← scanHex (some 4) s
  let s ← expect 58 s
  let (d, s) ← scanHex (some 4) s
  let s ← expect 93 s
  let s ← expect 91 (skipWs s)
  let (sv, s) ← scanHex (some 4) s
  let s ← expect 58 s
  let (sd, s) ← scanHex (some 4) s
  let s ← expect 93 s
  let (r, s) ← scanHex (some 2) (skipWs s)
  match scanHex (some 2) (skipWs s) with
  | some (p, _) => pure (c, v, d, sv, sd, r, p)
  | none => pure (c, v, d, sv, sd, r, 0)

/-- `sscanf(value, "%x:[%02x-%02x]", ...) == 3` -/
def scanBridgePci (s : Bytes) : Option (Nat × Nat × Nat) := do
  let (d, s) ← scanHex none s
  let s ← expect 58 s
  let s ← expect 91 s
  let (a, s) ← scanHex (some 2) s
  let s ← expect 45 s
  let (b, _) ← scanHex (some 2) s
  pure (d, a, b)

/-- `sscanf(value, "%u-%u", ...) == 2` -/
def scanBridgeType (s : Bytes) : Option (Nat × Nat) := do
  let (u, s) ← scanDec s
  let s ← expect 45 s
  let (d, _) ← scanDec s
  pure (u, d)

/-- strtoul / strtoull base 10 of a whole attribute value (`none` only for a sign: outside the modelled domain) -/
def strtoulV (s : Bytes) : Option Nat := match strtoul 10 s with | .ok v _ => some v | .unsupported => none

/-- `hwloc_type_sscanf(value, &type, NULL, 0)` -/
def typeScan (s : Bytes) : Option Nat :=
  match TypeStr.typeSscanf s with
  | .ok (some p) => some p.type
  | _ => none

/-! ### export -/

def b (s : String) : Bytes := str s

def pciAttrs (p : PciFields) : List (Bytes × Bytes) :=
  [ (b "pci_busid", hexPad 4 p.domain ++ [58] ++ hexPad 2 p.bus ++ [58] ++ hexPad 2 p.dev ++ [46] ++ hexPad 1 p.func),
    (b "pci_type", hexPad 4 p.classId ++ b " [" ++ hexPad 4 p.vendor ++ [58] ++ hexPad 4 p.device ++ b "] [" ++ hexPad 4 p.subvendor ++ [58] ++
        hexPad 4 p.subdevice ++ b "] " ++ hexPad 2 p.revision ++ [32] ++ hexPad 2 p.progIf),
    (b "pci_link_speed", p.linkspeed) ]

/-- the `switch (obj->type)` of the exporter -/
def typeAttrs (f : ObjFields) : List (Bytes × Bytes) :=
  if f.type = tNUMA then
    (if f.n 0 ≠ 0 then [(b "local_memory", decDigits (f.n 0))] else [])
  else if isCacheLike f.type then
    [ (b "cache_size", decDigits (f.n 0)), (b "depth", decDigits (f.n 1)), (b "cache_linesize", decDigits (f.n 2)),
      (b "cache_associativity", Xml.printInt (f.a 3)), (b "cache_type", Xml.printInt (f.a 4)) ]
  else if f.type = tGROUP then
    [ (b "kind", decDigits (f.n 1)), (b "subkind", decDigits (f.n 2)) ] ++ (if f.a 3 ≠ 0 then [(b "dont_merge", b "1")] else [])
  else if f.type = tBRIDGE then
    [ (b "bridge_type", Xml.printInt (f.a 0) ++ [45] ++ Xml.printInt (f.a 1)), (b "depth", decDigits (f.n 2)) ] ++
    (if f.a 1 = 1 then [(b "bridge_pci", hexPad 4 (f.n 3) ++ b ":[" ++ hexPad 2 (f.n 4) ++ [45] ++ hexPad 2 (f.n 5) ++ [93])] else []) ++
    (if f.a 0 = 1 then pciAttrs (f.pci.getD default) else [])
  else if f.type = tPCI then pciAttrs (f.pci.getD default)
  else if f.type = tOSDEV then [(b "osdev_type", decDigits (f.n 0))]
  else []

def strAttr (name : String) (v : Option Bytes) : List (Bytes × Bytes) :=
  match v with | some s => [(b name, Xml.sanitize s)] | none => []

def osSeg (os : Option Nat) : List (Bytes × Bytes) :=
  match os with | some i => [(b "os_index", decDigits i)] | none => []

/-- `if (obj->cpuset) { ... }`: the four sets, with the topology's allowed sets on the root -/
def setsSeg (root : Bool) (f : ObjFields) : List (Bytes × Bytes) :=
  match f.cpuset with
  | some c =>
    [(b "cpuset", setText c), (b "complete_cpuset", setText (f.ccpuset.getD 0))] ++
    (if root then [(b "allowed_cpuset", setText ((f.allowed.getD (0, 0)).1))] else []) ++
    [(b "nodeset", setText (f.nodeset.getD 0)), (b "complete_nodeset", setText (f.cnodeset.getD 0))] ++
    (if root then [(b "allowed_nodeset", setText ((f.allowed.getD (0, 0)).2))] else [])
  | none => []

/-- the attributes of the start tag of one object, in the order hwloc__xml_export_object_contents writes them (v3) -/
def exportAttrs (root : Bool) (f : ObjFields) : List (Bytes × Bytes) :=
  [(b "type", TypeStr.typeString f.type)] ++ osSeg f.osidx ++ setsSeg root f ++
  [(b "gp_index", decDigits f.gp), (b "id", b "obj" ++ decDigits f.gp)] ++
  strAttr "name" f.name ++ strAttr "subtype" f.subtype ++ typeAttrs f

/-! ### import -/

inductive ImportRes
  | ok (f : ObjFields)
  | ignored            -- *ignore = 1: the object is dropped, not an error
  | reject             -- goto error_with_object
  | outside            -- outside the modelled domain (infinite set, signed number, no type attribute)
deriving DecidableEq, Repr

structure ISt where
  f : ObjFields
  gotType : Bool := false
  ignored : Bool := false
  allowedC : Option Nat := none
  allowedN : Option Nat := none
  bad : Option ImportRes := none
deriving Repr

def setAttr (f : ObjFields) (i : Nat) (v : Int) : ObjFields := { f with attrs := f.attrs.set i v }
def updPci (f : ObjFields) (g : PciFields → PciFields) : ObjFields := { f with pci := some (g (f.pci.getD default)) }

def withNum (st : ISt) (v : Bytes) (k : Nat → ISt) : ISt :=
  match strtoulV v with | some n => k n | none => { st with bad := some .outside }

def withSet (st : ISt) (v : Bytes) (k : Nat → ISt) : ISt :=
  match setScan v with
  | .ok m => k m
  | .infinite => { st with bad := some .outside }
  | .unsupported => { st with bad := some .outside }

inductive AttrKind
  | osIndex | gpIndex | id | cpuset | ccpuset | allowedCpuset | nodeset | cnodeset | allowedNodeset | name | subtype
  | cacheSize | cacheLinesize | cacheAssoc | cacheType | localMemory | depth | kind | subkind | dontMerge
  | pciBusid | pciType | pciLinkSpeed | bridgeType | bridgePci | osdevType | other
deriving DecidableEq, Repr

/-- the `strcmp(name, ...)` chain of hwloc__xml_import_object_attr, in source order -/
def attrKind (name : Bytes) : AttrKind :=
  if name = b "os_index" then .osIndex
  else if name = b "gp_index" then .gpIndex
  else if name = b "id" then .id
  else if name = b "cpuset" then .cpuset
  else if name = b "complete_cpuset" then .ccpuset
  else if name = b "allowed_cpuset" then .allowedCpuset
  else if name = b "nodeset" then .nodeset
  else if name = b "complete_nodeset" then .cnodeset
  else if name = b "allowed_nodeset" then .allowedNodeset
  else if name = b "name" then .name
  else if name = b "subtype" then .subtype
  else if name = b "cache_size" then .cacheSize
  else if name = b "cache_linesize" then .cacheLinesize
  else if name = b "cache_associativity" then .cacheAssoc
  else if name = b "cache_type" then .cacheType
  else if name = b "local_memory" then .localMemory
  else if name = b "depth" then .depth
  else if name = b "kind" then .kind
  else if name = b "subkind" then .subkind
  else if name = b "dont_merge" then .dontMerge
  else if name = b "pci_busid" then .pciBusid
  else if name = b "pci_type" then .pciType
  else if name = b "pci_link_speed" then .pciLinkSpeed
  else if name = b "bridge_type" then .bridgeType
  else if name = b "bridge_pci" then .bridgePci
  else if name = b "osdev_type" then .osdevType
  else .other          -- numanode_type and unknown attributes are ignored

/-- hwloc__xml_import_object_attr for every attribute except `type`.  C truncations to the field widths are applied
    (`unsigned`, `unsigned char`, `unsigned short`). -/
def importAttr (root : Bool) (st : ISt) (name v : Bytes) : ISt :=
  let f := st.f
  let t := f.type
  match attrKind name with
  | .osIndex => withNum st v (fun n => { st with f := { f with osidx := if n % 2^32 = 2^32 - 1 then none else some (n % 2^32) } })
  | .gpIndex => withNum st v (fun n => { st with f := { f with gp := n } })
  | .id => (if (b "obj").isPrefixOf v then withNum st (v.drop 3) (fun n => { st with f := { f with gp := n } }) else st)
  | .cpuset => withSet st v (fun m => { st with f := { f with cpuset := some m } })
  | .ccpuset => withSet st v (fun m => { st with f := { f with ccpuset := some m } })
  | .allowedCpuset => (if root then withSet st v (fun m => { st with allowedC := some m }) else st)
  | .nodeset => withSet st v (fun m => { st with f := { f with nodeset := some m } })
  | .cnodeset => withSet st v (fun m => { st with f := { f with cnodeset := some m } })
  | .allowedNodeset => (if root then withSet st v (fun m => { st with allowedN := some m }) else st)
  | .name => { st with f := { f with name := some v } }
  | .subtype => { st with f := { f with subtype := some v } }
  | .cacheSize => withNum st v (fun n => if isCacheLike t then { st with f := setAttr f 0 n } else st)
  | .cacheLinesize => withNum st v (fun n => if isCacheLike t then { st with f := setAttr f 2 (n % 2^32) } else st)
  | .cacheAssoc => (if isCacheLike t then { st with f := setAttr f 3 (Xml.atoi v) } else st)
  | .cacheType => withNum st v (fun n => if isCacheLike t ∧ (n = 0 ∨ n = 1 ∨ n = 2) then { st with f := setAttr f 4 n } else st)
  | .localMemory => withNum st v (fun n => if t = tNUMA then { st with f := setAttr f 0 n } else st)
  | .depth => withNum st v (fun n => if isCacheLike t then { st with f := setAttr f 1 (n % 2^32) } else st)
  | .kind => withNum st v (fun n => if t = tGROUP then { st with f := setAttr f 1 (n % 2^32) } else st)
  | .subkind => withNum st v (fun n => if t = tGROUP then { st with f := setAttr f 2 (n % 2^32) } else st)
  | .dontMerge => withNum st v (fun n => if t = tGROUP then { st with f := setAttr f 3 (n % 256) } else st)
  | .pciBusid =>
    (if t = tPCI ∨ t = tBRIDGE then
      match scanBusid v with
      | some (d, bu, dv, fn) =>
        let f' := updPci f (fun p => { p with domain := d % 2^32, bus := bu % 256, dev := dv % 256, func := fn % 256 })
        { st with f := if t = tPCI then setAttr (setAttr (setAttr (setAttr f' 0 (d % 2^32)) 1 (bu % 256)) 2 (dv % 256)) 3 (fn % 256) else f' }
      | none => { st with ignored := true }
     else st)
  | .pciType =>
    (if t = tPCI ∨ t = tBRIDGE then
      match scanPciType v with
      | some (c, ve, de, sv, sd, r, p) =>
        let f' := updPci f (fun q => { q with classId := c % 65536, vendor := ve % 65536, device := de % 65536, subvendor := sv % 65536,
                                              subdevice := sd % 65536, revision := r % 256, progIf := p % 256 })
        { st with f := if t = tPCI then setAttr (setAttr f' 4 (c % 65536)) 5 ((ve % 65536) * 65536 + de % 65536) else f' }
      | none => st
     else st)
  | .pciLinkSpeed => (if t = tPCI ∨ t = tBRIDGE then { st with f := updPci f (fun p => { p with linkspeed := v }) } else st)
  | .bridgeType =>
    (if t = tBRIDGE then
      match scanBridgeType v with
      | some (u, d) => { st with f := setAttr (setAttr f 0 (u % 2^32)) 1 (d % 2^32) }
      | none => st
     else st)
  | .bridgePci =>
    (if t = tBRIDGE then
      match scanBridgePci v with
      | some (d, s1, s2) => { st with f := setAttr (setAttr (setAttr f 3 (d % 2^32)) 4 (s1 % 256)) 5 (s2 % 256) }
      | none => { st with ignored := true }
     else st)
  | .osdevType => (if t = tOSDEV then match scanDec v with | some (n, _) => { st with f := setAttr f 0 n } | none => st else st)
  | .other => st

def emptyFields (t : Nat) : ObjFields :=
  { type := t, osidx := none, gp := 0, cpuset := none, ccpuset := none, nodeset := none, cnodeset := none, allowed := none,
    name := none, subtype := none, attrs := [0, 0, 0, 0, 0, 0], pci := none }

/-- the attribute loop of hwloc__xml_import_object: `type` may come only once (a second one is an error); the other
    attributes are interpreted with the type known so far (objects are allocated with HWLOC_OBJ_TYPE_MAX, the root is the
    Machine object) -/
def importLoop (root : Bool) : ISt → List (Bytes × Bytes) → ISt
  | st, [] => st
  | st, (name, v) :: rest =>
    if st.bad.isSome then st
    else if name = b "type" then
      if st.gotType then { st with bad := some .reject }
      else match typeScan v with
        | some t => importLoop root { st with gotType := true, f := { st.f with type := t } } rest
        | none => { st with bad := some .reject }     -- (the Tile / Module / Cluster spellings of future types are not modelled)
    else importLoop root (importAttr root st name v) rest

/-- hwloc_cache_type_by_depth_type -/
def cacheTypeBy (depth : Nat) (ty : Int) : Option Nat :=
  if ty = 2 then (if 1 ≤ depth ∧ depth ≤ 3 then some (tL1I + depth - 1) else none)
  else (if 1 ≤ depth ∧ depth ≤ 5 then some (tL1 + depth - 1) else none)

def popcountIs1 (m : Nat) : Bool := m ≠ 0 && (m &&& (m - 1)) == 0

/-- context of the object inside the file -/
structure Ctx where
  root : Bool
  parentType : Nat := 0            -- meaningful when not root
  parentHasSets : Bool := true     -- parent->cpuset / parent->nodeset non-NULL

/-- the checks of hwloc__xml_import_object after the attributes (v3 files; the type filter, applied afterwards, is outside) -/
def checks (c : Ctx) (f : ObjFields) : Bool :=
  let t := f.type
  (if c.root then t == tMACHINE else t != tMACHINE) &&
  (c.root ||
    (!(c.parentType == tPU && isNormalT t) &&
     (if isNormalT t then isNormalT c.parentType
      else if isMemoryT t then !(isIOT c.parentType || c.parentType == tMISC || c.parentType == tNUMA)
      else if isIOT t then !(isMemoryT c.parentType || c.parentType == tMISC)
      else true))) &&
  (!isCacheT t || cacheTypeBy (f.n 1) (f.a 4) == some t) &&
  (t != tBRIDGE || (f.a 1 == 1 && (f.a 0 == 0 || f.a 0 == 1))) &&
  (isSpecialT t || (f.cpuset.isSome && f.nodeset.isSome && f.ccpuset.isSome && f.cnodeset.isSome)) &&
  (!isSpecialT t || (f.cpuset.isNone && f.nodeset.isNone)) &&
  (t != tPU || (match f.cpuset, f.osidx with | some m, some i => popcountIs1 m && m.testBit i | _, _ => false)) &&
  (t != tNUMA || (match f.nodeset, f.osidx with | some m, some i => popcountIs1 m && m.testBit i | _, _ => false)) &&
  (c.root || c.parentHasSets || (f.cpuset.isNone && f.nodeset.isNone))

/-- what the importer makes of the attribute list of one `<object>` start tag -/
def importAttrs (c : Ctx) (l : List (Bytes × Bytes)) : ImportRes :=
  let st := importLoop c.root { f := emptyFields (if c.root then tMACHINE else tMAX) } l
  match st.bad with
  | some r => r
  | none =>
    if !st.gotType && !c.root then .outside
    else
      let f := { st.f with allowed := if c.root then some (st.allowedC.getD 0, st.allowedN.getD 0) else none }
      if !checks c f then .reject
      else if st.ignored then .ignored
      else .ok f

/-! ### validity and normalisation -/

/-- what the exporter does to the strings, and the two derived attributes the importer leaves to the core
    (a Group's and a Bridge's `depth`) -/
def normalise (f : ObjFields) : ObjFields :=
  { f with name := f.name.map Xml.sanitize, subtype := f.subtype.map Xml.sanitize,
           attrs := if f.type = tGROUP then f.attrs.set 0 0 else if f.type = tBRIDGE then f.attrs.set 2 0 else f.attrs }

def pciValid (p : PciFields) : Bool :=
  decide (p.domain < 2^32) && decide (p.bus < 256) && decide (p.dev < 256) && decide (p.func < 16) && decide (p.classId < 65536) &&
  decide (p.vendor < 65536) && decide (p.device < 65536) && decide (p.subvendor < 65536) && decide (p.subdevice < 65536) &&
  decide (p.revision < 256) && decide (p.progIf < 256) && p.linkspeed.all (· != 0)

def nonneg (f : ObjFields) : Bool := f.attrs.all (fun x => decide (0 ≤ x))

/-- the attribute union (a0..a5 and the pcidev part) holds what the object's type allows, within the C field widths -/
def attrsValid (f : ObjFields) : Bool :=
  f.attrs.length == 6 &&
  (if f.type = tNUMA then decide (0 ≤ f.a 0) && decide (f.n 0 < 2^64) && f.a 1 == 0 && f.a 2 == 0 && f.a 3 == 0 && f.a 4 == 0 && f.a 5 == 0 && f.pci.isNone
   else if isCacheLike f.type then
     decide (0 ≤ f.a 0) && decide (f.n 0 < 2^64) && decide (0 ≤ f.a 1) && decide (f.n 1 < 2^32) && decide (0 ≤ f.a 2) && decide (f.n 2 < 2^32) &&
     decide (-(2^31 : Int) ≤ f.a 3) && decide (f.a 3 < 2^31) && (f.a 4 == 0 || f.a 4 == 1 || f.a 4 == 2) && f.a 5 == 0 && f.pci.isNone
   else if f.type = tGROUP then
     decide (0 ≤ f.a 0) && decide (0 ≤ f.a 1) && decide (f.n 1 < 2^32) && decide (0 ≤ f.a 2) && decide (f.n 2 < 2^32) && (f.a 3 == 0 || f.a 3 == 1) &&
     f.a 4 == 0 && f.a 5 == 0 && f.pci.isNone
   else if f.type = tBRIDGE then
     (f.a 0 == 0 || f.a 0 == 1) && f.a 1 == 1 && decide (0 ≤ f.a 2) && decide (f.n 2 < 2^32) && decide (0 ≤ f.a 3) && decide (f.n 3 < 2^32) && decide (0 ≤ f.a 4) && decide (f.n 4 < 256) &&
     decide (0 ≤ f.a 5) && decide (f.n 5 < 256) &&
     (if f.a 0 = 1 then (match f.pci with | some p => pciValid p | none => false) else f.pci.isNone)
   else if f.type = tPCI then
     (match f.pci with
      | some p => pciValid p && f.a 0 == p.domain && f.a 1 == p.bus && f.a 2 == p.dev && f.a 3 == p.func && f.a 4 == p.classId &&
                  f.a 5 == (p.vendor * 65536 + p.device : Nat)
      | none => false)
   else if f.type = tOSDEV then decide (0 ≤ f.a 0) && decide (f.n 0 < 2^64) && f.a 1 == 0 && f.a 2 == 0 && f.a 3 == 0 && f.a 4 == 0 && f.a 5 == 0 && f.pci.isNone
   else f.attrs == [0, 0, 0, 0, 0, 0] && f.pci.isNone)

/-- what a well-formed object of a loaded topology satisfies, as far as the start tag is concerned (decidable):
    field widths, NUL-free strings, the four sets present together, allowed sets on the root only, a consistent attribute
    union, and the structural checks the importer itself makes (`checks`) -/
def Valid (c : Ctx) (f : ObjFields) : Bool :=
  decide (f.type < tMAX) && decide (f.gp < 2^64) &&
  (match f.osidx with | some i => decide (i < 2^32 - 1) | none => true) &&
  (match f.name with | some s => s.all (· != 0) | none => true) && (match f.subtype with | some s => s.all (· != 0) | none => true) &&
  (if c.root then f.allowed.isSome else f.allowed.isNone) &&
  (f.cpuset.isSome == f.ccpuset.isSome) && (f.cpuset.isSome == f.nodeset.isSome) && (f.cpuset.isSome == f.cnodeset.isSome) &&
  attrsValid f && checks c f

/-! ### `<info>` child elements (object infos, topology infos, cpukind infos) -/

/-- hwloc__xml_export_info_attr: both strings go through safestrdup -/
def exportInfo (p : Bytes × Bytes) : List (Bytes × Bytes) := [(b "name", Xml.sanitize p.1), (b "value", Xml.sanitize p.2)]

inductive InfoRes
  | pair (p : Bytes × Bytes)     -- the pair is added
  | none                         -- name or value missing: nothing is added (not an error)
  | error                        -- an attribute other than name / value: return -1
deriving DecidableEq, Repr

def infoLoop : List (Bytes × Bytes) → Option Bytes → Option Bytes → Option (Option Bytes × Option Bytes)
  | [], n, v => some (n, v)
  | (a, x) :: l, n, v =>
    if a = b "name" then infoLoop l (some x) v
    else if a = b "value" then infoLoop l n (some x)
    else Option.none

/-- hwloc___xml_import_info + hwloc__xml_import_obj_info for a v3 file -/
def importInfo (l : List (Bytes × Bytes)) : InfoRes :=
  match infoLoop l Option.none Option.none with
  | some (some n, some v) => .pair (n, v)
  | some _ => .none
  | Option.none => .error

end Hw.XmlObj
