/-
  Hw.Io.SyntheticDumpLemmas — structural facts about `toDump t` that hold for EVERY abstract topology `t`:
  the objects are numbered by their position (the DFS numbering computed arithmetically by `nid`/`memId`/`numaId`
  is the order in which `genObjs` emits them), the root is the Machine object 0, the level table is complete.
-/
import Hw.Io.SyntheticDump
namespace Hw.Syn
open Hw Hw.Topo

/-! ### the subtree-size table -/

def szStep (ar : List Nat) (mem : List (List MemChild)) (d : Nat) (acc : List Nat) : List Nat :=
  (1 + (ar[d]?.getD 0) * (acc.head?.getD 0) + ((mem[d]?.getD []).map msz).sum) :: acc

theorem foldr_szStep_length (ar : List Nat) (mem : List (List MemChild)) (ds : List Nat) :
    (ds.foldr (szStep ar mem) []).length = ds.length := by
  induction ds with
  | nil => rfl
  | cons d ds ih => simp [List.foldr_cons, szStep, ih]

/-- `sz[i] = 1 + ar[ds[i]] * sz[i+1] + M[ds[i]]` for the table built by the fold over `ds` -/
theorem foldr_szStep_get (ar : List Nat) (mem : List (List MemChild)) : ∀ (ds : List Nat) (i : Nat) (hi : i < ds.length),
    ((ds.foldr (szStep ar mem) [])[i]?).getD 0 =
      1 + (ar[ds[i]]?.getD 0) * (((ds.foldr (szStep ar mem) [])[i + 1]?).getD 0) + ((mem[ds[i]]?.getD []).map msz).sum := by
  intro ds
  induction ds with
  | nil => intro i hi; simp at hi
  | cons d ds ih =>
    intro i hi
    cases i with
    | zero =>
      simp only [List.foldr_cons, szStep, List.getElem?_cons_zero, Option.getD_some, List.getElem_cons_zero,
        List.getElem?_cons_succ, Nat.zero_add]
      rw [List.head?_eq_getElem?]
    | succ j =>
      simp only [List.length_cons] at hi
      have := ih j (by omega)
      simp only [List.foldr_cons, szStep, List.getElem?_cons_succ, List.getElem_cons_succ]
      exact this

def szOf (T : DTab) (d : Nat) : Nat := T.sz[d]?.getD 0
def arOf (T : DTab) (d : Nat) : Nat := T.ar[d]?.getD 0
def memSz (T : DTab) (d : Nat) : Nat := ((T.mem[d]?.getD []).map msz).sum

theorem mkTab_sz (t : Topo) (d : Nat) (hd : d ≤ (mkTab t).D) :
    szOf (mkTab t) d = 1 + arOf (mkTab t) d * szOf (mkTab t) (d + 1) + memSz (mkTab t) d := by
  unfold szOf arOf memSz
  have hD : (mkTab t).D = t.levels.length := rfl
  have hsz : (mkTab t).sz = (List.range (t.levels.length + 1)).foldr (szStep (mkTab t).ar (mkTab t).mem) [] := rfl
  rw [hsz]
  have := foldr_szStep_get (mkTab t).ar (mkTab t).mem (List.range (t.levels.length + 1)) d (by simp; omega)
  simp only [List.getElem_range] at this
  exact this

/-! ### ids are positions -/

theorem flatMap_range' (b s : Nat) : ∀ a : Nat, (List.range a).flatMap (fun r => List.range' (b + r * s) s) = List.range' b (a * s) := by
  intro a
  induction a with
  | zero => simp
  | succ n ih =>
    rw [List.range_succ, List.flatMap_append, ih]
    simp only [List.flatMap_cons, List.flatMap_nil, List.append_nil]
    rw [Nat.succ_mul, ← List.range'_append_1]

theorem nid_child (T : DTab) (d k r : Nat) (hr : r < arOf T d) :
    nid T (d + 1) (k * arOf T d + r) = nid T d k + 1 + r * szOf T (d + 1) := by
  unfold arOf at hr
  have hpos : 0 < T.ar[d]?.getD 0 := by omega
  have ha : T.ar[d]?.getD 1 = T.ar[d]?.getD 0 := by
    cases h : T.ar[d]? with
    | none => simp [h] at hpos
    | some v => rfl
  show nid T d ((k * arOf T d + r) / (T.ar[d]?.getD 1)) + 1 + ((k * arOf T d + r) % (T.ar[d]?.getD 1)) * (T.sz[d + 1]?.getD 0) = _
  rw [ha]
  unfold arOf szOf
  have e1 : (k * (T.ar[d]?.getD 0) + r) / (T.ar[d]?.getD 0) = k := by
    rw [Nat.mul_comm, Nat.mul_add_div hpos, Nat.div_eq_of_lt hr]; omega
  have e2 : (k * (T.ar[d]?.getD 0) + r) % (T.ar[d]?.getD 0) = r := by
    rw [Nat.mul_comm, Nat.mul_add_mod, Nat.mod_eq_of_lt hr]
  rw [e1, e2]

theorem memSlot_ids (E : DEnv) (d k s : Nat) :
    (memSlot E d k s).map (·.id) = List.range' (memId E.T d k s) (msz ((E.T.mem[d]?.getD [])[s]?.getD ⟨0, 0⟩)) := by
  unfold memSlot msz numaId
  simp only
  split
  · rename_i h; simp only [List.map_cons, List.map_nil, h, if_true]; rfl
  · rename_i h; simp only [List.map_cons, List.map_nil, h, if_false]; rfl

/-- ids of the memory objects of (d, k): consecutive, starting right after the normal children -/
theorem memObjs_ids (E : DEnv) (d k : Nat) :
    (memObjs E d k).map (·.id) = List.range' (nid E.T d k + 1 + arOf E.T d * szOf E.T (d + 1)) (memSz E.T d) := by
  unfold memObjs memSz
  generalize hms : E.T.mem[d]?.getD [] = ms
  have key : ∀ n, n ≤ ms.length →
      ((List.range n).flatMap (memSlot E d k)).map (·.id) =
      List.range' (nid E.T d k + 1 + arOf E.T d * szOf E.T (d + 1)) (((ms.take n).map msz).sum) := by
    intro n
    induction n with
    | zero => intro _; simp
    | succ n ih =>
      intro hn
      rw [List.range_succ, List.flatMap_append, List.map_append, ih (by omega)]
      have htake : ((ms.take (n + 1)).map msz).sum = ((ms.take n).map msz).sum + msz (ms[n]?.getD ⟨0, 0⟩) := by
        have hlt : n < ms.length := by omega
        rw [List.getElem?_eq_getElem hlt, Option.getD_some, List.map_take, List.map_take, List.take_succ]
        have : (List.map msz ms)[n]? = some (msz ms[n]) := by simp [hlt]
        rw [this]
        simp [List.sum_append]
      rw [htake, ← List.range'_append_1]
      congr 1
      simp only [List.flatMap_cons, List.flatMap_nil, List.append_nil]
      rw [memSlot_ids, hms]
      congr 1
      unfold memId arOf szOf; rw [hms]
  have := key ms.length (Nat.le_refl _)
  rw [List.take_length] at this
  exact this

theorem flatMap_congr_mem {α β : Type} (l : List α) (f g : α → List β) (h : ∀ x ∈ l, f x = g x) :
    l.flatMap f = l.flatMap g := by
  induction l with
  | nil => rfl
  | cons a l ih =>
    simp only [List.flatMap_cons]
    rw [h a List.mem_cons_self, ih (fun x hx => h x (List.mem_cons_of_mem _ hx))]

theorem mkTab_ar_last (t : Topo) : arOf (mkTab t) (mkTab t).D = 0 := by
  unfold arOf
  show (t.levels.map (·.arity) ++ [0])[t.levels.length]?.getD 0 = 0
  simp

/-- **ids are positions (subtree form)**: the objects emitted for the subtree of (d, k) carry the consecutive ids
`nid d k, nid d k + 1, ...` -/
theorem genObjs_ids (t : Topo) (E : DEnv) (hE : E.T = mkTab t) : ∀ (f d k : Nat), d + f = E.T.D + 1 → d ≤ E.T.D →
    (genObjs E f d k).map (·.id) = List.range' (nid E.T d k) (szOf E.T d) := by
  intro f
  induction f with
  | zero => intro d k h1 h2; omega
  | succ f ih =>
    intro d k h1 h2
    have hsz : szOf E.T d = 1 + arOf E.T d * szOf E.T (d + 1) + memSz E.T d := by
      rw [hE]; exact mkTab_sz t d (by rw [← hE]; exact h2)
    unfold genObjs
    simp only [List.map_cons, List.map_append]
    have hn : (normalObj E d k).id = nid E.T d k := rfl
    rw [hn, memObjs_ids, hsz]
    have hkids : (List.map (fun x => x.id) (if d < E.T.D then (List.range (E.T.ar[d]?.getD 0)).flatMap (fun r => genObjs E f (d + 1) (k * (E.T.ar[d]?.getD 0) + r)) else [])) =
        List.range' (nid E.T d k + 1) (arOf E.T d * szOf E.T (d + 1)) := by
      split
      · rename_i hd
        rw [List.map_flatMap]
        have : ∀ r ∈ List.range (E.T.ar[d]?.getD 0),
            (genObjs E f (d + 1) (k * (E.T.ar[d]?.getD 0) + r)).map (·.id) = List.range' (nid E.T d k + 1 + r * szOf E.T (d + 1)) (szOf E.T (d + 1)) := by
          intro r hr
          have hr' : r < arOf E.T d := List.mem_range.1 hr
          rw [ih (d + 1) _ (by omega) (by omega)]
          have := nid_child E.T d k r hr'
          unfold arOf at this
          rw [this]
        rw [flatMap_congr_mem _ _ _ this, flatMap_range']
        rfl
      · rename_i hd
        have hdD : d = E.T.D := by omega
        have : arOf E.T d = 0 := by rw [hdD, hE]; exact mkTab_ar_last t
        rw [this]; simp
    rw [hkids]
    rw [show 1 + arOf E.T d * szOf E.T (d + 1) + memSz E.T d = 1 + (arOf E.T d * szOf E.T (d + 1) + memSz E.T d) by omega]
    rw [List.range'_append_1, Nat.add_comm 1 (arOf E.T d * szOf E.T (d + 1) + memSz E.T d), List.range'_succ]

/-- **ids are positions**: in the dump of every abstract topology the i-th object has id i -/
theorem toDump_ids (t : Topo) : (toDump t).objs.map (·.id) = List.range (toDump t).nobjs := by
  have hobjs : ∃ E : DEnv, E.T = mkTab t ∧ (toDump t).objs = genObjs E (E.T.D + 1) 0 0 := ⟨_, rfl, rfl⟩
  obtain ⟨E, hE, ho⟩ := hobjs
  have hn : (toDump t).nobjs = (toDump t).objs.length := rfl
  have h := genObjs_ids t E hE (E.T.D + 1) 0 0 (by omega) (Nat.zero_le _)
  rw [hn, ho]
  rw [h]
  have h0 : nid E.T 0 0 = 0 := rfl
  rw [h0, List.range_eq_range']
  have : (genObjs E (E.T.D + 1) 0 0).length = szOf E.T 0 := by
    have := congrArg List.length h
    simpa using this
  rw [this]

/-- the WF clause `id-is-position` for every object of every dump -/
theorem toDump_id_is_position (t : Topo) : ∀ o ∈ (toDump t).objs, ((toDump t).objs[o.id]?).map (·.id) = some o.id := by
  intro o ho
  obtain ⟨i, hi, rfl⟩ := List.getElem_of_mem ho
  have h := toDump_ids t
  have hid : ((toDump t).objs[i]).id = i := by
    have := congrArg (fun l => l[i]?) h
    simp only [List.getElem?_map, List.getElem?_eq_getElem hi, Option.map_some] at this
    have hi' : i < (toDump t).nobjs := hi
    rw [List.getElem?_range hi'] at this
    simpa using this
  rw [hid, List.getElem?_eq_getElem hi]
  simp [hid]

/-- the root is object 0: a Machine at depth 0 without parent -/
theorem toDump_root (t : Topo) :
    (toDump t).root = 0 ∧ 0 < (toDump t).nobjs ∧ (toDump t).objs.length = (toDump t).nobjs ∧
    ∃ r, (toDump t).objs[0]? = some r ∧ r.type = tMACHINE ∧ r.depth = 0 ∧ r.parent = -1 ∧ r.id = 0 := by
  have ho : ∃ E : DEnv, (toDump t).objs = genObjs E (E.T.D + 1) 0 0 := ⟨_, rfl⟩
  obtain ⟨E, ho⟩ := ho
  have hcons : (toDump t).objs = normalObj E 0 0 :: ((if 0 < E.T.D then (List.range (E.T.ar[0]?.getD 0)).flatMap (fun r => genObjs E E.T.D (0 + 1) (0 * (E.T.ar[0]?.getD 0) + r)) else []) ++ memObjs E 0 0) := by
    rw [ho]; rfl
  refine ⟨rfl, ?_, rfl, normalObj E 0 0, by rw [hcons]; rfl, rfl, rfl, rfl, rfl⟩
  show 0 < (toDump t).objs.length
  rw [hcons]; simp

/-- the level table lists every normal depth and the six special levels -/
theorem toDump_levels_listed (t : Topo) :
    (toDump t).levels.length = (toDump t).depth + 6 ∧ (toDump t).typeDepths.length = tMAX := by
  constructor
  · show ((List.range ((mkTab t).D + 1)).map _ ++ _).length = (mkTab t).D + 1 + 6
    simp
  · show ((List.range tMAX).map _).length = tMAX
    simp
