/-
  Hw.Io.SyntheticWF8 — `set-in-parent` for `toDump t`: the cpuset and the nodeset of every object are included in its
  parent's, for every `t` with `topoOK t`.
-/
import Hw.Io.SyntheticWF7
namespace Hw.Syn
open Hw Hw.Topo

set_option linter.unusedSectionVars false
set_option linter.unusedSimpArgs false

/-- the objects of depth `e` on the path through (d, k): its descendants, itself, or its ancestor -/
def ksOf (T : DTab) (d k e : Nat) : List Nat :=
  if e > d then (List.range (nOf T e / nOf T d)).map (· + k * (nOf T e / nOf T d)) else if e = d then [k] else [k / (nOf T d / nOf T e)]

theorem numaPositions_eq (E : DEnv) (d k : Nat) : numaPositions E d k =
    (List.range (E.T.D + 1)).flatMap (fun e =>
      (ksOf E.T d k e).flatMap (fun k' => (List.range (numaCnt E.T e)).map (fun s => postPos E.T (numaCnt E.T) e k' s))) := rfl

theorem numaPositions_sub (E : DEnv) (d k d' k' : Nat) (hs : ∀ e, e ≤ E.T.D → ∀ x ∈ ksOf E.T d' k' e, x ∈ ksOf E.T d k e) :
    ∀ p ∈ numaPositions E d' k', p ∈ numaPositions E d k := by
  intro p hp
  rw [numaPositions_eq] at hp ⊢
  obtain ⟨e, he, hp⟩ := List.mem_flatMap.1 hp
  obtain ⟨x, hx, hp⟩ := List.mem_flatMap.1 hp
  have he' : e ≤ E.T.D := by have := List.mem_range.1 he; omega
  exact List.mem_flatMap.2 ⟨e, he, List.mem_flatMap.2 ⟨x, hs e he' x hx, hp⟩⟩

theorem nodesetOf_sub (E : DEnv) (d k d' k' : Nat) (hs : ∀ p ∈ numaPositions E d' k', p ∈ numaPositions E d k) :
    subset (nodesetOf E d' k') (nodesetOf E d k) = true := by
  rw [subset_iff]
  intro b hb
  unfold nodesetOf at *
  rw [testBit_orBits] at hb ⊢
  simp only [List.contains_eq_mem, List.mem_map, decide_eq_true_eq] at hb ⊢
  obtain ⟨p, hp, hb⟩ := hb
  exact ⟨p, hs p hp, hb⟩

section
variable (t : Topo) (h : OK t)
include h

theorem q_total (e d : Nat) (he : e ≤ (mkTab t).D) (hd : d ≤ e) :
    nOf (mkTab t) e = nOf (mkTab t) d * (nOf (mkTab t) e / nOf (mkTab t) d) :=
  (q_spec t h e he (e - d) d (by omega)).1

theorem q_succ (e d : Nat) (he : e ≤ (mkTab t).D) (hd : d < e) :
    nOf (mkTab t) e / nOf (mkTab t) d = arOf (mkTab t) d * (nOf (mkTab t) e / nOf (mkTab t) (d + 1)) :=
  (q_spec t h e he (e - d) d (by omega)).2 (by omega)

/-- the path through a child is part of the path through its parent -/
theorem ksOf_child (d k' : Nat) (hd : d < (mkTab t).D) (hk' : k' < nOf (mkTab t) (d + 1)) :
    ∀ e, e ≤ (mkTab t).D → ∀ x ∈ ksOf (mkTab t) (d + 1) k' e, x ∈ ksOf (mkTab t) d (k' / arOf (mkTab t) d) e := by
  intro e he x hx
  have ⟨ha, _⟩ := div_lt_parent t d k' hd hk'
  have hsucc := nOf_succ t d hd
  have hpd := nOf_pos t h d (Nat.le_of_lt hd)
  have hkk : k' / arOf (mkTab t) d * arOf (mkTab t) d + k' % arOf (mkTab t) d = k' := by
    rw [Nat.mul_comm]; exact Nat.div_add_mod k' _
  have hr : k' % arOf (mkTab t) d < arOf (mkTab t) d := Nat.mod_lt _ ha
  unfold ksOf at hx ⊢
  by_cases h1 : e > d + 1
  · rw [if_pos h1] at hx
    rw [if_pos (by omega)]
    obtain ⟨i, hi, rfl⟩ := List.mem_map.1 hx
    have hi' := List.mem_range.1 hi
    have hq := q_succ t h e d he (by omega)
    refine List.mem_map.2 ⟨k' % arOf (mkTab t) d * (nOf (mkTab t) e / nOf (mkTab t) (d + 1)) + i, List.mem_range.2 ?_, ?_⟩
    · rw [hq]
      have := Nat.mul_le_mul_right (nOf (mkTab t) e / nOf (mkTab t) (d + 1)) (Nat.succ_le_of_lt hr)
      rw [Nat.succ_mul] at this
      omega
    · rw [hq]
      have e1 : k' * (nOf (mkTab t) e / nOf (mkTab t) (d + 1)) =
          (k' / arOf (mkTab t) d * arOf (mkTab t) d + k' % arOf (mkTab t) d) * (nOf (mkTab t) e / nOf (mkTab t) (d + 1)) := by rw [hkk]
      show k' % arOf (mkTab t) d * (nOf (mkTab t) e / nOf (mkTab t) (d + 1)) + i +
          k' / arOf (mkTab t) d * (arOf (mkTab t) d * (nOf (mkTab t) e / nOf (mkTab t) (d + 1))) =
          i + k' * (nOf (mkTab t) e / nOf (mkTab t) (d + 1))
      rw [e1, Nat.add_mul, Nat.mul_assoc]
      omega
  · by_cases h2 : e = d + 1
    · subst h2
      rw [if_neg (by omega), if_pos rfl] at hx
      rw [if_pos (by omega)]
      simp only [List.mem_singleton] at hx
      rw [hx]
      have hq : nOf (mkTab t) (d + 1) / nOf (mkTab t) d = arOf (mkTab t) d := by
        rw [hsucc, Nat.mul_div_cancel_left _ hpd]
      rw [hq]
      exact List.mem_map.2 ⟨k' % arOf (mkTab t) d, List.mem_range.2 hr, by omega⟩
    · rw [if_neg (by omega), if_neg h2] at hx
      simp only [List.mem_singleton] at hx
      rw [hx]
      by_cases h3 : e = d
      · subst h3
        rw [if_neg (by omega), if_pos rfl]
        have hq : nOf (mkTab t) (e + 1) / nOf (mkTab t) e = arOf (mkTab t) e := by
          rw [hsucc, Nat.mul_div_cancel_left _ hpd]
        rw [hq]; exact List.mem_singleton.2 rfl
      · rw [if_neg (by omega), if_neg h3]
        have hpe := nOf_pos t h e he
        have hde := q_total t h d e (Nat.le_of_lt hd) (by omega)
        have hq : nOf (mkTab t) (d + 1) / nOf (mkTab t) e = (nOf (mkTab t) d / nOf (mkTab t) e) * arOf (mkTab t) d := by
          rw [hsucc]
          conv => lhs; rw [hde]
          rw [Nat.mul_assoc, Nat.mul_div_cancel_left _ hpe]
        rw [hq, Nat.mul_comm, ← Nat.div_div_eq_div_mul]
        exact List.mem_singleton.2 rfl

theorem slot_pos_mem (d k s : Nat) (hd : d ≤ (mkTab t).D) (hs : s < memLen (mkTab t) d) :
    postPos (mkTab t) (numaCnt (mkTab t)) d k s ∈ numaPositions (envOf t) d k := by
  rw [numaPositions_eq]
  refine List.mem_flatMap.2 ⟨d, List.mem_range.2 (by rw [envOf_T]; omega), List.mem_flatMap.2 ⟨k, ?_, List.mem_map.2 ⟨s, List.mem_range.2 hs, rfl⟩⟩⟩
  unfold ksOf
  rw [if_neg (by omega), if_pos rfl]; exact List.mem_singleton.2 rfl

theorem slot_nodeset_sub (d k s : Nat) (hd : d ≤ (mkTab t).D) (hs : s < memLen (mkTab t) d) :
    subset (1 <<< (t.numaIdx[postPos (mkTab t) (numaCnt (mkTab t)) d k s]?.getD 0)) (nodesetOf (envOf t) d k) = true := by
  rw [subset_iff]
  intro b hb
  rw [testBit_single] at hb
  simp only [decide_eq_true_eq] at hb
  unfold nodesetOf
  rw [testBit_orBits]
  simp only [List.contains_eq_mem, List.mem_map, decide_eq_true_eq]
  exact ⟨_, slot_pos_mem t h d k s hd hs, by rw [← hb]; rfl⟩

theorem cl_set_in_parent (o : Obj) (ho : o ∈ (toDump t).objs) :
    (fun (d : Dump) (_ : Aux) (o : Obj) => match d.obj? o.parent with
      | none => true
      | some p => if isSpecial o.type then true else
          subset (o.cpuset.getD 0) (p.cpuset.getD 0) && subset (o.ccpuset.getD 0) (p.ccpuset.getD 0) &&
          subset (o.nodeset.getD 0) (p.nodeset.getD 0) && subset (o.cnodeset.getD 0) (p.cnodeset.getD 0))
      (toDump t) (mkAux (toDump t)) o = true := by
  cases objs_kind t o ho with
  | normal d k hd hk e =>
    cases d with
    | zero => rw [e]; rfl
    | succ d =>
      have hd' : d < (mkTab t).D := hd
      have hf := normal_facts _ (isNormal_lt _ (ntype_normal t h (d + 1) hd))
      have ⟨ha, hlt⟩ := div_lt_parent t d k hd' hk
      have hcs : subset (cpusetOf (envOf t) (d + 1) k) (cpusetOf (envOf t) d (k / arOf (mkTab t) d)) = true := by
        rw [subset_iff]
        intro b hb
        rw [cpuset_union t h d _ b hd']
        refine ⟨k % arOf (mkTab t) d, Nat.mod_lt _ ha, ?_⟩
        have : k / arOf (mkTab t) d * arOf (mkTab t) d + k % arOf (mkTab t) d = k := by
          rw [Nat.mul_comm]; exact Nat.div_add_mod k _
        rw [this]; exact hb
      have hns : subset (nodesetOf (envOf t) (d + 1) k) (nodesetOf (envOf t) d (k / arOf (mkTab t) d)) = true :=
        nodesetOf_sub _ _ _ _ _ (numaPositions_sub _ _ _ _ _ (by rw [envOf_T]; exact ksOf_child t h d k hd' hk))
      simp only [e, lookup_parent_normal t d k hd' hk, normalObj_type, hf.2.2.2.2.2.1, Bool.false_eq_true, if_false]
      have c1 : ∀ d k, (normalObj (envOf t) d k).cnodeset = some (nodesetOf (envOf t) d k) := fun _ _ => rfl
      simp only [normalObj_cpuset, normalObj_ccpuset, normalObj_nodeset, c1, Option.getD_some, hcs, hns, Bool.and_self]
  | numa d k s hd hk hs e =>
    have hty : isSpecial (numaObj (envOf t) d k s).type = false := rfl
    simp only [e, lookup_parent_numa t d k s hd hk hs, hty, Bool.false_eq_true, if_false]
    have n1 : (numaObj (envOf t) d k s).cpuset = some (cpusetOf (envOf t) d k) := rfl
    have n2 : (numaObj (envOf t) d k s).ccpuset = some (cpusetOf (envOf t) d k) := rfl
    have n3 : (numaObj (envOf t) d k s).nodeset = some (1 <<< (t.numaIdx[postPos (mkTab t) (numaCnt (mkTab t)) d k s]?.getD 0)) := rfl
    have n4 : (numaObj (envOf t) d k s).cnodeset = some (1 <<< (t.numaIdx[postPos (mkTab t) (numaCnt (mkTab t)) d k s]?.getD 0)) := rfl
    by_cases hm : (slotM (envOf t) d s).msc ≠ 0
    · rw [if_pos hm]
      have m1 : (mcObj (envOf t) d k s).cpuset = some (cpusetOf (envOf t) d k) := rfl
      have m2 : (mcObj (envOf t) d k s).ccpuset = some (cpusetOf (envOf t) d k) := rfl
      have m3 : (mcObj (envOf t) d k s).nodeset = some (1 <<< (t.numaIdx[postPos (mkTab t) (numaCnt (mkTab t)) d k s]?.getD 0)) := rfl
      have m4 : (mcObj (envOf t) d k s).cnodeset = some (1 <<< (t.numaIdx[postPos (mkTab t) (numaCnt (mkTab t)) d k s]?.getD 0)) := rfl
      simp only [n1, n2, n3, n4, m1, m2, m3, m4, Option.getD_some, subset_self, Bool.and_self]
    · rw [if_neg hm]
      have c1 : (normalObj (envOf t) d k).cnodeset = some (nodesetOf (envOf t) d k) := rfl
      simp only [n1, n2, n3, n4, normalObj_cpuset, normalObj_ccpuset, normalObj_nodeset, c1, Option.getD_some, subset_self,
        slot_nodeset_sub t h d k s hd hs, Bool.and_self]
  | mc d k s hd hk hs hm e =>
    have hty : isSpecial (mcObj (envOf t) d k s).type = false := rfl
    simp only [e, lookup_parent_mc t d k s hd hk, hty, Bool.false_eq_true, if_false]
    have m1 : (mcObj (envOf t) d k s).cpuset = some (cpusetOf (envOf t) d k) := rfl
    have m2 : (mcObj (envOf t) d k s).ccpuset = some (cpusetOf (envOf t) d k) := rfl
    have m3 : (mcObj (envOf t) d k s).nodeset = some (1 <<< (t.numaIdx[postPos (mkTab t) (numaCnt (mkTab t)) d k s]?.getD 0)) := rfl
    have m4 : (mcObj (envOf t) d k s).cnodeset = some (1 <<< (t.numaIdx[postPos (mkTab t) (numaCnt (mkTab t)) d k s]?.getD 0)) := rfl
    have c1 : (normalObj (envOf t) d k).cnodeset = some (nodesetOf (envOf t) d k) := rfl
    simp only [m1, m2, m3, m4, normalObj_cpuset, normalObj_ccpuset, normalObj_nodeset, c1, Option.getD_some, subset_self,
      slot_nodeset_sub t h d k s hd hs, Bool.and_self]

end

end Hw.Syn
