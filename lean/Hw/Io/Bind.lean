/-
  Hw.Io.Bind — model of hwloc/bind.c (C10).

  bind.c is modelled as decision logic over an abstract hook table: `Env.present` says which
  members of `topology->binding_hooks` are non-NULL, `Env.run` is the (arbitrary) behaviour of a
  hook over an abstract world `σ`.  Every hook invocation is appended to an EFFECT LOG
  (`St.log`) together with the set / policy / flags it was handed.  Every public entry point has
  the same shape in the C source,

      prologue (flag mask, policy check, hwloc_fix_cpubind / hwloc_fix_membind /
                hwloc_fix_membind_cpuset, zero-length shortcuts)
      dispatch (PROCESS / THREAD / fall-back chain, or a single hook, or the alloc chains)
      epilogue (hwloc_cpuset_from_nodeset for the get-calls that are not BYNODESET)

  and is modelled as `callEntry = epilogue ∘ dispatch ∘ prologue`.

  Sets.  Topology sets (complete / topology cpuset and nodeset, NUMA-node cpusets) and every set
  produced by a hook are finite and are `Nat` bit masks.  ARGUMENT sets may be infinite: `ASet` is a
  finite-or-cofinite set (`bits`, `inf`), `mem i = (bits.testBit i != inf)`.
  `flags` is the 32-bit pattern of the C `int` as a `Nat`; `flags & ~MASK` is `flags &&& MASK ≠ flags`.
  Constants come from the generated `Hw.Gen.BindConsts` (tie T).
-/
import Hw.Gen.BindConsts
namespace Hw.Bind
open Hw.Gen.BindConsts

/-- errno values bind.c and the hooks distinguish (`other` = anything else) -/
inductive Errno
  | einval | enosys | exdev | eperm | enomem | other
  deriving DecidableEq, Repr, Inhabited

/-- the members of `struct hwloc_binding_hooks` (without get_allowed_resources) -/
inductive Hook
  | setThisprocCpubind | getThisprocCpubind | setThisthreadCpubind | getThisthreadCpubind
  | setProcCpubind | getProcCpubind | setThreadCpubind | getThreadCpubind
  | getThisprocLastCpu | getThisthreadLastCpu | getProcLastCpu
  | setThisprocMembind | getThisprocMembind | setThisthreadMembind | getThisthreadMembind
  | setProcMembind | getProcMembind | setAreaMembind | getAreaMembind | getAreaMemlocation
  | alloc | allocMembind | freeMembind
  deriving DecidableEq, Repr, Inhabited

def Hook.all : List Hook :=
  [.setThisprocCpubind, .getThisprocCpubind, .setThisthreadCpubind, .getThisthreadCpubind,
   .setProcCpubind, .getProcCpubind, .setThreadCpubind, .getThreadCpubind,
   .getThisprocLastCpu, .getThisthreadLastCpu, .getProcLastCpu,
   .setThisprocMembind, .getThisprocMembind, .setThisthreadMembind, .getThisthreadMembind,
   .setProcMembind, .getProcMembind, .setAreaMembind, .getAreaMembind, .getAreaMemlocation,
   .alloc, .allocMembind, .freeMembind]

/-- hooks that are handed a CPU set to bind to -/
def Hook.takesCpuset : Hook → Bool
  | .setThisprocCpubind | .setThisthreadCpubind | .setProcCpubind | .setThreadCpubind => true
  | _ => false

/-- hooks that are handed a node set to bind to -/
def Hook.takesNodeset : Hook → Bool
  | .setThisprocMembind | .setThisthreadMembind | .setProcMembind | .setAreaMembind | .allocMembind => true
  | _ => false

/-- hooks that change or query a binding (everything except plain alloc / free) -/
def Hook.isBinding : Hook → Bool
  | .alloc | .freeMembind => false
  | _ => true

/-! ### argument sets -/

structure ASet where
  bits : Nat
  inf : Bool
  deriving DecidableEq, Repr, Inhabited

namespace ASet
def mem (a : ASet) (i : Nat) : Bool := a.bits.testBit i != a.inf
/-- hwloc_bitmap_iszero -/
def isZero (a : ASet) : Bool := !a.inf && a.bits == 0
/-- hwloc_bitmap_isincluded(a, c) for a finite `c` -/
def inclIn (a : ASet) (c : Nat) : Bool := !a.inf && (a.bits &&& c == a.bits)
/-- hwloc_bitmap_isincluded(t, a) for a finite `t` -/
def covers (a : ASet) (t : Nat) : Bool := if a.inf then t &&& a.bits == 0 else t &&& a.bits == t
def fin (n : Nat) : ASet := ⟨n, false⟩
end ASet

/-! ### what bind.c reads from the topology -/

structure Topo where
  completeCpuset : Nat
  topologyCpuset : Nat
  completeNodeset : Nat
  topologyNodeset : Nat
  /-- the NUMA level in order: (os_index, cpuset) -/
  nodes : List (Nat × Nat)
  deriving Repr, Inhabited

/-- hwloc_cpuset_to_nodeset: os_index of every NUMA node whose cpuset intersects `set` -/
def cpusetToNodeset (nodes : List (Nat × Nat)) (set : Nat) : Nat :=
  nodes.foldl (fun acc n => if n.2 &&& set ≠ 0 then acc ||| (1 <<< n.1) else acc) 0

/-- hwloc_cpuset_from_nodeset: union of the cpusets of the NUMA nodes whose os_index is in `ns` -/
def cpusetFromNodeset (nodes : List (Nat × Nat)) (ns : Nat) : Nat :=
  nodes.foldl (fun acc n => if ns.testBit n.1 then acc ||| n.2 else acc) 0

/-- shared body of hwloc_fix_cpubind / hwloc_fix_membind: `none` = NULL with errno EINVAL -/
def fixSet (complete topo : Nat) (set : ASet) : Option Nat :=
  if set.isZero then none
  else if !set.inclIn complete then none
  else if set.covers topo then some complete
  else some set.bits

def fixCpubind (t : Topo) (set : ASet) : Option Nat := fixSet t.completeCpuset t.topologyCpuset set
def fixMembind (t : Topo) (set : ASet) : Option Nat := fixSet t.completeNodeset t.topologyNodeset set

/-- hwloc_fix_membind_cpuset: `none` = -1 with errno EINVAL -/
def fixMembindCpuset (t : Topo) (cpuset : ASet) : Option Nat :=
  if cpuset.isZero then none
  else if !cpuset.inclIn t.completeCpuset then none
  else if cpuset.covers t.topologyCpuset then some t.completeNodeset
  else some (cpusetToNodeset t.nodes cpuset.bits)

/-- hwloc__check_membind_policy -/
def policyOk (p : Int) : Bool := acceptedPolicies.contains p

/-- `flags & ~MASK` -/
def unknownBits (flags mask : Nat) : Bool := flags &&& mask != flags

/-! ### calls, results, state -/

/-- what a hook is handed -/
structure Args where
  set : Nat := 0
  policy : Int := 0
  flags : Nat := 0
  pid : Nat := 0
  len : Nat := 0
  deriving DecidableEq, Repr, Inhabited

/-- result of a hook or of an entry point.  `rc < 0` = failure with `err`; for pointer results `rc = 0` is a
non-NULL pointer and `rc = -1` is NULL.  `set` / `policy` are the outputs of get-calls. -/
structure Ret where
  rc : Int
  err : Errno := .other
  set : Nat := 0
  policy : Int := 0
  deriving DecidableEq, Repr, Inhabited

structure Call where
  hook : Hook
  args : Args
  deriving DecidableEq, Repr

structure St (σ : Type) where
  world : σ
  log : List Call := []
  deriving DecidableEq

structure Env (σ : Type) where
  present : Hook → Bool
  run : Hook → Args → σ → Ret × σ

def failRet (e : Errno) : Ret := { rc := -1, err := e }
def okRet : Ret := { rc := 0 }

/-- call a hook: its behaviour runs on the world and the invocation is logged -/
def invoke {σ} (env : Env σ) (h : Hook) (a : Args) (s : St σ) : Ret × St σ :=
  let r := env.run h a s.world
  (r.1, { world := r.2, log := s.log ++ [⟨h, a⟩] })

/-- a single hook or ENOSYS -/
def dispatch1 {σ} (env : Env σ) (h : Hook) (a : Args) (s : St σ) : Ret × St σ :=
  if env.present h then invoke env h a s else (failRet .enosys, s)

/-- the PROCESS / THREAD / fall-back chain shared by set/get cpubind, last_cpu_location, set/get membind -/
def dispatch3 {σ} (env : Env σ) (procBit threadBit : Nat) (hp ht : Hook) (a : Args) (s : St σ) : Ret × St σ :=
  if a.flags &&& procBit ≠ 0 then dispatch1 env hp a s
  else if a.flags &&& threadBit ≠ 0 then dispatch1 env ht a s
  else if env.present hp then
    let r := invoke env hp a s
    if r.1.rc ≥ 0 ∨ r.1.err ≠ .enosys then r
    else dispatch1 env ht a r.2            -- ENOSYS, fallback
  else dispatch1 env ht a s

/-! ### entry points -/

inductive Entry
  | setCpubind | getCpubind | setProcCpubind | getProcCpubind | setThreadCpubind | getThreadCpubind
  | getLastCpuLocation | getProcLastCpuLocation
  | setMembind | getMembind | setProcMembind | getProcMembind
  | setAreaMembind | getAreaMembind | getAreaMemlocation
  | alloc | allocMembind | free
  deriving DecidableEq, Repr, Inhabited

def Entry.all : List Entry :=
  [.setCpubind, .getCpubind, .setProcCpubind, .getProcCpubind, .setThreadCpubind, .getThreadCpubind,
   .getLastCpuLocation, .getProcLastCpuLocation, .setMembind, .getMembind, .setProcMembind, .getProcMembind,
   .setAreaMembind, .getAreaMembind, .getAreaMemlocation, .alloc, .allocMembind, .free]

def Entry.isCpuSet : Entry → Bool
  | .setCpubind | .setProcCpubind | .setThreadCpubind => true
  | _ => false
def Entry.isCpuGet : Entry → Bool
  | .getCpubind | .getProcCpubind | .getThreadCpubind | .getLastCpuLocation | .getProcLastCpuLocation => true
  | _ => false
def Entry.isMemSet : Entry → Bool
  | .setMembind | .setProcMembind | .setAreaMembind | .allocMembind => true
  | _ => false
def Entry.isMemGet : Entry → Bool
  | .getMembind | .getProcMembind | .getAreaMembind | .getAreaMemlocation => true
  | _ => false

/-- the caller's arguments -/
structure Req where
  set : ASet := ⟨0, false⟩
  flags : Nat := 0
  policy : Int := 0
  len : Nat := 1
  pid : Nat := 0
  deriving DecidableEq, Repr, Inhabited

/-- outcome of the argument-validation prologue -/
inductive Pro
  | ret (r : Ret)            -- return immediately, no hook is consulted
  | go (a : Args)            -- continue to the dispatch with these (fixed) arguments
  | fallback (e : Errno)     -- hwloc_alloc_membind only: `goto fallback` with this errno
  deriving DecidableEq, Repr

def Req.byNodeset (req : Req) : Bool := req.flags &&& membindBynodeset ≠ 0
def Req.strict (req : Req) : Bool := req.flags &&& membindStrict ≠ 0

/-- the nodeset that reaches the `_by_nodeset` function: the caller's set when BYNODESET, else the
result of hwloc_fix_membind_cpuset (`none` = it failed with EINVAL) -/
def memPrologueSet (t : Topo) (req : Req) : Option ASet :=
  if req.byNodeset then some req.set else (fixMembindCpuset t req.set).map ASet.fin

def prologue (t : Topo) (e : Entry) (req : Req) : Pro :=
  if e.isCpuSet then
    if unknownBits req.flags cpubindAllFlags then .ret (failRet .einval)
    else match fixCpubind t req.set with
      | none => .ret (failRet .einval)
      | some s => .go { set := s, flags := req.flags, pid := req.pid }
  else if e.isCpuGet then
    if unknownBits req.flags cpubindAllFlags then .ret (failRet .einval)
    else .go { flags := req.flags, pid := req.pid }
  else if e.isMemSet then
    match memPrologueSet t req with
    | none => if e = .allocMembind then .fallback .einval else .ret (failRet .einval)
    | some ns =>
      if unknownBits req.flags membindAllFlags || !policyOk req.policy then .ret (failRet .einval)
      else if e = .setAreaMembind && req.len == 0 then .ret okRet        -- nothing to do
      else match fixMembind t ns with
        | none => if e = .allocMembind then .fallback .einval else .ret (failRet .einval)
        | some s =>
          if e = .allocMembind && req.flags &&& membindMigrate ≠ 0 then .fallback .einval
          else .go { set := s, policy := req.policy, flags := req.flags, pid := req.pid, len := req.len }
  else if e.isMemGet then
    if unknownBits req.flags membindAllFlags then .ret (failRet .einval)
    else if e = .getAreaMembind && req.len == 0 then .ret (failRet .einval)   -- nothing to query
    else if e = .getAreaMemlocation && req.len == 0 then .ret okRet           -- nothing to do
    else .go { flags := req.flags, pid := req.pid, len := req.len }
  else .go { flags := req.flags, pid := req.pid, len := req.len }             -- alloc / free: no validation

/-- hwloc_alloc: the alloc hook or the heap (heap allocation is assumed to succeed, no hook involved) -/
def allocPlain {σ} (env : Env σ) (a : Args) (s : St σ) : Ret × St σ :=
  if env.present .alloc then invoke env .alloc a s else (okRet, s)

/-- the `fallback:` label of hwloc_alloc_membind_by_nodeset (and the cpuset-conversion failure branch of
hwloc_alloc_membind, which is the same code) -/
def allocFallback {σ} (env : Env σ) (strict : Bool) (e : Errno) (a : Args) (s : St σ) : Ret × St σ :=
  if strict then (failRet e, s) else allocPlain env a s

def dispatch {σ} (env : Env σ) (e : Entry) (a : Args) (s : St σ) : Ret × St σ :=
  match e with
  | .setCpubind => dispatch3 env cpubindProcess cpubindThread .setThisprocCpubind .setThisthreadCpubind a s
  | .getCpubind => dispatch3 env cpubindProcess cpubindThread .getThisprocCpubind .getThisthreadCpubind a s
  | .setProcCpubind => dispatch1 env .setProcCpubind a s
  | .getProcCpubind => dispatch1 env .getProcCpubind a s
  | .setThreadCpubind => dispatch1 env .setThreadCpubind a s
  | .getThreadCpubind => dispatch1 env .getThreadCpubind a s
  | .getLastCpuLocation => dispatch3 env cpubindProcess cpubindThread .getThisprocLastCpu .getThisthreadLastCpu a s
  | .getProcLastCpuLocation => dispatch1 env .getProcLastCpu a s
  | .setMembind => dispatch3 env membindProcess membindThread .setThisprocMembind .setThisthreadMembind a s
  | .getMembind => dispatch3 env membindProcess membindThread .getThisprocMembind .getThisthreadMembind a s
  | .setProcMembind => dispatch1 env .setProcMembind a s
  | .getProcMembind => dispatch1 env .getProcMembind a s
  | .setAreaMembind => dispatch1 env .setAreaMembind a s
  | .getAreaMembind => dispatch1 env .getAreaMembind a s
  | .getAreaMemlocation => dispatch1 env .getAreaMemlocation a s
  | .alloc => allocPlain env a s
  | .free => if env.present .freeMembind then invoke env .freeMembind a s else (okRet, s)
  | .allocMembind =>
    if env.present .allocMembind then invoke env .allocMembind a s
    else if env.present .setAreaMembind then
      let p := allocPlain env a s
      if p.1.rc < 0 then p
      else
        let r := invoke env .setAreaMembind a p.2
        if r.1.rc ≠ 0 ∧ a.flags &&& membindStrict ≠ 0 then (failRet r.1.err, r.2) else (p.1, r.2)
    else allocFallback env (a.flags &&& membindStrict ≠ 0) .enosys a s

/-- the get-calls that are not BYNODESET convert the hook's nodeset with hwloc_cpuset_from_nodeset when it
returned exactly 0 -/
def epilogue (t : Topo) (e : Entry) (req : Req) (r : Ret) : Ret :=
  if e.isMemGet && !req.byNodeset && r.rc == 0 then { r with set := cpusetFromNodeset t.nodes r.set } else r

def callEntry {σ} (env : Env σ) (t : Topo) (e : Entry) (req : Req) (s : St σ) : Ret × St σ :=
  match prologue t e req with
  | .ret r => (epilogue t e req r, s)
  | .fallback err => allocFallback env req.strict err { flags := req.flags, pid := req.pid, len := req.len } s
  | .go a => let r := dispatch env e a s; (epilogue t e req r.1, r.2)

/-! ### hwloc_set_dummy_hooks / hwloc_set_binding_hooks / hwloc_backends_is_thissystem -/

/-- the table installed by hwloc_set_dummy_hooks: everything except `alloc` -/
def dummyPresent : Hook → Bool
  | .alloc => false
  | _ => true

/-- what the dont{set,get}_* functions return -/
def dummyRet (t : Topo) : Hook → Ret
  | .getThisprocCpubind | .getThisthreadCpubind | .getProcCpubind | .getThreadCpubind
  | .getThisprocLastCpu | .getThisthreadLastCpu | .getProcLastCpu => { rc := 0, set := t.completeCpuset }
  | .getThisprocMembind | .getThisthreadMembind | .getProcMembind | .getAreaMembind =>
      { rc := 0, set := t.completeNodeset, policy := membindMixed }
  | .getAreaMemlocation => { rc := 0, set := t.completeNodeset }
  | _ => okRet

def dummyEnv (σ : Type) (t : Topo) : Env σ :=
  { present := dummyPresent, run := fun h _ w => (dummyRet t h, w) }

/-- the hooks for which hwloc_set_binding_hooks has a `DO(...)` line (support bit) -/
def Hook.hasSupportBit : Hook → Bool
  | .alloc | .freeMembind => false
  | _ => true

/-- hwloc_set_binding_hooks: (hook table, support bits) from the IS_THISSYSTEM state and the native table -/
def setBindingHooks (thisSystem : Bool) (native : Hook → Bool) : (Hook → Bool) × (Hook → Bool) :=
  if thisSystem then (native, fun h => h.hasSupportBit && native h)
  else (dummyPresent, fun _ => false)

/-- hwloc_backends_is_thissystem: `normalForeign` = a backend enabled by set_xml/set_synthetic/... declares
is_thissystem = 0, `flag` = HWLOC_TOPOLOGY_FLAG_IS_THISSYSTEM, `envForeign` = a backend forced through an
environment variable declares is_thissystem = 0, `envVar` = atoi(HWLOC_THISSYSTEM) when set -/
def isThisSystem (normalForeign flag envForeign : Bool) (envVar : Option Int) : Bool :=
  let v := true
  let v := if normalForeign then false else v
  let v := if flag then true else v
  let v := if envForeign then false else v
  match envVar with
  | some x => x != 0
  | none => v

end Hw.Bind
