/-
  Hw.Io.SyntheticWF17 — the converse of `cl_siblings_ordered`: `sibOK t` is exactly the condition under which the
  `siblings-ordered` clause holds for every object of `toDump t`.
-/
import Hw.Io.SyntheticWF15
namespace Hw.Syn
open Hw Hw.Topo
set_option linter.unusedSectionVars false
set_option linter.unusedSimpArgs false

/-- the "siblings-ordered" clause of Hw.Topo.objClauses, as a function -/
def sibClause : Dump → Aux → Obj → Bool := fun d _ o => match d.obj? o.nextSib with
      | none => true
      | some nx =>
        if isNormal o.type && isNormal nx.type then
          decide (firstI (nx.ccpuset.getD 0) < 0) ||
          (decide (0 ≤ firstI (o.ccpuset.getD 0)) && decide (firstI (o.ccpuset.getD 0) < firstI (nx.ccpuset.getD 0)))
        else if isMemory o.type && isMemory nx.type then
          decide (firstI (o.cnodeset.getD 0) < firstI (nx.cnodeset.getD 0))
        else true

section
variable (t : Topo) (h : OK t)
include h

theorem sibOK_of_clause (hc : ∀ o ∈ (toDump t).objs, sibClause (toDump t) (mkAux (toDump t)) o = true) : sibOK t = true := by
  unfold sibOK
  simp only [Bool.and_eq_true, List.all_eq_true, List.mem_range, Bool.or_eq_true, Bool.not_eq_true', decide_eq_false_iff_not,
    decide_eq_true_eq]
  constructor
  · intro d hd' k hk
    by_cases hn : k % arOf (mkTab t) d + 1 < arOf (mkTab t) d
    · right
      have hd : d + 1 ≤ (mkTab t).D := hd'
      have hk1 := next_sib_lt t h d k hd' hk hn
      have hl := lookup_normal t (d + 1) (k + 1) hd hk1
      have this := hc _ (normalObj_mem t (d + 1) k hd hk)
      simp only [sibClause, (normalObj_sibs t d k hd').2, if_pos hn, hl, normalObj_type, ntype_normal t h (d + 1) hd, Bool.and_self,
        if_true, normalObj_ccpuset, Option.getD_some, firstI_cpuset t h (d + 1) _ hd, Bool.or_eq_true, Bool.and_eq_true,
        decide_eq_true_eq] at this
      rcases this with h1 | h1
      · omega
      · omega
    · left; exact hn
  · intro d hd k hk s hs'
    by_cases hn : s + 1 < memLen (mkTab t) d
    · right
      have hd1 : d ≤ (mkTab t).D := by omega
      have hf := firstObj_fields (envOf t) d k s
      have hty := firstObj_type (envOf t) d k s
      have hn' : s + 1 < memLen (envOf t).T d := hn
      have hl : (toDump t).obj? ((memId (envOf t).T d k (s + 1) : Nat) : Int) = some (firstObj (envOf t) d k (s + 1)) :=
        lookup_first t d k (s + 1) hd1 hk hn
      have hty' := firstObj_type (envOf t) d k (s + 1)
      have this := hc _ (firstObj_mem t d k s hd1 hk hs')
      simp only [sibClause, hf.2.2.2.1, if_pos hn', hl, hty.1, hty.2, hty'.1, hty'.2, Bool.and_self, Bool.false_eq_true, if_false,
        if_true, firstObj_cnodeset, Option.getD_some, firstI_single, decide_eq_true_eq] at this
      have e : postPos (mkTab t) (numaCnt (mkTab t)) d k (s + 1) = postPos (mkTab t) (numaCnt (mkTab t)) d k s + 1 := rfl
      rw [e] at this
      omega
    · left; exact hn

theorem sibOK_iff_clause : sibOK t = true ↔ ∀ o ∈ (toDump t).objs, sibClause (toDump t) (mkAux (toDump t)) o = true :=
  ⟨fun hs o ho => cl_siblings_ordered t h hs o ho, sibOK_of_clause t h⟩

end
end Hw.Syn
