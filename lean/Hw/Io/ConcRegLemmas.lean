import Hw.Io.Conc

/- Hw.Io.ConcRegLemmas — the invariant `Hw.Conc.Reg.Inv` of the lock-protected reference count model is
   inductive for the model programs, and its consequences. -/
namespace Hw.Conc.Reg

/-! ### counting -/

theorem countP_set_add {α : Type} (p : α → Bool) (l : List α) (t : Nat) (x y : α) (h : l[t]? = some x) :
    (l.set t y).countP p + (if p x then 1 else 0) = l.countP p + (if p y then 1 else 0) := by
  induction l generalizing t with
  | nil => simp at h
  | cons a l ih =>
    cases t with
    | zero =>
      simp only [List.getElem?_cons_zero, Option.some.injEq] at h
      subst h
      simp only [List.set_cons_zero, List.countP_cons]
      omega
    | succ k =>
      simp only [List.getElem?_cons_succ] at h
      have := ih k h
      simp only [List.set_cons_succ, List.countP_cons]
      omega

theorem countP_pos_of_getElem? {α : Type} (p : α → Bool) (l : List α) (t : Nat) (x : α)
    (h : l[t]? = some x) (hp : p x = true) : 0 < l.countP p :=
  List.countP_pos_iff.mpr ⟨x, List.mem_of_getElem? h, hp⟩

theorem countP_two_of_getElem? {α : Type} (p : α → Bool) (l : List α) (t t' : Nat) (x y : α)
    (h : l[t]? = some x) (h' : l[t']? = some y) (hne : t ≠ t') (hp : p x = true) (hq : p y = true) :
    2 ≤ l.countP p := by
  induction l generalizing t t' with
  | nil => simp at h
  | cons a l ih =>
    cases t with
    | zero =>
      cases t' with
      | zero => exact absurd rfl hne
      | succ k' =>
        simp only [List.getElem?_cons_zero, Option.some.injEq] at h
        subst h
        simp only [List.getElem?_cons_succ] at h'
        have := countP_pos_of_getElem? p l k' y h' hq
        simp only [List.countP_cons, hp, if_true]
        omega
    | succ k =>
      cases t' with
      | zero =>
        simp only [List.getElem?_cons_zero, Option.some.injEq] at h'
        subst h'
        simp only [List.getElem?_cons_succ] at h
        have := countP_pos_of_getElem? p l k x h hp
        simp only [List.countP_cons, hq, if_true]
        omega
      | succ k' =>
        simp only [List.getElem?_cons_succ] at h h'
        have := ih k k' h h' (by omega)
        simp only [List.countP_cons]
        omega

/-! ### `csInv` only looks at `users` and `reg` -/

theorem csInv_congr (c c' : Cfg) (th : Thr) (hu : c'.users = c.users) (hr : c'.reg = c.reg) :
    csInv c' th ↔ csInv c th := by
  unfold csInv
  split <;> simp only [hu, hr]

/-! ### start -/

theorem inv_start (n : Nat) : Inv (start n) := by
  refine ⟨rfl, ?_, ?_, ?_, ?_⟩
  · show 0 = (List.replicate n ({} : Thr)).countP holding
    rw [List.countP_replicate]
    simp [holding]
  · intro t th ht hcs
    simp only [start, List.getElem?_replicate] at ht
    split at ht
    · cases ht; simp [inCS] at hcs
    · cases ht
  · intro _; simp [start]
  · intro t ht; simp [start] at ht

/-! ### generic preservation lemma: thread `t` goes from `th` to `th'`, shared state changes to that of `c'` -/

theorem inv_set (c c' : Cfg) (t : Nat) (th th' : Thr) (h : Inv c) (ht : c.thr[t]? = some th)
    (hthr : c'.thr = c.thr.set t th') (hbad : c'.bad = c.bad)
    (hcount : c'.users + (if holding th then 1 else 0) = c.users + (if holding th' then 1 else 0))
    (hexS : inCS th' = true → c'.lock = some t)
    (hexO : ∀ t', t' ≠ t → c.lock = some t' → c'.lock = some t')
    (hfree : c'.lock = none → (c'.reg = true ↔ 0 < c'.users))
    (hheldS : c'.lock = some t → inCS th' = true ∧ csInv c' th')
    (hheldO : ∀ t', t' ≠ t → c'.lock = some t' → c.lock = some t' ∧ c'.users = c.users ∧ c'.reg = c.reg) :
    Inv c' := by
  refine ⟨hbad.trans h.notBad, ?_, ?_, hfree, ?_⟩
  · have := countP_set_add holding c.thr t th th' ht
    rw [hthr]
    have := h.count
    omega
  · intro t' th'' ht' hcs
    rw [hthr] at ht'
    by_cases e : t' = t
    · subst e
      have hlt : t' < c.thr.length := (List.getElem?_eq_some_iff.mp ht).1
      rw [List.getElem?_set_self hlt] at ht'
      cases ht'
      exact hexS hcs
    · rw [List.getElem?_set_ne (Ne.symm e)] at ht'
      exact hexO t' e (h.excl t' th'' ht' hcs)
  · intro t' hl
    by_cases e : t' = t
    · subst e
      have hlt : t' < c.thr.length := (List.getElem?_eq_some_iff.mp ht).1
      refine ⟨th', ?_, hheldS hl⟩
      rw [hthr, List.getElem?_set_self hlt]
    · obtain ⟨hl0, hu, hr⟩ := hheldO t' e hl
      obtain ⟨th'', ht'', hcs, hinv⟩ := h.held t' hl0
      refine ⟨th'', ?_, hcs, (csInv_congr c c' th'' hu hr).mpr hinv⟩
      rw [hthr, List.getElem?_set_ne (Ne.symm e)]
      exact ht''

/-- what the invariant says about the stepping thread -/
theorem inv_self (c : Cfg) (t : Nat) (th : Thr) (h : Inv c) (ht : c.thr[t]? = some th) :
    (inCS th = true → c.lock = some t) ∧ (c.lock = some t → inCS th = true ∧ csInv c th) ∧
    (holding th = true → 0 < c.users) := by
  refine ⟨h.excl t th ht, ?_, ?_⟩
  · intro hl
    obtain ⟨th', ht', hcs, hinv⟩ := h.held t hl
    rw [ht] at ht'
    cases ht'
    exact ⟨hcs, hinv⟩
  · intro hh
    rw [h.count]
    exact countP_pos_of_getElem? holding c.thr t th ht hh

theorem initProg_none (pc : Nat) (h : 9 ≤ pc) : Model.initProg[pc]? = none :=
  List.getElem?_eq_none (by simpa [Model.initProg] using h)

theorem finiProg_none (pc : Nat) (h : 9 ≤ pc) : Model.finiProg[pc]? = none :=
  List.getElem?_eq_none (by simpa [Model.finiProg] using h)

set_option hygiene false in
/-- one program point: reduce the instruction, then either the state is unchanged, or the `bad` branch is
    contradictory, or `inv_set` applies -/
macro "reg_case" : tactic => `(tactic| (
  try simp only [Model.initProg, Model.finiProg, List.getElem?_cons_zero, List.getElem?_cons_succ, exec]
  simp [inCS, csInv, holding] at hS1 hS2 hS3
  try split
  all_goals first
    | exact h
    | (exfalso; clear h ht; grind)
    | (refine inv_set c _ t _ _ h ht rfl rfl ?_ ?_ ?_ ?_ ?_ ?_ <;> simp [inCS, csInv, holding, setThr] <;>
        (clear h ht; grind))))

theorem step_inv (c : Cfg) (t : Nat) (h : Inv c) : Inv (step Model.initProg Model.finiProg c t) := by
  unfold step
  split
  · exact h
  · rename_i th ht
    obtain ⟨hS1, hS2, hS3⟩ := inv_self c t th h ht
    have hF := h.free
    obtain ⟨ph, pc, fl⟩ := th
    cases ph
    · -- idle
      simp only
      reg_case
    · -- init
      simp only
      have hpc : pc = 0 ∨ pc = 1 ∨ pc = 2 ∨ pc = 3 ∨ pc = 4 ∨ pc = 5 ∨ pc = 6 ∨ pc = 7 ∨ pc = 8 ∨ 9 ≤ pc := by omega
      rcases hpc with rfl | rfl | rfl | rfl | rfl | rfl | rfl | rfl | rfl | hpc
      · reg_case
      · reg_case
      · reg_case
      · reg_case
      · reg_case
      · reg_case
      · reg_case
      · reg_case
      · reg_case
      · rw [initProg_none pc hpc]; exact h
    · -- between
      simp only
      reg_case
    · -- fini
      simp only
      have hpc : pc = 0 ∨ pc = 1 ∨ pc = 2 ∨ pc = 3 ∨ pc = 4 ∨ pc = 5 ∨ pc = 6 ∨ pc = 7 ∨ pc = 8 ∨ 9 ≤ pc := by omega
      rcases hpc with rfl | rfl | rfl | rfl | rfl | rfl | rfl | rfl | rfl | hpc
      · reg_case
      · reg_case
      · reg_case
      · reg_case
      · reg_case
      · reg_case
      · reg_case
      · reg_case
      · reg_case
      · rw [finiProg_none pc hpc]; exact h

theorem run_inv_of (c : Cfg) (h : Inv c) (sched : List Nat) :
    Inv (run Model.initProg Model.finiProg c sched) := by
  induction sched generalizing c with
  | nil => exact h
  | cons t rest ih => exact ih _ (step_inv c t h)

theorem run_inv (n : Nat) (sched : List Nat) : Inv (run Model.initProg Model.finiProg (start n) sched) :=
  run_inv_of _ (inv_start n) sched

/-- a thread between its `hwloc_components_init` and its `hwloc_components_fini` always sees the registry
    initialised, whatever the other threads are doing -/
theorem between_sees_reg (c : Cfg) (h : Inv c) (t : Nat) (th : Thr) (ht : c.thr[t]? = some th)
    (hb : th.phase = .between) : c.reg = true := by
  have hh : holding th = true := by simp [holding, hb]
  have hpos : 0 < c.users := by
    rw [h.count]; exact countP_pos_of_getElem? holding c.thr t th ht hh
  cases hl : c.lock with
  | none => exact (h.free hl).mpr hpos
  | some t' =>
    obtain ⟨th', ht', hcs, hinv⟩ := h.held t' hl
    have hne : t ≠ t' := by
      intro e
      subst e
      rw [ht] at ht'
      cases ht'
      simp [inCS, hb] at hcs
    have htwo : holding th' = true → 2 ≤ c.users := by
      intro hh'
      rw [h.count]
      exact countP_two_of_getElem? holding c.thr t t' th th' ht ht' hne hh hh'
    obtain ⟨ph, pc, fl⟩ := th'
    simp only [inCS, Bool.and_eq_true, Bool.or_eq_true, decide_eq_true_eq] at hcs
    obtain ⟨hph, hpc⟩ := hcs
    rcases hph with rfl | rfl <;> rcases hpc with ((((rfl | rfl) | rfl) | rfl) | rfl) | rfl <;>
      simp [csInv, holding] at hinv htwo <;> grind

/-- with the lock free, the registry is initialised iff some thread holds a reference -/
theorem holding_sees_reg_when_free (c : Cfg) (h : Inv c) (hl : c.lock = none) :
    (c.reg = true ↔ 0 < c.thr.countP holding) := by
  rw [← h.count]; exact h.free hl

end Hw.Conc.Reg
