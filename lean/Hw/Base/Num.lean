/-
  Hw.Base.Num — number printing (`%d %lx %08lx %016lx`) and the model of libc `strtoul`
  (part of the trusted base; differential-tested through every parser that uses it).
-/
import Hw.Base.Snprintf
namespace Hw

def digitChar (d : Nat) : Byte := if d < 10 then 48 + d else 87 + d      -- '0'.. / 'a'..

/-- digits of `n` in base `b` (most significant first), `fuel` bounds the recursion -/
def digitsAux (b : Nat) : Nat → Nat → List Byte → List Byte
  | 0, _, acc => acc
  | fuel+1, n, acc =>
    if n < b then digitChar n :: acc
    else digitsAux b fuel (n / b) (digitChar (n % b) :: acc)

/-- `%d` / `%u` / `%lu` of a non-negative number -/
def decDigits (n : Nat) : List Byte := digitsAux 10 (n + 1) n []
/-- `%lx` -/
def hexDigits (n : Nat) : List Byte := digitsAux 16 (n + 1) n []
/-- `%0<w>lx` -/
def hexPad (w : Nat) (n : Nat) : List Byte :=
  let d := hexDigits n
  List.replicate (w - d.length) 48 ++ d

/-! ### strtoul -/

def isSpace (c : Byte) : Bool := c == 32 || (9 ≤ c && c ≤ 13)

def digitVal (c : Byte) : Option Nat :=
  if 48 ≤ c ∧ c ≤ 57 then some (c - 48)
  else if 97 ≤ c ∧ c ≤ 122 then some (c - 97 + 10)
  else if 65 ≤ c ∧ c ≤ 90 then some (c - 65 + 10)
  else none

def isDigitIn (base : Nat) (c : Byte) : Bool :=
  match digitVal c with
  | some d => d < base
  | none => false

/-- consume digits of `base`; returns (value, number of digits consumed, rest) -/
def takeDigits (base : Nat) : List Byte → Nat → Nat → Nat × Nat × List Byte
  | [], acc, n => (acc, n, [])
  | c :: cs, acc, n =>
    match digitVal c with
    | some d => if d < base then takeDigits base cs (acc * base + d) (n + 1) else (acc, n, c :: cs)
    | none => (acc, n, c :: cs)

inductive StrtoRes
  | ok (val : Nat) (rest : List Byte)    -- `rest` = *endptr (the original string when no digit was found)
  | unsupported                          -- a sign character: outside the modelled domain
deriving Repr, DecidableEq

def ulongMax : Nat := 2^64 - 1

/-- libc `strtoul(s, &end, base)` for `base ∈ {0, 10, 16}` on a NUL-terminated byte list -/
def strtoul (base : Nat) (s : List Byte) : StrtoRes :=
  let s1 := s.dropWhile isSpace
  match s1 with
  | 43 :: _ => .unsupported
  | 45 :: _ => .unsupported
  | _ =>
    -- optional 0x / 0X prefix (only when a hex digit follows), octal for base 0
    let (b, s2) : Nat × List Byte :=
      match s1 with
      | 48 :: x :: d :: r =>
        if (x == 120 || x == 88) && isDigitIn 16 d && (base == 16 || base == 0) then (16, d :: r)
        else if base == 0 then (8, s1) else (base, s1)
      | 48 :: _ => if base == 0 then (8, s1) else (base, s1)
      | _ => if base == 0 then (10, s1) else (base, s1)
    let (v, n, rest) := takeDigits b s2 0 0
    if n = 0 then .ok 0 s else .ok (min v ulongMax) rest

end Hw
