/-
  Hw.Base.Basic — words, bit searches, generic "lowest / highest index satisfying p" searches.
  Core Lean only.
-/
namespace Hw

abbrev Word := BitVec 64

/-- `HWLOC_SUBBITMAP_FULL` / `HWLOC_SUBBITMAP_ZERO` selected by the `infinite` flag. -/
def fillW (inf : Bool) : Word := if inf then BitVec.allOnes 64 else 0#64

@[simp] theorem fillW_true : fillW true = BitVec.allOnes 64 := rfl
@[simp] theorem fillW_false : fillW false = 0#64 := rfl

theorem fillW_getLsbD (inf : Bool) (j : Nat) (hj : j < 64) : (fillW inf).getLsbD j = inf := by
  cases inf
  · simp
  · simp only [fillW_true, BitVec.getLsbD_allOnes]; simp [hj]

/-! ### lowest / highest index below a bound satisfying a predicate -/

/-- smallest `j < n` with `p j`, if any -/
def lowest (p : Nat → Bool) : Nat → Option Nat
  | 0 => none
  | n+1 => match lowest p n with
    | some j => some j
    | none => if p n then some n else none

/-- greatest `j < n` with `p j`, if any -/
def highest (p : Nat → Bool) : Nat → Option Nat
  | 0 => none
  | n+1 => if p n then some n else highest p n

theorem lowest_none {p : Nat → Bool} {n : Nat} : lowest p n = none ↔ ∀ k, k < n → p k = false := by
  induction n with
  | zero => simp [lowest]
  | succ n ih =>
    unfold lowest
    cases h : lowest p n with
    | some j =>
      simp only [reduceCtorEq, false_iff]
      intro hall
      have := ih.mpr (fun k hk => hall k (Nat.lt_succ_of_lt hk))
      rw [h] at this; cases this
    | none =>
      have hn := ih.mp h
      by_cases hp : p n = true
      · simp only [hp, if_true, reduceCtorEq, false_iff]
        intro hall; have := hall n (Nat.lt_succ_self n); rw [hp] at this; cases this
      · have hp' : p n = false := by cases hq : p n <;> simp_all
        simp only [hp', Bool.false_eq_true, if_false, true_iff]
        intro k hk
        rcases Nat.lt_succ_iff_lt_or_eq.mp hk with h1 | h1
        · exact hn k h1
        · subst h1; exact hp'

theorem lowest_some {p : Nat → Bool} {n j : Nat} :
    lowest p n = some j ↔ j < n ∧ p j = true ∧ ∀ k, k < j → p k = false := by
  induction n generalizing j with
  | zero => simp [lowest]
  | succ n ih =>
    unfold lowest
    cases h : lowest p n with
    | some j' =>
      have h' := ih (j := j')
      rw [h] at h'
      have ⟨hj'n, hpj', hlow'⟩ := h'.mp rfl
      simp only [Option.some.injEq]
      constructor
      · intro e; subst e; exact ⟨Nat.lt_succ_of_lt hj'n, hpj', hlow'⟩
      · intro ⟨hjn, hpj, hlow⟩
        rcases Nat.lt_trichotomy j j' with hlt | heq | hgt
        · have := hlow' j hlt; rw [hpj] at this; cases this
        · exact heq.symm
        · have := hlow j' hgt; rw [hpj'] at this; cases this
    | none =>
      have hn := lowest_none.mp h
      by_cases hp : p n = true
      · simp only [hp, if_true, Option.some.injEq]
        constructor
        · intro e; subst e; exact ⟨Nat.lt_succ_self _, hp, hn⟩
        · intro ⟨hjn, hpj, hlow⟩
          rcases Nat.lt_succ_iff_lt_or_eq.mp hjn with h1 | h1
          · have := hn j h1; rw [hpj] at this; cases this
          · exact h1.symm
      · have hp' : p n = false := by cases hq : p n <;> simp_all
        simp only [hp', Bool.false_eq_true, if_false, reduceCtorEq, false_iff]
        intro ⟨hjn, hpj, _⟩
        rcases Nat.lt_succ_iff_lt_or_eq.mp hjn with h1 | h1
        · have := hn j h1; rw [hpj] at this; cases this
        · subst h1; rw [hp'] at hpj; cases hpj

theorem highest_none {p : Nat → Bool} {n : Nat} : highest p n = none ↔ ∀ k, k < n → p k = false := by
  induction n with
  | zero => simp [highest]
  | succ n ih =>
    unfold highest
    by_cases hp : p n = true
    · simp only [hp, if_true, reduceCtorEq, false_iff]
      intro hall; have := hall n (Nat.lt_succ_self n); rw [hp] at this; cases this
    · have hp' : p n = false := by cases hq : p n <;> simp_all
      simp only [hp', Bool.false_eq_true, if_false]
      rw [ih]
      constructor
      · intro hn k hk
        rcases Nat.lt_succ_iff_lt_or_eq.mp hk with h1 | h1
        · exact hn k h1
        · subst h1; exact hp'
      · intro hn k hk; exact hn k (Nat.lt_succ_of_lt hk)

theorem highest_some {p : Nat → Bool} {n j : Nat} :
    highest p n = some j ↔ j < n ∧ p j = true ∧ ∀ k, j < k → k < n → p k = false := by
  induction n with
  | zero => simp [highest]
  | succ n ih =>
    unfold highest
    by_cases hp : p n = true
    · simp only [hp, if_true, Option.some.injEq]
      constructor
      · intro e; subst e
        exact ⟨Nat.lt_succ_self _, hp, fun k h1 h2 => absurd (Nat.lt_succ_iff.mp h2) (Nat.not_le.mpr h1)⟩
      · intro ⟨hjn, _, hhigh⟩
        rcases Nat.lt_succ_iff_lt_or_eq.mp hjn with h1 | h1
        · have := hhigh n h1 (Nat.lt_succ_self n); rw [hp] at this; cases this
        · exact h1.symm
    · have hp' : p n = false := by cases hq : p n <;> simp_all
      simp only [hp', Bool.false_eq_true, if_false]
      rw [ih]
      constructor
      · intro ⟨hjn, hpj, hhigh⟩
        refine ⟨Nat.lt_succ_of_lt hjn, hpj, ?_⟩
        intro k h1 h2
        rcases Nat.lt_succ_iff_lt_or_eq.mp h2 with h3 | h3
        · exact hhigh k h1 h3
        · subst h3; exact hp'
      · intro ⟨hjn, hpj, hhigh⟩
        rcases Nat.lt_succ_iff_lt_or_eq.mp hjn with h1 | h1
        · exact ⟨h1, hpj, fun k a b => hhigh k a (Nat.lt_succ_of_lt b)⟩
        · subst h1; rw [hp'] at hpj; cases hpj

/-! ### word-level helpers (`private/misc.h`) — specification-level definitions -/

/-- `hwloc_ffsl` (this build: `__builtin_ffsl`): 1 + index of the least significant set bit, 0 for 0 -/
def ffsl (w : Word) : Nat :=
  match lowest (fun j => w.getLsbD j) 64 with
  | some j => j + 1
  | none => 0

/-- `hwloc_flsl`: 1 + index of the most significant set bit, 0 for 0 -/
def flsl (w : Word) : Nat :=
  match highest (fun j => w.getLsbD j) 64 with
  | some j => j + 1
  | none => 0

/-- `hwloc_weight_long` (this build: `__builtin_popcountll`) -/
def weightLong (w : Word) : Nat := ((List.range 64).filter (fun j => w.getLsbD j)).length

theorem word_eq_zero_iff (w : Word) : w = 0#64 ↔ ∀ j, j < 64 → w.getLsbD j = false := by
  constructor
  · intro h j _; subst h; simp
  · intro h
    apply BitVec.eq_of_getLsbD_eq
    intro i hi
    simp [h i hi]

theorem ffsl_eq_zero_iff (w : Word) : ffsl w = 0 ↔ w = 0#64 := by
  unfold ffsl
  cases h : lowest (fun j => w.getLsbD j) 64 with
  | none =>
    simp only [true_iff]
    exact (word_eq_zero_iff w).mpr (lowest_none.mp h)
  | some j =>
    simp only [Nat.add_eq_zero_iff, Nat.succ_ne_self, and_false, false_iff]
    intro hz
    have := (lowest_some.mp h).2.1
    subst hz; simp at this

theorem ffsl_spec (w : Word) (hw : w ≠ 0#64) :
    1 ≤ ffsl w ∧ ffsl w ≤ 64 ∧ w.getLsbD (ffsl w - 1) = true ∧ ∀ k, k < ffsl w - 1 → w.getLsbD k = false := by
  cases h : lowest (fun j => w.getLsbD j) 64 with
  | none => exact absurd ((word_eq_zero_iff w).mpr (lowest_none.mp h)) hw
  | some j =>
    have ⟨h1, h2, h3⟩ := lowest_some.mp h
    have hf : ffsl w = j + 1 := by unfold ffsl; rw [h]
    rw [hf]
    refine ⟨by omega, by omega, ?_, ?_⟩
    · simpa using h2
    · intro k hk; exact h3 k (by omega)

theorem flsl_eq_zero_iff (w : Word) : flsl w = 0 ↔ w = 0#64 := by
  unfold flsl
  cases h : highest (fun j => w.getLsbD j) 64 with
  | none =>
    simp only [true_iff]
    exact (word_eq_zero_iff w).mpr (highest_none.mp h)
  | some j =>
    simp only [Nat.add_eq_zero_iff, Nat.succ_ne_self, and_false, false_iff]
    intro hz
    have := (highest_some.mp h).2.1
    subst hz; simp at this

theorem flsl_spec (w : Word) (hw : w ≠ 0#64) :
    1 ≤ flsl w ∧ flsl w ≤ 64 ∧ w.getLsbD (flsl w - 1) = true ∧
      ∀ k, flsl w - 1 < k → k < 64 → w.getLsbD k = false := by
  cases h : highest (fun j => w.getLsbD j) 64 with
  | none => exact absurd ((word_eq_zero_iff w).mpr (highest_none.mp h)) hw
  | some j =>
    have ⟨h1, h2, h3⟩ := highest_some.mp h
    have hf : flsl w = j + 1 := by unfold flsl; rw [h]
    rw [hf]
    refine ⟨by omega, by omega, ?_, ?_⟩
    · simpa using h2
    · intro k hk hk2; exact h3 k (by omega) hk2

end Hw
