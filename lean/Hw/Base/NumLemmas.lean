/-
  Hw.Base.NumLemmas — facts about number printing (`decDigits`, `hexDigits`, `hexPad`) and the
  `strtoul` model: parsing a printed number gives the number back.
-/
import Hw.Base.Num
namespace Hw

/-! ### string literals as byte lists -/
theorem str_0x : str "0x" = [48, 120] := by decide
theorem str_c0x : str ",0x" = [44, 48, 120] := by decide
theorem str_0x0 : str "0x0" = [48, 120, 48] := by decide
theorem str_c0x0 : str ",0x0" = [44, 48, 120, 48] := by decide
theorem str_inf : str "0xf...f" = [48, 120, 102, 46, 46, 46, 102] := by decide
theorem str_comma : str "," = [44] := by decide
theorem str_minus : str "-" = [45] := by decide

/-- the text `s` does not begin with a character that `strtoul` could take for a digit (in any
base), in particular not with `x` / `X` -/
def NoDigitHead (s : List Byte) : Prop := ∀ c cs, s = c :: cs → digitVal c = none

theorem noDigitHead_nil : NoDigitHead [] := by intro c cs h; cases h
theorem noDigitHead_comma (s : List Byte) : NoDigitHead (44 :: s) := by
  intro c cs h; cases h; decide
theorem noDigitHead_minus (s : List Byte) : NoDigitHead (45 :: s) := by
  intro c cs h; cases h; decide

/-- NB: stated over `Nat` (not the abbreviation `Byte`) so that `omega` accepts the unfolded form -/
def IsDecChar (c : Nat) : Prop := 48 ≤ c ∧ c ≤ 57
def IsHexChar (c : Nat) : Prop := (48 ≤ c ∧ c ≤ 57) ∨ (97 ≤ c ∧ c ≤ 102)

/-! ### digits -/

theorem digitsAux_acc (b : Nat) : ∀ fuel n acc, digitsAux b fuel n acc = digitsAux b fuel n [] ++ acc := by
  intro fuel
  induction fuel with
  | zero => intro n acc; simp [digitsAux]
  | succ fuel ih =>
    intro n acc
    unfold digitsAux
    split
    · simp
    · rw [ih (n / b) (digitChar (n % b) :: acc), ih (n / b) [digitChar (n % b)]]
      simp

theorem digitsAux_fuel (b : Nat) (hb : 2 ≤ b) : ∀ fuel fuel' n acc, n < fuel → n < fuel' →
    digitsAux b fuel n acc = digitsAux b fuel' n acc := by
  intro fuel
  induction fuel with
  | zero => intro fuel' n acc h; omega
  | succ fuel ih =>
    intro fuel' n acc h h'
    cases fuel' with
    | zero => omega
    | succ fuel' =>
      unfold digitsAux
      split
      · rfl
      · rename_i hnb
        have : n / b < n := Nat.div_lt_self (by omega) (by omega)
        exact ih fuel' _ _ (by omega) (by omega)

/-- digits of `n` in base `b`, most significant first -/
def digs (b n : Nat) : List Byte := digitsAux b (n + 1) n []

theorem decDigits_eq (n : Nat) : decDigits n = digs 10 n := rfl
theorem hexDigits_eq (n : Nat) : hexDigits n = digs 16 n := rfl

theorem digs_rec (b : Nat) (hb : 2 ≤ b) (n : Nat) :
    digs b n = if n < b then [digitChar n] else digs b (n / b) ++ [digitChar (n % b)] := by
  unfold digs
  rw [digitsAux]
  split
  · rfl
  · rename_i hnb
    have : n / b < n := Nat.div_lt_self (by omega) (by omega)
    rw [digitsAux_acc, digitsAux_fuel b hb n (n / b + 1) (n / b) [] this (by omega)]

theorem digs_lt (b : Nat) (hb : 2 ≤ b) (n : Nat) (h : n < b) : digs b n = [digitChar n] := by
  rw [digs_rec b hb, if_pos h]
theorem digs_ge (b : Nat) (hb : 2 ≤ b) (n : Nat) (h : b ≤ n) :
    digs b n = digs b (n / b) ++ [digitChar (n % b)] := by
  rw [digs_rec b hb, if_neg (by omega)]

/-- induction principle following the digits -/
theorem digs_induct (b : Nat) (hb : 2 ≤ b) (P : Nat → Prop)
    (h0 : ∀ n, n < b → P n) (h1 : ∀ n, b ≤ n → P (n / b) → P n) : ∀ n, P n := by
  intro n
  induction n using Nat.strongRecOn with
  | _ n ih =>
    by_cases h : n < b
    · exact h0 n h
    · exact h1 n (by omega) (ih _ (Nat.div_lt_self (by omega) (by omega)))

theorem digs_ne_nil (b : Nat) (hb : 2 ≤ b) (n : Nat) : digs b n ≠ [] := by
  rw [digs_rec b hb]; split <;> simp

theorem digs_length_pos (b : Nat) (hb : 2 ≤ b) (n : Nat) : 1 ≤ (digs b n).length := by
  have := digs_ne_nil b hb n
  cases h : digs b n with
  | nil => exact absurd h this
  | cons _ _ => simp

theorem digs_length_le (b : Nat) (hb : 2 ≤ b) : ∀ n k, 1 ≤ k → n < b ^ k → (digs b n).length ≤ k := by
  apply digs_induct b hb (fun n => ∀ k, 1 ≤ k → n < b ^ k → (digs b n).length ≤ k)
  · intro n hn k hk _; rw [digs_lt b hb n hn]; simpa using hk
  · intro n hn ih k hk hlt
    rw [digs_ge b hb n hn, List.length_append]
    cases k with
    | zero => omega
    | succ k =>
      cases k with
      | zero => simp at hlt; omega
      | succ k =>
        have : n / b < b ^ (k + 1) := by
          rw [Nat.div_lt_iff_lt_mul (by omega)]
          rw [Nat.pow_succ] at hlt; exact hlt
        have := ih (k + 1) (by omega) this
        simp; omega

theorem digs_chars (b : Nat) (hb : 2 ≤ b) (n : Nat) : ∀ c, c ∈ digs b n → ∃ d, d < b ∧ c = digitChar d := by
  revert n
  apply digs_induct b hb
  · intro n hn c hc; rw [digs_lt b hb n hn] at hc; simp at hc; exact ⟨n, hn, hc⟩
  · intro n hn ih c hc
    rw [digs_ge b hb n hn] at hc
    simp only [List.mem_append, List.mem_singleton] at hc
    rcases hc with hc | hc
    · exact ih c hc
    · exact ⟨n % b, Nat.mod_lt _ (by omega), hc⟩

/-- the first digit of a positive number is not zero -/
theorem digs_head (b : Nat) (hb : 2 ≤ b) : ∀ n, 0 < n → ∃ d tl, 1 ≤ d ∧ d < b ∧ digs b n = digitChar d :: tl := by
  apply digs_induct b hb (fun n => 0 < n → ∃ d tl, 1 ≤ d ∧ d < b ∧ digs b n = digitChar d :: tl)
  · intro n hn hpos; exact ⟨n, [], hpos, hn, digs_lt b hb n hn⟩
  · intro n hn ih _
    have : 0 < n / b := Nat.div_pos hn (by omega)
    obtain ⟨d, tl, h1, h2, h3⟩ := ih this
    exact ⟨d, tl ++ [digitChar (n % b)], h1, h2, by rw [digs_ge b hb n hn, h3]; rfl⟩


theorem digitVal_digitChar : ∀ d, d < 16 → digitVal (digitChar d) = some d := by decide

theorem takeDigits_digitChar (base d : Nat) (hd : d < base) (hbase : base ≤ 16) (rest : List Byte) (a k : Nat) :
    takeDigits base (digitChar d :: rest) a k = takeDigits base rest (a * base + d) (k + 1) := by
  rw [takeDigits, digitVal_digitChar d (by omega)]
  simp [hd]

theorem takeDigits_stop (base : Nat) (rest : List Byte) (h : NoDigitHead rest) (a k : Nat) :
    takeDigits base rest a k = (a, k, rest) := by
  cases rest with
  | nil => rfl
  | cons c cs => rw [takeDigits, h c cs rfl]

theorem takeDigits_zeros (base : Nat) (hb : 1 ≤ base) (m : Nat) (l : List Byte) (k : Nat) :
    takeDigits base (List.replicate m 48 ++ l) 0 k = takeDigits base l 0 (k + m) := by
  induction m generalizing k with
  | zero => simp
  | succ m ih =>
    rw [List.replicate_succ, List.cons_append, takeDigits]
    have : digitVal 48 = some 0 := by decide
    rw [this]
    simp only [show 0 < base by omega, if_true]
    rw [Nat.zero_mul, Nat.add_zero, ih]
    congr 1; omega

theorem isSpace_hex (c : Nat) (h : IsHexChar c) : isSpace c = false := by
  unfold IsHexChar at h
  unfold isSpace
  have h1 : (c == 32) = false := by simp; omega
  have h2 : (decide (9 ≤ c) && decide (c ≤ 13)) = false := by simp; omega
  rw [h1, h2]; rfl

/-- `strtoul` on a text that starts with a digit character and has no `0x` prefix -/
theorem strtoul16_plain (c : Nat) (cs : List Byte) (hc : IsHexChar c)
    (hx : c = 48 → ∀ x tl, cs = x :: tl → x ≠ 120 ∧ x ≠ 88) :
    strtoul 16 (c :: cs) =
      (if (takeDigits 16 (c :: cs) 0 0).2.1 = 0 then .ok 0 (c :: cs)
       else .ok (min (takeDigits 16 (c :: cs) 0 0).1 ulongMax) (takeDigits 16 (c :: cs) 0 0).2.2) := by
  unfold strtoul
  have hs : (c :: cs).dropWhile isSpace = c :: cs := by
    rw [List.dropWhile_cons, isSpace_hex c hc]; rfl
  simp only [hs]
  split
  · rename_i heq; cases heq; unfold IsHexChar at hc; omega
  · rename_i heq; cases heq; unfold IsHexChar at hc; omega
  · split
    · rename_i x d r heq
      cases heq
      have := hx rfl x (d :: r) rfl
      simp [this.1, this.2]
    · simp
    · simp

theorem strtoul0_plain (c : Nat) (cs : List Byte) (hc : IsDecChar c) (hc0 : c ≠ 48) :
    strtoul 0 (c :: cs) =
      (if (takeDigits 10 (c :: cs) 0 0).2.1 = 0 then .ok 0 (c :: cs)
       else .ok (min (takeDigits 10 (c :: cs) 0 0).1 ulongMax) (takeDigits 10 (c :: cs) 0 0).2.2) := by
  unfold strtoul
  have hs : (c :: cs).dropWhile isSpace = c :: cs := by
    rw [List.dropWhile_cons, isSpace_hex c (Or.inl hc)]; rfl
  simp only [hs]
  split
  · rename_i heq; cases heq; unfold IsDecChar at hc; omega
  · rename_i heq; cases heq; unfold IsDecChar at hc; omega
  · split
    · rename_i heq; cases heq; exact absurd rfl hc0
    · rename_i heq; cases heq; exact absurd rfl hc0
    · simp

theorem strtoul0_zero (rest : List Byte) (h : ∀ c cs, rest = c :: cs → digitVal c = none) :
    strtoul 0 (48 :: rest) = .ok 0 rest := by
  unfold strtoul
  have hs : (48 :: rest).dropWhile isSpace = 48 :: rest := by
    rw [List.dropWhile_cons]; rfl
  simp only [hs]
  have htd : takeDigits 8 (48 :: rest) 0 0 = (0, 1, rest) := by
    rw [takeDigits]
    have : digitVal 48 = some 0 := by decide
    rw [this]
    simp
    cases rest with
    | nil => rfl
    | cons c cs => rw [takeDigits, h c cs rfl]
  split
  · rename_i x d r heq
    cases heq
    have hx := h x (d :: r) rfl
    have h1 : x ≠ 120 := by intro e; subst e; revert hx; decide
    have h2 : x ≠ 88 := by intro e; subst e; revert hx; decide
    simp [h1, h2, htd]
  · simp [htd]
  · rename_i h2
    exact absurd rfl (h2 rest)

/-! ### the printed digits -/

theorem digitChar_dec (d : Nat) (h : d < 10) : IsDecChar (digitChar d) := by
  unfold digitChar IsDecChar; rw [if_pos h]; omega
theorem digitChar_hex (d : Nat) (h : d < 16) : IsHexChar (digitChar d) := by
  unfold digitChar IsHexChar; split <;> omega

theorem decDigits_ne_nil (n : Nat) : decDigits n ≠ [] := digs_ne_nil 10 (by omega) n
theorem hexDigits_ne_nil (n : Nat) : hexDigits n ≠ [] := digs_ne_nil 16 (by omega) n
theorem decDigits_chars (n : Nat) : ∀ c, c ∈ decDigits n → IsDecChar c := by
  intro c hc
  obtain ⟨d, hd, e⟩ := digs_chars 10 (by omega) n c hc
  rw [e]; exact digitChar_dec d hd
theorem hexDigits_chars (n : Nat) : ∀ c, c ∈ hexDigits n → IsHexChar c := by
  intro c hc
  obtain ⟨d, hd, e⟩ := digs_chars 16 (by omega) n c hc
  rw [e]; exact digitChar_hex d hd
theorem hexPad_chars (w n : Nat) : ∀ c, c ∈ hexPad w n → IsHexChar c := by
  intro c hc
  unfold hexPad at hc
  simp only [List.mem_append, List.mem_replicate] at hc
  rcases hc with ⟨_, e⟩ | hc
  · rw [e]; unfold IsHexChar; omega
  · exact hexDigits_chars n c hc

theorem hexDigits_length_le (n k : Nat) (hk : 1 ≤ k) (h : n < 16 ^ k) : (hexDigits n).length ≤ k :=
  digs_length_le 16 (by omega) n k hk h
theorem hexDigits_length_pos (n : Nat) : 1 ≤ (hexDigits n).length := digs_length_pos 16 (by omega) n
theorem hexPad_length (w n : Nat) (hw : 1 ≤ w) (h : n < 16 ^ w) : (hexPad w n).length = w := by
  have := hexDigits_length_le n w hw h
  unfold hexPad
  simp only [List.length_append, List.length_replicate]
  omega
theorem hexPad_ne_nil (w n : Nat) : hexPad w n ≠ [] := by
  unfold hexPad
  have := hexDigits_ne_nil n
  simp [this]

/-! ### strtoul reads a printed number back -/

theorem takeDigits_digs (base : Nat) (hb : 2 ≤ base) (hb16 : base ≤ 16) :
    ∀ n (rest : List Byte) (k : Nat),
      takeDigits base (digs base n ++ rest) 0 k = takeDigits base rest n (k + (digs base n).length) := by
  apply digs_induct base hb
    (fun n => ∀ (rest : List Byte) (k : Nat),
      takeDigits base (digs base n ++ rest) 0 k = takeDigits base rest n (k + (digs base n).length))
  · intro n hn rest k
    rw [digs_lt base hb n hn, List.singleton_append, takeDigits_digitChar base n hn hb16]
    simp
  · intro n hn ih rest k
    rw [digs_ge base hb n hn, List.append_assoc, ih, List.singleton_append,
      takeDigits_digitChar base (n % base) (Nat.mod_lt _ (by omega)) hb16, List.length_append]
    have e : n / base * base + n % base = n := by
      rw [Nat.mul_comm]; exact Nat.div_add_mod n base
    rw [e]
    simp only [List.length_singleton, Nat.add_assoc]

theorem strtoul16_nil : strtoul 16 [] = .ok 0 [] := by decide
theorem strtoul16_comma (s : List Byte) : strtoul 16 (44 :: s) = .ok 0 (44 :: s) := by
  simp [strtoul, isSpace, takeDigits, digitVal]

theorem digitVal_ne_x (x : Nat) (h : digitVal x = none) : x ≠ 120 ∧ x ≠ 88 := by
  constructor
  · intro e; subst e; revert h; decide
  · intro e; subst e; revert h; decide

theorem hexChar_ne_x (x : Nat) (h : IsHexChar x) : x ≠ 120 ∧ x ≠ 88 := by
  unfold IsHexChar at h; omega

/-- base 0 (the list format): a decimal number followed by a non-digit -/
theorem strtoul0_decDigits (n : Nat) (rest : List Byte) (hn : n < 2 ^ 64) (h : NoDigitHead rest) :
    strtoul 0 (decDigits n ++ rest) = .ok n rest := by
  by_cases h0 : n = 0
  · subst h0
    have : decDigits 0 = [48] := by decide
    rw [this]
    exact strtoul0_zero rest h
  · obtain ⟨d, tl, hd1, hd2, e⟩ := digs_head 10 (by omega) n (by omega)
    have htd : takeDigits 10 (decDigits n ++ rest) 0 0 = (n, 0 + (digs 10 n).length, rest) := by
      rw [decDigits_eq, takeDigits_digs 10 (by omega) (by omega), takeDigits_stop 10 rest h]
    have hlen := digs_length_pos 10 (by omega) n
    have hc : IsDecChar (digitChar d) := digitChar_dec d hd2
    have hc0 : digitChar d ≠ 48 := by
      have e0 : digitChar d = (48 + d : Nat) := by unfold digitChar; rw [if_pos hd2]
      rw [e0]; show (48 + d : Nat) ≠ (48 : Nat); omega
    have e' : decDigits n ++ rest = digitChar d :: (tl ++ rest) := by rw [decDigits_eq, e]; rfl
    rw [e', strtoul0_plain _ _ hc hc0, ← e', htd]
    have hne : 0 + (digs 10 n).length ≠ 0 := by omega
    have : min n ulongMax = n := by unfold ulongMax; omega
    show (if 0 + (digs 10 n).length = 0 then _ else StrtoRes.ok (min n ulongMax) rest) = _
    rw [if_neg hne, this]

/-- `l ++ rest` where `l` is a non-empty list of hex digit characters never looks like a `0x` prefix -/
theorem strtoul16_hexChars (l rest : List Byte) (hl : l ≠ []) (hc : ∀ c, c ∈ l → IsHexChar c)
    (h : NoDigitHead rest) :
    strtoul 16 (l ++ rest) =
      (if (takeDigits 16 (l ++ rest) 0 0).2.1 = 0 then .ok 0 (l ++ rest)
       else .ok (min (takeDigits 16 (l ++ rest) 0 0).1 ulongMax) (takeDigits 16 (l ++ rest) 0 0).2.2) := by
  cases l with
  | nil => exact absurd rfl hl
  | cons c l' =>
    rw [List.cons_append]
    apply strtoul16_plain c (l' ++ rest) (hc c (by simp))
    intro _ x tl e
    cases l' with
    | nil =>
      rw [List.nil_append] at e
      exact digitVal_ne_x x (h x tl e)
    | cons x' l'' =>
      rw [List.cons_append] at e
      cases e
      exact hexChar_ne_x x (hc x (by simp))

theorem takeDigits_hexPad (w n : Nat) (rest : List Byte) (h : NoDigitHead rest) :
    takeDigits 16 (hexPad w n ++ rest) 0 0 = (n, (hexPad w n).length, rest) := by
  unfold hexPad
  simp only
  rw [List.append_assoc, takeDigits_zeros 16 (by omega), hexDigits_eq,
    takeDigits_digs 16 (by omega) (by omega), takeDigits_stop 16 rest h]
  simp

/-- base 16, no prefix (the taskset format), any zero padding -/
theorem strtoul16_hexPad (w n : Nat) (rest : List Byte) (hn : n < 2 ^ 64) (h : NoDigitHead rest) :
    strtoul 16 (hexPad w n ++ rest) = .ok n rest := by
  rw [strtoul16_hexChars _ rest (hexPad_ne_nil w n) (hexPad_chars w n) h, takeDigits_hexPad w n rest h]
  simp only
  have : (hexPad w n).length ≠ 0 := by
    have := hexPad_ne_nil w n
    intro e; exact this (List.eq_nil_of_length_eq_zero e)
  rw [if_neg this]
  have : min n ulongMax = n := by unfold ulongMax; omega
  rw [this]

theorem hexPad_zero (n : Nat) : hexPad 0 n = hexDigits n := by
  unfold hexPad; simp

theorem strtoul16_hexDigits (n : Nat) (rest : List Byte) (hn : n < 2 ^ 64) (h : NoDigitHead rest) :
    strtoul 16 (hexDigits n ++ rest) = .ok n rest := by
  rw [← hexPad_zero]; exact strtoul16_hexPad 0 n rest hn h

theorem isDigitIn_hex (c : Nat) (h : IsHexChar c) : isDigitIn 16 c = true := by
  have key : ∀ c : Nat, c < 103 → ((48 ≤ c ∧ c ≤ 57) ∨ (97 ≤ c ∧ c ≤ 102)) → isDigitIn 16 c = true := by decide
  exact key c (by unfold IsHexChar at h; omega) h

/-- base 16 with the `0x` prefix (the hwloc format) -/
theorem strtoul16_0x_hexPad (w n : Nat) (rest : List Byte) (hn : n < 2 ^ 64) (h : NoDigitHead rest) :
    strtoul 16 (48 :: 120 :: (hexPad w n ++ rest)) = .ok n rest := by
  have htd := takeDigits_hexPad w n rest h
  have hne := hexPad_ne_nil w n
  have hch := hexPad_chars w n
  cases hp : hexPad w n with
  | nil => exact absurd hp hne
  | cons d r =>
    rw [hp] at htd hch
    have hd : isDigitIn 16 d = true := isDigitIn_hex d (hch d (by simp))
    rw [List.cons_append] at htd ⊢
    unfold strtoul
    have hs : (48 :: 120 :: d :: (r ++ rest)).dropWhile isSpace = 48 :: 120 :: d :: (r ++ rest) := by
      rw [List.dropWhile_cons]; rfl
    simp only [hs]
    simp only [hd]
    have e1 : ((120 == 120 || 120 == 88) && true && (16 == 16 || 16 == 0)) = true := by decide
    simp only [e1, if_true]
    rw [htd]
    have : min n ulongMax = n := by unfold ulongMax; omega
    simp [this]

end Hw
