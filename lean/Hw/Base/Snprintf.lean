/-
  Hw.Base.Snprintf — the cursor machine shared by every hwloc `*_snprintf` function:

      res = hwloc_snprintf(tmp, size, <chunk>);
      ret += res;
      if (res >= size) res = size>0 ? size - 1 : 0;
      tmp += res;  size -= res;

  with `hwloc_snprintf = snprintf` (this build defines HWLOC_HAVE_CORRECT_SNPRINTF): it returns the
  chunk length and, when `size > 0`, writes `min(len, size-1)` bytes followed by a NUL.
  Bytes are `Nat`; the caller's buffer is a function `Nat → Option Byte` (`none` = never written)
  together with the log of every index written.
-/
namespace Hw

abbrev Byte := Nat

def str (s : String) : List Byte := s.toList.map Char.toNat

structure Buf where
  get : Nat → Option Byte := fun _ => none
  writes : List Nat := []

def Buf.write (b : Buf) (i : Nat) (c : Byte) : Buf :=
  { get := fun j => if j = i then some c else b.get j, writes := i :: b.writes }

/-- write the bytes `cs` at consecutive positions starting at `pos` -/
def Buf.writeList (b : Buf) (pos : Nat) : List Byte → Buf
  | [] => b
  | c :: cs => (b.write pos c).writeList (pos + 1) cs

/-- `snprintf(buf + pos, size, "%s", chunk)` -/
def snprintfAt (b : Buf) (pos size : Nat) (chunk : List Byte) : Buf :=
  if size = 0 then b
  else ((b.writeList pos (chunk.take (size - 1))).write (pos + min chunk.length (size - 1)) 0)

structure Cur where
  buf : Buf := {}
  pos : Nat := 0      -- tmp - buf
  size : Nat          -- remaining size
  ret : Nat := 0

def Cur.emit (c : Cur) (chunk : List Byte) : Cur :=
  let res := chunk.length
  let adv := if c.size ≤ res then (if 0 < c.size then c.size - 1 else 0) else res
  { buf := snprintfAt c.buf c.pos c.size chunk, pos := c.pos + adv, size := c.size - adv, ret := c.ret + res }

/-- the common prologue `if (buflen > 0) tmp[0] = '\0';` -/
def Cur.start (cap : Nat) : Cur :=
  { buf := if 0 < cap then ({} : Buf).write 0 0 else {}, size := cap }

def emitAll (cap : Nat) (chunks : List (List Byte)) : Cur := chunks.foldl Cur.emit (Cur.start cap)

/-! ### contract -/

theorem Buf.writeList_get (b : Buf) (pos : Nat) (cs : List Byte) (j : Nat) :
    (b.writeList pos cs).get j = if pos ≤ j ∧ j < pos + cs.length then cs[j - pos]? else b.get j := by
  induction cs generalizing b pos with
  | nil =>
    have : ¬ (pos ≤ j ∧ j < pos + ([] : List Byte).length) := by simp
    simp only [Buf.writeList, this, if_false]
  | cons c cs ih =>
    simp only [Buf.writeList, ih, List.length_cons]
    by_cases h1 : pos + 1 ≤ j ∧ j < pos + 1 + cs.length
    · have h2 : pos ≤ j ∧ j < pos + (cs.length + 1) := by omega
      simp only [h1, h2, and_self, if_true]
      have : j - pos = (j - (pos + 1)) + 1 := by omega
      rw [this, List.getElem?_cons_succ]
    · simp only [h1, if_false]
      by_cases h3 : j = pos
      · subst h3
        have h2 : j ≤ j ∧ j < j + (cs.length + 1) := by omega
        simp only [h2, and_self, if_true, Buf.write, Nat.sub_self, List.getElem?_cons_zero]
      · have h2 : ¬ (pos ≤ j ∧ j < pos + (cs.length + 1)) := by omega
        simp only [h2, if_false, Buf.write, h3, if_false]

theorem Buf.writeList_writes (b : Buf) (pos : Nat) (cs : List Byte) (w : Nat) :
    w ∈ (b.writeList pos cs).writes ↔ (pos ≤ w ∧ w < pos + cs.length) ∨ w ∈ b.writes := by
  induction cs generalizing b pos with
  | nil =>
    simp only [Buf.writeList, List.length_nil, Nat.add_zero]
    constructor
    · intro h; exact Or.inr h
    · rintro (h | h)
      · omega
      · exact h
  | cons c cs ih =>
    simp only [Buf.writeList, ih, Buf.write, List.mem_cons, List.length_cons]
    constructor
    · rintro (h | h | h)
      · left; omega
      · left; omega
      · right; exact h
    · rintro (h | h)
      · by_cases h1 : w = pos
        · right; left; exact h1
        · left; omega
      · right; right; exact h

/-- the text written so far -/
def text (chunks : List (List Byte)) : List Byte := chunks.flatten

/-- loop invariant of the cursor machine, for a caller buffer of `cap > 0` bytes -/
structure CurInv (cap : Nat) (t : List Byte) (c : Cur) : Prop where
  ret_eq : c.ret = t.length
  pos_eq : c.pos = min t.length (cap - 1)
  size_eq : c.pos + c.size = cap
  prefix_ok : ∀ j, j < c.pos → c.buf.get j = t[j]?
  nul : c.buf.get c.pos = some 0
  rest : ∀ j, c.pos < j → c.buf.get j = none
  inb : ∀ w, w ∈ c.buf.writes → w < cap

theorem CurInv.start (cap : Nat) (h : 0 < cap) : CurInv cap [] (Cur.start cap) := by
  refine ⟨rfl, by simp [Cur.start], by simp [Cur.start], ?_, ?_, ?_, ?_⟩
  · intro j hj; simp [Cur.start] at hj
  · simp [Cur.start, h, Buf.write]
  · intro j hj
    simp only [Cur.start] at hj
    simp only [Cur.start, h, if_true, Buf.write]
    have : j ≠ 0 := by omega
    simp [this]
  · intro w hw
    simp only [Cur.start, h, if_true, Buf.write, List.mem_cons, List.not_mem_nil, or_false] at hw
    omega

theorem CurInv.emit {cap : Nat} {t : List Byte} {c : Cur} (hcap : 0 < cap) (h : CurInv cap t c)
    (chunk : List Byte) : CurInv cap (t ++ chunk) (c.emit chunk) := by
  obtain ⟨hret, hpos, hsize, hpre, hnul, hrest, hinb⟩ := h
  have hsz : 0 < c.size := by omega
  have hne : c.size ≠ 0 := by omega
  -- number of chunk bytes actually stored
  have hadv : (if c.size ≤ chunk.length then (if 0 < c.size then c.size - 1 else 0) else chunk.length)
      = min chunk.length (c.size - 1) := by
    rw [if_pos hsz]
    split <;> omega
  have hbuf : (c.emit chunk).buf = ((c.buf.writeList c.pos (chunk.take (c.size - 1))).write
      (c.pos + min chunk.length (c.size - 1)) 0) := by
    simp only [Cur.emit, snprintfAt, hne, if_false]
  have hpos' : (c.emit chunk).pos = c.pos + min chunk.length (c.size - 1) := by
    simp only [Cur.emit, hadv]
  have hsize' : (c.emit chunk).size = c.size - min chunk.length (c.size - 1) := by
    simp only [Cur.emit, hadv]
  have htake : (chunk.take (c.size - 1)).length = min chunk.length (c.size - 1) := by
    simp [List.length_take]; omega
  refine ⟨?_, ?_, ?_, ?_, ?_, ?_, ?_⟩
  · simp [Cur.emit, hret]
  · rw [hpos', List.length_append]; omega
  · rw [hpos', hsize']; omega
  · intro j hj
    rw [hpos'] at hj
    rw [hbuf]
    simp only [Buf.write]
    have hjne : j ≠ c.pos + min chunk.length (c.size - 1) := by omega
    simp only [hjne, if_false]
    rw [Buf.writeList_get, htake]
    by_cases hj2 : j < c.pos
    · have : ¬ (c.pos ≤ j ∧ j < c.pos + min chunk.length (c.size - 1)) := by omega
      simp only [this, if_false]
      rw [hpre j hj2]
      have : j < t.length := by omega
      rw [List.getElem?_append_left this]
    · have h1 : c.pos ≤ j ∧ j < c.pos + min chunk.length (c.size - 1) := by omega
      simp only [h1, and_self, if_true]
      -- here the text was not truncated before: pos = t.length
      have hpt : c.pos = t.length := by omega
      rw [List.getElem?_take]
      have : j - c.pos < c.size - 1 := by omega
      simp only [this, if_true]
      rw [List.getElem?_append_right (by omega), hpt]
  · rw [hbuf, hpos']; simp [Buf.write]
  · intro j hj
    rw [hpos'] at hj
    rw [hbuf]
    simp only [Buf.write]
    have hjne : j ≠ c.pos + min chunk.length (c.size - 1) := by omega
    simp only [hjne, if_false]
    rw [Buf.writeList_get, htake]
    have : ¬ (c.pos ≤ j ∧ j < c.pos + min chunk.length (c.size - 1)) := by omega
    simp only [this, if_false]
    exact hrest j (by omega)
  · intro w hw
    rw [hbuf] at hw
    simp only [Buf.write, List.mem_cons] at hw
    rcases hw with hw | hw
    · omega
    · rw [Buf.writeList_writes, htake] at hw
      rcases hw with hw | hw
      · omega
      · exact hinb w hw

theorem emitAll_inv (cap : Nat) (hcap : 0 < cap) (chunks : List (List Byte)) :
    CurInv cap (text chunks) (emitAll cap chunks) := by
  unfold emitAll text
  suffices h : ∀ (cs : List (List Byte)) (t : List Byte) (c : Cur), CurInv cap t c →
      CurInv cap (t ++ cs.flatten) (cs.foldl Cur.emit c) by
    have := h chunks [] (Cur.start cap) (CurInv.start cap hcap)
    simpa using this
  intro cs
  induction cs with
  | nil => intro t c h; simpa using h
  | cons x xs ih =>
    intro t c h
    have := ih (t ++ x) (c.emit x) (h.emit hcap x)
    simpa [List.flatten_cons, List.append_assoc] using this

/-- with a zero-size buffer nothing is ever written and the return value is still the full length -/
theorem emitAll_zero (chunks : List (List Byte)) :
    (emitAll 0 chunks).buf.writes = [] ∧ (emitAll 0 chunks).ret = (text chunks).length := by
  unfold emitAll text
  suffices h : ∀ (cs : List (List Byte)) (c : Cur), c.size = 0 → c.buf.writes = [] →
      (cs.foldl Cur.emit c).buf.writes = [] ∧ (cs.foldl Cur.emit c).ret = c.ret + cs.flatten.length by
    have := h chunks (Cur.start 0) rfl (by simp [Cur.start])
    simpa [Cur.start] using this
  intro cs
  induction cs with
  | nil => intro c _ hw; exact ⟨hw, by simp⟩
  | cons x xs ih =>
    intro c hs hw
    have h1 : (c.emit x).size = 0 := by simp [Cur.emit, hs]
    have h2 : (c.emit x).buf.writes = [] := by simp [Cur.emit, snprintfAt, hs, hw]
    have := ih (c.emit x) h1 h2
    refine ⟨this.1, ?_⟩
    rw [List.foldl_cons, this.2]
    simp [Cur.emit, List.flatten_cons, List.length_append]; omega

end Hw
