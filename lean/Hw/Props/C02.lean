/-
  Property C02 — well-formedness is preserved by every history of modifying calls.

  Proved here, over the model `Hw.Topo.Hist` (hwloc_topology_allow, hwloc_obj_add_info / hwloc_modify_infos,
  hwloc_obj_set_subtype acting on the observable dump): WF is preserved by every call and hence along
  every history; EINVAL from allow leaves the topology untouched; the in-place array code of
  hwloc_modify_infos REPLACE / REMOVE computes the documented list edits.
  hwloc_topology_insert_misc_object (model `Hw.Topo.MiscIns.insertMisc`, a function on the whole dump: ids, every link,
  ranks, logical indexes, cousins, levels) is predicted exactly and proved to preserve WF for EVERY well-formed dump and
  every parent (section "Misc insertion" below); histories mixing it with allow / infos / subtype are covered by
  `C02_history_misc_wf`.
  PARTIAL: restrict (C08), distances grouping, memattr / cpukind registration are not predicted by this model — after
  each such call the real topology is dumped and judged by the proved oracle (C01) and by the stability relations of
  `Driver.History`; Group insertion is predicted and proved on the tree level (section "Group insertion"), it is not a
  constructor of the dump-level history type.
-/
import Hw.Topo.HistoryLemmas
import Hw.Topo.InsertWF
import Hw.Topo.InsertOrder
import Hw.Topo.InsertOrd2
import Hw.Topo.InsertSort
import Hw.Topo.MiscInsertExample
namespace Hw.Props.C02
open Hw.Topo Hw.Topo.Hist

/-- one call of the modelled API keeps the topology well formed (success or failure) -/
theorem C02_step_wf (d : Dump) (op : HOp) (h : WF d) : WF (step d op).1 := step_wf d op h

/-- … hence every finite history of such calls does -/
theorem C02_history_wf (d : Dump) (ops : List HOp) (h : WF d) :
    WF (ops.foldl (fun d op => (step d op).1) d) := history_wf d ops h

/-- EINVAL from hwloc_topology_allow leaves every observable attribute unchanged
(false on the pinned tree: F24, fixed) -/
theorem C02_allow_einval_unchanged (d : Dump) (f : Nat) (c n : Option Nat) (h : (allow d f c n).2 = .einval) :
    (allow d f c n).1 = d := allow_einval_unchanged d f c n h

/-- a successful allow only changes the two allowed sets -/
theorem C02_allow_only_allowed_sets (d : Dump) (f : Nat) (c n : Option Nat) :
    ∃ x y, (allow d f c n).1 = { d with allowedCpuset := x, allowedNodeset := y } := by
  unfold allow
  cases d.objs[0]? with
  | none => exact ⟨d.allowedCpuset, d.allowedNodeset, rfl⟩
  | some root =>
    simp only
    cases allowSets d root f c n with
    | none => exact ⟨d.allowedCpuset, d.allowedNodeset, rfl⟩
    | some p => exact ⟨p.1, p.2, rfl⟩

theorem map_modify_of_inv {α β : Type} (l : List α) (i : Nat) (f : α → α) (g : α → β) (h : ∀ a, g (f a) = g a) :
    (l.modify i f).map g = l.map g := by
  induction l generalizing i with
  | nil => simp
  | cons x xs ih =>
    cases i with
    | zero => simp [h]
    | succ k => simp [ih]

/-- objects are never created, removed or renumbered by the modelled calls: gp_index, type, sets … of every
object stay (only infos / subtype of the addressed object may change) -/
theorem C02_objects_stable (d : Dump) (op : HOp) :
    ((step d op).1.objs.map (fun o => (o.gp, o.type, o.osidx, o.cpuset, o.nodeset, o.parent))) =
    (d.objs.map (fun o => (o.gp, o.type, o.osidx, o.cpuset, o.nodeset, o.parent))) := by
  cases op with
  | allow f c n =>
    obtain ⟨x, y, e⟩ := C02_allow_only_allowed_sets d f c n
    simp only [step, e]
  | addInfo i n v =>
    simp only [step]
    cases d.objs[i]? with
    | none => rfl
    | some o => exact map_modify_of_inv _ _ _ _ (fun _ => rfl)
  | modifyInfos i op n v =>
    simp only [step]
    cases d.objs[i]? with
    | none => rfl
    | some o => exact map_modify_of_inv _ _ _ _ (fun _ => rfl)
  | setSubtype i s =>
    simp only [step]
    cases d.objs[i]? with
    | none => rfl
    | some o => exact map_modify_of_inv _ _ _ _ (fun _ => rfl)

/-! hwloc_modify_infos: the in-place array loops compute the documented list edits -/

/-- REMOVE deletes exactly the matching pairs (NULL name / value are wildcards), keeps the order of the others
and returns the number of removed pairs -/
theorem C02_infos_remove (l : List Hw.Infos.Info) (n v : Option String) :
    Hw.Infos.removeArr l n v = (l.filter (fun p => !Hw.Infos.isMatch n v p), ((l.countP (Hw.Infos.isMatch n v) : Nat) : Int)) :=
  Hw.Infos.removeArr_eq_spec l n v

/-- REPLACE: first pair with that name gets the value, later ones are deleted, others keep their order;
appended when there is none; returns 1 + number of matches (1 when appended) -/
theorem C02_infos_replace (l : List Hw.Infos.Info) (n v : String) :
    Hw.Infos.replaceArr l n v = Hw.Infos.replaceSpec l n v := Hw.Infos.replaceArr_eq_spec l n v

/-- ADD appends, ADD_UNIQUE appends iff the exact pair is absent, NULL arguments and unknown operations are EINVAL
and leave the list unchanged -/
theorem C02_infos_add (l : List Hw.Infos.Info) (n v : String) :
    Hw.Infos.modify l .add (some n) (some v) = (l ++ [(n, v)], 1) := rfl
theorem C02_infos_add_unique (l : List Hw.Infos.Info) (n v : String) :
    Hw.Infos.modify l .addUnique (some n) (some v) = if l.contains (n, v) then (l, 0) else (l ++ [(n, v)], 1) := rfl
theorem C02_infos_einval (l : List Hw.Infos.Info) (op : Hw.Infos.Op) (n v : Option String)
    (h : op = .unknown ∨ (op ≠ .remove ∧ (n = none ∨ v = none))) : Hw.Infos.modify l op n v = (l, -1) := by
  rcases h with rfl | ⟨hop, hnv⟩
  · cases n <;> cases v <;> rfl
  · cases op <;> first | exact absurd rfl hop | (rcases hnv with rfl | rfl <;> (try cases n) <;> (try cases v) <;> rfl)

/-! non-vacuity -/
example : Hw.Infos.replaceArr [("X", "a"), ("Y", "b"), ("X", "c"), ("Z", "d"), ("X", "e")] "X" "new"
    = ([("X", "new"), ("Y", "b"), ("Z", "d")], 4) := by decide
example : Hw.Infos.removeArr [("X", "a"), ("Y", "b"), ("X", "c")] (some "X") none = ([("Y", "b")], 2) := by decide


/-! ### Group insertion: `hwloc___insert_object_by_cpuset` on laminar trees (model `Hw.Topo.Ins`, predicted exactly by the driver) -/

open Hw.Topo.Ins in
/-- the core insertion routine, run on ANY laminar tree (children pairwise disjoint and included in their parent, at every level)
with ANY object whose set is included in the root's, never reaches the situation in which the C code returns while children
hang below the unlinked new object (objects would be lost), and conserves the objects: an insertion adds exactly the new object,
a merge or a refused insertion (intersection without inclusion) keeps exactly the same objects -/
theorem C02_insert_conserves_objects (t : T) (obj : IObj) (hL : Lam t) (hs : sub obj.key t.o.key) :
    ins obj t ≠ .stuck ∧
    (∀ t', ins obj t = .inserted t' → ∀ g, cntT g t' = cntT g t + (if obj.gp = g then 1 else 0)) ∧
    (∀ t' m, ins obj t = .merged t' m → ∀ g, cntT g t' = cntT g t) ∧
    (∀ t', ins obj t = .failed t' → ∀ g, cntT g t' = cntT g t) := by
  have h := ins_good t obj hL hs
  refine ⟨fun e => by rw [e] at h; exact h, fun t' e => ?_, fun t' m e => ?_, fun t' e => ?_⟩ <;> rw [e] at h
  · exact h.2.2
  · exact h.2.2
  · exact h.2.2

open Hw.Topo.Ins in
/-- after an insertion, a merge or a refused insertion (put-back) the tree is laminar again (the cpuset clauses of C01 that concern inclusion and disjointness
are preserved by the routine), and the root keeps its set -/
theorem C02_insert_preserves_laminar (t : T) (obj : IObj) (hL : Lam t) (hs : sub obj.key t.o.key) :
    (∀ t', ins obj t = .inserted t' → Lam t' ∧ t'.o.key = t.o.key) ∧
    (∀ t' m, ins obj t = .merged t' m → Lam t' ∧ t'.o.key = t.o.key) ∧
    (∀ t', ins obj t = .failed t' → Lam t' ∧ t'.o.key = t.o.key) := by
  have h := ins_good t obj hL hs
  refine ⟨fun t' e => ?_, fun t' m e => ?_, fun t' e => ?_⟩ <;> rw [e] at h <;> exact ⟨h.1, h.2.1⟩

open Hw.Topo.Ins in
/-- "a Group that conflicts with the hierarchy leaves the topology unchanged": on a laminar tree whose children lists are
ordered by the first bit of their complete cpuset (what hwloc maintains) and whose objects carry no offline / disallowed bits
(cpuset = complete cpuset), an insertion refused because of an intersection returns EXACTLY the original tree — the put-back
loop restores every child taken by the new object to its original position, at every depth of the recursion.  (With offline
bits the position remembered from cpusets and the put-back by complete cpusets need not agree; that case is left to the
differential comparison `modified-on-failure`.) -/
theorem C02_refused_insert_unchanged (t : T) (obj : IObj) (hL : Lam t) (hO : Ord t) (hs : sub obj.key t.o.key) (t' : T)
    (h : ins obj t = .failed t') : t' = t := ins_failed_unchanged t obj hL hO hs t' h

open Hw.Topo.Ins in
/-- the routine keeps the children lists ordered: on a laminar, ordered tree without offline / disallowed bits, after an insertion
or a merge of a non-empty object with cpuset = complete cpuset every children list is still strictly ordered by the first bit of
the complete cpuset (the `siblings-ordered` clause of C01), at every level -/
theorem C02_insert_keeps_order (t : T) (obj : IObj) (hL : Lam t) (hO : Ord t) (hs : sub obj.key t.o.key)
    (hkc : obj.key = obj.ckey) (hne : obj.key ≠ 0) :
    (∀ t', ins obj t = .inserted t' → Ord t') ∧ (∀ t' m, ins obj t = .merged t' m → Ord t') := by
  have h := ins_ordered t obj hL hO hs hkc hne
  refine ⟨fun t' e => ?_, fun t' m e => ?_⟩ <;> rw [e] at h <;> exact h.1

open Hw.Topo.Ins in
/-- the re-sorting step that `hwloc_topology_insert_group_object`, `fixup_sets` and the level merging run after changing
complete cpusets (`hwloc__reorder_children_if_needed`, literal insertion-sort model) returns, for EVERY children list, a
permutation of it in which no child starts below an earlier one (CPU-less children last) — whichever of its two branches runs -/
theorem C02_reorder_sorts (kids : List T) :
    (reorderIfNeeded kids).Pairwise le ∧ (reorderIfNeeded kids).Perm kids ∧ (reorder kids).Pairwise le ∧ (reorder kids).Perm kids :=
  ⟨(reorderIfNeeded_sorted kids).1, (reorderIfNeeded_sorted kids).2, (reorder_sorted kids).1, (reorder_sorted kids).2⟩

open Hw.Topo.Ins in
/-- the same through the public entry point `hwloc_topology_insert_group_object` (set clipping, cpuset from the nodeset,
comparison with the root), for every argument combination -/
theorem C02_group_insert (filterGroup rootCpuset rootNodeset : Nat) (numas : List (Nat × Nat)) (root : T) (newGp : Nat)
    (a : GArgs) (hL : Lam root) (key : Nat) (r : Res)
    (h : insertGroup filterGroup rootCpuset rootNodeset numas root newGp a = .core key r) : Good newGp root r :=
  insertGroup_good filterGroup rootCpuset rootNodeset numas root newGp a hL key r h

open Hw.Topo.Ins in
/-- … and for EVERY well-formed topology (the C01 predicate `WF`): the tree of its normal objects keyed by cpuset is laminar, so
the core of `hwloc_topology_insert_group_object` never loses an object on it and yields a laminar tree with exactly the
objects `Good` states — no hypothesis left besides `WF d` -/
theorem C02_group_insert_wf (d : Dump) (h : WF d) (root : Obj) (hr : root ∈ d.objs) (fuel : Nat)
    (filterGroup rootCpuset rootNodeset : Nat) (numas : List (Nat × Nat)) (newGp : Nat) (a : GArgs) (key : Nat) (r : Res)
    (hi : insertGroup filterGroup rootCpuset rootNodeset numas (treeH d fuel root) newGp a = .core key r) :
    Good newGp (treeH d fuel root) r :=
  insertGroup_good filterGroup rootCpuset rootNodeset numas _ newGp a (lam_treeH h fuel root hr) key r hi

open Hw.Topo.Ins in
/-- the executable laminarity check the driver evaluates on the tree of every real topology before a Group insertion is sound -/
theorem C02_laminar_check_sound (t : T) (h : lamB t = true) : Lam t := lamB_sound t h

/-! non-vacuity: a laminar tree, an insertion that adopts two children, a refused one -/
section
open Hw.Topo.Ins
private def leaf (gp key : Nat) : T := .node { gp := gp, type := tPU, key := key, ckey := key } []
private def demo : T := .node { gp := 0, type := tMACHINE, key := 0xf, ckey := 0xf } [leaf 1 1, leaf 2 2, leaf 3 4, leaf 4 8]
example : lamB demo = true := by decide
example : Ord demo := ordB_sound demo (by decide +kernel)
example : (match ins { gp := 9, type := tGROUP, key := 0x3 } demo with | .inserted t' => rows 0 t' | _ => [])
    = [(0, 0, [], []), (9, 0, [0, 0, 0], []), (1, 9, [], []), (2, 9, [], []), (3, 0, [], []), (4, 0, [], [])] := by decide +kernel
example : (match ins { gp := 9, type := tGROUP, key := 0x3 }
      (.node { gp := 0, type := tMACHINE, key := 0xf, ckey := 0xf } [leaf 1 1, leaf 2 6, leaf 4 8]) with
    | .failed t' => rows 0 t' | _ => [])
    = [(0, 0, [], []), (1, 0, [], []), (2, 0, [], []), (4, 0, [], [])] := by decide +kernel
end

/-! ### Misc insertion: `hwloc_topology_insert_misc_object` on the dump level (model `Hw.Topo.MiscIns`, predicted exactly by the driver) -/

section MiscInsertion
open Hw.Topo.MiscIns

/-- **WF is preserved by hwloc_topology_insert_misc_object**: for EVERY well-formed dump, every parent object `p` (normal, memory,
I/O or Misc), every name and every amount `skip` of gp indexes consumed by unlinked objects — whether the call succeeds or
is refused.  All 18 topology clauses and all 30 object clauses of C01 are re-established (links, ranks, arities, levels, logical
indexes, cousins, the per-object aggregates over the children lists). -/
theorem C02_insert_misc_wf (d : Dump) (p : Nat) (name : Option String) (skip : Nat) (h : WF d) :
    WF (insertMisc d p name skip).1 := insertMisc_wf d p name skip h

/-- … and this does not depend on the depth-first numbering of the dump: inserting the new Misc child at ANY position behind its
parent (with the logical index its position in the Misc level demands) yields a well-formed dump -/
theorem C02_insert_misc_wf_any_position (d : Dump) (h : WF d) (p pos k : Nat) (name : Option String) (skip : Nat)
    (hp : p < pos) (hpos : pos ≤ d.objs.length) (hf : (d.filters[tMISC]?).getD 0 ≠ 1)
    (hk : ∀ l ∈ d.levels, l.depth = -7 → k = (l.objs.filter (fun i => decide (i < (pos : Int)))).length) :
    WF (after d p pos k name skip) :=
  after_wf h p pos k name skip hp hpos hf (fun l hl h7 => by rw [hk l hl h7]; exact List.length_filter_le _ _) hk

/-- EINVAL when Misc objects are filtered out (type filter KEEP_NONE): nothing changes -/
theorem C02_insert_misc_filtered_unchanged (d : Dump) (p : Nat) (name : Option String) (skip : Nat)
    (hf : (d.filters[tMISC]?).getD 0 = 1) : insertMisc d p name skip = (d, .einval) :=
  insertMisc_filtered_unchanged d p name skip hf

/-- any refused call leaves every observable attribute unchanged -/
theorem C02_insert_misc_einval_unchanged (d : Dump) (p : Nat) (name : Option String) (skip : Nat)
    (he : (insertMisc d p name skip).2 = .einval) : (insertMisc d p name skip).1 = d :=
  insertMisc_einval_unchanged d p name skip he

/-- **frame**: after a successful call the topology header is unchanged (one more object), the new object sits at number
`pos` = end of the parent's subtree, and the old object number `i` is found at number `shN pos i` (numbers ≥ pos move up by one)
as `upd … o` — nothing else exists -/
theorem C02_insert_misc_frame (d : Dump) (p : Nat) (name : Option String) (skip : Nat)
    (hf : (d.filters[tMISC]?).getD 0 ≠ 1) (hp : p < d.objs.length) :
    let pos := subEnd d p
    let k := newLidx d pos
    let d' := (insertMisc d p name skip).1
    p < pos ∧ pos ≤ d.objs.length ∧ d'.objs.length = d.objs.length + 1 ∧
    d'.objs[pos]? = some (newObj d p pos k name skip) ∧
    (∀ i, d'.objs[shN pos i]? = (d.objs[i]?).map (upd p pos k (lastId d p))) ∧
    d'.flags = d.flags ∧ d'.depth = d.depth ∧ d'.root = d.root ∧ d'.allowedCpuset = d.allowedCpuset ∧
    d'.allowedNodeset = d.allowedNodeset ∧ d'.filters = d.filters ∧ d'.typeDepths = d.typeDepths ∧ d'.nobjs = d.nobjs + 1 :=
  insertMisc_objs d p name skip hf hp

/-- … where `upd` leaves type, depth, os_index, gp_index, sibling_rank, arity, memory_arity, io_arity, symmetric_subtree, the four
sets, total_memory, attributes, subtype, name and infos of EVERY old object untouched, renames the link fields, and changes
exactly: misc_arity / misc_first_child of the parent, next_sibling of the previous last Misc child, logical_index of the Misc
objects behind the insertion point (+1), prev_cousin of the first Misc object behind it and next_cousin of the last one before it -/
theorem C02_insert_misc_frame_fields (p pos k : Nat) (last : Int) (o : Obj) :
    let o' := upd p pos k last o
    o'.type = o.type ∧ o'.depth = o.depth ∧ o'.osidx = o.osidx ∧ o'.gp = o.gp ∧ o'.rank = o.rank ∧ o'.arity = o.arity ∧
    o'.marity = o.marity ∧ o'.ioarity = o.ioarity ∧ o'.symm = o.symm ∧ o'.cpuset = o.cpuset ∧ o'.ccpuset = o.ccpuset ∧
    o'.nodeset = o.nodeset ∧ o'.cnodeset = o.cnodeset ∧ o'.totalMem = o.totalMem ∧ o'.attrs = o.attrs ∧ o'.subtype = o.subtype ∧
    o'.name = o.name ∧ o'.infos = o.infos ∧
    o'.id = shN pos o.id ∧ o'.parent = shI pos o.parent ∧ o'.prevSib = shI pos o.prevSib ∧ o'.firstChild = shI pos o.firstChild ∧
    o'.lastChild = shI pos o.lastChild ∧ o'.memFirst = shI pos o.memFirst ∧ o'.ioFirst = shI pos o.ioFirst ∧
    o'.children = o.children.map (shI pos) ∧
    o'.miscarity = (if o.id = p then o.miscarity + 1 else o.miscarity) ∧
    o'.miscFirst = (if o.id = p ∧ o.miscarity = 0 then (pos : Int) else shI pos o.miscFirst) ∧
    o'.nextSib = (if (o.id : Int) = last then (pos : Int) else shI pos o.nextSib) ∧
    o'.lidx = (if o.type = tMISC ∧ k ≤ o.lidx then o.lidx + 1 else o.lidx) ∧
    o'.prevCousin = (if o.type = tMISC ∧ o.lidx = k then (pos : Int) else shI pos o.prevCousin) ∧
    o'.nextCousin = (if o.type = tMISC ∧ o.lidx + 1 = k then (pos : Int) else shI pos o.nextCousin) :=
  upd_frame p pos k last o

/-- gp_index: the old values stay (same objects, same order, the new value inserted at `pos`), and the new one is fresh: above
every old one -/
theorem C02_insert_misc_gp (d : Dump) (p : Nat) (name : Option String) (skip : Nat)
    (hf : (d.filters[tMISC]?).getD 0 ≠ 1) (hp : p < d.objs.length) :
    (insertMisc d p name skip).1.objs.map (·.gp) = insAt (d.objs.map (·.gp)) (subEnd d p) (maxGp d + 1 + skip) ∧
    ∀ o ∈ d.objs, o.gp < maxGp d + 1 + skip := insertMisc_gps d p name skip hf hp

/-- one call of the extended modelled API (allow, add_info, modify_infos, set_subtype, insert_misc_object) keeps the topology well formed -/
theorem C02_step_misc_wf (d : Dump) (op : MOp) (h : WF d) : WF (stepM d op).1 := stepM_wf d op h

/-- **… hence every finite history mixing these calls does** (the induction over op lists of `C02_history_wf`, extended with
Misc insertion) -/
theorem C02_history_misc_wf (d : Dump) (ops : List MOp) (h : WF d) : WF (runM d ops) := historyM_wf d ops h

/-! non-vacuity: `core:2 pu:1` with Misc kept is well formed; a Misc below Core 0, a second one below the first (Misc below Misc), a
third below the Machine, interleaved with an info edit; the refused call -/
example : WF exD := exD_wf
example : (insertMisc exD 1 (some "a") 0).2 = .ok 0 := by decide
example : (((insertMisc exD 1 (some "a") 0).1.levels.find? (fun l => l.depth == -7)).map (·.objs)) = some [3] := by decide
example : wfCheck (runM exD [.misc 1 (some "a") 0, .misc 3 none 2, .base (.addInfo 3 (some "k") (some "v")), .misc 0 (some "c") 0]) = [] := by
  decide +kernel
example : (((runM exD [.misc 1 (some "a") 0, .misc 3 none 2, .misc 0 (some "c") 0]).levels.find? (fun l => l.depth == -7)).map (·.objs))
    = some [3, 4, 8] := by decide +kernel
example : ((runM exD [.misc 1 (some "a") 0, .misc 3 none 2, .misc 0 (some "c") 0]).objs.map (·.gp)) = [1, 3, 2, 7, 10, 5, 4, 6, 11] := by
  decide +kernel
example : (exDnone.filters[tMISC]?).getD 0 = 1 := by decide
example : insertMisc exDnone 1 (some "a") 0 = (exDnone, .einval) := C02_insert_misc_filtered_unchanged _ _ _ _ (by decide)
example : (1 : Nat) < subEnd exD 1 ∧ subEnd exD 1 = 3 ∧ newLidx exD 3 = 0 := by decide
end MiscInsertion

end Hw.Props.C02
