/-
  Property C14 — memory attributes: stored values are returned, best-of queries are optimal.

  Property theorems only.  Model: `Hw.Attr.MemAttrs` (hwloc/memattrs.c 17–1315: attribute table, targets and
  initiators in storage order with the C's first-match lookups, lazy refresh, convenience attributes,
  local NUMA nodes, default nodeset); lemmas in `Hw.Attr.MemAttrsLemmas`, `…Api`, `…State`.
  cpusets are finite bit masks (`Nat`); the topology is an environment `Env`; a restrict is an environment
  change followed by `needRefresh`.
-/
import Hw.Attr.MemAttrsApi
import Hw.Attr.MemAttrsState
namespace Hw.Props.C14
open Hw.MemAttrs

/-! ## 1. `hwloc_memattr_register` -/

/-- accepted iff no unknown flag, exactly one of HIGHER_FIRST/LOWER_FIRST, and the name is new;
the new id is the next consecutive one and the attribute is appended with an empty target list -/
theorem C14_register_rules (tbl : Table) (name : String) (flags : Nat) :
    register tbl name flags =
      if flagsOk flags = false then (tbl, .error .EINVAL)
      else if nameUsed tbl name then (tbl, .error .EBUSY)
      else (tbl ++ [{ name, flags, conv := false, valid := true, targets := [] }], .ok tbl.length) :=
  register_spec tbl name flags

/-- `flagsOk` spelled out: flag word below 8 and exactly one of bits 0 (HIGHER) and 1 (LOWER) -/
theorem C14_register_flags (flags : Nat) :
    flagsOk flags = true ↔ flags < 8 ∧ (flags.testBit 0 = true ↔ flags.testBit 1 = false) := by
  unfold flagsOk
  cases flags.testBit 0 <;> cases flags.testBit 1 <;> simp

theorem C14_register_name (tbl : Table) (name : String) :
    nameUsed tbl name = true ↔ ∃ a ∈ tbl, a.name = name := nameUsed_iff tbl name

/-- earlier attributes (ids, names, flags, values) are untouched by a registration, successful or not -/
theorem C14_register_keeps (tbl : Table) (name : String) (flags i : Nat) (hi : i < tbl.length) :
    (register tbl name flags).1[i]? = tbl[i]? := register_static tbl name flags i hi

/-! ## 2. `get_value` after `set_value` -/

/-- attribute with initiators: a value just stored for (target, initiator) is what the same query returns
(any attribute table, any earlier history, overlapping entries or not) -/
theorem C14_get_after_set (e : Env) (tbl : Table) (id : Nat) (a : Attr) (o : Obj) (init : LocArg) (v : Nat)
    (ha : tbl[id]? = some a) (hconv : a.conv = false) (hni : a.needInit = true)
    (ho : e.hasObj o.type o.gp = true) (hinit : validArg e init) :
    (setValue e tbl id (some o) init 0 v).2 = .ok () ∧
    (getValue e (setValue e tbl id (some o) init 0 v).1 id (some o) init 0).2 = .ok v :=
  getValue_setValue_needInit e tbl id a o init v ha hconv hni ho hinit

/-- attribute without initiators -/
theorem C14_get_after_set_noinit (e : Env) (tbl : Table) (id : Nat) (a : Attr) (o : Obj) (v : Nat)
    (ha : tbl[id]? = some a) (hconv : a.conv = false) (hni : a.needInit = false)
    (ho : e.hasObj o.type o.gp = true) :
    (setValue e tbl id (some o) .null 0 v).2 = .ok () ∧
    (getValue e (setValue e tbl id (some o) .null 0 v).1 id (some o) .null 0).2 = .ok v :=
  getValue_setValue_noInit e tbl id a o v ha hconv hni ho

/-- the initiator list of one (attribute, target) after ANY history of `set_value` calls whose cpuset
initiators are pairwise equal-or-disjoint and non-empty: a query `q` (any non-empty cpuset, any object)
returns the value of the LAST call whose stored location covers `q` (cpuset ⊇ q / same object),
and fails (EINVAL at API level) iff there is none -/
theorem C14_get_after_set_history (h : List (Loc × Nat))
    (hpd : ∀ a ∈ h, ∀ b ∈ h, Compat a.1 b.1) (hne : ∀ a ∈ h, a.1.nonempty)
    (q : Loc) (hq : q.nonempty) :
    (findInit q (runSets [] h)).map (·.value) = specGet h q :=
  get_after_set_history h hpd hne q hq

/-- one more `set_value(p, v)` on top of stored entries that are equal-to-or-disjoint-from `p`:
queries covered by `p` now see `v`, all others are unchanged -/
theorem C14_set_frame (p q : Loc) (v : Nat) (is : List Init)
    (hp : p.nonempty) (hq : q.nonempty) (hc : ∀ i ∈ is, Compat p i.loc) :
    (findInit q (setInit p v is)).map (·.value) =
      if matchLoc q p then some v else (findInit q is).map (·.value) :=
  findInit_setInit_other p q v is hp hq hc

/-- setting a value in one attribute never changes what another attribute returns -/
theorem C14_set_other_attr (e : Env) (tbl : Table) (id id' : Nat) (tgt : Option Obj) (init : LocArg) (fl v : Nat)
    (o' : Option Obj) (init' : LocArg) (fl' : Nat) (h : id' ≠ id) :
    (getValue e (setValue e tbl id tgt init fl v).1 id' o' init' fl').2 = (getValue e tbl id' o' init' fl').2 :=
  getValue_setValue_other_attr e tbl id id' tgt init fl v o' init' fl' h

/-! ## 3. enumeration and the `*nr` convention -/

/-- `get_targets`: `*nr` becomes the number of ALL matching targets, the arrays receive the first
`min(*nr_in, total)` of them in storage order -/
theorem C14_enumerate_targets (e : Env) (tbl : Table) (id : Nat) (a : Attr) (init : LocArg) (max : Nat)
    (ha : tbl[id]? = some a) (hc : a.conv = false) :
    getTargets e tbl id init 0 max false =
      (tbl.set id (ensureValid e a),
       .ok ((matchingTargets (ensureValid e a) init).length, (matchingTargets (ensureValid e a) init).take max)) :=
  getTargets_spec e tbl id a init max ha hc

/-- exactly the stored entries: (gp, v) is enumerated iff some stored target with that gp_index has value `v`
for the given initiator (`0` for every target when no initiator is given to an attribute that needs one) -/
theorem C14_enumerate_targets_exact (a : Attr) (init : LocArg) (g v : Nat) :
    (g, v) ∈ matchingTargets a init ↔
      ∃ t ∈ a.targets, t.gp = g ∧
        (if a.needInit then (if init = .null then v = 0 else targetValue true init t = some v)
         else v = t.noinit) :=
  mem_matchingTargets a init g v

/-- convenience attributes enumerate every NUMA node -/
theorem C14_enumerate_targets_conv (e : Env) (tbl : Table) (id : Nat) (a : Attr) (init : LocArg) (max : Nat)
    (ha : tbl[id]? = some a) (hc : a.conv = true) :
    getTargets e tbl id init 0 max false = (tbl, .ok ((convTargets e id).length, (convTargets e id).take max)) :=
  getTargets_conv_spec e tbl id a init max ha hc

theorem C14_enumerate_targets_einval (e : Env) (tbl : Table) (id : Nat) (init : LocArg) (flags max : Nat)
    (arrNull : Bool) (h : flags ≠ 0 ∨ (max ≠ 0 ∧ arrNull = true) ∨ tbl[id]? = none) :
    getTargets e tbl id init flags max arrNull = (tbl, .error .EINVAL) :=
  getTargets_einval e tbl id init flags max arrNull h

/-- `get_initiators`: all stored initiators of the target in storage order, same `*nr` convention -/
theorem C14_enumerate_initiators (e : Env) (tbl : Table) (id : Nat) (a : Attr) (o : Obj) (t : Target) (max : Nat)
    (ha : tbl[id]? = some a) (hn : a.needInit = true)
    (ht : findTarget o.type o.gp o.os (ensureValid e a).targets = some t) :
    getInitiators e tbl id (some o) 0 max false =
      (tbl.set id (ensureValid e a), .ok (t.inits.length, t.inits.take max)) :=
  getInitiators_spec e tbl id a o t max ha hn ht

/-- the overflow convention in numbers: the caller array receives `min(max, total)` entries -/
theorem C14_nr_convention {α : Type} (l : List α) (max : Nat) : (l.take max).length = min max l.length :=
  List.length_take

/-! ## 4. best-of queries -/

/-- `get_best_target` folds `bestOf` over the matching (target, value) candidates; ENOENT iff none -/
theorem C14_best_target (e : Env) (tbl : Table) (id : Nat) (a : Attr) (init : LocArg)
    (ha : tbl[id]? = some a) (hc : a.conv = false) :
    bestTarget e tbl id init 0 =
      (tbl.set id (ensureValid e a),
       match bestOf (ensureValid e a).higher (candTargets (ensureValid e a) init) with
       | some r => .ok r
       | none => .error .ENOENT) :=
  bestTarget_spec e tbl id a init ha hc

theorem C14_best_initiator (e : Env) (tbl : Table) (id : Nat) (a : Attr) (o : Obj) (t : Target)
    (ha : tbl[id]? = some a) (hn : a.needInit = true)
    (ht : findTarget o.type o.gp o.os (ensureValid e a).targets = some t) :
    bestInitiator e tbl id (some o) 0 =
      (tbl.set id (ensureValid e a),
       match bestOf (ensureValid e a).higher (t.inits.map (fun i => (i.loc, i.value))) with
       | some r => .ok r
       | none => .error .ENOENT) :=
  bestInitiator_spec e tbl id a o t ha hn ht

/-- the result of a best-of query is one of the candidates, its value is maximal (HIGHER_FIRST) or minimal
(LOWER_FIRST) among ALL candidates, and it is the FIRST candidate with that value in storage order -/
theorem C14_best_optimal {α : Type} {higher : Bool} {l : List (α × Nat)} {r : α × Nat}
    (h : bestOf higher l = some r) :
    r ∈ l ∧ (∀ x ∈ l, if higher then x.2 ≤ r.2 else r.2 ≤ x.2) ∧
    ∃ pre post, l = pre ++ r :: post ∧ ∀ x ∈ pre, if higher then x.2 < r.2 else r.2 < x.2 :=
  ⟨bestOf_mem h, bestOf_optimal h, bestOf_first h⟩

/-- ENOENT iff there is no candidate -/
theorem C14_best_enoent {α : Type} (higher : Bool) (l : List (α × Nat)) : bestOf higher l = none ↔ l = [] :=
  bestOf_eq_none higher l

/-! ## 5. convenience attributes Capacity / Locality -/

/-- Capacity (id 0) and Locality (id 1) are the convenience attributes of every freshly loaded topology -/
theorem C14_convenience_defaults :
    (defaults[0]?).map (fun a => (a.name, a.flags, a.conv)) = some ("Capacity", 1, true) ∧
    (defaults[1]?).map (fun a => (a.name, a.flags, a.conv)) = some ("Locality", 2, true) ∧
    ∀ i, 2 ≤ i → ∀ a, defaults[i]? = some a → a.conv = false := by
  refine ⟨rfl, rfl, ?_⟩
  intro i hi a ha
  have : i < 8 := by
    rcases Nat.lt_or_ge i 8 with h | h
    · exact h
    · rw [List.getElem?_eq_none (by simpa [defaults] using h)] at ha; cases ha
  have h8 : i = 2 ∨ i = 3 ∨ i = 4 ∨ i = 5 ∨ i = 6 ∨ i = 7 := by omega
  rcases h8 with h | h | h | h | h | h <;> subst h <;> simp [defaults, mkDefault] at ha <;> subst ha <;> rfl

/-- read-only: every `set_value` on a convenience attribute fails with EINVAL and changes nothing -/
theorem C14_convenience_ro (e : Env) (tbl : Table) (id : Nat) (a : Attr) (tgt : Option Obj) (init : LocArg)
    (flags v : Nat) (ha : tbl[id]? = some a) (hc : a.conv = true) :
    setValue e tbl id tgt init flags v = (tbl, .error .EINVAL) :=
  setValue_conv e tbl id a tgt init flags v ha hc

/-- … and no `set_value` / `register` ever changes name, flags or the convenience bit of an attribute -/
theorem C14_convenience_static (e : Env) (tbl : Table) (id : Nat) (tgt : Option Obj) (init : LocArg) (flags v i : Nat) :
    ((setValue e tbl id tgt init flags v).1[i]?).map (fun a => (a.name, a.flags, a.conv)) =
      (tbl[i]?).map (fun a => (a.name, a.flags, a.conv)) :=
  setValue_static e tbl id tgt init flags v i

/-- the value of a convenience attribute depends on the object only, never on the attribute table -/
theorem C14_convenience_value (e : Env) (tbl : Table) (id : Nat) (a : Attr) (o : Obj) (init : LocArg)
    (ha : tbl[id]? = some a) (hc : a.conv = true) :
    getValue e tbl id (some o) init 0 = (tbl, convValue e id o) :=
  getValue_conv e tbl id a o init ha hc

/-- Capacity = local memory of a NUMA node (EINVAL for other objects) -/
theorem C14_capacity (e : Env) (o : Obj) :
    convValue e 0 o = if o.type = e.numaType then .ok o.mem else .error .EINVAL := by
  by_cases h : o.type = e.numaType
  · simp [h, convValue_capacity]
  · simp [h, convValue_capacity_not_numa]

/-- Locality = weight of the object's cpuset (EINVAL for objects without a cpuset) -/
theorem C14_locality (e : Env) (o : Obj) :
    convValue e 1 o = match o.cpuset with | some c => .ok (weight c) | none => .error .EINVAL := by
  cases h : o.cpuset with
  | some c => exact convValue_locality e o c h
  | none => exact convValue_locality_nocpuset e o h

/-! ## 6. `hwloc_get_local_numanode_objs` -/

/-- result = the NUMA nodes (logical order) that satisfy the flag-selected relation, `*nr` convention -/
theorem C14_local_nodes (e : Env) (cs flags max : Nat) (h8 : flags < 8) :
    localNodes e (.cpuset cs) flags max false =
      .ok ((e.nodes.filter (matchLocal flags cs)).length, (e.nodes.filter (matchLocal flags cs)).take max) :=
  localNodes_cpuset_spec e cs flags max h8

/-- exactly: a node is selected iff ALL, or LARGER_LOCALITY and its cpuset includes the location,
or SMALLER_LOCALITY and its cpuset is included in the location, or its cpuset equals the location -/
theorem C14_local_nodes_exact (e : Env) (cs flags : Nat) (n : Obj) :
    n ∈ e.nodes.filter (matchLocal flags cs) ↔
      n ∈ e.nodes ∧ (flags.testBit 2 = true ∨ (flags.testBit 0 = true ∧ subset cs (ocs n) = true) ∨
        (flags.testBit 1 = true ∧ subset (ocs n) cs = true) ∨ ocs n = cs) := by
  rw [List.mem_filter, matchLocal_iff]

/-- order is the logical order of the NUMA level -/
theorem C14_local_nodes_order (e : Env) (cs flags : Nat) :
    (e.nodes.filter (matchLocal flags cs)).Sublist e.nodes := List.filter_sublist

theorem C14_local_nodes_null (e : Env) (flags max : Nat) (h8 : flags < 8) :
    localNodes e .null flags max false =
      if flags.testBit 2 then .ok (e.nodes.length, e.nodes.take max) else .error .EINVAL :=
  localNodes_null_spec e flags max h8

theorem C14_local_nodes_badflags (e : Env) (loc : LocalArg) (flags max : Nat) (an : Bool) (h8 : 8 ≤ flags) :
    localNodes e loc flags max an = .error .EINVAL := localNodes_badflags e loc flags max an h8

/-! ## 7. `hwloc_topology_get_default_nodeset` -/

/-- the bits returned are exactly the os_indexes of the chosen nodes, every chosen node is a NUMA node of the
topology, and the cpusets of the chosen nodes are pairwise disjoint; the node with the lowest os_index is
always chosen -/
theorem C14_default_nodeset_disjoint (e : Env) :
    (∀ b, (defaultNodesetState e).nodeset.testBit b = true ↔
        ∃ n ∈ (defaultNodesetState e).chosen, n.os.getD 0 = b) ∧
    (∀ n ∈ (defaultNodesetState e).chosen, n ∈ e.nodes) ∧
    (defaultNodesetState e).chosen.Pairwise (fun a b => ocs a &&& ocs b = 0) :=
  ⟨defaultNodeset_bits e, defaultNodeset_chosen_mem e, defaultNodeset_disjoint e⟩

theorem C14_default_nodeset_first (e : Env) (n0 : Obj) (rest : List Obj) (h : sortByOs e.nodes = n0 :: rest) :
    n0 ∈ (defaultNodesetState e).chosen := defaultNodeset_first e n0 rest h

/-! ## 8. restrict + refresh, dup -/

/-- after a refresh the stored targets are exactly the images of the old ones that survive -/
theorem C14_refresh_targets (e : Env) (a : Attr) (t' : Target) :
    t' ∈ (refreshAttr e a).targets ↔ ∃ t ∈ a.targets, refreshTarget e a.needInit t = some t' :=
  mem_refreshAttr e a t'

/-- a target disappears iff its object vanished, or (attribute with initiators) every initiator was emptied /
vanished -/
theorem C14_refresh_removed (e : Env) (ni : Bool) (t : Target) :
    refreshTarget e ni t = none ↔
      e.hasObj t.type t.gp = false ∨ (ni = true ∧ ∀ i ∈ t.inits, refreshInit e i = none) :=
  refreshTarget_none_iff e ni t

/-- an initiator disappears iff its cpuset no longer meets the root cpuset / its object vanished;
a surviving one keeps its value -/
theorem C14_refresh_initiator (e : Env) (i : Init) :
    (refreshInit e i = none ↔
      match i.loc with
      | .cpuset c => c &&& e.root = 0
      | .obj t g => e.hasObj t g = false) ∧
    (∀ i', refreshInit e i = some i' → i'.value = i.value) :=
  ⟨refreshInit_none_iff e i, fun _ h => refreshInit_value h⟩

/-- a surviving target keeps its identity, its no-initiator value, and answers every query that is still
meaningful in the new topology (non-empty cpuset inside the new root cpuset / existing object) with the same
value as before — with or without overlapping stored cpusets -/
theorem C14_refresh_preserves (e : Env) (ni : Bool) (t t' : Target) (init : LocArg)
    (h : refreshTarget e ni t = some t') (hq : ∀ q, toInternal init = some q → validQuery e q) :
    (t'.type = t.type ∧ t'.gp = t.gp ∧ t'.os = t.os ∧ t'.noinit = t.noinit) ∧
    targetValue ni init t' = targetValue ni init t :=
  ⟨refreshTarget_key h, targetValue_refresh e ni t t' init h hq⟩

/-- the first stored target answering to a key is still the one found after the refresh when it survives -/
theorem C14_refresh_lookup (e : Env) (ni : Bool) (ty gp : Nat) (os : Option Nat) (ts : List Target) (t t' : Target)
    (h1 : findTarget ty gp os ts = some t) (h2 : refreshTarget e ni t = some t') :
    findTarget ty gp os (ts.filterMap (refreshTarget e ni)) = some t' :=
  findTarget_refresh e ni ty gp os ts t t' h1 h2

/-- `hwloc_topology_dup` copies every attribute with all targets, initiators and values (only the cache flag
is cleared) -/
theorem C14_dup_preserves (tbl : Table) (i : Nat) :
    (dup tbl)[i]? = (tbl[i]?).map (fun a => { a with valid := false }) := dup_getElem tbl i

/-! ## non-vacuity -/

deriving instance DecidableEq for Except

def exEnv : Env :=
  let n0 : Obj := { type := 14, gp := 4, os := some 0, cpuset := some 3, effCpuset := 3, mem := 1000, subtype := none }
  let n1 : Obj := { type := 14, gp := 8, os := some 1, cpuset := some 12, effCpuset := 12, mem := 2000, subtype := none }
  let m : Obj := { type := 0, gp := 1, os := some 0, cpuset := some 15, effCpuset := 15, mem := 0, subtype := none }
  { numaType := 14, root := 15, objs := [m, n0, n1], nodes := [n0, n1] }

/-- a concrete history: two nodes, Bandwidth set from two disjoint cpusets, queries by subset -/
example :
    let n0 := exEnv.nodes[0]!
    let n1 := exEnv.nodes[1]!
    let t1 := (setValue exEnv defaults 2 (some n0) (.cpuset (some 3)) 0 10).1
    let t2 := (setValue exEnv t1 2 (some n1) (.cpuset (some 3)) 0 10).1
    let t3 := (setValue exEnv t2 2 (some n1) (.cpuset (some 12)) 0 7).1
    (getValue exEnv t3 2 (some n1) (.cpuset (some 1)) 0).2 = .ok 10 ∧
    (getValue exEnv t3 2 (some n1) (.cpuset (some 8)) 0).2 = .ok 7 ∧
    (getValue exEnv t3 2 (some n1) (.cpuset (some 6)) 0).2 = .error .EINVAL ∧
    (bestTarget exEnv t3 2 (.cpuset (some 2)) 0).2 = .ok (4, 10) ∧      -- tie 10/10: first stored wins
    (bestInitiator exEnv t3 2 (some n1) 0).2 = .ok (.cpuset 3, 10) ∧
    (getTargets exEnv t3 2 (.cpuset (some 1)) 0 1 false).2 = .ok (2, [(4, 10)]) ∧   -- *nr = 2 > array size 1
    (getValue exEnv t3 0 (some n1) .null 0).2 = .ok 2000 ∧
    (getValue exEnv t3 1 (some n1) .null 0).2 = .ok 2 ∧
    (setValue exEnv t3 0 (some n1) .null 0 5).2 = .error .EINVAL := by decide

/-- restrict to PUs {2,3} (node 0 becomes CPU-less but stays): the entry of initiator {0,1} disappears,
the one of {2,3} keeps its value -/
example :
    let n1 := exEnv.nodes[1]!
    let t1 := (setValue exEnv defaults 2 (some n1) (.cpuset (some 3)) 0 10).1
    let t2 := (setValue exEnv t1 2 (some n1) (.cpuset (some 12)) 0 7).1
    let e' : Env := { exEnv with root := 12 }
    let t3 := needRefresh t2
    (getValue e' t3 2 (some n1) (.cpuset (some 8)) 0).2 = .ok 7 ∧
    (getInitiators e' t3 2 (some n1) 0 4 false).2 = .ok (1, [⟨.cpuset 12, 7⟩]) := by decide

example : defaultNodeset exEnv 0 = .ok 3 := by decide
example : (register defaults "Bandwidth" 1).2 = .error .EBUSY ∧ (register defaults "X" 3).2 = .error .EINVAL ∧
    (register defaults "X" 6).2 = .ok 8 := by decide
example : (localNodes exEnv (.cpuset 1) 1 4 false) = .ok (1, [exEnv.nodes[0]!]) := by decide

end Hw.Props.C14
