/-
  Property C13 — distances: what is added is what is returned, and it follows the objects.

  Property theorems only; the model is `Hw.Attr.Distances` (hwloc/distances.c: add_create /
  add_values / add_commit, refresh_one + the in-place `hwloc_internal_distances_restrict`,
  `hwloc__distances_get`, the removal functions, dup / XML transfer, the four transforms),
  lemmas live in `Hw.Attr.DistancesLemmas`.

  Reading of the English text.  "The list is unchanged on rejection": the failing calls return
  `Except.error`, which carries no state — the caller keeps the state it had.  Objects are
  (type, gp_index, os_index, is-NVSwitch) records, a topology is the list of its live objects;
  which objects survive a restrict is an input (that is C08), what the distances layer does with
  the survivors is proved here.  `rank live i` = number of survivors below `i` = the new position
  of survivor `i` (the order-preserving renumbering σ⁻¹ of DESIGN.md).
-/
import Hw.Attr.DistancesLemmas
import Hw.Attr.GroupingSets
import Hw.Attr.GroupingClosure
import Hw.Attr.GroupingWalk
import Hw.Attr.GroupingValue
namespace Hw.Props.C13
open Hw.Dist

/-! ## 1. add → get -/

/-- `kind` is accepted by `add_create` iff it has no bit outside `KIND_ALL`, at most one `FROM_*`
bit and at most one `VALUE_*` bit (complete table over the 64 in-mask words; every other word has
a bit outside the mask). -/
theorem C13_kind_validation (kind : Nat) :
    kindOk kind = true ↔
      (kind < 64 ∧ ¬(kind.testBit 0 = true ∧ kind.testBit 1 = true) ∧
       ¬(kind.testBit 2 = true ∧ kind.testBit 3 = true) ∧ ¬(kind.testBit 2 = true ∧ kind.testBit 5 = true) ∧
       ¬(kind.testBit 3 = true ∧ kind.testBit 5 = true)) :=
  kindOk_iff kind

/-- After the documented sequence create / values (≥ 2 non-NULL objects) / commit, the structure is
appended with the caller's name, kind (plus HETEROGENEOUS_TYPES when the unique type is NONE),
objects and values; every later get reports one more match iff the filter matches it, `*nr` counts
all matches whatever the capacity of the caller's array, and the array receives the first `cap`
matches in list order. -/
theorem C13_add_then_get (st : State) (name : Option String) (kind : Nat) (os : List Obj) (vals : List Nat)
    (hk : kindOk kind = true) (hn : 2 ≤ os.length) :
    ∃ st1 h1 h2 st2,
      addCreate st name kind 0 = .ok (st1, h1) ∧
      addValues h1 os.length (os.map some) vals 0 = .ok h2 ∧
      addCommit st1 h2 0 = .ok st2 ∧
      h2.name = name ∧ h2.id = st.nextId ∧ h2.n = os.length ∧ h2.objs = os.map some ∧ h2.vals = vals ∧
      h2.kind = (if uniqueType (os.map some) == TY_NONE then kind ||| KIND_HETEROGENEOUS else kind) ∧
      st2.dists = st.dists ++ [h2] ∧ st2.topo = st.topo ∧
      ∀ (fname : Option String) (fty : Int) (fkind cap : Nat),
        (getCore st2 fname fty fkind cap).2.1 =
          (getCore st fname fty fkind cap).2.1 + (if matchesFilter fname fty fkind h2 = true then 1 else 0) ∧
        (getCore st2 fname fty fkind cap).2.2 =
          ((((refreshList st.topo st.dists).filter (matchesFilter fname fty fkind)).map Dist.pub) ++
            (if matchesFilter fname fty fkind h2 = true then [h2.pub] else [])).take cap :=
  add_then_get st name kind os vals hk hn

/-- the filter of `hwloc__distances_get`: a structure matches iff (no name is asked or it has exactly that
name) and (no type is asked or it is its unique type) and (no FROM_ bit is asked or one is shared) and
(no VALUE_ bit is asked or one is shared); every other bit of the kind word is ignored -/
theorem C13_get_filter (name : Option String) (ty : Int) (kind : Nat) (d : Dist) :
    matchesFilter name ty kind d = true ↔
      ((name = none ∨ (d.name ≠ none ∧ name = d.name)) ∧ (ty = TY_NONE ∨ ty = d.uniq) ∧
       (kind &&& KIND_FROM_ALL = 0 ∨ (kind &&& KIND_FROM_ALL) &&& d.kind ≠ 0) ∧
       (kind &&& KIND_VALUE_ALL = 0 ∨ (kind &&& KIND_VALUE_ALL) &&& d.kind ≠ 0)) :=
  matchesFilter_iff name ty kind d

/-- the unique type is NONE (⇒ HETEROGENEOUS_TYPES is set) iff some object's type differs from the first's -/
theorem C13_hetero_iff (o : Obj) (rest : List Obj) (hty : ∀ x, x ∈ o :: rest → x.ty ≠ TY_NONE) :
    (uniqueType ((o :: rest).map some) == TY_NONE) = true ↔ ∃ x, x ∈ rest ∧ x.ty ≠ o.ty :=
  uniqueType_none_iff o rest hty

/-- the `*nr` convention in general: number of matches, and the first `cap` of them -/
theorem C13_get_nr (st : State) (name : Option String) (ty : Int) (kind cap : Nat) :
    (getCore st name ty kind cap).2.1 = ((refreshList st.topo st.dists).filter (matchesFilter name ty kind)).length ∧
    (getCore st name ty kind cap).2.2 =
      (((refreshList st.topo st.dists).filter (matchesFilter name ty kind)).take cap).map Dist.pub :=
  getCore_nr st name ty kind cap

/-! ## 2. rejections -/

/-- invalid kind or non-zero flags: `add_create` fails (no state is produced, no id consumed) -/
theorem C13_add_rejects_unchanged_create (st : State) (name : Option String) (kind flags : Nat) :
    (∃ e, addCreate st name kind flags = .error e) ↔ (kindOk kind = false ∨ flags ≠ 0) :=
  addCreate_error_iff st name kind flags

/-- fewer than 2 objects: `add_values` fails with EINVAL (the handle is destroyed, the list untouched) -/
theorem C13_add_rejects_unchanged_values (h : Dist) (n : Nat) (objs : List (Option Obj)) (vals : List Nat)
    (flags : Nat) (hn : n < 2 ∨ flags ≠ 0) : addValues h n objs vals flags = .error .EINVAL := by
  rcases hn with hn | hf
  · exact addValues_lt2 h n objs vals flags hn
  · exact addValues_flags h n objs vals flags hf

/-- any NULL object (at any position, the first included): `add_values` fails with EINVAL; the handle is
destroyed and the list untouched (`Except.error` carries no state) -/
theorem C13_add_rejects_null_object (h : Dist) (n : Nat) (objs : List (Option Obj)) (vals : List Nat)
    (flags : Nat) (hn : none ∈ objs) : addValues h n objs vals flags = .error .EINVAL :=
  addValues_null h n objs vals flags hn

/-- unknown commit flags: `add_commit` fails with EINVAL -/
theorem C13_add_rejects_unchanged_commit (st : State) (h : Dist) (flags : Nat)
    (hf : flags &&& ADD_FLAG_ALL ≠ flags) : addCommit st h flags = .error .EINVAL :=
  addCommit_flags st h flags hf

/-! ## 3. the in-place compaction -/

/-- `hwloc_internal_distances_restrict`, value matrix: for every `n`, every survivor mask and every
matrix, after the in-place loop the `k×k` result (`k = rank live n` survivors) holds at
`(rank i, rank j)` the original cell `(i, j)` of every surviving pair — the overwrite never destroys
a cell that is still to be read. -/
theorem C13_compaction_correct (n : Nat) (live : Nat → Bool) (a : FArr Nat) (i j : Nat)
    (hi : i < n) (hj : j < n) (li : live i = true) (lj : live j = true) :
    (compactVals n (rank live n) live a).get (rank live i * rank live n + rank live j) = a.get (i*n + j) :=
  compactVals_spec n live a i j hi hj li lj

/-- the same with σ = any enumeration of the survivors in increasing order
(`σ a` survives and has exactly `a` survivors below it) -/
theorem C13_compaction_correct_sigma (n : Nat) (live : Nat → Bool) (arr : FArr Nat) (σ : Nat → Nat) (a b : Nat)
    (ha : σ a < n ∧ live (σ a) = true ∧ rank live (σ a) = a)
    (hb : σ b < n ∧ live (σ b) = true ∧ rank live (σ b) = b) :
    (compactVals n (rank live n) live arr).get (a * rank live n + b) = arr.get (σ a * n + σ b) := by
  have := compactVals_spec n live arr (σ a) (σ b) ha.1 hb.1 ha.2.1 hb.2.1
  rw [ha.2.2, hb.2.2] at this; exact this

/-- such a σ exists for every position below the number of survivors, and it is unique -/
theorem C13_compaction_sigma_exists (n : Nat) (live : Nat → Bool) (a : Nat) (ha : a < rank live n) :
    ∃ i, (i < n ∧ live i = true ∧ rank live i = a) ∧ ∀ i', (i' < n ∧ live i' = true ∧ rank live i' = a) → i' = i := by
  obtain ⟨i, h1, h2, h3⟩ := rank_surj live n a ha
  exact ⟨i, ⟨h1, h2, h3⟩, fun i' h' => rank_inj live h'.2.1 h2 (by rw [h'.2.2, h3])⟩

/-- the object / index / type arrays are compacted by the same renumbering -/
theorem C13_compaction_objs (n : Nat) (objs : List (Option Obj)) (idx : List Nat) (tys : List Int) (vals : List Nat)
    (i : Nat) (hi : i < n) (li : liveOf objs i = true) :
    (compactLists n (rank (liveOf objs) n) objs idx tys vals).1.getD (rank (liveOf objs) i) none = objs.getD i none ∧
    (compactLists n (rank (liveOf objs) n) objs idx tys vals).2.1.getD (rank (liveOf objs) i) 0 = idx.getD i 0 ∧
    (compactLists n (rank (liveOf objs) n) objs idx tys vals).2.2.1.getD (rank (liveOf objs) i) (-1) = tys.getD i (-1) :=
  compactLists_objs n objs idx tys vals i hi li

/-! ## 4. refresh after a topology change -/

/-- after restrict every structure has lost its cached objects -/
theorem C13_restrict_invalidates (st : State) (T' : Topo) (d : Dist) (h : d ∈ (st.restrict T').dists) :
    d.valid = false ∧ ∃ d0, d0 ∈ st.dists ∧ d = { d0 with valid := false } := by
  simp only [State.restrict, invalidate, List.mem_map] at h
  obtain ⟨d0, h0, rfl⟩ := h
  exact ⟨rfl, d0, h0, rfl⟩

/-- a structure is dropped by the refresh iff fewer than 2 of its objects can be re-resolved -/
theorem C13_refresh_dropped_iff (T : Topo) (d : Dist) (hv : d.valid = false) :
    refreshOne T d = none ↔ rank (liveOf (resolveAll T d)) d.n < 2 :=
  refreshOne_none_iff T d hv

/-- a structure that survives the refresh keeps id, name, kind and type, references only objects of
the current topology (no NULL entry), has exactly the surviving objects in their old order, their
persistent indexes, and exactly the sub-matrix of the surviving pairs -/
theorem C13_refresh_subset (T : Topo) (d d' : Dist) (hv : d.valid = false) (h : refreshOne T d = some d') :
    d'.id = d.id ∧ d'.name = d.name ∧ d'.kind = d.kind ∧ d'.uniq = d.uniq ∧ d'.hetero = d.hetero ∧ d'.valid = true ∧
    d'.n = rank (liveOf (resolveAll T d)) d.n ∧ 2 ≤ d'.n ∧ d'.objs.length = d'.n ∧
    (∀ i, i < d.n → liveOf (resolveAll T d) i = true →
       d'.objs.getD (rank (liveOf (resolveAll T d)) i) none = (resolveAll T d).getD i none ∧
       d'.idx.getD (rank (liveOf (resolveAll T d)) i) 0 = d.idx.getD i 0) ∧
    (∀ i j, i < d.n → j < d.n → liveOf (resolveAll T d) i = true → liveOf (resolveAll T d) j = true →
       d'.vals.getD (rank (liveOf (resolveAll T d)) i * d'.n + rank (liveOf (resolveAll T d)) j) 0
         = d.vals.getD (i*d.n + j) 0) ∧
    (∀ x, x ∈ d'.objs → ∃ o, x = some o ∧ o ∈ T) :=
  refreshOne_some_spec T d d' hv h

/-- a structure whose cached objects are valid is not touched by a refresh -/
theorem C13_refresh_valid_fixed (T : Topo) (d : Dist) (h : d.valid = true) : refreshOne T d = some d :=
  refreshOne_valid T d h

/-- the refreshed list is the old list, in order, with each structure refreshed or dropped -/
theorem C13_refresh_list (st : State) :
    st.refresh.dists = st.dists.filterMap (refreshOne st.topo) ∧ st.refresh.topo = st.topo ∧
    st.refresh.nextId = st.nextId := ⟨rfl, rfl, rfl⟩

/-- dup keeps every structure (id, name, kind, indexes, values), in order, and the id counter -/
theorem C13_dup_keeps (st : State) (T' : Topo) :
    (st.dup T').nextId = st.nextId ∧
    (st.dup T').dists = st.dists.map (fun d => { d with valid := false, objs := List.replicate d.n none }) :=
  ⟨rfl, rfl⟩

/-- XML export + import into a topology with live objects `T'`: the export refreshes; the new list is
the homogeneous structures followed by the heterogeneous ones (any kind word, 0 included), 1-object
structures skipped, renumbered from 0 and refreshed against `T'` (so `C13_refresh_subset` applies to
each of them) -/
theorem C13_xml_roundtrip (st : State) (T' : Topo) :
    (xmlRoundTrip st T').1 = st.refresh ∧ (xmlRoundTrip st T').2.topo = T' ∧
    (xmlRoundTrip st T').2.dists = refreshList T' (renumber ((st.refresh.dists.filter (fun d => !d.hetero) ++
        st.refresh.dists.filter (fun d => d.hetero)).filter (fun d => 2 ≤ d.n)) 0) ∧
    (xmlRoundTrip st T').2.nextId = ((st.refresh.dists.filter (fun d => !d.hetero) ++
        st.refresh.dists.filter (fun d => d.hetero)).filter (fun d => 2 ≤ d.n)).length :=
  xmlRoundTrip_spec st T'

/-- the renumbering keeps name, kind, types, indexes and values of every structure; ids are `i, i+1, …` -/
theorem C13_xml_renumber (l : List Dist) (i : Nat) :
    (∀ d', d' ∈ renumber l i → ∃ d k, d ∈ l ∧ k < l.length ∧
        d' = { d with id := i + k, valid := false, objs := List.replicate d.n none }) ∧
    (renumber l i).map Dist.id = List.range' i l.length :=
  ⟨fun d' h => renumber_mem l i d' h, renumber_ids l i⟩

/-! ## 5. removals -/

theorem C13_remove_exact_all (st : State) : (remove st).dists = [] ∧ (remove st).nextId = st.nextId := ⟨rfl, rfl⟩

/-- `remove_by_depth`: exactly the structures whose unique type is the type of that depth go, the
others stay in order -/
theorem C13_remove_exact_by_depth (st st' : State) (ty : Int) (h : removeByDepth st ty = .ok st') :
    (∀ d, d ∈ st'.dists ↔ (d ∈ st.dists ∧ d.uniq ≠ ty)) ∧ st'.dists.Sublist st.dists ∧ st'.nextId = st.nextId :=
  ⟨removeByDepth_mem st st' ty h, (removeByDepth_sublist st st' ty h).1, (removeByDepth_sublist st st' ty h).2.2⟩

/-- `release_remove`: with pairwise distinct ids in the list, exactly the structure carrying the id
of the caller's copy goes; if no structure carries it the call fails -/
theorem C13_remove_exact_release_remove (st : State) (p : Pub) (hnd : (st.dists.map Dist.id).Nodup) :
    (∀ st', releaseRemove st p = .ok st' →
        (∀ d, d ∈ st'.dists ↔ (d ∈ st.dists ∧ d.id ≠ p.id)) ∧ st'.dists.Sublist st.dists) ∧
    ((∃ e, releaseRemove st p = .error e) ↔ ∀ d, d ∈ st.dists → d.id ≠ p.id) :=
  releaseRemove_spec st p hnd

/-- ids in the list stay pairwise distinct and below the counter under create+commit -/
theorem C13_ids_distinct_commit (st : State) (name : Option String) (kind : Nat) (h : Dist) (st1 st2 : State)
    (hinv : (st.dists.map Dist.id).Nodup ∧ ∀ d, d ∈ st.dists → d.id < st.nextId)
    (hc : addCreate st name kind 0 = .ok (st1, h)) (h' : Dist) (hid : h'.id = h.id)
    (hm : addCommit st1 h' 0 = .ok st2) :
    (st2.dists.map Dist.id).Nodup ∧ ∀ d, d ∈ st2.dists → d.id < st2.nextId :=
  ids_distinct_commit st name kind h st1 st2 hinv hc h' hid hm

/-- ids stay pairwise distinct under refresh (structures are only dropped, ids kept) -/
theorem C13_ids_distinct_refresh (T : Topo) (ds : List Dist) (h : (ds.map Dist.id).Nodup) :
    ((refreshList T ds).map Dist.id).Nodup :=
  List.Nodup.sublist (refreshList_ids_sublist T ds) h

/-- … and under every removal (the results are sublists, see `C13_remove_exact_*`) -/
theorem C13_ids_distinct_sublist (l l' : List Dist) (hs : l'.Sublist l) (h : (l.map Dist.id).Nodup) :
    (l'.map Dist.id).Nodup :=
  List.Nodup.sublist (List.Sublist.map Dist.id hs) h

/-! ## 6. transforms -/

/-- REMOVE_NULL keeps every non-NULL object, in order, and the values between them -/
theorem C13_transform_remove_null_keeps (p p' : Pub) (hlen : p.objs.length = p.n)
    (h : trRemoveNull p = (none, p')) :
    p'.n = rank (liveOf p.objs) p.n ∧ 2 ≤ p'.n ∧
    (∀ i, i < p.n → liveOf p.objs i = true → p'.objs.getD (rank (liveOf p.objs) i) none = p.objs.getD i none) ∧
    (∀ i j, i < p.n → j < p.n → liveOf p.objs i = true → liveOf p.objs j = true →
      p'.vals.getD (rank (liveOf p.objs) i * p'.n + rank (liveOf p.objs) j) 0 = p.vals.getD (i*p.n + j) 0) :=
  trRemoveNull_keeps p p' hlen h

/-- LINKS: on success every value is the (diagonal-zeroed) original divided by the smallest positive
value, which divides all of them -/
theorem C13_links_divides (p p' : Pub) (h : trLinks p = (none, p')) :
    (minPos (linksBase p) = 0 ∧ p'.vals = linksBase p) ∨
    (0 < minPos (linksBase p) ∧ p'.vals.length = (linksBase p).length ∧
      ∀ q, q < (linksBase p).length → p'.vals.getD q 0 * minPos (linksBase p) = (linksBase p).getD q 0) :=
  trLinks_divides p p' h

/-- LINKS works on the matrix with the diagonal zeroed and every other cell as given … -/
theorem C13_links_base (p : Pub) (i j : Nat) (hi : i < p.n) (hj : j < p.n) :
    (linksBase p).getD (i*p.n+j) 0 = if i = j then 0 else p.vals.getD (i*p.n+j) 0 :=
  linksBase_spec p i j hi hj

/-- … and its divider is 0 iff all those cells are 0, else the smallest positive one -/
theorem C13_links_divider_min (vs : List Nat) :
    (minPos vs = 0 ↔ ∀ v, v ∈ vs → v = 0) ∧
    (minPos vs ≠ 0 → minPos vs ∈ vs ∧ ∀ v, v ∈ vs → v ≠ 0 → minPos vs ≤ v) :=
  minPos_spec vs

/-- TRANSITIVE_CLOSURE (`closure_adds_min`): always succeeds; objects, kind, every cell with a port
endpoint and the diagonal are unchanged; the cell between two distinct non-port objects `i`, `j`
becomes `old + min(Σ_ports v[i][port], Σ_ports v[port][j])`, sums taken on the original matrix,
all additions modulo 2^64 as in C -/
theorem C13_closure_adds_min (p : Pub) :
    (trClosure p).1 = none ∧ (trClosure p).2.objs = p.objs ∧ (trClosure p).2.n = p.n ∧ (trClosure p).2.kind = p.kind ∧
    (∀ i j, i < p.n → j < p.n → (swOf p i = true ∨ swOf p j = true ∨ i = j) →
      (trClosure p).2.vals.getD (i*p.n+j) 0 = p.vals.getD (i*p.n+j) 0) ∧
    (∀ i j, i < p.n → j < p.n → swOf p i = false → swOf p j = false → i ≠ j →
      (trClosure p).2.vals.getD (i*p.n+j) 0 =
        add64 (p.vals.getD (i*p.n+j) 0)
          (if rowSum p.n (swOf p) (toArr p.vals 0) i > colSum p.n (swOf p) (toArr p.vals 0) j
           then colSum p.n (swOf p) (toArr p.vals 0) j else rowSum p.n (swOf p) (toArr p.vals 0) i)) :=
  trClosure_spec p

/-- MERGE_SWITCH_PORTS (`transform_keeps_nonswitch`, full): with `i` the first port, the result holds
exactly the objects `keepOf p i` (non-NULL and not a port listed after `i`), in order, renumbered by
`rank`; the values between kept objects other than the port `i` are unchanged; the column / row of
the merged port is the (64-bit wrap-around) sum over all ports of the original columns / rows. -/
theorem C13_transform_keeps_nonswitch (p p' : Pub) (i : Nat) (hlen : p.objs.length = p.n)
    (hf : firstSw p.objs = some i) (h : trMerge p = (none, p')) :
    p'.n = rank (keepOf p i) p.n ∧ 2 ≤ p'.n ∧ keepOf p i i = true ∧
    (∀ x, x < p.n → keepOf p i x = true → p'.objs.getD (rank (keepOf p i) x) none = p.objs.getD x none) ∧
    (∀ x y, x < p.n → y < p.n → keepOf p i x = true → keepOf p i y = true → x ≠ i → y ≠ i →
      p'.vals.getD (rank (keepOf p i) x * p'.n + rank (keepOf p i) y) 0 = p.vals.getD (x*p.n + y) 0) ∧
    (∀ k, k < p.n → keepOf p i k = true → k ≠ i →
      p'.vals.getD (rank (keepOf p i) k * p'.n + rank (keepOf p i) i) 0 =
        sumSw (swOf p) (fun q => k*p.n+q) (toArr p.vals 0) (p.n - (i+1)) (i+1) (p.vals.getD (k*p.n+i) 0) ∧
      p'.vals.getD (rank (keepOf p i) i * p'.n + rank (keepOf p i) k) 0 =
        sumSw (swOf p) (fun q => q*p.n+k) (toArr p.vals 0) (p.n - (i+1)) (i+1) (p.vals.getD (i*p.n+k) 0)) :=
  trMerge_spec p p' i hlen hf h

/-- every non-NULL non-switch object is among the kept ones; `i` is a port and no port precedes it -/
theorem C13_transform_nonswitch_kept (p : Pub) (i x : Nat) (hl : liveOf p.objs x = true)
    (hs : isSw (p.objs.getD x none) = false) : keepOf p i x = true := by
  unfold keepOf; rw [hl, hs]; simp

theorem C13_transform_first_port (p : Pub) (i : Nat) (hf : firstSw p.objs = some i) :
    i < p.objs.length ∧ isSw (p.objs.getD i none) = true ∧ ∀ q, q < i → isSw (p.objs.getD q none) = false :=
  firstSw_spec p.objs i hf

/-- MERGE_SWITCH_PORTS fails with ENOENT (structure untouched) when there is no port -/
theorem C13_transform_merge_no_port (p : Pub) (hf : firstSw p.objs = none) : trMerge p = (some .ENOENT, p) := by
  simp [trMerge, hf]

/-! ## 9. grouping by distances at the default accuracy (`hwloc__groups_by_distances`, model `Hw.Attr.Grouping`)

"Grouping triggered at commit only inserts Groups consistent with C01."  The model is the integer algorithm the code runs when
`HWLOC_GROUPING_ACCURACY` is unset (accuracy 0.0f only); the distances engine predicts the inserted Groups with it on every run. -/
section grouping
open Hw.Grouping

/-- `hwloc__check_grouping_matrix` (accuracy 0) accepts exactly the matrices whose cells above the diagonal equal their mirror cell and
exceed the diagonal cell of their row (the diagonal of the last row is never looked at) -/
theorem C13_group_check_matrix_iff (M : Mat) (n : Nat) :
    checkMatrix M n = true ↔ ∀ i j, i < j → j < n → M i j = M j i ∧ M i i < M i j :=
  checkMatrix_iff M n

/-- nothing is grouped for at most two objects, for a kind without LATENCY / HOPS (bandwidth: the code has no max-distance variant),
or when the user's matrix fails the validity check -/
theorem C13_group_refused (kind f n : Nat) (M : Mat) (b : Bool)
    (h : n ≤ 2 ∨ kind &&& KIND_GROUPABLE = 0 ∨ (b = true ∧ checkMatrix M n = false)) : rounds kind f n M b = [] :=
  rounds_refused kind f n M b h

/-- the fuel of the `while (firstfound != -1)` rescan loop suffices: with `n + 1` passes the loop of the model always ends by itself
(every pass that sets `newfirstfound` groups at least one more of the `n` objects) -/
theorem C13_group_closure_fuel (M : Mat) (md gid n ff : Nat) (ids : Nat → Nat) (size : Nat) (hg : gid ≠ 0) :
    ∃ r, grow M md gid n (n + 1) ff ids size = some r :=
  grow_fuel M md gid n hg (n + 1) ff ids size (by omega)

/-- **group ids partition the objects**: whenever `hwloc__find_groups_by_min_distance` returns `nb ≠ 0` groups for an `n × n` matrix,
every object has one id in `0..nb` (0 = left alone), objects beyond `n` have none, and every id `1..nb` has at least two members -/
theorem C13_group_ids_partition (M : Mat) (n : Nat) (h : (findGroups M n).1 ≠ 0) :
    (∀ x, (findGroups M n).2 x ≤ (findGroups M n).1) ∧ (∀ x, n ≤ x → (findGroups M n).2 x = 0) ∧
    ∀ g, 1 ≤ g → g ≤ (findGroups M n).1 →
      ∃ a b, a ≠ b ∧ a < n ∧ b < n ∧ (findGroups M n).2 a = g ∧ (findGroups M n).2 b = g :=
  ⟨(findGroups_spec M n h).1, (findGroups_spec M n h).2.1, (findGroups_spec M n h).2.2.1⟩

/-- **same id ⇒ connected**: every class has a seed from which each member is reached through cells equal to the minimal distance -/
theorem C13_group_ids_connected (M : Mat) (n : Nat) (h : (findGroups M n).1 ≠ 0) (a b : Nat)
    (hab : (findGroups M n).2 a = (findGroups M n).2 b) (ha : (findGroups M n).2 a ≠ 0) :
    ∃ seed, Conn M (minDist M n) seed a ∧ Conn M (minDist M n) seed b := by
  obtain ⟨seed, _, hs⟩ := (findGroups_spec M n h).2.2.2.1 _ (Nat.pos_of_ne_zero ha) ((findGroups_spec M n h).1 a)
  exact ⟨seed, hs a rfl, hs b hab.symm⟩

/-- **closure characterisation**: when "the cell is minimal" is symmetric and transitive among the `n` objects (block-structured
matrices), two distinct objects get the same non-zero id IFF their cell is minimal, and an object gets no id IFF none of its cells is
minimal — the ids are exactly the classes of the minimal-distance relation, whatever the order in which the objects are listed.
(Without transitivity only `C13_group_ids_connected` holds: see `C13_group_closure_not_transitive_witness`.) -/
theorem C13_group_ids_closure (M : Mat) (n : Nat) (hnb : (findGroups M n).1 ≠ 0)
    (hsym : ∀ a b, a < n → b < n → M a b = minDist M n → M b a = minDist M n)
    (htr : ∀ a b c, a < n → b < n → c < n → a ≠ c → M a b = minDist M n → M b c = minDist M n → M a c = minDist M n) :
    (∀ a b, a < n → b < n → a ≠ b →
      (((findGroups M n).2 a = (findGroups M n).2 b ∧ (findGroups M n).2 a ≠ 0) ↔ M a b = minDist M n)) ∧
    (∀ a, a < n → ((findGroups M n).2 a = 0 ↔ ∀ b, b < n → b ≠ a → M a b ≠ minDist M n)) :=
  findGroups_clique M n hnb hsym htr

/-- the matrix between the groups (`GROUP_VALUE`) is the 2^64-wrapped double sum of the cells between the two groups divided by the
product of their sizes, and it is symmetric whenever the matrix is: the recursion may skip the symmetry check (`needcheck = 0`) -/
theorem C13_group_matrix_symmetric (M : Mat) (n : Nat) (ids : Nat → Nat) (hs : ∀ i j, i < n → j < n → M i j = M j i) (a b : Nat) :
    groupValue M n ids a b = groupValue M n ids b a ∧
    groupValue M n ids a b = (sumL (fun i => sumL (fun j => M i j) (members ids n (b+1))) (members ids n (a+1))) % Hw.Grouping.W64
        / ((members ids n (a+1)).length * (members ids n (b+1)).length) :=
  ⟨groupValue_symm M n ids hs a b, groupValue_eq M n ids a b⟩

/-- a round has at most `n / 2` groups, so the recursion on the matrix between the groups terminates: any fuel `≥ n` gives the same
list of rounds -/
theorem C13_group_rounds_fuel (kind f n : Nat) (M : Mat) (b : Bool) (hf : n ≤ f) : rounds kind f n M b = rounds kind n n M b :=
  rounds_fuel kind f n n M b hf (Nat.le_refl n)

/-- every round of the recursion is well-shaped: at most `n / 2` groups, each with at least two members, an object in one group at most -/
theorem C13_group_round_shape (kind f n : Nat) (M : Mat) (b : Bool) (r : Round) (hr : r ∈ rounds kind f n M b) :
    2 * r.nb ≤ r.n ∧ (∀ g, g < r.nb → 2 ≤ (r.members g).length) ∧
    ∀ g1 g2 i, i ∈ r.members g1 → i ∈ r.members g2 → g1 = g2 :=
  ⟨(rounds_good kind f n M b r hr).halves, fun _ hg => members_two (rounds_good kind f n M b r hr) hg,
   fun _ _ _ h1 h2 => members_disjoint h1 h2⟩

/-- the cpusets of the Groups of one round (unions of their members' cpusets) are pairwise disjoint when the objects' are -/
theorem C13_group_round_disjoint (sets : Nat → Nat) (r : Round) (g1 g2 : Nat) (hg : g1 ≠ g2)
    (h : ∀ i j, i < r.n → j < r.n → i ≠ j → Hw.Topo.Ins.dj (sets i) (sets j)) :
    Hw.Topo.Ins.dj (groupSet sets r g1) (groupSet sets r g2) :=
  groupSet_disjoint sets r g1 g2 hg h

/-- **consistent with C01**: inserting the Groups of a round (for ANY matrix and ANY objects whose cpusets lie inside the root, disjoint
or not) through the model of `hwloc___insert_object_by_cpuset` never loses an object and leaves a laminar tree with the same root
(instance of the C01 theorem on sequences of insertions) -/
theorem C13_group_round_insert_laminar (t : Hw.Topo.Ins.T) (hL : Hw.Topo.Ins.Lam t) (sets : Nat → Nat) (r : Round)
    (subkind base : Nat) (hs : ∀ i, i < r.n → Hw.Topo.Ins.sub (sets i) t.o.key) :
    ∃ t', Hw.Topo.Ins.insAll t (roundObjs sets r subkind base) = some t' ∧ Hw.Topo.Ins.Lam t' ∧ t'.o.key = t.o.key ∧
      ∀ g, Hw.Topo.Ins.cntT g t ≤ Hw.Topo.Ins.cntT g t' ∧
           Hw.Topo.Ins.cntT g t' ≤ Hw.Topo.Ins.cntT g t + ((roundObjs sets r subkind base).map (·.gp)).count g :=
  round_insert_laminar t hL sets r subkind base hs

/-- **the whole grouping of one commit is consistent with C01**: the model of everything `hwloc__groups_by_distances` does to the
tree (every Group of every round through `hwloc_topology_insert_group_object` incl. merges, refusals, the cut after a failed round and
the `add_children_sets` / reorder fix-up — `Hw.Grouping.walk`, the function the engine's prediction runs) maps a laminar tree to a
laminar tree with the same root set, for every list of rounds, every object sets and every environment -/
theorem C13_group_commit_laminar (e : GEnv) (rs : List Round) (sets : Nat → Nat) (sk base : Nat) (t : Hw.Topo.Ins.T)
    (h : Hw.Topo.Ins.Lam t) :
    Hw.Topo.Ins.Lam (walk e rs sets sk base t).1 ∧ (walk e rs sets sk base t).1.o.key = t.o.key ∧
    sk ≤ (walk e rs sets sk base t).2 ∧ (walk e rs sets sk base t).2 ≤ sk + rs.length :=
  ⟨(walk_lam e rs sets sk base t h).1, (walk_lam e rs sets sk base t h).2, walk_subkind_le e rs sets sk base t⟩

/-! non-vacuity: 4 objects in two pairs (cells 1 inside a pair, 2 across) -/
def pairs4 : Mat := fun i j => if i = j then 0 else if i / 2 = j / 2 then 1 else 2

example : (findGroups pairs4 4).1 = 2 ∧ (List.range 4).map (findGroups pairs4 4).2 = [1, 1, 2, 2] := by decide +kernel
example : checkMatrix pairs4 4 = true ∧ rounds 5 4 4 pairs4 true = [⟨4, 2, [1, 1, 2, 2]⟩] := by decide +kernel
/-- an asymmetric cell: refused -/
example : checkMatrix (fun i j => if i = j then 0 else if (i, j) = (0, 1) then 2 else 1) 3 = false ∧
    rounds 5 3 3 (fun i j => if i = j then 0 else if (i, j) = (0, 1) then 2 else 1) true = [] := by decide +kernel
/-- a bandwidth kind (8 | FROM_OS): refused whatever the matrix -/
example : rounds 9 4 4 pairs4 true = [] := by decide +kernel

/-- cells near 2^64 wrap in the sum between two groups: (2^64-1 + 2^64-1 + 3 + 3) mod 2^64 / 4 = 1 -/
example : groupValue (fun i j => if i = j then 0 else if i / 2 = j / 2 then 1 else if (i + j) % 2 = 1 then U64MAX else 3) 4
    (fun i => i / 2 + 1) 0 1 = 1 := by decide +kernel

/-- `pairs4` meets the hypotheses of `C13_group_ids_closure` -/
example : ((findGroups pairs4 4).2 0 = (findGroups pairs4 4).2 1 ∧ (findGroups pairs4 4).2 0 ≠ 0) ↔ pairs4 0 1 = minDist pairs4 4 := by
  have hs : ∀ a, a < 4 → ∀ b, b < 4 → pairs4 a b = minDist pairs4 4 → pairs4 b a = minDist pairs4 4 := by decide +kernel
  have ht : ∀ a b c : Fin 4, a.val ≠ c.val → pairs4 a b = minDist pairs4 4 → pairs4 b c = minDist pairs4 4 →
      pairs4 a c = minDist pairs4 4 := by decide +kernel
  exact (C13_group_ids_closure pairs4 4 (by decide +kernel) (fun a b ha hb => hs a ha b hb)
    (fun a b c ha hb hc => ht ⟨a, ha⟩ ⟨b, hb⟩ ⟨c, hc⟩)).1 0 1 (by omega) (by omega) (by omega)

/-- 8 objects, pairs inside quads: two nested rounds (4 Groups, then 2 Groups of Groups; the last level would be a single group) -/
example : (rounds 5 8 8 (fun i j => if i = j then 0 else if i / 2 = j / 2 then 1 else if i / 4 = j / 4 then 3 else 7) true).map (·.ids)
    = [[1, 1, 2, 2, 3, 3, 4, 4], [1, 1, 2, 2]] := by decide +kernel
/-- the Group sets of the first round over PUs `{i}` are the pairs, inside a root `0xff` -/
example : (List.range 2).map (groupSet (fun i => 1 <<< i) ⟨4, 2, [1, 1, 2, 2]⟩) = [0x3, 0xc] := by decide +kernel

/-- four PUs below a machine, the two Groups of the round above: both are inserted, each adopts its pair -/
example : (match Hw.Topo.Ins.insAll (.node { gp := 0, type := Hw.Topo.tMACHINE, key := 0xf }
        [.node { gp := 1, type := Hw.Topo.tPU, key := 1 } [], .node { gp := 2, type := Hw.Topo.tPU, key := 2 } [],
         .node { gp := 3, type := Hw.Topo.tPU, key := 4 } [], .node { gp := 4, type := Hw.Topo.tPU, key := 8 } []])
      (roundObjs (fun i => 1 <<< i) ⟨4, 2, [1, 1, 2, 2]⟩ 0 100) with | some t' => Hw.Topo.Ins.rows 0 t' | none => [])
    = [(0, 0, [], []), (100, 0, [900, 0, 0], []), (1, 100, [], []), (2, 100, [], []),
       (101, 0, [900, 0, 0], []), (3, 101, [], []), (4, 101, [], [])] := by decide +kernel

/-- the same through the walk of a whole commit: 8 PUs, pairs inside quads, two nested rounds (4 Groups of subkind 0, 2 of subkind 1) -/
example : (let M : Mat := fun i j => if i = j then 0 else if i / 2 = j / 2 then 1 else if i / 4 = j / 4 then 3 else 7
    let r := walk ⟨0, 0xff, 1, []⟩ (rounds 5 8 8 M true) (fun i => 1 <<< i) 0 100
      (.node { gp := 0, type := Hw.Topo.tMACHINE, key := 0xff }
        ((List.range 8).map (fun i => .node { gp := i + 1, type := Hw.Topo.tPU, key := 1 <<< i } [])))
    (((Hw.Topo.Ins.objsT r.1).filter (fun o => o.type == Hw.Topo.tGROUP)).map (fun o => (o.gp, o.key, o.subkind)), r.2))
    = ([(104, 0xf, 1), (100, 0x3, 0), (101, 0xc, 0), (105, 0xf0, 1), (102, 0x30, 0), (103, 0xc0, 0)], 2) := by decide +kernel

/-- The closure is NOT always transitive (candidate finding, outside the property): `newfirstfound` is the FIRST object found in a
pass, not the smallest one, so a member found later with a smaller index is never rescanned.  On the path 0–2–1–3 (all four cells
minimal) the code returns the single group {0,1,2} and leaves 3 alone although `M 1 3` is minimal — the true closure is one group of all
objects, which the give-up rule would drop.  The model follows the code (the harness confirms: a Group of three NUMA nodes is created). -/
def path4 : Mat := fun i j =>
  if i = j then 0 else if (i, j) ∈ [(0, 2), (2, 0), (2, 1), (1, 2), (1, 3), (3, 1)] then 1 else 2

theorem C13_group_closure_not_transitive_witness :
    checkMatrix path4 4 = true ∧ minDist path4 4 = 1 ∧ path4 1 3 = 1 ∧
    (findGroups path4 4).1 = 1 ∧ (List.range 4).map (findGroups path4 4).2 = [1, 1, 1, 0] := by decide +kernel

end grouping

/-! ## non-vacuity -/

example : kindOk 5 = true ∧ kindOk 3 = false ∧ kindOk 12 = false ∧ kindOk 64 = false := by decide

/-- a concrete restrict: 4 objects, the second disappears, the 3×3 sub-matrix is extracted in place -/
example : ofArr (compactVals 4 3 (fun i => i != 1) (toArr [0,1,2,3, 10,11,12,13, 20,21,22,23, 30,31,32,33] 0)) 9
    = [0,2,3, 20,22,23, 30,32,33] := by decide

example : rank (fun i => i != 1) 4 = 3 := by decide

/-- closure on `[gpu0, port, gpu1]`: gpu0→gpu1 gains min(5, 7) -/
example : (trClosure ⟨0, 10, 3, [some ⟨18, 1, 0, false⟩, some ⟨18, 2, 1, true⟩, some ⟨18, 3, 2, false⟩],
      [0, 5, 1,  9, 0, 7,  2, 4, 0]⟩).2.vals = [0, 5, 6,  9, 0, 7,  6, 4, 0] := by decide

/-- merge with a non-port listed between two ports (the former F12 input): `[a, port, b, port]` → `[a, port, b]` -/
example : (trMerge ⟨0, 10, 4, [some ⟨3, 4, 0, false⟩, some ⟨3, 7, 1, true⟩, some ⟨3, 12, 2, false⟩, some ⟨3, 15, 3, true⟩],
      [0, 1, 2, 3,  4, 0, 5, 6,  7, 8, 0, 9,  10, 11, 12, 0]⟩).2.vals = [0, 4, 2,  14, 0, 17,  7, 17, 0] := by decide

/-- the former F03 input `{NULL, x}` is rejected -/
example : addValues (freshHandle 0 (some "a") 5) 2 [none, some ⟨14, 16, 1, false⟩] [1, 2, 3, 4] 0 = .error .EINVAL := rfl

/-- merge with the ports listed last: `[gpu0, gpu1, port, port]` → `[gpu0, gpu1, port]` -/
example : (trMerge ⟨0, 10, 4,
      [some ⟨18, 1, 0, false⟩, some ⟨18, 2, 1, false⟩, some ⟨18, 3, 2, true⟩, some ⟨18, 4, 3, true⟩],
      [0, 1, 2, 3,  4, 0, 5, 6,  7, 8, 0, 9,  10, 11, 12, 0]⟩).2.vals = [0, 1, 5,  4, 0, 11,  17, 19, 0] := by decide

end Hw.Props.C13
