/-
  Property C08 — hwloc_topology_restrict removes exactly what the set excludes, or nothing.
  Theorems over the model Hw.Topo.Restrict (tied to hwloc/topology.c by the differential engine `restrict` and by the
  regenerated constants Hw.Gen.RestrictConsts).  `restrictT` is the tree recursion (restrict_object_by_cpuset/_by_nodeset),
  `restrictCore` adds the allowed sets, `restrict` is the whole call including level merging (keepStructure).
-/
import Hw.Topo.RestrictLemmas
import Hw.Topo.RenderLemmas
import Hw.Topo.RestrictTyping
import Hw.Topo.RestrictSide
import Hw.Topo.RestrictWF
import Hw.Topo.RestrictSurvive
import Hw.Topo.RestrictMerge
import Hw.Topo.RenderTop
import Hw.Topo.RenderCounts
import Hw.Topo.RenderCover
import Hw.Topo.RenderSets
import Hw.Topo.RenderPU
import Hw.Topo.RestrictExists
import Hw.Topo.RestrictAllowed
import Hw.Topo.RestrictUnique
import Hw.Topo.RestrictCover
import Hw.Topo.RestrictNoOrder
import Hw.Topo.HistoryLemmas
import Hw.Attr.MemAttrsState
namespace Hw.Props.C08
open Hw.Topo Hw.Topo.Restrict Hw.Gen.Restrict

/-- tie T: the five flags are distinct single bits, the type-order / priority tables have one entry per type (orders of the
    normal types pairwise distinct) and the enum values are the ones the model uses -/
theorem C08_consts :
    ([flagRemoveCpuless, flagAdaptMisc, flagAdaptIO, flagByNodeset, flagRemoveMemless].Pairwise (fun a b => a &&& b = 0) ∧
     [flagRemoveCpuless, flagAdaptMisc, flagAdaptIO, flagByNodeset, flagRemoveMemless].all (fun a => a != 0) = true) ∧
    (typeOrder.length = tMAX ∧ ((typeOrder.take (tGROUP + 1)).Nodup)) ∧ typePriority.length = tMAX :=
  ⟨consts_flags_distinct_bits, consts_order_table, consts_priority_table⟩

/-! ### failure leaves the topology untouched -/

/-- P0 restrict_einval_unchanged: every call that does not return success returns the input topology -/
theorem C08_einval_unchanged (t : Topo) (s : CSet) (flags : Nat) (h : (restrict t s flags).2 ≠ .ok) :
    (restrict t s flags).1 = t := restrict_unchanged_of_not_ok t s flags h

/-- … and EINVAL is returned in each of the documented situations: unknown flag bits, REMOVE_CPULESS with BYNODESET,
    REMOVE_MEMLESS without BYNODESET, a set that does not intersect the allowed cpuset (nodeset with BYNODESET) -/
theorem C08_einval_cases (t : Topo) (s : CSet) (flags : Nat)
    (h : Restrict.andnot flags allFlags ≠ 0 ∨
         (hasFlag flags flagByNodeset = true ∧ hasFlag flags flagRemoveCpuless = true) ∨
         (hasFlag flags flagByNodeset = false ∧ hasFlag flags flagRemoveMemless = true) ∨
         (hasFlag flags flagByNodeset = false ∧ meets t.allowedCpu s = false) ∨
         (hasFlag flags flagByNodeset = true ∧ meets t.allowedNode s = false)) :
    restrict t s flags = (t, .einval) := by
  have hp : plan t s flags = none := by
    rcases h with h | ⟨h1, h2⟩ | ⟨h1, h2⟩ | ⟨h1, h2⟩ | ⟨h1, h2⟩
    · exact plan_none_of_bad_flags t s flags h
    · exact plan_none_of_cpuless_bynodeset t s flags h1 h2
    · exact plan_none_of_memless_bycpuset t s flags h1 h2
    · exact plan_none_of_disjoint_cpuset t s flags h1 h2
    · exact plan_none_of_disjoint_nodeset t s flags h1 h2
  unfold restrict; rw [hp]

/-- the remaining EINVAL cases are exactly "REMOVE_CPULESS would drop every allowed NUMA node" and "REMOVE_MEMLESS would drop
    every allowed PU": a successful plan has the dropped sets of `plan_some` -/
theorem C08_plan (t : Topo) (s : CSet) (flags : Nat) (p : Params) (h : plan t s flags = some p) :
    p.byNode = hasFlag flags flagByNodeset ∧ p.adaptIO = hasFlag flags flagAdaptIO ∧ p.adaptMisc = hasFlag flags flagAdaptMisc ∧
    (p.byNode = false → p.dc = s.compl ∧ p.rmExempt = hasFlag flags flagRemoveCpuless ∧
        (p.rmExempt = false → p.dn = CSet.empty) ∧
        (p.rmExempt = true → p.dn = CSet.ofMask (droppedNodes t.tree s.compl) ∧ inside t.allowedNode p.dn = false)) ∧
    (p.byNode = true → p.dn = s.compl ∧ p.rmExempt = hasFlag flags flagRemoveMemless ∧
        (p.rmExempt = false → p.dc = CSet.empty) ∧
        (p.rmExempt = true → p.dc = CSet.ofMask (droppedPUs t.tree s.compl) ∧ inside t.allowedCpu p.dc = false)) :=
  plan_some t s flags p h

/-! ### sets -/

/-- P0 restrict_sets (root and allowed sets): after the tree recursion the root's four sets and the two allowed sets are the
    old ones minus the dropped resources; for the primary kind of set "minus dropped" is "intersected with S" -/
theorem C08_sets_root (t : Topo) (p : Params) (t' : Topo) (h : restrictCore t p = some t')
    (h1 : subset t.tree.obj.cpuset t.tree.obj.ccpuset = true) (h2 : subset t.tree.obj.nodeset t.tree.obj.cnodeset = true) :
    t'.tree.obj = shrinkU p t.tree.obj ∧ t'.allowedCpu = minus t.allowedCpu p.dc ∧ t'.allowedNode = minus t.allowedNode p.dn := by
  have := restrictCore_root t p t' h
  exact ⟨by rw [this.1, shrinkG_eq_shrinkU p _ h1 h2], this.2.1, this.2.2.1⟩

theorem C08_minus_compl_is_inter (x : Nat) (s : CSet) (i : Nat) :
    (minus x s.compl).testBit i = (x.testBit i && s.mem i) := testBit_minus_compl x s i

/-- per object: what the recursion does to an object is to clear (subsets of) its four sets and nothing else; when
    set ⊆ complete set (C01) it is exactly "every set minus the dropped resources" -/
theorem C08_sets_object (p : Params) (o : RObj) :
    ident (shrinkG p o) = ident o ∧
    subset (shrinkG p o).cpuset o.cpuset = true ∧ subset (shrinkG p o).ccpuset o.ccpuset = true ∧
    subset (shrinkG p o).nodeset o.nodeset = true ∧ subset (shrinkG p o).cnodeset o.cnodeset = true ∧
    (subset o.cpuset o.ccpuset = true → subset o.nodeset o.cnodeset = true → shrinkG p o = shrinkU p o) :=
  ⟨ident_shrinkG p o, (shrinkG_sets p o).1, (shrinkG_sets p o).2.1, (shrinkG_sets p o).2.2.1, (shrinkG_sets p o).2.2.2,
   shrinkG_eq_shrinkU p o⟩

/-- P0 restrict_sets (every survivor, exact): under SetsOK (`okT`: set ⊆ complete set, children's complete sets inside the
    parent's, no sets on I/O and Misc objects — implied by C01 well-formedness and evaluated by the driver on every BEFORE
    dump) every object after the tree recursion has all four sets free of dropped resources, and the multiset of objects is
    included in the multiset of "old object with every set minus the dropped resources" -/
theorem C08_sets_exact (t : Topo) (p : Params) (t' : Topo) (h : restrictCore t p = some t') (hok : okT t.tree = true)
    (a : RObj) :
    (∀ x ∈ objsT t'.tree, shrinkU p x = x) ∧ cnt id a (objsT t'.tree) ≤ cnt (shrinkU p) a (objsT t.tree) :=
  restrictCore_exact t p t' h hok a

/-! ### survivors -/

/-- P0 restrict_survivors (sub-multiset): for the identity of objects (`ident` = every field but the four sets: gp_index,
    type, os_index, attributes) the multiset of identities after the whole call, level merging included, is contained in the
    multiset before the call: no object is created, duplicated, re-typed or re-numbered -/
theorem C08_survivors (t : Topo) (s : CSet) (flags : Nat) (a : RObj) :
    cnt ident a (objsT (restrict t s flags).1.tree) ≤ cnt ident a (objsT t.tree) :=
  cnt_restrict ident a t s flags (fun p o => ident_shrinkG p o) (fun _ _ => rfl)

/-- … and, stronger, for the tree recursion alone: the multiset of "object with its sets minus the dropped resources" -/
theorem C08_survivors_sets (t : Topo) (p : Params) (t' : Topo) (h : restrictCore t p = some t') (a : RObj) :
    cnt (shrinkU p) a (objsT t'.tree) ≤ cnt (shrinkU p) a (objsT t.tree) :=
  cnt_restrictCore (shrinkU p) a t p t' h (fun o => shrinkU_shrinkG p o)

/-- P0 removal rule (local form, any object, any reordering function that permutes): the object disappears iff after the
    recursion below it no normal and no memory child is left, its cpuset (nodeset with BYNODESET) is empty, and it is not
    a NUMA node (PU) unless REMOVE_CPULESS (REMOVE_MEMLESS) was given.  For a PU under a by-cpuset restrict this reads:
    removed iff its cpuset minus the dropped set is empty; for a NUMA node: iff REMOVE_CPULESS and CPU-less afterwards. -/
theorem C08_removal_rule (p : Params) (o : RObj) (ns ms ios mis : List Tree) :
    (restrictT p (.node o ns ms ios mis)).kept = [] ↔
      ((if touched p o then restrictL p ns else idRes ns).kept = [] ∧ (if touched p o then restrictL p ms else idRes ms).kept = [] ∧
       emptyAfter p (shrinkG p o) = true ∧ removable p o.type = true) := by
  unfold restrictT restrictL
  rw [restrictTW_node]
  exact nodeRes_kept_nil_iff reorder_perm p o ios mis _ _ _

/-- P0 PU rule: under a restrict by cpuset to `S`, a PU object (a leaf whose cpuset and complete cpuset are {os_index}, C01)
    survives iff its os_index is in `S` -/
theorem C08_pu_rule (t : Topo) (s : CSet) (flags : Nat) (p : Params) (hp : plan t s flags = some p) (hb : p.byNode = false)
    (o : RObj) (hty : o.type = tPU) (hc : o.cpuset = osBit o) (hcc : o.ccpuset = osBit o) (ios mis : List Tree) :
    (restrictT p (.node o [] [] ios mis)).kept ≠ [] ↔ s.mem o.osidx.toNat = true :=
  pu_rule t s flags p hp hb o hty hc hcc ios mis

/-- P0 NUMA rule: under a restrict by cpuset a NUMA node disappears iff REMOVE_CPULESS was given and it is CPU-less
    afterwards -/
theorem C08_numa_rule (p : Params) (hb : p.byNode = false) (o : RObj) (hty : o.type = tNUMA) (ios mis : List Tree) :
    (restrictT p (.node o [] [] ios mis)).kept = [] ↔ (p.rmExempt = true ∧ (shrinkG p o).cpuset = 0) :=
  numa_rule p hb o hty ios mis

/-- the root always survives a planned restrict: `Ret.rootRemoved` (the NULL-parent dereference in the C code) is
    unreachable when the allowed sets are included in the root's sets (C01 clause allowed-sets) -/
theorem C08_root_kept (t : Topo) (s : CSet) (flags : Nat)
    (hac : subset t.allowedCpu t.tree.obj.cpuset = true) (han : subset t.allowedNode t.tree.obj.nodeset = true) :
    (restrict t s flags).2 ≠ .rootRemoved := by
  unfold restrict
  cases hp : plan t s flags with
  | none => simp
  | some p =>
    obtain ⟨t', ht'⟩ := restrictCore_isSome t s flags p hp hac han
    simp only [ht']
    simp

/-! ### well-formedness (set clauses) -/

/-- P0 restrict_wf (set clauses): SetsOK — set ⊆ complete set on every object, complete sets of normal and memory children
    inside their parent's, no sets on I/O and Misc objects — is preserved by the tree recursion, and the allowed sets stay
    equal to the root's sets when they were equal before (no INCLUDE_DISALLOWED).  (PU / NUMA singletons: a surviving PU
    (NUMA node) keeps its single bit by C08_pu_rule / C08_sets_exact; link and level clauses are judged by wfCheck on every
    AFTER dump.) -/
theorem C08_wf_sets (t : Topo) (p : Params) (t' : Topo) (h : restrictCore t p = some t') (hok : okT t.tree = true) :
    okT t'.tree = true ∧
    (t.allowedCpu = t.tree.obj.cpuset → t'.allowedCpu = t'.tree.obj.cpuset) ∧
    (t.allowedNode = t.tree.obj.nodeset → t'.allowedNode = t'.tree.obj.nodeset) := by
  have hr := restrictCore_root t p t' h
  have hk : t'.tree ∈ (restrictTW reorder p t.tree).kept := by
    have := hr.2.2.2.2; unfold restrictT at this; rw [this]; exact List.mem_singleton.2 rfl
  have := ((ok_restrictW reorder_perm p).1 t.tree hok).1 t'.tree hk
  refine ⟨this.1, ?_, ?_⟩
  · intro ha; rw [hr.2.1, this.2, ha]; rfl
  · intro ha; rw [hr.2.2.1, this.2, ha]; rfl

/-! ### Misc and I/O objects -/

/-- P0 restrict_specials (count conservation): objects in I/O (`sel = true`) resp. Misc (`sel = false`) children lists are
    never created; with ADAPT_IO resp. ADAPT_MISC none is lost: each multiplicity is exactly preserved by the recursion
    (kept in place, or handed upwards until a surviving ancestor appends them to its list) -/
theorem C08_specials (p : Params) (sel : Bool) (t : Tree) (x : RObj) :
    cnt id x (resSpec sel (restrictT p t)) ≤ cnt id x (specT sel t) ∧
    (adapt sel p = true → cnt id x (resSpec sel (restrictT p t)) = cnt id x (specT sel t)) :=
  (spec_restrictW x reorder_perm p sel).1 t

/-- … a surviving object keeps its own I/O and Misc children first and in order; a removed object hands over exactly its
    lists when the ADAPT flag is given and nothing otherwise -/
theorem C08_specials_local (p : Params) (o : RObj) (ns ms ios mis : List Tree) :
    (∀ k ∈ (restrictT p (.node o ns ms ios mis)).kept, ∃ a b, k.ios = ios ++ a ∧ k.mis = mis ++ b ∧ k.obj = shrinkG p o) ∧
    ((restrictT p (.node o ns ms ios mis)).kept = [] →
      ∃ a b, (restrictT p (.node o ns ms ios mis)).io = (if p.adaptIO then ios ++ a else []) ∧
             (restrictT p (.node o ns ms ios mis)).misc = (if p.adaptMisc then mis ++ b else [])) := by
  unfold restrictT
  rw [restrictTW_node]
  generalize (if touched p o = true then restrictLW reorder p ns else idRes ns) = rn
  generalize (if touched p o = true then restrictLW reorder p ms else idRes ms) = rm
  constructor
  · intro k hk
    have := (nodeRes_kept_specials _ _ _ _ _ _ _ _ k hk).1
    rw [this]
    exact ⟨rn.io ++ rm.io, rn.misc ++ rm.misc, by simp only [Tree.ios, List.append_assoc],
      by simp only [Tree.mis, List.append_assoc], rfl⟩
  · intro hk
    have := nodeRes_removed_specials _ _ _ _ _ _ _ _ hk
    exact ⟨rn.io ++ rm.io, rn.misc ++ rm.misc, by rw [this.1]; simp only [List.append_assoc],
      by rw [this.2]; simp only [List.append_assoc]⟩

def pu (gp os : Nat) : Tree := .node ⟨gp, tPU, os, 1 <<< os, 1 <<< os, 1, 1, true, 0, 0, 0⟩ [] [] [] []
def misc (gp : Nat) : Tree := .node ⟨gp, tMISC, -1, 0, 0, 0, 0, false, 0, 0, 0⟩ [] [] [] []

/-! ### level merging -/

/-- P2 (decision part of hwloc_filter_levels_keep_structure): a child level is dropped only if its type is filtered
    KEEP_STRUCTURE or it is a Die level directly below a Package level; a parent level only if its type is filtered
    KEEP_STRUCTURE -/
theorem C08_merge_decision (filters : List Nat) (up down : List RObj) (o1 o2 : RObj)
    (h1 : up.head? = some o1) (h2 : down.head? = some o2) :
    (mergeDecision filters up down = some true →
        filterOf filters o2.type = filterKeepStructure ∨ (o1.type = tPACKAGE ∧ o2.type = tDIE)) ∧
    (mergeDecision filters up down = some false → filterOf filters o1.type = filterKeepStructure) :=
  mergeDecision_sound filters up down o1 o2 h1 h2

/-- P2: merging an object with its single normal child removes exactly one of the two objects; every other object of the
    subtree (normal, memory, I/O, Misc) is kept (the memory children list parent's ++ child's is re-sorted by complete nodeset,
    hwloc__reorder_memory_children, fix 5313a43), unchanged except that a child replacing a parent that has memory children takes over the parent's
    complete sets (`noComplete` = the object without its complete sets) -/
theorem C08_merge_exact (a : RObj) (rc : Bool) (o co : RObj) (cns cms cios cmis ms ios mis : List Tree) :
    cnt noComplete a (objsT (mergeNode rc o [.node co cns cms cios cmis] ms ios mis)) + cnt1 noComplete a (if rc then co else o) =
      cnt noComplete a (objsT (.node o [.node co cns cms cios cmis] ms ios mis)) :=
  cnt_mergeNode_exact noComplete a (fun _ _ => rfl) rc o co cns cms cios cmis ms ios mis

/-- P0 restrict_wf (set clauses, whole call): SetsOK is preserved by level merging (hwloc fixes e57fd49 + 5bd7047: the child that
    replaces a parent with memory children takes over the parent's complete sets, so the parent's memory children stay inside their new
    parent's complete sets; the final hwloc__reorder_children_if_needed pass of fix 244c8a8 only permutes siblings) and
    therefore by the whole call -/
theorem C08_merge_preserves_setsok (filters : List Nat) (t : Tree) (h : okT t = true) : okT (keepStructure filters t) = true :=
  ok_keepStructure filters t h

theorem C08_wf_sets_whole (t : Topo) (s : CSet) (flags : Nat) (h : okT t.tree = true) :
    okT (restrict t s flags).1.tree = true := ok_restrict t s flags h

/-- P0 restrict_sets (whole call, exact): after a successful call, level merging included, every object has all four sets
    free of dropped resources, and the multiset of objects (complete sets left aside, because merging may or a dropped
    parent's complete sets into its child) is included in the multiset of "old object with cpuset and nodeset minus the
    dropped resources" -/
theorem C08_sets_exact_whole (t : Topo) (s : CSet) (flags : Nat) (p : Params) (hp : plan t s flags = some p)
    (hret : (restrict t s flags).2 = .ok) (hok : okT t.tree = true) (a : RObj) :
    (∀ x ∈ objsT (restrict t s flags).1.tree, shrinkU p x = x) ∧
    cnt noComplete a (objsT (restrict t s flags).1.tree) ≤ cnt (fun x => noComplete (shrinkU p x)) a (objsT t.tree) :=
  restrict_exact t s flags p hp hret hok a

/-- Package 0 {L2 {PU0}} with NUMA node 0 whose complete cpuset {0,1} covers the offline PU 1, and Package 1 {L2 {PU2}, L2 {PU3}} with NUMA node 1;
    Packages are filtered KEEP_STRUCTURE -/
def demoMerge : Topo :=
  let l2 (gp os ns : Nat) : Tree := .node ⟨gp, tL1 + 1, -1, 1 <<< os, 1 <<< os, ns, ns, true, 0, 0, 64⟩
    [.node ⟨gp + 1, tPU, os, 1 <<< os, 1 <<< os, ns, ns, true, 0, 0, 0⟩ [] [] [] []] [] [] []
  { tree := .node ⟨1, tMACHINE, 0, 13, 15, 3, 3, true, 0, 0, 0⟩
      [.node ⟨2, tPACKAGE, 0, 1, 3, 1, 1, true, 0, 0, 0⟩ [l2 3 0 1] [.node ⟨5, tNUMA, 0, 1, 3, 1, 1, true, 0, 0, 0⟩ [] [] [] []] [] [],
       .node ⟨6, tPACKAGE, 1, 12, 12, 2, 2, true, 0, 0, 0⟩ [l2 7 2 2, l2 9 3 2]
         [.node ⟨11, tNUMA, 1, 12, 12, 2, 2, true, 0, 0, 0⟩ [] [] [] []] [] []] [] [] [],
    allowedCpu := 13, allowedNode := 3, filters := (List.replicate 20 0).set tPACKAGE filterKeepStructure }

/-- the case behind hwloc fix e57fd49 (corpus/restrict/merge-complete-sets.ops in miniature): restricting demoMerge to NUMA
    node 0 with BYNODESET|REMOVE_MEMLESS removes Package 1; the Package and L2 levels then have the same structure, Package 0
    is replaced by its L2 cache, which takes over the Package's complete cpuset {0,1}; NUMA node 0 (complete cpuset {0,1}) is
    now a memory child of that L2 cache and SetsOK still holds -/
example : okT demoMerge.tree = true ∧ (restrict demoMerge ⟨1, false⟩ (flagByNodeset ||| flagRemoveMemless)).2 = .ok ∧
    (objsT (restrict demoMerge ⟨1, false⟩ (flagByNodeset ||| flagRemoveMemless)).1.tree).map (fun o => (o.gp, o.ccpuset))
      = [(1, 3), (3, 3), (4, 1), (5, 3)] ∧
    okT (restrict demoMerge ⟨1, false⟩ (flagByNodeset ||| flagRemoveMemless)).1.tree = true := by decide +kernel

/-! ### links and levels: what hwloc_connect_children computes, for every tree -/

/-- the link clauses of C01 well-formedness (lean/Hw/Topo/WF.lean) proved for `render t` for ALL typed trees `t`, all headers
    and all carried fields.  `render` (lean/Hw/Topo/Render.lean) is tied to hwloc_connect_children / hwloc_connect_levels /
    hwloc_connect_special_levels by the engine `restrict`: on every BEFORE and AFTER dump of every run the rendered dump must
    equal the real dump as a whole.
    Proved: id-is-position, root-or-parent, parent-kind, normal-child-slot, children-array, special-list-heads,
            special-list-links (here); no-children-where-forbidden (C08_render_no_children, needs PUs to be leaves); depth-by-type, depth-increases, in-its-level (incl. both cousin
            links), nobjs, levels-listed, level-entries-valid, levels-in-tree-order, normal-levels-nonempty, depth-le-objects,
            level0-is-root (for a Machine root) (C08_render_levels, which also needs the root to be a normal object).
    Proved further below (A8): children-counts (C08_render_children_counts), root-is-machine and numa-exists (C08_render_top),
    levels-cover-objects (C08_render_levels_cover), type-depth-inverse (C08_render_type_depth_inverse), machine-only-at-root
    (C08_restrict_wf_partial).
    NOT proved (still judged by the oracle wfCheck on every AFTER dump): the topology-level clauses
            normal-level-types, pu-level-deepest; and every clause about sets / memory / attributes that is not a link (sets-presence,
            cpuset-is-disjoint-union-of-children, memory-child-shares-cpuset, memcache-nodeset, nodeset-decomposition,
            pu-allowed, numa-allowed, total-memory, cache-attrs, group-depth, siblings-ordered, *-unique, allowed-sets,
            not-filtered-out, type-in-range). -/
theorem C08_render_links (t : Tree) (ht : typedT t = true) (h : Hdr) (ex : RObj → Extra) (o : Obj)
    (ho : o ∈ (render t h ex).objs) :
    objClause "id-is-position" (render t h ex) (mkAux (render t h ex)) o = true ∧
    objClause "root-or-parent" (render t h ex) (mkAux (render t h ex)) o = true ∧
    objClause "parent-kind" (render t h ex) (mkAux (render t h ex)) o = true ∧
    objClause "normal-child-slot" (render t h ex) (mkAux (render t h ex)) o = true ∧
    objClause "children-array" (render t h ex) (mkAux (render t h ex)) o = true ∧
    objClause "special-list-heads" (render t h ex) (mkAux (render t h ex)) o = true ∧
    objClause "special-list-links" (render t h ex) (mkAux (render t h ex)) o = true :=
  ⟨render_id_is_position t h ex o ho, render_root_or_parent t ht h ex o ho, render_parent_kind t ht h ex o ho,
   render_normal_child_slot t ht h ex o ho, render_children_array t ht h ex o ho, render_special_list_heads t ht h ex o ho,
   render_special_list_links t ht h ex o ho⟩

/-- no-children-where-forbidden additionally needs "PUs are leaves" (`puLeafT`): its NUMA / memory / I/O / Misc parts follow
    from the typing, its PU part from that -/
theorem C08_render_no_children (t : Tree) (ht : typedT t = true) (hpu : puLeafT t = true) (h : Hdr) (ex : RObj → Extra) (o : Obj)
    (ho : o ∈ (render t h ex).objs) :
    objClause "no-children-where-forbidden" (render t h ex) (mkAux (render t h ex)) o = true :=
  render_no_children_where_forbidden t ht hpu h ex o ho

/-- the level clauses proved for `render t` for ALL typed trees whose root is a normal object: every object has the depth of
    its kind (special depth, or the index of a normal level, strictly larger than its parent's), sits in the level of its depth at its logical index with the
    level's type and with prev/next cousin = its neighbours in that level (hwloc_connect_levels puts every normal object into
    exactly one level: `connectLevels_perm`), all levels 0..depth-1 and the six special levels are listed, every entry of
    every level is an object with that depth and that logical index, every level lists its objects in the DFS order of the
    tree, nobjs is the number of objects -/
theorem C08_render_levels (t : Tree) (ht : typedT t = true) (hr : isNormal t.obj.type = true) (h : Hdr) (ex : RObj → Extra) :
    (∀ o ∈ (render t h ex).objs,
      objClause "depth-by-type" (render t h ex) (mkAux (render t h ex)) o = true ∧
      objClause "depth-increases" (render t h ex) (mkAux (render t h ex)) o = true ∧
      objClause "in-its-level" (render t h ex) (mkAux (render t h ex)) o = true) ∧
    topClause "nobjs" (render t h ex) (mkAux (render t h ex)) = true ∧
    topClause "levels-listed" (render t h ex) (mkAux (render t h ex)) = true ∧
    topClause "level-entries-valid" (render t h ex) (mkAux (render t h ex)) = true ∧
    topClause "levels-in-tree-order" (render t h ex) (mkAux (render t h ex)) = true ∧
    topClause "normal-levels-nonempty" (render t h ex) (mkAux (render t h ex)) = true ∧
    topClause "depth-le-objects" (render t h ex) (mkAux (render t h ex)) = true ∧
    (t.obj.type = tMACHINE → topClause "level0-is-root" (render t h ex) (mkAux (render t h ex)) = true) :=
  ⟨fun o ho => ⟨render_depth_by_type t ht hr h ex o ho, render_depth_increases t ht hr h ex o ho,
     render_in_its_level t ht hr h ex o ho⟩,
   render_nobjs t h ex, render_levels_listed t h ex, render_level_entries_valid t ht hr h ex,
   render_levels_in_tree_order t h ex, render_normal_levels_nonempty t h ex, render_depth_le_objects t h ex,
   fun hm => render_level0_is_root t hm h ex⟩

/-- the topology after ANY restrict call, as a dump: the rendering of the model's tree with the new allowed sets -/
def afterDump (t : Topo) (flagsT : Nat) (s : CSet) (flags : Nat) (ex : RObj → Extra) : Dump :=
  render (restrict t s flags).1.tree
    ⟨flagsT, (restrict t s flags).1.filters, some (restrict t s flags).1.allowedCpu, some (restrict t s flags).1.allowedNode⟩ ex

/-- the typing and "the root is a normal object" are preserved by the whole restrict model: tree recursion, level merging
    (incl. the or-ing of complete sets and the re-sort of memory children) and the final re-sort of children lists -/
theorem C08_typing_preserved (t : Topo) (s : CSet) (flags : Nat) (h : typedT t.tree = true) (hr : isNormal t.tree.obj.type = true) :
    typedT (restrict t s flags).1.tree = true ∧ isNormal (restrict t s flags).1.tree.obj.type = true :=
  typed_restrict t s flags h hr

/-- C08_restrict_links: for every input topology whose tree is typed (a consequence of well-formedness; on every BEFORE dump
    the driver checks it together with `render (treeOf before) = before`), every set and every flag word, the topology after
    the call (= `afterDump`, checked equal to hwloc's AFTER dump on every call of every run) satisfies the link clauses of
    C08_render_links — no hypothesis on the result any more -/
theorem C08_restrict_links (t : Topo) (flagsT : Nat) (s : CSet) (flags : Nat) (ex : RObj → Extra)
    (ht : typedT t.tree = true) (hr : isNormal t.tree.obj.type = true) (o : Obj) (ho : o ∈ (afterDump t flagsT s flags ex).objs) :
    objClause "id-is-position" (afterDump t flagsT s flags ex) (mkAux (afterDump t flagsT s flags ex)) o = true ∧
    objClause "root-or-parent" (afterDump t flagsT s flags ex) (mkAux (afterDump t flagsT s flags ex)) o = true ∧
    objClause "parent-kind" (afterDump t flagsT s flags ex) (mkAux (afterDump t flagsT s flags ex)) o = true ∧
    objClause "normal-child-slot" (afterDump t flagsT s flags ex) (mkAux (afterDump t flagsT s flags ex)) o = true ∧
    objClause "children-array" (afterDump t flagsT s flags ex) (mkAux (afterDump t flagsT s flags ex)) o = true ∧
    objClause "special-list-heads" (afterDump t flagsT s flags ex) (mkAux (afterDump t flagsT s flags ex)) o = true ∧
    objClause "special-list-links" (afterDump t flagsT s flags ex) (mkAux (afterDump t flagsT s flags ex)) o = true :=
  C08_render_links _ (typed_restrict t s flags ht hr).1 _ ex o ho

/-- … the PU part of no-children-where-forbidden needs "PUs are leaves" on the RESULT: level merging keeps it only because
    hwloc_compare_levels_structure refuses to merge a level with memory children into the PU level, a level-wide guard whose
    node-wise consequence is proved in Hw.Topo.RestrictMerge (A8): see C08_restrict_wf_partial for the statement without this
    hypothesis (the driver still evaluates puLeafT on every AFTER tree) -/
theorem C08_restrict_no_children (t : Topo) (flagsT : Nat) (s : CSet) (flags : Nat) (ex : RObj → Extra)
    (ht : typedT t.tree = true) (hr : isNormal t.tree.obj.type = true) (hpu : puLeafT (restrict t s flags).1.tree = true)
    (o : Obj) (ho : o ∈ (afterDump t flagsT s flags ex).objs) :
    objClause "no-children-where-forbidden" (afterDump t flagsT s flags ex) (mkAux (afterDump t flagsT s flags ex)) o = true :=
  C08_render_no_children _ (typed_restrict t s flags ht hr).1 hpu _ ex o ho

/-- … and the level clauses of C08_render_levels, again from the typing of the BEFORE tree alone -/
theorem C08_restrict_levels (t : Topo) (flagsT : Nat) (s : CSet) (flags : Nat) (ex : RObj → Extra)
    (ht : typedT t.tree = true) (hr : isNormal t.tree.obj.type = true) :
    (∀ o ∈ (afterDump t flagsT s flags ex).objs,
      objClause "depth-by-type" (afterDump t flagsT s flags ex) (mkAux (afterDump t flagsT s flags ex)) o = true ∧
      objClause "depth-increases" (afterDump t flagsT s flags ex) (mkAux (afterDump t flagsT s flags ex)) o = true ∧
      objClause "in-its-level" (afterDump t flagsT s flags ex) (mkAux (afterDump t flagsT s flags ex)) o = true) ∧
    topClause "nobjs" (afterDump t flagsT s flags ex) (mkAux (afterDump t flagsT s flags ex)) = true ∧
    topClause "levels-listed" (afterDump t flagsT s flags ex) (mkAux (afterDump t flagsT s flags ex)) = true ∧
    topClause "level-entries-valid" (afterDump t flagsT s flags ex) (mkAux (afterDump t flagsT s flags ex)) = true ∧
    topClause "levels-in-tree-order" (afterDump t flagsT s flags ex) (mkAux (afterDump t flagsT s flags ex)) = true ∧
    topClause "normal-levels-nonempty" (afterDump t flagsT s flags ex) (mkAux (afterDump t flagsT s flags ex)) = true ∧
    topClause "depth-le-objects" (afterDump t flagsT s flags ex) (mkAux (afterDump t flagsT s flags ex)) = true ∧
    ((restrict t s flags).1.tree.obj.type = tMACHINE → topClause "level0-is-root" (afterDump t flagsT s flags ex) (mkAux (afterDump t flagsT s flags ex)) = true) :=
  C08_render_levels _ (typed_restrict t s flags ht hr).1 (typed_restrict t s flags ht hr).2 _ ex

/-! ### histories -/

/-- P0 restrict_repeat: along ANY list of restrict calls (successful or not, any sets, any flags, level merging included) the
    multiset of object identities only shrinks, and SetsOK is preserved -/
theorem C08_repeat (t : Topo) (calls : List (CSet × Nat)) (a : RObj) :
    cnt ident a (objsT (runCalls t calls).tree) ≤ cnt ident a (objsT t.tree) ∧
    (okT t.tree = true → okT (runCalls t calls).tree = true) :=
  ⟨cnt_runCalls ident a (fun p o => ident_shrinkG p o) (fun _ _ => rfl) calls t, ok_runCalls calls t⟩

/-- … hence the exact statement about sets (C08_sets_exact_whole) holds for every successful call at the end of any history
    that started from a SetsOK (well-formed) topology -/
theorem C08_repeat_exact (t : Topo) (calls : List (CSet × Nat)) (hok : okT t.tree = true)
    (s : CSet) (flags : Nat) (p : Params) (hp : plan (runCalls t calls) s flags = some p)
    (hret : (restrict (runCalls t calls) s flags).2 = .ok) (a : RObj) :
    (∀ x ∈ objsT (restrict (runCalls t calls) s flags).1.tree, shrinkU p x = x) ∧
    cnt noComplete a (objsT (restrict (runCalls t calls) s flags).1.tree) ≤
      cnt (fun x => noComplete (shrinkU p x)) a (objsT (runCalls t calls).tree) :=
  restrict_exact _ s flags p hp hret (ok_runCalls calls t hok) a


/-! ### the side structures (distances, CPU kinds, memory attributes) under restrict

The post-restrict fixups of hwloc_topology_restrict() are the C13 / C15 / C14 models composed in Hw.Topo.RestrictSide
(`Side.restrict`: invalidate / cpukinds restrict / need_refresh; `Side.observe`: the lazy refresh done by the next public query).
The engine `restrict` runs exactly these two functions between the observations it compares. -/

section Side
open Hw.Topo.RestrictSide Hw.Dist

/-- distances after a successful restrict, as the next query sees them: every structure is the old one re-resolved against the
    surviving objects — dropped iff fewer than 2 of its objects survive, otherwise same id, name, kind, exactly the surviving
    objects in their old order (all of them objects of the new topology) and exactly the sub-matrix of the surviving pairs -/
theorem C08_side_distances (s : Side) (T' : List Hw.Dist.Obj) (root' mask : Nat) (hm : mask.testBit 0 = true) :
    ((s.restrict T' root').observe mask).dists = s.dists.filterMap (fun d => refreshOne T' { d with valid := false }) ∧
    (∀ d : Hw.Dist.Dist, refreshOne T' { d with valid := false } = none ↔
       rank (liveOf (resolveAll T' { d with valid := false })) d.n < 2) ∧
    (∀ d d' : Hw.Dist.Dist, refreshOne T' { d with valid := false } = some d' →
       let live := liveOf (resolveAll T' { d with valid := false })
       d'.id = d.id ∧ d'.name = d.name ∧ d'.kind = d.kind ∧ d'.n = rank live d.n ∧ 2 ≤ d'.n ∧
       (∀ i, i < d.n → live i = true → d'.objs.getD (rank live i) none = (resolveAll T' { d with valid := false }).getD i none) ∧
       (∀ i j, i < d.n → j < d.n → live i = true → live j = true →
          d'.vals.getD (rank live i * d'.n + rank live j) 0 = d.vals.getD (i * d.n + j) 0) ∧
       (∀ x, x ∈ d'.objs → ∃ o, x = some o ∧ o ∈ T')) := by
  refine ⟨restrict_observe_dists s T' root' mask hm, fun d => refreshOne_none_iff T' _ rfl, ?_⟩
  intro d d' h
  have := refreshOne_some_spec T' { d with valid := false } d' rfl h
  exact ⟨this.1, this.2.1, this.2.2.1, this.2.2.2.2.2.2.1, this.2.2.2.2.2.2.2.1,
         fun i hi li => (this.2.2.2.2.2.2.2.2.2.1 i hi li).1, this.2.2.2.2.2.2.2.2.2.2.1, this.2.2.2.2.2.2.2.2.2.2.2⟩

/-- the in-place compaction keeps the per-object type array of a heterogeneous structure aligned with the index and object arrays,
    for every removal pattern (this is what a later restrict + refresh relies on to find the survivors again) -/
theorem C08_side_distances_types_aligned (T : Hw.Dist.Topo) (d d' : Hw.Dist.Dist) (hv : d.valid = false) (hh : d.hetero = true)
    (h : refreshOne T d = some d') (i : Nat) (hi : i < d.n) (li : liveOf (resolveAll T d) i = true) :
    d'.tys.getD (rank (liveOf (resolveAll T d)) i) (-1) = d.tys.getD i (-1) ∧
    d'.idx.getD (rank (liveOf (resolveAll T d)) i) 0 = d.idx.getD i 0 ∧
    d'.objs.getD (rank (liveOf (resolveAll T d)) i) none = (resolveAll T d).getD i none :=
  refresh_types_aligned T d d' hv hh h i hi li

/-- repeated application: a restrict that no query follows is invisible once a later restrict succeeded (stale caches are
    re-resolved against the final topology only) -/
theorem C08_side_distances_repeat (s : Side) (T1 T2 : List Hw.Dist.Obj) (r1 r2 mask : Nat) :
    (((s.restrict T1 r1).restrict T2 r2).observe mask).dists = ((s.restrict T2 r2).observe mask).dists := by
  simp only [Side.observe, restrict_restrict_dists]
  rfl

/-- CPU kinds: the C15 restrict with the new root cpuset; when no kind is emptied they are the old kinds, in order, each
    intersected with the new root cpuset, efficiencies untouched -/
theorem C08_side_cpukinds (s : Side) (T' : List Hw.Dist.Obj) (root' : Nat) :
    (s.restrict T' root').kinds = (Hw.CpuKinds.restrictKinds .dflt { kinds := s.kinds, root := s.root } root').kinds ∧
    ((∀ k ∈ s.kinds, k.cpuset &&& root' ≠ 0) →
      (s.restrict T' root').kinds = s.kinds.map (fun k => { k with cpuset := k.cpuset &&& root' })) :=
  ⟨rfl, restrict_kinds_none_emptied s T' root'⟩

/-- memory attributes after a restrict, as the next query sees them: targets = the surviving images of the stored ones in order;
    a target disappears iff its object vanished or (with initiators) no initiator is left; a cpuset initiator is clipped to the new
    root cpuset and disappears iff that is empty, an object initiator iff the object vanished; values are kept -/
theorem C08_side_memattrs (e : Hw.MemAttrs.Env) (a : Hw.MemAttrs.Attr) (hv : a.valid = false) :
    (Hw.MemAttrs.ensureValid e a).targets = a.targets.filterMap (Hw.MemAttrs.refreshTarget e a.needInit) ∧
    (∀ t, Hw.MemAttrs.refreshTarget e a.needInit t = none ↔
       e.hasObj t.type t.gp = false ∨ (a.needInit = true ∧ ∀ i ∈ t.inits, Hw.MemAttrs.refreshInit e i = none)) ∧
    (∀ t t', Hw.MemAttrs.refreshTarget e a.needInit t = some t' →
       t'.type = t.type ∧ t'.gp = t.gp ∧ t'.os = t.os ∧ t'.noinit = t.noinit) ∧
    (∀ i i', Hw.MemAttrs.refreshInit e i = some i' → i'.value = i.value) :=
  ⟨(refresh_attr_targets e a hv).1, fun t => Hw.MemAttrs.refreshTarget_none_iff e a.needInit t,
   fun _ _ h => Hw.MemAttrs.refreshTarget_key h, fun _ _ h => Hw.MemAttrs.refreshInit_value h⟩

/-- non-vacuity: [Core gp2, Core gp3, Package gp5, PU os6] (the seeded case); the first restrict removes Core gp2, the second one
    nothing more: after both, observed or not in between, the structure is the 3×3 sub-matrix over the three survivors -/
def demoDist : Hw.Dist.Dist :=
  { id := 0, name := some "hetero", kind := 26, uniq := -1, hetero := true, n := 4, idx := [2, 3, 5, 9], tys := [3, 3, 1, 4],
    objs := [], valid := true, vals := [11, 12, 13, 14, 21, 22, 23, 24, 31, 32, 33, 34, 41, 42, 43, 44] }
def demoT : Hw.Dist.Topo := [⟨3, 3, 1, false⟩, ⟨1, 5, 1, false⟩, ⟨4, 9, 6, false⟩]

example :
    ((((({ dists := [demoDist] } : Side).restrict demoT 0xfc).observe 1).restrict demoT 0xfc).observe 1).dists.map
      (fun d => (d.n, d.idx, d.tys, d.vals)) = [(3, [3, 5, 9], [3, 1, 4], [22, 23, 24, 32, 33, 34, 42, 43, 44])] := by
  decide +kernel

end Side

/-! ### A8: the hypotheses of the theorems above follow from well-formedness alone, and are preserved -/

/-- (1) **the whole restrict model preserves the tree invariants the other theorems assume**: SetsOK (`okT`), the kind
    discipline (`typedT`) and "the root is a normal object" — BYCPUSET and BYNODESET, every flag word, the tree recursion with
    the re-attachment of Misc / I-O children, level merging (keep_structure) and the final re-sort.  Also along any history. -/
theorem C08_restrict_preserves_typing (t : Topo) (s : CSet) (flags : Nat)
    (hok : okT t.tree = true) (ht : typedT t.tree = true) (hr : isNormal t.tree.obj.type = true) :
    okT (restrict t s flags).1.tree = true ∧ typedT (restrict t s flags).1.tree = true ∧
    isNormal (restrict t s flags).1.tree.obj.type = true :=
  ⟨ok_restrict t s flags hok, (typed_restrict t s flags ht hr).1, (typed_restrict t s flags ht hr).2⟩

theorem C08_repeat_preserves_typing (t : Topo) (calls : List (CSet × Nat))
    (hok : okT t.tree = true) (ht : typedT t.tree = true) (hr : isNormal t.tree.obj.type = true) :
    okT (runCalls t calls).tree = true ∧ typedT (runCalls t calls).tree = true ∧ isNormal (runCalls t calls).tree.obj.type = true := by
  induction calls generalizing t with
  | nil => exact ⟨hok, ht, hr⟩
  | cons c cs ih =>
    unfold runCalls
    rw [List.foldl_cons]
    have := C08_restrict_preserves_typing t c.1 c.2 hok ht hr
    exact ih _ this.1 this.2.1 this.2.2

/-- (2) **WF implies the hypotheses**: for EVERY well-formed dump the tree the engine rebuilds from it (`treeOf`, the input of
    the model on every call) satisfies SetsOK and the typing, and its root is the Machine object.  (`treeOf` fails only on a
    dump whose objects are not listed parents-first, which is reported as MODEL-INPUT-ERROR.) -/
theorem C08_wf_implies_okT (d : Dump) (h : WF d) (t : Tree) (ht : treeOf d = .ok t) :
    okT t = true ∧ typedT t = true ∧ t.obj.type = tMACHINE ∧ isNormal t.obj.type = true ∧ puLeafT t = true ∧
    puSetsT t = true ∧ numaSetsT t = true :=
  wf_treeOf_full h t ht

/-- (2) … the rebuilt tree lists every object of the dump exactly once, so gp_index is distinct over the tree and, when the PU
    and Machine types are not filtered KEEP_STRUCTURE (hwloc_topology_set_type_filter refuses that), the topology is `mergeSafe`:
    EVERY hypothesis of the theorems of this file follows from `WF d` and these two filter facts -/
theorem C08_wf_mergeSafe (d : Dump) (h : WF d) (t : Tree) (ht : treeOf d = .ok t) (ac an : Nat)
    (hf1 : filterOf d.filters tPU ≠ filterKeepStructure) (hf2 : filterOf d.filters tMACHINE ≠ filterKeepStructure) :
    (objsT t).Perm (d.objs.map robjOf) ∧ machineOnce t ∧
    mergeSafe { tree := t, allowedCpu := ac, allowedNode := an, filters := d.filters } :=
  ⟨treeOf_perm h t ht, treeOf_machineOnce h t ht, treeOf_gp_nodup h t ht, hf1, by rw [(wf_treeOf h t ht).2.2.1]; exact hf2⟩

/-- … hence the set, link and level theorems above (C08_sets_exact_whole, C08_restrict_links, C08_restrict_levels, C08_repeat_exact)
    apply to every history of calls that starts from a well-formed topology, with no hypothesis besides `WF d` -/
theorem C08_wf_restrict_typing (d : Dump) (h : WF d) (t : Tree) (ht : treeOf d = .ok t) (ac an : Nat) (calls : List (CSet × Nat)) :
    let T := runCalls { tree := t, allowedCpu := ac, allowedNode := an, filters := d.filters } calls
    okT T.tree = true ∧ typedT T.tree = true ∧ isNormal T.tree.obj.type = true := by
  have := wf_treeOf h t ht
  exact C08_repeat_preserves_typing _ calls this.1 this.2.1 this.2.2.2

/-! ### A8: PU / NUMA survivors, exactly (hypotheses: consequences of WF, see C08_wf_implies_okT) -/

/-- (3) **PUs after a successful restrict by cpuset S** (tree recursion, i.e. up to level merging): every PU of the result still
    has cpuset = complete cpuset = {os_index} with os_index ∈ S, and for every PU identity `a` (gp_index, type, os_index,
    attributes) the result holds exactly the previous PUs of that identity if `a.os_index ∈ S` and none otherwise: the PUs are
    EXACTLY the previous PUs whose os_index is in S.  (Through level merging the statement is evaluated by the driver on the real
    AFTER dump of every call; see C08_merge_keeps_pus for the proved part.) -/
theorem C08_pus_exact (t : Topo) (s : CSet) (flags : Nat) (p : Params) (hp : plan t s flags = some p) (hb : p.byNode = false)
    (t' : Topo) (hc : restrictCore t p = some t') (hok : okT t.tree = true) (hty : typedT t.tree = true)
    (hleaf : puLeafT t.tree = true) (hsets : puSetsT t.tree = true) :
    (∀ x ∈ objsT t'.tree, x.type = tPU → x.cpuset = osBit x ∧ x.ccpuset = osBit x ∧ s.mem x.osidx.toNat = true) ∧
    (∀ a : RObj, a.type = tPU → cnt ident (ident a) (objsT t'.tree) =
        if s.mem a.osidx.toNat = true then cnt ident (ident a) (objsT t.tree) else 0) :=
  pus_exact_core t s flags p hp hb t' hc hok hty hleaf hsets

/-- (3) **level merging never removes, duplicates or changes a non-normal object** (NUMA node, memory-side cache, I/O, Misc):
    the non-normal objects of `keepStructure filters t` are exactly those of `t`, complete sets included, for every typed tree
    and every filter table -/
theorem C08_merge_keeps_nonnormal (filters : List Nat) (t : Tree) (h : typedT t = true) (hr : isNormal t.obj.type = true)
    (x : RObj) (hx : isNormal x.type = false) :
    (x ∈ objsT (keepStructure filters t) ↔ x ∈ objsT t) ∧
    cnt ident (ident x) (objsT (keepStructure filters t)) = cnt ident (ident x) (objsT t) :=
  ⟨keepStructure_nonnormal_mem filters t h hr x hx, cntEq_ident_keepStructure filters t h hr x hx⟩

/-- (3) **NUMA nodes under a restrict by cpuset, whole call** (level merging included): a NUMA node disappears ONLY IF
    REMOVE_CPULESS is given and it is CPU-less afterwards — every NUMA node for which that does not hold (`protNUMA`) is a NUMA
    node of the result -/
theorem C08_numa_survive (t : Topo) (s : CSet) (flags : Nat) (p : Params) (hp : plan t s flags = some p) (hb : p.byNode = false)
    (hret : (restrict t s flags).2 = .ok) (hty : typedT t.tree = true) (hr : isNormal t.tree.obj.type = true)
    (a : RObj) (ha : a.type = tNUMA) :
    cnt ident (ident a) ((objsT t.tree).filter (fun o => o.type == tNUMA && !(p.rmExempt && (shrinkG p o).cpuset == 0))) ≤
      cnt ident (ident a) (objsT (restrict t s flags).1.tree) :=
  numa_survive_whole t s flags p hp hb hret hty hr a ha

/-- (3) **the BYNODESET mirror, whole call** (level merging included): after a successful restrict by nodeset S the NUMA nodes are
    EXACTLY the previous NUMA nodes whose os_index is in S, each still with nodeset = complete nodeset = {os_index} -/
theorem C08_numas_exact_bynodeset (t : Topo) (s : CSet) (flags : Nat) (p : Params) (hp : plan t s flags = some p)
    (hb : p.byNode = true) (hret : (restrict t s flags).2 = .ok) (hok : okT t.tree = true) (hty : typedT t.tree = true)
    (hr : isNormal t.tree.obj.type = true) (hsets : numaSetsT t.tree = true) :
    (∀ x ∈ objsT (restrict t s flags).1.tree, x.type = tNUMA →
        x.nodeset = osBit x ∧ x.cnodeset = osBit x ∧ s.mem x.osidx.toNat = true) ∧
    (∀ a : RObj, a.type = tNUMA → cnt ident (ident a) (objsT (restrict t s flags).1.tree) =
        if s.mem a.osidx.toNat = true then cnt ident (ident a) (objsT t.tree) else 0) :=
  numas_exact_whole t s flags p hp hb hret hok hty hr hsets

/-- (3) … and a PU disappears from the tree recursion of a restrict by nodeset only if REMOVE_MEMLESS is given and its nodeset is
    empty afterwards -/
theorem C08_pu_survive_bynodeset (t : Topo) (p : Params) (hb : p.byNode = true) (t' : Topo) (hc : restrictCore t p = some t')
    (hty : typedT t.tree = true) (a : RObj) :
    cnt ident (ident a) ((objsT t.tree).filter (fun o => o.type == tPU && !(p.rmExempt && (shrinkG p o).nodeset == 0))) ≤
      cnt ident (ident a) (objsT t'.tree) :=
  pu_survive_core t p hb t' hc hty a

/-! ### A8: level merging and the PUs, the PU leaves, the root (through the level-wide guards of the C code) -/

/-- (3) **hwloc_filter_levels_keep_structure never removes a PU, keeps PUs leaves, never replaces the root and keeps gp_index
    distinct**: for every typed tree with distinct gp_index, under every filter table that does not put KEEP_STRUCTURE on the PU
    type and on the root's type (hwloc_topology_set_type_filter refuses anything but KEEP_ALL for PU, NUMA node and Machine).
    Proved through the level loop: hwloc_compare_levels_structure's pairing (same parent/child, arity 1, no memory children above
    the PU level) is turned into a node-wise guard for every merged node (`pair_of_same`, using that levels are homogeneous and
    gp_index is injective), and the merge decision only drops KEEP_STRUCTURE types or a Die level below Packages. -/
theorem C08_merge_keeps_pus (filters : List Nat) (hPU : filterOf filters tPU ≠ filterKeepStructure) (t : Tree)
    (hRoot : filterOf filters t.obj.type ≠ filterKeepStructure) (hn : ((objsT t).map (·.gp)).Nodup) (ht : typedT t = true)
    (hr : isNormal t.obj.type = true) (hl : puLeafT t = true) :
    puLeafT (keepStructure filters t) = true ∧ (keepStructure filters t).obj = t.obj ∧
    ((objsT (keepStructure filters t)).map (·.gp)).Nodup ∧
    (∀ x : RObj, x.type = tPU → (x ∈ objsT (keepStructure filters t) ↔ x ∈ objsT t)) :=
  ⟨(keepStructure_pu filters hPU t hRoot hn ht hr hl).1, (keepStructure_pu filters hPU t hRoot hn ht hr hl).2.1,
   (keepStructure_pu filters hPU t hRoot hn ht hr hl).2.2.1, fun x hx => keepStructure_pu_mem filters hPU t hRoot hn ht hr hl x hx⟩

/-- (3) **PUs after a successful restrict by cpuset S, WHOLE call (level merging included)**: every PU of the result still has
    cpuset = complete cpuset = {os_index} with os_index ∈ S, and the PUs of the result are EXACTLY the previous PUs whose os_index is
    in S.  Hypotheses: consequences of WF (C08_wf_implies_okT) and `mergeSafe` (distinct gp_index = C01 gp-index-unique, no
    KEEP_STRUCTURE on PU / root type; evaluated by the driver on every WF BEFORE dump, preserved by every call: C08_restrict_leaf_root) -/
theorem C08_pus_exact_whole (t : Topo) (s : CSet) (flags : Nat) (p : Params) (hp : plan t s flags = some p) (hb : p.byNode = false)
    (hret : (restrict t s flags).2 = .ok) (hok : okT t.tree = true) (hty : typedT t.tree = true)
    (hr : isNormal t.tree.obj.type = true) (hleaf : puLeafT t.tree = true) (hsets : puSetsT t.tree = true) (hs : mergeSafe t) :
    (∀ x ∈ objsT (restrict t s flags).1.tree, x.type = tPU → x.cpuset = osBit x ∧ x.ccpuset = osBit x ∧ s.mem x.osidx.toNat = true) ∧
    (∀ a : RObj, a.type = tPU → cnt ident (ident a) (objsT (restrict t s flags).1.tree) =
        if s.mem a.osidx.toNat = true then cnt ident (ident a) (objsT t.tree) else 0) :=
  pus_exact_whole t s flags p hp hb hret hok hty hr hleaf hsets hs

/-- (3) … and the BYNODESET mirror for PUs, whole call: a PU disappears only if REMOVE_MEMLESS is given and its nodeset is empty
    afterwards -/
theorem C08_pu_survive_bynodeset_whole (t : Topo) (s : CSet) (flags : Nat) (p : Params) (hp : plan t s flags = some p)
    (hb : p.byNode = true) (hret : (restrict t s flags).2 = .ok) (hty : typedT t.tree = true) (hr : isNormal t.tree.obj.type = true)
    (hleaf : puLeafT t.tree = true) (hs : mergeSafe t) (a : RObj) (ha : a.type = tPU) :
    cnt ident (ident a) ((objsT t.tree).filter (fun o => o.type == tPU && !(p.rmExempt && (shrinkG p o).nodeset == 0))) ≤
      cnt ident (ident a) (objsT (restrict t s flags).1.tree) :=
  pu_survive_whole t s flags p hp hb hret hty hr hleaf hs a ha

/-- (1)+(4) **the whole call keeps "PUs are leaves", the identity of the root object and `mergeSafe`** — so they hold along any
    history (C08_repeat_leaf_root) -/
theorem C08_restrict_leaf_root (t : Topo) (s : CSet) (flags : Nat) (hty : typedT t.tree = true) (hr : isNormal t.tree.obj.type = true)
    (hl : puLeafT t.tree = true) (hs : mergeSafe t) :
    puLeafT (restrict t s flags).1.tree = true ∧ ident (restrict t s flags).1.tree.obj = ident t.tree.obj ∧
    mergeSafe (restrict t s flags).1 :=
  restrict_leaf_root t s flags hty hr hl hs

theorem C08_repeat_leaf_root (t : Topo) (calls : List (CSet × Nat)) (hty : typedT t.tree = true) (hr : isNormal t.tree.obj.type = true)
    (hl : puLeafT t.tree = true) (hs : mergeSafe t) :
    typedT (runCalls t calls).tree = true ∧ isNormal (runCalls t calls).tree.obj.type = true ∧
    puLeafT (runCalls t calls).tree = true ∧ (runCalls t calls).tree.obj.type = t.tree.obj.type ∧ mergeSafe (runCalls t calls) := by
  induction calls generalizing t with
  | nil => exact ⟨hty, hr, hl, rfl, hs⟩
  | cons c cs ih =>
    unfold runCalls
    rw [List.foldl_cons]
    have h1 := typed_restrict t c.1 c.2 hty hr
    have h2 := restrict_leaf_root t c.1 c.2 hty hr hl hs
    have := ih _ h1.1 h1.2 h2.1 h2.2.2
    refine ⟨this.1, this.2.1, this.2.2.1, ?_, this.2.2.2.2⟩
    have e : (restrict t c.1 c.2).1.tree.obj.type = t.tree.obj.type := by
      have := congrArg RObj.type h2.2.1; exact this
    exact this.2.2.2.1.trans e

/-! ### A8: more WF clauses of the result -/

/-- (4) root-is-machine and numa-exists for the rendering of ANY tree with a Machine root resp. containing a NUMA node -/
theorem C08_render_top (t : Tree) (h : Hdr) (ex : RObj → Extra) :
    (t.obj.type = tMACHINE → topClause "root-is-machine" (render t h ex) (mkAux (render t h ex)) = true) ∧
    ((∃ x ∈ objsT t, x.type = tNUMA) → topClause "numa-exists" (render t h ex) (mkAux (render t h ex)) = true) :=
  ⟨fun hm => render_root_is_machine t hm h ex, fun hn => render_numa_exists t hn h ex⟩

/-- (4) **children-counts** for the rendering of ANY typed tree: for every object the number of objects of each kind (normal,
    memory, I/O, Misc) whose parent it is — the four counters that `mkAux` folds over the object list — equals its arity,
    memory_arity, io_arity, misc_arity -/
theorem C08_render_children_counts (t : Tree) (ht : typedT t = true) (h : Hdr) (ex : RObj → Extra) (o : Obj)
    (ho : o ∈ (render t h ex).objs) :
    objClause "children-counts" (render t h ex) (mkAux (render t h ex)) o = true :=
  render_children_counts t ht h ex o ho

/-- (4) **levels-cover-objects** for the rendering of ANY typed tree with a normal root: the normal levels (a partition of the
    normal-reachable = normal-typed objects) and the six special levels (one per non-normal type) together list as many entries as
    there are objects -/
theorem C08_render_levels_cover (t : Tree) (ht : typedT t = true) (hr : isNormal t.obj.type = true) (h : Hdr) (ex : RObj → Extra) :
    topClause "levels-cover-objects" (render t h ex) (mkAux (render t h ex)) = true :=
  render_levels_cover t ht hr h ex

/-- (4) **type-depth-inverse** for the rendering of ANY tree: the type → depth table is the inverse of the level list -/
theorem C08_render_type_depth_inverse (t : Tree) (h : Hdr) (ex : RObj → Extra) :
    topClause "type-depth-inverse" (render t h ex) (mkAux (render t h ex)) = true :=
  render_type_depth_inverse t h ex

/-- (4) the set clauses **sets-presence** (from `setsPresT`: an object carries sets iff it is neither I/O nor Misc) and
    **set-in-complete** (from SetsOK) for the rendering of ANY such tree; `setsPresT` holds for the tree of every WF dump and is
    preserved by the whole restrict model -/
theorem C08_render_sets (t : Tree) (h : Hdr) (ex : RObj → Extra) (o : Obj) (ho : o ∈ (render t h ex).objs) :
    (setsPresT t = true → objClause "sets-presence" (render t h ex) (mkAux (render t h ex)) o = true) ∧
    (okT t = true → objClause "set-in-complete" (render t h ex) (mkAux (render t h ex)) o = true) :=
  ⟨fun hs => render_sets_presence t hs h ex o ho, fun hok => render_set_in_complete t hok h ex o ho⟩

theorem C08_setsPres (d : Dump) (h : WF d) (t : Tree) (ht : treeOf d = .ok t) (T : Topo) (s : CSet) (flags : Nat) :
    setsPresT t = true ∧ (setsPresT T.tree = true → setsPresT (restrict T s flags).1.tree = true) :=
  ⟨treeOf_setsPres h t ht, setsPres_restrict T s flags⟩

/-- (4) **C08_restrict_wf_partial**: for an input whose tree is typed, has PUs as leaves, a Machine root and is `mergeSafe` (all
    consequences of WF and of the API fact about filters: C08_wf_implies_okT, C08_wf_mergeSafe), the topology
    after ANY restrict call — with NO hypothesis on the result — satisfies, besides the 7 link clauses of C08_restrict_links and
    the 9 level clauses of C08_restrict_levels: no-children-where-forbidden and children-counts (every object), root-is-machine,
    level0-is-root and machine-only-at-root (`machineOnce`: at most one Machine object, C08_wf_mergeSafe).
    Named _partial because the full `WF (afterDump …)` is not reached: still judged by wfCheck on the real AFTER dump are
    normal-level-types, pu-level-deepest,
    numa-exists (reduced to the survival of one NUMA node: C08_restrict_numa_exists) and the set / memory / attribute clauses
    other than the proved set statements (SetsOK, PU / NUMA singletons, exactness). -/
theorem C08_restrict_wf_partial (t : Topo) (flagsT : Nat) (s : CSet) (flags : Nat) (ex : RObj → Extra)
    (ht : typedT t.tree = true) (hm : t.tree.obj.type = tMACHINE) (hl : puLeafT t.tree = true) (hs : mergeSafe t)
    (h1m : machineOnce t.tree) :
    (∀ o ∈ (afterDump t flagsT s flags ex).objs,
      objClause "no-children-where-forbidden" (afterDump t flagsT s flags ex) (mkAux (afterDump t flagsT s flags ex)) o = true ∧
      objClause "children-counts" (afterDump t flagsT s flags ex) (mkAux (afterDump t flagsT s flags ex)) o = true) ∧
    topClause "root-is-machine" (afterDump t flagsT s flags ex) (mkAux (afterDump t flagsT s flags ex)) = true ∧
    topClause "level0-is-root" (afterDump t flagsT s flags ex) (mkAux (afterDump t flagsT s flags ex)) = true ∧
    topClause "machine-only-at-root" (afterDump t flagsT s flags ex) (mkAux (afterDump t flagsT s flags ex)) = true := by
  have hr : isNormal t.tree.obj.type = true := by rw [hm]; decide
  have h1 := typed_restrict t s flags ht hr
  have h2 := restrict_leaf_root t s flags ht hr hl hs
  have hm' : (restrict t s flags).1.tree.obj.type = tMACHINE := by
    have := congrArg RObj.type h2.2.1; exact this.trans hm
  exact ⟨fun o ho => ⟨C08_render_no_children _ h1.1 h2.1 _ ex o ho, render_children_counts _ h1.1 _ ex o ho⟩,
    render_root_is_machine _ hm' _ ex,
    render_level0_is_root _ hm' _ ex, render_machine_only_at_root _ hm' (machineOnce_restrict t s flags h1m) _ ex⟩

/-- (4) numa-exists after a successful restrict, reduced to one protected NUMA node of the input: by cpuset a NUMA node that is
    not (REMOVE_CPULESS and CPU-less afterwards) — without REMOVE_CPULESS: any NUMA node —, by nodeset a NUMA node whose os_index
    is in S (such a node exists because the call was not refused; that step needs the nodeset-decomposition clauses and is not proved) -/
theorem C08_restrict_numa_exists (t : Topo) (flagsT : Nat) (s : CSet) (flags : Nat) (ex : RObj → Extra) (p : Params)
    (hp : plan t s flags = some p) (hret : (restrict t s flags).2 = .ok) (hok : okT t.tree = true) (hty : typedT t.tree = true)
    (hr : isNormal t.tree.obj.type = true) (hsets : numaSetsT t.tree = true)
    (hex : ∃ x ∈ objsT t.tree, x.type = tNUMA ∧
      (if p.byNode = true then s.mem x.osidx.toNat = true else (p.rmExempt && (shrinkG p x).cpuset == 0) = false)) :
    topClause "numa-exists" (afterDump t flagsT s flags ex) (mkAux (afterDump t flagsT s flags ex)) = true := by
  apply render_numa_exists
  obtain ⟨x, hx, hxt, hcond⟩ := hex
  have hfind : 0 < cnt ident (ident x) (objsT (restrict t s flags).1.tree) := by
    cases hb : p.byNode with
    | true =>
      rw [hb] at hcond
      simp only [if_true] at hcond
      rw [(numas_exact_whole t s flags p hp hb hret hok hty hr hsets).2 x hxt, if_pos hcond]
      exact (cnt_pos_iff ident (ident x) _).2 ⟨x, hx, rfl⟩
    | false =>
      rw [hb] at hcond
      simp only [Bool.false_eq_true, if_false] at hcond
      refine Nat.lt_of_lt_of_le ?_ (numa_survive_whole t s flags p hp hb hret hty hr x hxt)
      refine (cnt_pos_iff ident (ident x) _).2 ⟨x, ?_, rfl⟩
      rw [List.mem_filter]
      refine ⟨hx, ?_⟩
      unfold protNUMA
      rw [hxt, hcond]
      rfl
  obtain ⟨y, hy, e⟩ := (cnt_pos_iff ident (ident x) _).1 hfind
  exact ⟨y, hy, by have := congrArg RObj.type e; exact this.trans hxt⟩

/-! ### A8: everything from `WF d` alone -/

/-- the 14 object-level and 11 topology-level WF clauses that are PROVED for the topology after any restrict call -/
def provedObjClauses : List String :=
  ["id-is-position", "root-or-parent", "parent-kind", "normal-child-slot", "children-array", "special-list-heads",
   "special-list-links", "no-children-where-forbidden", "children-counts", "depth-by-type", "depth-increases", "in-its-level",
   "sets-presence", "set-in-complete"]
def provedTopClauses : List String :=
  ["nobjs", "levels-listed", "level-entries-valid", "levels-in-tree-order", "normal-levels-nonempty", "depth-le-objects",
   "level0-is-root", "root-is-machine", "machine-only-at-root", "levels-cover-objects", "type-depth-inverse"]

/-- **C08_restrict_from_wf_partial** — the summary statement, with NO hypothesis besides `WF d` (plus: the engine could rebuild a
    tree, and the API fact that PU / Machine are not filtered KEEP_STRUCTURE).  For every set and every flag word, with `T` the
    topology of the dump and `R` the model's result:
    (a) `R` satisfies again every tree hypothesis (SetsOK, typing, PUs are leaves, Machine root, mergeSafe, one Machine), so the
        statement applies to the next call too;
    (b) the rendered result satisfies 14 object-level and 11 topology-level clauses of `WF` (`provedObjClauses`, `provedTopClauses`);
    (c) after a successful call by cpuset the PUs are exactly the previous PUs with os_index ∈ S, each still a singleton, and a
        NUMA node disappears only under REMOVE_CPULESS when CPU-less afterwards; by nodeset the mirror statements — all through
        level merging.
    `_partial`: the full `WF (afterDump …)` is not reached, see C08_restrict_wf_partial for the list of unproved clauses. -/
theorem C08_restrict_from_wf_partial (d : Dump) (h : WF d) (t : Tree) (ht : treeOf d = .ok t)
    (hf1 : filterOf d.filters tPU ≠ filterKeepStructure) (hf2 : filterOf d.filters tMACHINE ≠ filterKeepStructure)
    (s : CSet) (flags : Nat) (ex : RObj → Extra) :
    let T : Topo := { tree := t, allowedCpu := d.allowedCpuset.getD 0, allowedNode := d.allowedNodeset.getD 0, filters := d.filters }
    let R := (restrict T s flags).1
    let D := afterDump T d.flags s flags ex
    (okT R.tree = true ∧ typedT R.tree = true ∧ puLeafT R.tree = true ∧ R.tree.obj.type = tMACHINE ∧ mergeSafe R ∧ machineOnce R.tree) ∧
    (∀ c ∈ provedObjClauses, ∀ o ∈ D.objs, objClause c D (mkAux D) o = true) ∧
    (∀ c ∈ provedTopClauses, topClause c D (mkAux D) = true) ∧
    (∀ p, plan T s flags = some p → (restrict T s flags).2 = .ok →
      (p.byNode = false →
        (∀ x ∈ objsT R.tree, x.type = tPU → x.cpuset = osBit x ∧ x.ccpuset = osBit x ∧ s.mem x.osidx.toNat = true) ∧
        (∀ a : RObj, a.type = tPU → cnt ident (ident a) (objsT R.tree) =
            if s.mem a.osidx.toNat = true then cnt ident (ident a) (objsT t) else 0) ∧
        (∀ a : RObj, a.type = tNUMA →
            cnt ident (ident a) ((objsT t).filter (fun o => o.type == tNUMA && !(p.rmExempt && (shrinkG p o).cpuset == 0))) ≤
              cnt ident (ident a) (objsT R.tree))) ∧
      (p.byNode = true →
        (∀ x ∈ objsT R.tree, x.type = tNUMA → x.nodeset = osBit x ∧ x.cnodeset = osBit x ∧ s.mem x.osidx.toNat = true) ∧
        (∀ a : RObj, a.type = tNUMA → cnt ident (ident a) (objsT R.tree) =
            if s.mem a.osidx.toNat = true then cnt ident (ident a) (objsT t) else 0) ∧
        (∀ a : RObj, a.type = tPU →
            cnt ident (ident a) ((objsT t).filter (fun o => o.type == tPU && !(p.rmExempt && (shrinkG p o).nodeset == 0))) ≤
              cnt ident (ident a) (objsT R.tree)))) := by
  intro T R D
  obtain ⟨hok, hty, hm, hr, hleaf, hpus, hnumas⟩ := wf_treeOf_full h t ht
  obtain ⟨_, h1m, hsafe⟩ := C08_wf_mergeSafe d h t ht (d.allowedCpuset.getD 0) (d.allowedNodeset.getD 0) hf1 hf2
  have a1 := C08_restrict_preserves_typing T s flags hok hty hr
  have a2 := restrict_leaf_root T s flags hty hr hleaf hsafe
  have hm' : R.tree.obj.type = tMACHINE := by
    have := congrArg RObj.type a2.2.1; exact this.trans hm
  have links := fun o ho => C08_restrict_links T d.flags s flags ex hty hr o ho
  have levels := C08_restrict_levels T d.flags s flags ex hty hr
  have part := C08_restrict_wf_partial T d.flags s flags ex hty hm hleaf hsafe h1m
  refine ⟨⟨a1.1, a1.2.1, a2.1, hm', a2.2.2, machineOnce_restrict T s flags h1m⟩, ?_, ?_, ?_⟩
  · intro c hc o ho
    simp only [provedObjClauses, List.mem_cons, List.mem_nil_iff, or_false] at hc
    rcases hc with rfl | rfl | rfl | rfl | rfl | rfl | rfl | rfl | rfl | rfl | rfl | rfl | rfl | rfl
    · exact (links o ho).1
    · exact (links o ho).2.1
    · exact (links o ho).2.2.1
    · exact (links o ho).2.2.2.1
    · exact (links o ho).2.2.2.2.1
    · exact (links o ho).2.2.2.2.2.1
    · exact (links o ho).2.2.2.2.2.2
    · exact (part.1 o ho).1
    · exact (part.1 o ho).2
    · exact (levels.1 o ho).1
    · exact (levels.1 o ho).2.1
    · exact (levels.1 o ho).2.2
    · exact render_sets_presence _ (setsPres_restrict T s flags (treeOf_setsPres h t ht)) _ ex o ho
    · exact render_set_in_complete _ a1.1 _ ex o ho
  · intro c hc
    simp only [provedTopClauses, List.mem_cons, List.mem_nil_iff, or_false] at hc
    rcases hc with rfl | rfl | rfl | rfl | rfl | rfl | rfl | rfl | rfl | rfl | rfl
    · exact levels.2.1
    · exact levels.2.2.1
    · exact levels.2.2.2.1
    · exact levels.2.2.2.2.1
    · exact levels.2.2.2.2.2.1
    · exact levels.2.2.2.2.2.2.1
    · exact part.2.2.1
    · exact part.2.1
    · exact part.2.2.2
    · exact render_levels_cover _ a1.2.1 a1.2.2 _ ex
    · exact render_type_depth_inverse _ _ ex
  · intro p hp hret
    constructor
    · intro hb
      have e := pus_exact_whole T s flags p hp hb hret hok hty hr hleaf hpus hsafe
      exact ⟨e.1, e.2, fun a ha => numa_survive_whole T s flags p hp hb hret hty hr a ha⟩
    · intro hb
      have e := numas_exact_whole T s flags p hp hb hret hok hty hr hnumas
      exact ⟨e.1, e.2, fun a ha => pu_survive_whole T s flags p hp hb hret hty hr hleaf hsafe a ha⟩

/-! ### non-vacuity and the reorder-without-removal case -/

/-- Machine [Core{PU2} (complete {0,2}), Core{PU1} (complete {1,3})] + one NUMA node; PUs 0 and 3 are offline -/
def demo : Topo :=
  { tree := .node ⟨1, tMACHINE, 0, 6, 15, 1, 1, true, 0, 0, 0⟩
      [.node ⟨2, tCORE, 0, 4, 5, 1, 1, true, 0, 0, 0⟩ [pu 3 2] [] [] [misc 9],
       .node ⟨4, tCORE, 1, 2, 10, 1, 1, true, 0, 0, 0⟩ [pu 5 1] [] [] []]
      [.node ⟨6, tNUMA, 0, 6, 15, 1, 1, true, 0, 0, 0⟩ [] [] [] []] [] [],
    allowedCpu := 6, allowedNode := 1, filters := List.replicate 20 0 }

/-- non-vacuity: restricting the demo topology to PU 1 with ADAPT_MISC succeeds, removes Core 0 with its PU, and the Misc
    object of the removed core is now a child of the Machine -/
example : (restrict demo ⟨2, false⟩ flagAdaptMisc).2 = .ok ∧
    (objsT (restrict demo ⟨2, false⟩ flagAdaptMisc).1.tree).map (·.gp) = [1, 4, 5, 6, 9] := by decide +kernel
example : okT demo.tree = true := by decide +kernel
example : restrict demo ⟨8, false⟩ 0 = (demo, .einval) := C08_einval_cases demo _ 0 (by decide +kernel)

/-- **why restrict must reconnect even when nothing is removed** (defect found by the engine `restrict`, fixed in /repo by
    5facd58): there is a well-formed input on which a successful restrict removes no object although hwloc__reorder_children
    changes the order of a children list (here: S = the root cpuset, only offline PUs leave the complete cpusets, the two cores
    swap).  The unfixed hwloc set topology->modified only when an object was removed, so hwloc__reconnect() did not rebuild
    children[] / sibling_rank / prev_sibling / last_child and hwloc_topology_check() aborted. -/
theorem C08_reorder_without_removal_reachable :
    ∃ (t : Topo) (p : Params), okT t.tree = true ∧ plan t ⟨6, false⟩ 0 = some p ∧
      (objsL (restrictT p t.tree).kept).length = (objsT t.tree).length ∧
      (objsL (restrictT p t.tree).kept).map (·.gp) ≠ (objsL (restrictTW id p t.tree).kept).map (·.gp) :=
  ⟨demo, ⟨⟨6, true⟩, CSet.empty, false, false, false, false⟩, by decide +kernel⟩

/-- non-vacuity of C08_wf_implies_okT / C08_wf_restrict_typing: the rendering of `demo` (with the local memory of the NUMA node as
    carried field) is a well-formed dump and `treeOf` rebuilds a tree from it -/
def demoDump : Dump := render demo.tree ⟨0, List.replicate 20 0, some 6, some 1⟩ (fun _ => {})
example : WF demoDump := by decide +kernel
example : filterOf demoDump.filters tPU ≠ filterKeepStructure ∧ filterOf demoDump.filters tMACHINE ≠ filterKeepStructure := by decide +kernel
example : (match treeOf demoDump with | .ok t => (objsT t).map (·.gp) == [1, 2, 3, 9, 4, 5, 6] | .error _ => false) = true := by
  decide +kernel
example : okT demo.tree = true ∧ typedT demo.tree = true ∧ isNormal demo.tree.obj.type = true := by decide +kernel

/-- non-vacuity of C08_pus_exact / C08_numa_survive (demo, restrict to PU 1) and of C08_numas_exact_bynodeset (demoMerge, NUMA 0) -/
example : plan demo ⟨2, false⟩ flagAdaptMisc = some ⟨⟨2, true⟩, CSet.empty, false, false, false, true⟩ ∧
    (restrictCore demo ⟨⟨2, true⟩, CSet.empty, false, false, false, true⟩).isSome = true ∧
    okT demo.tree = true ∧ typedT demo.tree = true ∧ puLeafT demo.tree = true ∧ puSetsT demo.tree = true ∧
    ((objsT (restrict demo ⟨2, false⟩ flagAdaptMisc).1.tree).filter (fun o => o.type == tPU)).map (·.osidx) = [1] := by decide +kernel
example : (plan demoMerge ⟨1, false⟩ (flagByNodeset ||| flagRemoveMemless)).isSome = true ∧
    okT demoMerge.tree = true ∧ typedT demoMerge.tree = true ∧ isNormal demoMerge.tree.obj.type = true ∧
    numaSetsT demoMerge.tree = true ∧
    ((objsT (restrict demoMerge ⟨1, false⟩ (flagByNodeset ||| flagRemoveMemless)).1.tree).filter (fun o => o.type == tNUMA)).map (·.osidx) = [0] := by
  decide +kernel

/-- non-vacuity of the `mergeSafe` theorems: demo and demoMerge are mergeSafe; on demoMerge the call merges the Package level away
    (C08_merge_keeps_pus at work: PU 0 survives under the L2 cache that replaced Package 0) -/
example : mergeSafe demo ∧ mergeSafe demoMerge ∧ machineOnce demoMerge.tree ∧ puLeafT demoMerge.tree = true ∧ demoMerge.tree.obj.type = tMACHINE := by decide +kernel
example : ((objsT (restrict demoMerge ⟨1, false⟩ (flagByNodeset ||| flagRemoveMemless)).1.tree).filter (fun o => o.type == tPU)).map (·.osidx) = [0] ∧
    (objsT (restrict demoMerge ⟨1, false⟩ (flagByNodeset ||| flagRemoveMemless)).1.tree).length + 7 = (objsT demoMerge.tree).length := by
  decide +kernel

/-- non-vacuity of C08_restrict_from_wf_partial: all its hypotheses hold for `demoDump` (WF and the filter facts: above) -/
example : ∃ t, treeOf demoDump = .ok t := by
  have h : (match treeOf demoDump with | .ok _ => true | .error _ => false) = true := by decide +kernel
  cases hh : treeOf demoDump with
  | ok t => exact ⟨t, rfl⟩
  | error e => rw [hh] at h; cases h

/-! ### B2: the PU level is the last level; a PU and a NUMA node remain -/

/-- (1) **the PU level is the last level**: for every typed tree with PUs as leaves, the invariant hwloc_connect_levels relies on
    holds (`puNsT`: along normal children types are in range and PUs have no normal children), and a level of PU type can only be
    the last level that hwloc_connect_levels builds — PUs wait in the frontier until nothing else is left (`top0` is the first
    non-PU object and the find_same_type fold only moves to objects with normal children) and have no children to continue with -/
theorem C08_render_pu_level_last (t : Tree) (ht : typedT t = true) (hl : puLeafT t = true) :
    puNsT t = true ∧ puLevelLast t = true ∧
    ∀ (k : Nat) (hk : k < (normalLevels t).length), ((normalLevels t)[k]).1 = tPU → k + 1 = (normalLevels t).length :=
  ⟨puNs_of_typed.1 t ht hl, puLevelLast_of_typed t ht hl, fun k hk => normalLevels_pu_last t ht hl k hk⟩

/-- (1) hence **normal-level-types** (every normal level has a normal type, the PU type only at the last depth, the Machine type
    only at depth 0; every special level sits at the depth of its type) for the rendering of every typed tree with PUs as leaves,
    a Machine root and no second Machine, and **pu-level-deepest** (the last level is a non-empty PU level and every PU is in it)
    when the tree contains a PU -/
theorem C08_render_pu_level (t : Tree) (ht : typedT t = true) (hl : puLeafT t = true) (h : Hdr) (ex : RObj → Extra) :
    (t.obj.type = tMACHINE → machineOnce t → topClause "normal-level-types" (render t h ex) (mkAux (render t h ex)) = true) ∧
    (isNormal t.obj.type = true → (∃ x ∈ objsT t, x.type = tPU) →
      topClause "pu-level-deepest" (render t h ex) (mkAux (render t h ex)) = true) :=
  ⟨fun hm h1 => render_normal_level_types t ht hl hm h1 h ex, fun hr hpu => render_pu_level_deepest t ht hl hr hpu h ex⟩

/-- (1) after ANY restrict call on an input that meets the tree hypotheses (all consequences of WF): normal-level-types, and
    pu-level-deepest as soon as the result contains a PU -/
theorem C08_restrict_pu_level (t : Topo) (flagsT : Nat) (s : CSet) (flags : Nat) (ex : RObj → Extra)
    (ht : typedT t.tree = true) (hm : t.tree.obj.type = tMACHINE) (hl : puLeafT t.tree = true) (hs : mergeSafe t)
    (h1m : machineOnce t.tree) :
    topClause "normal-level-types" (afterDump t flagsT s flags ex) (mkAux (afterDump t flagsT s flags ex)) = true ∧
    ((∃ x ∈ objsT (restrict t s flags).1.tree, x.type = tPU) →
      topClause "pu-level-deepest" (afterDump t flagsT s flags ex) (mkAux (afterDump t flagsT s flags ex)) = true) := by
  have hr : isNormal t.tree.obj.type = true := by rw [hm]; decide
  have h1 := typed_restrict t s flags ht hr
  have h2 := restrict_leaf_root t s flags ht hr hl hs
  have hm' : (restrict t s flags).1.tree.obj.type = tMACHINE := by
    have := congrArg RObj.type h2.2.1; exact this.trans hm
  exact ⟨render_normal_level_types _ h1.1 h2.1 hm' (machineOnce_restrict t s flags h1m) _ ex,
    fun hpu => render_pu_level_deepest _ h1.1 h2.1 h1.2 hpu _ ex⟩

/-- (2) **a PU and a NUMA node remain** after a successful call, through level merging, as soon as the input has one protected PU
    and one protected NUMA node: for the call's own kind an object whose os_index is in S, for the other kind an object that is
    not (REMOVE_CPULESS / REMOVE_MEMLESS and CPU-less / memory-less afterwards) -/
theorem C08_restrict_keeps_pu_and_numa (t : Topo) (s : CSet) (flags : Nat) (p : Params) (hp : plan t s flags = some p)
    (hret : (restrict t s flags).2 = .ok) (hok : okT t.tree = true) (hty : typedT t.tree = true)
    (hr : isNormal t.tree.obj.type = true) (hleaf : puLeafT t.tree = true) (hpus : puSetsT t.tree = true)
    (hnumas : numaSetsT t.tree = true) (hs : mergeSafe t) :
    ((∃ x ∈ objsT t.tree, x.type = tPU ∧ (if p.byNode = true then protPUn p x = true else s.mem x.osidx.toNat = true)) →
      ∃ y ∈ objsT (restrict t s flags).1.tree, y.type = tPU) ∧
    ((∃ x ∈ objsT t.tree, x.type = tNUMA ∧ (if p.byNode = true then s.mem x.osidx.toNat = true else protNUMA p x = true)) →
      ∃ y ∈ objsT (restrict t s flags).1.tree, y.type = tNUMA) :=
  ⟨restrict_pu_exists t s flags p hp hret hok hty hr hleaf hpus hs, restrict_numa_exists_tree t s flags p hp hret hok hty hr hnumas⟩

/-- (2) **where the protected objects come from**: hwloc_topology_restrict refuses (EINVAL) a set that does not meet the allowed
    cpuset (nodeset with BYNODESET), so a planned call has an index of the allowed set in S; when the allowed set is covered by the
    objects of that kind (`coverT`: C01 clauses allowed-sets + cpuset-is-disjoint-union-of-children + pu-cpuset resp.
    nodeset-decomposition + numa-nodeset; evaluated on every well-formed BEFORE dump, not derived from WF here) that index is the
    os_index of a PU (NUMA node): the protected object of the call's own kind.  For the other kind every object is protected
    when the flag word has no REMOVE_CPULESS / REMOVE_MEMLESS. -/
theorem C08_restrict_protected_exists (t : Topo) (s : CSet) (flags : Nat) (p : Params) (hp : plan t s flags = some p) :
    (p.byNode = false → coverT t.allowedCpu tPU t.tree = true → ∃ x ∈ objsT t.tree, x.type = tPU ∧ s.mem x.osidx.toNat = true) ∧
    (p.byNode = true → coverT t.allowedNode tNUMA t.tree = true → ∃ x ∈ objsT t.tree, x.type = tNUMA ∧ s.mem x.osidx.toNat = true) ∧
    (p.rmExempt = false → ∀ x : RObj, (x.type = tPU → protPUn p x = true) ∧ (x.type = tNUMA → protNUMA p x = true)) :=
  ⟨(own_kind_protected t s flags p hp).1, (own_kind_protected t s flags p hp).2, fun hx x => prot_of_not_exempt p hx x⟩

/-- (2) every well-formed dump has a PU and a NUMA node, and so has its tree -/
theorem C08_wf_has_pu_and_numa (d : Dump) (h : WF d) (t : Tree) (ht : treeOf d = .ok t) :
    (∃ x ∈ objsT t, x.type = tPU) ∧ (∃ x ∈ objsT t, x.type = tNUMA) := wf_tree_has h t ht

/-- **C08_restrict_from_wf_levels_partial** — with NO hypothesis besides `WF d` (plus: a tree could be rebuilt, and the API fact on
    filters), for every set and every flag word, with `D` the rendering of the model's result:
    (a) normal-level-types holds for `D` (every call, refused or not);
    (b) a refused call leaves pu-level-deepest and numa-exists;
    (c) after a successful call: pu-level-deepest holds when the input has a protected PU, numa-exists when it has a protected NUMA
        node; the protected object of the OTHER kind exists from `WF d` alone when the flag word has no REMOVE_CPULESS /
        REMOVE_MEMLESS (`p.rmExempt = false`); the protected object of the call's OWN kind exists when the allowed set is covered
        (`coverT`).  So: by nodeset without REMOVE_MEMLESS pu-level-deepest, by cpuset without REMOVE_CPULESS numa-exists follow from
        `WF d` alone; by cpuset pu-level-deepest and by nodeset numa-exists follow from `WF d` and `coverT`.
    `_partial`: `coverT` is a hypothesis here (its CPU half is derived from `WF d` in C08_wf_cover_pu, its NUMA half is not), and under
    REMOVE_CPULESS / REMOVE_MEMLESS the object of the other kind that survives is exhibited only in C08_restrict_other_kind_protected
    (used by C08_restrict_from_wf_top_partial, which covers every flag word). -/
theorem C08_restrict_from_wf_levels_partial (d : Dump) (h : WF d) (t : Tree) (ht : treeOf d = .ok t)
    (hf1 : filterOf d.filters tPU ≠ filterKeepStructure) (hf2 : filterOf d.filters tMACHINE ≠ filterKeepStructure)
    (s : CSet) (flags : Nat) (ex : RObj → Extra) :
    let T : Topo := { tree := t, allowedCpu := d.allowedCpuset.getD 0, allowedNode := d.allowedNodeset.getD 0, filters := d.filters }
    let D := afterDump T d.flags s flags ex
    topClause "normal-level-types" D (mkAux D) = true ∧
    ((restrict T s flags).2 ≠ .ok → topClause "pu-level-deepest" D (mkAux D) = true ∧ topClause "numa-exists" D (mkAux D) = true) ∧
    (∀ p, plan T s flags = some p → (restrict T s flags).2 = .ok →
      ((∃ x ∈ objsT t, x.type = tPU ∧ (if p.byNode = true then protPUn p x = true else s.mem x.osidx.toNat = true)) →
        topClause "pu-level-deepest" D (mkAux D) = true) ∧
      ((∃ x ∈ objsT t, x.type = tNUMA ∧ (if p.byNode = true then s.mem x.osidx.toNat = true else protNUMA p x = true)) →
        topClause "numa-exists" D (mkAux D) = true) ∧
      (p.byNode = true → p.rmExempt = false → topClause "pu-level-deepest" D (mkAux D) = true) ∧
      (p.byNode = false → p.rmExempt = false → topClause "numa-exists" D (mkAux D) = true) ∧
      (p.byNode = false → coverT T.allowedCpu tPU t = true → topClause "pu-level-deepest" D (mkAux D) = true) ∧
      (p.byNode = true → coverT T.allowedNode tNUMA t = true → topClause "numa-exists" D (mkAux D) = true)) := by
  intro T D
  obtain ⟨hok, hty, hm, hr, hleaf, hpus, hnumas⟩ := wf_treeOf_full h t ht
  obtain ⟨_, h1m, hsafe⟩ := C08_wf_mergeSafe d h t ht (d.allowedCpuset.getD 0) (d.allowedNodeset.getD 0) hf1 hf2
  obtain ⟨hasPU, hasNUMA⟩ := wf_tree_has h t ht
  have lv := C08_restrict_pu_level T d.flags s flags ex hty hm hleaf hsafe h1m
  refine ⟨lv.1, ?_, ?_⟩
  · intro hne
    have e : (restrict T s flags).1 = T := restrict_unchanged_of_not_ok T s flags hne
    exact ⟨lv.2 (by rw [e]; exact hasPU), render_numa_exists _ (by rw [e]; exact hasNUMA) _ ex⟩
  · intro p hp hret
    have keep := C08_restrict_keeps_pu_and_numa T s flags p hp hret hok hty hr hleaf hpus hnumas hsafe
    have prot := C08_restrict_protected_exists T s flags p hp
    have hPU : (∃ x ∈ objsT t, x.type = tPU ∧ (if p.byNode = true then protPUn p x = true else s.mem x.osidx.toNat = true)) →
        topClause "pu-level-deepest" D (mkAux D) = true := fun hex => lv.2 (keep.1 hex)
    have hNUMA : (∃ x ∈ objsT t, x.type = tNUMA ∧ (if p.byNode = true then s.mem x.osidx.toNat = true else protNUMA p x = true)) →
        topClause "numa-exists" D (mkAux D) = true := fun hex => render_numa_exists _ (keep.2 hex) _ ex
    refine ⟨hPU, hNUMA, ?_, ?_, ?_, ?_⟩
    · intro hb hx
      obtain ⟨x, hxm, hxt⟩ := hasPU
      exact hPU ⟨x, hxm, hxt, by rw [hb]; simp only [if_true]; exact ((prot.2.2 hx) x).1 hxt⟩
    · intro hb hx
      obtain ⟨x, hxm, hxt⟩ := hasNUMA
      exact hNUMA ⟨x, hxm, hxt, by rw [hb]; simp only [Bool.false_eq_true, if_false]; exact ((prot.2.2 hx) x).2 hxt⟩
    · intro hb hc
      obtain ⟨x, hxm, hxt, hxs⟩ := prot.1 hb hc
      exact hPU ⟨x, hxm, hxt, by rw [hb]; simp only [Bool.false_eq_true, if_false]; exact hxs⟩
    · intro hb hc
      obtain ⟨x, hxm, hxt, hxs⟩ := prot.2.1 hb hc
      exact hNUMA ⟨x, hxm, hxt, by rw [hb]; simp only [if_true]; exact hxs⟩

/-- non-vacuity of the B2 theorems: `demo` / `demoDump` meet every hypothesis (WF, filters, typed, PUs are leaves, mergeSafe, one
    Machine: examples above), the allowed sets are covered, a call by cpuset to PU 1 is planned and succeeds, and the result has its
    PU level last -/
example : coverT demo.allowedCpu tPU demo.tree = true ∧ coverT demo.allowedNode tNUMA demo.tree = true ∧
    puNsT demo.tree = true ∧ puLevelLast demo.tree = true ∧ machineOnce demo.tree ∧
    (plan demo ⟨2, false⟩ flagAdaptMisc).isSome = true ∧ (restrict demo ⟨2, false⟩ flagAdaptMisc).2 = .ok ∧
    puLevelLast (restrict demo ⟨2, false⟩ flagAdaptMisc).1.tree = true ∧
    (normalLevels (restrict demo ⟨2, false⟩ flagAdaptMisc).1.tree).map (·.1) = [tMACHINE, tCORE, tPU] := by decide +kernel

/-- (2) the protected object of the OTHER kind under REMOVE_CPULESS / REMOVE_MEMLESS: hwloc_topology_restrict refuses the call when
    every allowed node (PU) would be dropped (`inside allowed dropped`), so some allowed index is not the os_index of a dropped
    object; when the allowed set is covered (`coverT`), the NUMA node (PU) that carries it is not CPU-less (memory-less) afterwards,
    i.e. protected -/
theorem C08_restrict_other_kind_protected (t : Topo) (s : CSet) (flags : Nat) (p : Params) (hp : plan t s flags = some p)
    (hx : p.rmExempt = true) :
    (p.byNode = false → coverT t.allowedNode tNUMA t.tree = true → ∃ x ∈ objsT t.tree, x.type = tNUMA ∧ protNUMA p x = true) ∧
    (p.byNode = true → coverT t.allowedCpu tPU t.tree = true → ∃ x ∈ objsT t.tree, x.type = tPU ∧ protPUn p x = true) :=
  other_kind_protected t s flags p hp hx

/-- (3) **allowed-sets**: the tree-level clause (`allowedOKT`: the root carries sets, the allowed sets are inside — without
    INCLUDE_DISALLOWED equal to — the root's sets) holds for the tree of every WF dump, is preserved by every restrict call (the
    same dropped sets are subtracted from the root's sets and from the allowed sets; level merging never touches the root object),
    and gives the WF clause allowed-sets of the rendering -/
theorem C08_restrict_allowed_sets (d : Dump) (h : WF d) (t : Tree) (ht : treeOf d = .ok t) :
    allowedOKT { tree := t, allowedCpu := d.allowedCpuset.getD 0, allowedNode := d.allowedNodeset.getD 0, filters := d.filters }
      (flagIncludeDisallowed d) = true ∧
    (∀ (T : Topo) (s : CSet) (flags : Nat) (incl : Bool), okT T.tree = true → typedT T.tree = true → isNormal T.tree.obj.type = true →
      puLeafT T.tree = true → mergeSafe T → allowedOKT T incl = true → allowedOKT (restrict T s flags).1 incl = true) ∧
    (∀ (T : Topo) (fl : Nat) (ex : RObj → Extra), allowedOKT T (fl % 2 == 1) = true →
      topClause "allowed-sets" (render T.tree ⟨fl, T.filters, some T.allowedCpu, some T.allowedNode⟩ ex)
        (mkAux (render T.tree ⟨fl, T.filters, some T.allowedCpu, some T.allowedNode⟩ ex)) = true) :=
  ⟨wf_allowedOK h t ht, fun T s flags incl hok hty hr hl hs ha => allowedOK_restrict T s flags incl hok hty hr hl hs ha,
   fun T fl ex ha => render_allowed_sets T fl ha ex⟩

theorem restrict_ok_plan (t : Topo) (s : CSet) (flags : Nat) (h : (restrict t s flags).2 = .ok) : ∃ p, plan t s flags = some p := by
  cases hp : plan t s flags with
  | some p => exact ⟨p, rfl⟩
  | none => unfold restrict at h; rw [hp] at h; cases h

/-- the four topology-level clauses of this section -/
def provedTopClausesB2 : List String := ["normal-level-types", "pu-level-deepest", "numa-exists", "allowed-sets"]

/-- **C08_restrict_from_wf_top_partial** — from `WF d` (a tree could be rebuilt, the API fact on filters) and the coverage of the
    allowed nodeset by the NUMA nodes (`coverT … tNUMA`, a consequence of the C01 clause nodeset-decomposition that is evaluated, not
    derived; the coverage of the allowed cpuset by the PUs IS derived from `WF d`: C08_wf_cover_pu): for EVERY
    set and EVERY flag word — REMOVE_CPULESS / REMOVE_MEMLESS included, refused calls included — the rendering of the model's result
    satisfies normal-level-types, pu-level-deepest, numa-exists and allowed-sets.  With the 11 clauses of
    C08_restrict_from_wf_partial: 15 of the 18 topology-level clauses (the other three are the uniqueness clauses
    pu-osindex-unique / numa-osindex-unique / gp-index-unique).
    `_partial`: `coverT` of the allowed NODESET stays a hypothesis. -/
theorem C08_restrict_from_wf_top_partial (d : Dump) (h : WF d) (t : Tree) (ht : treeOf d = .ok t)
    (hf1 : filterOf d.filters tPU ≠ filterKeepStructure) (hf2 : filterOf d.filters tMACHINE ≠ filterKeepStructure)
    (hcn : coverT (d.allowedNodeset.getD 0) tNUMA t = true)
    (s : CSet) (flags : Nat) (ex : RObj → Extra) :
    let T : Topo := { tree := t, allowedCpu := d.allowedCpuset.getD 0, allowedNode := d.allowedNodeset.getD 0, filters := d.filters }
    let D := afterDump T d.flags s flags ex
    ∀ c ∈ provedTopClausesB2, topClause c D (mkAux D) = true := by
  intro T D
  have hcp : coverT (d.allowedCpuset.getD 0) tPU t = true := wf_cover_pu h t ht
  obtain ⟨hok, hty, hm, hr, hleaf, hpus, hnumas⟩ := wf_treeOf_full h t ht
  obtain ⟨_, h1m, hsafe⟩ := C08_wf_mergeSafe d h t ht (d.allowedCpuset.getD 0) (d.allowedNodeset.getD 0) hf1 hf2
  have base := C08_restrict_from_wf_levels_partial d h t ht hf1 hf2 s flags ex
  have hall : topClause "allowed-sets" D (mkAux D) = true :=
    render_allowed_sets (restrict T s flags).1 d.flags
      (allowedOK_restrict T s flags _ hok hty hr hleaf hsafe (wf_allowedOK h t ht)) ex
  have hboth : topClause "pu-level-deepest" D (mkAux D) = true ∧ topClause "numa-exists" D (mkAux D) = true := by
    cases hret : (restrict T s flags).2 with
    | einval => exact base.2.1 (by rw [hret]; decide)
    | rootRemoved => exact base.2.1 (by rw [hret]; decide)
    | ok =>
      obtain ⟨p, hp⟩ := restrict_ok_plan T s flags hret
      obtain ⟨hPU, hNUMA, hPUn, hNUMAc, hPUc, hNUMAn⟩ := base.2.2 p hp hret
      cases hb : p.byNode with
      | false =>
        refine ⟨hPUc hb hcp, ?_⟩
        cases hx : p.rmExempt with
        | false => exact hNUMAc hb hx
        | true =>
          obtain ⟨x, hxm, hxt, hxp⟩ := (other_kind_protected T s flags p hp hx).1 hb hcn
          exact hNUMA ⟨x, hxm, hxt, by rw [hb]; simp only [Bool.false_eq_true, if_false]; exact hxp⟩
      | true =>
        refine ⟨?_, hNUMAn hb hcn⟩
        cases hx : p.rmExempt with
        | false => exact hPUn hb hx
        | true =>
          obtain ⟨x, hxm, hxt, hxp⟩ := (other_kind_protected T s flags p hp hx).2 hb hcp
          exact hPU ⟨x, hxm, hxt, by rw [hb]; simp only [if_true]; exact hxp⟩
  intro c hc
  simp only [provedTopClausesB2, List.mem_cons, List.mem_nil_iff, or_false] at hc
  rcases hc with rfl | rfl | rfl | rfl
  · exact base.1
  · exact hboth.1
  · exact hboth.2
  · exact hall

/-- non-vacuity of C08_restrict_from_wf_top_partial / C08_restrict_other_kind_protected: `demoDump` meets every hypothesis (WF, the
    filter facts, a tree: examples above; coverage: here), `demoMerge` is covered too and its call by nodeset with REMOVE_MEMLESS is
    planned with `rmExempt`, and the rendering of the result of that call satisfies the four clauses -/
example : (match treeOf demoDump with
      | .ok t => coverT (demoDump.allowedCpuset.getD 0) tPU t && coverT (demoDump.allowedNodeset.getD 0) tNUMA t
      | .error _ => false) = true ∧
    coverT demoMerge.allowedCpu tPU demoMerge.tree = true ∧ coverT demoMerge.allowedNode tNUMA demoMerge.tree = true ∧
    ((plan demoMerge ⟨1, false⟩ (flagByNodeset ||| flagRemoveMemless)).map (fun p => p.byNode && p.rmExempt)) = some true ∧
    allowedOKT demoMerge false = true ∧
    provedTopClausesB2.all (fun c =>
      topClause c (afterDump demoMerge 0 ⟨1, false⟩ (flagByNodeset ||| flagRemoveMemless) (fun _ => {}))
        (mkAux (afterDump demoMerge 0 ⟨1, false⟩ (flagByNodeset ||| flagRemoveMemless) (fun _ => {})))) = true := by decide +kernel

/-- (3) the three **uniqueness clauses** pu-osindex-unique, numa-osindex-unique, gp-index-unique: `osUniqueT` (os_index unique among
    the PUs / NUMA nodes of the tree) holds for the tree of every WF dump and is preserved by every restrict call (restrict creates
    no object, changes neither type nor os_index, and every object of the result is an object of the input: `cnt_restrict`); gp
    uniqueness is part of `mergeSafe`; the rendering of a tree that satisfies them satisfies the three WF clauses -/
theorem C08_restrict_unique (d : Dump) (h : WF d) (t : Tree) (ht : treeOf d = .ok t) :
    (osUniqueT tPU t ∧ osUniqueT tNUMA t) ∧
    (∀ (ty : Nat) (T : Topo) (s : CSet) (flags : Nat), osUniqueT ty T.tree → osUniqueT ty (restrict T s flags).1.tree) ∧
    (∀ (T : Tree) (hd : Hdr) (ex : RObj → Extra),
      (osUniqueT tPU T → topClause "pu-osindex-unique" (render T hd ex) (mkAux (render T hd ex)) = true) ∧
      (osUniqueT tNUMA T → topClause "numa-osindex-unique" (render T hd ex) (mkAux (render T hd ex)) = true) ∧
      (((objsT T).map (·.gp)).Nodup → topClause "gp-index-unique" (render T hd ex) (mkAux (render T hd ex)) = true)) :=
  ⟨wf_osUnique h t ht, fun ty T s flags hu => osUnique_restrict ty T s flags hu, fun T hd ex => render_unique T hd ex⟩

/-- **C08_restrict_wf_top_partial** — the topology-level half of `WF (afterDump …)`, complete: from `WF d` (a tree could be rebuilt, the
    API fact on filters) and the coverage of the allowed nodeset (`coverT … tNUMA`), for EVERY set and EVERY flag word the rendering of the
    model's result satisfies EVERY topology-level clause of `WF` (all 18 entries of `topClauses`: the 11 of
    C08_restrict_from_wf_partial, the 4 of C08_restrict_from_wf_top_partial, the 3 uniqueness clauses).
    `_partial` with respect to C08_restrict_wf: `coverT` of the allowed nodeset is a hypothesis, `treeOf d = .ok t` is a hypothesis (it does NOT follow from
    `WF d`: WF does not force parents to precede their children in the object list, which `treeOf` requires), and of the 29
    object-level clauses 14 are proved (`provedObjClauses`); the set / memory / attribute clauses are still judged by wfCheck. -/
theorem C08_restrict_wf_top_partial (d : Dump) (h : WF d) (t : Tree) (ht : treeOf d = .ok t)
    (hf1 : filterOf d.filters tPU ≠ filterKeepStructure) (hf2 : filterOf d.filters tMACHINE ≠ filterKeepStructure)
    (hcn : coverT (d.allowedNodeset.getD 0) tNUMA t = true)
    (s : CSet) (flags : Nat) (ex : RObj → Extra) :
    let T : Topo := { tree := t, allowedCpu := d.allowedCpuset.getD 0, allowedNode := d.allowedNodeset.getD 0, filters := d.filters }
    let D := afterDump T d.flags s flags ex
    ∀ c ∈ topClauses, c.2 D (mkAux D) = true := by
  intro T D c hc
  have a := (C08_restrict_from_wf_partial d h t ht hf1 hf2 s flags ex).2.2.1
  have b := C08_restrict_from_wf_top_partial d h t ht hf1 hf2 hcn s flags ex
  obtain ⟨_, _, hsafe⟩ := C08_wf_mergeSafe d h t ht (d.allowedCpuset.getD 0) (d.allowedNodeset.getD 0) hf1 hf2
  obtain ⟨_, hty, _, hr, hleaf, _, _⟩ := wf_treeOf_full h t ht
  have hu := wf_osUnique h t ht
  have u := render_unique (restrict T s flags).1.tree
    ⟨d.flags, (restrict T s flags).1.filters, some (restrict T s flags).1.allowedCpu, some (restrict T s flags).1.allowedNode⟩ ex
  have u1 := u.1 (osUnique_restrict tPU T s flags hu.1)
  have u2 := u.2.1 (osUnique_restrict tNUMA T s flags hu.2)
  have u3 := u.2.2 (restrict_leaf_root T s flags hty hr hleaf hsafe).2.2.1
  have hname : c.1 ∈ topClauses.map (·.1) := List.mem_map_of_mem hc
  rw [← Hw.Topo.Hist.topClause_of_mem c hc]
  have hcases : c.1 ∈ provedTopClauses ∨ c.1 ∈ provedTopClausesB2 ∨ c.1 = "pu-osindex-unique" ∨ c.1 = "numa-osindex-unique" ∨
      c.1 = "gp-index-unique" := by
    have hall : ∀ n ∈ topClauses.map (·.1), n ∈ provedTopClauses ∨ n ∈ provedTopClausesB2 ∨ n = "pu-osindex-unique" ∨
        n = "numa-osindex-unique" ∨ n = "gp-index-unique" := by decide
    exact hall c.1 hname
  rcases hcases with h1 | h1 | h1 | h1 | h1
  · exact a c.1 h1
  · exact b c.1 h1
  · rw [h1]; exact u1
  · rw [h1]; exact u2
  · rw [h1]; exact u3

/-- non-vacuity: the uniqueness hypotheses hold for demoMerge, and all 18 topology-level clauses hold for the rendering of the result
    of its call by nodeset with REMOVE_MEMLESS (level merging included) -/
example : osUniqueT tPU demoMerge.tree ∧ osUniqueT tNUMA demoMerge.tree ∧
    topClauses.all (fun c => c.2 (afterDump demoMerge 0 ⟨1, false⟩ (flagByNodeset ||| flagRemoveMemless) (fun _ => {}))
      (mkAux (afterDump demoMerge 0 ⟨1, false⟩ (flagByNodeset ||| flagRemoveMemless) (fun _ => {})))) = true := by decide +kernel

/-- (3) two more object-level clauses of the result from `WF d` alone: **type-in-range** (typing is preserved) and
    **not-filtered-out** (`notFilteredT` holds for the tree of a WF dump; restrict produces no object of a new type and does not
    touch the filters) — 16 object-level clauses with `provedObjClauses` -/
theorem C08_restrict_type_filter (d : Dump) (h : WF d) (t : Tree) (ht : treeOf d = .ok t) (s : CSet) (flags : Nat) (ex : RObj → Extra) :
    let T : Topo := { tree := t, allowedCpu := d.allowedCpuset.getD 0, allowedNode := d.allowedNodeset.getD 0, filters := d.filters }
    let D := afterDump T d.flags s flags ex
    notFilteredT d.filters t = true ∧
    ∀ o ∈ D.objs, objClause "type-in-range" D (mkAux D) o = true ∧ objClause "not-filtered-out" D (mkAux D) o = true := by
  intro T D
  obtain ⟨_, hty, _, hr, _, _, _⟩ := wf_treeOf_full h t ht
  have hn := wf_notFiltered h t ht
  refine ⟨hn, fun o ho => ?_⟩
  have r := render_type_filter (restrict T s flags).1.tree
    ⟨d.flags, (restrict T s flags).1.filters, some (restrict T s flags).1.allowedCpu, some (restrict T s flags).1.allowedNode⟩ ex o ho
  exact ⟨r.1 (typed_restrict T s flags hty hr).1, r.2 (notFiltered_restrict T s flags hn)⟩

/-- (2) **the allowed cpuset of a well-formed dump is covered by the PUs** (`coverT` for the CPU side, derived): in a WF dump every
    index of the cpuset of a normal object is the os_index of a PU (induction over the depth: cpuset-is-disjoint-union-of-children
    pushes a bit down to a child, depth-increases bounds the descent, a childless normal object with a non-empty cpuset is a PU with
    cpuset {os_index}), the allowed cpuset is inside the root's cpuset, and the tree lists every dump object.  Hence, from `WF d`
    ALONE: a planned restrict by cpuset has a PU with os_index in S, and leaves a PU -/
theorem C08_wf_cover_pu (d : Dump) (h : WF d) (t : Tree) (ht : treeOf d = .ok t) :
    coverT (d.allowedCpuset.getD 0) tPU t = true ∧
    ∀ (s : CSet) (flags : Nat) (p : Params),
      plan { tree := t, allowedCpu := d.allowedCpuset.getD 0, allowedNode := d.allowedNodeset.getD 0, filters := d.filters } s flags = some p →
      p.byNode = false → ∃ x ∈ objsT t, x.type = tPU ∧ s.mem x.osidx.toNat = true :=
  ⟨wf_cover_pu h t ht, fun s flags p hp hb => (own_kind_protected _ s flags p hp).1 hb (wf_cover_pu h t ht)⟩

/-- (4) **`treeOf d = .ok t` is NOT a consequence of `WF d`**, so it has to stay a hypothesis of the `…_from_wf…` theorems: `orderDump`
    (Machine [Core [PU] + NUMA + Misc] with the Misc object listed before its parent Core) satisfies every clause of WF, and `treeOf`,
    which folds the object list from the right and needs every parent before its children, refuses it.  No WF clause orders the ids
    across levels (Hw.Topo.WFTree: `T_order` "is NOT a consequence of WF"); the dumps of harness/dump.h are numbered in DFS order. -/
theorem C08_treeOf_not_from_wf : ∃ d : Dump, WF d ∧ ∀ t, treeOf d ≠ .ok t :=
  ⟨orderDump, by decide +kernel, fun t h => by
    have e : (match treeOf orderDump with | .ok _ => true | .error _ => false) = false := by decide +kernel
    rw [h] at e; cases e⟩

end Hw.Props.C08
