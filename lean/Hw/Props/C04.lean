/-
  Property C04 — bitmap <-> string conversions round-trip and honour the snprintf contract.

  Models: `Hw.Base.Snprintf` (the cursor machine shared by every hwloc printer), `Hw.Bitmap.Print`
  (chunk lists of the hwloc / list / taskset printers), `Hw.Bitmap.Scan` (the three parsers over
  NUL-terminated byte lists with `Option` word cells), `Hw.Base.Num` (`strtoul`, number printing).
-/
import Hw.Bitmap.ScanLemmas
import Hw.Bitmap.RoundTripList
import Hw.Bitmap.RoundTripTaskset
import Hw.Bitmap.RoundTripHwloc
import Hw.Bitmap.ScanCursorSafe
import Hw.Bitmap.ScanCursorRefine
import Hw.Bitmap.ScanCursorTransfer
import Hw.Bitmap.ScanCursorDefined
namespace Hw.Props.C04
open Hw Hw.Bitmap

/-! ## 1. the snprintf contract, for every chunk list and every buffer length -/

/-- the return value is the length of the untruncated text, whatever the buffer length -/
theorem C04_ret_is_full_length (cap : Nat) (chunks : List (List Byte)) :
    (emitAll cap chunks).ret = (text chunks).length := by
  cases cap with
  | zero => exact (emitAll_zero chunks).2
  | succ n => exact (emitAll_inv (n+1) (by omega) chunks).ret_eq

/-- no write ever lands outside `[buf, buf+buflen)`; with `buflen = 0` (buf may be NULL) nothing is written -/
theorem C04_writes_in_bounds (cap : Nat) (chunks : List (List Byte)) :
    ∀ w, w ∈ (emitAll cap chunks).buf.writes → w < cap := by
  cases cap with
  | zero => intro w hw; rw [(emitAll_zero chunks).1] at hw; cases hw
  | succ n => exact (emitAll_inv (n+1) (by omega) chunks).inb

/-- for `buflen > 0` the buffer holds the longest prefix of the full text that fits, NUL-terminated,
and nothing behind the NUL was touched -/
theorem C04_truncated_prefix (cap : Nat) (hcap : 0 < cap) (chunks : List (List Byte)) :
    let c := emitAll cap chunks
    let p := min (text chunks).length (cap - 1)
    (∀ j, j < p → c.buf.get j = (text chunks)[j]?) ∧ c.buf.get p = some 0 ∧ ∀ j, p < j → c.buf.get j = none := by
  have h := emitAll_inv cap hcap chunks
  simp only
  rw [← h.pos_eq]
  exact ⟨h.prefix_ok, h.nul, h.rest⟩

/-- instances: the three bitmap printers (their chunk lists do not depend on the buffer) -/
theorem C04_snprintf_hwloc (cap : Nat) (b : Bitmap) :
    (snprintfHwloc cap b).ret = (text b.chunksHwloc).length ∧
    ∀ w, w ∈ (snprintfHwloc cap b).buf.writes → w < cap :=
  ⟨C04_ret_is_full_length _ _, C04_writes_in_bounds _ _⟩
theorem C04_snprintf_list (cap : Nat) (b : Bitmap) :
    (snprintfList cap b).ret = (text b.chunksList).length ∧
    ∀ w, w ∈ (snprintfList cap b).buf.writes → w < cap :=
  ⟨C04_ret_is_full_length _ _, C04_writes_in_bounds _ _⟩
theorem C04_snprintf_taskset (cap : Nat) (b : Bitmap) :
    (snprintfTaskset cap b).ret = (text b.chunksTaskset).length ∧
    ∀ w, w ∈ (snprintfTaskset cap b).buf.writes → w < cap :=
  ⟨C04_ret_is_full_length _ _, C04_writes_in_bounds _ _⟩

/-- `asprintf` = `snprintf(NULL,0)` then `snprintf(buf, len+1)`: the second call returns the same
length and stores exactly the full text followed by NUL -/
theorem C04_asprintf (chunks : List (List Byte)) :
    let len := (emitAll 0 chunks).ret
    let c := emitAll (len + 1) chunks
    c.ret = len ∧ (∀ j, j < len → c.buf.get j = (text chunks)[j]?) ∧ c.buf.get len = some 0 := by
  simp only
  have hlen : (emitAll 0 chunks).ret = (text chunks).length := (emitAll_zero chunks).2
  rw [hlen]
  have h := emitAll_inv ((text chunks).length + 1) (by omega) chunks
  have hp : (emitAll ((text chunks).length + 1) chunks).pos = (text chunks).length := by
    rw [h.pos_eq]; omega
  refine ⟨h.ret_eq, ?_, ?_⟩
  · intro j hj; exact h.prefix_ok j (by omega)
  · have := h.nul; rw [hp] at this; exact this

/-! ## 2. parsers: total, and a returned 0 means every word of the destination was written -/

theorem C04_sscanf_hwloc_defined (s : List Byte) : (hwlocScan s).defined = true := hwlocScan_defined s
theorem C04_sscanf_list_defined (s : List Byte) : (listScan s).defined = true := listScan_defined s
theorem C04_sscanf_taskset_defined (s : List Byte) : (tasksetScan s).defined = true := tasksetScan_defined s

/-! non-vacuity: the strings on which the pinned tree (before the `fix:` commit) misbehaved -/
example : hwlocScan (str "") = .ok [some 0#64] false := by decide
example : hwlocScan (str "0x1,") = .ok [some 0x100000000#64] false := by decide
example : hwlocScan (str ",0x1") = .ok [some 1#64] false := by decide
example : (emitAll 5 (Bitmap.chunksList ⟨[0xf0f#64], false⟩)).ret = 8 := by decide

/-! ## 3. round trip: parsing the printed text succeeds and yields a bitmap denoting the same set,
for every bitmap (finite or infinite, any word count) -/

theorem C04_roundtrip_hwloc (b : Bitmap) (hinv : b.Inv) :
    ∃ ws inf, hwlocScan (text b.chunksHwloc) = .ok (ws.map some) inf ∧
      ∀ n, (Bitmap.mk ws inf).mem n = b.mem n := hwloc_roundtrip b hinv

theorem C04_roundtrip_taskset (b : Bitmap) (hinv : b.Inv) :
    ∃ ws inf, tasksetScan (text b.chunksTaskset) = .ok (ws.map some) inf ∧
      ∀ n, (Bitmap.mk ws inf).mem n = b.mem n := taskset_roundtrip b hinv

/-- list format: inside the modelled domain of the list parser (indexes below `listMaxIndex = 2^21`) -/
theorem C04_roundtrip_list (b : Bitmap) (hinv : b.Inv) (hb : b.count * 64 + 64 ≤ listMaxIndex) :
    ∃ ws inf, listScan (text b.chunksList) = .ok (ws.map some) inf ∧
      ∀ n, (Bitmap.mk ws inf).mem n = b.mem n := list_roundtrip b hinv hb

/-- the same statements through `ScanRes.bitmap?`: the parser result is a bitmap equal (as a set) to `b` -/
theorem C04_roundtrip_bitmap (b : Bitmap) (hinv : b.Inv) :
    (∃ r, (hwlocScan (text b.chunksHwloc)).bitmap? = some r ∧ ∀ n, r.mem n = b.mem n) ∧
    (∃ r, (tasksetScan (text b.chunksTaskset)).bitmap? = some r ∧ ∀ n, r.mem n = b.mem n) ∧
    (b.count * 64 + 64 ≤ listMaxIndex →
      ∃ r, (listScan (text b.chunksList)).bitmap? = some r ∧ ∀ n, r.mem n = b.mem n) := by
  have key : ∀ (ws : List Word) (inf : Bool), (ScanRes.ok (ws.map some) inf).bitmap? = some ⟨ws, inf⟩ := by
    intro ws inf
    have : (ws.map some).mapM id = some ws := by
      induction ws with
      | nil => rfl
      | cons w ws ih => simp [List.mapM_cons, ih]
    simp [ScanRes.bitmap?, this]
  refine ⟨?_, ?_, ?_⟩
  · obtain ⟨ws, inf, h, hm⟩ := hwloc_roundtrip b hinv
    exact ⟨⟨ws, inf⟩, by rw [h, key], hm⟩
  · obtain ⟨ws, inf, h, hm⟩ := taskset_roundtrip b hinv
    exact ⟨⟨ws, inf⟩, by rw [h, key], hm⟩
  · intro hb
    obtain ⟨ws, inf, h, hm⟩ := list_roundtrip b hinv hb
    exact ⟨⟨ws, inf⟩, by rw [h, key], hm⟩

/-! non-vacuity: concrete finite / infinite bitmaps with zero groups, a merged all-ones group and
several words; the hypotheses hold and the parsers return the expected words -/
example : (⟨[0x1#64, 0xffffffff00000000#64], true⟩ : Bitmap).Inv ∧
    text (Bitmap.chunksHwloc ⟨[0x1#64, 0xffffffff00000000#64], true⟩) = str "0xf...f,,,0x00000001" := by decide
example : hwlocScan (text (Bitmap.chunksHwloc ⟨[0x1#64, 0xffffffff00000000#64], true⟩))
    = .ok [some 0x1#64, some 0xffffffff00000000#64] true := by decide
example : hwlocScan (text (Bitmap.chunksHwloc ⟨[0x0#64, 0x500000000#64, 0#64], false⟩))
    = .ok [some 0x0#64, some 0x500000000#64] false := by decide
example : tasksetScan (text (Bitmap.chunksTaskset ⟨[0xf0#64, 0xffffffff00000001#64], true⟩))
    = .ok [some 0xf0#64, some 0xffffffff00000001#64] true := by decide
example : (⟨[0xf0f#64, 0x1#64], true⟩ : Bitmap).count * 64 + 64 ≤ listMaxIndex ∧
    text (Bitmap.chunksList ⟨[0xf0f#64, 0x1#64], true⟩) = str "0-3,8-11,64,128-" := by decide

/-! ## 4. memory safety of the parsers as the C walks the string (cursor-level models `Hw.Bitmap.Cursor`):
for EVERY byte string `s` (stored as `s ++ [NUL]`, sign characters, huge numbers and embedded NULs included)
every byte the parser or libc reads has index ≤ `s.length`, i.e. never past the terminating NUL -/

open Hw.Bitmap.Cursor in
theorem C04_sscanf_reads_in_bounds (s : List Byte) :
    ∀ r, r ∈ (hwlocSscanfC s).log.reads → r ≤ s.length := (hwlocSscanfC_safe s).1

open Hw.Bitmap.Cursor in
theorem C04_list_sscanf_reads_in_bounds (s : List Byte) :
    ∀ r, r ∈ (listSscanfC s).log.reads → r ≤ s.length := (listSscanfC_safe s).1

open Hw.Bitmap.Cursor in
theorem C04_taskset_sscanf_reads_in_bounds (s : List Byte) :
    ∀ r, r ∈ (tasksetSscanfC s).log.reads → r ≤ s.length := (tasksetSscanfC_safe s).1

/-- every store into `set->ulongs[]` made by the parsers themselves has `0 ≤ index < ulongs_count`, and
`ulongs_count ≤ ulongs_allocated` whatever was allocated before (`prev`); every store into the taskset
parser's `char ustr[17]` has index < 17.  (The list parser stores only through `hwloc_bitmap_zero/set/set_range`.) -/
theorem C04_sscanf_writes_in_bounds (s : List Byte) (prev : Nat) :
    ∀ w, w ∈ (Cursor.hwlocSscanfC s).log.writes →
      0 ≤ w.1 ∧ w.1 < (w.2 : Int) ∧ w.2 ≤ Cursor.allocFor prev w.2 :=
  fun w hw => ⟨((Cursor.hwlocSscanfC_safe s).2.1 w hw).1, ((Cursor.hwlocSscanfC_safe s).2.1 w hw).2, (Cursor.le_allocFor prev w.2).1⟩

theorem C04_list_sscanf_writes_in_bounds (s : List Byte) (prev : Nat) :
    ∀ w, w ∈ (Cursor.listSscanfC s).log.writes →
      0 ≤ w.1 ∧ w.1 < (w.2 : Int) ∧ w.2 ≤ Cursor.allocFor prev w.2 :=
  fun w hw => ⟨((Cursor.listSscanfC_safe s).2.1 w hw).1, ((Cursor.listSscanfC_safe s).2.1 w hw).2, (Cursor.le_allocFor prev w.2).1⟩

theorem C04_taskset_sscanf_writes_in_bounds (s : List Byte) (prev : Nat) :
    (∀ w, w ∈ (Cursor.tasksetSscanfC s).log.writes →
      0 ≤ w.1 ∧ w.1 < (w.2 : Int) ∧ w.2 ≤ Cursor.allocFor prev w.2) ∧
    (∀ u, u ∈ (Cursor.tasksetSscanfC s).log.ustr → u < 17) :=
  ⟨fun w hw => ⟨((Cursor.tasksetSscanfC_safe s).2.1 w hw).1, ((Cursor.tasksetSscanfC_safe s).2.1 w hw).2, (Cursor.le_allocFor prev w.2).1⟩,
   (Cursor.tasksetSscanfC_safe s).2.2⟩

/-! non-vacuity: the logs are not empty — the strings of finding F02 and a signed number -/
example : (Cursor.hwlocSscanfC (str "")).log.reads.contains 0 = true ∧ (Cursor.hwlocSscanfC (str "")).log.maxRead = 0 := by decide
example : (Cursor.hwlocSscanfC (str "0x1,")).log.maxRead = 4 ∧ (Cursor.hwlocSscanfC (str "0x1,")).log.writes = [((0 : Int), 1)] := by decide
example : (Cursor.listSscanfC (str "1,x,2")).res = .fail ∧ (Cursor.listSscanfC (str "1,x,2")).log.maxRead = 2 := by decide
example : (Cursor.tasksetSscanfC (str "0xf...f12")).log.writes = [((0 : Int), 1)] ∧
    (Cursor.tasksetSscanfC (str "0xf...f12")).log.ustr.length = 3 ∧ (Cursor.tasksetSscanfC (str "0xf...f12")).log.maxRead = 9 := by decide
example : (Cursor.hwlocSscanfC (str "-1")).res = .ok [some 0xffffffffffffffff#64] false := by decide

/-! ## 5. refinement: on a C string (`NoNul`: the bytes before the terminator) on which the structural model
of `Hw.Bitmap.Scan` is defined (no sign character; list indexes < 2^21), the cursor-level model returns exactly
the structural model's verdict and words.  Outside that domain the cursor-level model is still total and the
theorems of section 4 still hold. -/

theorem C04_sscanf_refines (s : List Byte) (hs : Cursor.NoNul s) (hsup : hwlocScan s ≠ .unsupported) :
    (Cursor.hwlocSscanfC s).res.toScan = hwlocScan s := Cursor.hwlocSscanfC_refine s hs hsup

theorem C04_list_sscanf_refines (s : List Byte) (hs : Cursor.NoNul s) (hsup : listScan s ≠ .unsupported) :
    (Cursor.listSscanfC s).res.toScan = listScan s := Cursor.listSscanfC_refine s hs hsup

theorem C04_taskset_sscanf_refines (s : List Byte) (hs : Cursor.NoNul s) (hsup : tasksetScan s ≠ .unsupported) :
    (Cursor.tasksetSscanfC s).res.toScan = tasksetScan s := Cursor.tasksetSscanfC_refine s hs hsup

/-- `hwloc_bitmap_sscanf` returns (0 or -1) on every C string: its `assert(count > 0)` never fires
(the other two parsers contain no assert: their models have no such outcome by construction) -/
theorem C04_sscanf_returns (s : List Byte) (hs : Cursor.NoNul s) :
    (Cursor.hwlocSscanfC s).res = .fail ∨ ∃ ws inf, (Cursor.hwlocSscanfC s).res = .ok ws inf := by
  have h1 := Cursor.hwlocSscanfC_no_assert s hs
  cases h : (Cursor.hwlocSscanfC s).res with
  | ok ws inf => exact Or.inr ⟨ws, inf, rfl⟩
  | fail => exact Or.inl rfl
  | assertFail => exact (h1 h).elim
  | okBig => exact (Cursor.hwlocSscanfC_not_big s h).elim      -- produced by the list parser only

/-- a returned 0 means every word of the destination was written — for EVERY byte string, sign characters and
huge numbers included (proved on the cursor-level models directly, not by transfer) -/
theorem C04_cursor_defined (s : List Byte) :
    (Cursor.hwlocSscanfC s).res.defined = true ∧ (Cursor.listSscanfC s).res.defined = true ∧
    (Cursor.tasksetSscanfC s).res.defined = true :=
  ⟨Cursor.hwlocSscanfC_defined s, Cursor.listSscanfC_defined s, Cursor.tasksetSscanfC_defined s⟩

/-- round trip through the cursor-level (memory-safe) parsers: the printed text holds no NUL, is accepted, and
denotes the same set -/
theorem C04_cursor_roundtrip (b : Bitmap) (hinv : b.Inv) :
    (∃ ws inf, (Cursor.hwlocSscanfC (text b.chunksHwloc)).res = .ok (ws.map some) inf ∧ ∀ n, (Bitmap.mk ws inf).mem n = b.mem n) ∧
    (∃ ws inf, (Cursor.tasksetSscanfC (text b.chunksTaskset)).res = .ok (ws.map some) inf ∧ ∀ n, (Bitmap.mk ws inf).mem n = b.mem n) ∧
    (b.count * 64 + 64 ≤ listMaxIndex →
      ∃ ws inf, (Cursor.listSscanfC (text b.chunksList)).res = .ok (ws.map some) inf ∧ ∀ n, (Bitmap.mk ws inf).mem n = b.mem n) :=
  ⟨Cursor.cursor_roundtrip_hwloc b hinv, Cursor.cursor_roundtrip_taskset b hinv, Cursor.cursor_roundtrip_list b hinv⟩

/-! non-vacuity: strings meeting the hypotheses, one per format, incl. the F02 strings; and one outside the
structural domain (sign) where only the cursor-level model answers -/
example : Cursor.NoNul (str "0xf...f,,0x1") ∧ hwlocScan (str "0xf...f,,0x1") ≠ .unsupported ∧
    (Cursor.hwlocSscanfC (str "0xf...f,,0x1")).res = .ok [some 0x1#64] true := by decide
example : Cursor.NoNul (str "1,3-5, 64-") ∧ listScan (str "1,3-5, 64-") ≠ .unsupported ∧
    (Cursor.listSscanfC (str "1,3-5, 64-")).res = .ok [some 0x3a#64, some 0xffffffffffffffff#64] true := by decide
example : Cursor.NoNul (str "0xf...f12") ∧ tasksetScan (str "0xf...f12") ≠ .unsupported ∧
    (Cursor.tasksetSscanfC (str "0xf...f12")).res = .ok [some 0xffffffffffffff12#64] true := by decide
example : hwlocScan (str "+f,-2") = .unsupported ∧
    (Cursor.hwlocSscanfC (str "+f,-2")).res = .ok [some 0xfffffffffffffffe#64] false := by decide
example : (Cursor.listSscanfC (str "4194304")).big = true ∧ (Cursor.listSscanfC (str "4194304")).res = .okBig := by decide

end Hw.Props.C04
