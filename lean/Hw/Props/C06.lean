/-
  C06 — Loading arbitrary XML never corrupts memory, hangs or yields a broken topology.

  Property theorems over the model `Hw.XmlScan` (lean/Hw/Io/XmlScan.lean): the nolibxml scanner of
  hwloc/topology-xml-nolibxml.c as it is — one mutable byte buffer whose last byte is NUL, cursors as
  indexes, EVERY read and write bounds-checked (`rd`/`wr`: an access at an index ≥ n makes the callback
  return `.error (.oob i)`, a NULL dereference `.error .null`, a loop that does not stop within its
  fuel `.error .fuel`).  "Memory safe and terminating" is therefore "returns `.ok`"; the invariant `Inv`
  says that the final NUL is still there and every cursor of every import state is < n (i.e. ≤ n-1).

  Reading of the English property.  The positive theorems are about `fixed` = the CURRENT source, with no
  exclusion: look_init, backend_init and every callback are safe for every buffer and every state.
  `legal fixed s op` is what the consumer state machine of hwloc/topology-xml.c can issue: any callback on
  any live import state in any order, except close_content without a directly preceding get_content that
  returned ≥ 0 on that state, close_child on the root state, close_tag on a state without tag name.  That the
  one consumer that used to violate the first rule (hwloc__xml_import_userdata, F05f) now obeys it for every
  length is `C06_userdata_close_content_safe`.
  The four defects of the formerly pinned source stay as NEGATIVE lemmas (`..._pinned_...`), each with its
  witness: F05a look_init NULL+1, F05b backend_init buffer[-1], F05e next_attr buffer[n], F05f bare close_content.
  The whole-loader part of the property (topology-xml.c beyond the scanner, libxml2, the core) is not
  proved: engine `xmlload` fuzzes it under ASan/UBSan/LSan and judges loaded topologies with wfCheck.
-/
import Hw.Io.XmlScanLemmas
import Hw.Attr.DistRefreshLemmas
namespace Hw.Props.C06
open Hw Hw.XmlScan

/-- decidable views of an `Except` result (for the concrete witnesses) -/
def errIs {α} (m : M α) (e : Err) : Bool := match m with | .error e' => e' == e | .ok _ => false
def okP {α} (m : M α) (p : α → Bool) : Bool := match m with | .ok a => p a | .error _ => false
theorem errIs_eq {α} {m : M α} {e : Err} (h : errIs m e = true) : m = .error e := by
  cases m with
  | error e' => simp [errIs] at h; rw [h]
  | ok a => simp [errIs] at h
theorem okP_ex {α} {m : M α} {p : α → Bool} (h : okP m p = true) : ∃ a, m = .ok a ∧ p a = true := by
  cases m with
  | error e' => simp [okP] at h
  | ok a => exact ⟨a, rfl, by simpa [okP] using h⟩

/-- P0 scan_mem_safe (one callback), current source: in every state satisfying the invariant, every legal
    callback invocation returns (no out-of-bounds access, no NULL dereference, terminates), keeps the invariant
    (final NUL intact, every cursor < n) and the buffer length. -/
theorem C06_callback_safe (s : St) (h : Inv s) (op : Op) (hl : legal fixed s op = true) :
    ∃ o s', step fixed s op = .ok (o, s') ∧ Inv s' ∧ s'.buf.size = s.buf.size :=
  step_ok fixed h op hl

/-- next_attr, find_child and get_content are legal in EVERY state of the current source (no excluded class) -/
theorem C06_attr_child_content_always_legal (s : St) (i len : Nat) :
    legal fixed s (.attr i) = true ∧ legal fixed s (.child i) = true ∧ legal fixed s (.content i len) = true := by
  refine ⟨?_, rfl, rfl⟩
  simp only [legal]
  cases s.frames[i]? <;> simp [fixed]

/-- P0 scan_mem_safe (all histories), current source, from the state set up by backend_init + look_init, for
    EVERY caller buffer, EVERY length ≥ 1 and EVERY legal callback sequence: all reads and writes have index
    < n and every callback terminates (`run … = .ok`), afterwards the final NUL is intact and all cursors of
    all import states are ≤ n-1. -/
theorem C06_scan_mem_safe (src : Buf) (len : Int) (hlen : 1 ≤ len) :
    ∃ b, backendInit true src len = .ok (some b) ∧ b.size = len.toNat ∧
    ∃ r fo, lookInit fixed b = .ok (r, fo) ∧
      ∀ f, fo = some f → ∀ ops, legalRun fixed ⟨b, #[f]⟩ ops = true →
        ∃ s', run fixed ⟨b, #[f]⟩ ops = .ok s' ∧ HasNul s'.buf ∧ s'.buf.size = b.size ∧
          ∀ (i : Nat) (g : Frame), s'.frames[i]? = some g →
            g.tagbuf ≤ b.size - 1 ∧ ∀ a, g.attrbuf = some a → a ≤ b.size - 1 := by
  obtain ⟨b, hb, hn, hs⟩ := backendInit_ok true src len hlen
  refine ⟨b, hb, hs, ?_⟩
  obtain ⟨r, fo, e, hf⟩ := lookInit_ok fixed hn (Or.inl rfl)
  refine ⟨r, fo, e, ?_⟩
  intro f hfo ops hl
  obtain ⟨hf1, hf2, _⟩ := hf f hfo
  have hinv : Inv ⟨b, #[f]⟩ := by
    refine ⟨hn, ?_⟩
    intro i g hg
    cases i with
    | zero => simp at hg; subst hg; exact ⟨hf1, hf2⟩
    | succ k => simp at hg
  obtain ⟨s', e', h', hsz⟩ := run_ok fixed ops _ hinv hl
  refine ⟨s', e', h'.nul, hsz, ?_⟩
  intro i g hg
  obtain ⟨hg1, _⟩ := h'.fr i g hg
  have hsz' : s'.buf.size = b.size := hsz
  rw [hsz'] at hg1
  refine ⟨by have := hg1.tb; omega, ?_⟩
  intro a ha; have := hg1.ab a ha; omega

/-- P0 look_init_safe, current source, unconditional: for every buffer ending in NUL the header skipper
    returns (never dereferences a failed strchr, never reads past the NUL) and the cursor it sets is ≤ n-1. -/
theorem C06_look_init_safe (b : Buf) (hn : HasNul b) :
    ∃ r fo, lookInit fixed b = .ok (r, fo) ∧ ∀ f, fo = some f → f.tagbuf ≤ b.size - 1 := by
  obtain ⟨r, fo, e, h⟩ := lookInit_ok fixed hn (Or.inl rfl)
  exact ⟨r, fo, e, fun f hf => by have := (h f hf).1.tb; omega⟩

/-- F05a, negative: on the formerly pinned source look_init dereferences NULL+1 for `<topology version="2.0"` -/
theorem C06_f05a_pinned_null_deref :
    ∃ b : Buf, HasNul b ∧ f05a b = true ∧ lookInit pinned b = .error .null ∧
      (∃ r, lookInit fixed b = .ok r ∧ r.1.ret = -1) :=
  ⟨#[60, 116, 111, 112, 111, 108, 111, 103, 121, 32, 118, 101, 114, 115, 105, 111, 110, 61, 34, 50, 46, 48, 34, 0], ⟨by decide, by decide⟩, by decide, errIs_eq (by decide),
   (okP_ex (p := fun r => r.1.ret == -1) (by decide)).imp (fun r h => ⟨h.1, by simpa using h.2⟩)⟩

/-- F05a and F05e were EXACT on the formerly pinned source: inside the class the overrun happens for every buffer
    / state satisfying the invariant, outside it never. -/
theorem C06_pinned_defects_exact (b : Buf) (hn : HasNul b) :
    (f05a b = true → lookInit pinned b = .error .null) ∧
    (f05a b = false → ∃ r, lookInit pinned b = .ok r) ∧
    ∀ f, FrameOk b.size f →
      (f05e b f = true → nextAttr pinned b f = .error (.oob b.size)) ∧
      (f05e b f = false → ∃ r, nextAttr pinned b f = .ok r) := by
  refine ⟨lookInit_pinned_f05a, ?_, ?_⟩
  · intro h
    obtain ⟨r, fo, e, _⟩ := lookInit_ok pinned hn (Or.inr h)
    exact ⟨_, e⟩
  · intro f hf
    refine ⟨nextAttr_pinned_f05e hn hf, ?_⟩
    intro h
    obtain ⟨r, b', f', e, _⟩ := nextAttr_ok pinned hn hf (Or.inr h)
    exact ⟨_, e⟩

/-- P0 backend_init_safe, current source, for EVERY xmlbuflen: ≥ 1 → the copy has exactly that length and
    ends in NUL (`buffer[xmlbuflen-1] = 0` in bounds); ≤ 0 → refused (-1) without touching memory. -/
theorem C06_backend_init_safe (src : Buf) (len : Int) :
    (1 ≤ len → ∃ b, backendInit true src len = .ok (some b) ∧ HasNul b ∧ b.size = len.toNat) ∧
    (len ≤ 0 → backendInit true src len = .ok none) := by
  refine ⟨backendInit_ok true src len, ?_⟩
  intro h
  unfold backendInit
  by_cases h1 : len < 0
  · simp [h1]; rfl
  · have : len = 0 := by omega
    subst this; rfl

/-- F05b, negative: for xmlbuflen = 0 the formerly pinned source wrote before the block -/
theorem C06_f05b_pinned_underflow (src : Buf) : backendInit false src 0 = .error .under := rfl

/-- F05f, positive, current source: hwloc__xml_import_userdata — get_content (for EVERY length, also 0), give up
    on -1, else close_content then close_tag — is safe in every state: no access outside the buffer, final NUL kept. -/
theorem C06_userdata_close_content_safe (b : Buf) (f : Frame) (len : Nat) (hn : HasNul b) (hf : FrameOk b.size f)
    (hname : NameOk f) :
    ∃ r b' f', userdataTail b f len = .ok (r, b', f') ∧ HasNul b' ∧ b'.size = b.size ∧ FrameOk b.size f' :=
  userdataTail_ok len hn hf hname

/-- F05e, negative: the formerly pinned next_attr reads buffer[n] when the value starts at the final NUL
    (state satisfying the invariant: buffer `b="` NUL, attribute cursor at 0); the fixed one returns -1. -/
theorem C06_f05e_pinned_overread :
    ∃ (b : Buf) (f : Frame), HasNul b ∧ FrameOk b.size f ∧ f05e b f = true ∧
      nextAttr pinned b f = .error (.oob b.size) ∧ (∃ r, nextAttr fixed b f = .ok r ∧ r.1.ret = -1) :=
  ⟨#[98, 61, 34, 0], { tagbuf := 0, attrbuf := some 0 }, ⟨by decide, by decide⟩,
   ⟨by decide, (fun a h => by cases h; decide), (fun t h => by cases h), (fun h => by cases h)⟩,
   by decide, errIs_eq (by decide),
   (okP_ex (p := fun r => r.1.ret == -1) (by decide)).imp (fun r h => ⟨h.1, by simpa using h.2⟩)⟩

/-- F05f, negative: the formerly pinned userdata importer (length 0: close_content without get_content)
    destroys the final NUL of `<u>` NUL and its close_tag reads buffer[n]. -/
theorem C06_f05f_pinned_bare_close_content_overrun :
    ∃ (b : Buf) (f : Frame), HasNul b ∧ FrameOk b.size f ∧ NameOk f ∧
      userdataTailPinned0 b f = .error (.oob b.size) ∧ (∃ r, userdataTail b f 0 = .ok r ∧ r.1 = -1) :=
  ⟨#[60, 117, 62, 0], { tagbuf := 3, tagname := .lit [117] }, ⟨by decide, by decide⟩,
   ⟨by decide, (fun a h => by cases h), (fun t h => by cases h), (fun h => by cases h)⟩,
   ⟨(fun l h => by cases h; decide), (fun h => by cases h)⟩, errIs_eq (by decide),
   (okP_ex (p := fun r => r.1 == -1) (by decide)).imp (fun r h => ⟨h.1, by simpa using h.2⟩)⟩

/-- P0 distances_import_bounds: whatever the `<indexes>` / `<u64values>` children contain and however
    many there are, every `indexes[nr_indexes++]` write is below `nbobjs` and every
    `u64values[nr_u64values++]` write below the allocated `nbobjs*nbobjs` (as C computes it: 32-bit
    wrapping), and the counters never exceed the capacities. -/
theorem C06_distances_import_bounds (nbobjs : Nat) (idxChildren valChildren : List Toks) :
    (∀ ws n, fillAll (idxCap nbobjs) 0 idxChildren = some (ws, n) →
      (∀ w ∈ ws, w < idxCap nbobjs) ∧ n ≤ idxCap nbobjs) ∧
    (∀ ws n, fillAll (valCap nbobjs) 0 valChildren = some (ws, n) →
      (∀ w ∈ ws, w < valCap nbobjs) ∧ n ≤ valCap nbobjs) :=
  ⟨fun ws n e => fillAll_bounds _ idxChildren 0 ws n (Nat.zero_le _) e,
   fun ws n e => fillAll_bounds _ valChildren 0 ws n (Nat.zero_le _) e⟩

/-- userdata (base64 path): whatever `length` attribute and content, every byte the decoder writes is
    inside the `malloc(length+1)` block (size_t arithmetic; a wrapped size 0 admits no write at all) -/
theorem C06_userdata_decode_bounds (length nsyms : Nat) :
    ∀ w ∈ (decWrites (udAlloc length) nsyms 0 0).1, w < udAlloc length :=
  decWrites_bounds _ nsyms 0 0

/-- F05j, positive: for every nbobjs that passes the attribute gate of the current source (`nbobjs ≤ 0xffff`)
    the 32-bit product does not wrap: the values array really has nbobjs² elements ... -/
theorem C06_distances_valcap_exact (nbobjs : Nat) (h : nbobjsAccepted nbobjs = true) :
    valCap nbobjs = idxCap nbobjs * idxCap nbobjs ∧ 0 < idxCap nbobjs := by
  simp only [nbobjsAccepted, Bool.and_eq_true, bne_iff_ne, ne_eq, decide_eq_true_eq] at h
  obtain ⟨h0, h1⟩ := h
  refine ⟨?_, by omega⟩
  unfold valCap
  have : idxCap nbobjs * idxCap nbobjs ≤ 65535 * 65535 := Nat.mul_le_mul h1 h1
  omega

/-- ... whereas without that gate it wrapped (the formerly pinned source: 65536 objects, 0 values) -/
theorem C06_distances_valcap_pinned_wraps : valCap 65536 = 0 ∧ valCap 65537 = 131073 ∧
    nbobjsAccepted 65536 = false ∧ nbobjsAccepted 65535 = true := by decide

/-! non-vacuity: a concrete document scanned by a consumer-like legal history, with unescaping,
    an auto-closed child, content and closing tags -/
example : legalRun fixed ⟨#[60, 114, 111, 111, 116, 62, 60, 97, 32, 98, 61, 34, 120, 38, 97, 109, 112, 59, 121, 34, 32, 99, 61, 34, 49, 34, 62, 60, 100, 47, 62, 116, 120, 116, 60, 47, 97, 62, 60, 47, 114, 111, 111, 116, 62, 0], #[{ tagbuf := 6, tagname := .lit (lit "root") }]⟩ [.child 0, .attr 1, .attr 1, .attr 1, .child 1, .closeTag 2, .closeChild 2, .content 1 3, .closeContent 1, .closeTag 1, .closeChild 1, .child 0, .closeTag 0] = true := by decide
example : okP (run fixed ⟨#[60, 114, 111, 111, 116, 62, 60, 97, 32, 98, 61, 34, 120, 38, 97, 109, 112, 59, 121, 34, 32, 99, 61, 34, 49, 34, 62, 60, 100, 47, 62, 116, 120, 116, 60, 47, 97, 62, 60, 47, 114, 111, 111, 116, 62, 0], #[{ tagbuf := 6, tagname := .lit (lit "root") }]⟩ [.child 0, .attr 1, .attr 1, .attr 1, .child 1, .closeTag 2, .closeChild 2, .content 1 3, .closeContent 1, .closeTag 1, .closeChild 1, .child 0, .closeTag 0]) (fun s' => s'.frames.size == 3) = true := by decide
example : (lookInit fixed #[60, 114, 111, 111, 116, 62, 60, 97, 32, 98, 61, 34, 120, 38, 97, 109, 112, 59, 121, 34, 32, 99, 61, 34, 49, 34, 62, 60, 100, 47, 62, 116, 120, 116, 60, 47, 97, 62, 60, 47, 114, 111, 111, 116, 62, 0]).toOption.map (·.1.ret) = some 0 := by decide
example : fillAll 2 0 [[(0, true), (1, true), (7, false)]] = some ([0, 1], 2) := by decide
example : fillAll 2 0 [[(0, true), (1, true)], [(5, false)]] = none := by decide

/-! ### the end of every load: `hwloc_internal_distances_refresh()` unlinks + frees list nodes while iterating

    Model `Hw.DistRefresh` (lean/Hw/Attr/DistRefresh.lean): a heap of `next`/`prev`/`freed` fields plus
    `first`/`last`; EVERY field access checks the `freed` mark, so "memory safe" is "returns `.ok`".
    `refresh false` is the loop of the source, `refresh true` the variant with a loop-local predecessor. -/

/-- distances2 elements that "became useless" are dropped at the end of the load: whatever the list and
    whatever the set of dropped elements, the loop never touches freed memory, stops within `l.length`
    iterations, leaves exactly the kept elements, in order, linked in both directions with first/last right,
    and frees exactly the dropped ones (every other `freed` mark unchanged) -/
theorem C06_distances_refresh_links (h : Hw.DistRefresh.Heap) (l : List Nat) (hl : Hw.DistRefresh.Linked h l)
    (drop : Nat → Bool) :
    ∃ h', Hw.DistRefresh.refresh false drop h l.length = .ok h' ∧
          Hw.DistRefresh.Linked h' (l.filter (fun d => !drop d)) ∧
          (∀ p, h'.freed p = (h.freed p || (decide (p ∈ l) && drop p))) :=
  Hw.DistRefresh.refresh_spec h l hl drop

/-- ... hence every later consumer (distances_get, export, dup, destroy: first → next → ...) sees exactly the
    kept elements and never reads a freed one -/
theorem C06_distances_refresh_then_walk (h : Hw.DistRefresh.Heap) (l : List Nat)
    (hl : Hw.DistRefresh.Linked h l) (drop : Nat → Bool) :
    ∃ h', Hw.DistRefresh.refresh false drop h l.length = .ok h' ∧
          Hw.DistRefresh.walk h' l.length h'.first = .ok (l.filter (fun d => !drop d)) :=
  Hw.DistRefresh.refresh_then_walk h l hl drop

/-- negative lemma (the model tells the variants apart): with the predecessor kept in a loop-local variable
    advanced by the for-increment, the first two ADJACENT dropped elements `a`, `b` make the unlink of `b`
    write `a->next` after `a` was freed -/
theorem C06_distances_refresh_running_prev_uaf (h : Hw.DistRefresh.Heap) (a b : Nat) (pre post : List Nat)
    (hl : Hw.DistRefresh.Linked h (pre ++ a :: b :: post)) (drop : Nat → Bool)
    (hk : ∀ x ∈ pre, drop x = false) (ha : drop a = true) (hb : drop b = true) :
    Hw.DistRefresh.refresh true drop h (pre ++ a :: b :: post).length = .error (.uaf a) :=
  Hw.DistRefresh.running_uaf h a b pre post hl drop hk ha hb

/-- exhaustive: every list `0..n-1` of at most 5 elements and every drop mask `m < 2^n` (`drop d = m.testBit d`):
    the real loop is safe and a walk of its result gives the kept elements; the `running` variant fails IFF
    the mask drops two adjacent elements (with `.uaf` of the first such element), and otherwise also leaves
    the kept elements (`Hw.DistRefresh.checkOne`; unpacked below) -/
theorem C06_distances_refresh_all_patterns_le5 : Hw.DistRefresh.checkAll = true :=
  Hw.DistRefresh.all_patterns_le5

theorem C06_distances_refresh_all_patterns_le5_spec (n m : Nat) (hn : n ≤ 5) (hm : m < 2 ^ n) :
    (∃ h', Hw.DistRefresh.refresh false (fun d => m.testBit d) (Hw.DistRefresh.mk (List.range n)) n = .ok h' ∧
           Hw.DistRefresh.walk h' n h'.first = .ok ((List.range n).filter (fun d => !m.testBit d))) ∧
    ((∃ e, Hw.DistRefresh.refresh true (fun d => m.testBit d) (Hw.DistRefresh.mk (List.range n)) n = .error e) ↔
      ∃ i, i + 1 < n ∧ m.testBit i = true ∧ m.testBit (i + 1) = true) ∧
    (∀ h', Hw.DistRefresh.refresh true (fun d => m.testBit d) (Hw.DistRefresh.mk (List.range n)) n = .ok h' →
           Hw.DistRefresh.walk h' n h'.first = .ok ((List.range n).filter (fun d => !m.testBit d))) :=
  Hw.DistRefresh.all_patterns_le5_spec n m hn hm

/-! non-vacuity: a linked heap of 4 elements; dropping the two middle ones is safe in the source and a
    use after free in the `running` variant -/
example : Hw.DistRefresh.Linked (Hw.DistRefresh.mk [0, 1, 2, 3]) [0, 1, 2, 3] := Hw.DistRefresh.linked_mk_0123
example : ∃ h', Hw.DistRefresh.refresh false (fun d => d == 1 || d == 2) (Hw.DistRefresh.mk [0, 1, 2, 3]) 4 = .ok h' ∧
    Hw.DistRefresh.Linked h' [0, 3] := by
  obtain ⟨h', e, l, -⟩ := C06_distances_refresh_links _ _ Hw.DistRefresh.linked_mk_0123 (fun d => d == 1 || d == 2)
  exact ⟨h', e, l⟩
example : Hw.DistRefresh.refresh true (fun d => d == 1 || d == 2) (Hw.DistRefresh.mk [0, 1, 2, 3]) 4
    = .error (.uaf 1) :=
  C06_distances_refresh_running_prev_uaf _ 1 2 [0] [3] Hw.DistRefresh.linked_mk_0123 _ (by simp) rfl rfl

end Hw.Props.C06
