/-
  C06 — Loading arbitrary XML never corrupts memory, hangs or yields a broken topology.

  Property theorems over the model `Hw.XmlScan` (lean/Hw/Io/XmlScan.lean): the nolibxml scanner of
  hwloc/topology-xml-nolibxml.c as it is — one mutable byte buffer whose last byte is NUL, cursors as
  indexes, EVERY read and write bounds-checked (`rd`/`wr`: an access at an index ≥ n makes the callback
  return `.error (.oob i)`, a NULL dereference `.error .null`, a loop that does not stop within its
  fuel `.error .fuel`).  "Memory safe and terminating" is therefore "returns `.ok`"; the invariant `Inv`
  says that the final NUL is still there and every cursor of every import state is < n (i.e. ≤ n-1).

  Reading of the English property.  `legal v s op` is what the consumer state machine of
  hwloc/topology-xml.c can issue: any callback on any live import state in any order, except
  (1) close_content only directly after a get_content that returned 1 (or on an auto-closed tag),
  (2) close_child only on a child state, close_tag only on a state with a tag name, and
  (3) for the pinned source (`v.fixE = false`) not the F05e class.  The pinned tree violates the
  property in four places, each PROVED below as a negative fact with its witness and each excluded
  from the differential verdict behind its own switch:
    F05a look_init dereferences NULL+1 when sscanf matched both numbers and no '>' follows;
    F05b backend_init writes buffer[-1] for xmlbuflen = 0;
    F05e next_attr reads buffer[n] when an attribute value starts at the final NUL;
    F05f hwloc__xml_import_userdata (length 0, import callback set) calls close_content without
         get_content: '<' is written over the byte after the start tag — over the final NUL when the
         document ends there — and the following close_tag runs off the buffer.
  The whole-loader part of the property (topology-xml.c beyond the scanner, libxml2, the core) is not
  proved: engine `xmlload` fuzzes it under ASan/UBSan/LSan and judges loaded topologies with wfCheck.
-/
import Hw.Io.XmlScanLemmas
namespace Hw.Props.C06
open Hw Hw.XmlScan

/-- decidable views of an `Except` result (for the concrete witnesses) -/
def errIs {α} (m : M α) (e : Err) : Bool := match m with | .error e' => e' == e | .ok _ => false
def okP {α} (m : M α) (p : α → Bool) : Bool := match m with | .ok a => p a | .error _ => false
theorem errIs_eq {α} {m : M α} {e : Err} (h : errIs m e = true) : m = .error e := by
  cases m with
  | error e' => simp [errIs] at h; rw [h]
  | ok a => simp [errIs] at h
theorem okP_ex {α} {m : M α} {p : α → Bool} (h : okP m p = true) : ∃ a, m = .ok a ∧ p a = true := by
  cases m with
  | error e' => simp [okP] at h
  | ok a => exact ⟨a, rfl, by simpa [okP] using h⟩

/-- P0 scan_mem_safe (one callback): in every state satisfying the invariant, every legal callback
    invocation returns (no out-of-bounds access, no NULL dereference, terminates), keeps the invariant
    (final NUL intact, every cursor < n) and the buffer length. -/
theorem C06_callback_safe (v : Variant) (s : St) (h : Inv s) (op : Op) (hl : legal v s op = true) :
    ∃ o s', step v s op = .ok (o, s') ∧ Inv s' ∧ s'.buf.size = s.buf.size :=
  step_ok v h op hl

/-- P0 scan_mem_safe (all histories), from the state set up by backend_init + look_init, for EVERY
    caller buffer, EVERY length ≥ 1 and EVERY legal callback sequence: all reads and writes have index < n
    and every callback terminates (`run … = .ok`), afterwards the final NUL is intact and all cursors of
    all import states are ≤ n-1. -/
theorem C06_scan_mem_safe (v : Variant) (src : Buf) (len : Int) (hlen : 1 ≤ len)
    (hA : ∀ b, backendInit false src len = .ok (some b) → v.fixA = true ∨ f05a b = false) :
    ∃ b, backendInit false src len = .ok (some b) ∧ b.size = len.toNat ∧
    ∃ r fo, lookInit v b = .ok (r, fo) ∧
      ∀ f, fo = some f → ∀ ops, legalRun v ⟨b, #[f]⟩ ops = true →
        ∃ s', run v ⟨b, #[f]⟩ ops = .ok s' ∧ HasNul s'.buf ∧ s'.buf.size = b.size ∧
          ∀ (i : Nat) (g : Frame), s'.frames[i]? = some g →
            g.tagbuf ≤ b.size - 1 ∧ ∀ a, g.attrbuf = some a → a ≤ b.size - 1 := by
  obtain ⟨b, hb, hn, hs⟩ := backendInit_ok false src len hlen
  refine ⟨b, hb, hs, ?_⟩
  obtain ⟨r, fo, e, hf⟩ := lookInit_ok v hn (hA b hb)
  refine ⟨r, fo, e, ?_⟩
  intro f hfo ops hl
  obtain ⟨hf1, hf2, _⟩ := hf f hfo
  have hinv : Inv ⟨b, #[f]⟩ := by
    refine ⟨hn, ?_⟩
    intro i g hg
    cases i with
    | zero => simp at hg; subst hg; exact ⟨hf1, hf2⟩
    | succ k => simp at hg
  obtain ⟨s', e', h', hsz⟩ := run_ok v ops _ hinv hl
  refine ⟨s', e', h'.nul, hsz, ?_⟩
  intro i g hg
  obtain ⟨hg1, _⟩ := h'.fr i g hg
  have hsz' : s'.buf.size = b.size := hsz
  rw [hsz'] at hg1
  refine ⟨by have := hg1.tb; omega, ?_⟩
  intro a ha; have := hg1.ab a ha; omega

/-- P0 look_init_safe: the header skipper returns (never dereferences a failed strchr, never reads past
    the NUL) — for the fixed source always, for the pinned source outside the F05a class. -/
theorem C06_look_init_safe (v : Variant) (b : Buf) (hn : HasNul b) (hl : v.fixA = true ∨ f05a b = false) :
    ∃ r fo, lookInit v b = .ok (r, fo) ∧ ∀ f, fo = some f → f.tagbuf ≤ b.size - 1 := by
  obtain ⟨r, fo, e, h⟩ := lookInit_ok v hn hl
  exact ⟨r, fo, e, fun f hf => by have := (h f hf).1.tb; omega⟩

/-- F05a, negative: on the pinned source look_init dereferences NULL+1 for `<topology version="2.0"` -/
theorem C06_f05a_pinned_null_deref :
    ∃ b : Buf, HasNul b ∧ f05a b = true ∧ lookInit pinned b = .error .null ∧
      (∃ r, lookInit fixed b = .ok r ∧ r.1.ret = -1) :=
  ⟨#[60, 116, 111, 112, 111, 108, 111, 103, 121, 32, 118, 101, 114, 115, 105, 111, 110, 61, 34, 50, 46, 48, 34, 0], ⟨by decide, by decide⟩, by decide, errIs_eq (by decide),
   (okP_ex (p := fun r => r.1.ret == -1) (by decide)).imp (fun r h => ⟨h.1, by simpa using h.2⟩)⟩

/-- F05a and F05e are EXACT on the pinned source: inside the class the overrun happens for every buffer
    / state satisfying the invariant, outside it never. -/
theorem C06_pinned_defects_exact (b : Buf) (hn : HasNul b) :
    (f05a b = true → lookInit pinned b = .error .null) ∧
    (f05a b = false → ∃ r, lookInit pinned b = .ok r) ∧
    ∀ f, FrameOk b.size f →
      (f05e b f = true → nextAttr pinned b f = .error (.oob b.size)) ∧
      (f05e b f = false → ∃ r, nextAttr pinned b f = .ok r) := by
  refine ⟨lookInit_pinned_f05a, ?_, ?_⟩
  · intro h
    obtain ⟨r, fo, e, _⟩ := lookInit_ok pinned hn (Or.inr h)
    exact ⟨_, e⟩
  · intro f hf
    refine ⟨nextAttr_pinned_f05e hn hf, ?_⟩
    intro h
    obtain ⟨r, b', f', e, _⟩ := nextAttr_ok pinned hn hf (Or.inr h)
    exact ⟨_, e⟩

/-- P0 backend_init_safe: `buffer[xmlbuflen-1] = 0` is in bounds and establishes the final NUL when
    xmlbuflen ≥ 1 ... -/
theorem C06_backend_init_safe (src : Buf) (len : Int) (h : 1 ≤ len) :
    ∃ b, backendInit false src len = .ok (some b) ∧ HasNul b ∧ b.size = len.toNat :=
  backendInit_ok false src len h

/-- ... and F05b, negative: for xmlbuflen = 0 the pinned source writes before the block -/
theorem C06_f05b_pinned_underflow (src : Buf) :
    backendInit false src 0 = .error .under ∧ backendInit true src 0 = .ok none :=
  ⟨rfl, rfl⟩

/-- F05e, negative: the pinned next_attr reads buffer[n] when the value starts at the final NUL
    (state satisfying the invariant: buffer `b="` NUL, attribute cursor at 0); the fixed one returns -1. -/
theorem C06_f05e_pinned_overread :
    ∃ (b : Buf) (f : Frame), HasNul b ∧ FrameOk b.size f ∧ f05e b f = true ∧
      nextAttr pinned b f = .error (.oob b.size) ∧ (∃ r, nextAttr fixed b f = .ok r ∧ r.1.ret = -1) :=
  ⟨#[98, 61, 34, 0], { tagbuf := 0, attrbuf := some 0 }, ⟨by decide, by decide⟩,
   ⟨by decide, (fun a h => by cases h; decide), (fun t h => by cases h), (fun h => by cases h)⟩,
   by decide, errIs_eq (by decide),
   (okP_ex (p := fun r => r.1.ret == -1) (by decide)).imp (fun r h => ⟨h.1, by simpa using h.2⟩)⟩

/-- F05f, negative: close_content without a preceding successful get_content (the one consumer path
    outside `legal`: hwloc__xml_import_userdata with length 0) destroys the final NUL of `<u>` NUL and the
    following close_tag reads buffer[n]. -/
theorem C06_f05f_bare_close_content_overrun :
    ∃ (b : Buf) (f : Frame), HasNul b ∧ FrameOk b.size f ∧
      (closeContent b f >>= fun r => closeTag r.1 r.2) = .error (.oob b.size) :=
  ⟨#[60, 117, 62, 0], { tagbuf := 3, tagname := .lit [117] }, ⟨by decide, by decide⟩,
   ⟨by decide, (fun a h => by cases h), (fun t h => by cases h), (fun h => by cases h)⟩, errIs_eq (by decide)⟩

/-- P0 distances_import_bounds: whatever the `<indexes>` / `<u64values>` children contain and however
    many there are, every `indexes[nr_indexes++]` write is below `nbobjs` and every
    `u64values[nr_u64values++]` write below the allocated `nbobjs*nbobjs` (as C computes it: 32-bit
    wrapping), and the counters never exceed the capacities. -/
theorem C06_distances_import_bounds (nbobjs : Nat) (idxChildren valChildren : List Toks) :
    (∀ ws n, fillAll (idxCap nbobjs) 0 idxChildren = some (ws, n) →
      (∀ w ∈ ws, w < idxCap nbobjs) ∧ n ≤ idxCap nbobjs) ∧
    (∀ ws n, fillAll (valCap nbobjs) 0 valChildren = some (ws, n) →
      (∀ w ∈ ws, w < valCap nbobjs) ∧ n ≤ valCap nbobjs) :=
  ⟨fun ws n e => fillAll_bounds _ idxChildren 0 ws n (Nat.zero_le _) e,
   fun ws n e => fillAll_bounds _ valChildren 0 ws n (Nat.zero_le _) e⟩

/-- userdata (base64 path): whatever `length` attribute and content, every byte the decoder writes is
    inside the `malloc(length+1)` block (size_t arithmetic; a wrapped size 0 admits no write at all) -/
theorem C06_userdata_decode_bounds (length nsyms : Nat) :
    ∀ w ∈ (decWrites (udAlloc length) nsyms 0 0).1, w < udAlloc length :=
  decWrites_bounds _ nsyms 0 0

/-- the 32-bit product is NOT nbobjs²: for nbobjs = 65536 the values array has 0 elements, so a document
    with 65536 indexes and no values passes `nr_u64values == nbobjs*nbobjs` (see report, F05g) -/
theorem C06_distances_valcap_wraps : valCap 65536 = 0 ∧ valCap 65537 = 131073 := by decide

/-! non-vacuity: a concrete document scanned by a consumer-like legal history, with unescaping,
    an auto-closed child, content and closing tags -/
example : legalRun pinned ⟨#[60, 114, 111, 111, 116, 62, 60, 97, 32, 98, 61, 34, 120, 38, 97, 109, 112, 59, 121, 34, 32, 99, 61, 34, 49, 34, 62, 60, 100, 47, 62, 116, 120, 116, 60, 47, 97, 62, 60, 47, 114, 111, 111, 116, 62, 0], #[{ tagbuf := 6, tagname := .lit (lit "root") }]⟩ [.child 0, .attr 1, .attr 1, .attr 1, .child 1, .closeTag 2, .closeChild 2, .content 1 3, .closeContent 1, .closeTag 1, .closeChild 1, .child 0, .closeTag 0] = true := by decide
example : okP (run pinned ⟨#[60, 114, 111, 111, 116, 62, 60, 97, 32, 98, 61, 34, 120, 38, 97, 109, 112, 59, 121, 34, 32, 99, 61, 34, 49, 34, 62, 60, 100, 47, 62, 116, 120, 116, 60, 47, 97, 62, 60, 47, 114, 111, 111, 116, 62, 0], #[{ tagbuf := 6, tagname := .lit (lit "root") }]⟩ [.child 0, .attr 1, .attr 1, .attr 1, .child 1, .closeTag 2, .closeChild 2, .content 1 3, .closeContent 1, .closeTag 1, .closeChild 1, .child 0, .closeTag 0]) (fun s' => s'.frames.size == 3) = true := by decide
example : (lookInit pinned #[60, 114, 111, 111, 116, 62, 60, 97, 32, 98, 61, 34, 120, 38, 97, 109, 112, 59, 121, 34, 32, 99, 61, 34, 49, 34, 62, 60, 100, 47, 62, 116, 120, 116, 60, 47, 97, 62, 60, 47, 114, 111, 111, 116, 62, 0]).toOption.map (·.1.ret) = some 0 := by decide
example : fillAll 2 0 [[(0, true), (1, true), (7, false)]] = some ([0, 1], 2) := by decide
example : fillAll 2 0 [[(0, true), (1, true)], [(5, false)]] = none := by decide

end Hw.Props.C06
