/-
  Property C18 — discovery from Linux/x86 snapshots is robust, deterministic and self-consistent.

  PARTIAL by design (DESIGN.md section 4, C18): the 8000-line Linux and 2000-line x86 back ends are not
  modelled.  What is proved here, for ALL inputs:
    * the pure parsers every Linux sysfs read goes through (`hwloc__read_fd`, `…_as_cpulist`,
      `…_as_cpumask`, model in Hw/Io/LinuxParse.lean, tied to the C code by the `linuxparse` engine):
      specification on well-formed kernel files, safety on arbitrary bytes / arbitrary read() patterns;
    * the relations the `snapshots` engine judges loads with (`SameTopo`, `DisallowedView`, `XmlEquiv`,
      Hw/Topo/Relations.lean): their executable checkers are exact, they are equivalences where claimed,
      and `DisallowedView` + `WF` give the inclusion clauses of the property statement.
  That the back ends establish `WF` and the relations on every snapshot / configuration / fault sequence
  is NOT proved: it is checked by these proved oracles on every load of every run.
-/
import Hw.Io.LinuxParseLemmas
import Hw.Topo.Relations
namespace Hw.Props.C18
open Hw Hw.LinuxParse Hw.Topo

/-! ### cpulist -/

/-- for every well-formed kernel list (ascending disjoint `a` / `a-b` items below 2^31-1, decimal,
comma separated, newline terminated) the result is exactly the union of the items, and finite -/
theorem C18_cpulist_spec (dst : Bitmap) (items : List (Nat × Nat)) (hne : items ≠ []) (h : AscFrom 0 items) :
    ∃ b, cpulist dst (renderList items) = some b ∧ b.inf = false ∧
      ∀ n, b.mem n = items.any (fun it => decide (it.1 ≤ n) && decide (n ≤ it.2)) :=
  cpulist_spec dst items hne h

/-- arbitrary bytes: the result is undefined (signed overflow in `prevlast+1` / `nextfirst-1`, finding
C18-F1) exactly when some comma-separated piece starts at INT_MIN or ends at INT_MAX after the
`unsigned long → int` reduction; otherwise it is a well-formed finite bitmap.  The previous content of
the destination never matters. -/
theorem C18_cpulist_safe (dst : Bitmap) (bytes : List Byte) :
    (cpulist dst bytes = none ↔ ∃ seg ∈ clSegs bytes, seg.1 = intMin ∨ seg.2 = intMax) ∧
    (∀ b, cpulist dst bytes = some b → b.Inv ∧ b.inf = false) ∧
    (∀ dst', cpulist dst' bytes = cpulist dst bytes) :=
  ⟨cpulist_none_iff dst bytes, fun b h => cpulist_some dst bytes b h, fun _ => rfl⟩

/-- what the code does on an empty file (or a lone newline, which is what the kernel prints for an empty
list): the set {0}, not the empty set -/
theorem C18_cpulist_empty (dst : Bitmap) (bytes : List Byte) (h : bytes = [] ∨ bytes = [10]) :
    ∃ b, cpulist dst bytes = some b ∧ ∀ n, b.mem n = decide (n = 0) := cpulist_empty dst bytes h

/-- negative fact: the overflow of `C18_cpulist_safe` is reachable -/
theorem C18_cpulist_overflow_reachable (dst : Bitmap) : cpulist dst (str "0-2147483647") = none :=
  cpulist_overflow_example dst

/-- the sign-aware scanner used here agrees with the C04 `strtoul` model wherever that one is defined -/
theorem C18_strtoul_agrees (base : Nat) (s : List Byte) (v : Nat) (r : List Byte)
    (h : strtoul base s = .ok v r) : strtoulS base s = (v, r) := strtoulS_of_ok base s v r h

/-! ### cpumask -/

/-- for every well-formed kernel mask (32-bit groups printed `%08x`, most significant first, comma
separated, newline terminated): bit 32k+j of the result is set iff group k from the right has bit j -/
theorem C18_cpumask_spec (dst : Bitmap) (alloc0 : Nat) (h0 : 1 ≤ alloc0) (gs : List Nat) (hne : gs ≠ [])
    (hg : ∀ g ∈ gs, g < 2^32) (n : Nat) :
    (cpumask dst alloc0 (renderMask gs)).mem n =
      (match gs.reverse[n / 32]? with | some g => g.testBit (n % 32) | none => false) :=
  cpumask_spec dst alloc0 h0 gs hne hg n

/-- arbitrary bytes, any initial `_nr_maps_allocated ≥ 1`: every `maps[i] = …` has `i < nr_maps_allocated` -/
theorem C18_cpumask_safe (alloc0 : Nat) (h0 : 1 ≤ alloc0) (bytes : List Byte) :
    ∀ w ∈ (maskState alloc0 bytes).writes, w.1 < w.2 := cpumask_safe alloc0 h0 bytes

/-- arbitrary bytes: the result is a well-formed finite bitmap -/
theorem C18_cpumask_finite (dst : Bitmap) (alloc0 : Nat) (bytes : List Byte) :
    (cpumask dst alloc0 bytes).Inv ∧ (cpumask dst alloc0 bytes).inf = false := cpumask_inv dst alloc0 bytes

/-! ### hwloc__read_fd -/

/-- for every initial size > 0 and every sequence of read() results (full, short, over-long — clipped as
the kernel does —, failing): every read stores inside the allocation of that moment, `buffer[totalread]`
is inside the final allocation, which is `*sizep + 1`; and the loop ends -/
theorem C18_readfd_bounds (size0 : Nat) (h0 : 0 < size0) (rets : List Int) : (readFd size0 rets).Safe :=
  readFd_safe size0 h0 rets

/-- the precondition is needed: `*sizep = 0` makes the real loop spin (no caller passes 0) -/
theorem C18_readfd_zero_hangs : readFd 0 [1] = .hang := readFd_zero_hangs

/-! ### the relations between loads -/

theorem C18_wf_oracle_exact (d : Dump) : wfCheck d = [] ↔ WF d := wfCheck_iff d
theorem C18_same_oracle_exact (a b : Dump) : sameCheck a b = [] ↔ SameTopo a b := sameCheck_iff a b
theorem C18_disallowed_oracle_exact (a b : Dump) : disallowedCheck a b = [] ↔ DisallowedView a b := disallowedCheck_iff a b
theorem C18_xml_oracle_exact (a b : Dump) : xmlCheck a b = [] ↔ XmlEquiv a b := xmlCheck_iff a b

/-- "two loads produce identical topologies" is an equivalence relation -/
theorem C18_same_equivalence :
    (∀ a, SameTopo a a) ∧ (∀ a b, SameTopo a b → SameTopo b a) ∧ (∀ a b c, SameTopo a b → SameTopo b c → SameTopo a c) :=
  ⟨SameTopo.refl, fun _ _ h => h.symm, fun _ _ _ h1 h2 => h1.trans h2⟩

theorem C18_xml_equivalence :
    (∀ a, XmlEquiv a a) ∧ (∀ a b, XmlEquiv a b → XmlEquiv b a) ∧ (∀ a b c, XmlEquiv a b → XmlEquiv b c → XmlEquiv a c) ∧
    (∀ a b, SameTopo a b → XmlEquiv a b) :=
  ⟨XmlEquiv.refl, fun _ _ h => h.symm, fun _ _ _ h1 h2 => h1.trans h2, fun _ _ h => XmlEquiv.of_same h⟩

/-- a well-formed default load is its own disallowed view (nothing is disallowed ⇒ both loads may coincide) -/
theorem C18_disallowed_refl (d : Dump) (h : WF d) (hf : flagIncludeDisallowed d = false) : DisallowedView d d :=
  DisallowedView.refl_of_wf d h hf

/-- identical loads are interchangeable on both sides -/
theorem C18_disallowed_congr {a a' b b' : Dump} (h : DisallowedView a b) (ha : SameTopo a a') (hb : SameTopo b b') :
    DisallowedView a' b' := h.congr ha hb

/-- the inclusion clauses of the statement: every PU and NUMA node of the default load is in the
INCLUDE_DISALLOWED load, its allowed sets are the default load's root sets, and (with `WF`) the default
load's root sets are subsets of the INCLUDE_DISALLOWED load's root sets -/
theorem C18_disallowed_inclusion {dD dI : Dump} (h : DisallowedView dD dI) (hw : WF dI) :
    (∀ i, i ∈ dD.osIndexes tPU → i ∈ dI.osIndexes tPU) ∧ (∀ i, i ∈ dD.osIndexes tNUMA → i ∈ dI.osIndexes tNUMA) ∧
    dI.allowedCpuset = dD.rootCpuset ∧ dI.allowedNodeset = dD.rootNodeset ∧
    subset (dD.rootCpuset.getD 0) (dI.rootCpuset.getD 0) = true ∧
    subset (dD.rootNodeset.getD 0) (dI.rootNodeset.getD 0) = true :=
  ⟨h.pus, h.numas, h.allowedCpu, h.allowedNode, (h.root_subset hw).1, (h.root_subset hw).2⟩

/-- object inclusion composes along a chain of views -/
theorem C18_disallowed_objects_trans {a b c : Dump} (h1 : DisallowedView a b) (h2 : DisallowedView b c) :
    (∀ i, i ∈ a.osIndexes tPU → i ∈ c.osIndexes tPU) ∧ (∀ i, i ∈ a.osIndexes tNUMA → i ∈ c.osIndexes tNUMA) :=
  h1.objects_trans h2

/-! ### non-vacuity -/

example : AscFrom 0 [(0, 3), (8, 11), (13, 13)] := by simp [AscFrom]
example : renderList [(0, 3), (8, 11), (13, 13)] = str "0-3,8-11,13\n" := by decide
example : cpulist Bitmap.alloc (str "0-3,8-11,13\n") = some ⟨[0x2f0f#64], false⟩ := by decide
example : renderMask [0x1, 0x8000000f] = str "00000001,8000000f\n" := by decide
/-- an instance of the specification with a leading all-zero group (skipped by the loop): bit 32 = bit 0 of
the middle group, bit 63 = bit 31 of the last group -/
example : (cpumask Bitmap.alloc 8 (renderMask [0, 1, 0x8000000f])).mem 32 = true ∧
    (cpumask Bitmap.alloc 8 (renderMask [0, 1, 0x8000000f])).mem 31 = true ∧
    (cpumask Bitmap.alloc 8 (renderMask [0, 1, 0x8000000f])).mem 33 = false := by
  have hg : ∀ g ∈ [0, 1, 0x8000000f], g < 2^32 := by decide
  refine ⟨?_, ?_, ?_⟩ <;> rw [C18_cpumask_spec _ _ (by decide) _ (by decide) hg] <;> decide
example : maskWord [1#64, 0x8000000f#64] 0 = 0x18000000f#64 := by decide
/-- ten groups: `maps[]` grows from 8 to 16 -/
example : (maskState 8 (renderMask [1, 2, 3, 4, 5, 6, 7, 8, 9, 10])).alloc = 16 := by decide
example : readFd 4 [5, 4, 3] = .ok 16 12 17 [(9, 3, 17), (5, 4, 9), (0, 5, 5)] := by decide

def exPU (i : Nat) : Obj := { (default : Obj) with id := i + 1, type := tPU, osidx := i, cpuset := some (single i) }
def exRoot (cs : Nat) : Obj := { (default : Obj) with id := 0, type := tMACHINE, cpuset := some cs, nodeset := some 1 }
def exDefault : Dump := { (default : Dump) with objs := [exRoot 1, exPU 0], allowedCpuset := some 1, allowedNodeset := some 1 }
def exIncl : Dump := { (default : Dump) with flags := 1, objs := [exRoot 3, exPU 0, exPU 1], allowedCpuset := some 1, allowedNodeset := some 1 }
/-- a default view with PU 0 and an INCLUDE_DISALLOWED view with PUs 0 and 1 (PU 1 disallowed) -/
example : DisallowedView exDefault exIncl := (disallowedCheck_iff _ _).mp (by decide)
example : ¬ DisallowedView exIncl exDefault := fun h => by
  have := (disallowedCheck_iff _ _).mpr h
  revert this; decide
example : ¬ SameTopo exDefault exIncl := by unfold SameTopo; decide

end Hw.Props.C18
