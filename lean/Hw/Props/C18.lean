/-
  Property C18 — discovery from Linux/x86 snapshots is robust, deterministic and self-consistent.

  PARTIAL by design (DESIGN.md section 4, C18): the 8000-line Linux and 2000-line x86 back ends are not
  modelled.  What is proved here, for ALL inputs:
    * the pure parsers every Linux sysfs read goes through (`hwloc__read_fd`, `…_as_cpulist`,
      `…_as_cpumask`, model in Hw/Io/LinuxParse.lean, tied to the C code by the `linuxparse` engine):
      specification on well-formed kernel files, safety on arbitrary bytes / arbitrary read() patterns;
    * (A9) the next layer of string / number logic of topology-linux.c, for EVERY file content: the numeric
      readers `hwloc_read_path_by_length / _as_int / _as_uint / _as_uint64`, `hwloc_parse_meminfo_info`,
      `hwloc_parse_hugepages_info` (Hw/Io/LinuxNum.lean) and the cgroup / cpuset handling
      `hwloc_linux__get_allowed_resources` = `hwloc_find_linux_cgroup_mntpnt` (glibc getmntent_r modelled) +
      `hwloc_read_linux_cgroup_name` + `hwloc_admin_disable_set_from_cgroup` (Hw/Io/LinuxCgroup.lean): every
      store stays inside the fixed C buffers, every pointer stays inside its string, the loops end, and the
      results are characterised (first matching line / first key / value of the leading digits);
    * the relations the `snapshots` engine judges loads with (`SameTopo`, `DisallowedView`, `XmlEquiv`,
      Hw/Topo/Relations.lean): their executable checkers are exact, they are equivalences where claimed,
      and `DisallowedView` + `WF` give the inclusion clauses of the property statement.
    * (B7) the CPUID-dump reading layer of topology-x86.c (HWLOC_CPUID_PATH; Hw/Io/X86Dump.lean, engine `x86dump`), for
      EVERY file content / table / query / directory listing: `cpuiddump_read` never stores outside the array it
      sized in its first pass and returns exactly the fully converted non-comment fgets lines; `cpuiddump_find_by_input`
      returns the first matching entry or zeros, and is order independent exactly when matching entries agree;
      `cpuiddump_free` leaks the array iff the table is empty; `hwloc_x86_check_cpuiddump_input` accepts iff the
      first 17 bytes of the summary are `Architecture: x86` and the `pu` indexes are exactly 0 … n-1;
  That the back ends establish `WF` and the relations on every snapshot / configuration / fault sequence
  is NOT proved: it is checked by these proved oracles on every load of every run.
-/
import Hw.Io.LinuxParseLemmas
import Hw.Io.LinuxNumLemmas
import Hw.Io.LinuxCgroupLemmas
import Hw.Io.X86DumpLemmas
import Hw.Topo.Relations
namespace Hw.Props.C18
open Hw Hw.LinuxParse Hw.Topo Hw.LinuxNum Hw.LinuxCgroup

/-! ### cpulist -/

/-- for every well-formed kernel list (ascending disjoint `a` / `a-b` items below 2^31-1, decimal,
comma separated, newline terminated) the result is exactly the union of the items, and finite -/
theorem C18_cpulist_spec (dst : Bitmap) (items : List (Nat × Nat)) (hne : items ≠ []) (h : AscFrom 0 items) :
    ∃ b, cpulist dst (renderList items) = some b ∧ b.inf = false ∧
      ∀ n, b.mem n = items.any (fun it => decide (it.1 ≤ n) && decide (n ≤ it.2)) :=
  cpulist_spec dst items hne h

/-- arbitrary bytes: the result is undefined (signed overflow in `prevlast+1` / `nextfirst-1`, finding
C18-F1) exactly when some comma-separated piece starts at INT_MIN or ends at INT_MAX after the
`unsigned long → int` reduction; otherwise it is a well-formed finite bitmap.  The previous content of
the destination never matters. -/
theorem C18_cpulist_safe (dst : Bitmap) (bytes : List Byte) :
    (cpulist dst bytes = none ↔ ∃ seg ∈ clSegs bytes, seg.1 = intMin ∨ seg.2 = intMax) ∧
    (∀ b, cpulist dst bytes = some b → b.Inv ∧ b.inf = false) ∧
    (∀ dst', cpulist dst' bytes = cpulist dst bytes) :=
  ⟨cpulist_none_iff dst bytes, fun b h => cpulist_some dst bytes b h, fun _ => rfl⟩

/-- what the code does on an empty file (or a lone newline, which is what the kernel prints for an empty
list): the set {0}, not the empty set -/
theorem C18_cpulist_empty (dst : Bitmap) (bytes : List Byte) (h : bytes = [] ∨ bytes = [10]) :
    ∃ b, cpulist dst bytes = some b ∧ ∀ n, b.mem n = decide (n = 0) := cpulist_empty dst bytes h

/-- negative fact: the overflow of `C18_cpulist_safe` is reachable -/
theorem C18_cpulist_overflow_reachable (dst : Bitmap) : cpulist dst (str "0-2147483647") = none :=
  cpulist_overflow_example dst

/-- the sign-aware scanner used here agrees with the C04 `strtoul` model wherever that one is defined -/
theorem C18_strtoul_agrees (base : Nat) (s : List Byte) (v : Nat) (r : List Byte)
    (h : strtoul base s = .ok v r) : strtoulS base s = (v, r) := strtoulS_of_ok base s v r h

/-! ### cpumask -/

/-- for every well-formed kernel mask (32-bit groups printed `%08x`, most significant first, comma
separated, newline terminated): bit 32k+j of the result is set iff group k from the right has bit j -/
theorem C18_cpumask_spec (dst : Bitmap) (alloc0 : Nat) (h0 : 1 ≤ alloc0) (gs : List Nat) (hne : gs ≠ [])
    (hg : ∀ g ∈ gs, g < 2^32) (n : Nat) :
    (cpumask dst alloc0 (renderMask gs)).mem n =
      (match gs.reverse[n / 32]? with | some g => g.testBit (n % 32) | none => false) :=
  cpumask_spec dst alloc0 h0 gs hne hg n

/-- arbitrary bytes, any initial `_nr_maps_allocated ≥ 1`: every `maps[i] = …` has `i < nr_maps_allocated` -/
theorem C18_cpumask_safe (alloc0 : Nat) (h0 : 1 ≤ alloc0) (bytes : List Byte) :
    ∀ w ∈ (maskState alloc0 bytes).writes, w.1 < w.2 := cpumask_safe alloc0 h0 bytes

/-- arbitrary bytes: the result is a well-formed finite bitmap -/
theorem C18_cpumask_finite (dst : Bitmap) (alloc0 : Nat) (bytes : List Byte) :
    (cpumask dst alloc0 bytes).Inv ∧ (cpumask dst alloc0 bytes).inf = false := cpumask_inv dst alloc0 bytes

/-! ### hwloc__read_fd -/

/-- for every initial size > 0 and every sequence of read() results (full, short, over-long — clipped as
the kernel does —, failing): every read stores inside the allocation of that moment, `buffer[totalread]`
is inside the final allocation, which is `*sizep + 1`; and the loop ends -/
theorem C18_readfd_bounds (size0 : Nat) (h0 : 0 < size0) (rets : List Int) : (readFd size0 rets).Safe :=
  readFd_safe size0 h0 rets

/-- the precondition is needed: `*sizep = 0` makes the real loop spin (no caller passes 0) -/
theorem C18_readfd_zero_hangs : readFd 0 [1] = .hang := readFd_zero_hangs

/-! ### the relations between loads -/

theorem C18_wf_oracle_exact (d : Dump) : wfCheck d = [] ↔ WF d := wfCheck_iff d
theorem C18_same_oracle_exact (a b : Dump) : sameCheck a b = [] ↔ SameTopo a b := sameCheck_iff a b
theorem C18_disallowed_oracle_exact (a b : Dump) : disallowedCheck a b = [] ↔ DisallowedView a b := disallowedCheck_iff a b
theorem C18_xml_oracle_exact (a b : Dump) : xmlCheck a b = [] ↔ XmlEquiv a b := xmlCheck_iff a b

/-- "two loads produce identical topologies" is an equivalence relation -/
theorem C18_same_equivalence :
    (∀ a, SameTopo a a) ∧ (∀ a b, SameTopo a b → SameTopo b a) ∧ (∀ a b c, SameTopo a b → SameTopo b c → SameTopo a c) :=
  ⟨SameTopo.refl, fun _ _ h => h.symm, fun _ _ _ h1 h2 => h1.trans h2⟩

theorem C18_xml_equivalence :
    (∀ a, XmlEquiv a a) ∧ (∀ a b, XmlEquiv a b → XmlEquiv b a) ∧ (∀ a b c, XmlEquiv a b → XmlEquiv b c → XmlEquiv a c) ∧
    (∀ a b, SameTopo a b → XmlEquiv a b) :=
  ⟨XmlEquiv.refl, fun _ _ h => h.symm, fun _ _ _ h1 h2 => h1.trans h2, fun _ _ h => XmlEquiv.of_same h⟩

/-- a well-formed default load is its own disallowed view (nothing is disallowed ⇒ both loads may coincide) -/
theorem C18_disallowed_refl (d : Dump) (h : WF d) (hf : flagIncludeDisallowed d = false) : DisallowedView d d :=
  DisallowedView.refl_of_wf d h hf

/-- identical loads are interchangeable on both sides -/
theorem C18_disallowed_congr {a a' b b' : Dump} (h : DisallowedView a b) (ha : SameTopo a a') (hb : SameTopo b b') :
    DisallowedView a' b' := h.congr ha hb

/-- the inclusion clauses of the statement: every PU and NUMA node of the default load is in the
INCLUDE_DISALLOWED load, its allowed sets are the default load's root sets, and (with `WF`) the default
load's root sets are subsets of the INCLUDE_DISALLOWED load's root sets -/
theorem C18_disallowed_inclusion {dD dI : Dump} (h : DisallowedView dD dI) (hw : WF dI) :
    (∀ i, i ∈ dD.osIndexes tPU → i ∈ dI.osIndexes tPU) ∧ (∀ i, i ∈ dD.osIndexes tNUMA → i ∈ dI.osIndexes tNUMA) ∧
    dI.allowedCpuset = dD.rootCpuset ∧ dI.allowedNodeset = dD.rootNodeset ∧
    subset (dD.rootCpuset.getD 0) (dI.rootCpuset.getD 0) = true ∧
    subset (dD.rootNodeset.getD 0) (dI.rootNodeset.getD 0) = true :=
  ⟨h.pus, h.numas, h.allowedCpu, h.allowedNode, (h.root_subset hw).1, (h.root_subset hw).2⟩

/-- object inclusion composes along a chain of views -/
theorem C18_disallowed_objects_trans {a b c : Dump} (h1 : DisallowedView a b) (h2 : DisallowedView b c) :
    (∀ i, i ∈ a.osIndexes tPU → i ∈ c.osIndexes tPU) ∧ (∀ i, i ∈ a.osIndexes tNUMA → i ∈ c.osIndexes tNUMA) :=
  h1.objects_trans h2


/-! ### (A9) hwloc_read_path_by_length and the numeric readers -/

/-- every file content, every buffer size: a successful read stores exactly the first `length-1` bytes of the
file, at least one, and the terminating NUL `string[ret] = 0` is written inside the `length`-byte buffer -/
theorem C18_readlen_bounds (length : Nat) (content buf : List Byte) (h : readByLength length content = some buf) :
    buf = content.take (length - 1) ∧ 0 < buf.length ∧ buf.length < length := readByLength_some length content buf h

/-- -1 exactly for an empty file (or a buffer with no room for a byte) -/
theorem C18_readlen_fails_iff (length : Nat) (content : List Byte) :
    readByLength length content = none ↔ (content = [] ∨ length ≤ 1) := readByLength_none_iff length content

/-- the readers depend only on the first K bytes of the file: K = 10 (int, unsigned), 21 (uint64), 4095 (meminfo) -/
theorem C18_readers_prefix (c : List Byte) :
    readInt (some c) = readInt (some (c.take 10)) ∧ readUint (some c) = readUint (some (c.take 10)) ∧
    readUint64 (some c) = readUint64 (some (c.take 21)) ∧ meminfo (some c) = meminfo (some (c.take 4095)) := by
  refine ⟨?_, ?_, ?_, ?_⟩
  · unfold readInt; rw [readPath_prefix intBuf c (c.take 10) (by simp [intBuf, List.take_take])]
  · unfold readUint; rw [readPath_prefix uintBuf c (c.take 10) (by simp [uintBuf, List.take_take])]
  · unfold readUint64; rw [readPath_prefix u64Buf c (c.take 21) (by simp [u64Buf, List.take_take])]
  · exact meminfo_prefix c (c.take 4095) (by simp [List.take_take])

/-- C strings in the buffer end at or before the NUL that was stored: every libc scan stays inside -/
theorem C18_cstr_inside (buf : List Byte) : (cstr buf).length ≤ buf.length := cstr_length_le buf

/-- `hwloc_read_path_as_uint` on a file that starts with decimal digits (followed by anything that is no digit,
e.g. the kernel's newline, or nothing): the value of the digits that fit `char string[11]` (the first 10),
saturated by strtoul at 2^64-1, reduced modulo 2^32 by the `(unsigned)` cast -/
theorem C18_uint_value (ds rest : List Byte) (hne : ds ≠ []) (hds : ∀ c ∈ ds, IsDecChar c) (hr : NoDecHead rest) :
    readUint (some (ds ++ rest)) = some (min (decVal (ds.take 10)) ulongMax % 2^32) := readUint_decs ds rest hne hds hr

/-- `hwloc_read_path_as_uint64`: the first 21 digits, saturated at 2^64-1 (strtoull) -/
theorem C18_uint64_value (ds rest : List Byte) (hne : ds ≠ []) (hds : ∀ c ∈ ds, IsDecChar c) (hr : NoDecHead rest) :
    readUint64 (some (ds ++ rest)) = some (min (decVal (ds.take 21)) ulongMax) := readUint64_decs ds rest hne hds hr

/-- `hwloc_read_path_as_int` (atoi): the first 10 digits, saturated by strtol, reduced into the `int` range -/
theorem C18_int_value (ds rest : List Byte) (hne : ds ≠ []) (hds : ∀ c ∈ ds, IsDecChar c) (hr : NoDecHead rest) :
    readInt (some (ds ++ rest)) = some (wrapInt32 ((min (decVal (ds.take 10)) (2^63 - 1) : Nat) : Int)) :=
  readInt_decs ds rest hne hds hr

/-- every file: the values delivered fit their C types (total functions: no other outcome exists) -/
theorem C18_num_ranges (f : Option (List Byte)) :
    (∀ v, readInt f = some v → -(2^31 : Int) ≤ v ∧ v < 2^31) ∧ (∀ v, readUint f = some v → v < 2^32) :=
  ⟨readInt_range f, readUint_range f⟩

/-! ### (A9) hwloc_parse_meminfo_info -/

/-- every file: a value is stored iff `MemTotal: ` occurs in the C string of the 4096-byte buffer; it is then
the number behind the FIRST occurrence (strtoull base 10) times 1024 modulo 2^64, and `tmp+10` points inside
the string (at most at its NUL) -/
theorem C18_meminfo_first_key (f : Option (List Byte)) (v : Nat) :
    meminfo f = some v ↔
      ∃ b i, readPath memBuf f = some b ∧ FirstOcc memKey (cstr b) i ∧ i + 10 ≤ (cstr b).length ∧
        v = ((strtoulS 10 ((cstr b).drop (i + 10))).1 <<< 10) % 2^64 := meminfo_some_iff f v

/-- `*local_memory` keeps its old value exactly when the file is unreadable / empty or has no key in reach -/
theorem C18_meminfo_keeps_iff (f : Option (List Byte)) :
    meminfo f = none ↔ (readPath memBuf f = none ∨
      ∃ b, readPath memBuf f = some b ∧ ∀ j, j ≤ (cstr b).length → ¬ memKey <+: (cstr b).drop j) := meminfo_none_iff f

/-- the kernel's format (global and per-node meminfo alike): anything, then `MemTotal:` + blanks + decimal digits +
anything that is no digit, the key not occurring earlier, the file NUL-free and within the 4095 bytes read: the value
stored is the number of kB (saturated at 2^64-1 by strtoull) times 1024, modulo 2^64 -/
theorem C18_meminfo_kernel (pre ds rest : List Byte) (k : Nat) (hne : ds ≠ []) (hds : ∀ c ∈ ds, IsDecChar c) (hr : NoDecHead rest)
    (hfit : (pre ++ (memKey ++ (List.replicate k 32 ++ (ds ++ rest)))).length ≤ 4095)
    (hnz : ∀ c ∈ pre ++ (memKey ++ (List.replicate k 32 ++ (ds ++ rest))), c ≠ 0)
    (hfirst : ∀ j, j < pre.length → ¬ memKey <+: (pre ++ (memKey ++ (List.replicate k 32 ++ (ds ++ rest)))).drop j) :
    meminfo (some (pre ++ (memKey ++ (List.replicate k 32 ++ (ds ++ rest))))) = some ((min (decVal ds) ulongMax * 1024) % 2^64) :=
  meminfo_kernel pre ds rest k hne hds hr hfit hnz hfirst

/-- strstr: the index found is the first occurrence, and only that -/
theorem C18_strstr_first (pat s : List Byte) (i : Nat) : findSub pat s = some i ↔ FirstOcc pat s i := findSub_iff pat s i

/-! ### (A9) hwloc_parse_hugepages_info -/

/-- every directory listing, every file content, any initial `allocated_page_types ≥ 1`: every store into
`page_types[index_]` is below the allocation of that moment, and `page_types_len ≤ allocated_page_types` -/
theorem C18_hugepages_safe (dirlen alloc0 remaining : Nat) (h0 : 1 ≤ alloc0) (entries : List HPEntry) :
    (∀ w ∈ (hugepages dirlen alloc0 remaining entries).writes, w.1 < w.2) ∧
    (hugepages dirlen alloc0 remaining entries).index ≤ (hugepages dirlen alloc0 remaining entries).alloc :=
  ⟨(hugepages_ok dirlen alloc0 remaining h0 entries).writes_ok, (hugepages_ok dirlen alloc0 remaining h0 entries).index_le⟩

/-! ### (A9) hwloc_read_linux_cgroup_name -/

/-- fgets: at most `n-1` bytes stored (the NUL fits), nothing lost, and progress on a non-empty stream -/
theorem C18_fgets_bounds (n : Nat) (s : List Byte) :
    (fgets n s).1.length ≤ n - 1 ∧ (fgets n s).1 ++ (fgets n s).2 = s ∧
    (2 ≤ n → s ≠ [] → (fgets n s).2.length < s.length) :=
  ⟨fgets_length n s, fgetsAux_append _ s, fun hn hs => fgets_progress n hn s hs⟩

/-- /proc/self/cpuset wins: with at least one byte in it the name is its first line (first 127 bytes, up to a
NUL), whatever /proc/self/cgroup holds -/
theorem C18_cgname_cpuset_wins (c : List Byte) (hc : c ≠ []) (cg : Option (List Byte)) :
    cgroupName (some c) cg = some (chopNl (cstr (c.take 127))) := cgroupName_cpuset_file c hc cg

/-- every /proc/self/cgroup content: the loop returns the path of the FIRST fgets line (256-byte buffer: longer
lines are seen in pieces) whose first colon starts `:cpuset:` or `::` -/
theorem C18_cgname_first_match (fuel : Nat) (s : List Byte) :
    cgLoop fuel s = (chunks cgroupLineLen fuel s).findSome? (fun ch => cgLineMatch (cstr ch)) := cgLoop_eq_findSome fuel s

/-- the loop ends: the fuel `length+1` that `cgroupName` passes is enough, more fuel changes nothing -/
theorem C18_cgname_terminates (fuel : Nat) (s : List Byte) (h : s.length < fuel) : cgLoop fuel s = cgLoop (s.length + 1) s :=
  cgLoop_fuel fuel (s.length + 1) s h (by omega)

/-- well-formed kernel content (newline-terminated lines shorter than the buffer, no NUL): the name is the path of
the first line of the form `<no colon>:cpuset:<path>` or `<no colon>::<path>` -/
theorem C18_cgname_kernel (ls : List (List Byte))
    (hwf : ∀ l ∈ ls, (∀ c ∈ l, c ≠ 10 ∧ c ≠ 0) ∧ l.length + 1 ≤ cgroupLineLen - 1) :
    cgroupName none (some (joinLines ls)) = ls.findSome? (fun l => cgLineMatch (l ++ [10])) := by
  unfold cgroupName readPath
  simp only [Option.bind_none]
  exact cgLoop_joinLines ls _ (by have := joinLines_length_ge ls; omega) hwf

theorem C18_cgname_line_forms (pre path r : List Byte) (hpre : ∀ c ∈ pre, c ≠ 58) (hpath : ∀ c ∈ path, c ≠ 10) :
    cgLineMatch (pre ++ str ":cpuset:" ++ path ++ 10 :: r) = some path ∧
    cgLineMatch (pre ++ str "::" ++ path ++ 10 :: r) = some path ∧
    cgLineMatch pre = none :=
  ⟨cgLineMatch_v1 pre path r hpre hpath, cgLineMatch_v2 pre path r hpre hpath, cgLineMatch_nocolon pre hpre⟩

/-- pointer safety: the path handed to strdup starts at `line + k`, `k ≤ strlen(line)` (`colon+8` / `colon+2`
never pass the NUL), and the name returned is at most 255 bytes long -/
theorem C18_cgname_safe :
    (∀ line p, cgLineMatch line = some p → ∃ k, k ≤ line.length ∧ p = chopNl (line.drop k)) ∧
    (∀ a b p, cgroupName a b = some p → p.length ≤ 255) :=
  ⟨cgLineMatch_inside, cgroupName_length⟩

/-! ### (A9) hwloc_find_linux_cgroup_mntpnt -/

/-- the three standard mount points are tried first, in this order, and win over /proc/mounts -/
theorem C18_mntpnt_standard (acc : List Byte → Bool) (fs : FS) (bufsiz : Nat) (mounts : Option (List Byte)) :
    (acc (str "/sys/fs/cgroup/cpuset.cpus.effective") = true →
      findMntpnt acc fs bufsiz mounts = some (.cgroup2, str "/sys/fs/cgroup")) ∧
    (acc (str "/sys/fs/cgroup/cpuset.cpus.effective") = false → acc (str "/sys/fs/cgroup/cpuset/cpuset.cpus") = true →
      findMntpnt acc fs bufsiz mounts = some (.cgroup1, str "/sys/fs/cgroup/cpuset")) ∧
    (acc (str "/sys/fs/cgroup/cpuset.cpus.effective") = false → acc (str "/sys/fs/cgroup/cpuset/cpuset.cpus") = false →
      acc (str "/dev/cpuset/cpus") = true → findMntpnt acc fs bufsiz mounts = some (.cpuset, str "/dev/cpuset")) :=
  findMntpnt_standard acc fs bufsiz mounts

/-- otherwise, for every /proc/mounts content: the answer is what the rule says about the FIRST entry (as
delivered by getmntent_r) that the rule accepts; entries behind it are never looked at -/
theorem C18_mntpnt_first_match (acc : List Byte → Bool) (fs : FS) (bufsiz : Nat) (m : List Byte)
    (h1 : acc (str "/sys/fs/cgroup/cpuset.cpus.effective") = false) (h2 : acc (str "/sys/fs/cgroup/cpuset/cpuset.cpus") = false)
    (h3 : acc (str "/dev/cpuset/cpus") = false) :
    findMntpnt acc fs bufsiz (some m) = (entries bufsiz (m.length + 1) m).findSome? (entMatch fs) ∧
    (∀ pre e post r, entries bufsiz (m.length + 1) m = pre ++ e :: post → (∀ y ∈ pre, entMatch fs y = none) →
      entMatch fs e = some r → findMntpnt acc fs bufsiz (some m) = some r) := by
  have h := findMntpnt_scan acc fs bufsiz m h1 h2 h3
  refine ⟨h, fun pre e post r he hpre hx => ?_⟩
  rw [h, he]; exact findSome_first _ pre e post r hpre hx

/-- well-formed kernel content (`fsname dir type opts 0 0` lines with plain fields — nothing to escape, no
comment —, each shorter than the 4-page buffer): getmntent_r delivers exactly these entries, so the answer is the
rule's verdict on the first line the rule accepts -/
theorem C18_mntpnt_kernel (acc : List Byte → Bool) (fs : FS) (bufsiz : Nat) (rs : List MntRaw) (hwf : ∀ r ∈ rs, r.Ok bufsiz)
    (h1 : acc (str "/sys/fs/cgroup/cpuset.cpus.effective") = false) (h2 : acc (str "/sys/fs/cgroup/cpuset/cpuset.cpus") = false)
    (h3 : acc (str "/dev/cpuset/cpus") = false) :
    findMntpnt acc fs bufsiz (some (renderMounts rs)) = (rs.map MntRaw.ent).findSome? (entMatch fs) := by
  rw [findMntpnt_scan acc fs bufsiz _ h1 h2 h3,
    entries_renderMounts bufsiz rs _ (by have := renderMounts_length_ge rs; omega) hwf]

/-- the scan ends for every content: the fuel `length+1` that `findMntpnt` passes is enough (each getmntent_r call
consumes at least one byte), more fuel changes nothing -/
theorem C18_mntpnt_terminates (fs : FS) (bufsiz : Nat) (hb : 2 ≤ bufsiz) (fuel : Nat) (s : List Byte) (h : s.length < fuel) :
    mntLoop fs bufsiz fuel s = mntLoop fs bufsiz (s.length + 1) s ∧
    nextEnt bufsiz fuel s = nextEnt bufsiz (s.length + 1) s ∧
    (∀ e r, nextEnt bufsiz fuel s = some (e, r) → r.length < s.length) :=
  ⟨mntLoop_fuel fs bufsiz hb fuel _ s h (by omega), nextEnt_fuel bufsiz hb fuel _ s h (by omega),
   fun e r => nextEnt_rest bufsiz hb fuel s e r⟩

/-- the rule, by file-system type: `cpuset` always; `cgroup` iff `cpuset` is one of the comma-separated options
(a cpuset mount when `noprefix` is one too); `cgroup2` iff `<dir>/cgroup.controllers` (name cut at 255 bytes)
can be read and `cpuset` is one of the space-separated words of its first line within the first 1023 bytes;
nothing else; and the mount point returned is always the directory field of the accepted entry -/
theorem C18_mntpnt_rule (fs : FS) (e : MntEnt) :
    (e.type = str "cpuset" → entMatch fs e = some (.cpuset, e.dir)) ∧
    (e.type = str "cgroup" → entMatch fs e =
      (if (splitBy 44 e.opts).contains (str "cpuset") then
        (if (splitBy 44 e.opts).contains (str "noprefix") then some (.cpuset, e.dir) else some (.cgroup1, e.dir))
       else none)) ∧
    (e.type = str "cgroup2" → entMatch fs e =
      (match readPath ctrlsLen (fs (ctrlPath e.dir)) with
       | some b => if ctrlHasCpuset b then some (.cgroup2, e.dir) else none
       | none => none)) ∧
    (e.type ≠ str "cgroup2" → e.type ≠ str "cpuset" → e.type ≠ str "cgroup" → entMatch fs e = none) ∧
    (∀ t d, entMatch fs e = some (t, d) → d = e.dir) :=
  ⟨entMatch_cpuset fs e, entMatch_cgroup1 fs e, entMatch_cgroup2 fs e, entMatch_other fs e, entMatch_dir fs e⟩

/-- buffers: `snprintf(ctrlpath, 256, "%s/cgroup.controllers")` stays inside `char ctrlpath[256]` for every mount
directory, and glibc's in-place `decode_name` never lengthens a field -/
theorem C18_mntpnt_buffers (dir field : List Byte) :
    (ctrlPath dir).length < ctrlPathLen ∧ (decodeName field).length ≤ field.length :=
  ⟨ctrlPath_length dir, decodeName_length field⟩

/-! ### (A9) hwloc_admin_disable_set_from_cgroup, hwloc_linux__get_allowed_resources -/

/-- the cpuset file name always fits `char cpuset_filename[256]`; when nothing is cut it is
`<mntpnt><cgroup name>/cpuset.<attr>.effective` (cgroup2), `…/cpuset.<attr>` (cgroup1), `…/<attr>` (cpuset) -/
theorem C18_admin_path (t : CgType) (mnt name attr : List Byte) :
    (cpusetPath t mnt name attr).length < cpusetFilenameLen ∧
    ((mnt ++ name ++ cpusetSuffix t attr).length ≤ 255 → cpusetPath t mnt name attr = mnt ++ name ++ cpusetSuffix t attr) :=
  ⟨cpusetPath_length t mnt name attr, cpusetPath_exact t mnt name attr⟩

/-- what is combined with what: nothing is intersected.  The set is REPLACED by the cpulist read from that file
(`hwloc__read_path_as_cpulist`, see `C18_cpulist_spec` / `C18_cpulist_safe`), or filled when the file cannot be
read; its previous content never matters -/
theorem C18_admin_replaces (fs : FS) (t : CgType) (mnt name attr : List Byte) (s s' : Bitmap) :
    adminDisable fs t mnt name attr s = adminDisable fs t mnt name attr s' ∧
    (fs (cpusetPath t mnt name attr) = none → adminDisable fs t mnt name attr s = some s.fill) ∧
    (∀ c, fs (cpusetPath t mnt name attr) = some c → adminDisable fs t mnt name attr s = cpulist s c) :=
  ⟨adminDisable_replaces fs t mnt name attr s s', adminDisable_missing fs t mnt name attr s,
   fun c h => adminDisable_file fs t mnt name attr c s h⟩

/-- the composition: without a mount point or without a cgroup name nothing changes and `*cpuset_namep = NULL`;
otherwise both allowed sets are replaced through the same (type, mount point, name) triple -/
theorem C18_allowed_compose (acc : List Byte → Bool) (fs : FS) (bufsiz : Nat) (cpus mems : Bitmap) :
    ((findMntpnt acc fs bufsiz (fs (str "/proc/mounts")) = none ∨
      cgroupName (fs (str "/proc/self/cpuset")) (fs (str "/proc/self/cgroup")) = none) →
      getAllowed acc fs bufsiz cpus mems = { name := none, cpus := some cpus, mems := some mems }) ∧
    (∀ t mnt name, findMntpnt acc fs bufsiz (fs (str "/proc/mounts")) = some (t, mnt) →
      cgroupName (fs (str "/proc/self/cpuset")) (fs (str "/proc/self/cgroup")) = some name →
      getAllowed acc fs bufsiz cpus mems =
        { name := some name, cpus := adminDisable fs t mnt name (str "cpus") cpus,
          mems := adminDisable fs t mnt name (str "mems") mems }) :=
  ⟨getAllowed_untouched acc fs bufsiz cpus mems, fun t mnt name => getAllowed_found acc fs bufsiz cpus mems t mnt name⟩

/-! ### non-vacuity -/

example : AscFrom 0 [(0, 3), (8, 11), (13, 13)] := by simp [AscFrom]
example : renderList [(0, 3), (8, 11), (13, 13)] = str "0-3,8-11,13\n" := by decide
example : cpulist Bitmap.alloc (str "0-3,8-11,13\n") = some ⟨[0x2f0f#64], false⟩ := by decide
example : renderMask [0x1, 0x8000000f] = str "00000001,8000000f\n" := by decide
/-- an instance of the specification with a leading all-zero group (skipped by the loop): bit 32 = bit 0 of
the middle group, bit 63 = bit 31 of the last group -/
example : (cpumask Bitmap.alloc 8 (renderMask [0, 1, 0x8000000f])).mem 32 = true ∧
    (cpumask Bitmap.alloc 8 (renderMask [0, 1, 0x8000000f])).mem 31 = true ∧
    (cpumask Bitmap.alloc 8 (renderMask [0, 1, 0x8000000f])).mem 33 = false := by
  have hg : ∀ g ∈ [0, 1, 0x8000000f], g < 2^32 := by decide
  refine ⟨?_, ?_, ?_⟩ <;> rw [C18_cpumask_spec _ _ (by decide) _ (by decide) hg] <;> decide
example : maskWord [1#64, 0x8000000f#64] 0 = 0x18000000f#64 := by decide
/-- ten groups: `maps[]` grows from 8 to 16 -/
example : (maskState 8 (renderMask [1, 2, 3, 4, 5, 6, 7, 8, 9, 10])).alloc = 16 := by decide
example : readFd 4 [5, 4, 3] = .ok 16 12 17 [(9, 3, 17), (5, 4, 9), (0, 5, 5)] := by decide

def exPU (i : Nat) : Obj := { (default : Obj) with id := i + 1, type := tPU, osidx := i, cpuset := some (single i) }
def exRoot (cs : Nat) : Obj := { (default : Obj) with id := 0, type := tMACHINE, cpuset := some cs, nodeset := some 1 }
def exDefault : Dump := { (default : Dump) with objs := [exRoot 1, exPU 0], allowedCpuset := some 1, allowedNodeset := some 1 }
def exIncl : Dump := { (default : Dump) with flags := 1, objs := [exRoot 3, exPU 0, exPU 1], allowedCpuset := some 1, allowedNodeset := some 1 }
/-- a default view with PU 0 and an INCLUDE_DISALLOWED view with PUs 0 and 1 (PU 1 disallowed) -/
example : DisallowedView exDefault exIncl := (disallowedCheck_iff _ _).mp (by decide)
example : ¬ DisallowedView exIncl exDefault := fun h => by
  have := (disallowedCheck_iff _ _).mpr h
  revert this; decide
example : ¬ SameTopo exDefault exIncl := by unfold SameTopo; decide


/-! ### (A9) non-vacuity -/

example : readByLength 11 (str "4294967297\n") = some (str "4294967297") := by decide
/-- ten digits fill `char string[11]`: the newline is cut, the value wraps modulo 2^32 -/
example : readUint (some (str "4294967297\n")) = some 1 := by decide
/-- the hypotheses of `C18_uint_value` / `C18_uint64_value` / `C18_int_value` are met by what the kernel writes -/
example : (∀ c ∈ str "4294967297", IsDecChar c) ∧ NoDecHead (str "\n") ∧ decVal (str "4294967297") = 4294967297 := by
  refine ⟨by unfold IsDecChar; decide, ?_, by decide⟩
  intro c cs h
  have e : str "\n" = [10] := by decide
  rw [e] at h; injection h with h1 _; subst h1
  unfold IsDecChar; decide
/-- an eleventh digit is never seen -/
example : readUint (some (str "12345678901\n")) = some 1234567890 := by decide
example : readInt (some (str "-42\n")) = some (-42) ∧ readInt (some (str "2147483648\n")) = some (-2147483648) := by decide
example : readUint64 (some (str "99999999999999999999999\n")) = some (2^64 - 1) := by decide
example : readUint64 (some (str "-1\n")) = some (2^64 - 1) := by decide
example : meminfo (some (str "MemFree: 5 kB\nMemTotal:       16384 kB\nMemTotal: 7 kB\n")) = some (16384 * 1024) := by decide
example : FirstOcc memKey (str "XMemTotal: 3") 1 := (findSub_iff _ _ _).mp (by decide)
example : meminfo (some (str "MemTotal:\t7 kB\n")) = none := by decide
/-- three hugepage sizes into a 1-slot array: grown to 2, then 4; the entry without a readable count is overwritten -/
example : (hugepages 3 1 (10 * 2^30) [⟨str "hugepages-2048kB", some (str "512\n")⟩, ⟨str "other", none⟩,
      ⟨str "hugepages-64kB", none⟩, ⟨str "hugepages-1048576kB", some (str "2\n")⟩]) =
    { types := [(2048 * 1024, 512), (2^30, 2)], pending := none, alloc := 4, remaining := 7 * 2^30,
      writes := [(2, 4), (2, 4), (1, 2)] } := by decide
example : fgets 5 (str "abcdefg\nxy") = (str "abcd", str "efg\nxy") ∧ fgets 256 (str "ab\ncd") = (str "ab\n", str "cd") := by decide
example : cgroupName none (some (str "12:memory:/m\n3:cpu,cpuset:/no\n5:cpuset:/grp1\n0::/unified\n")) = some (str "/grp1") := by decide
example : joinLines [str "11:memory:/m", str "0::/user.slice"] = str "11:memory:/m\n0::/user.slice\n" := by decide
example : cgroupName (some (str "/a\nb\n")) (some (str "5:cpuset:/grp1\n")) = some (str "/a") := by decide
example : decodeName (str "/my\\040cg\\134x\\\\y\\012") = str "/my cg\\x\\y\n" := by decide
example : (nextEnt 16384 9 (str "# c\n \ncgroup /my\\040cg cgroup rw,cpuset 0 0\nrest")).map (·.1) =
    some { dir := str "/my cg", type := str "cgroup", opts := str "rw,cpuset" } := by decide
def exFs : FS := fun p => if p = str "/cg2/cgroup.controllers" then some (str "cpu cpuset io\n") else
  if p = str "/cg2/grp1/cpuset.cpus.effective" then some (str "0-3\n") else
  if p = str "/proc/mounts" then some (str "proc /proc proc rw 0 0\ncgroup2 /cg2 cgroup2 rw,nsdelegate 0 0\nnone /cs cpuset rw 0 0\n") else
  if p = str "/proc/self/cgroup" then some (str "0::/grp1\n") else none
/-- the cgroup2 line is accepted (its controllers file lists cpuset); the cpuset line behind it is not reached -/
example : findMntpnt (fun _ => false) exFs 16384 (exFs (str "/proc/mounts")) = some (.cgroup2, str "/cg2") := by decide
example : (entries 16384 80 (str "proc /proc proc rw 0 0\ncgroup2 /cg2 cgroup2 rw,nsdelegate 0 0\nnone /cs cpuset rw 0 0\n")).map (·.type) =
    [str "proc", str "cgroup2", str "cpuset"] := by decide
example : cpusetPath .cgroup2 (str "/cg2") (str "/grp1") (str "cpus") = str "/cg2/grp1/cpuset.cpus.effective" := by decide
/-- cpus replaced by {0..3} from the effective file, mems filled (no mems file) -/
example : getAllowed (fun _ => false) exFs 16384 Bitmap.allocFull Bitmap.alloc =
    { name := some (str "/grp1"), cpus := some ⟨[0xf#64], false⟩, mems := some ⟨[BitVec.allOnes 64], true⟩ } := by decide

/-- the hypotheses of `C18_mntpnt_kernel` are met by an ordinary container mount table -/
example : (⟨str "cgroup", str "/sys/fs/cgroup/cpuset", str "cgroup", str "rw,nosuid,cpuset"⟩ : MntRaw).Ok 16384 := by
  refine ⟨⟨by decide, by decide⟩, ⟨by decide, by decide⟩, ⟨by decide, by decide⟩, ⟨by decide, by decide⟩, ?_, by decide⟩
  intro t h
  have e : str "cgroup" = [99, 103, 114, 111, 117, 112] := by decide
  rw [show (⟨str "cgroup", str "/sys/fs/cgroup/cpuset", str "cgroup", str "rw,nosuid,cpuset"⟩ : MntRaw).fsname = str "cgroup" from rfl, e] at h
  injection h with h1 _
  exact absurd h1 (by decide)
example : renderMounts [⟨str "proc", str "/proc", str "proc", str "rw"⟩, ⟨str "none", str "/cs", str "cpuset", str "rw"⟩] =
    str "proc /proc proc rw 0 0\nnone /cs cpuset rw 0 0\n" := by decide

/-- the shape `C18_meminfo_kernel` speaks about: a per-node meminfo line -/
example : str "Node 0 " ++ (memKey ++ (List.replicate 7 32 ++ (str "16384" ++ str " kB\n"))) = str "Node 0 MemTotal:        16384 kB\n" ∧
    meminfo (some (str "Node 0 MemTotal:        16384 kB\n")) = some (16384 * 1024) := by decide

/-! ### (B7) the x86 CPUID-dump reading layer: cpuiddump_read / cpuiddump_find_by_input / cpuiddump_free /
hwloc_x86_check_cpuiddump_input (Hw/Io/X86Dump.lean) -/
section X86Dump
open Hw.X86Dump

/-- cpuiddump_read, memory safety for every file content and every initial content of the malloc'ed array: with one cell
per fgets line of the first pass (what the C allocates), no `entries[nr]` store of the second pass is at or above the
allocated count (`readFill` answers `none` for such a store), the array keeps its size and the final `nr` is within it -/
theorem C18_x86dump_read_safe (content : List Byte) (init : List Entry) (hinit : init.length = (lines content).length) :
    ∃ st, readFill content init = some st ∧ st.mem.length = init.length ∧ st.nr ≤ init.length := by
  obtain ⟨st, h1, h2, h3, _⟩ := readFill_safe content init hinit
  exact ⟨st, h1, h2, h3⟩

/-- … and its result: the first `nr` cells are exactly the entries of the non-comment fgets lines on which all 9
conversions succeeded, in file order, whatever the malloc'ed cells held and whatever partially converted lines stored -/
theorem C18_x86dump_read_table (content : List Byte) (init : List Entry) (hinit : init.length = (lines content).length) :
    ∃ st, readFill content init = some st ∧ st.mem.take st.nr = table content := by
  obtain ⟨st, h1, _, _, h4⟩ := readFill_safe content init hinit
  exact ⟨st, h1, h4⟩

/-- the line buffer: every fgets result handed to the loop body is non-empty and has at most 127 bytes (the NUL fits in
`char line[128]`), the C string sscanf reads lies inside it, and the lines concatenated are the file (nothing is skipped
or read twice; an over-long line is seen in 127-byte pieces) -/
theorem C18_x86dump_line_buffer (content : List Byte) :
    (∀ ch ∈ lines content, ch ≠ [] ∧ ch.length + 1 ≤ lineLen ∧ (cstr ch).length ≤ ch.length) ∧
    (lines content).flatten = content := by
  refine ⟨fun ch h => ?_, linesAux_flatten lineLen (by decide) _ _ (Nat.le_refl _)⟩
  have hb := linesAux_bounds lineLen (by decide) _ _ ch h
  exact ⟨hb.1, by have := hb.2; simp only [lineLen] at this ⊢; omega, LinuxNum.cstr_length_le ch⟩

/-- the number of entries never exceeds the number of lines counted (the allocation is sufficient for every content) -/
theorem C18_x86dump_nr_le_lines (content : List Byte) : (table content).length ≤ (lines content).length :=
  table_length_le content

/-- cpuiddump_free: `if (cpuiddump->nr) free(entries)` — the array cpuiddump_read allocated is leaked iff no line was
converted (empty file, comments only, malformed lines only) -/
theorem C18_x86dump_free_leaks_iff (content : List Byte) :
    freeLeaks (table content) = true ↔ ∀ ch ∈ lines content, parseLine ch = none := by
  simp [freeLeaks, table, List.filterMap_eq_nil_iff]

/-- cpuiddump_find_by_input, every table and query: the answer is the output of the FIRST entry (table order, from index
0: the code has no rotating start) whose masked inputs equal the query; all zeros exactly when no entry matches -/
theorem C18_x86dump_find_first (t : List Entry) (q : Regs) :
    (∃ pre e post, t = pre ++ e :: post ∧ (∀ x ∈ pre, x.matches q = false) ∧ e.matches q = true ∧
        findByInput t q = e.out) ∨
    ((∀ x ∈ t, x.matches q = false) ∧ findByInput t q = zeroRegs) := find_first t q

/-- a query sequence depends on the table only (no state is kept between queries) -/
theorem C18_x86dump_find_stateless (t : List Entry) (qs1 qs2 : List Regs) :
    findAll t (qs1 ++ qs2) = findAll t qs1 ++ findAll t qs2 := by simp [findAll]

/-- order independence, the exact condition: if all entries matching `q` answer alike (`Unamb`; e.g. unique input keys
under one mask), every reordering of the table — in particular every rotation, i.e. every start index — answers `q`
alike … -/
theorem C18_x86dump_find_order_indep (t t' : List Entry) (q : Regs) (hp : t.Perm t') (hu : Unamb t q) :
    findByInput t q = findByInput t' q := find_perm t t' q hp hu

theorem C18_x86dump_find_rotation (t : List Entry) (k : Nat) (q : Regs) (hu : Unamb t q) :
    findByInput (t.drop k ++ t.take k) q = findByInput t q := find_rotation t k q hu

/-- … and the condition is necessary: two entries matching `q` with different outputs are told apart by their order -/
theorem C18_x86dump_find_order_matters (e1 e2 : Entry) (q : Regs) (h1 : e1.matches q = true) (h2 : e2.matches q = true)
    (hne : e1.out ≠ e2.out) : findByInput [e1, e2] q ≠ findByInput [e2, e1] q := find_order_matters e1 e2 q h1 h2 hne

/-- the summary-file test (fopen, fgets into `char line[32]`, strncmp 17) is a test of the first 17 bytes of the file -/
theorem C18_x86dump_summary_iff (file : Option (List Byte)) :
    summaryOk file = true ↔ ∃ c, file = some c ∧ c.take 17 = archPat := by
  cases file with
  | none => simp [summaryOk]
  | some c => rw [summaryOk_iff]; simp

/-- hwloc_x86_check_cpuiddump_input returns 0 iff its rule holds: the directory opens, the summary starts with
`Architecture: x86`, and the indexes of the `pu<number>` entries are exactly 0 … n-1 for some n ≥ 1; then
`nbprocs = n` -/
theorem C18_x86dump_check_iff (dirOk : Bool) (summary : Option (List Byte)) (names : List (List Byte)) :
    (checkDir dirOk summary names).ok = true ↔
      dirOk = true ∧ summaryOk summary = true ∧ ∃ n, 0 < n ∧ ∀ i, i ∈ names.filterMap puIndex ↔ i < n :=
  checkDir_ok_iff dirOk summary names

theorem C18_x86dump_check_nbprocs (dirOk : Bool) (summary : Option (List Byte)) (names : List (List Byte)) (n : Nat)
    (hok : (checkDir dirOk summary names).ok = true) (hn : 0 < n) (hmem : ∀ i, i ∈ names.filterMap puIndex ↔ i < n) :
    nbprocs (checkDir dirOk summary names) = n := by
  rw [nbprocs, checkDir_idxs_ok dirOk summary names hok]
  exact contiguous_weight _ n hn hmem

/-- the verdict does not depend on the readdir order -/
theorem C18_x86dump_check_readdir_order (dirOk : Bool) (summary : Option (List Byte)) (names names' : List (List Byte))
    (hp : names.Perm names') : (checkDir dirOk summary names).ok = (checkDir dirOk summary names').ok :=
  checkDir_perm dirOk summary names names' hp

/-! non-vacuity / concrete behaviour -/
def exDump : List Byte := str "# mask in => out\n1 0 0 0 0 => d 756e6547 6c65746e 49656e69\n5 4 0 1 0 => 0x121 1c0003f 3f 0\nbroken 1 2\n"
example : (lines exDump).length = 4 ∧ table exDump =
    [⟨1, 0, 0, 0, 0, 0xd, 0x756e6547, 0x6c65746e, 0x49656e69⟩, ⟨5, 4, 0, 1, 0, 0x121, 0x1c0003f, 0x3f, 0⟩] := by decide
example : (List.replicate 4 (default : Entry)).length = (lines exDump).length := by decide
example : findByInput (table exDump) (4, 9, 1, 9) = (0x121, 0x1c0003f, 0x3f, 0) ∧
    findByInput (table exDump) (4, 0, 2, 0) = zeroRegs := by decide
/-- comments only: one cell is allocated, none is used, cpuiddump_free leaks it -/
example : freeLeaks (table (str "# nothing\n")) = true ∧ (lines (str "# nothing\n")).length = 1 := by decide
/-- `Unamb` holds for a table with unique keys under one mask, and fails for the pair of `find_order_matters` -/
example : Unamb (table exDump) (4, 0, 1, 0) := by
  intro e1 h1 e2 h2 m1 m2
  have ht : table exDump = [⟨1, 0, 0, 0, 0, 0xd, 0x756e6547, 0x6c65746e, 0x49656e69⟩, ⟨5, 4, 0, 1, 0, 0x121, 0x1c0003f, 0x3f, 0⟩] := by decide
  rw [ht] at h1 h2
  simp only [List.mem_cons, List.not_mem_nil, or_false] at h1 h2
  rcases h1 with rfl | rfl <;> rcases h2 with rfl | rfl <;> first | rfl | (exact absurd m1 (by decide)) | (exact absurd m2 (by decide))
example : (⟨1, 7, 0, 0, 0, 1, 1, 1, 1⟩ : Entry).matches (7, 0, 0, 0) = true ∧ (⟨0, 0, 0, 0, 0, 2, 2, 2, 2⟩ : Entry).matches (7, 0, 0, 0) = true ∧
    (⟨1, 7, 0, 0, 0, 1, 1, 1, 1⟩ : Entry).out ≠ (⟨0, 0, 0, 0, 0, 2, 2, 2, 2⟩ : Entry).out := by decide
example : (checkDir true (some (str "Architecture: x86\n")) [str ".", str "..", str "pu1", str "hwloc-cpuid-info", str "pu0"]).ok = true ∧
    (checkDir true (some (str "Architecture: x86\n")) [str "pu1", str "pu2"]).ok = false ∧
    (checkDir true (some (str "Architecture: x86\n")) [str "pu", str "pu+1", str "pu 2"]).ok = true ∧
    (checkDir true (some (str "Architecture: ia64\n")) [str "pu0"]).ok = false ∧
    nbprocs (checkDir true (some (str "Architecture: x86_64")) [str "pu1", str "pu0", str "pu2x"]) = 2 := by decide
example : [str "pu1", str "pu0"].Perm [str "pu0", str "pu1"] := List.Perm.swap _ _ _

end X86Dump

end Hw.Props.C18
