import Hw.Bitmap.Ops
