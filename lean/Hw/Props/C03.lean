/-
  Property C03 — bitmap operations implement exact (finite or cofinite) set semantics.

  Property theorems only; the model is `Hw.Bitmap.Ops` (representation-exact: `ulongs_count`
  words + `infinite` flag), proofs of the supporting lemmas live in `Hw.Bitmap.*`.
  Sets are membership functions `Nat → Bool` (`Bitmap.mem`).  Every statement holds for all
  bitmaps whatsoever (any word count, any flag) — `Inv` (count ≥ 1) is needed nowhere except
  to show it is itself preserved.
-/
import Hw.Bitmap.History
import Hw.Bitmap.Inclusion
import Hw.Bitmap.Alias
namespace Hw.Props.C03
open Hw Hw.Bitmap

/-! ## 1. every modifying call refines the set operation, for every history -/

/-- one step: destination handle and the denoted set are those of the mathematical operation -/
theorem C03_step_refines (p : Pool) (op : Op) :
    (op.eval p).1 = (specEval p.abs (fun h => (p h).first) op).1 ∧
    ∀ n, (op.eval p).2.mem n = (specEval p.abs (fun h => (p h).first) op).2 n :=
  eval_refines p op

/-- every pool reachable by any sequence of API calls satisfies the C invariant `ulongs_count ≥ 1` -/
theorem C03_reachable_inv (ops : List Op) : ∀ h, ((run Pool.init ops) h).Inv :=
  run_inv _ init_inv ops

/-! ## 2. queries are functions of the denoted sets only -/

theorem C03_isset (b : Bitmap) (n : Nat) : b.isset n = b.mem n := rfl
theorem C03_iszero (b : Bitmap) : b.iszero = true ↔ ∀ n, b.mem n = false := iszero_iff b
theorem C03_isfull (b : Bitmap) : b.isfull = true ↔ ∀ n, b.mem n = true := isfull_iff b
theorem C03_isequal (a b : Bitmap) : a.isequal b = true ↔ ∀ n, a.mem n = b.mem n := isequal_iff a b
theorem C03_intersects (a b : Bitmap) :
    a.intersects b = true ↔ ∃ n, a.mem n = true ∧ b.mem n = true := intersects_iff a b
theorem C03_isincluded (a b : Bitmap) :
    a.isincluded b = true ↔ ∀ n, a.mem n = true → b.mem n = true := isincluded_iff a b

/-- `first`: the least member, −1 for the empty set -/
theorem C03_first (b : Bitmap) : IsFirst b.mem b.first := first_spec b
/-- `next(prev)` for `prev ≥ −1`: the least member above `prev`, −1 if none -/
theorem C03_next (b : Bitmap) (prev : Int) (h : -1 ≤ prev) : IsNext b.mem prev (b.next prev) := next_spec b prev h
/-- `last`: the greatest member; −1 for the empty set and for infinite sets -/
theorem C03_last (b : Bitmap) : IsLast b.mem b.last := last_spec b
theorem C03_first_unset (b : Bitmap) : IsFirst (fun n => !b.mem n) b.firstUnset := firstUnset_spec b
theorem C03_next_unset (b : Bitmap) (prev : Int) (h : -1 ≤ prev) :
    IsNext (fun n => !b.mem n) prev (b.nextUnset prev) := nextUnset_spec b prev h
theorem C03_last_unset (b : Bitmap) : IsLast (fun n => !b.mem n) b.lastUnset := lastUnset_spec b

/-- `weight`: −1 iff infinitely set, else the number of members (counted below any bound `N`
above all members) -/
theorem C03_weight_infinite (b : Bitmap) (h : b.inf = true) : b.weight = -1 := weight_infinite b h
theorem C03_weight_finite (b : Bitmap) (h : b.inf = false) (N : Nat) (hN : ∀ m, N ≤ m → b.mem m = false) :
    b.weight = (((List.range N).countP b.mem : Nat) : Int) := weight_spec b h N hN
/-- the flag is itself a function of the set: set ⇔ the set is unbounded -/
theorem C03_inf_iff (b : Bitmap) : b.inf = true ↔ ∀ N, ∃ m, N ≤ m ∧ b.mem m = true := by
  constructor
  · intro h N
    exact ⟨max N (b.count * 64), Nat.le_max_left _ _, by rw [mem_of_ge b _ (Nat.le_max_right _ _)]; exact h⟩
  · intro h
    obtain ⟨m, hm, hs⟩ := h (b.count * 64)
    rw [mem_of_ge b m hm] at hs; exact hs

theorem C03_to_ith_ulong (b : Bitmap) (k j : Nat) (hj : j < 64) :
    (b.toIthUlong k).getLsbD j = b.mem (64 * k + j) := toIthUlong_getLsbD b k j hj
theorem C03_to_ulong (b : Bitmap) (j : Nat) (hj : j < 64) : b.toUlong.getLsbD j = b.mem j := toUlong_getLsbD b j hj
theorem C03_to_ulongs (b : Bitmap) (nr k : Nat) (h : k < nr) :
    (b.toUlongs nr)[k]'(by simp [toUlongs, h]) = b.toIthUlong k := toUlongs_getElem b nr k h

theorem C03_nr_ulongs_infinite (b : Bitmap) (h : b.inf = true) : b.nrUlongs = -1 := nrUlongs_infinite b h
theorem C03_nr_ulongs_empty (b : Bitmap) (h : b.inf = false) (hl : b.last = -1) : b.nrUlongs = 0 :=
  nrUlongs_empty b h hl
theorem C03_nr_ulongs_last (b : Bitmap) (h : b.inf = false) (l : Nat) (hl : b.last = (l : Int)) :
    b.nrUlongs = ((l / 64 + 1 : Nat) : Int) := nrUlongs_last b h l hl

/-- `compare`: decided at the highest index where the sets differ (an eventually-full set is
above an eventually-empty one) -/
theorem C03_compare (a b : Bitmap) : IsCompare a.mem b.mem (a.compare b) := compare_spec a b

/-- `compare_first`: the sign is that of comparing the two `first` indexes, the empty set being the
greatest (the C returns a difference of bit positions; only its sign is a comparator contract) -/
theorem C03_compare_first (a b : Bitmap) : sgn (a.compareFirst b) = cmpFirstSpec a.first b.first :=
  compareFirst_spec a b

/-- `compare_inclusion` is the set-theoretic classification (EQUAL / INCLUDED / CONTAINS / INTERSECTS /
DIFFERENT, the empty set being included in everything) -/
theorem C03_compare_inclusion (a b : Bitmap) :
    a.compareInclusion b =
      if a.isequal b then .equal
      else if a.isincluded b then .included
      else if b.isincluded a then .contains
      else if a.intersects b then .intersects
      else .different := compareInclusion_eq a b

/-! ## 3. results do not depend on the representation (the history that built the arguments) -/

section ReprIndependence
variable {a a' b b' : Bitmap}

theorem C03_repr_first (h : ∀ n, a.mem n = a'.mem n) : a.first = a'.first := by
  have e : a.mem = a'.mem := funext h
  have h1 := first_spec a; rw [e] at h1
  exact h1.unique (first_spec a')
theorem C03_repr_next (h : ∀ n, a.mem n = a'.mem n) (prev : Int) (hp : -1 ≤ prev) : a.next prev = a'.next prev := by
  have e : a.mem = a'.mem := funext h
  have h1 := next_spec a prev hp; rw [e] at h1
  exact h1.unique (next_spec a' prev hp)
theorem C03_repr_last (h : ∀ n, a.mem n = a'.mem n) : a.last = a'.last := by
  have e : a.mem = a'.mem := funext h
  have h1 := last_spec a; rw [e] at h1
  exact h1.unique (last_spec a')
theorem C03_repr_first_unset (h : ∀ n, a.mem n = a'.mem n) : a.firstUnset = a'.firstUnset := by
  have e : a.mem = a'.mem := funext h
  have h1 := firstUnset_spec a; rw [e] at h1
  exact h1.unique (firstUnset_spec a')
theorem C03_repr_next_unset (h : ∀ n, a.mem n = a'.mem n) (prev : Int) (hp : -1 ≤ prev) :
    a.nextUnset prev = a'.nextUnset prev := by
  have e : a.mem = a'.mem := funext h
  have h1 := nextUnset_spec a prev hp; rw [e] at h1
  exact h1.unique (nextUnset_spec a' prev hp)
theorem C03_repr_last_unset (h : ∀ n, a.mem n = a'.mem n) : a.lastUnset = a'.lastUnset := by
  have e : a.mem = a'.mem := funext h
  have h1 := lastUnset_spec a; rw [e] at h1
  exact h1.unique (lastUnset_spec a')
theorem C03_repr_inf (h : ∀ n, a.mem n = a'.mem n) : a.inf = a'.inf :=
  readWord_eq_imp_inf a a' ((mem_ext_iff a a').mp h)
theorem C03_repr_to_ith_ulong (h : ∀ n, a.mem n = a'.mem n) (k : Nat) : a.toIthUlong k = a'.toIthUlong k :=
  (mem_ext_iff a a').mp h k
theorem C03_repr_weight (h : ∀ n, a.mem n = a'.mem n) : a.weight = a'.weight := by
  have hi := C03_repr_inf h
  cases hinf : a.inf with
  | true => rw [weight_infinite a hinf, weight_infinite a' (hi ▸ hinf)]
  | false =>
    have hinf' : a'.inf = false := hi ▸ hinf
    have hN : ∀ m, max a.count a'.count * 64 ≤ m → a.mem m = false := fun m hm => by
      rw [mem_of_ge a m (Nat.le_trans (Nat.mul_le_mul_right _ (Nat.le_max_left _ _)) hm), hinf]
    rw [weight_spec a hinf _ hN, weight_spec a' hinf' _ (fun m hm => by rw [← h m]; exact hN m hm)]
    have e : a.mem = a'.mem := funext h
    rw [e]
theorem C03_repr_iszero (h : ∀ n, a.mem n = a'.mem n) : a.iszero = a'.iszero := by
  apply Bool.eq_iff_iff.mpr; rw [iszero_iff, iszero_iff]; simp only [h]
theorem C03_repr_isfull (h : ∀ n, a.mem n = a'.mem n) : a.isfull = a'.isfull := by
  apply Bool.eq_iff_iff.mpr; rw [isfull_iff, isfull_iff]; simp only [h]
theorem C03_repr_isequal (h : ∀ n, a.mem n = a'.mem n) (g : ∀ n, b.mem n = b'.mem n) :
    a.isequal b = a'.isequal b' := by
  apply Bool.eq_iff_iff.mpr; rw [isequal_iff, isequal_iff]; simp only [h, g]
theorem C03_repr_intersects (h : ∀ n, a.mem n = a'.mem n) (g : ∀ n, b.mem n = b'.mem n) :
    a.intersects b = a'.intersects b' := by
  apply Bool.eq_iff_iff.mpr; rw [intersects_iff, intersects_iff]; simp only [h, g]
theorem C03_repr_isincluded (h : ∀ n, a.mem n = a'.mem n) (g : ∀ n, b.mem n = b'.mem n) :
    a.isincluded b = a'.isincluded b' := by
  apply Bool.eq_iff_iff.mpr; rw [isincluded_iff, isincluded_iff]; simp only [h, g]

theorem C03_repr_compare (h : ∀ n, a.mem n = a'.mem n) (g : ∀ n, b.mem n = b'.mem n) :
    a.compare b = a'.compare b' := by
  have e1 : a.mem = a'.mem := funext h
  have e2 : b.mem = b'.mem := funext g
  have h1 := compare_spec a b; rw [e1, e2] at h1
  exact h1.unique (compare_spec a' b')
theorem C03_repr_compare_first (h : ∀ n, a.mem n = a'.mem n) (g : ∀ n, b.mem n = b'.mem n) :
    sgn (a.compareFirst b) = sgn (a'.compareFirst b') := by
  rw [compareFirst_spec, compareFirst_spec, C03_repr_first h, C03_repr_first g]
theorem C03_repr_compare_inclusion (h : ∀ n, a.mem n = a'.mem n) (g : ∀ n, b.mem n = b'.mem n) :
    a.compareInclusion b = a'.compareInclusion b' := by
  rw [compareInclusion_eq, compareInclusion_eq, C03_repr_isequal h g, C03_repr_isincluded h g,
    C03_repr_isincluded g h, C03_repr_intersects h g]

end ReprIndependence

/-! ## 4. results do not depend on whether the destination aliases an operand

`binopStore` / `notStore` are the literal C procedures over a store of structs addressed by handles (counts cached,
`reset_by_ulongs(res)` first, every later read from the current memory, stale words beyond `ulongs_count`
arbitrary).  For ALL handles — equal or not — the destination ends up as the pure operation applied to the
ORIGINAL operands and no other struct changes. -/

theorem C03_alias_or (r s1 s2 : Nat) (st : Store) :
    (binopStore opOr r s1 s2 st r).toBitmap = (st s1).toBitmap.or (st s2).toBitmap ∧
    ∀ h, h ≠ r → binopStore opOr r s1 s2 st h = st h := by
  rw [← binopPure_or]; exact binop_alias opOr opOr_ok r s1 s2 st
theorem C03_alias_and (r s1 s2 : Nat) (st : Store) :
    (binopStore opAnd r s1 s2 st r).toBitmap = (st s1).toBitmap.and (st s2).toBitmap ∧
    ∀ h, h ≠ r → binopStore opAnd r s1 s2 st h = st h := by
  rw [← binopPure_and]; exact binop_alias opAnd opAnd_ok r s1 s2 st
theorem C03_alias_andnot (r s1 s2 : Nat) (st : Store) :
    (binopStore opAndnot r s1 s2 st r).toBitmap = (st s1).toBitmap.andnot (st s2).toBitmap ∧
    ∀ h, h ≠ r → binopStore opAndnot r s1 s2 st h = st h := by
  rw [← binopPure_andnot]; exact binop_alias opAndnot opAndnot_ok r s1 s2 st
theorem C03_alias_xor (r s1 s2 : Nat) (st : Store) :
    (binopStore opXor r s1 s2 st r).toBitmap = (st s1).toBitmap.xor (st s2).toBitmap ∧
    ∀ h, h ≠ r → binopStore opXor r s1 s2 st h = st h := by
  rw [← binopPure_xor]; exact binop_alias opXor opXor_ok r s1 s2 st
theorem C03_alias_not (r s : Nat) (st : Store) :
    (notStore r s st r).toBitmap = (st s).toBitmap.not ∧ ∀ h, h ≠ r → notStore r s st h = st h :=
  not_alias r s st

/-! ## non-vacuity: two different representations of the set {64, 65, …} -/

def ex1 : Bitmap := (Bitmap.alloc.setRange 64 none)               -- words [0, ~0], infinite
def ex2 : Bitmap := ((Bitmap.alloc.fill).clrRange 0 (some 63))    -- words [0], infinite
example : ex1 ≠ ex2 := by decide
example : ex1.count = 2 ∧ ex2.count = 1 := by decide
example : ∀ n, ex1.mem n = ex2.mem n := by
  intro n
  show (Bitmap.alloc.setRange 64 none).mem n = ((Bitmap.alloc.fill).clrRange 0 (some 63)).mem n
  rw [mem_setRange_none, mem_clrRange_some, mem_fill, mem_alloc]
  by_cases h : 64 ≤ n <;> simp [h] <;> omega
example : ex1.first = 64 ∧ ex2.first = 64 := by decide
-- the pair on which the pinned tree (before the `fix:` commit) returned opposite signs
example : sgn (ex1.compareFirst Bitmap.alloc) = -1 ∧ sgn (ex2.compareFirst Bitmap.alloc) = -1 := by decide
example : ex1.compareInclusion ex2 = .equal ∧ Bitmap.alloc.compareInclusion ex1 = .included := by decide

end Hw.Props.C03
