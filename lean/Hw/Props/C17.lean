/-
  C17 — Documented thread-safety: concurrent readers of one refreshed topology, threads working on
  distinct topologies.

  Model: `Hw.Conc` (lean/Hw/Io/Conc.lean).

  (a) READERS.  The shared state of one topology is reduced to what a consulting call can possibly write:
  the validity flag of every lazy cache (one OBJS_VALID per distances structure, one CACHE_VALID per memory
  attribute), the process-wide function-local static environment caches (`warm`), and an opaque `content`
  that the results depend on.  `events s r` is the footprint of consulting entry point `r` started in state
  `s`, read off the C (table in Conc.lean, tied to the real code by engine `readonly`: every entry point is run
  on a PROT_READ copy of the topology and the faulting location is compared with the first write of the
  footprint).  A call is split into observe (it reads the shared state and decides) and commit (its writes
  land); any number of threads, any programs, any schedule (`List Nat` of thread choices).

  Reading of the English property:
    "no data race"                       = `RaceFree`: no access of one thread conflicts with any access of
                                           another thread (same location, one is a write, not both under the
                                           components mutex) — in ANY order of the individual accesses;
    "same results as single-threaded"    = every call observed the state `s0` it would observe alone, and `s0`
                                           is still the state afterwards; hence `obs e.snap e.reader =
                                           obs s0 e.reader` for every result function `obs`;
    "loaded (and refreshed after any modification)" = `Valid s0`: caches valid (established by
                                           `C17_refresh_validates` / `C17_load_validates`, the latter for every flag word) and every static
                                           cache initialised once (`Warm`, the documented restriction: the
                                           cold-start same-value write race on those statics is finding F15).

  (b) INDEPENDENT TOPOLOGIES.  What distinct topologies share is the component registry; its init/fini critical
  sections are extracted from components.c on every run (Hw/Gen/ComponentsIR.lean) and must equal the model
  programs (`C17_gen_ir_matches_*`, by `decide`).  `C17_registry_inv` holds for every number of threads and
  every schedule.

  Not covered: memory-model effects below "no conflicting access"; the contents of the topology (`content`) are
  opaque, i.e. that traversal helpers etc. perform no write is established on the real code by engine
  `readonly` (PROT_READ mapping), not by a model of each helper.
-/
import Hw.Io.ConcLemmas
import Hw.Io.ConcRegLemmas
import Hw.Io.ConcEntry
import Hw.Gen.ComponentsIR
namespace Hw.Props.C17
open Hw Hw.Conc

/-- P0 refresh_validates: whatever state the modifying calls left behind (`s` is arbitrary: any number of
    distances structures and attributes with any flags), after `hwloc_topology_refresh` every distances structure
    that is still there has OBJS_VALID and every attribute has CACHE_VALID; nothing else changes. -/
theorem C17_refresh_validates (s : TopoState) :
    CachesValid (refresh s) ∧ (refresh s).warm = s.warm ∧ (refresh s).content = s.content :=
  ⟨refresh_cachesValid s, rfl, rfl⟩

/-- ... in particular after ANY history of modifying calls (arbitrary state transformers that do not reset the
    process-wide static caches) followed by a refresh, from any state. -/
theorem C17_refresh_validates_history (hist : List (TopoState → TopoState)) (s : TopoState)
    (hk : ∀ f ∈ hist, ∀ x, Warm x → Warm (f x)) (hw : Warm s) :
    Valid (refresh (hist.foldl (fun x f => f x) s)) := by
  refine ⟨refresh_cachesValid _, ?_⟩
  have : Warm (hist.foldl (fun x f => f x) s) := by
    induction hist generalizing s with
    | nil => exact hw
    | cons f fs ih =>
      exact ih (f s) (fun g hg => hk g (List.mem_cons_of_mem _ hg)) (hk f (List.mem_cons_self ..) s hw)
  exact this

/-- hwloc_topology_refresh as the GENERATED statement sequence, under any flag word (also NO_DISTANCES / NO_MEMATTRS / NO_CPUKINDS:
    the user may have added distances or attribute values afterwards): from ANY state every cache becomes valid. -/
theorem C17_refresh_validates_flags (flags : Nat) (o : LoadOracle) (s : TopoState) :
    CachesValid (runSeq Hw.Gen.ComponentsIR.refreshSeq flags o s) := by
  rw [show Hw.Gen.ComponentsIR.refreshSeq = Model.refreshSeq by decide, runSeq_refreshSeq]
  exact refresh_cachesValid s

/-- P0 refresh_validates, load part, on the GENERATED statement sequence of the tail of hwloc_topology_load: for EVERY flag
    word (RESTRICT_TO_CPUBINDING / _MEMBINDING, NO_DISTANCES, NO_MEMATTRS, NO_CPUKINDS in any combination) and every
    outcome of the binding restricts (run or not, whichever distances structures survive), load returns with every cache
    valid. -/
theorem C17_load_validates (flags : Nat) (o : LoadOracle) (s : TopoState) (h : FlaggedOffValid flags s) :
    CachesValid (runSeq Hw.Gen.ComponentsIR.loadSeq flags o s) := by
  rw [show Hw.Gen.ComponentsIR.loadSeq = Model.loadSeq by decide]
  exact loadTail_cachesValid flags o s h

/-- why the second refresh of load is needed (finding F51, fixed by 6c24a9e): the statement sequence without its last step
    leaves every distances structure invalid when RESTRICT_TO_CPUBINDING restricts. -/
theorem C17_load_second_refresh_needed (o : LoadOracle) (ho : o.ranCpu = true) (s : TopoState) :
    ∀ d ∈ (runSeq Model.loadSeqUnfixed flagRestrictToCpubinding o s).dists, d.valid = false :=
  loadUnfixed_binding_invalid o ho s

/-- P0 valid_readers_write_free: in a valid state no consulting entry point writes shared state: every access is a
    read of topology data or an access to the component registry under the components mutex. -/
theorem C17_valid_readers_write_free (s : TopoState) (hv : Valid s) (r : Reader) :
    (∀ e ∈ events s r, (e.acc = .R ∧ e.loc ≠ .registry) ∨ (e.locked = true ∧ e.loc = .registry)) ∧
    unlockedWrites (events s r) = [] := by
  refine ⟨?_, unlockedWrites_valid s hv r⟩
  intro e he
  have h := events_valid s hv r e he
  simp only [benign, Bool.or_eq_true, Bool.and_eq_true, beq_iff_eq, bne_iff_ne, ne_eq] at h
  exact h

/-- P0 readers_schedule_independent: from a valid state, for EVERY number of threads, EVERY list of reader
    programs and EVERY schedule: the shared state never changes, no two accesses of different threads conflict,
    and every completed call observed exactly the state (hence returns exactly the results and performs exactly
    the accesses) of a single-threaded run. -/
theorem C17_readers_schedule_independent (s0 : TopoState) (hv : Valid s0)
    (progs : List (List Reader)) (sched : List Nat) :
    (run (start s0 progs) sched).st = s0 ∧
    RaceFree (run (start s0 progs) sched).trace ∧
    (∀ e ∈ (run (start s0 progs) sched).trace, e.snap = s0 ∧ e.events = events s0 e.reader) ∧
    (∀ {β : Type} (obs : TopoState → Reader → β), ∀ e ∈ (run (start s0 progs) sched).trace,
        obs e.snap e.reader = obs s0 e.reader) := by
  have H := run_sysInv s0 hv sched _ (start_sysInv s0 progs)
  refine ⟨H.st, raceFree_of_sysInv s0 hv _ H, H.tr, ?_⟩
  intro β obs e he
  rw [(H.tr e he).1]

/-- ... and the same at every intermediate point of the schedule (every prefix is a schedule). -/
theorem C17_readers_state_constant (s0 : TopoState) (hv : Valid s0)
    (progs : List (List Reader)) (sched : List Nat) (k : Nat) :
    (run (start s0 progs) (sched.take k)).st = s0 :=
  (run_sysInv s0 hv (sched.take k) _ (start_sysInv s0 progs)).st

/-- P0 unrefreshed_race_exists: the hypothesis is necessary.  In ANY state with a distances structure whose
    OBJS_VALID is clear (what restrict, insert/remove, dup leave behind), two threads calling
    hwloc_distances_get have a schedule (both observe, then both commit) with a W/W conflict on that structure. -/
theorem C17_unrefreshed_race_exists (s : TopoState) (d : DistSlot) (hd : d ∈ s.dists) (hinv : d.valid = false) :
    ¬ RaceFree (run (start s [[.distancesGet true], [.distancesGet true]]) [0, 1, 0, 1]).trace ∧
    ∃ a ∈ (run (start s [[.distancesGet true], [.distancesGet true]]) [0, 1, 0, 1]).trace,
    ∃ b ∈ (run (start s [[.distancesGet true], [.distancesGet true]]) [0, 1, 0, 1]).trace,
      a.tid ≠ b.tid ∧ wr (.dist d.id) ∈ a.events ∧ wr (.dist d.id) ∈ b.events := by
  have hw := events_get_invalid s d hd hinv
  have hex : ∃ a ∈ (run (start s [[.distancesGet true], [.distancesGet true]]) [0, 1, 0, 1]).trace,
      ∃ b ∈ (run (start s [[.distancesGet true], [.distancesGet true]]) [0, 1, 0, 1]).trace,
      a.tid ≠ b.tid ∧ wr (.dist d.id) ∈ a.events ∧ wr (.dist d.id) ∈ b.events := by
    rw [run_two_getters]
    exact ⟨_, List.mem_cons_self .., _, List.mem_cons_of_mem _ (List.mem_cons_self ..), by simp, hw, hw⟩
  refine ⟨?_, hex⟩
  intro hrf
  obtain ⟨a, ha, b, hb, hne, hea, heb⟩ := hex
  have := hrf a ha b hb hne _ hea _ heb
  simp [conflict, wr] at this

/-- the same for a memory attribute whose CACHE_VALID is clear: hwloc_memattr_get_value from two threads. -/
theorem C17_unrefreshed_memattr_write (s : TopoState) (i : Nat) (a : AttrSlot) (ha : s.attrs[i]? = some a)
    (hc : a.conv = false) (hinv : a.valid = false) :
    wr (.attr i) ∈ events s (.memattrQuery .value i true) := by
  simp [events, ha, refreshes, reachesTest, hc, hinv]

/-- generated IR = model IR (tie T; re-checked on every run against /repo's components.c) -/
theorem C17_gen_ir_matches_init : Hw.Gen.ComponentsIR.initProg = Reg.Model.initProg := by decide
theorem C17_gen_ir_matches_fini : Hw.Gen.ComponentsIR.finiProg = Reg.Model.finiProg := by decide
theorem C17_gen_flags_match : Hw.Gen.ComponentsIR.flags = Model.flags := by decide
theorem C17_gen_load_seq_matches : Hw.Gen.ComponentsIR.loadSeq = Model.loadSeq := by decide
theorem C17_gen_refresh_seq_matches : Hw.Gen.ComponentsIR.refreshSeq = Model.refreshSeq := by decide
/-- the set of functions that may (re)build a lazy cache is the one the footprint table was written from -/
theorem C17_gen_lazy_callers_match : Hw.Gen.ComponentsIR.lazyCallers = Model.lazyCallers := by decide

/-- P0 registry_inv, stated on the GENERATED programs: for every number of threads `n` and every schedule of
    threads each running hwloc_components_init / hwloc_components_fini pairs (any number of times): no access
    outside the mutex / failed assert / double initialisation ever happens; `users` is the number of threads
    between their `users++` and their `--users`; whenever the lock is free the registry is initialised iff
    `users > 0`; and a thread between its init and its fini always finds the registry initialised. -/
theorem C17_registry_inv (n : Nat) (sched : List Nat) :
    let c := Reg.run Hw.Gen.ComponentsIR.initProg Hw.Gen.ComponentsIR.finiProg (Reg.start n) sched
    c.bad = false ∧
    c.users = c.thr.countP Reg.holding ∧
    (c.lock = none → (c.reg = true ↔ 0 < c.users)) ∧
    (∀ (t : Nat) (th : Reg.Thr), c.thr[t]? = some th → th.phase = .between → c.reg = true) ∧
    (∀ (t : Nat) (th : Reg.Thr), c.thr[t]? = some th → Reg.inCS th = true → c.lock = some t) := by
  rw [C17_gen_ir_matches_init, C17_gen_ir_matches_fini]
  have H := Reg.run_inv n sched
  exact ⟨H.notBad, H.count, H.free, fun t th ht hb => Reg.between_sees_reg _ H t th ht hb, H.excl⟩

/-- when every thread is idle again the registry is torn down and the count is zero -/
theorem C17_registry_quiescent (n : Nat) (sched : List Nat)
    (hidle : ∀ th ∈ (Reg.run Reg.Model.initProg Reg.Model.finiProg (Reg.start n) sched).thr, th.phase = .idle) :
    (Reg.run Reg.Model.initProg Reg.Model.finiProg (Reg.start n) sched).users = 0 ∧
    (Reg.run Reg.Model.initProg Reg.Model.finiProg (Reg.start n) sched).reg = false := by
  have H := Reg.run_inv n sched
  generalize Reg.run Reg.Model.initProg Reg.Model.finiProg (Reg.start n) sched = c at H hidle
  have hcnt : c.thr.countP Reg.holding = 0 := by
    rw [List.countP_eq_zero]
    intro th hth
    simp [Reg.holding, hidle th hth]
  have hu : c.users = 0 := by rw [H.count, hcnt]
  have hl : c.lock = none := by
    cases hl : c.lock with
    | none => rfl
    | some t =>
      obtain ⟨th, ht, hcs, _⟩ := H.held t hl
      have := hidle th (List.mem_of_getElem? ht)
      simp [Reg.inCS, this] at hcs
  refine ⟨hu, ?_⟩
  have := H.free hl
  rw [hu] at this
  cases hr : c.reg with
  | false => rfl
  | true => exact absurd (this.mp hr) (by omega)

/-! ### the public entry points that reach the registry (engine `readonly`, ops `reg ...`) -/

/-- P0 entry_refcount, on the GENERATED critical sections: started with `n` references held (registry initialised iff
    `n > 0`), EVERY public entry point that reaches the component registry, on EVERY path through it (success, rejected
    arguments, TOO_COMPLEX diff entries, unreadable / malformed input, source not loaded, ...), returns with the lock
    free, no failed assert, the registry initialised iff references remain, and the count changed by exactly the
    topologies it handed out (`creates`) or consumed (`releases`). -/
theorem C17_entry_refcount (e : Reg.Entry) (n : Nat) (h : Reg.releases e ≤ n) :
    Reg.runEntry Hw.Gen.ComponentsIR.initProg Hw.Gen.ComponentsIR.finiProg (Reg.good n) e
      = Reg.good (n + Reg.creates e - Reg.releases e) := by
  rw [C17_gen_ir_matches_init, C17_gen_ir_matches_fini]
  exact Reg.runEntry_good e n h

/-- ... hence the count is unchanged by every entry point except the three that hand out a topology (init, a
    successful dup, a successful adopt: +1) and destroy (-1).  In particular the diff import / export entry points leave
    it unchanged whether they succeed, fail in the parser / writer, or reject a TOO_COMPLEX list up front. -/
theorem C17_only_init_destroy_change (e : Reg.Entry) (n : Nat)
    (h1 : e ≠ .topologyInit) (h2 : e ≠ .topologyDup true) (h3 : e ≠ .shmemAdopt .ok) (h4 : e ≠ .topologyDestroy) :
    Reg.runEntry Hw.Gen.ComponentsIR.initProg Hw.Gen.ComponentsIR.finiProg (Reg.good n) e = Reg.good n := by
  have hc : Reg.creates e = 0 := by
    cases e with
    | topologyInit => exact absurd rfl h1
    | topologyDup ok => cases ok with
      | true => exact absurd rfl h2
      | false => rfl
    | shmemAdopt p => cases p with
      | ok => exact absurd rfl h3
      | _ => rfl
    | _ => rfl
  have hr : Reg.releases e = 0 := by
    cases e with
    | topologyDestroy => exact absurd rfl h4
    | _ => rfl
  have := C17_entry_refcount e n (by omega)
  rw [hc, hr] at this
  simpa using this

theorem C17_init_dup_adopt_take_one (n : Nat) :
    Reg.runEntry Hw.Gen.ComponentsIR.initProg Hw.Gen.ComponentsIR.finiProg (Reg.good n) .topologyInit = Reg.good (n + 1) ∧
    Reg.runEntry Hw.Gen.ComponentsIR.initProg Hw.Gen.ComponentsIR.finiProg (Reg.good n) (.topologyDup true) = Reg.good (n + 1) ∧
    Reg.runEntry Hw.Gen.ComponentsIR.initProg Hw.Gen.ComponentsIR.finiProg (Reg.good n) (.shmemAdopt .ok) = Reg.good (n + 1) ∧
    Reg.runEntry Hw.Gen.ComponentsIR.initProg Hw.Gen.ComponentsIR.finiProg (Reg.good (n + 1)) .topologyDestroy = Reg.good n :=
  ⟨C17_entry_refcount .topologyInit n (Nat.zero_le _), C17_entry_refcount (.topologyDup true) n (Nat.zero_le _),
   C17_entry_refcount (.shmemAdopt .ok) n (Nat.zero_le _), C17_entry_refcount .topologyDestroy (n + 1) (Nat.succ_le_succ (Nat.zero_le _))⟩

/-- P0 history_refcount: for EVERY history of entry points in which the caller only destroys topologies it owns
    (`liveAfter k h = some k'`: it starts with `k` and ends with `k'` topologies), at EVERY point of the history the
    reference count equals the number of live topologies, the registry is initialised iff one is alive, and no assert
    fails; at the end the count is `k'`. -/
theorem C17_history_refcount (h : List Reg.Entry) (k k' : Nat) (hl : Reg.liveAfter k h = some k') :
    Reg.runHist Hw.Gen.ComponentsIR.initProg Hw.Gen.ComponentsIR.finiProg (Reg.good k) h = Reg.good k' ∧
    ∀ i, ∃ j, Reg.liveAfter k (h.take i) = some j ∧
      Reg.runHist Hw.Gen.ComponentsIR.initProg Hw.Gen.ComponentsIR.finiProg (Reg.good k) (h.take i) = Reg.good j := by
  rw [C17_gen_ir_matches_init, C17_gen_ir_matches_fini]
  refine ⟨Reg.runHist_good h k k' hl, fun i => ?_⟩
  obtain ⟨j, hj⟩ := Reg.liveAfter_take h k k' hl i
  exact ⟨j, hj, Reg.runHist_good _ k j hj⟩

/-- why no path may call hwloc_components_fini without its own hwloc_components_init (the class of defect the `reg`
    histories look for): with ONE topology alive a stray fini tears the registry down under it (count 0, registry
    gone: its set_synthetic / set_xml / load find no component, the last destroy fails its assert), and on an empty
    registry the assert of hwloc_components_fini fails at once. -/
theorem C17_stray_fini_breaks :
    Reg.runCall Hw.Gen.ComponentsIR.initProg Hw.Gen.ComponentsIR.finiProg (Reg.good 1) .fini = Reg.good 0 ∧
    (Reg.runEntry Hw.Gen.ComponentsIR.initProg Hw.Gen.ComponentsIR.finiProg
      (Reg.runCall Hw.Gen.ComponentsIR.initProg Hw.Gen.ComponentsIR.finiProg (Reg.good 1) .fini) .topologyDestroy).bad = true ∧
    (Reg.runCall Hw.Gen.ComponentsIR.initProg Hw.Gen.ComponentsIR.finiProg (Reg.good 0) .fini).bad = true := by decide

/-! ### non-vacuity -/

/-- a refreshed topology with two distances structures, a convenience attribute, a plain attribute and one that
    needs an initiator; all static caches warm -/
def exValid : TopoState :=
  { dists := [⟨0, true, true⟩, ⟨3, true, true⟩],
    attrs := [⟨true, false, true⟩, ⟨false, false, true⟩, ⟨false, true, true⟩],
    warm := allStatics, content := 42 }

example : Valid exValid := by
  refine ⟨⟨by decide, by decide⟩, ?_⟩
  intro c; cases c <;> decide

/-- three threads, mixed programs, an interleaved schedule: all 5 calls complete, state unchanged, race free -/
example :
    let y := run (start exValid [[.distancesGet true, .exportXml true], [.memattrQuery .value 1 true, .pure .traversal],
                                 [.memattrQuery .bestInitiator 2 true]]) [0, 1, 2, 1, 0, 0, 2, 1, 1, 0]
    y.trace.length = 5 ∧ y.st = exValid ∧ raceFreeB y.trace = true := by decide

/-- the same programs on the unrefreshed state (after a restrict): the schedule above has a race -/
def exStale : TopoState := invalidate (fun id => id != 3) exValid

example :
    let y := run (start exStale [[.distancesGet true, .exportXml true], [.memattrQuery .value 1 true, .pure .traversal],
                                 [.distancesGet true]]) [0, 1, 2, 1, 0, 0, 2, 1, 1, 0]
    raceFreeB y.trace = false ∧ y.st ≠ exStale := by decide

/-- and `refresh` repairs it (structure 3 lost its objects and is dropped) -/
example : refresh exStale = { exValid with dists := [⟨0, true, true⟩],
                                           attrs := [⟨true, false, true⟩, ⟨false, false, true⟩, ⟨false, true, true⟩] } := by decide

/-- registry: 3 threads, a schedule in which thread 0 initialises, thread 1 piggybacks while thread 0 is in use,
    thread 0 leaves, thread 1 tears down -/
example :
    let c := Reg.run Reg.Model.initProg Reg.Model.finiProg (Reg.start 3)
      ([0,0,0,0,0,0,0,0] ++ [1,1,1,1,1,1,1] ++ [0,0,0,0,0,0,0] ++ [1,1,1,1,1,1,1,1])
    c.users = 0 ∧ c.reg = false ∧ c.bad = false ∧ c.thr.all (·.phase == .idle) = true := by decide

/-- a program with `users++` before the lock is rejected by the executable check (what the engine's search finds) -/
example :
    let ip : Reg.Prog := [.test, .inc, .lock, .brIfNot 6, .unlock, .ret, .initReg, .unlock, .ret]
    (Reg.run ip Reg.Model.finiProg (Reg.start 2) [0, 0]).bad = true := by decide

/-- a history over three independent topologies: A inited, B and C loaded, a TOO_COMPLEX diff of B and C rejected by both
    export entry points, an ordinary diff exported and re-imported, B written to shared memory and adopted as D, everything
    destroyed: admissible (ends with 0 topologies), and the count after the rejected exports is still 3 -/
def exHist : List Reg.Entry :=
  [.topologyInit, .topologyInit, .setSource, .load, .topologyInit, .setSource, .load, .diffBuild,
   .diffExportXmlbuffer true, .diffExportXml true, .diffExportXmlbuffer false, .diffLoadXmlbuffer, .diffDestroy,
   .shmemGetLength true, .shmemWrite true, .shmemAdopt .ok, .topologyDup false, .setSource, .load, .exportXml,
   .topologyDestroy, .topologyDestroy, .topologyDestroy, .topologyDestroy]

example : Reg.liveAfter 0 exHist = some 0 ∧ Reg.liveAfter 0 (exHist.take 10) = some 3 ∧
    Reg.liveAfter 0 (exHist.take 16) = some 4 := by decide

example : Reg.runHist Hw.Gen.ComponentsIR.initProg Hw.Gen.ComponentsIR.finiProg (Reg.good 0) (exHist.take 10) = Reg.good 3 :=
  (C17_history_refcount (exHist.take 10) 0 3 (by decide)).1

/-- the hypothesis of C17_history_refcount excludes only caller errors: destroying with nothing alive -/
example : Reg.liveAfter 0 [.topologyInit, .topologyDestroy, .topologyDestroy] = none := by decide

end Hw.Props.C17
