/-
  C15 — CPU kinds always partition the registered PUs and are ranked consistently.

  Property theorems over the model `Hw.CpuKinds` (lean/Hw/Attr/CpuKinds.lean), for ALL histories of
  public calls (register with arbitrary cpuset / NULL / flags / forced efficiency / info arrays,
  restrict, dup, XML round trip, refresh), all root cpusets and every HWLOC_CPUKINDS_RANKING strategy.

  Reading of the English property.  The right-hand sides are given by the reference semantics
  `runGhost` (CpuKindsLemmas.lean, `ghostStep`), which does not look at the kinds array at all:
    cov   union of the successfully registered cpusets, intersected with the root cpuset by every
          successful restrict;
    ow    `ow p x`: info pair `x` is owed to PU `p` = some successful register whose cpuset contains `p`
          carried `x` and `p` has not been removed by a restrict since (a removed PU that is registered
          again starts afresh, as its kind is gone).
  Cpusets are finite sets (Nat masks); `Sub`/`Meets` are inclusion / non-empty intersection.

  Known defect outside these theorems (see `C15_defect_stale_slot_reachable`): the theorems are about the
  array *contents* the C code intends; `hwloc_internal_cpukinds_restrict` leaves stale struct copies in the
  vacated slots and a later register builds its new kind on top of them.
-/
import Hw.Attr.CpuKindsLemmas
namespace Hw.Props.C15
open Hw Hw.CpuKinds

/-- P0 kinds_partition: non-empty, pairwise disjoint, union = reference coverage. -/
theorem C15_kinds_partition (strat : Strategy) (root : Nat) (h : List Op) :
    (∀ k ∈ (run strat root h).kinds, k.cpuset ≠ 0) ∧
    (run strat root h).kinds.Pairwise (fun a b => a.cpuset &&& b.cpuset = 0) ∧
    (∀ p, (∃ k ∈ (run strat root h).kinds, k.cpuset.testBit p = true) ↔ (runGhost root h).cov.testBit p = true) ∧
    (runGhost root h).root = (run strat root h).root :=
  let H := run_inv strat root h
  ⟨H.k.ne, H.k.dj, H.k.cov, H.root⟩

/-- P0 kinds_capacity (one register): `newnr ≤ 2·oldnr+1 ≤ allocated`, whatever the state. -/
theorem C15_kinds_capacity (st : State) (cs : Nat) (f : Int) (infos : List Info) (fl : Nat)
    (hcs : cs ≠ 0) (hfl : fl / 2 = 0) :
    (internalRegister st cs f infos fl).1.kinds.length ≤ 2 * st.kinds.length + 1 ∧
    2 * st.kinds.length + 1 ≤ (internalRegister st cs f infos fl).1.alloc :=
  internalRegister_bound st cs f infos fl hcs hfl

/-- P0 kinds_capacity (histories): the live kinds plus the slots vacated by restrict fit the allocation. -/
theorem C15_kinds_capacity_history (strat : Strategy) (root : Nat) (h : List Op) :
    (run strat root h).kinds.length + (run strat root h).stale.length ≤ (run strat root h).alloc :=
  (run_inv strat root h).cap

/-- P0 kinds_infos: a kind carries exactly the pairs owed to each of its PUs, none twice. -/
theorem C15_kinds_infos (strat : Strategy) (root : Nat) (h : List Op) :
    ∀ k ∈ (run strat root h).kinds, k.infos.Nodup ∧
      ∀ p, k.cpuset.testBit p = true → ∀ x, x ∈ k.infos ↔ (runGhost root h).ow p x :=
  fun k hk => ⟨(run_inv strat root h).k.nd k hk, (run_inv strat root h).k.inf k hk⟩

/-- P0 by_cpuset_spec on every reachable state: an index means "inside that kind"; EXDEV means the set
    meets a kind but lies inside none (straddles kinds or is only partially covered); ENOENT means it meets
    none; nothing else is returned for a non-empty set and zero flags.  The three conditions exclude each
    other on a partition, so each implication is an equivalence. -/
theorem C15_by_cpuset_spec (strat : Strategy) (root : Nat) (h : List Op) (s : Nat) (hs : s ≠ 0) :
    let ks := (run strat root h).kinds
    let r := getByCpuset (run strat root h) (some s) 0
    (∀ j, r = .idx j → ∃ hj : j < ks.length, Sub s ks[j].cpuset) ∧
    (r = .err .exdev → (∃ k ∈ ks, Meets s k.cpuset) ∧ ∀ k ∈ ks, ¬ Sub s k.cpuset) ∧
    (r = .err .enoent → ∀ k ∈ ks, ¬ Meets s k.cpuset) ∧
    r ≠ .err .einval ∧ r ≠ .err .ok := by
  intro ks r
  have H := run_inv strat root h
  have hr : r = byCpusetLoop ks s 0 := by simp [r, ks, getByCpuset, hs]
  have ⟨h1, h2, h3, h4, h5⟩ := byCpusetLoop_spec s hs ks 0 H.k.ne H.k.dj
  rw [hr]
  refine ⟨?_, h2, h3, h4, h5⟩
  intro j hj
  obtain ⟨n, hn, e, hsub⟩ := h1 j hj
  have : j = n := by omega
  subst this
  exact ⟨hn, hsub⟩

/-- EINVAL clauses of get_by_cpuset: NULL, empty, non-zero flags. -/
theorem C15_by_cpuset_einval (st : State) (s : Option Nat) (fl : Nat)
    (h : fl ≠ 0 ∨ s = none ∨ s = some 0) : getByCpuset st s fl = .err .einval := by
  unfold getByCpuset
  by_cases hf : fl = 0
  · rcases h with h | h | h
    · exact absurd hf h
    · subst h; simp [hf]
    · subst h; simp [hf]
  · simp [hf]

/-- EINVAL clauses of register: NULL or empty cpuset, non-zero flags — and nothing is modified. -/
theorem C15_register_einval (strat : Strategy) (st : State) (cs : Option Nat) (f : Int) (infos : List Info)
    (fl : Nat) (h : fl ≠ 0 ∨ cs = none ∨ cs = some 0) : register strat st cs f infos fl = (st, .einval) := by
  unfold register
  by_cases hf : fl = 0
  · rcases h with h | h | h
    · exact absurd hf h
    · subst h; simp [hf]
    · subst h; simp [hf]
  · simp [hf]

/-- P0 efficiency_shape, first half: all efficiencies are -1, or efficiency = index of the kind
    (hence a permutation of 0..nr-1 increasing with the index). -/
theorem C15_efficiency_shape (strat : Strategy) (root : Nat) (h : List Op) :
    (∀ k ∈ (run strat root h).kinds, k.eff = -1) ∨
    (∀ (i : Nat) (hi : i < (run strat root h).kinds.length), (run strat root h).kinds[i].eff = (i : Int)) :=
  (run_inv strat root h).eff

/- NOT PROVED (second half of P0 efficiency_shape; only established differentially, mutations M2/M7/M9 of the
   forced-efficiency rule and of the sort order are caught by the engine):

   theorem C15_efficiency_forced_consistent (root : Nat) (h : List Op) :
       let ks := (run .dflt root h).kinds
       (∀ k ∈ ks, k.forced ≠ -1) → (ks.map (·.forced)).Pairwise (· ≠ ·) →
       (∀ (i : Nat) (hi : i < ks.length), ks[i].eff = (i : Int)) ∧ (ks.map (·.forced)).Pairwise (· < ·)

   Missing lemma: `sortBy key` is sorted w.r.t. `key` (insertion sort) and, with `dupFree`, strictly so; the rest
   (tryForced succeeds under the hypotheses, renumber keeps `forced`) is in place (`rank_effShape`,
   `rank_sameCore`, `C15_forced_range`). -/

/-- forced efficiencies stored by the public API are -1 or non-negative -/
theorem C15_forced_range (strat : Strategy) (root : Nat) (h : List Op) :
    ∀ k ∈ (run strat root h).kinds, -1 ≤ k.forced :=
  (run_inv strat root h).k.frc

/-- Negative fact (genuine defect, F17): a history of four public calls reaches a register whose new
    kind is created in an array slot that `restrict`'s memmove vacated without clearing — the slot still
    holds a bit-copy of another kind's `infos` (same `array` pointer).  In C the new kind then aliases
    that array: it reports info pairs it was never registered with and the array is freed twice
    (AddressSanitizer: heap-use-after-free / double-free in hwloc__free_infos). -/
theorem C15_defect_stale_slot_reachable :
    let st := run .dflt 0xff
      [.register (some 0x0f) (-1) [("A", "1")] 0, .register (some 0xf0) (-1) [("B", "2")] 0, .restrict 0xf0]
    st.stale = [true] ∧ staleHit st 0x30 (-1) [("C", "3")] true = true := by
  decide

/-! non-vacuity: a concrete history with a split, a merge, a restrict that removes a kind, and a ranking -/
example :
    (run .dflt 0xfff [.register (some 0x0f) 2 [("CoreType", "IntelCore")] 0,
                      .register (some 0x3c) 1 [("Foo", "x")] 0,
                      .register (some 0x30) 0 [] 0,
                      .restrict 0xffc, .xml]).kinds.map (fun k => (k.cpuset, k.eff, k.forced)) =
      [(0x30, 0, 0), (0x0c, 1, 1)] := by decide
example :
    getByCpuset (run .dflt 0xfff [.register (some 0x0f) 2 [] 0, .register (some 0x3c) 1 [] 0]) (some 0x18) 0
      = .err .exdev := by decide
example :
    getByCpuset (run .dflt 0xfff [.register (some 0x0f) 2 [] 0, .register (some 0x3c) 1 [] 0]) (some 0x30) 0
      = .idx 2 := by decide

end Hw.Props.C15
