/-
  C15 — CPU kinds always partition the registered PUs and are ranked consistently.

  Property theorems over the model `Hw.CpuKinds` (lean/Hw/Attr/CpuKinds.lean), for ALL histories of
  public calls (register with arbitrary cpuset / NULL / flags / forced efficiency / info arrays,
  restrict, dup, XML round trip, refresh), all root cpusets and every HWLOC_CPUKINDS_RANKING strategy.

  Reading of the English property.  The right-hand sides are given by the reference semantics
  `runGhost` (CpuKindsLemmas.lean, `ghostStep`), which does not look at the kinds array at all:
    cov   union of the successfully registered cpusets, intersected with the root cpuset by every
          successful restrict;
    ow    `ow p x`: info pair `x` is owed to PU `p` = some successful register whose cpuset contains `p`
          carried `x` and `p` has not been removed by a restrict since (a removed PU that is registered
          again starts afresh, as its kind is gone).
  Cpusets are finite sets (Nat masks); `Sub`/`Meets` are inclusion / non-empty intersection.

  Strengthened (second half of the file): the array is SORTED by the ranking value the code chose and efficiencies are
  exactly 0..nr-1 / all -1 (`C15_ranking_sorted`, `C15_efficiency_values`, `C15_efficiency_forced_consistent`); the
  sorting algorithm is unobservable (`C15_sort_algorithm_irrelevant`); get_by_cpuset is characterised by equivalences
  (`C15_by_cpuset_exact`); the register loop has a loop-free algebra (`C15_register_algebra`) and the array REFINES the
  abstract fold  PU ↦ (forced efficiency, infos)  plus a grouping relation (`C15_refinement`, `C15_kinds_are_classes`,
  `C15_restrict_refines`), from which partition and infos follow again (`C15_*_from_refinement`).

  Known defect outside these theorems (see `C15_defect_stale_slot_reachable`): the theorems are about the
  array *contents* the C code intends; `hwloc_internal_cpukinds_restrict` leaves stale struct copies in the
  vacated slots and a later register builds its new kind on top of them.
-/
import Hw.Attr.CpuKindsLemmas
import Hw.Attr.CpuKindsRank
import Hw.Attr.CpuKindsRefine
import Hw.Attr.CpuKindsClasses
import Hw.Attr.CpuKindsAllowedLemmas
import Hw.Attr.CpuKindsStrategies
import Hw.Attr.CpuKindsStrategiesAllowed
namespace Hw.Props.C15
open Hw Hw.CpuKinds

/-- P0 kinds_partition: non-empty, pairwise disjoint, union = reference coverage. -/
theorem C15_kinds_partition (strat : Strategy) (root : Nat) (h : List Op) :
    (∀ k ∈ (run strat root h).kinds, k.cpuset ≠ 0) ∧
    (run strat root h).kinds.Pairwise (fun a b => a.cpuset &&& b.cpuset = 0) ∧
    (∀ p, (∃ k ∈ (run strat root h).kinds, k.cpuset.testBit p = true) ↔ (runGhost root h).cov.testBit p = true) ∧
    (runGhost root h).root = (run strat root h).root :=
  let H := run_inv strat root h
  ⟨H.k.ne, H.k.dj, H.k.cov, H.root⟩

/-- P0 kinds_capacity (one register): `newnr ≤ 2·oldnr+1 ≤ allocated`, whatever the state. -/
theorem C15_kinds_capacity (st : State) (cs : Nat) (f : Int) (infos : List Info) (fl : Nat)
    (hcs : cs ≠ 0) (hfl : fl / 2 = 0) :
    (internalRegister st cs f infos fl).1.kinds.length ≤ 2 * st.kinds.length + 1 ∧
    2 * st.kinds.length + 1 ≤ (internalRegister st cs f infos fl).1.alloc :=
  internalRegister_bound st cs f infos fl hcs hfl

/-- P0 kinds_capacity (histories): the live kinds plus the slots vacated by restrict fit the allocation. -/
theorem C15_kinds_capacity_history (strat : Strategy) (root : Nat) (h : List Op) :
    (run strat root h).kinds.length + (run strat root h).stale.length ≤ (run strat root h).alloc :=
  (run_inv strat root h).cap

/-- P0 kinds_infos: a kind carries exactly the pairs owed to each of its PUs, none twice. -/
theorem C15_kinds_infos (strat : Strategy) (root : Nat) (h : List Op) :
    ∀ k ∈ (run strat root h).kinds, k.infos.Nodup ∧
      ∀ p, k.cpuset.testBit p = true → ∀ x, x ∈ k.infos ↔ (runGhost root h).ow p x :=
  fun k hk => ⟨(run_inv strat root h).k.nd k hk, (run_inv strat root h).k.inf k hk⟩

/-- P0 by_cpuset_spec on every reachable state: an index means "inside that kind"; EXDEV means the set
    meets a kind but lies inside none (straddles kinds or is only partially covered); ENOENT means it meets
    none; nothing else is returned for a non-empty set and zero flags.  The three conditions exclude each
    other on a partition, so each implication is an equivalence. -/
theorem C15_by_cpuset_spec (strat : Strategy) (root : Nat) (h : List Op) (s : Nat) (hs : s ≠ 0) :
    let ks := (run strat root h).kinds
    let r := getByCpuset (run strat root h) (some s) 0
    (∀ j, r = .idx j → ∃ hj : j < ks.length, Sub s ks[j].cpuset) ∧
    (r = .err .exdev → (∃ k ∈ ks, Meets s k.cpuset) ∧ ∀ k ∈ ks, ¬ Sub s k.cpuset) ∧
    (r = .err .enoent → ∀ k ∈ ks, ¬ Meets s k.cpuset) ∧
    r ≠ .err .einval ∧ r ≠ .err .ok := by
  intro ks r
  have H := run_inv strat root h
  have hr : r = byCpusetLoop ks s 0 := by simp [r, ks, getByCpuset, hs]
  have ⟨h1, h2, h3, h4, h5⟩ := byCpusetLoop_spec s hs ks 0 H.k.ne H.k.dj
  rw [hr]
  refine ⟨?_, h2, h3, h4, h5⟩
  intro j hj
  obtain ⟨n, hn, e, hsub⟩ := h1 j hj
  have : j = n := by omega
  subst this
  exact ⟨hn, hsub⟩

/-- EINVAL clauses of get_by_cpuset: NULL, empty, non-zero flags. -/
theorem C15_by_cpuset_einval (st : State) (s : Option Nat) (fl : Nat)
    (h : fl ≠ 0 ∨ s = none ∨ s = some 0) : getByCpuset st s fl = .err .einval := by
  unfold getByCpuset
  by_cases hf : fl = 0
  · rcases h with h | h | h
    · exact absurd hf h
    · subst h; simp [hf]
    · subst h; simp [hf]
  · simp [hf]

/-- EINVAL clauses of register: NULL or empty cpuset, non-zero flags — and nothing is modified. -/
theorem C15_register_einval (strat : Strategy) (st : State) (cs : Option Nat) (f : Int) (infos : List Info)
    (fl : Nat) (h : fl ≠ 0 ∨ cs = none ∨ cs = some 0) : register strat st cs f infos fl = (st, .einval) := by
  unfold register
  by_cases hf : fl = 0
  · rcases h with h | h | h
    · exact absurd hf h
    · subst h; simp [hf]
    · subst h; simp [hf]
  · simp [hf]

/-- P0 efficiency_shape, first half: all efficiencies are -1, or efficiency = index of the kind
    (hence a permutation of 0..nr-1 increasing with the index). -/
theorem C15_efficiency_shape (strat : Strategy) (root : Nat) (h : List Op) :
    (∀ k ∈ (run strat root h).kinds, k.eff = -1) ∨
    (∀ (i : Nat) (hi : i < (run strat root h).kinds.length), (run strat root h).kinds[i].eff = (i : Int)) :=
  (run_inv strat root h).eff

/- second half of P0 efficiency_shape: `C15_efficiency_forced_consistent` below (ranking section). -/

/-- forced efficiencies stored by the public API are -1 or non-negative -/
theorem C15_forced_range (strat : Strategy) (root : Nat) (h : List Op) :
    ∀ k ∈ (run strat root h).kinds, -1 ≤ k.forced :=
  (run_inv strat root h).k.frc

/-- Negative fact (genuine defect, F17): a history of four public calls reaches a register whose new
    kind is created in an array slot that `restrict`'s memmove vacated without clearing — the slot still
    holds a bit-copy of another kind's `infos` (same `array` pointer).  In C the new kind then aliases
    that array: it reports info pairs it was never registered with and the array is freed twice
    (AddressSanitizer: heap-use-after-free / double-free in hwloc__free_infos). -/
theorem C15_defect_stale_slot_reachable :
    let st := run .dflt 0xff
      [.register (some 0x0f) (-1) [("A", "1")] 0, .register (some 0xf0) (-1) [("B", "2")] 0, .restrict 0xf0]
    st.stale = [true] ∧ staleHit st 0x30 (-1) [("C", "3")] true = true := by
  decide

/-! ## Strengthening 1 — the ranking is SORTED by the key the code uses

`hwloc__cpukinds_finalize_ranking` sorts with libc `qsort` (not a hand-written sort) and is only reached after
`hwloc__cpukinds_check_duplicate_rankings` succeeded, i.e. with pairwise distinct ranking values; hence the sorted
array is unique and neither the algorithm nor its stability can be observed (`C15_sort_algorithm_irrelevant`).
`chooseKey strat ks` is the ranking value `hwloc_internal_cpukinds_rank` ends up with for HWLOC_CPUKINDS_RANKING =
`strat` (`C15_default_key` spells out the default), `none` = "failed to rank". -/

/-- After ANY history: one kind has efficiency 0; two or more kinds are STRICTLY sorted by the chosen ranking value
    and their efficiencies are their positions 0..nr-1, or — when no ranking value could be chosen — all -1. -/
theorem C15_ranking_sorted (strat : Strategy) (root : Nat) (h : List Op) :
    let ks := (run strat root h).kinds
    (ks.length = 1 → ∀ k ∈ ks, k.eff = 0) ∧
    (2 ≤ ks.length →
      match chooseKey strat ks with
      | some key => ks.Pairwise (fun a b => key a < key b) ∧
                    ∀ (i : Nat) (hi : i < ks.length), ks[i].eff = (i : Int)
      | none => ∀ k ∈ ks, k.eff = -1) :=
  run_ranked strat root h

/-- The ranking value of the default strategy: the forced efficiency when every kind has one and they are pairwise
    distinct; otherwise `(core type << 20) + frequency` (base frequency if every kind has one, else max frequency;
    `unsigned` arithmetic, `atoi` on the info values) when every kind has a core type, or every kind a max frequency,
    or every kind a base frequency, and these values are pairwise distinct; otherwise none. -/
theorem C15_default_key (ks : List Kind) :
    chooseKey .dflt ks =
      if (ks.all (fun k => decide (k.forced ≠ -1)) && dupFree (ks.map forcedKey)) = true then some forcedKey
      else
        let haveMax := ks.all (fun k => decide ((summarize k).maxFreq ≠ 0))
        let haveBase := ks.all (fun k => decide ((summarize k).baseFreq ≠ 0))
        let haveCT := ks.all (fun k => decide ((summarize k).coreType ≠ 0))
        if ((haveCT || haveMax || haveBase) && dupFree (ks.map (ctFreqKey haveBase))) = true
        then some (ctFreqKey haveBase) else none := by
  simp only [chooseKey, tryForced, tryInfo, List.all_map, Function.comp_def]
  by_cases hc : ((ks.all fun k => decide (k.forced ≠ -1)) && dupFree (List.map forcedKey ks)) = true
  · rw [if_pos hc, if_pos hc]
  · rw [if_neg hc, if_neg hc]

/-- The public efficiencies are EXACTLY `[0, 1, .., nr-1]` in array order, or exactly `[-1, .., -1]`; the latter iff
    there are at least two kinds and no ranking value could be chosen. -/
theorem C15_efficiency_values (strat : Strategy) (root : Nat) (h : List Op) :
    let ks := (run strat root h).kinds
    ((2 ≤ ks.length ∧ chooseKey strat ks = none) → ks.map (·.eff) = List.replicate ks.length (-1)) ∧
    (¬ (2 ≤ ks.length ∧ chooseKey strat ks = none) →
      ks.map (·.eff) = (List.range ks.length).map (fun (i : Nat) => (i : Int))) :=
  (run_ranked strat root h).effs

/-- every forced efficiency passed to a register call of the history fits a C `int` -/
def intForced : Op → Bool
  | .register _ f _ _ => decide (f < 2147483648)
  | _ => true

/-- P0 efficiency_shape, second half (was unproved): under the default or the `forced_efficiency` strategy, when all
    forced efficiencies are known and pairwise distinct, efficiency = index and the forced efficiencies strictly
    increase with the index. -/
theorem C15_efficiency_forced_consistent (strat : Strategy) (hs : strat = .dflt ∨ strat = .forced)
    (root : Nat) (h : List Op) (hI : h.all intForced = true) :
    let ks := (run strat root h).kinds
    (∀ k ∈ ks, k.forced ≠ -1) → (ks.map (·.forced)).Pairwise (· ≠ ·) →
    (∀ (i : Nat) (hi : i < ks.length), ks[i].eff = (i : Int)) ∧ (ks.map (·.forced)).Pairwise (· < ·) := by
  intro ks hk hd
  refine ranked_forced_consistent hs (run_ranked strat root h) ?_ hk hd
  apply run_forced_P (fun x => -1 ≤ x ∧ x < 2147483648) strat root h
  intro cs f i fl hm
  have := List.all_eq_true.mp hI _ hm
  simp only [intForced, decide_eq_true_eq] at this
  split <;> omega

/-- `qsort` is modelled by insertion sort, but ANY permutation of the array that is sorted (even non-strictly) by the
    chosen ranking value gives the array the model computes: the ranking values are pairwise distinct whenever the
    sort is reached, so the sorting algorithm and its stability are not observable. -/
theorem C15_sort_algorithm_irrelevant (strat : Strategy) (ks ks' : List Kind) (key : Kind → Nat)
    (hk : chooseKey strat ks = some key) (h2 : 2 ≤ ks.length)
    (hp : ks'.Perm ks) (hs : ks'.Pairwise (fun a b => key a ≤ key b)) :
    rank strat ks = renumber 0 ks' ∧ dupFree (ks.map key) = true :=
  ⟨rank_eq_of_sorted strat hk h2 hp hs, (chooseKey_some hk).2⟩

/-- When no ranking value can be chosen the array keeps its order (registration order: old kinds in place, split-off
    kinds appended in the order of the kinds they were split from, the uncovered rest last — `C15_register_algebra`);
    only the efficiencies are cleared. -/
theorem C15_unranked_keeps_order (strat : Strategy) (ks : List Kind) (h : chooseKey strat ks = none) :
    (rank strat ks).map (fun k => (k.cpuset, k.forced, k.infos)) = ks.map (fun k => (k.cpuset, k.forced, k.infos)) :=
  rank_unranked_order strat ks h

/-- get_by_cpuset EXACTLY as documented, on every reachable state, for a non-empty set and zero flags: it returns
    index `j` iff the set lies inside kind `j` (and there is at most one such kind); -1/EXDEV iff the set meets some
    kind but lies inside none; -1/ENOENT iff it meets no kind. -/
theorem C15_by_cpuset_exact (strat : Strategy) (root : Nat) (h : List Op) (s : Nat) (hs : s ≠ 0) :
    let ks := (run strat root h).kinds
    let r := getByCpuset (run strat root h) (some s) 0
    (∀ j, r = .idx j ↔ ∃ hj : j < ks.length, Sub s ks[j].cpuset) ∧
    (r = .err .exdev ↔ (∃ k ∈ ks, Meets s k.cpuset) ∧ ∀ k ∈ ks, ¬ Sub s k.cpuset) ∧
    (r = .err .enoent ↔ ∀ k ∈ ks, ¬ Meets s k.cpuset) ∧
    (∀ (i j : Nat) (hi : i < ks.length) (hj : j < ks.length),
      Sub s ks[i].cpuset → Sub s ks[j].cpuset → i = j) := by
  intro ks r
  have H := run_inv strat root h
  have hr : r = byCpusetLoop ks s 0 := by simp [r, ks, getByCpuset, hs]
  have ⟨h1, h2, h3⟩ := byCpusetLoop_exact s hs ks H.k.ne H.k.dj
  rw [hr]
  exact ⟨h1, h2, h3, fun i j hi hj => sub_unique H.k.dj hs i j hi hj⟩

/-! ## Strengthening 2 — the algebra of registration and the refinement to  PU ↦ (forced efficiency, infos)

Abstract spec (`CpuKindsRefine.lean`): `AMap := PU → Option (forced efficiency × info list)`;
`AMap.reg m cs f infos` gives every PU of `cs` the cell `(f, addInfos (old infos or []) infos)` and leaves the others
alone; `AMap.restrict m r` drops the PUs outside `r`; `absRun root h` folds the successful calls of a history.
`Refines ks m`: every PU of every kind carries exactly that kind's (forced, infos), uncovered PUs have no cell. -/

/-- The register loop WITHOUT its loop: on a partition, `hwloc_internal_cpukinds_register` (any flags / forced
    efficiency / infos) classifies every old kind against the ORIGINAL cpuset — disjoint: untouched; wholly covered:
    infos merged, forced efficiency by the keep/overwrite rule; partly covered: shrunk, and its covered part appended
    as a new kind with the union of the infos and the NEW forced efficiency — then appends the uncovered rest. -/
theorem C15_register_algebra (st : State) (cs : Nat) (f : Int) (infos : List Info) (fl : Nat)
    (hcs : cs ≠ 0) (hfl : fl / 2 = 0) (hne : NonEmpty st.kinds) (hdj : Disjoint st.kinds) :
    (internalRegister st cs f infos fl).1.kinds =
      st.kinds.map (flatOld f infos (decide (fl % 2 = 1)) cs) ++
      (st.kinds.filterMap (flatNew f infos cs) ++
        (if flatRem cs st.kinds = 0 then [] else
          [{ cpuset := flatRem cs st.kinds, eff := -1, forced := f, infos := addInfos [] infos }])) :=
  internalRegister_kinds_flat st cs f infos fl hcs hfl hne hdj

/-- ONE internal registration with ANY flags refines the abstract update `AMap.regG`: infos as in `AMap.reg`; the
    forced efficiency of a covered PU becomes the new one unless (no OVERWRITE flag, a value is already known AND the
    PU's whole kind is covered). -/
theorem C15_internal_register_refines (st : State) (m : AMap) (hne : NonEmpty st.kinds) (hdj : Disjoint st.kinds)
    (hnd : InfosNodup st.kinds) (R : Refines st.kinds m)
    (cs : Nat) (f : Int) (infos : List Info) (fl : Nat) (hcs : cs ≠ 0) (hfl : fl / 2 = 0) :
    Refines (internalRegister st cs f infos fl).1.kinds
      (AMap.regG st.kinds (decide (fl % 2 = 1)) m cs f infos) :=
  internalRegister_refines hne hdj hnd R cs f infos fl hcs hfl

/-- with the OVERWRITE flag (the public call, XML import) the update is the plain per-PU `AMap.reg` -/
theorem C15_regG_overwrite (ks : List Kind) (m : AMap) (cs : Nat) (f : Int) (infos : List Info) :
    AMap.regG ks true m cs f infos = m.reg cs f infos := AMap.regG_true ks m cs f infos

/-- REFINEMENT over ALL histories (register with any cpuset / forced efficiency / infos / flags, restrict, dup, XML
    round trip, refresh; every strategy): the kinds array refines the abstract fold — read back PU by PU it IS the
    abstract map — and the root cpusets agree. -/
theorem C15_refinement (strat : Strategy) (root : Nat) (h : List Op) :
    Refines (run strat root h).kinds (absRun root h).map ∧
    (∀ p, cellAt (run strat root h).kinds p = (absRun root h).map p) ∧
    (absRun root h).root = (run strat root h).root :=
  ⟨(run_refines strat root h).1, cellAt_eq (run_refines strat root h).1, (run_refines strat root h).2⟩

/-- WHICH PUs share a kind, after ANY history: exactly those related by the abstract grouping `clRun` (register cs:
    two PUs of `cs` are together iff they were together or both uncovered, two PUs outside `cs` iff they were, one
    inside and one outside never; restrict: together iff they were and both survive).  Hence the cpuset of the kind
    containing `p` is `{q | same p q}`: with `C15_refinement` the kinds array is determined by the abstract state up
    to order, and with `C15_ranking_sorted` (when ranked) completely, efficiencies included. -/
theorem C15_kinds_are_classes (strat : Strategy) (root : Nat) (h : List Op) :
    (∀ p q, (∃ k ∈ (run strat root h).kinds, k.cpuset.testBit p = true ∧ k.cpuset.testBit q = true) ↔
      (clRun root h).same p q) ∧
    (∀ k ∈ (run strat root h).kinds, ∀ p, k.cpuset.testBit p = true →
      ∀ q, k.cpuset.testBit q = true ↔ (clRun root h).same p q) := by
  refine ⟨run_together strat root h, ?_⟩
  intro k hk p hp q
  rw [kind_bits_of_together (run_inv strat root h).k.dj hk hp q]
  exact run_together strat root h p q

/-- ONE internal registration with ANY flags regroups the PUs by `regSame` -/
theorem C15_internal_register_classes (st : State) (S : Same) (hne : NonEmpty st.kinds) (hdj : Disjoint st.kinds)
    (T : ∀ p q, Together st.kinds p q ↔ S p q)
    (cs : Nat) (f : Int) (infos : List Info) (fl : Nat) (hcs : cs ≠ 0) (hfl : fl / 2 = 0) :
    ∀ p q, Together (internalRegister st cs f infos fl).1.kinds p q ↔ regSame S cs p q :=
  internalRegister_together hne hdj T cs f infos fl hcs hfl

/-- Strengthening 3 — restrict: whatever map the array refines, after `hwloc_topology_restrict` it refines the
    RESTRICTION of that map to the new root cpuset (unchanged when restrict fails with EINVAL). -/
theorem C15_restrict_refines (strat : Strategy) (st : State) (m : AMap) (R : Refines st.kinds m) (set : Nat) :
    Refines (restrict strat st set).1.kinds
      (if st.root &&& set = 0 then m else m.restrict (st.root &&& set)) := by
  unfold restrict
  split
  · exact R
  · exact restrictKinds_refines strat R _

/-- Corollary (partition): the PUs covered by the kinds are exactly the domain of the abstract map, which is the
    reference coverage of `C15_kinds_partition` (union of registered cpusets, cut by every restrict). -/
theorem C15_partition_from_refinement (strat : Strategy) (root : Nat) (h : List Op) (p : Nat) :
    ((∃ k ∈ (run strat root h).kinds, k.cpuset.testBit p = true) ↔ (absRun root h).map p ≠ none) ∧
    ((absRun root h).map p ≠ none ↔ (runGhost root h).cov.testBit p = true) := by
  have R := (run_refines strat root h).1
  refine ⟨⟨?_, ?_⟩, (absGhost_run root h).dom p⟩
  · rintro ⟨k, hk, hp⟩
    rw [R.cell k hk p hp]; simp
  · intro hn
    apply Classical.byContradiction
    intro hc
    exact hn (R.none p hc)

/-- Corollary (infos): `C15_kinds_infos` re-derived from the refinement — the info list of a kind is the info list of
    the abstract cell of each of its PUs, which is duplicate-free and contains exactly the owed pairs. -/
theorem C15_infos_from_refinement (strat : Strategy) (root : Nat) (h : List Op) :
    ∀ k ∈ (run strat root h).kinds, k.infos.Nodup ∧
      ∀ p, k.cpuset.testBit p = true → ∀ x, x ∈ k.infos ↔ (runGhost root h).ow p x := by
  intro k hk
  have R := (run_refines strat root h).1
  have G := absGhost_run root h
  obtain ⟨p0, hp0⟩ := (ne_zero_iff_bits _).mp ((run_inv strat root h).k.ne k hk)
  exact ⟨G.nd p0 k.fi (R.cell k hk p0 hp0), fun p hp x => G.inf p k.fi (R.cell k hk p hp) x⟩

/-- every forced efficiency stored in a kind is the (normalised: negative -> -1) forced efficiency of a register call
    of the history: any predicate true of all of those holds for every kind -/
theorem C15_forced_from_history (P : Int → Prop) (strat : Strategy) (root : Nat) (h : List Op)
    (hP : ∀ cs f i fl, Op.register cs f i fl ∈ h → P (if f < 0 then -1 else f)) :
    ∀ k ∈ (run strat root h).kinds, P k.forced :=
  run_forced_P P strat root h hP

/-- Ranking and refinement together, PU by PU: when a ranking value `key` was chosen, the efficiencies of the kinds
    of two PUs compare as the ranking values of their ABSTRACT cells. -/
theorem C15_efficiency_order_by_cells (strat : Strategy) (root : Nat) (h : List Op) (key : Kind → Nat)
    (h2 : 2 ≤ (run strat root h).kinds.length) (hk : chooseKey strat (run strat root h).kinds = some key)
    (i j : Nat) (hi : i < (run strat root h).kinds.length) (hj : j < (run strat root h).kinds.length)
    (p q : Nat) (cp cq : Cell)
    (hp : (run strat root h).kinds[i].cpuset.testBit p = true)
    (hq : (run strat root h).kinds[j].cpuset.testBit q = true)
    (hcp : (absRun root h).map p = some cp) (hcq : (absRun root h).map q = some cq) :
    (run strat root h).kinds[i].eff = (i : Int) ∧ (run strat root h).kinds[j].eff = (j : Int) ∧
    (i < j ↔ key (ofFI cp) < key (ofFI cq)) :=
  eff_order_by_cells (run_ranked strat root h) (run_refines strat root h).1 h2 hk i j hi hj p q cp cq hp hq hcp hcq

/-- Finding (internal entry point, flags = 0 as used by the windows / x86 / linux / darwin backends): the rule "keep
    the first known forced efficiency" is applied only when the registered cpuset covers a whole kind.  When it covers
    a kind partly, the split-off kind takes the new value even if that is UNKNOWN: here PUs {0,1} have forced
    efficiency 5, a second backend registers PU {0} with UNKNOWN and no OVERWRITE flag, and PU 0 ends with -1;
    registering {0,1} instead keeps 5.  (Confirmed on the C code with a direct call.) -/
theorem C15_finding_split_drops_forced :
    let st0 : State := (internalRegister {} 0x3 5 [] 0).1
    ((internalRegister st0 0x1 (-1) [("CoreType", "IntelAtom")] 0).1.kinds.map (fun k => (k.cpuset, k.forced))
        = [(0x2, 5), (0x1, -1)]) ∧
    ((internalRegister st0 0x3 (-1) [("CoreType", "IntelAtom")] 0).1.kinds.map (fun k => (k.cpuset, k.forced))
        = [(0x3, 5)]) := by
  decide

/-! ## Disallowed PUs (HWLOC_TOPOLOGY_FLAG_INCLUDE_DISALLOWED + hwloc_topology_allow)

`Hw.Attr.CpuKindsAllowed`: `TState` adds the flag and `topology->allowed_cpuset` to the cpukinds state, `allow` is
`hwloc_topology_allow(topology, cpuset, NULL, flags)`, `restrictT` is `hwloc_topology_restrict` (refused iff the set
misses the ALLOWED cpuset; root and allowed are both cut by the set; kinds are cut by the NEW ROOT), `runT` runs
histories of register / restrict / dup / XML / refresh / allow.  "Intersected with the topology after a restrict" in
the property means the root cpuset: a PU that is disallowed but still in the topology stays in its kind. -/

/-- restrict: every kind's cpuset is cut by the NEW ROOT cpuset `root ∩ set` and emptied kinds are dropped — the result
    (cpuset, forced efficiency, infos of every kind; up to the re-ranking order) does not mention the allowed cpuset,
    which is merely cut by the set as well. -/
theorem C15_restrict_cuts_by_root (strat : Strategy) (t : TState) (set : Nat) (h : t.allowed &&& set ≠ 0) :
    SameCore ((t.st.kinds.map (fun k => { k with cpuset := k.cpuset &&& (t.st.root &&& set) })).filter
               (fun k => decide (k.cpuset ≠ 0)))
             (restrictT strat t set).1.st.kinds ∧
    (restrictT strat t set).1.st.root = t.st.root &&& set ∧
    (restrictT strat t set).1.allowed = t.allowed &&& set :=
  restrictT_kinds strat t set h

/-- PU by PU: after a successful restrict a PU belongs to some kind iff it did before and it is still in the topology
    (new root cpuset) — allowed or not. -/
theorem C15_restrict_covers (strat : Strategy) (t : TState) (set : Nat) (h : t.allowed &&& set ≠ 0) (p : Nat) :
    (∃ k ∈ (restrictT strat t set).1.st.kinds, k.cpuset.testBit p = true) ↔
      (∃ k ∈ t.st.kinds, k.cpuset.testBit p = true) ∧ (t.st.root &&& set).testBit p = true :=
  restrictT_covers strat t set h p

/-- two topologies with the same kinds and root cpuset but DIFFERENT allowed cpusets (both met by the set) have the same
    kinds and root cpuset after the restrict; a set that misses the allowed cpuset is refused and nothing moves. -/
theorem C15_restrict_independent_of_allowed (strat : Strategy) (t1 t2 : TState) (set : Nat) (hst : t1.st = t2.st)
    (h1 : t1.allowed &&& set ≠ 0) (h2 : t2.allowed &&& set ≠ 0) :
    (restrictT strat t1 set).1.st = (restrictT strat t2 set).1.st ∧
    (∀ t : TState, t.allowed &&& set = 0 → restrictT strat t set = (t, .einval)) := by
  refine ⟨?_, fun t h => by simp [restrictT, h]⟩
  simp only [restrictT, if_neg h1, if_neg h2, hst]

/-- hwloc_topology_allow — whatever its arguments and outcome — leaves the kinds array, the root cpuset and the flag
    alone; without INCLUDE_DISALLOWED it is refused. -/
theorem C15_allow_keeps_kinds (t : TState) (cs : Option Nat) (fl : Nat) :
    (allow t cs fl).1.st = t.st ∧ (allow t cs fl).1.inclDis = t.inclDis ∧
    (t.inclDis = false → allow t cs fl = (t, .einval)) :=
  ⟨allow_st t cs fl, allow_inclDis t cs fl, fun h => allow_noflag t h cs fl⟩

/-- after ANY history with allow calls: allowed ⊆ root, equal without the flag, non-empty on a non-empty topology
    (hence a restrict accepted by the allowed-cpuset test never empties the topology). -/
theorem C15_allowed_within_root (strat : Strategy) (root : Nat) (d : Bool) (h : List TOp) :
    let t := runT strat root d h
    t.allowed &&& t.st.root = t.allowed ∧ (t.inclDis = false → t.allowed = t.st.root) ∧
    (t.st.root ≠ 0 → t.allowed ≠ 0) :=
  let W := runT_wf strat root d h
  ⟨W.sub, W.eq, W.ne⟩

/-- histories with INCLUDE_DISALLOWED and allow calls reduce to plain histories: the cpukinds state after `h` is the
    state after `traceT .. h` (allow calls erased, restricts refused for missing the allowed cpuset turned into refused
    restricts), so EVERY theorem of this file about `run` holds for `runT`. -/
theorem C15_allow_history_reduces (strat : Strategy) (root : Nat) (d : Bool) (h : List TOp) :
    (runT strat root d h).st = run strat root (traceT strat (tinit root d) h) :=
  runT_eq_run strat root d h

/-- e.g. the partition: non-empty, pairwise disjoint kinds whose union is the reference coverage of the reduced history
    (registered PUs cut by the ROOT cpuset of every successful restrict). -/
theorem C15_kinds_partition_disallowed (strat : Strategy) (root : Nat) (d : Bool) (h : List TOp) :
    let ks := (runT strat root d h).st.kinds
    let g := runGhost root (traceT strat (tinit root d) h)
    (∀ k ∈ ks, k.cpuset ≠ 0) ∧ ks.Pairwise (fun a b => a.cpuset &&& b.cpuset = 0) ∧
    (∀ p, (∃ k ∈ ks, k.cpuset.testBit p = true) ↔ g.cov.testBit p = true) ∧
    g.root = (runT strat root d h).st.root := by
  intro ks g
  have e := runT_eq_run strat root d h
  have P := C15_kinds_partition strat root (traceT strat (tinit root d) h)
  simp only [ks, g, e]
  exact P

/-! non-vacuity (the scenario of corpus/cpukinds/C15-r2-restrict-keeps-disallowed-pus.txt and a refused restrict) -/
example :
    let t := runT .dflt 0xff true [.allow (some 0x3f) 4, .op (.register (some 0x0f) 10 [] 0),
                                   .op (.register (some 0xf0) 20 [] 0), .op (.restrict 0xfc)]
    (t.st.kinds.map (fun k => (k.cpuset, k.eff)), t.st.root, t.allowed) = ([(0x0c, 0), (0xf0, 1)], 0xfc, 0x3c) := by
  decide
example :
    let t := runT .dflt 0xff true [.allow (some 0x3f) 4, .op (.register (some 0xf0) 20 [] 0)]
    t.allowed &&& 0xc0 = 0 ∧ (restrictT .dflt t 0xc0).2 = .einval ∧ (restrict .dflt t.st 0xc0).2 = .ok := by
  decide
example :
    (traceT .dflt (tinit 0xff true) [.allow (some 0x3f) 4, .op (.register (some 0xf0) 20 [] 0), .op (.restrict 0xc0),
                                     .allow none 1, .op (.restrict 0xc0)]).map
        (fun o => match o with | .restrict s => some s | _ => none) = [none, some 0, some 0xc0] := by
  decide

/-! non-vacuity: a concrete history with a split, a merge, a restrict that removes a kind, and a ranking -/
example :
    (run .dflt 0xfff [.register (some 0x0f) 2 [("CoreType", "IntelCore")] 0,
                      .register (some 0x3c) 1 [("Foo", "x")] 0,
                      .register (some 0x30) 0 [] 0,
                      .restrict 0xffc, .xml]).kinds.map (fun k => (k.cpuset, k.eff, k.forced)) =
      [(0x30, 0, 0), (0x0c, 1, 1)] := by decide
example :
    getByCpuset (run .dflt 0xfff [.register (some 0x0f) 2 [] 0, .register (some 0x3c) 1 [] 0]) (some 0x18) 0
      = .err .exdev := by decide
example :
    getByCpuset (run .dflt 0xfff [.register (some 0x0f) 2 [] 0, .register (some 0x3c) 1 [] 0]) (some 0x30) 0
      = .idx 2 := by decide

/-! non-vacuity of the strengthened theorems -/
-- ranked by forced efficiency: hypotheses of `C15_efficiency_forced_consistent` hold on a 3-kind state
example :
    let h : List Op := [.register (some 0x0f) 2 [] 0, .register (some 0x3c) 1 [] 0, .register (some 0x30) 0 [] 0]
    let ks := (run .dflt 0xfff h).kinds
    h.all intForced = true ∧ (∀ k ∈ ks, k.forced ≠ -1) ∧ (ks.map (·.forced)).Pairwise (· ≠ ·) ∧
    ks.map (fun k => (k.cpuset, k.eff, k.forced)) = [(0x30, 0, 0), (0x0c, 1, 1), (0x03, 2, 2)] := by decide
-- ranked by core type + frequency (no forced efficiency): a key is chosen and the array is sorted by it
example :
    let ks := (run .dflt 0xff [.register (some 0x0f) (-1) [("CoreType", "IntelCore"), ("FrequencyBaseMHz", "3000")] 0,
                               .register (some 0xf0) (-1) [("CoreType", "IntelAtom"), ("FrequencyBaseMHz", "2000")] 0]).kinds
    (chooseKey .dflt ks).isSome = true ∧ ks.map (fun k => (k.cpuset, k.eff, ctFreqKey true k)) =
      [(0xf0, 0, 1050576), (0x0f, 1, 2100152)] := by decide
-- unranked: two kinds without any usable information
example :
    let ks := (run .dflt 0xff [.register (some 0x0f) (-1) [] 0, .register (some 0xf0) (-1) [] 0]).kinds
    (chooseKey .dflt ks).isNone = true ∧ ks.map (·.eff) = [-1, -1] := by decide
-- the abstract map of a history with a split, a merge and a restrict
example :
    let h : List Op := [.register (some 0x0f) 2 [("A", "1")] 0, .register (some 0x3c) 1 [("B", "2"), ("A", "1")] 0,
                        .restrict 0x3e]
    ((List.range 7).map (absRun 0xff h).map) =
      [none, some (2, [("A", "1")]), some (1, [("A", "1"), ("B", "2")]), some (1, [("A", "1"), ("B", "2")]),
       some (1, [("B", "2"), ("A", "1")]), some (1, [("B", "2"), ("A", "1")]), none] ∧
    ((List.range 7).map (cellAt (run .dflt 0xff h).kinds)) = ((List.range 7).map (absRun 0xff h).map) := by decide
-- the hypotheses of `C15_register_algebra` / `C15_internal_register_refines` hold on a non-trivial state
example :
    let st := run .dflt 0xff [.register (some 0x0f) 2 [("A", "1")] 0, .register (some 0x3c) 1 [("B", "2")] 0]
    st.kinds.length = 3 ∧ (∀ k ∈ st.kinds, k.cpuset ≠ 0) ∧
    st.kinds.Pairwise (fun a b => a.cpuset &&& b.cpuset = 0) ∧ (∀ k ∈ st.kinds, k.infos.Nodup) := by decide

/-! ## A7 — `hwloc_internal_cpukinds_rank` on EVERY array under EVERY strategy, and histories in which
       HWLOC_CPUKINDS_RANKING changes between the calls

`Hw.Attr.CpuKindsStrategies`.  The theorems above are about reachable states and one fixed strategy; the C function is
total on kinds arrays and reads the environment variable in every call, so here (a) `rank` is characterised on every
array (no reachability hypothesis), (b) the choice of the ranking value is stated as propositions (`Sel`), strategy by
strategy, (c) histories carry a strategy per call (`EOp = Strategy × Op`, `runE`). -/

/-- General shape, EVERY array and EVERY strategy: the output of `hwloc_internal_cpukinds_rank` is a permutation of
    its input as far as (cpuset, forced efficiency, infos) go, and its efficiencies are all -1 or efficiency i = i
    (a permutation of 0..nr-1 increasing with the kind index). -/
theorem C15_rank_shape (strat : Strategy) (ks : List Kind) :
    ((rank strat ks).map (fun k => (k.cpuset, k.forced, k.infos))).Perm (ks.map (fun k => (k.cpuset, k.forced, k.infos))) ∧
    ((∀ k ∈ rank strat ks, k.eff = -1) ∨
     (∀ (i : Nat) (hi : i < (rank strat ks).length), (rank strat ks)[i].eff = (i : Int))) :=
  ⟨rank_sameCore strat ks, rank_effShape strat ks⟩

/-- EVERY array, EVERY strategy, exactly: at most one kind — efficiency 0; otherwise, with a ranking value chosen the
    result IS the array sorted by it and renumbered (strictly sorted: the values are pairwise distinct), with none
    chosen it is the input array in the input order with all efficiencies -1. -/
theorem C15_rank_spec (strat : Strategy) (ks : List Kind) :
    (ks.length ≤ 1 → (rank strat ks).map (fun k => (k.cpuset, k.forced, k.infos)) =
        ks.map (fun k => (k.cpuset, k.forced, k.infos)) ∧ ∀ k ∈ rank strat ks, k.eff = 0) ∧
    (2 ≤ ks.length →
      match chooseKey strat ks with
      | some key => rank strat ks = renumber 0 (sortBy key ks) ∧
                    (rank strat ks).Pairwise (fun a b => key a < key b) ∧ dupFree (ks.map key) = true ∧
                    (∀ (i : Nat) (hi : i < (rank strat ks).length), (rank strat ks)[i].eff = (i : Int))
      | none => rank strat ks = clearEff ks) :=
  (rank_spec strat ks).2

/-- (1) EVERY kinds array in which all forced efficiencies are known (≠ -1; ≥ -1 and below 2^64 — the C field is an
    `int` and the public entry point stores -1 for every negative value) and pairwise distinct: after
    `hwloc_internal_cpukinds_rank` under the default or the `forced_efficiency` strategy the kinds are a permutation of
    the input, kind index order = strictly increasing forced efficiency, reported efficiency i = i, and for two or more
    kinds the array is the input sorted by forced efficiency. -/
theorem C15_rank_consistent_with_forced (strat : Strategy) (hs : strat = .dflt ∨ strat = .forced) (ks : List Kind)
    (hb : ∀ k ∈ ks, -1 ≤ k.forced ∧ k.forced < 18446744073709551616)
    (hk : ∀ k ∈ ks, k.forced ≠ -1) (hd : (ks.map (·.forced)).Pairwise (· ≠ ·)) :
    ((rank strat ks).map (fun k => (k.cpuset, k.forced, k.infos))).Perm (ks.map (fun k => (k.cpuset, k.forced, k.infos))) ∧
    ((rank strat ks).map (·.forced)).Pairwise (· < ·) ∧
    (∀ (i : Nat) (hi : i < (rank strat ks).length), (rank strat ks)[i].eff = (i : Int)) ∧
    (2 ≤ ks.length → rank strat ks = renumber 0 (sortBy forcedKey ks)) :=
  rank_consistent_with_forced hs ks hb hk hd

/-- the converse for the `forced_efficiency` strategy: one unknown or two equal forced efficiencies among two or more
    kinds — nothing is reordered and every efficiency is -1 -/
theorem C15_forced_strategy_fails (ks : List Kind) (h2 : 2 ≤ ks.length)
    (hb : ∀ k ∈ ks, -1 ≤ k.forced ∧ k.forced < 18446744073709551616)
    (h : (∃ k ∈ ks, k.forced = -1) ∨ ¬ (ks.map (·.forced)).Pairwise (· ≠ ·)) :
    rank .forced ks = clearEff ks :=
  rank_forced_fails ks h2 hb h

/-- WHICH ranking value each value of HWLOC_CPUKINDS_RANKING selects (`Sel s ks key`), spelled out.  `ForcedOK`: every
    forced efficiency known and the values pairwise distinct; `HaveCT / HaveMax / HaveBase`: EVERY kind has a recognised
    CoreType / a non-zero FrequencyMaxMHz / a non-zero FrequencyBaseMHz summary; the frequency part of a value is the base
    frequency iff every kind has one (`haveBaseB`). -/
theorem C15_strategy_table (ks : List Kind) (key : Kind → Nat) :
    (Sel .dflt ks key ↔ (ForcedOK ks ∧ key = forcedKey) ∨
        (¬ ForcedOK ks ∧ ((HaveCT ks ∨ HaveMax ks ∨ HaveBase ks) ∧ (ks.map (ctFreqKey (haveBaseB ks))).Nodup) ∧
          key = ctFreqKey (haveBaseB ks))) ∧
    (Sel .noForced ks key ↔ ((HaveCT ks ∨ HaveMax ks ∨ HaveBase ks) ∧ (ks.map (ctFreqKey (haveBaseB ks))).Nodup) ∧
          key = ctFreqKey (haveBaseB ks)) ∧
    (Sel .forced ks key ↔ ForcedOK ks ∧ key = forcedKey) ∧
    (Sel .coretypeFreq ks key ↔ ((HaveCT ks ∨ HaveMax ks ∨ HaveBase ks) ∧ (ks.map (ctFreqKey (haveBaseB ks))).Nodup) ∧
          key = ctFreqKey (haveBaseB ks)) ∧
    (Sel .coretypeFreqStrict ks key ↔ ((HaveCT ks ∧ (HaveMax ks ∨ HaveBase ks)) ∧
          (ks.map (ctFreqKey (haveBaseB ks))).Nodup) ∧ key = ctFreqKey (haveBaseB ks)) ∧
    (Sel .coretype ks key ↔ (HaveCT ks ∧ (ks.map ctKey).Nodup) ∧ key = ctKey) ∧
    (Sel .frequency ks key ↔ ((HaveMax ks ∨ HaveBase ks) ∧ (ks.map (freqKey (haveBaseB ks))).Nodup) ∧
          key = freqKey (haveBaseB ks)) ∧
    (Sel .freqMax ks key ↔ (HaveMax ks ∧ (ks.map (freqKey false)).Nodup) ∧ key = freqKey false) ∧
    (Sel .freqBase ks key ↔ (HaveBase ks ∧ (ks.map (freqKey true)).Nodup) ∧ key = freqKey true) ∧
    (Sel .none ks key ↔ False) :=
  ⟨Iff.rfl, Iff.rfl, Iff.rfl, Iff.rfl, Iff.rfl, Iff.rfl, Iff.rfl, Iff.rfl, Iff.rfl, Iff.rfl⟩

/-- the model's choice IS that table: `chooseKey s ks = some key ↔ Sel s ks key`, and no value is chosen iff the table
    selects none -/
theorem C15_strategy_selects (s : Strategy) (ks : List Kind) :
    (∀ key, chooseKey s ks = some key ↔ Sel s ks key) ∧ (chooseKey s ks = none ↔ ∀ key, ¬ Sel s ks key) :=
  ⟨chooseKey_iff_sel s ks, chooseKey_none_iff s ks⟩

/-- the resulting order for EVERY strategy on EVERY array of two or more kinds: when the strategy selects a ranking value
    the result is the input sorted by it (strictly: the values are pairwise distinct) and renumbered 0..nr-1; when it
    selects none (requirement not met, or two kinds with the same value) the array is untouched and every efficiency is -1. -/
theorem C15_rank_by_strategy (s : Strategy) (ks : List Kind) (h2 : 2 ≤ ks.length) :
    (∀ key, Sel s ks key →
      rank s ks = renumber 0 (sortBy key ks) ∧ (rank s ks).Pairwise (fun a b => key a < key b) ∧ (ks.map key).Nodup ∧
      (∀ (i : Nat) (hi : i < (rank s ks).length), (rank s ks)[i].eff = (i : Int))) ∧
    ((∀ key, ¬ Sel s ks key) → rank s ks = clearEff ks) :=
  rank_by_strategy s ks h2

/-- the summaries the info-based strategies look at: the LAST FrequencyMaxMHz / FrequencyBaseMHz pair of the kind through
    `(unsigned) atoi`, 0 without such a pair; the last CoreType pair that says IntelAtom (1) / IntelCore (2), 0 without -/
theorem C15_info_summary (k : Kind) :
    (summarize k).maxFreq = freqOf (lastVal "FrequencyMaxMHz" k.infos) ∧
    (summarize k).baseFreq = freqOf (lastVal "FrequencyBaseMHz" k.infos) ∧
    (summarize k).coreType = lastCoreType k.infos :=
  summarize_spec k

/-- the strcmp chain on the value of HWLOC_CPUKINDS_RANKING: unset, `default` and an unrecognised value all mean the
    default strategy -/
theorem C15_env_values :
    parseEnv none = .dflt ∧ parseEnv (some "default") = .dflt ∧ parseEnv (some "bogus_value") = .dflt ∧
    parseEnv (some "") = .dflt ∧ parseEnv (some "no_forced_efficiency") = .noForced ∧
    parseEnv (some "forced_efficiency") = .forced ∧ parseEnv (some "coretype+frequency") = .coretypeFreq ∧
    parseEnv (some "coretype+frequency_strict") = .coretypeFreqStrict ∧ parseEnv (some "coretype") = .coretype ∧
    parseEnv (some "frequency") = .frequency ∧ parseEnv (some "frequency_max") = .freqMax ∧
    parseEnv (some "frequency_base") = .freqBase ∧ parseEnv (some "none") = .none := by
  decide

/-- (2) histories in which HWLOC_CPUKINDS_RANKING changes between the calls (`EOp` = strategy in force × call): the
    partition / coverage / infos / capacity / efficiency-shape invariant holds against the SAME reference semantics
    (which never mentions a strategy), and a constant strategy gives back `run`. -/
theorem C15_env_history_invariant (root : Nat) (h : List EOp) :
    let ks := (runE root h).kinds
    let g := runGhost root (h.map (·.2))
    (∀ k ∈ ks, k.cpuset ≠ 0) ∧ ks.Pairwise (fun a b => a.cpuset &&& b.cpuset = 0) ∧
    (∀ p, (∃ k ∈ ks, k.cpuset.testBit p = true) ↔ g.cov.testBit p = true) ∧
    (∀ k ∈ ks, k.infos.Nodup ∧ ∀ p, k.cpuset.testBit p = true → ∀ x, x ∈ k.infos ↔ g.ow p x) ∧
    ((∀ k ∈ ks, k.eff = -1) ∨ (∀ (i : Nat) (hi : i < ks.length), ks[i].eff = (i : Int))) ∧
    (∀ strat (h0 : List Op), runE root (h0.map (fun o => (strat, o))) = run strat root h0) :=
  let H := runE_inv root h
  ⟨H.k.ne, H.k.dj, H.k.cov, fun k hk => ⟨H.k.nd k hk, H.k.inf k hk⟩, H.eff, fun strat h0 => runE_const strat root h0⟩

/-- after ANY history with changing strategies the array is ranked with respect to the strategy `tag` that was in force
    at the last call that ran `hwloc_internal_cpukinds_rank` on it (successful register, XML reload, refresh, restrict that
    dropped a kind): one kind — efficiency 0; two or more — strictly sorted by the value `tag` selects with efficiency
    i = i, or all -1 when `tag` selects none. -/
theorem C15_env_history_ranked (root : Nat) (h : List EOp) :
    let ks := (runE root h).kinds
    let tag := (runET root h).2
    (ks.length = 1 → ∀ k ∈ ks, k.eff = 0) ∧
    (2 ≤ ks.length →
      match chooseKey tag ks with
      | some key => ks.Pairwise (fun a b => key a < key b) ∧ ∀ (i : Nat) (hi : i < ks.length), ks[i].eff = (i : Int)
      | none => ∀ k ∈ ks, k.eff = -1) := by
  have H := runET_ranked root h
  rw [runET_fst] at H
  exact H

/-- every forced efficiency passed to a register call of the history fits a C `int` -/
def intForcedE (p : EOp) : Bool := intForced p.2

/-- (2) consistency with the forced efficiencies over histories with changing strategies: whenever the last ranking call
    ran under the default or the `forced_efficiency` strategy and all forced efficiencies are known and pairwise
    distinct, efficiency = index and the forced efficiencies strictly increase with the index. -/
theorem C15_rank_consistent_with_forced_history (root : Nat) (h : List EOp) (hI : h.all intForcedE = true)
    (ht : (runET root h).2 = .dflt ∨ (runET root h).2 = .forced) :
    let ks := (runE root h).kinds
    (∀ k ∈ ks, k.forced ≠ -1) → (ks.map (·.forced)).Pairwise (· ≠ ·) →
    (∀ (i : Nat) (hi : i < ks.length), ks[i].eff = (i : Int)) ∧ (ks.map (·.forced)).Pairwise (· < ·) := by
  intro ks hk hd
  have H := runET_ranked root h
  rw [runET_fst] at H
  refine ranked_forced_consistent ht H ?_ hk hd
  apply runE_forced_P (fun x => -1 ≤ x ∧ x < 2147483648) root h
  intro s cs f i fl hm
  have := List.all_eq_true.mp hI _ hm
  simp only [intForcedE, intForced, decide_eq_true_eq] at this
  split <;> omega

/-- ... in particular for every history that ENDS in a call that ranks under one of these two strategies, whatever the
    strategies of the earlier calls were -/
theorem C15_rank_consistent_with_forced_after_rank (root : Nat) (h : List EOp) (p : EOp)
    (hI : (h ++ [p]).all intForcedE = true) (hr : ranks (runE root h) p = true) (hs : p.1 = .dflt ∨ p.1 = .forced) :
    let ks := (stepE (runE root h) p).kinds
    (∀ k ∈ ks, k.forced ≠ -1) → (ks.map (·.forced)).Pairwise (· ≠ ·) →
    (∀ (i : Nat) (hi : i < ks.length), ks[i].eff = (i : Int)) ∧ (ks.map (·.forced)).Pairwise (· < ·) := by
  have L := runET_last root h p hr
  have H := C15_rank_consistent_with_forced_history root (h ++ [p]) hI (by rw [L.1]; exact hs)
  rw [← runET_fst, L.2] at H
  exact H

/-- the refinement to the abstract map PU ↦ (forced efficiency, infos) is strategy-blind too -/
theorem C15_env_history_refinement (root : Nat) (h : List EOp) :
    Refines (runE root h).kinds (absRun root (h.map (·.2))).map ∧
    (absRun root (h.map (·.2))).root = (runE root h).root :=
  runE_refines root h

/-- env-switching histories on INCLUDE_DISALLOWED topologies with `hwloc_topology_allow` calls mixed in reduce to plain
    env-switching histories (allow calls erased, restricts refused for missing the allowed cpuset turned into refused
    restricts, every call keeps its strategy): every `runE` / `runET` theorem above holds for `runTE`. -/
theorem C15_env_allow_history_reduces (root : Nat) (d : Bool) (h : List ETOp) :
    (runTE root d h).st = runE root (traceTE (tinit root d) h) :=
  runTE_eq_runE root d h

/-- e.g. the ranking: after ANY such history the array is ranked w.r.t. the strategy of the last ranking call -/
theorem C15_env_allow_history_ranked (root : Nat) (d : Bool) (h : List ETOp) :
    Ranked (runET root (traceTE (tinit root d) h)).2 (runTE root d h).st.kinds := by
  rw [runTE_eq_runE, ← runET_fst]
  exact runET_ranked root _

/-- the C comment "rank first by coretype (Core >> Atom) then by frequency" holds as long as the frequency summaries stay
    below 2^20 MHz: the value `(intel_core_type << 20) + freq` then compares kinds lexicographically by (core type,
    frequency); the core-type summary is at most 2. -/
theorem C15_coretype_frequency_lexicographic (hb : Bool) (a b : Kind)
    (ha : freqKey hb a < 1048576) (hb' : freqKey hb b < 1048576) :
    (ctFreqKey hb a < ctFreqKey hb b ↔
      (summarize a).coreType < (summarize b).coreType ∨
      ((summarize a).coreType = (summarize b).coreType ∧ freqKey hb a < freqKey hb b)) ∧
    (summarize a).coreType ≤ 2 :=
  ⟨ctFreqKey_lex hb a b ha hb', summarize_coreType_le a⟩

/-- the cross-check the driver performs after every line of the differential run never fails on the model -/
theorem C15_driver_crosscheck (root : Nat) (h : List EOp) :
    specOK (runET root h).2 (runET root h).1.kinds = true :=
  runET_specOK root h

/-- the direct call on ANY state (harness op `rawrank`, after the private writes of `rawset` / `rawswap` made an array no
    history reaches): a permutation of the array, ranked w.r.t. the strategy in force -/
theorem C15_direct_rank (strat : Strategy) (st : State) :
    ((rawRank strat st).kinds.map (fun k => (k.cpuset, k.forced, k.infos))).Perm
        (st.kinds.map (fun k => (k.cpuset, k.forced, k.infos))) ∧
    Ranked strat (rawRank strat st).kinds :=
  ⟨rank_sameCore strat st.kinds, rawRank_ranked strat st⟩

/-- forced efficiencies over the whole range of a C `int` (the internal entry point and private writes can store negative
    values other than -1; the public call cannot): known and pairwise distinct — the default and `forced_efficiency`
    strategies sort by the `uint64_t` cast `ukey` (non-negative values in increasing order, then the negative ones) -/
theorem C15_rank_forced_int_range (strat : Strategy) (hs : strat = .dflt ∨ strat = .forced) (ks : List Kind)
    (h2 : 2 ≤ ks.length) (hb : ∀ k ∈ ks, -9223372036854775808 ≤ k.forced ∧ k.forced < 9223372036854775808)
    (hk : ∀ k ∈ ks, k.forced ≠ -1) (hd : (ks.map (·.forced)).Pairwise (· ≠ ·)) :
    rank strat ks = renumber 0 (sortBy forcedKey ks) ∧
    (rank strat ks).Pairwise (fun a b => ukey a.forced < ukey b.forced) ∧
    (∀ (i : Nat) (hi : i < (rank strat ks).length), (rank strat ks)[i].eff = (i : Int)) :=
  rank_forced_int hs ks h2 hb hk hd

/-- failure of the info-based strategies, EVERY array of two or more kinds: when the requirement of the strategy's row in
    `C15_strategy_table` is not met the array is untouched and every efficiency is -1 (`no_forced_efficiency` has the
    requirement of `coretype+frequency`) -/
theorem C15_info_strategy_fails (s : Strategy) (hs : s ≠ .dflt ∧ s ≠ .forced) (ks : List Kind) (h2 : 2 ≤ ks.length)
    (hn : ¬ Need (if s = .noForced then .coretypeFreq else s) ks) : rank s ks = clearEff ks :=
  rank_info_fails s hs ks h2 hn

/-- non-numeric info values: a kind whose LAST FrequencyMaxMHz (FrequencyBaseMHz) value, after white space, is empty or
    starts with neither a sign nor a digit — `atoi` answers 0 — or which has no such pair, makes `frequency_max`
    (`frequency_base`) fail for the whole array -/
theorem C15_nonnumeric_frequency_fails (ks : List Kind) (h2 : 2 ≤ ks.length) (k : Kind) (hk : k ∈ ks) :
    ((lastVal "FrequencyMaxMHz" k.infos = none ∨ ∃ v, lastVal "FrequencyMaxMHz" k.infos = some v ∧ NonNumeric v) →
      rank .freqMax ks = clearEff ks) ∧
    ((lastVal "FrequencyBaseMHz" k.infos = none ∨ ∃ v, lastVal "FrequencyBaseMHz" k.infos = some v ∧ NonNumeric v) →
      rank .freqBase ks = clearEff ks) :=
  ⟨rank_freqMax_fails ks h2 k hk, rank_freqBase_fails ks h2 k hk⟩

/-! non-vacuity of the A7 theorems -/
-- `C15_rank_consistent_with_forced`: an array that is NOT reachable (overlapping cpusets, stale efficiencies) meets the
-- hypotheses and is reordered
example :
    let ks : List Kind := [{ cpuset := 0x3, eff := 7, forced := 20, infos := [] },
                           { cpuset := 0x6, eff := -1, forced := 0, infos := [("CoreType", "IntelCore")] },
                           { cpuset := 0x8, eff := 0, forced := 2147483647, infos := [] }]
    (∀ k ∈ ks, -1 ≤ k.forced ∧ k.forced < 18446744073709551616) ∧ (∀ k ∈ ks, k.forced ≠ -1) ∧
    (ks.map (·.forced)).Pairwise (· ≠ ·) ∧
    (rank .dflt ks).map (fun k => (k.cpuset, k.eff, k.forced)) = [(0x6, 0, 0), (0x3, 1, 20), (0x8, 2, 2147483647)] := by
  decide
-- `C15_forced_strategy_fails`: a tie
example :
    let ks : List Kind := [{ cpuset := 0x3, eff := 0, forced := 5, infos := [] },
                           { cpuset := 0xc, eff := 1, forced := 5, infos := [] }]
    2 ≤ ks.length ∧ (∀ k ∈ ks, -1 ≤ k.forced ∧ k.forced < 18446744073709551616) ∧
    ¬ (ks.map (·.forced)).Pairwise (· ≠ ·) ∧ (rank .forced ks).map (·.eff) = [-1, -1] := by decide
-- `C15_rank_by_strategy`: `frequency_max` selects a value on this array, `frequency_base` selects none (one kind has a
-- non-numeric base frequency), `coretype` selects none (both kinds are IntelCore)
example :
    let ks : List Kind := [{ cpuset := 0x3, eff := -1, forced := -1,
                             infos := [("CoreType", "IntelCore"), ("FrequencyMaxMHz", "3000"), ("FrequencyBaseMHz", "abc")] },
                           { cpuset := 0xc, eff := -1, forced := -1,
                             infos := [("FrequencyMaxMHz", "9"), ("CoreType", "IntelCore"), ("FrequencyMaxMHz", "1200")] }]
    (chooseKey .freqMax ks).isSome = true ∧ (rank .freqMax ks).map (fun k => (k.cpuset, k.eff)) = [(0xc, 0), (0x3, 1)] ∧
    (chooseKey .freqBase ks).isNone = true ∧ (rank .freqBase ks).map (fun k => (k.cpuset, k.eff)) = [(0x3, -1), (0xc, -1)] ∧
    (chooseKey .coretype ks).isNone = true ∧ (summarize ks[1]).maxFreq = 1200 := by decide
-- histories with a changing strategy: ranked by forced efficiency, re-ranked by `none`, a restrict that drops nothing
-- keeps the (now stale) ranking, a refresh under the default strategy restores it
example :
    let h : List EOp := [(.none, .register (some 0x0f) 2 [] 0), (.none, .register (some 0xf0) 1 [] 0)]
    (runE 0xff h).kinds.map (fun k => (k.cpuset, k.eff)) = [(0x0f, -1), (0xf0, -1)] ∧
    (runET 0xff h).2 = .none ∧
    (runE 0xff (h ++ [(.forced, .refresh)])).kinds.map (fun k => (k.cpuset, k.eff)) = [(0xf0, 0), (0x0f, 1)] ∧
    (runET 0xff (h ++ [(.forced, .refresh), (.none, .restrict 0xff), (.none, .dup)])).2 = .forced ∧
    ranks (runE 0xff h) ((Strategy.forced, Op.refresh) : EOp) = true ∧ (h ++ [((Strategy.forced, Op.refresh) : EOp)]).all intForcedE = true := by decide
-- `C15_coretype_frequency_lexicographic`: hypotheses met by a hybrid pair; beyond 2^20 the order is no longer lexicographic
example :
    let a : Kind := { cpuset := 1, eff := -1, forced := -1, infos := [("CoreType", "IntelAtom"), ("FrequencyBaseMHz", "3000")] }
    let b : Kind := { cpuset := 2, eff := -1, forced := -1, infos := [("CoreType", "IntelCore"), ("FrequencyBaseMHz", "2000")] }
    let c : Kind := { cpuset := 4, eff := -1, forced := -1, infos := [("CoreType", "IntelAtom"), ("FrequencyBaseMHz", "2097152")] }
    freqKey true a < 1048576 ∧ freqKey true b < 1048576 ∧ ctFreqKey true a < ctFreqKey true b ∧
    ¬ freqKey true c < 1048576 ∧ ctFreqKey true b < ctFreqKey true c := by decide
-- env-switching history with allow calls: the trace keeps the strategies and erases the allow call
example :
    let h : List ETOp := [(.none, .allow (some 0x3f) 4), (.none, .op (.register (some 0x0f) 10 [] 0)),
                          (.forced, .op (.register (some 0xf0) 5 [] 0)), (.coretype, .op (.restrict 0xc0))]
    (runTE 0xff true h).st.kinds.map (fun k => (k.cpuset, k.eff)) = [(0xf0, 0), (0x0f, 1)] ∧
    (traceTE (tinit 0xff true) h).map (·.1) = [.none, .forced, .coretype] ∧
    (runET 0xff (traceTE (tinit 0xff true) h)).2 = .forced := by decide
-- private writes: a swapped array with a negative forced efficiency (ranked by its uint64_t cast: after the others)
example :
    let st := run .forced 0xff [.register (some 0x0f) 1 [] 0, .register (some 0xf0) 2 [] 0]
    let st2 := (rawSet (rawSwap st 0 1).1 0 (-7) 99).1
    st2.kinds.map (fun k => (k.cpuset, k.eff, k.forced)) = [(0xf0, 99, -7), (0x0f, 0, 1)] ∧
    (rawRank .forced st2).kinds.map (fun k => (k.cpuset, k.eff, k.forced)) = [(0x0f, 0, 1), (0xf0, 1, -7)] := by decide
-- `C15_rank_forced_int_range`: 5, -7, INT_MIN are known and distinct; the negative ones come last, in increasing order
example :
    let ks : List Kind := [{ cpuset := 1, eff := 0, forced := -7, infos := [] }, { cpuset := 2, eff := 0, forced := 5, infos := [] },
                           { cpuset := 4, eff := 0, forced := -2147483648, infos := [] }]
    2 ≤ ks.length ∧ (∀ k ∈ ks, -9223372036854775808 ≤ k.forced ∧ k.forced < 9223372036854775808) ∧
    (∀ k ∈ ks, k.forced ≠ -1) ∧ (ks.map (·.forced)).Pairwise (· ≠ ·) ∧
    (rank .forced ks).map (fun k => (k.eff, k.forced)) = [(0, 5), (1, -2147483648), (2, -7)] := by decide
-- `C15_nonnumeric_frequency_fails`: "abc" is NonNumeric and defeats frequency_max; "12abc" is not (atoi = 12)
example :
    let k : Kind := { cpuset := 1, eff := -1, forced := -1, infos := [("FrequencyMaxMHz", "3000"), ("FrequencyMaxMHz", "abc")] }
    lastVal "FrequencyMaxMHz" k.infos = some "abc" ∧ "abc".toList.dropWhile isSpace = ['a', 'b', 'c'] ∧
    (summarize k).maxFreq = 0 ∧ atoiU32 "12abc" = 12 ∧ atoiU32 "-5" = 4294967291 ∧ atoiU32 "4294967297" = 1 := by decide
example : NonNumeric "abc" := Or.inr ⟨'a', ['b', 'c'], by decide, by decide, by decide, by decide⟩
-- `C15_info_strategy_fails`: `coretype` on an array with an unrecognised core type
example :
    let ks : List Kind := [{ cpuset := 1, eff := 0, forced := 1, infos := [("CoreType", "IntelAtom")] },
                           { cpuset := 2, eff := 1, forced := 2, infos := [("CoreType", "Other")] }]
    ¬ Need .coretype ks ∧ (rank .coretype ks).map (·.eff) = [-1, -1] := by
  refine ⟨fun h => ?_, by decide⟩
  exact h _ (List.mem_cons_of_mem _ List.mem_cons_self) (by decide)

end Hw.Props.C15
