/-
  C05 — XML export followed by import reproduces the topology (and is a fixpoint).

  Proved here, for all inputs, over the models of Hw.Io.Xml / Hw.Io.Base64 / Hw.Base.Num (tied to the C code byte for byte
  by engine `xmlrt`): the byte-level building blocks of the round trip, the equivalence relation the round trip is
  judged with, the object level (one start tag, section (e)) and the tree level (nesting, child elements, the four child
  lists, section (f)) and the side-structure elements (cpukind, memattr, distances2 / distances2hetero, topology info, section (g))
  of the v3 format.  Support elements, the v2-format flags and libxml2 are
  exercised, not modelled: the round trip of whole topologies is established on the generated topologies of every run
  (tools/eng_xmlrt.py).
-/
import Hw.Io.XmlLemmas
import Hw.Io.Base64Lemmas
import Hw.Io.XmlObjLemmas
import Hw.Io.XmlTreeLemmas
import Hw.Io.XmlSideLemmas
import Hw.Props.C04
namespace Hw.Props.C05
open Hw Hw.Xml Hw.Topo

/-! ### (a) attribute values: escape / un-escape -/

/-- P0.  Un-escaping (the `len`/`escaped` cursor loop of hwloc__nolibxml_import_next_attr) what the exporter's escaper wrote
    between the quotes returns the original bytes, for every NUL-free byte string, and stops exactly on the closing quote. -/
theorem C05_unescape_escape (s rest : List Nat) (hs : ∀ c ∈ s, c ≠ 0) :
    unescape (escape s ++ 34 :: rest) = some (s, (escape s).length) := unescape_escape s rest hs

/-- the strcspn-run implementation of the escaper is the character-wise entity replacement -/
theorem C05_escape_charwise (s : List Nat) : escape s = escapeSpec s := escape_eq_spec s

/-- P0.  The escaped text contains no raw `"`, `<`, `>` (nor `\n`, `\r`, `\t`) -/
theorem C05_escape_no_raw_markup (s : List Nat) (x : Nat) (hx : x ∈ escape s) :
    x ≠ 34 ∧ x ≠ 60 ∧ x ≠ 62 ∧ x ≠ 10 ∧ x ≠ 13 ∧ x ≠ 9 := escape_no_raw_markup s x hx

/-- P0.  Every byte of the escaped text is an ordinary byte or a `&`; a `&` only ever comes from an emitted entity, whose
    other bytes are letters, digits, `#` and `;` (so the un-escaper's entity chain always matches: `C05_unescape_escape`) -/
theorem C05_escape_amp_only_from_entities (c : Nat) :
    (isEsc c = true → ∃ t, entity c = 38 :: t ∧ t ≠ [] ∧ ∀ x ∈ t, entityTailChar x = true) ∧
    (isEsc c = false → esc1 c = [c] ∧ c ≠ 38) := by
  constructor
  · exact entity_shape
  · intro h
    refine ⟨by unfold esc1; simp [h], ?_⟩
    simp [isEsc] at h; omega

/-- the escaper returns NULL (the value is printed as is) exactly when there is nothing to escape -/
theorem C05_escape_null_iff (s : List Nat) : escapeC s = none ↔ s.dropWhile notEsc = [] := escapeC_none_iff s

/-- P1 `scan_render` at the attribute level ("the built-in parser reads what the built-in exporter writes"): the importer's
    `while (next_attr(...) >= 0)` loop over the attribute buffer of a tag returns exactly the (name, value) list that the
    exporter's `new_prop` calls wrote (` name="escaped value"` each), for names over `[a-z_]` (the scanner's strspn set) and
    NUL-free values; `fuel` only bounds the number of loop iterations -/
theorem C05_scan_render_attrs (l : List (List Nat × List Nat)) (fuel : Nat) (hf : l.length < fuel)
    (h : ∀ a ∈ l, (∀ c ∈ a.1, isAttrNameChar c = true) ∧ (∀ c ∈ a.2, c ≠ 0)) :
    scanAttrs fuel (renderAttrs l) = l := scanAttrs_renderAttrs l fuel hf h

/-- one attribute: `next_attr` returns its name and value and moves the attribute buffer to the next attribute -/
theorem C05_next_attr_render (name val rest : List Nat) (hn : ∀ c ∈ name, isAttrNameChar c = true) (hv : ∀ c ∈ val, c ≠ 0) :
    nextAttr (name ++ 61 :: 34 :: (escape val ++ 34 :: rest)) =
      some (name, val, name.length + 2 + (escape val).length + 1 + (rest.takeWhile isBlank).length) :=
  nextAttr_core name val rest hn hv

/-! ### (b) base64 (userdata) -/

/-- P0.  The encoder produces exactly BASE64_ENCODED_LENGTH(n) = 4*((n+2)/3) characters (plus the NUL: 4*((n+2)/3)+1 bytes) -/
theorem C05_base64_enc_length (bs : List Nat) : (B64.encText bs).length = 4 * ((bs.length + 2) / 3) := B64.encText_length bs

/-- P0.  Whatever the input text and the target size, the decoder never stores at or beyond `targsize` (and the target keeps
    its size) — in particular for the `length + 1` bytes the XML importer passes -/
theorem C05_base64_dec_writes_in_bounds (src : List Nat) (tg : B64.Tgt) (h0 : tg.writes = []) :
    ∀ tg', (B64.decode src (some tg)).2 = some tg' → tg'.size = tg.size ∧ ∀ w ∈ tg'.writes, w < tg.size :=
  B64.decode_writes_in_bounds src tg h0

/-- the decoder's `strchr` inverts the encoder's table, and encoded characters are neither whitespace, `=` nor NUL -/
theorem C05_base64_alphabet : ∀ i, i < 64 →
    B64.b64index (B64.b64char i) = some i ∧ B64.isspaceC (B64.b64char i) = false ∧ B64.b64char i ≠ B64.pad64 ∧ B64.b64char i ≠ 0 :=
  fun i h => ⟨B64.b64index_b64char i h, B64.b64char_not_space_pad i h⟩

/-- P0 `base64_roundtrip`.  Decoding the encoder's text (`hwloc_decode_from_base64` state machine, every length 0,1,2 mod 3, with
    padding) into any target of at least `n + 1` bytes — the `length + 1` the XML importer allocates — returns `n`, leaves exactly
    the original bytes in the first `n` cells and keeps the target's size -/
theorem C05_base64_roundtrip (bs : List Nat) (tg : B64.Tgt) (hb : ∀ b ∈ bs, b < 256) (hs : bs.length + 1 ≤ tg.size) :
    ∃ tg', B64.decode (B64.encText bs) (some tg) = ((bs.length : Int), some tg') ∧ tg'.size = tg.size ∧
      tg'.cells.take bs.length = bs := B64.decode_encText bs tg hb hs

/-- P0.  On a target of `4*((n+2)/3) + 1` bytes or more `hwloc_encode_to_base64` succeeds, returns `4*((n+2)/3)`, leaves the text
    `encText bs` followed by a NUL at the start of the target and performs exactly `4*((n+2)/3) + 1` stores -/
theorem C05_base64_encode (bs : List Nat) (t : B64.Tgt) (h0 : t.writes = []) (h : B64.encodedLength bs.length + 1 ≤ t.size) :
    ∃ t', B64.encode bs t = ((B64.encodedLength bs.length : Int), t') ∧ t'.size = t.size ∧
      t'.cells.take (B64.encodedLength bs.length + 1) = B64.encText bs ++ [0] ∧
      t'.writes.length = B64.encodedLength bs.length + 1 := B64.encode_spec bs t h0 h

/-- P0.  Encoder and decoder composed through their buffers, with the sizes topology-xml.c uses (`encoded_length + 1` for the
    encoder, `length + 1` for the decoder): the callback receives the exported bytes -/
theorem C05_base64_encode_decode (bs : List Nat) (hb : ∀ b ∈ bs, b < 256) (t tg : B64.Tgt) (h0 : t.writes = [])
    (ht : B64.encodedLength bs.length + 1 ≤ t.size) (hs : bs.length + 1 ≤ tg.size) :
    ∃ t' tg', B64.encode bs t = ((B64.encodedLength bs.length : Int), t') ∧
      B64.decode (t'.cells.take (B64.encodedLength bs.length)) (some tg) = ((bs.length : Int), some tg') ∧
      tg'.cells.take bs.length = bs := B64.decode_encode bs hb t tg h0 ht hs

/-- the bit arithmetic of one group (used by `C05_base64_roundtrip`) -/
theorem C05_base64_group (a b c : Nat) (ha : a < 256) (hb : b < 256) (hc : c < 256) :
    let x0 := a / 4; let x1 := (a % 4) * 16 + b / 16; let x2 := (b % 16) * 4 + c / 64; let x3 := c % 64
    x0 < 64 ∧ x1 < 64 ∧ x2 < 64 ∧ x3 < 64 ∧
    ((x0 * 4) ||| (x1 / 16)) = a ∧ (((x1 % 16) * 16) ||| (x2 / 4)) = b ∧ (((x2 % 4) * 64) ||| x3) = c :=
  B64.group_inverts a b c ha hb hc

/-! ### (c) numbers -/

/-- P0.  `%u` / `%lu` / `%llu` read back by `strtoul(.., 10)` / `strtoull(.., 10)` (os_index, gp_index, sizes, kinds, values) -/
theorem C05_num_roundtrip_unsigned (n : Nat) (rest : List Nat) (hn : n < 2 ^ 64) (h : NoDigitHead rest) :
    strtoul 10 (decDigits n ++ rest) = .ok n rest := strtoul10_decDigits n rest hn h

/-- P0.  `%d` read back by `atoi` (cache associativity, forced efficiency, support values) -/
theorem C05_num_roundtrip_signed (i : Int) : atoi (printInt i) = i := atoi_printInt i

/-- P0.  hexadecimal words (`0x%08lx` of the set format) read back by `strtoul(.., 16)` -/
theorem C05_num_roundtrip_hex (n : Nat) (rest : List Nat) (hn : n < 2 ^ 64) (h : NoDigitHead rest) :
    strtoul 16 (hexDigits n ++ rest) = .ok n rest := strtoul16_hexDigits n rest hn h

/-- P0.  Sets are exported in the hwloc format and parsed back to the same set (C04) -/
theorem C05_set_attr_roundtrip (b : Bitmap) (hinv : b.Inv) :
    ∃ ws inf, Bitmap.hwlocScan (text b.chunksHwloc) = Bitmap.ScanRes.ok (ws.map some) inf ∧ ∀ n, (Bitmap.mk ws inf).mem n = b.mem n :=
  Hw.Props.C04.C04_roundtrip_hwloc b hinv

/-! ### (d) the equivalence the round trip is judged with -/

theorem C05_TopoEquiv_refl (a : Dump) : TopoEquiv a a := rfl
theorem C05_TopoEquiv_symm {a b : Dump} (h : TopoEquiv a b) : TopoEquiv b a := Eq.symm h
theorem C05_TopoEquiv_trans {a b c : Dump} (h1 : TopoEquiv a b) (h2 : TopoEquiv b c) : TopoEquiv a c := Eq.trans h1 h2

/-- P0.  `TopoEquiv` refines equality of every listed field, object by object in DFS order: tree and child order (parent,
    sibling rank, children, arities, sibling/cousin/first/last links), types, subtypes, names, os_index, gp_index, the four
    sets, type attributes, infos in order, and the allowed sets -/
theorem C05_TopoEquiv_fields {a b : Dump} (h : TopoEquiv a b) :
    a.objs.length = b.objs.length ∧ a.allowedCpuset = b.allowedCpuset ∧ a.allowedNodeset = b.allowedNodeset ∧
    a.levels = b.levels ∧ a.root = b.root ∧
    ∀ (i : Nat) (oa ob : Obj), a.objs[i]? = some oa → b.objs[i]? = some ob →
      oa.type = ob.type ∧ oa.subtype = ob.subtype ∧ oa.name = ob.name ∧ oa.osidx = ob.osidx ∧ oa.gp = ob.gp ∧
      oa.cpuset = ob.cpuset ∧ oa.ccpuset = ob.ccpuset ∧ oa.nodeset = ob.nodeset ∧ oa.cnodeset = ob.cnodeset ∧
      exportedAttrs oa = exportedAttrs ob ∧ oa.infos = ob.infos ∧ oa.parent = ob.parent ∧ oa.rank = ob.rank ∧ oa.children = ob.children ∧
      oa.arity = ob.arity ∧ oa.marity = ob.marity ∧ oa.ioarity = ob.ioarity ∧ oa.miscarity = ob.miscarity ∧
      oa.depth = ob.depth ∧ oa.lidx = ob.lidx ∧ oa.totalMem = ob.totalMem := by
  unfold TopoEquiv at h
  have hobjs : a.objs.map obsObj = b.objs.map obsObj := congrArg DumpObs.objs h
  refine ⟨?_, congrArg DumpObs.allowedCpuset h, congrArg DumpObs.allowedNodeset h, congrArg DumpObs.levels h,
    congrArg DumpObs.root h, ?_⟩
  · have := congrArg List.length hobjs
    simpa using this
  · intro i oa ob ha hb
    have hi : (a.objs.map obsObj)[i]? = (b.objs.map obsObj)[i]? := by rw [hobjs]
    simp only [List.getElem?_map, ha, hb, Option.map_some, Option.some.injEq] at hi
    have hs : [oa.cpuset, oa.ccpuset, oa.nodeset, oa.cnodeset] = [ob.cpuset, ob.ccpuset, ob.nodeset, ob.cnodeset] :=
      congrArg ObjObs.sets hi
    have har : [oa.arity, oa.marity, oa.ioarity, oa.miscarity] = [ob.arity, ob.marity, ob.ioarity, ob.miscarity] :=
      congrArg ObjObs.arities hi
    simp only [List.cons.injEq, and_true] at hs har
    exact ⟨congrArg ObjObs.type hi, congrArg ObjObs.subtype hi, congrArg ObjObs.name hi, congrArg ObjObs.osidx hi,
      congrArg ObjObs.gp hi, hs.1, hs.2.1, hs.2.2.1, hs.2.2.2, congrArg ObjObs.attrs hi, congrArg ObjObs.infos hi,
      congrArg ObjObs.parent hi, congrArg ObjObs.rank hi, congrArg ObjObs.children hi, har.1, har.2.1, har.2.2.1, har.2.2.2,
      congrArg ObjObs.depth hi, congrArg ObjObs.lidx hi, congrArg ObjObs.totalMem hi⟩

/-- v2 format: `TopoEquiv` implies the weaker "same tree and sets" relation used for v2 exports -/
theorem C05_TopoEquiv_implies_tree_sets {a b : Dump} (h : TopoEquiv a b) : TreeSetsEquiv a b := by
  unfold TopoEquiv at h
  unfold TreeSetsEquiv treeObs
  have hobjs : a.objs.map obsObj = b.objs.map obsObj := congrArg DumpObs.objs h
  have key : ∀ o : Obj, treeObsObj o =
      { type := (obsObj o).type, parent := (obsObj o).parent, rank := (obsObj o).rank, arities := (obsObj o).arities,
        children := (obsObj o).children, sets := (obsObj o).sets } := fun _ => rfl
  have : a.objs.map treeObsObj = b.objs.map treeObsObj := by
    have e : ∀ l : List Obj, l.map treeObsObj = (l.map obsObj).map (fun x =>
        ({ type := x.type, parent := x.parent, rank := x.rank, arities := x.arities, children := x.children, sets := x.sets } : TreeObs)) := by
      intro l; simp [List.map_map, Function.comp_def, key]
    rw [e, e, hobjs]
  have h1 : a.allowedCpuset = b.allowedCpuset := congrArg DumpObs.allowedCpuset h
  have h2 : a.allowedNodeset = b.allowedNodeset := congrArg DumpObs.allowedNodeset h
  have h3 : a.root = b.root := congrArg DumpObs.root h
  rw [this, h1, h2, h3]

/-- what the exporter's safestrdup does is idempotent: a reloaded topology is its own sanitised form -/
theorem C05_sanitize_idem (s : List Nat) : sanitize (sanitize s) = sanitize s := by
  unfold sanitize; simp [List.filter_filter]

/-! ### (e) the object level: the start tag of `<object>` (v3 format)

  `ObjFields` = what the start tag carries: type, os_index, gp_index, the four sets (+ the topology's allowed sets on the root),
  name, subtype, the attribute union a0..a5 as harness/dump.h prints it, and the pcidev part of PCI devices / PCI-upstream bridges.
  OUTSIDE (child elements or derived): infos (`<info>`, covered separately below), page types, userdata, children, the Group /
  Bridge depth (exported but deliberately ignored by the importer: recomputed by the core), floating point (`pci_link_speed` is
  carried as the text `%f` printed), the type filter applied after the checks, and v2-format rules.
  Tie: engine `xmlrt` OBJ lines — for sampled objects of every nolibxml v3 export, the scanned start tag must equal
  `exportAttrs` of the original object, the object must be `Valid`, and `importAttrs` of the list must equal the reloaded object. -/

open Hw.XmlObj in
/-- P0 (object level).  Importing (hwloc__xml_import_object_attr + the checks of hwloc__xml_import_object) the attribute list
    that hwloc__xml_export_object_contents writes for a valid object gives the object back; `normalise` = the documented
    safestrdup filtering of name / subtype and the two depths the importer leaves to the core -/
theorem C05_obj_attrs_roundtrip (c : XmlObj.Ctx) (o : XmlObj.ObjFields) (hv : XmlObj.Valid c o = true) :
    XmlObj.importAttrs c (XmlObj.exportAttrs c.root o) = .ok (XmlObj.normalise o) := XmlObj.importAttrs_exportAttrs c o hv

/-- every exported attribute has a name over `[a-z_]` and a NUL-free value (the hypotheses of `C05_scan_render_attrs`) -/
theorem C05_obj_export_wellformed (c : XmlObj.Ctx) (o : XmlObj.ObjFields) (hv : XmlObj.Valid c o = true) :
    ∀ a ∈ XmlObj.exportAttrs c.root o, (∀ x ∈ a.1, isAttrNameChar x = true) ∧ (∀ x ∈ a.2, x ≠ 0) :=
  XmlObj.exportAttrs_ok c o hv

/-- P0 (object level, composed with the scanner).  Rendering the start tag of any valid object with the nolibxml exporter
    (`new_prop` for each attribute), scanning it with the nolibxml `next_attr` loop and importing the result yields the object -/
theorem C05_obj_scan_render_roundtrip (c : XmlObj.Ctx) (o : XmlObj.ObjFields) (hv : XmlObj.Valid c o = true) (fuel : Nat)
    (hf : (XmlObj.exportAttrs c.root o).length < fuel) :
    XmlObj.importAttrs c (scanAttrs fuel (renderAttrs (XmlObj.exportAttrs c.root o))) = .ok (XmlObj.normalise o) :=
  XmlObj.import_scan_render_export c o hv fuel hf

/-- the value formats one by one: sets (hwloc format), type strings, and the three sscanf formats of PCI / bridge attributes -/
theorem C05_obj_set_value_roundtrip (m : Nat) : XmlObj.setScan (XmlObj.setText m) = .ok m := XmlObj.setScan_setText m
theorem C05_obj_type_value_roundtrip (t : Nat) (h : t < 20) : XmlObj.typeScan (TypeStr.typeString t) = some t :=
  XmlObj.typeScan_typeString t h
theorem C05_obj_pci_busid_roundtrip (d bu dv f : Nat) (hb : bu < 256) (hd : dv < 256) (hf : f < 16) :
    XmlObj.scanBusid (hexPad 4 d ++ [58] ++ hexPad 2 bu ++ [58] ++ hexPad 2 dv ++ [46] ++ hexPad 1 f) = some (d, bu, dv, f) :=
  XmlObj.scanBusid_ok d bu dv f hb hd hf
theorem C05_obj_bridge_pci_roundtrip (d s1 s2 : Nat) (h1 : s1 < 256) (h2 : s2 < 256) :
    XmlObj.scanBridgePci (hexPad 4 d ++ XmlObj.b ":[" ++ hexPad 2 s1 ++ [45] ++ hexPad 2 s2 ++ [93]) = some (d, s1, s2) :=
  XmlObj.scanBridgePci_ok d s1 s2 h1 h2

/-- `<info name value/>` child elements (object, topology and cpukind infos): the pair comes back, both strings filtered -/
theorem C05_info_roundtrip (n v : List Nat) :
    XmlObj.importInfo (XmlObj.exportInfo (n, v)) = .pair (sanitize n, sanitize v) := XmlObj.importInfo_exportInfo n v
theorem C05_info_scan_render_roundtrip (n v : List Nat) (fuel : Nat) (hf : 2 < fuel) :
    XmlObj.importInfo (scanAttrs fuel (renderAttrs (XmlObj.exportInfo (n, v)))) = .pair (sanitize n, sanitize v) :=
  XmlObj.info_scan_render n v fuel hf

/-! ### (f) the tree level: nesting of `<object>`, `<info>`, `<page_type>`, `<userdata>` and the four child lists (v3 format)

  `XmlTree.Tree` = an object (`ObjFields` + infos + page types + userdata entries) with its memory / normal / I/O / Misc child
  lists; `exportTree` = hwloc__xml_v2export_object + hwloc__xml_export_object_contents as an element tree (tag, attributes, text,
  children); `importTree` = hwloc__xml_import_object on such an element tree: the two child loops, page_type accepted only below
  NUMA nodes and the root, the type-vs-parent-kind checks, hwloc_insert_object_by_parent's placement of every child at the end of
  the list of its kind, the order test on normal children.  `TreeValid` (decidable): every object `Valid` in the context of its
  parent, side data within the C field widths, every child in the list of its kind, normal children in complete_cpuset order.
  Tie: engine `xmlrt` TREE lines — for every nolibxml v3 export of a topology of at most 160 objects, the element tree cut out
  of the real export must equal `exportTree` of the original object tree, which must be `TreeValid`; `importTree` of the real
  element tree must equal `normTree` of the original and agree with the reloaded topology object by object, list by list.
  OUTSIDE (importer returns `outside`; never reached from the export of a valid tree): ignored objects, re-sorting of
  out-of-order children, v1/v2 compatibility, the v2-format exporter flags. -/

open Hw.XmlTree in
/-- P0 (tree level).  For EVERY tree of valid objects — any depth, any arities, memory, normal, I/O and Misc children —
    importing the element tree the exporter produces gives the tree back, every object normalised as at the object level
    (`normTree`: strings filtered, info strings filtered, size-0 page types and refused userdata dropped) -/
theorem C05_tree_roundtrip (t : XmlTree.Tree) (hv : XmlTree.TreeValid { root := true } t = true) :
    XmlTree.importTree (XmlTree.exportTree true t) = .ok (XmlTree.normTree t) := XmlTree.importTree_exportTree t hv

/-- P0 (tree level, start tags as bytes).  The same round trip with the attribute list of EVERY element of the export (objects,
    infos, page types, userdata) rendered to bytes by the nolibxml exporter (`new_prop`: ` name="escaped value"`) and read back
    by the nolibxml `next_attr` loop (`rescan`); nesting and text content stay tokens -/
theorem C05_tree_roundtrip_start_tags_as_bytes (t : XmlTree.Tree) (hv : XmlTree.TreeValid { root := true } t = true) :
    XmlTree.importTree (XmlTree.rescan (XmlTree.exportTree true t)) = .ok (XmlTree.normTree t) :=
  XmlTree.importTree_rescan_exportTree t hv

/-- every attribute of every element the tree exporter produces has a name over `[a-z_]` and a NUL-free value -/
theorem C05_tree_export_wellformed (c : XmlObj.Ctx) (t : XmlTree.Tree) (hv : XmlTree.TreeValid c t = true) :
    XmlTree.ElemOk (XmlTree.exportTree c.root t) := XmlTree.exportTree_ok c t hv

/-- the same for a subtree in any context (parent type, parent with or without sets) -/
theorem C05_subtree_roundtrip (c : XmlObj.Ctx) (t : XmlTree.Tree) (hv : XmlTree.TreeValid c t = true) :
    XmlTree.importObj c (XmlTree.exportTree c.root t) = .ok (XmlTree.normTree t) := XmlTree.importObj_exportTree c t hv

/-- the normalisation keeps the shape: the four child lists of every object come back with the same length and order -/
theorem C05_tree_children_preserved (d : XmlTree.Node) (mem nor io misc : List XmlTree.Tree) :
    XmlTree.normTree (.mk d mem nor io misc) =
      .mk (XmlTree.normNode d) (mem.map XmlTree.normTree) (nor.map XmlTree.normTree) (io.map XmlTree.normTree) (misc.map XmlTree.normTree) := by
  rw [XmlTree.normTree_mk, XmlTree.normList_eq_map, XmlTree.normList_eq_map, XmlTree.normList_eq_map, XmlTree.normList_eq_map]

/-- P0 (fixpoint).  The reimported tree `t'` of a valid tree is valid again and is a fixpoint of export ∘ import: exporting it and
    importing that gives `t'` itself, so the third export equals the second one -/
theorem C05_tree_fixpoint (t : XmlTree.Tree) (hv : XmlTree.TreeValid { root := true } t = true) :
    ∃ t', XmlTree.importTree (XmlTree.exportTree true t) = .ok t' ∧ XmlTree.TreeValid { root := true } t' = true ∧
      XmlTree.importTree (XmlTree.exportTree true t') = .ok t' ∧
      (∀ t'', XmlTree.importTree (XmlTree.exportTree true t') = .ok t'' → XmlTree.exportTree true t'' = XmlTree.exportTree true t') := by
  have hv' := XmlTree.TreeValid_normTree _ t hv
  have h2 : XmlTree.importTree (XmlTree.exportTree true (XmlTree.normTree t)) = .ok (XmlTree.normTree t) := by
    have := XmlTree.importTree_exportTree _ hv'
    rwa [XmlTree.normTree_idem] at this
  refine ⟨XmlTree.normTree t, XmlTree.importTree_exportTree t hv, hv', h2, ?_⟩
  intro t'' h
  rw [h2] at h
  cases h; rfl

/-- P0 (second export).  The export of the reimported tree equals the first export except for what `clearTree` removes: the
    `depth` of Bridges (and the unexported depth of Groups), which the core recomputes on every load, and page types of size 0,
    which the importer drops (no loader produces them).  String filtering, info filtering and refused userdata do not show:
    the exporter applies them itself. -/
theorem C05_tree_second_export (t : XmlTree.Tree) (hv : XmlTree.TreeValid { root := true } t = true) :
    ∃ t', XmlTree.importTree (XmlTree.exportTree true t) = .ok t' ∧
      XmlTree.exportTree true t' = XmlTree.exportTree true (XmlTree.clearTree t) :=
  ⟨XmlTree.normTree t, XmlTree.importTree_exportTree t hv, XmlTree.exportTree_normTree true t⟩

/-- for an object that is neither a Group nor a Bridge there is nothing to clear -/
theorem C05_tree_second_export_same_attrs (f : XmlObj.ObjFields) (hG : f.type ≠ Hw.Topo.tGROUP) (hB : f.type ≠ Hw.Topo.tBRIDGE) :
    XmlTree.clearDerived f = f := XmlTree.clearDerived_id f hG hB

/-- one round trip normalises completely: `normTree` is idempotent and keeps validity -/
theorem C05_tree_norm_idem (t : XmlTree.Tree) : XmlTree.normTree (XmlTree.normTree t) = XmlTree.normTree t := XmlTree.normTree_idem t
theorem C05_tree_norm_valid (c : XmlObj.Ctx) (t : XmlTree.Tree) (hv : XmlTree.TreeValid c t = true) :
    XmlTree.TreeValid c (XmlTree.normTree t) = true := XmlTree.TreeValid_normTree c t hv

/-- child elements one by one: a page type, and a userdata entry (plain or base64, any length) come back as exported -/
theorem C05_userdata_roundtrip (acc : XmlTree.Acc) (ptOk : Bool) (u : XmlTree.UData) (hv : XmlTree.udValid u = true) :
    XmlTree.importSub ptOk acc (XmlTree.udElem u) = .ok { acc with uds := acc.uds ++ [u] } := XmlTree.importSub_ud ptOk acc u hv
theorem C05_pagetype_roundtrip (acc : XmlTree.Acc) (p : Nat × Nat) (h1 : p.1 < 2 ^ 64) (h2 : p.2 < 2 ^ 64) :
    XmlTree.importSub true acc (XmlTree.ptElem p) = .ok (if p.1 ≠ 0 then { acc with pts := acc.pts ++ [p] } else acc) :=
  XmlTree.importSub_pt acc p h1 h2

/-! ### non-vacuity -/

-- valid objects of each attribute-union shape (the engine also checks `Valid` on every sampled real object)
example : XmlObj.Valid { root := false, parentType := 3 }
    { type := 4, osidx := some 5, gp := 17, cpuset := some 32, ccpuset := some 32, nodeset := some 1, cnodeset := some 1, allowed := none,
      name := none, subtype := none, attrs := [0, 0, 0, 0, 0, 0], pci := none } = true := by decide
example : XmlObj.Valid { root := true }
    { type := 0, osidx := some 0, gp := 1, cpuset := some 255, ccpuset := some 255, nodeset := some 3, cnodeset := some 3, allowed := some (255, 3),
      name := some (str "caf\u00e9<&>"), subtype := none, attrs := [0, 0, 0, 0, 0, 0], pci := none } = true := by decide
example : XmlObj.Valid { root := false, parentType := 1 }
    { type := 6, osidx := none, gp := 62, cpuset := some 64, ccpuset := some 64, nodeset := some 1, cnodeset := some 1, allowed := none,
      name := none, subtype := none, attrs := [524288, 2, 64, -1, 0, 0], pci := none } = true := by decide
example : XmlObj.Valid { root := false, parentType := 16, parentHasSets := false }
    { type := 17, osidx := none, gp := 90, cpuset := none, ccpuset := none, nodeset := none, cnodeset := none, allowed := none,
      name := none, subtype := none, attrs := [0, 3, 0, 1, 0x0200, 0x808610d3],
      pci := some { domain := 0, bus := 3, dev := 0, func := 1, classId := 0x0200, vendor := 0x8086, device := 0x10d3, subvendor := 0x8086,
                    subdevice := 0xa01f, revision := 0, progIf := 0, linkspeed := str "0.250000" } } = true := by decide
example : XmlObj.Valid { root := false, parentType := 0 }
    { type := 16, osidx := none, gp := 80, cpuset := none, ccpuset := none, nodeset := none, cnodeset := none, allowed := none,
      name := none, subtype := none, attrs := [0, 1, 0, 0, 0, 255], pci := none } = true := by decide


-- a valid tree with memory (NUMA node with page types, one of size 0), normal (two PUs), I/O (bridge with an OS device below)
-- and Misc children, markup in strings, base64 / plain / refused userdata: the hypotheses of the tree theorems hold, and the
-- round trip really normalises (the info value loses \x01, the size-0 page type and the refused userdata entry disappear)
def exPU (os gp : Nat) : XmlTree.Tree :=
  .mk { f := { type := 4, osidx := some os, gp := gp, cpuset := some (2 ^ os), ccpuset := some (2 ^ os), nodeset := some 1, cnodeset := some 1,
               allowed := none, name := none, subtype := none, attrs := [0, 0, 0, 0, 0, 0], pci := none } } [] [] [] []
def exTree : XmlTree.Tree :=
  .mk { f := { type := 0, osidx := some 0, gp := 1, cpuset := some 3, ccpuset := some 3, nodeset := some 1, cnodeset := some 1, allowed := some (3, 1),
               name := some (str "café<&>"), subtype := none, attrs := [0, 0, 0, 0, 0, 0], pci := none },
        infos := [(str "Backend", str "x<y\x01")],
        uds := [{ name := some (str "B"), b64 := true, data := [0, 255, 7, 60] }, { name := none, b64 := false, data := str "plain" },
                { name := none, b64 := false, data := [1] }] }
    [.mk { f := { type := 14, osidx := some 0, gp := 5, cpuset := some 3, ccpuset := some 3, nodeset := some 1, cnodeset := some 1, allowed := none,
                  name := none, subtype := none, attrs := [4096, 0, 0, 0, 0, 0], pci := none }, pts := [(4096, 1), (0, 7), (2097152, 0)] } [] [] [] []]
    [exPU 0 2, exPU 1 3]
    [.mk { f := { type := 16, osidx := none, gp := 80, cpuset := none, ccpuset := none, nodeset := none, cnodeset := none, allowed := none,
                  name := none, subtype := none, attrs := [0, 1, 0, 0, 0, 255], pci := none } } [] []
        [.mk { f := { type := 18, osidx := none, gp := 81, cpuset := none, ccpuset := none, nodeset := none, cnodeset := none, allowed := none,
                      name := some (str "eth0"), subtype := none, attrs := [4, 0, 0, 0, 0, 0], pci := none } } [] [] [] []] []]
    [.mk { f := { type := 19, osidx := none, gp := 90, cpuset := none, ccpuset := none, nodeset := none, cnodeset := none, allowed := none,
                  name := some (str "misc"), subtype := none, attrs := [0, 0, 0, 0, 0, 0], pci := none } } [] [] [] []]
example : XmlTree.TreeValid { root := true } exTree = true := by decide
example : XmlTree.TreeValid { root := false, parentType := 0 } (exPU 1 3) = true := by decide
example : (XmlTree.normTree exTree).d.infos = [(str "Backend", str "x<y")] ∧ (XmlTree.normTree exTree).d.uds.length = 2 ∧
    ((XmlTree.normTree exTree).mem.map (·.d.pts)) = [[(4096, 1), (2097152, 0)]] := by decide
-- the importer's checks at work: a PU below a NUMA node, a Misc element in the normal list, swapped PUs are not TreeValid;
-- a `<page_type>` below a PU and an `<info>` after the first `<object>` child are rejected
example : XmlTree.TreeValid { root := false, parentType := 14 } (exPU 1 3) = false := by decide
example : XmlTree.TreeValid { root := true } (.mk exTree.d [] (exTree.misc ++ exTree.nor) [] []) = false := by decide
example : XmlTree.TreeValid { root := true } (.mk exTree.d exTree.mem [exPU 1 3, exPU 0 2] [] []) = false := by decide
example : (match XmlTree.importObj { root := false, parentType := 0 }
    (.mk XmlTree.tagObject (XmlObj.exportAttrs false (exPU 1 3).d.f) none [XmlTree.ptElem (4096, 1)]) with | .reject => true | _ => false) = true := by decide
example : (match XmlTree.importTree
    (.mk XmlTree.tagObject (XmlObj.exportAttrs true exTree.d.f) none [XmlTree.exportTree false (exPU 0 2), XmlTree.infoElem (str "a", str "b")])
    with | .reject => true | _ => false) = true := by decide
example : XmlTree.udValid { name := none, b64 := true, data := [0, 255] } = true := by decide
example : (2 : Nat) ≠ Hw.Topo.tGROUP ∧ (2 : Nat) ≠ Hw.Topo.tBRIDGE := by decide


/-! ### (g) the side-structure elements after the root object (Hw.Io.XmlSide; tied by the SIDE lines of engine `xmlrt`) -/

/-- P0.  CPU kinds: for EVERY list of kinds, importing the `<cpukind>` elements hwloc__xml_export_cpukinds writes hands
    hwloc_internal_cpukinds_register the same kinds in the same order: cpuset, forced efficiency (absent = unknown) and info pairs
    (strings through safestrdup) -/
theorem C05_cpukinds_xml_roundtrip (l : List XmlSide.Kind) (h : ∀ k ∈ l, XmlSide.kindValid k = true) :
    XmlSide.mapRes XmlSide.importKind (XmlSide.exportKinds l) = .ok (l.map XmlSide.normKind) :=
  XmlSide.mapRes_ok _ _ _ l (fun k hk => XmlSide.importKind_exportKind k (h k hk))

/-- P0.  Memory attributes: for EVERY array topology->memattrs[], importing the `<memattr>` elements hwloc__xml_export_memattrs writes
    (it skips the two virtual attributes and standard attributes without target) yields, per written attribute and in order, its
    name, its flags and one hwloc_internal_memattr_set_value call per exported value: target (type, gp_index), initiator
    (cpuset | object type + gp_index) when the flags need one, and the u64 value exactly -/
theorem C05_memattrs_xml_roundtrip (l : List XmlSide.MemAttr) (h : ∀ a ∈ l, XmlSide.memAttrValid a = true) :
    XmlSide.mapRes XmlSide.importMemAttr (XmlSide.exportMemAttrs l) =
      .ok ((((List.range l.length).zip l).filter XmlSide.exported).map (fun ia => XmlSide.toIn ia.2)) := by
  unfold XmlSide.exportMemAttrs
  exact XmlSide.mapRes_ok XmlSide.importMemAttr (fun ia : Nat × XmlSide.MemAttr => XmlSide.exportMemAttr ia.2) (fun ia => XmlSide.toIn ia.2) _
    (fun ia hia => XmlSide.importMemAttr_exportMemAttr ia.2 (h ia.2 (List.of_mem_zip (List.mem_filter.mp hia).1).2))

/-- P0.  ... and the find-or-append of hwloc__internal_memattr_set_value, run over those calls, rebuilds the target array of the
    attribute: the same targets in the same order, each with the same initiators and values in the same order (or its single value) —
    provided (`memAttrWF`) the targets are pairwise different objects and no initiator MATCHES (match_internal_location: equal object,
    or a cpuset INCLUDED in) one that precedes it; otherwise the importer merges the two (known finding F59) -/
theorem C05_memattr_rebuild (a : XmlSide.MemAttr) (h : XmlSide.memAttrWF a = true) :
    XmlSide.rebuild (XmlSide.callsOf a) = a.targets.map (XmlSide.normTarget a.flags) := XmlSide.rebuild_callsOf a h

/-- P0.  Distances: for EVERY matrix (any nbobjs in 2..65535, homogeneous or heterogeneous), importing the `<distances2>` /
    `<distances2hetero>` element the exporter writes — the indexes and the nbobjs² values split into `<indexes>` / `<u64values>`
    children of at most 10 numbers with their `length` attributes — hands hwloc_internal_distances_add_by_index the same unique type /
    per-object types, kind, name (through safestrdup), object indexes and values -/
theorem C05_distances_xml_roundtrip (d : XmlSide.Dist) (h : XmlSide.distValid d = true) :
    XmlSide.importDist d.types.isSome (XmlSide.exportDist d) = .ok (some (XmlSide.normDist d)) ∧
    (XmlSide.normDist d).idx = d.idx ∧ (XmlSide.normDist d).values = d.values ∧ (XmlSide.normDist d).types = d.types :=
  ⟨XmlSide.importDist_exportDist d h, rfl, rfl, rfl⟩

/-- hwloc_type_sscanf, handed the rest of an `<indexes>` text of a heterogeneous matrix, stops at the colon for every type name -/
theorem C05_type_prefix_scan (t : Nat) (h : t < 20) (rest : List Nat) :
    XmlObj.typeScan (TypeStr.typeString t ++ 58 :: rest) = some t := XmlSide.typePrefixOk_all t h rest

/-- P0.  The whole list of elements after the root object: the loop of hwloc_look_xml over what hwloc__xml_export_topology writes
    there (homogeneous distances, heterogeneous distances, memattrs, cpukinds, topology infos) collects exactly these structures -/
theorem C05_side_roundtrip (dists : List XmlSide.Dist) (memattrs : List XmlSide.MemAttr) (kinds : List XmlSide.Kind)
    (infos : List (List Nat × List Nat))
    (hd : ∀ d ∈ dists, XmlSide.distValid d = true) (hm : ∀ a ∈ memattrs, XmlSide.memAttrValid a = true)
    (hk : ∀ k ∈ kinds, XmlSide.kindValid k = true) :
    XmlSide.importSide (XmlSide.exportSide dists memattrs kinds infos) {} = .ok (XmlSide.sideOf dists memattrs kinds infos) :=
  XmlSide.importSide_exportSide dists memattrs kinds infos hd hm hk

-- non-vacuity: two kinds (one with a forced efficiency and infos with markup), a custom attribute with initiators of both sorts and a
-- standard one without, a 3-object PU matrix (2 value chunks: 9 values) and a 12-object heterogeneous one (2 index chunks, 15 value chunks)
def exKinds : List XmlSide.Kind :=
  [{ cpuset := 0xf, eff := 3, infos := [(str "CoreType", str "a<b")] }, { cpuset := 0xf0 }]
def exAttrs : List XmlSide.MemAttr :=
  [{ name := str "Capacity", flags := 1 }, { name := str "Locality", flags := 2 },
   { name := str "Bandwidth", flags := 5, targets := [{ type := 14, gp := 7, inits := [(.cpuset 3, 100), (.obj 4 9, 18446744073709551615)] }] },
   { name := str "Latency", flags := 6 },
   { name := str "mine", flags := 1, targets := [{ type := 14, gp := 7, value := 5 }, { type := 14, gp := 8, value := 0 }] }]
def exDistHom : XmlSide.Dist := { utype := some 4, kind := 5, name := some (str "NUMA\x01Latency"), idx := [0, 1, 2], values := [10, 20, 30, 20, 10, 0, 30, 18446744073709551615, 10] }
def exDistHet : XmlSide.Dist :=
  { types := some ((List.range 12).map (fun i => if i % 2 = 0 then 2 else 14)), kind := 18, idx := (List.range 12).map (· + 100),
    values := (List.range 144).map (· * 7) }
example : ∀ k ∈ exKinds, XmlSide.kindValid k = true := by decide
example : ∀ a ∈ exAttrs, XmlSide.memAttrValid a = true ∧ XmlSide.memAttrWF a = true := by decide
example : XmlSide.distValid exDistHom = true ∧ XmlSide.distValid exDistHet = true := by decide +kernel
example : (XmlSide.exportMemAttrs exAttrs).length = 2 := by decide
example : ((XmlSide.exportDist exDistHom).kids.map (·.tag)) = [XmlSide.tagIndexes, XmlSide.tagU64] := by decide
example : ((XmlSide.exportDist exDistHet).kids.filter (fun e => e.tag = XmlSide.tagIndexes)).length = 2 ∧
    ((XmlSide.exportDist exDistHet).kids.filter (fun e => e.tag = XmlSide.tagU64)).length = 15 := by decide +kernel
example : (XmlSide.exportDist exDistHom).kids.head?.bind (·.content) = some (str "0 1 2 ") := by decide
-- the importer's rejections: a cpukind without cpuset, a memattr_value without its target type / without the initiator its flags need,
-- a distances element without kind, with a child whose text is shorter than its `length`, with more indexes than nbobjs
example : (match XmlSide.importKind (.mk XmlSide.tagCpukind [(str "forced_efficiency", str "2")] none []) with | .reject => true | _ => false) = true := by decide
example : (match XmlSide.importValue 1 (.mk XmlSide.tagMemattrValue [(str "target_obj_gp_index", str "3"), (str "value", str "4")] none [])
    with | .reject => true | _ => false) = true := by decide
example : (match XmlSide.importValue 5 (.mk XmlSide.tagMemattrValue
    [(str "target_obj_type", str "NUMANode"), (str "target_obj_gp_index", str "3"), (str "value", str "4")] none [])
    with | .reject => true | _ => false) = true := by decide
example : (match XmlSide.importDist false (.mk XmlSide.tagDist [(str "type", str "PU"), (str "nbobjs", str "2"), (str "indexing", str "os")] none [])
    with | .reject => true | _ => false) = true := by decide
example : (match XmlSide.importDist false (.mk XmlSide.tagDist
    [(str "type", str "PU"), (str "nbobjs", str "2"), (str "kind", str "5"), (str "indexing", str "os")] none
    [.mk XmlSide.tagIndexes [(str "length", str "5")] (some (str "0 1 ")) []]) with | .reject => true | _ => false) = true := by decide
example : (match XmlSide.importDist false (.mk XmlSide.tagDist
    [(str "type", str "PU"), (str "nbobjs", str "2"), (str "kind", str "5"), (str "indexing", str "os")] none
    [.mk XmlSide.tagIndexes [(str "length", str "4")] (some (str "0 1 ")) [], .mk XmlSide.tagIndexes [(str "length", str "2")] (some (str "2 ")) []])
    with | .reject => true | _ => false) = true := by decide
-- a PU matrix indexed by gp_index is valid but ignored
example : (match XmlSide.importDist false (.mk XmlSide.tagDist
    [(str "type", str "PU"), (str "nbobjs", str "2"), (str "kind", str "5"), (str "indexing", str "gp")] none
    [.mk XmlSide.tagIndexes [(str "length", str "4")] (some (str "0 1 ")) [], .mk XmlSide.tagU64 [(str "length", str "8")] (some (str "1 2 3 4 ")) []])
    with | .ok none => true | _ => false) = true := by decide

-- "a<b&c" -> a&lt;b&amp;c  and back, scanning stops on the quote
example : escape [97, 60, 98, 38, 99] = [97, 38, 108, 116, 59, 98, 38, 97, 109, 112, 59, 99] := by decide
example : unescape (escape [97, 60, 98, 38, 99] ++ 34 :: [32, 120]) = some ([97, 60, 98, 38, 99], 12) := by decide
example : nextAttr (str " name=\"x&quot;y\" v=\"1\"") = some (str "name", str "x\"y", 17) := by decide
example : escapeC (str "plain") = none := by decide
example : scanAttrs 5 (renderAttrs [(str "name", str "a<\"b\">&c"), (str "os_index", str "12"), (str "x", [])]) =
    [(str "name", str "a<\"b\">&c"), (str "os_index", str "12"), (str "x", [])] := by decide
-- base64: "Ma" -> "TWE=" -> "Ma" in a 3-byte target (length + 1), scratch byte cleared
example : B64.encText [77, 97] = str "TWE=" := by decide
example : (B64.decode (str "TWE=") (some { cells := [170, 170, 170] })).1 = 2 := by decide
example : ((B64.decode (str "TWE=") (some { cells := [170, 170, 170] })).2.map (·.cells)) = some [77, 97, 0] := by decide
example : (B64.encode [77, 97] { cells := List.replicate 5 170 }).1 = 4 := by decide
example : (B64.encode [77, 97] { cells := List.replicate 4 170 }).1 = -1 := by decide
-- numbers
example : strtoul 10 (decDigits 4096 ++ [34]) = .ok 4096 [34] := by decide
example : atoi (printInt (-1)) = -1 := by decide

end Hw.Props.C05
