/- C11 — Object type strings parse back; obj/attr snprintf obey the length contract.

   Property theorems only; the model is Hw/Io/TypeStr.lean, interpreting the tables GENERATED from the
   hwloc sources into Hw/Gen/TypeTables.lean (so every `decide` below is re-run against the current
   source on every check).  Lemmas are in Hw/Io/TypeStrLemmas.lean. -/
import Hw.Io.TypeStrLemmas
namespace Hw.Props.C11
open Hw.TypeStr Hw.Gen.TypeTables

/-! ## round trip -/

/-- the keys (type, cache/group depth, cache type, bridge upstream type, OS-device word) of the finite part:
    every type except Group; caches of depth 1..5 x {unified,data} and 1..3 instruction whose type is
    consistent with depth and cache type (asserted for every loaded object by hwloc_topology_check);
    both bridge upstream types; all 128 subsets of the 7 OS-device bits.  Fields that do not belong to
    the object's type are 0 (the convention of the model's `Obj`). -/
def scopeKeys : List (Nat × Nat × Nat × Nat × Nat) :=
  ([T_MACHINE, T_PACKAGE, T_DIE, T_CORE, T_PU, T_NUMANODE, T_MEMCACHE, T_PCI_DEVICE, T_MISC].map fun t => (t, 0, 0, 0, 0))
  ++ ((List.range 5).flatMap fun i => [(T_L1CACHE + i, i + 1, CACHE_UNIFIED, 0, 0), (T_L1CACHE + i, i + 1, CACHE_DATA, 0, 0)])
  ++ ((List.range 3).map fun i => (T_L1ICACHE + i, i + 1, CACHE_INSTRUCTION, 0, 0))
  ++ [(T_BRIDGE, 0, 0, BRIDGE_HOST, 0), (T_BRIDGE, 0, 0, BRIDGE_PCI, 0)]
  ++ ((List.range 128).map fun w => (T_OS_DEVICE, 0, 0, 0, w))

def keyOf (o : Obj) : Nat × Nat × Nat × Nat × Nat := (o.type, o.depth, o.ctype, o.upstream, o.ostypes)

/-- the round-trip statement for one object and one flag word: the text of hwloc_obj_type_snprintf is
    accepted by hwloc_type_sscanf, which returns the same type and, through a full-size attribute union,
    the same cache depth/type, group depth, bridge upstream type, OS-device set -/
def RoundTrips (o : Obj) (flags : Nat) : Prop :=
  ∃ txt p, typeText o flags = some txt ∧ typeSscanf txt = .ok (some p) ∧ p.type = o.type ∧
    writeBack p (some sizeofAttr) = expectedWritten o.type o.depth o.ctype o.upstream o.ostypes

theorem roundTrips_of_check (o : Obj) (flags : Nat) (hs : isShort flags = false)
    (h : rtCheckK o.type o.depth o.ctype o.upstream o.ostypes (isLong flags) = true) : RoundTrips o flags := by
  unfold rtCheckK at h
  unfold RoundTrips typeText typeChunks
  rw [hs]
  split at h
  · cases h
  · rename_i cs hcs
    split at h
    · rename_i p hp
      simp only [Bool.and_eq_true, beq_iff_eq] at h
      exact ⟨cs.flatten, p, by simp [hcs], hp, h.1, h.2⟩
    · cases h

set_option maxRecDepth 100000 in
theorem scope_checks : scopeKeys.all (fun k => rtCheckK k.1 k.2.1 k.2.2.1 k.2.2.2.1 k.2.2.2.2 true &&
    rtCheckK k.1 k.2.1 k.2.2.1 k.2.2.2.1 k.2.2.2.2 false) = true := by
  decide +kernel

/-- **P0 type_roundtrip (finite part)**: every object whose key is in scope, every flag word without
    SHORT_NAMES.  Checked by kernel evaluation over the generated chain and tables. -/
theorem C11_type_roundtrip (o : Obj) (flags : Nat) (hk : keyOf o ∈ scopeKeys) (hs : isShort flags = false) :
    RoundTrips o flags := by
  apply roundTrips_of_check o flags hs
  have h := List.all_eq_true.mp scope_checks (keyOf o) hk
  simp only [keyOf, Bool.and_eq_true] at h
  cases isLong flags
  · exact h.2
  · exact h.1

/-- **P0 type_roundtrip (Group, every depth)**: for every 32-bit group depth `d` (4294967295 = "no depth" prints
    plain "Group"), every flag word without SHORT_NAMES: "Group<d>" parses back to Group with depth `d`.
    By the decimal print/parse lemma `scanDigits_dec` and a prefix evaluation of the generated chain
    (`groupReady`, re-decided on every run). -/
theorem C11_group_roundtrip (o : Obj) (flags : Nat) (ht : o.type = T_GROUP) (hd : o.depth < 4294967296)
    (_hs : isShort flags = false) : RoundTrips o flags := by
  have hne : ∀ t ∈ [T_MISC, T_MACHINE, T_NUMANODE, T_MEMCACHE, T_PACKAGE, T_DIE, T_CORE, T_PU, T_L1CACHE, T_L2CACHE, T_L3CACHE,
      T_L4CACHE, T_L5CACHE, T_L1ICACHE, T_L2ICACHE, T_L3ICACHE], T_GROUP ≠ t := by decide
  simp only [List.mem_cons, List.not_mem_nil, or_false, forall_eq_or_imp, forall_eq] at hne
  have hwb : ∀ d, writeBack { type := T_GROUP, depth := d } (some sizeofAttr) = expectedWritten T_GROUP d o.ctype o.upstream o.ostypes := by
    intro d
    have h1 : isCache T_GROUP = false := by decide
    have h2 : wbGroup = T_GROUP := by decide
    have h3 : sizeofGroup ≤ sizeofAttr := by decide
    simp [writeBack, expectedWritten, h1, h2, h3]
  unfold RoundTrips typeText typeChunks
  rw [ht]
  by_cases hm : o.depth = u32m1
  · refine ⟨sGroup, { type := T_GROUP }, ?_, typeSscanf_group_nodepth, rfl, ?_⟩
    · simp [typeChunksK, hne, hm, sGroup]
    · have := hwb u32m1
      rw [hm]; exact this
  · refine ⟨sGroup ++ dec o.depth, { type := T_GROUP, depth := o.depth }, ?_, typeSscanf_group o.depth hd, rfl, hwb o.depth⟩
    simp [typeChunksK, hne, hm, sGroup]

theorem osdev_known_checks : ∀ w, w < 128 → ∀ long : Bool, rtCheckK T_OS_DEVICE 0 0 0 w long = true := by
  decide +kernel

/-- **type_roundtrip, OS devices with ANY 64-bit (indeed any) type word**: since fix 56af888 bits outside names[] are
    simply not printed, so the text parses back to exactly the known bits `types & 0x7f` (equal to `types`
    when no unknown bit is set; that case is also part of `C11_type_roundtrip`) -/
theorem C11_osdev_roundtrip_known_bits (o : Obj) (flags : Nat) (ht : o.type = T_OS_DEVICE) (hs : isShort flags = false) :
    ∃ txt p, typeText o flags = some txt ∧ typeSscanf txt = .ok (some p) ∧ p.type = T_OS_DEVICE ∧
      writeBack p (some sizeofAttr) = .osdev (o.ostypes &&& 127) := by
  have hne : ∀ t ∈ [T_MISC, T_MACHINE, T_NUMANODE, T_MEMCACHE, T_PACKAGE, T_DIE, T_CORE, T_PU, T_L1CACHE, T_L2CACHE, T_L3CACHE,
      T_L4CACHE, T_L5CACHE, T_L1ICACHE, T_L2ICACHE, T_L3ICACHE, T_GROUP, T_BRIDGE, T_PCI_DEVICE], T_OS_DEVICE ≠ t := by decide
  simp only [List.mem_cons, List.not_mem_nil, or_false, forall_eq_or_imp, forall_eq] at hne
  have hlt : o.ostypes &&& 127 < 128 := Nat.lt_succ_of_le Nat.and_le_right
  have hchk := osdev_known_checks (o.ostypes &&& 127) hlt (isLong flags)
  have hK : ∀ d ct up w, typeChunksK T_OS_DEVICE d ct up w (isLong flags) false = osdevNormal w (isLong flags) := by
    intro d ct up w; simp [typeChunksK, hne]
  have hexp : expectedWritten T_OS_DEVICE 0 0 0 (o.ostypes &&& 127) = .osdev (o.ostypes &&& 127) := by
    have h1 : isCache T_OS_DEVICE = false := by decide
    simp [expectedWritten, h1, hne]
  unfold rtCheckK at hchk
  rw [hK, ← osdevNormal_mask] at hchk
  unfold typeText typeChunks
  rw [ht, hs, hK]
  split at hchk
  · cases hchk
  · rename_i cs hcs
    split at hchk
    · rename_i p hp
      simp only [Bool.and_eq_true, beq_iff_eq] at hchk
      exact ⟨cs.flatten, p, by simp [hcs], hp, hchk.1, by rw [hchk.2, hexp]⟩
    · cases hchk

/-- hwloc_obj_type_string(t) is accepted and gives back `t`, for every type -/
theorem C11_type_string_roundtrip : ∀ t, t < typeMax →
    ∃ p, typeSscanf (typeString t) = .ok (some p) ∧ p.type = t := by
  have h : ∀ t, t < typeMax → (match typeSscanf (typeString t) with | .ok (some p) => p.type == t | _ => false) = true := by
    decide +kernel
  intro t ht
  have := h t ht
  split at this
  · rename_i p hp; exact ⟨p, hp, by simpa using this⟩
  · cases this

/-! ## printing: length contract and termination -/

/-- **P0 type_print_contract**: whenever hwloc_obj_type_snprintf returns, for every object, flag word and
    size (0 included; NULL is only dereferenced when size > 0, i.e. never): no write at or past `size`,
    NUL-terminated longest prefix when size > 0, return value = untruncated length -/
theorem C11_type_print_contract (o : Obj) (flags size : Nat) (c : Cur) (h : typeSnprintf o flags size = some c) :
    ∃ txt, typeText o flags = some txt ∧ Contract size txt c := by
  unfold typeSnprintf at h
  unfold typeText
  cases hcs : typeChunks o (isLong flags) (isShort flags) with
  | none => simp [hcs] at h
  | some cs =>
    simp only [hcs, Option.map_some, Option.some.injEq] at h
    subst h
    refine ⟨cs.flatten, rfl, ?_⟩
    have hne : cs.map Chunk.cur ≠ [] := by
      have := typeChunksK_ne _ _ _ _ _ _ _ cs hcs
      simpa using this
    have hall : ∀ ch ∈ cs.map Chunk.cur, ch.isCur = true := by
      intro ch hm; simp only [List.mem_map] at hm; obtain ⟨_, _, rfl⟩ := hm; rfl
    simpa [flat_map_cur] using emit_contract size (cs.map Chunk.cur) hne hall

/-- **P0 type_print_terminates**: hwloc_obj_type_snprintf returns for EVERY object, flag word and size, in
    particular for all 2^64 OS-device type words.  (On the pinned tree this failed: `while (ostype)` in
    hwloc__osdev_type_snprintf_normal never ended for a word with a bit >= 7 that is in no names[] entry -- F06,
    fixed by 56af888 (single pass); the old failing input is corpus/typestr/boundary.ops line 1.) -/
theorem C11_type_print_terminates (o : Obj) (flags size : Nat) : (typeSnprintf o flags size).isSome = true := by
  have := typeChunksK_isSome o.type o.depth o.ctype o.upstream o.ostypes (isLong flags) (isShort flags)
  simpa [typeSnprintf, typeChunks] using this

/-- **P0 attr_print_contract**: hwloc_obj_attr_snprintf, every object with `IoNoMemory`, every separator,
    flag word and size -/
theorem C11_attr_print_contract (o : Obj) (sep : Bytes) (flags size : Nat) (h : IoNoMemory o) :
    Contract size (flat (attrChunks o sep flags)) (attrSnprintf o sep flags size) := by
  unfold attrSnprintf
  rw [attr_emit_toCur o sep flags size h, ← flat_toCur]
  exact emit_contract size _ (attrChunks_ne o sep flags) (toCur_isCur _)

/-- NULL with size 0 is accepted: nothing at all is written -/
theorem C11_size0_writes_nothing (size : Nat) (txt : Bytes) (c : Cur) (h : Contract size txt c) (h0 : size = 0) :
    ∀ i, c.buf i = none := fun i => h.outside i (by omega)

/-! ## memory safety of hwloc_type_sscanf -/

/-- **P0 sscanf_safe**: for EVERY byte string hwloc_type_sscanf never moves a pointer beyond the terminating NUL of its
    input (all loops of the model stop at the NUL exactly where the C loops test it; every unguarded `p + k` goes
    through `ptrAdd`), never reads beyond the NUL of a pattern literal, and returns 0 or -1.
    Generic in the generated chain: needs only `chain_ok` (skip ≤ n ≤ |pattern| for the `osdev[`/`os[` forms),
    re-decided on every run.  (On the pinned tree the pattern half needed "no byte 0xE0": F23, fixed by 2710d74.) -/
theorem C11_sscanf_safe (s : Bytes) : ∃ r, typeSscanf s = .ok r := by
  have h := typeSscanf_safe s
  cases hr : typeSscanf s with
  | ok r => exact ⟨r, rfl⟩
  | oobS => exact absurd hr h.1
  | oobT => exact absurd hr h.2

/-- whenever hwloc_type_sscanf returns 0, `*typep` is an enumerator of hwloc_obj_type_t (so indexing
    obj_type_order[] with it, as hwloc_compare_types does, is in bounds) -/
theorem C11_sscanf_type_valid (s : Bytes) (p : Parsed) (h : typeSscanf s = .ok (some p)) : p.type < typeMax :=
  typeSscanf_type s p h

/-- the old F23 input `"pu\\xe0z"` (0xE0 = '\\0' + 'A' - 'a' as a signed char used to "match" the NUL of the
    pattern, after which hwloc__type_match read past the literal): now the match stops at the end of "pu" -/
theorem C11_F23_e0_input_parses : typeSscanf [112, 117, 224, 122] = .ok (some { type := T_PU }) := by
  decide +kernel

/-! ## hwloc_compare_types and the kind predicates -/

/-- **P0 compare_types_laws** (kernel evaluation over the full 20 x 20 table built from the generated
    obj_type_order[] and kind ranges) -/
theorem C11_compare_types_laws :
    -- antisymmetric where ordered; UNORDERED is symmetric
    (∀ a, a < typeMax → ∀ b, b < typeMax → compareTypes b a = (compareTypes a b).map (fun v => -v)) ∧
    -- reflexive, and only equal types compare equal
    (∀ a, a < typeMax → ∀ b, b < typeMax → (compareTypes a b = some 0 ↔ a = b)) ∧
    -- UNORDERED exactly between a non-normal type and a normal type other than Machine
    (∀ a, a < typeMax → ∀ b, b < typeMax →
      (compareTypes a b = none ↔ ((isNormal a != isNormal b) && (if isNormal a then a != T_MACHINE else b != T_MACHINE)) = true)) ∧
    -- Machine is highest
    (∀ b, b < typeMax → ∃ v, compareTypes T_MACHINE b = some v ∧ v ≤ 0) ∧
    -- PU is the deepest normal type
    (∀ a, a < typeMax → isNormal a = true → ∃ v, compareTypes a T_PU = some v ∧ v ≤ 0) ∧
    -- transitive where ordered
    (∀ a, a < typeMax → ∀ b, b < typeMax → ∀ c, c < typeMax → ∀ x y, compareTypes a b = some x → compareTypes b c = some y →
      x ≤ 0 → y ≤ 0 → ∀ z, compareTypes a c = some z → z ≤ 0) := by
  refine ⟨by decide +kernel, by decide +kernel, by decide +kernel, by decide +kernel, by decide +kernel, ?_⟩
  have h : ∀ a, a < typeMax → ∀ b, b < typeMax → ∀ c, c < typeMax →
      (match compareTypes a b, compareTypes b c, compareTypes a c with
       | some x, some y, some z => decide (x ≤ 0 → y ≤ 0 → z ≤ 0)
       | _, _, _ => true) = true := by decide +kernel
  intro a ha b hb c hc x y hx hy hx0 hy0 z hz
  have := h a ha b hb c hc
  simp only [hx, hy, hz, decide_eq_true_eq] at this
  exact this hx0 hy0

/-- exactly one of normal / memory / io / misc holds for every type; caches are normal, data and
    instruction caches partition the caches -/
theorem C11_kinds_partition : ∀ t, t < typeMax →
    ((if isNormal t then 1 else 0) + (if isMemory t then 1 else 0) + (if isIO t then 1 else 0) + (if isMisc t then 1 else 0) = 1) ∧
    (isCache t = true → isNormal t = true) ∧ (isCache t = (isDCache t != isICache t)) ∧ (isDCache t && isICache t) = false := by
  decide +kernel

/-! ## one text per level -/

/-- **P0 level_same_text**: objects that agree on what the printer reads (type, cache depth and type, group
    depth, bridge upstream type, OS-device word) print the same text into every buffer.  hwloc_topology_check
    guarantees equal type and group depth per level, not equal cache type: see F11 below. -/
theorem C11_level_same_text (o1 o2 : Obj) (flags size : Nat) (h : keyOf o1 = keyOf o2) :
    typeText o1 flags = typeText o2 flags ∧
    (typeSnprintf o1 flags size).map (fun c => (c.ret, (List.range size).map c.buf)) =
    (typeSnprintf o2 flags size).map (fun c => (c.ret, (List.range size).map c.buf)) := by
  simp only [keyOf, Prod.mk.injEq] at h
  obtain ⟨h1, h2, h3, h4, h5⟩ := h
  simp [typeText, typeSnprintf, typeChunks, h1, h2, h3, h4, h5]

/-- **F11 (negative)**: a unified and a data L1 cache (same type HWLOC_OBJ_L1CACHE, same depth, hence the
    same level for hwloc_type_cmp) print different texts -/
theorem C11_F11_same_level_different_text :
    typeText { type := T_L1CACHE, depth := 1, ctype := CACHE_UNIFIED } 0 ≠
    typeText { type := T_L1CACHE, depth := 1, ctype := CACHE_DATA } 0 := by
  decide +kernel

/-! ## non-vacuity -/

/-- a group of depth 4294967294 (the largest real depth) round-trips -/
example : RoundTrips { type := T_GROUP, depth := 4294967294 } 0 :=
  C11_group_roundtrip _ _ rfl (by decide) (by decide)

/-- a multi-bit OS device with long names -/
example : RoundTrips { type := T_OS_DEVICE, ostypes := 44 } FLAG_LONG_NAMES :=
  C11_type_roundtrip _ _ (by decide +kernel) (by decide)

/-- its text is "OSDev[OpenFabrics,Co-Processor,GPU]" -/
example : typeText { type := T_OS_DEVICE, ostypes := 44 } FLAG_LONG_NAMES =
    some [79, 83, 68, 101, 118, 91, 79, 112, 101, 110, 70, 97, 98, 114, 105, 99, 115, 44, 67, 111, 45, 80, 114, 111, 99, 101, 115,
          115, 111, 114, 44, 71, 80, 85, 93] := by decide +kernel

/-- the contract bites on a truncating size: 5 cells for a 35-byte text hold 4 bytes and a NUL -/
example : ((typeSnprintf { type := T_OS_DEVICE, ostypes := 44 } FLAG_LONG_NAMES 5).map
    (fun c => (c.ret, (List.range 7).map c.buf))) = some (35, [some 79, some 83, some 68, some 101, some 0, none, none]) := by
  decide +kernel

/-- an I/O object without memory exists and has a non-trivial verbose attribute text -/
example : IoNoMemory { type := T_PCI_DEVICE, vendor := 32902 } ∧
    (attrSnprintf { type := T_PCI_DEVICE, vendor := 32902 } [32] FLAG_MORE_ATTRS 8).ret = 44 := by
  constructor
  · intro _; rfl
  · decide +kernel

end Hw.Props.C11
