/-
  C19 — Shared-memory topologies: the length suffices, the adopted copy is equal and read-only.

  Property theorems over the model `Hw.Shmem` (lean/Hw/Io/Shmem.lean).  Reading of the English property:

  * "the length returned by get_length is sufficient for write": both functions run hwloc__topology_dup with a
    custom allocator.  For EVERY trace of requested sizes, the bump allocator of `write` started at
    base + header_length hands out ALIGN-aligned, pairwise disjoint blocks that all lie inside
    [base + header_length, base + get_length(trace)).  That the two dup passes issue the same trace is what the
    differential engine checks on the real code (C19 tie D, observation `trace`).
  * "adopt with the same file, offset, address and length returns an observably identical topology": over the
    world model (file segments, occupied address ranges) write-then-adopt yields a handle whose content IS the
    content written (canonical dump + XML/distances/memattrs/cpukinds/infos texts) — the relation the harness compares.
  * errors: the decision functions follow the source order; the theorems characterise each errno exactly.
  * "every structure-modifying call fails with EPERM": for every entry of the guard table extracted from the
    source (Hw.Gen.Shmem.guards) the call returns EPERM (EINVAL only for insert_misc_object when the Misc filter is
    KEEP_NONE, which hwloc tests first) and leaves the adopted state untouched; over arbitrary call histories
    the mapped content never changes in the model.
  * `hwloc_topology_allow` (the documented exception): adopt gives the adopted topology private copies of the two
    allowed sets, so a validated call succeeds, installs the new sets there and leaves the mapping alone
    (`C19_allow_exception`); write refreshes the memattr caches of the copy, so queries never store
    (`C19_memattr_query_never_stores`); both facts (`Adopted.Sound`) hold for every adopted topology and are kept by
    every call (`C19_adopt_equiv`, `C19_adopted_never_faults`).
  * Calls that cannot be guarded because they take no topology argument (hwloc_obj_add_info, hwloc_modify_infos on
    object infos, direct stores to obj->userdata) are outside the call set: objects of an adopted topology are
    documented as read-only and the PROT_READ mapping is the only protection.
-/
import Hw.Io.ShmemLemmas
namespace Hw.Props.C19
open Hw Hw.Shmem Hw.Gen.Shmem

/-- P0 length_suffices.  For every allocation trace `ss`, page size and 8-aligned base: the blocks handed out by the
    bump pass are 8-aligned, start behind the header, end before `base + get_length`, are pairwise disjoint
    (even ordered), are exactly as many and as large as requested, and the touched prefix `usedBytes` fits. -/
theorem C19_length_suffices (ps base : Nat) (ss : List Nat) (hps : 0 < ps) (hb : base % 8 = 0) :
    (∀ b ∈ bump (base + headerLength) ss,
        b.addr % 8 = 0 ∧ base + headerLength ≤ b.addr ∧ b.addr + b.size ≤ base + getLength ps ss) ∧
    (bump (base + headerLength) ss).Pairwise (fun x y => x.addr + x.size ≤ y.addr) ∧
    (bump (base + headerLength) ss).map (·.size) = ss ∧
    usedBytes ss ≤ getLength ps ss ∧ getLength ps ss % ps = 0 := by
  have hu := usedBytes_le_getLength ps hps ss
  have he : bumpEnd (base + headerLength) ss = base + usedBytes ss := by
    unfold usedBytes; rw [bumpEnd_eq, bumpEnd_eq]; omega
  refine ⟨?_, bump_pairwise _ _, bump_sizes _ _, hu, roundUp_mod _ _⟩
  intro b hb'
  have hc : (base + headerLength) % 8 = 0 := by rw [headerLength_eq]; omega
  have ⟨h1, h2, h3⟩ := bump_mem (base + headerLength) ss hc b hb'
  exact ⟨h1, h2, by omega⟩

/-- the counting pass and the bump pass agree: the cursor ends exactly `countFrom 0 ss` bytes after its start,
    and the length is the page round-up of header + that count -/
theorem C19_passes_agree (cur : Nat) (ss : List Nat) (ps : Nat) :
    bumpEnd cur ss = cur + countFrom 0 ss ∧ getLength ps ss = roundUp ps (usedBytes ss) := by
  refine ⟨bumpEnd_eq cur ss, ?_⟩
  rw [usedBytes_eq]; rfl

/-- the C expressions `(n + A - 1) & ~(A - 1)` on 64-bit unsigned values compute the arithmetic round-up used by
    the theorems, for the allocation alignment and for every power-of-two page size, as long as nothing wraps -/
theorem C19_rounding_matches_C :
    (∀ n, n + 7 < 2 ^ 64 → roundUpC ALIGN n = align8 n) ∧
    (∀ k n, k ≤ 64 → n + 2 ^ k - 1 < 2 ^ 64 → roundUpC (2 ^ k) n = roundUp (2 ^ k) n) :=
  ⟨align8_matches_C, roundUpC_eq⟩

/-- header layout: 24 bytes, padded header length 24 (so the topology struct is pointer-aligned and starts where
    `assert((char*)new == (char*)mmap_address + sizeof(header))` says), version 1 -/
theorem C19_header_layout :
    HEADER_SIZE = 24 ∧ headerLength = 24 ∧ headerLength % PTR = 0 ∧ HEADER_SIZE ≤ headerLength ∧ HEADER_VERSION = 1 ∧
    headerFields = [("header_version", 0, 4), ("header_length", 4, 4), ("mmap_address", 8, 8), ("mmap_length", 16, 8)] ∧
    sameRounding = true := by decide

/-- P0 adopt_decision (system calls succeed: the header could be read, mmap returned address `a`). -/
theorem C19_adopt_decision (flags : Nat) (h : Header) (addr len a : Nat) (abiOk : Bool) :
    (adoptDecision flags (some h) addr len (.at a) abiOk = .einval ↔
        flags ≠ 0 ∨ h ≠ mkHeader addr len ∨ (a = addr ∧ abiOk = false)) ∧
    (adoptDecision flags (some h) addr len (.at a) abiOk = .ebusy ↔ flags = 0 ∧ h = mkHeader addr len ∧ a ≠ addr) ∧
    (adoptDecision flags (some h) addr len (.at a) abiOk = .ok ↔
        flags = 0 ∧ h = mkHeader addr len ∧ a = addr ∧ abiOk = true) ∧
    (adoptDecision flags (some h) addr len (.at a) abiOk = .einval ∨
     adoptDecision flags (some h) addr len (.at a) abiOk = .ebusy ∨
     adoptDecision flags (some h) addr len (.at a) abiOk = .ok) := by
  unfold adoptDecision
  by_cases hf : flags = 0
  · by_cases hh : headerOk h addr len = true
    · have hh' := (headerOk_iff h addr len).1 hh
      subst hh'
      by_cases ha : a = addr
      · cases abiOk <;> simp [hf, mkHeader_ok, ha]
      · simp [hf, mkHeader_ok, ha]
    · have hh' : h ≠ mkHeader addr len := fun e => hh ((headerOk_iff h addr len).2 e)
      simp [hf, hh, hh']
  · simp [hf]

/-- the remaining exits of adopt: a failing lseek/short read or a failing mmap return -1 with the kernel's errno;
    the flags are tested before anything else -/
theorem C19_adopt_syscall_exits (flags addr len : Nat) (h : Header) (mm : Mmap) (abiOk : Bool) :
    (flags ≠ 0 → adoptDecision flags none addr len mm abiOk = .einval) ∧
    (flags = 0 → adoptDecision flags none addr len mm abiOk = .sys) ∧
    (flags = 0 → h = mkHeader addr len → adoptDecision flags (some h) addr len .failed abiOk = .sys) := by
  refine ⟨fun hf => by simp [adoptDecision, hf], fun hf => by simp [adoptDecision, hf], fun hf hh => ?_⟩
  simp [adoptDecision, hf, (headerOk_iff h addr len).2 hh]

/-- write: EINVAL iff flags, EBUSY iff mmap returned another address, success otherwise (I/O succeeding) -/
theorem C19_write_decision (flags addr a : Nat) :
    (writeDecision flags true addr (.at a) = .einval ↔ flags ≠ 0) ∧
    (writeDecision flags true addr (.at a) = .ebusy ↔ flags = 0 ∧ a ≠ addr) ∧
    (writeDecision flags true addr (.at a) = .ok ↔ flags = 0 ∧ a = addr) := by
  unfold writeDecision
  by_cases hf : flags = 0 <;> by_cases ha : a = addr <;> simp [hf, ha]

/-- P0 adopt_equiv.  In any world where the address range is free: write succeeds, and adopting with the same
    offset, address and length succeeds and yields a handle whose mapped content is exactly the written content
    (the dump / XML / distances / memattrs / cpukinds / infos texts the harness compares), whose private infos copy
    equals the written infos, which is marked adopted at (addr, len), and which is `Sound`: its allowed sets are
    private copies and the memattr caches of the mapped copy are valid. -/
theorem C19_adopt_equiv (w : World) (t : Content) (ss : List Nat) (off addr len : Nat)
    (hfree : w.space.isFree addr len = true) :
    (w.write t ss off addr len 0).1 = .ok ∧
    ((w.write t ss off addr len 0).2.adopt off addr len 0).1 = .ok ∧
    ∃ h a, ((w.write t ss off addr len 0).2.adopt off addr len 0).2.1 = some h ∧
      ((w.write t ss off addr len 0).2.adopt off addr len 0).2.2.get h = some a ∧
      a.content = t ∧ a.infos = t.infos ∧ a.addr = addr ∧ a.len = len ∧ a.Sound := by
  have hw : w.write t ss off addr len 0 =
      (.ok, { w with file := (off, { hdr := mkHeader addr len, abi := thisAbi, content := t, used := usedBytes ss,
                                      memattrsCached := true }) :: w.file.filter (fun r => r.1 + r.2.hdr.len ≤ off) }) := by
    simp [World.write, writeDecision, mmap_free _ _ _ hfree]
  rw [hw]
  refine ⟨rfl, ?_⟩
  simp [World.adopt, World.abiOk, World.segment, World.readHeader, adoptDecision, mkHeader_ok, mmap_free _ _ _ hfree,
    World.get, World.addLive, adoptState, Adopted.Sound]

/-- mismatching address or length, non-zero flags, another ABI → EINVAL; occupied range → EBUSY; an offset where
    nothing was written → EINVAL (zero header) — for every world in which `off` holds a segment written for (addr, len) -/
theorem C19_adopt_errors (w : World) (img : Image) (off addr len : Nat)
    (hseg : w.segment off = some img) (hhdr : img.hdr = mkHeader addr len) :
    (∀ addr' len' flags, (addr', len') ≠ (addr, len) → (w.adopt off addr' len' flags).1 = .einval) ∧
    (∀ flags, flags ≠ 0 → (w.adopt off addr len flags).1 = .einval) ∧
    (w.space.isFree addr len = false → (w.adopt off addr len 0).1 = .ebusy) ∧
    (w.space.isFree addr len = true → img.abi ≠ thisAbi → (w.adopt off addr len 0).1 = .einval) ∧
    (∀ off' addr' len', w.segment off' = none → off' + HEADER_SIZE ≤ w.fileSize → (w.adopt off' addr' len' 0).1 = .einval) := by
  refine ⟨?_, ?_, ?_, ?_, ?_⟩
  · intro addr' len' flags hne
    have hbad : headerOk (mkHeader addr len) addr' len' = false := by
      cases hk : headerOk (mkHeader addr len) addr' len' with
      | false => rfl
      | true =>
        have := (headerOk_iff _ _ _).1 hk
        simp [mkHeader] at this
        exact absurd (by rw [this.1, this.2]) hne
    by_cases hf : flags = 0 <;> simp [World.adopt, World.readHeader, hseg, hhdr, adoptDecision, hf, hbad]
  · intro flags hf
    simp [World.adopt, adoptDecision, hf]
  · intro hbusy
    obtain ⟨a, hm, hne⟩ := mmap_busy _ _ _ hbusy
    simp [World.adopt, World.readHeader, hseg, hhdr, adoptDecision, mkHeader_ok, hm, hne]
  · intro hfree habi
    simp [World.adopt, World.abiOk, World.readHeader, hseg, hhdr, adoptDecision, mkHeader_ok, mmap_free _ _ _ hfree, habi]
  · intro off' addr' len' hnone hsz
    simp [World.adopt, World.readHeader, hnone, hsz, adoptDecision, zeroHeader_not_ok]

/-- every modifying entry point that receives the topology — except the documented exception `allow` — is in the
    extracted guard table (more guards may be added without breaking this; dropping one breaks it) -/
theorem C19_guard_table_covers :
    ∀ fn ∈ modifyingEntryPoints, fn ≠ "hwloc_topology_allow" → (findGuard fn).isSome = true := by decide

/-- P0 adopted_readonly.  Every guarded entry point, called on ANY adopted state, returns EPERM and leaves the state
    (mapped content and private part) unchanged; the only other answers are the EINVAL of a test that precedes the guard
    in the source: the Misc filter KEEP_NONE in hwloc_topology_insert_misc_object, a distances structure that does not
    belong to the topology in hwloc_distances_release_remove. -/
theorem C19_adopted_readonly (a : Adopted) (fn : String) (fd : Bool) (g : Guard) (hg : findGuard fn = some g) :
    (stepAdopted a (.call fn fd)).2 = a ∧
    ((stepAdopted a (.call fn fd)).1 = .ret .eperm ∨
     ((stepAdopted a (.call fn fd)).1 = .ret .einval ∧ a.content.miscFilter = 1 ∧ (Pre.miscFilterNone, "EINVAL") ∈ g.pre) ∨
     ((stepAdopted a (.call fn fd)).1 = .ret .einval ∧ fd = true ∧ (Pre.distNotFound, "EINVAL") ∈ g.pre)) := by
  have ⟨hmem, _⟩ := findGuard_mem hg
  simp only [stepAdopted, hg, true_and]
  rcases guardResult_cases a fd g hmem with h | ⟨h1, h2, h3⟩ | ⟨h1, h2, h3⟩
  · left; rw [h]
  · right; left; exact ⟨by rw [h1], h2, h3⟩
  · right; right; exact ⟨by rw [h1], h2, h3⟩

/-- with the Misc filter different from KEEP_NONE and arguments that belong to the topology every guarded call is EPERM -/
theorem C19_adopted_eperm (a : Adopted) (fn : String) (g : Guard) (hg : findGuard fn = some g)
    (hm : a.content.miscFilter ≠ 1) : stepAdopted a (.call fn false) = (.ret .eperm, a) := by
  have ⟨h1, h2⟩ := C19_adopted_readonly a fn false g hg
  rcases h2 with h | ⟨_, h, _⟩ | ⟨_, h, _⟩
  · exact Prod.ext h h1
  · exact absurd h hm
  · exact absurd h (by decide)

/-- histories: whatever sequence of public calls is applied to an adopted topology (guarded, refused, permitted on
    private copies, `allow`, memattr queries), the mapped content and the mapping itself never change in the model;
    configuration calls are refused with EBUSY -/
theorem C19_adopted_history_readonly (a : Adopted) (ops : List Op) :
    (runAdopted a ops).2.content = a.content ∧ (runAdopted a ops).2.addr = a.addr ∧ (runAdopted a ops).2.len = a.len :=
  runAdopted_mapping a ops

theorem C19_refused_busy (a : Adopted) :
    ∀ fn ∈ refusedBusy, ∀ fd, stepAdopted a (.call fn fd) = (.ret .ebusy, a) := by
  intro fn hfn fd
  have hnone : ∀ fn ∈ refusedBusy, findGuard fn = none := by decide
  simp [stepAdopted, hnone fn hfn, hfn]

/-- P0 allow, the documented exception.  On every `Sound` adopted topology (every state `adopt` produces, after any
    history) whose original was loaded with INCLUDE_DISALLOWED: allow(ALL) succeeds and installs the root's sets,
    allow(CUSTOM) with intersecting sets succeeds and installs the intersections (cpuset alone, or cpuset and nodeset
    together); the new sets go to the private copies; no allow call, successful or not, touches the mapped content or
    faults. -/
theorem C19_allow_exception (a : Adopted) (hs : a.Sound)
    (hfl : a.content.flags &&& FLAG_INCLUDE_DISALLOWED ≠ 0) :
    stepAdopted a (.allow ALLOW_ALL none none) =
      (.ret .ok, { a with allowedCpuset := a.content.rootCpuset, allowedNodeset := a.content.rootNodeset }) ∧
    (∀ c, a.content.rootCpuset &&& c ≠ 0 →
      stepAdopted a (.allow ALLOW_CUSTOM (some c) none) = (.ret .ok, { a with allowedCpuset := a.content.rootCpuset &&& c })) ∧
    (∀ c n, a.content.rootCpuset &&& c ≠ 0 → a.content.rootNodeset &&& n ≠ 0 →
      stepAdopted a (.allow ALLOW_CUSTOM (some c) (some n)) =
        (.ret .ok, { a with allowedCpuset := a.content.rootCpuset &&& c, allowedNodeset := a.content.rootNodeset &&& n })) ∧
    (∀ fl c n, (stepAdopted a (.allow fl c n)).2.content = a.content ∧ (stepAdopted a (.allow fl c n)).1 ≠ .fault ∧
               (stepAdopted a (.allow fl c n)).2.Sound) := by
  have hpriv := hs.1
  refine ⟨?_, ?_, ?_, fun fl c n => ⟨(stepAdopted_mapping a _).1, ?_, stepAdopted_sound a _ hs⟩⟩
  · simp [stepAdopted, allowDecision, hfl, hpriv, allowApply, ALLOW_ALL]
  · intro c hc
    simp [stepAdopted, allowDecision, hfl, hpriv, allowApply, ALLOW_ALL, ALLOW_LOCAL, ALLOW_CUSTOM, hc]
  · intro c n hc hn
    simp [stepAdopted, allowDecision, hfl, hpriv, allowApply, ALLOW_ALL, ALLOW_LOCAL, ALLOW_CUSTOM, hc, hn]
  · exact stepAdopted_no_fault a _ hs (fun fn fd h => by cases h)

/-- without INCLUDE_DISALLOWED (and for malformed arguments) allow is refused with EINVAL before any store -/
theorem C19_allow_einval (a : Adopted) (fl : Nat) (c n : Option Nat)
    (h : a.content.flags &&& FLAG_INCLUDE_DISALLOWED = 0 ∨ (fl ≠ ALLOW_ALL ∧ fl ≠ ALLOW_LOCAL ∧ fl ≠ ALLOW_CUSTOM)
         ∨ (fl = ALLOW_ALL ∧ c.isSome = true)) :
    stepAdopted a (.allow fl c n) = (.ret .einval, a) := by
  rcases h with h | ⟨h1, h2, h3⟩ | ⟨h1, h2⟩
  · simp [stepAdopted, allowDecision, h]
  · by_cases hf : a.content.flags &&& FLAG_INCLUDE_DISALLOWED = 0 <;> simp [stepAdopted, allowDecision, hf, h1, h2, h3]
  · by_cases hf : a.content.flags &&& FLAG_INCLUDE_DISALLOWED = 0 <;> simp [stepAdopted, allowDecision, hf, h1, h2]

/-- memattr queries on an adopted topology never store: write refreshes the memattr caches of the copy it stores
    (every written image has them valid, see `C19_adopt_equiv`), so a query returns without refreshing and the state —
    mapped content included — is unchanged -/
theorem C19_memattr_query_never_stores (a : Adopted) (hs : a.Sound) :
    stepAdopted a .memattrQuery = (.ret .ok, a) := by simp [stepAdopted, hs.2]

/-- on a `Sound` adopted topology no history of public calls (guarded or refused entry points with any arguments, `allow`,
    userdata, additions to the private infos copy, memattr queries) ever stores into the mapping, and `Sound` is kept -/
theorem C19_adopted_never_faults (a : Adopted) (hs : a.Sound) (ops : List Op)
    (hops : ∀ fn fd, Op.call fn fd ∈ ops → (findGuard fn).isSome = true ∨ fn ∈ refusedBusy) :
    (∀ o ∈ (runAdopted a ops).1, o ≠ .fault) ∧ (runAdopted a ops).2.Sound := by
  induction ops generalizing a with
  | nil => exact ⟨by simp [runAdopted], hs⟩
  | cons op ops ih =>
    simp only [runAdopted]
    have h1 := stepAdopted_no_fault a op hs (fun fn fd h => hops fn fd (by rw [h]; exact List.mem_cons_self))
    have h2 := stepAdopted_sound a op hs
    have ⟨i1, i2⟩ := ih (stepAdopted a op).2 h2 (fun fn fd h => hops fn fd (List.mem_cons_of_mem _ h))
    refine ⟨?_, i2⟩
    intro o ho
    simp only [List.mem_cons] at ho
    rcases ho with rfl | ho
    · exact h1
    · exact i1 o ho

/-- whenever a call does not fault, the code-faithful step answers exactly what the property demands; the differential
    engine compares the real code against `demanded`, so agreement on the default stream is agreement with `stepAdopted` -/
theorem C19_demanded_eq_step (a : Adopted) (op : Op) (h : (stepAdopted a op).1 ≠ .fault) :
    (stepAdopted a op).1 = demanded a op := demanded_eq_step a op h

/-- destroy unmaps: after adopting into a free range and destroying the handle, the range is free again, the handle
    is gone, and while the topology was alive a second adoption at the same (non-empty) range was EBUSY -/
theorem C19_destroy_unmaps (w : World) (off addr len h : Nat) (w' : World)
    (hfree : w.space.isFree addr len = true) (had : w.adopt off addr len 0 = (.ok, some h, w')) :
    (w'.destroy h).space.isFree addr len = true ∧ (w'.destroy h).get h = none ∧
    (0 < len → (w'.adopt off addr len 0).1 = .ebusy) := by
  cases hseg : w.segment off with
  | none =>
    cases hdec : adoptDecision 0 (w.readHeader off) addr len (w.space.mmap addr len) (w.abiOk off) <;>
      simp [World.adopt, hseg, hdec] at had
  | some img =>
    cases hdec : adoptDecision 0 (w.readHeader off) addr len (w.space.mmap addr len) (w.abiOk off) with
    | ok =>
      simp only [World.adopt, hseg, hdec, Prod.mk.injEq, Option.some.injEq, true_and] at had
      obtain ⟨hh, hw'⟩ := had
      subst hh
      subst hw'
      refine ⟨?_, destroy_addLive_get _ _, ?_⟩
      · rw [destroy_addLive_space]
        exact isFree_unmap_cons _ _ _ hfree
      · intro hl
        have hnf := not_free_after_map w.space addr len hl
        have hhdr : ∃ hd, w.readHeader off = some hd ∧ headerOk hd addr len = true := by
          unfold adoptDecision at hdec
          cases hr : w.readHeader off with
          | none => simp [hr] at hdec
          | some hd =>
            refine ⟨hd, rfl, ?_⟩
            cases hk : headerOk hd addr len with
            | true => rfl
            | false => simp [hr, hk] at hdec
        obtain ⟨hd, hr, hk⟩ := hhdr
        have hsp : (w.addLive (adoptState img addr len)).space = (addr, len) :: w.space := rfl
        obtain ⟨a', hm, hne⟩ := mmap_busy _ _ _ hnf
        simp [World.adopt, addLive_readHeader, addLive_segment, hsp, hr, hseg, adoptDecision, hk, hm, hne]
    | einval | ebusy | eperm | enosys | sys => simp [World.adopt, hseg, hdec] at had

/-! ### non-vacuity -/

/-- a concrete trace: sizes 1, 8, 13, 0, 4000 at base 0x10000 with 4 KiB pages -/
example : getLength 4096 [1, 8, 13, 0, 4000] = 4096 ∧ getLength 4096 [4000, 100] = 8192 ∧ usedBytes [1, 8, 13, 0, 4000] = 24 + 8 + 8 + 16 + 0 + 4000 ∧
    (bump (0x10000 + headerLength) [1, 8, 13, 0, 4000]).map (·.addr) = [65560, 65568, 65576, 65592, 65592] := by decide

example : adoptDecision 0 (some (mkHeader 0x7000 8192)) 0x7000 8192 (.at 0x7000) true = .ok ∧
    adoptDecision 0 (some (mkHeader 0x7000 8192)) 0x7000 4096 (.at 0x7000) true = .einval ∧
    adoptDecision 0 (some (mkHeader 0x7000 8192)) 0x7000 8192 (.at 0x9000) true = .ebusy ∧
    adoptDecision 0 (some (mkHeader 0x7000 8192)) 0x7000 8192 (.at 0x7000) false = .einval ∧
    adoptDecision 1 (some (mkHeader 0x7000 8192)) 0x7000 8192 (.at 0x7000) true = .einval := by decide

/-- the guard table is not empty and contains restrict -/
example : (findGuard "hwloc_topology_restrict").isSome = true ∧ guards.length ≥ 9 := by decide

/-- a world in which the hypotheses of adopt_equiv / destroy_unmaps hold, and one where the range is occupied -/
example : (({} : World).space.isFree 0x7000 8192 = true) ∧
    (({ space := [(0x8000, 4096)] } : World).space.isFree 0x7000 8192 = false) := by decide

end Hw.Props.C19
