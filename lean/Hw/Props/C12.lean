/-
  C12 — hwloc_topology_dup yields an equivalent, fully independent topology.

  What is PROVED here (over the model of Hw.Topo.Dup, for all states / histories / traces):
    * the copy is observationally equivalent to the original (`C12_dup_equiv`), the equivalence is an equivalence
      relation that contains every component the property lists (`C12_equiv_*`, `C12_equiv_fields`), the internal caches
      of the copy are invalid (`C12_dup_caches_invalid`), the copy evolves like the original (`C12_dup_commutes_history`);
    * independence ON THE FUNCTIONAL MODEL (`C12_dup_then_history_independent`): true by construction, it gives the
      harness its predicted value and proves NOTHING about the C heap;
    * the allocation-level facts: bump allocator blocks are pairwise disjoint, inside the arena, aligned, fresh
      (`C12_bump_*`), and the provenance checker predicate implies disjointness from the original (`C12_provenance_*`).
  What is CHECKED, not proved (harness/h_dup.c): that the real heap objects of the copy satisfy the checker predicate
  (provenance walk with a recording allocator), ASan/LSan on destroy in both orders, XML/attribute text equality.
  Deliberately outside `TopoEquivD`: topology->userdata, which hwloc__topology_dup does not copy (`C12_topo_userdata_not_copied`).
-/
import Hw.Topo.DupLemmas
import Hw.Gen.DupAlloc
namespace Hw.Props.C12
open Hw.Topo Hw.Topo.Hist Hw.Topo.Dup

/-- P0: the copy is observationally equivalent to the original -/
theorem C12_dup_equiv (s : TopoState) : TopoEquivD s (dupState s) := dup_equiv s

theorem C12_equiv_refl (a : TopoState) : TopoEquivD a a := equiv_refl a
theorem C12_equiv_symm (a b : TopoState) (h : TopoEquivD a b) : TopoEquivD b a := equiv_symm h
theorem C12_equiv_trans (a b c : TopoState) (h1 : TopoEquivD a b) (h2 : TopoEquivD b c) : TopoEquivD a c := equiv_trans h1 h2

/-- the equivalence is not weak: it forces equality of the whole tree dump (all object fields incl. gp_index, infos, the
four sets, attributes; levels; allowed sets; flags; filters), userdata pointers, page types, state, pid, support,
grouping configuration, topology infos, cpukinds, and of distances / memattrs up to their caches -/
theorem C12_equiv_fields (a b : TopoState) (h : TopoEquivD a b) :
    a.dump = b.dump ∧ a.userdata = b.userdata ∧ a.pageTypes = b.pageTypes ∧ a.state = b.state ∧ a.pid = b.pid ∧
    a.support = b.support ∧ a.grouping = b.grouping ∧ a.infos = b.infos ∧ a.cpukinds = b.cpukinds ∧
    a.dists.map Dist.invalidate = b.dists.map Dist.invalidate ∧
    a.memattrs.map MemAttr.invalidate = b.memattrs.map MemAttr.invalidate := equiv_fields h

/-- consequently the copy has the same dump, userdata, ... as the original -/
theorem C12_dup_fields (s : TopoState) :
    (dupState s).dump = s.dump ∧ (dupState s).userdata = s.userdata ∧ (dupState s).pageTypes = s.pageTypes ∧
    (dupState s).support = s.support ∧ (dupState s).infos = s.infos ∧ (dupState s).cpukinds = s.cpukinds :=
  ⟨rfl, rfl, rfl, rfl, rfl, rfl⟩

/-- distances.c:163, memattrs.c:180-224: every cache of the copy is invalid -/
theorem C12_dup_caches_invalid (s : TopoState) : cachesInvalid (dupState s) = true := dup_caches_invalid s

/-- negative fact kept visible: the topology-level userdata pointer is not copied -/
theorem C12_topo_userdata_not_copied (s : TopoState) : (dupState s).topoUserdata = 0 := dup_topoUserdata s

/-- P0 (functional model only — says nothing about the C heap): for any interleaving `l` of modelled modifying calls
on the two copies, copy A ends as if only its own calls had been made, and so does copy B -/
theorem C12_dup_then_history_independent (s : TopoState) (l : List (Side × HOp)) :
    (runPair (s, dupState s) l).1 = run s (opsOf .A l) ∧ (runPair (s, dupState s) l).2 = run (dupState s) (opsOf .B l) :=
  ⟨runPair_fst l _, runPair_snd l _⟩

/-- the copy under a history is equivalent to the original under the same history -/
theorem C12_dup_commutes_history (s : TopoState) (h : List HOp) : TopoEquivD (run (dupState s) h) (run s h) :=
  dup_commutes_history s h

/-- combined: what copy B reports after any interleaving equals what the ORIGINAL would report after B's calls alone -/
theorem C12_copy_behaves_as_original (s : TopoState) (l : List (Side × HOp)) :
    TopoEquivD (runPair (s, dupState s) l).2 (run s (opsOf .B l)) := by
  rw [(C12_dup_then_history_independent s l).2]; exact dup_commutes_history s _

/-- equivalent states answer a modelled call with the same return value and stay equivalent -/
theorem C12_equiv_step (a b : TopoState) (h : TopoEquivD a b) (op : HOp) :
    TopoEquivD (stepS a op).1 (stepS b op).1 ∧ (stepS a op).2 = (stepS b op).2 := equiv_step h op

/-- P0 arena lemma: bump-allocated blocks are pairwise disjoint (any alignment A > 0, any request trace) -/
theorem C12_bump_disjoint (A : Nat) (hA : 0 < A) (sizes : List Nat) (cur : Nat) :
    (bump A cur sizes).Pairwise Block.Disjoint := bump_disjoint A hA sizes cur

/-- ... and inside the arena `[cur, cur + bumpTotal)`, one block per request, of the requested size -/
theorem C12_bump_inside (A : Nat) (hA : 0 < A) (sizes : List Nat) (cur : Nat) :
    (∀ b ∈ bump A cur sizes, b.inside cur (cur + bumpTotal A sizes)) ∧ (bump A cur sizes).map (·.size) = sizes :=
  ⟨bump_inside A hA sizes cur, bump_sizes A sizes cur⟩

theorem C12_bump_aligned (A : Nat) (sizes : List Nat) (cur : Nat) (h : cur % A = 0) :
    ∀ b ∈ bump A cur sizes, b.start % A = 0 := bump_aligned A sizes cur h

/-- an arena above the original's blocks is fresh -/
theorem C12_bump_fresh (A : Nat) (hA : 0 < A) (sizes : List Nat) (base : Nat) (old : List Block)
    (hold : ∀ o ∈ old, o.start + o.size ≤ base) : Fresh (bump A base sizes) old := bump_fresh A hA sizes base old hold

/-- provenance: the harness's checker predicate implies that no walked extent (except userdata / NULL) shares a byte with
any block of the original, provided the allocator handed out fresh blocks -/
theorem C12_provenance_disjoint (allocd old : List Block) (ptrs : List Ptr) (hok : provOK allocd ptrs = true)
    (hf : Fresh allocd old) (p : Ptr) (hp : p ∈ ptrs) (hnull : p.addr ≠ 0) (hud : p.field ≠ .objUserdata)
    (o : Block) (ho : o ∈ old) : ¬ Overlap p.addr p.size o.start o.size := prov_disjoint hok hf p hp hnull hud o ho

/-- ... and extents in different allocator blocks do not alias each other -/
theorem C12_provenance_distinct_blocks (a b : Block) (p q : Ptr) (hd : a.Disjoint b) (hp : a.contains p = true)
    (hq : b.contains q = true) : ¬ Overlap p.addr p.size q.addr q.size := prov_distinct_blocks hd hp hq


/-! ### the allocation discipline of the dup functions, over the table regenerated from the C source on every run
(tools/gen_dup.py -> Hw.Gen.DupAlloc; tie T).  These say nothing about values at run time: they state that, AS WRITTEN, the dup
functions never store a pointer obtained from the original into the copy (except `userdata`), never write into the original,
repair every pointer member that a structure-wide memcpy copied shallowly, and initialise every pointer member of a structure
they obtain from a plain malloc.  A new shallow pointer copy in a dup function makes one of them fail to type-check. -/
section Gen
open Hw.Gen.DupAlloc

def fromCopy (s : Src) : Bool := s == .tma || s == .null || s == .newRef
def ptrFieldsOf (st : String) : List String := ((ptrFields.find? (fun p => p.1 == st)).map (·.2)).getD []
/-- pointer members of `struct hwloc_obj` that hwloc__duplicate_object leaves to hwloc_alloc_setup_object (`attr`, zeroed rest)
and hwloc_insert_object_by_parent (the tree links) -/
def objSetElsewhere : List String := ["attr", "parent", "next_sibling", "first_child", "memory_first_child", "io_first_child", "misc_first_child"]

/-- every DATA POINTER stored by a dup function comes from the tma allocator, is NULL, or points into the copy;
the only exception is `obj->userdata`, copied verbatim by contract -/
theorem C12_gen_no_shallow_pointer_copy :
    assigns.all (fun a => !a.isPtr || fromCopy a.src || (a.struct == "hwloc_obj" && a.field == "userdata")) = true := by decide

/-- the dup functions only ever assign to members of the copy -/
theorem C12_gen_writes_only_into_copy : assigns.all (fun a => a.lhsNew) = true := by decide

/-- every pointer member copied shallowly by a structure-wide memcpy is re-assigned in the same function from the allocator /
NULL, or deep-copied by hwloc__tma_dup_infos -/
theorem C12_gen_memcpy_fixed_up :
    memcpys.all (fun m => m.2.2.2.all (fun p =>
      assigns.any (fun a => a.fn == m.1 && a.struct == m.2.2.1 && a.field == p && a.isPtr && (a.src == .tma || a.src == .null))
      || infosDupCalls.contains (m.1, m.2.2.1, p))) = true := by decide

/-- every pointer member of a structure obtained from a plain hwloc_tma_malloc is assigned in that function -/
theorem C12_gen_fresh_struct_initialised :
    freshStructs.all (fun f => (ptrFieldsOf f.2).all (fun p => assigns.any (fun a => a.fn == f.1 && a.struct == f.2 && a.field == p))) = true := by decide

/-- no pointer member of `struct hwloc_obj` is forgotten: each is assigned by hwloc__duplicate_object, deep-copied by
hwloc__tma_dup_infos, or belongs to the fixed list set by hwloc_alloc_setup_object / hwloc_insert_object_by_parent -/
theorem C12_gen_obj_pointer_members_covered :
    (ptrFieldsOf "hwloc_obj").all (fun p =>
      assigns.any (fun a => a.fn == "hwloc__duplicate_object" && a.struct == "hwloc_obj" && a.field == p)
      || infosDupCalls.contains ("hwloc__duplicate_object", "hwloc_obj", p) || objSetElsewhere.contains p) = true := by decide

/-- the three infos members (object, topology, cpukind) are deep-copied, and the deep copy itself takes its strings from the allocator -/
theorem C12_gen_infos_deep_copied :
    (infosDupCalls.contains ("hwloc__duplicate_object", "hwloc_obj", "infos.array") &&
     infosDupCalls.contains ("hwloc__topology_dup", "hwloc_topology", "infos.array") &&
     infosDupCalls.contains ("hwloc_internal_cpukinds_dup", "hwloc_internal_cpukind_s", "infos.array") &&
     (ptrFieldsOf "hwloc_info_s").all (fun p => assigns.any (fun a => a.fn == "hwloc__tma_dup_infos" && a.struct == "hwloc_info_s" && a.field == p && a.src == .tma))) = true := by decide

/-- non-vacuity: the tables are populated and the exception really is used exactly once -/
example : (assigns.filter (fun a => a.isPtr)).length ≥ 40 ∧ (memcpys.filter (fun m => !m.2.2.2.isEmpty)).length ≥ 5 ∧
    (assigns.filter (fun a => a.isPtr && a.src == .oldCopy)).length = 1 := by decide
end Gen

/-! ### non-vacuity -/

def exObj : Obj := { (default : Obj) with id := 0, type := tMACHINE, gp := 1, cpuset := some 3, infos := [("Backend", "Synthetic")] }
def exDump : Dump := { (default : Dump) with flags := 1, depth := 1, nobjs := 1, objs := [exObj], allowedCpuset := some 3 }
def exState : TopoState :=
  { dump := exDump, userdata := [65537], pageTypes := [(0, [(4096, 10)])], state := 2, pid := 0, udNotDecoded := 0,
    topoUserdata := 196609, support := [1, 1], grouping := [1, 0, 1], infos := [("a", "b")],
    dists := [{ id := 0, name := some "NUMALatency", kind := 5, iflags := 1, uniqueType := 14, nbobjs := 2, types := none,
                indexes := [0, 1], values := [10, 20, 20, 10], cached := 2 }],
    memattrs := [{ name := "Bandwidth", flags := 5, iflags := 3,
                   targets := [{ type := 14, gp := 7, value := 0, cached := true, inits := [.cpuset 3 100, .object 3 9 true 50] }] }],
    cpukinds := [{ cpuset := 3, inf := false, eff := 0, forced := -1, ranking := 0, infos := [("CoreType", "verif")] }] }

/-- the copy differs from the original as an internal state (caches), yet is equivalent -/
example : dupState exState ≠ exState ∧ TopoEquivD exState (dupState exState) := by decide
example : cachesInvalid exState = false ∧ cachesInvalid (dupState exState) = true := by decide
/-- a history that really changes something, on both sides -/
example : (runPair (exState, dupState exState) [(.A, .addInfo 0 (some "x") (some "y")), (.B, .setSubtype 0 (some "z"))]).1
            = run exState [.addInfo 0 (some "x") (some "y")] ∧
          ¬ TopoEquivD (runPair (exState, dupState exState) [(.A, .addInfo 0 (some "x") (some "y"))]).1 exState := by decide
/-- the equivalence distinguishes states -/
example : ¬ TopoEquivD exState { exState with userdata := [0] } := by decide
example : bump 8 1000 [5, 0, 16, 3] = [⟨1000, 5⟩, ⟨1008, 0⟩, ⟨1008, 16⟩, ⟨1024, 3⟩] := by decide
example : shmemLength 4096 24 [5, 0, 16, 3] = 4096 := by decide
example : provOK [⟨1000, 64⟩] [⟨.objName, 1008, 8⟩, ⟨.objUserdata, 5, 1⟩, ⟨.objParent, 0, 0⟩] = true ∧
          provOK [⟨1000, 64⟩] [⟨.objName, 1060, 8⟩] = false := by decide

end Hw.Props.C12
