/-
  Hw.Props.C10 — binding calls validate their arguments, hand only legal sets to the OS hooks, return ENOSYS
  exactly when no hook exists, and are harmless on topologies that are not this system.

  All theorems are about `Hw.Bind.callEntry`, the model of hwloc/bind.c over an ARBITRARY hook table
  (`env.present`), ARBITRARY hook behaviours (`env.run`) over an arbitrary world, and an arbitrary prior state.
  "Touching the OS" = invoking a hook = appending to the effect log.
-/
import Hw.Io.BindLemmas
import Hw.Io.BindLinux
namespace Hw.Props.C10
open Hw.Bind Hw.Gen.BindConsts

/-! ## 1. reject before the OS -/

/-- the caller's arguments are illegal for entry point `e`: an unknown flag bit, an invalid policy, an empty set,
or a set that is not included in the complete cpuset / nodeset (nodeset when BYNODESET) -/
def BadArgs (t : Topo) (e : Entry) (req : Req) : Prop :=
  (e.isCpuSet = true ∧ (unknownBits req.flags cpubindAllFlags = true ∨ req.set.isZero = true ∨
      req.set.inclIn t.completeCpuset = false)) ∨
  (e.isCpuGet = true ∧ unknownBits req.flags cpubindAllFlags = true) ∨
  (e.isMemSet = true ∧ (unknownBits req.flags membindAllFlags = true ∨ policyOk req.policy = false ∨
      req.set.isZero = true ∨
      req.set.inclIn (if req.byNodeset then t.completeNodeset else t.completeCpuset) = false)) ∨
  (e.isMemGet = true ∧ unknownBits req.flags membindAllFlags = true)

theorem class_memSet {e : Entry} (h : e.isMemSet = true) : e.isCpuSet = false ∧ e.isCpuGet = false := by
  cases e <;> simp [Entry.isMemSet, Entry.isCpuSet, Entry.isCpuGet] at h ⊢
theorem class_memGet {e : Entry} (h : e.isMemGet = true) :
    e.isCpuSet = false ∧ e.isCpuGet = false ∧ e.isMemSet = false := by
  cases e <;> simp [Entry.isMemGet, Entry.isMemSet, Entry.isCpuSet, Entry.isCpuGet] at h ⊢
theorem class_cpuGet {e : Entry} (h : e.isCpuGet = true) : e.isCpuSet = false := by
  cases e <;> simp [Entry.isCpuSet, Entry.isCpuGet] at h ⊢

theorem prologue_cpuSet_reject (t : Topo) (e : Entry) (req : Req) (he : e.isCpuSet = true)
    (h : unknownBits req.flags cpubindAllFlags = true ∨ req.set.isZero = true ∨ req.set.inclIn t.completeCpuset = false) :
    prologue t e req = .ret (failRet .einval) := by
  unfold prologue
  rw [if_pos he]
  cases hu : unknownBits req.flags cpubindAllFlags
  · have hn : fixCpubind t req.set = none := by
      rw [fixCpubind, fixSet_none_iff]
      rcases h with h | h | h
      · rw [hu] at h; cases h
      · exact Or.inl h
      · exact Or.inr h
    simp [hn]
  · simp

theorem prologue_cpuGet_reject (t : Topo) (e : Entry) (req : Req) (he : e.isCpuGet = true)
    (h : unknownBits req.flags cpubindAllFlags = true) : prologue t e req = .ret (failRet .einval) := by
  unfold prologue
  simp [class_cpuGet he, he, h]

theorem prologue_memGet_reject (t : Topo) (e : Entry) (req : Req) (he : e.isMemGet = true)
    (h : unknownBits req.flags membindAllFlags = true) : prologue t e req = .ret (failRet .einval) := by
  unfold prologue
  have ⟨h1, h2, h3⟩ := class_memGet he
  simp [h1, h2, h3, he, h]

/-- the memory set-calls: rejection, or (hwloc_alloc_membind only) the `fallback:` label with EINVAL -/
theorem prologue_memSet_reject (t : Topo) (e : Entry) (req : Req) (he : e.isMemSet = true)
    (hlen : e = .setAreaMembind → req.len ≠ 0)
    (h : unknownBits req.flags membindAllFlags = true ∨ policyOk req.policy = false ∨ req.set.isZero = true ∨
      req.set.inclIn (if req.byNodeset then t.completeNodeset else t.completeCpuset) = false) :
    prologue t e req = .ret (failRet .einval) ∨ (e = .allocMembind ∧ prologue t e req = .fallback .einval) := by
  unfold prologue
  have ⟨h1, h2⟩ := class_memSet he
  simp only [h1, h2, he, Bool.false_eq_true, if_false, if_true]
  have harea : (e = .setAreaMembind && req.len == 0) = false := by
    cases hd : decide (e = .setAreaMembind)
    · simp
    · simp at hd; have := hlen hd; simp [this]
  by_cases halloc : e = .allocMembind
  all_goals
    cases hb : req.byNodeset
    · -- by cpuset
      simp only [memPrologueSet, hb, Bool.false_eq_true, if_false]
      cases hf : fixMembindCpuset t req.set with
      | none => simp [halloc]
      | some ns =>
        simp only [Option.map_some]
        have hnn : ¬(req.set.isZero = true ∨ req.set.inclIn t.completeCpuset = false) := fun hh => by
          have := (fixMembindCpuset_none_iff t req.set).mpr hh
          rw [hf] at this; cases this
        simp only [hb, Bool.false_eq_true, if_false] at h
        rcases h with h | h | h | h
        · simp [h]
        · simp [h]
        · exact absurd (Or.inl h) hnn
        · exact absurd (Or.inr h) hnn
    · -- by nodeset
      simp only [memPrologueSet, hb, if_true]
      simp only [hb, if_true] at h
      cases hu : unknownBits req.flags membindAllFlags
      · cases hp : policyOk req.policy
        · simp
        · have hn : fixMembind t req.set = none := by
            rw [fixMembind, fixSet_none_iff]
            rcases h with h | h | h | h
            · rw [hu] at h; cases h
            · rw [hp] at h; cases h
            · exact Or.inl h
            · exact Or.inr h
          simp [harea, hn, halloc]
      · simp

theorem epilogue_einval (t : Topo) (e : Entry) (req : Req) :
    epilogue t e req (failRet .einval) = failRet .einval := epilogue_fail t e req .einval

/-- **P0 reject_before_os.**  Unknown flag bit, bad policy, empty set or set not included in the complete set
⇒ the call returns -1/EINVAL and NO hook is invoked: world and effect log are exactly what they were.
(`hwloc_alloc_membind` is the next theorem; a zero-length `hwloc_set_area_membind` is `C10_area_len0_quirk`.) -/
theorem C10_reject_before_os {σ} (env : Env σ) (t : Topo) (e : Entry) (req : Req) (s : St σ)
    (hbad : BadArgs t e req) (halloc : e ≠ .allocMembind) (hlen : e = .setAreaMembind → req.len ≠ 0) :
    callEntry env t e req s = (failRet .einval, s) := by
  have hp : prologue t e req = .ret (failRet .einval) := by
    rcases hbad with ⟨he, h⟩ | ⟨he, h⟩ | ⟨he, h⟩ | ⟨he, h⟩
    · exact prologue_cpuSet_reject t e req he h
    · exact prologue_cpuGet_reject t e req he h
    · rcases prologue_memSet_reject t e req he hlen h with h' | ⟨h', _⟩
      · exact h'
      · exact absurd h' halloc
    · exact prologue_memGet_reject t e req he h
  unfold callEntry
  rw [hp]
  simp

/-- **P0 reject_before_os (alloc, STRICT).**  `hwloc_alloc_membind` with illegal arguments and
HWLOC_MEMBIND_STRICT returns NULL with EINVAL and invokes no hook. -/
theorem C10_reject_before_os_alloc_strict {σ} (env : Env σ) (t : Topo) (req : Req) (s : St σ)
    (hbad : BadArgs t .allocMembind req) (hstrict : req.strict = true) :
    callEntry env t .allocMembind req s = (failRet .einval, s) := by
  have h : unknownBits req.flags membindAllFlags = true ∨ policyOk req.policy = false ∨ req.set.isZero = true ∨
      req.set.inclIn (if req.byNodeset then t.completeNodeset else t.completeCpuset) = false := by
    rcases hbad with ⟨he, _⟩ | ⟨he, _⟩ | ⟨_, h⟩ | ⟨he, _⟩
    · simp [Entry.isCpuSet] at he
    · simp [Entry.isCpuGet] at he
    · exact h
    · simp [Entry.isMemGet] at he
  unfold callEntry
  rcases prologue_memSet_reject t .allocMembind req rfl (by simp) h with hp | ⟨_, hp⟩
  · rw [hp]; simp
  · rw [hp]; simp [allocFallback, hstrict]

/-- **reject_before_os (alloc, not STRICT).**  Without STRICT an illegal request still never reaches a binding
hook: whatever is logged is a plain `alloc` (hwloc_alloc) invocation carrying no set. -/
theorem C10_reject_alloc_no_binding_hook {σ} (env : Env σ) (t : Topo) (req : Req) (s : St σ)
    (hbad : BadArgs t .allocMembind req) :
    ∃ l, (callEntry env t .allocMembind req s).2.log = s.log ++ l ∧ ∀ c ∈ l, c.hook = .alloc := by
  have h : unknownBits req.flags membindAllFlags = true ∨ policyOk req.policy = false ∨ req.set.isZero = true ∨
      req.set.inclIn (if req.byNodeset then t.completeNodeset else t.completeCpuset) = false := by
    rcases hbad with ⟨he, _⟩ | ⟨he, _⟩ | ⟨_, h⟩ | ⟨he, _⟩
    · simp [Entry.isCpuSet] at he
    · simp [Entry.isCpuGet] at he
    · exact h
    · simp [Entry.isMemGet] at he
  unfold callEntry
  rcases prologue_memSet_reject t .allocMembind req rfl (by simp) h with hp | ⟨_, hp⟩
  · rw [hp]; exact ⟨[], by simp, by simp⟩
  · rw [hp]
    obtain ⟨l, hl, hc⟩ := allocFallback_appended env req.strict .einval
      { flags := req.flags, pid := req.pid, len := req.len } s
    exact ⟨l, hl, fun c hcl => by simpa using (hc c hcl).2⟩

/-- The one place where an illegal set is NOT rejected: `hwloc_set_area_membind(..., len = 0, ..., BYNODESET)`
with known flags and a valid policy returns 0 for ANY set (also empty or out of range) — no hook is invoked.
(Without BYNODESET the cpuset conversion runs first and does reject.) -/
theorem C10_area_len0_quirk {σ} (env : Env σ) (t : Topo) (req : Req) (s : St σ)
    (hlen : req.len = 0) (hby : req.byNodeset = true)
    (hf : unknownBits req.flags membindAllFlags = false) (hp : policyOk req.policy = true) :
    callEntry env t .setAreaMembind req s = (okRet, s) := by
  unfold callEntry prologue
  simp [Entry.isCpuSet, Entry.isCpuGet, Entry.isMemSet, memPrologueSet, hby, hf, hp, hlen, epilogue, Entry.isMemGet]

/-! ## 2. the OS only gets legal sets -/

/-- the request covers the whole topology (cpuset, or nodeset when BYNODESET) -/
def ReqCoversMem (t : Topo) (req : Req) : Bool :=
  if req.byNodeset then req.set.covers t.topologyNodeset else req.set.covers t.topologyCpuset

/-- a logged invocation is legal: a cpuset (nodeset) handed to a binding hook is non-empty, included in the
complete cpuset (nodeset), and IS the complete set whenever the request covers the topology set -/
def Legal (t : Topo) (req : Req) (c : Call) : Prop :=
  (c.hook.takesCpuset = true → c.args.set ≠ 0 ∧ c.args.set &&& t.completeCpuset = c.args.set ∧
      (req.set.covers t.topologyCpuset = true → c.args.set = t.completeCpuset)) ∧
  (c.hook.takesNodeset = true → c.args.set ≠ 0 ∧ c.args.set &&& t.completeNodeset = c.args.set ∧
      (ReqCoversMem t req = true → c.args.set = t.completeNodeset))

theorem hooks_takesCpuset {e : Entry} {h : Hook} (hm : h ∈ e.hooks) (ht : h.takesCpuset = true) : e.isCpuSet = true := by
  cases e <;> simp only [Entry.hooks, List.mem_cons, List.mem_nil_iff, or_false] at hm <;>
    (try rcases hm with rfl | rfl | rfl) <;> (try rcases hm with rfl | rfl) <;> (try subst hm) <;>
    simp_all [Hook.takesCpuset, Entry.isCpuSet]

theorem hooks_takesNodeset {e : Entry} {h : Hook} (hm : h ∈ e.hooks) (ht : h.takesNodeset = true) : e.isMemSet = true := by
  cases e <;> simp only [Entry.hooks, List.mem_cons, List.mem_nil_iff, or_false] at hm <;>
    (try rcases hm with rfl | rfl | rfl) <;> (try rcases hm with rfl | rfl) <;> (try subst hm) <;>
    simp_all [Hook.takesNodeset, Entry.isMemSet]

theorem prologue_go_cpuSet {t : Topo} {e : Entry} {req : Req} {a : Args} (he : e.isCpuSet = true)
    (h : prologue t e req = .go a) :
    a.set ≠ 0 ∧ a.set &&& t.completeCpuset = a.set ∧ (req.set.covers t.topologyCpuset = true → a.set = t.completeCpuset) := by
  unfold prologue at h
  rw [if_pos he] at h
  cases hu : unknownBits req.flags cpubindAllFlags
  · simp only [hu, Bool.false_eq_true, if_false] at h
    cases hf : fixCpubind t req.set with
    | none => rw [hf] at h; cases h
    | some s =>
      rw [hf] at h
      simp only [Pro.go.injEq] at h
      subst h
      have ⟨_, _, h3, h4, h5, _⟩ := fixSet_some hf
      exact ⟨h3, h4, h5⟩
  · simp [hu] at h

theorem prologue_go_memSet {t : Topo} {e : Entry} {req : Req} {a : Args} (he : e.isMemSet = true)
    (h : prologue t e req = .go a) :
    a.set ≠ 0 ∧ a.set &&& t.completeNodeset = a.set ∧ (ReqCoversMem t req = true → a.set = t.completeNodeset) := by
  unfold prologue at h
  have ⟨h1, h2⟩ := class_memSet he
  simp only [h1, h2, he, Bool.false_eq_true, if_false, if_true] at h
  cases hm : memPrologueSet t req with
  | none => rw [hm] at h; simp only at h; split at h <;> cases h
  | some ns =>
    rw [hm] at h
    simp only at h
    split at h
    · cases h
    · split at h
      · cases h
      · cases hf : fixMembind t ns with
        | none => rw [hf] at h; simp only at h; split at h <;> cases h
        | some s =>
          rw [hf] at h
          simp only at h
          split at h
          · cases h
          · simp only [Pro.go.injEq] at h
            subst h
            have ⟨_, _, h3, h4, h5, _⟩ := fixSet_some hf
            refine ⟨h3, h4, ?_⟩
            intro hc
            unfold ReqCoversMem at hc
            unfold memPrologueSet at hm
            cases hb : req.byNodeset
            · simp only [hb, Bool.false_eq_true, if_false] at hm hc
              cases hfc : fixMembindCpuset t req.set with
              | none => rw [hfc] at hm; cases hm
              | some ns' =>
                rw [hfc] at hm
                simp only [Option.map_some, Option.some.injEq] at hm
                subst hm
                have := fixMembindCpuset_covers hfc hc
                subst this
                exact fixSet_fin_complete hf
            · simp only [hb, if_true, Option.some.injEq] at hm hc
              subst hm
              exact h5 hc

theorem prologue_go_other {t : Topo} {e : Entry} {req : Req} {a : Args}
    (h1 : e.isCpuSet = false) (h2 : e.isMemSet = false) (h : prologue t e req = .go a) : a.set = 0 := by
  unfold prologue at h
  simp only [h1, h2, Bool.false_eq_true, if_false] at h
  repeat' split at h
  all_goals (cases h <;> rfl)

/-- **P0 os_gets_legal_set.**  For every entry point, every request, every hook table and behaviour: each
invocation the call appends to the effect log is legal — the set handed to a binding hook is non-empty, included
in the complete set, and is the complete set whenever the request covers the topology set. -/
theorem C10_os_gets_legal_set {σ} (env : Env σ) (t : Topo) (e : Entry) (req : Req) (s : St σ) :
    ∃ l, (callEntry env t e req s).2.log = s.log ++ l ∧ ∀ c ∈ l, Legal t req c := by
  unfold callEntry
  cases hp : prologue t e req with
  | ret r => exact ⟨[], by simp, by simp⟩
  | fallback err =>
    obtain ⟨l, hl, hc⟩ := allocFallback_appended env req.strict err
      { flags := req.flags, pid := req.pid, len := req.len } s
    refine ⟨l, hl, fun c hcl => ?_⟩
    have : c.hook = .alloc := by simpa using (hc c hcl).2
    simp [Legal, this, Hook.takesCpuset, Hook.takesNodeset]
  | go a =>
    obtain ⟨l, hl, hc⟩ := dispatch_appended env e a s
    refine ⟨l, hl, fun c hcl => ?_⟩
    obtain ⟨ha, hh⟩ := hc c hcl
    constructor
    · intro ht
      rw [ha]
      exact prologue_go_cpuSet (hooks_takesCpuset hh ht) hp
    · intro ht
      rw [ha]
      exact prologue_go_memSet (hooks_takesNodeset hh ht) hp

/-- set-level reading of the fixed set: its members are those of the complete set when the request covers the
topology set, and those of the request otherwise; and it exists iff the request is non-empty and included -/
theorem C10_fix_semantics (c tp : Nat) (a : ASet) :
    (fixSet c tp a = none ↔ ((∀ i, a.mem i = false) ∨ ∃ i, a.mem i = true ∧ c.testBit i = false)) ∧
    (∀ s, fixSet c tp a = some s → ∀ i, s.testBit i = if a.covers tp then c.testBit i else a.mem i) ∧
    (a.covers tp = true ↔ ∀ i, tp.testBit i = true → a.mem i = true) := by
  refine ⟨?_, fun s h i => fixSet_mem h i, ASet.covers_iff a tp⟩
  rw [fixSet_none_iff, ASet.isZero_iff]
  constructor
  · rintro (h | h)
    · exact Or.inl h
    · right
      have : ¬ ∀ i, a.mem i = true → c.testBit i = true := fun hall => by
        have := (ASet.inclIn_iff a c).mpr hall
        rw [h] at this; cases this
      simp only [Classical.not_forall] at this
      obtain ⟨i, hi, hc⟩ := this
      exact ⟨i, hi, by simpa using hc⟩
  · rintro (h | ⟨i, hi, hc⟩)
    · exact Or.inl h
    · right
      cases hin : a.inclIn c
      · rfl
      · have := (ASet.inclIn_iff a c).mp hin i hi
        rw [hc] at this; cases this

/-! ## 3. ENOSYS iff no hook -/

/-- the entry points that end in a single hook or in the PROCESS/THREAD/fall-back chain -/
def NoHook {σ} (env : Env σ) (e : Entry) (flags : Nat) : Prop :=
  match e with
  | .setCpubind => noHook3 env cpubindProcess cpubindThread .setThisprocCpubind .setThisthreadCpubind flags
  | .getCpubind => noHook3 env cpubindProcess cpubindThread .getThisprocCpubind .getThisthreadCpubind flags
  | .getLastCpuLocation => noHook3 env cpubindProcess cpubindThread .getThisprocLastCpu .getThisthreadLastCpu flags
  | .setMembind => noHook3 env membindProcess membindThread .setThisprocMembind .setThisthreadMembind flags
  | .getMembind => noHook3 env membindProcess membindThread .getThisprocMembind .getThisthreadMembind flags
  | .setProcCpubind => env.present .setProcCpubind = false
  | .getProcCpubind => env.present .getProcCpubind = false
  | .setThreadCpubind => env.present .setThreadCpubind = false
  | .getThreadCpubind => env.present .getThreadCpubind = false
  | .getProcLastCpuLocation => env.present .getProcLastCpu = false
  | .setProcMembind => env.present .setProcMembind = false
  | .getProcMembind => env.present .getProcMembind = false
  | .setAreaMembind => env.present .setAreaMembind = false
  | .getAreaMembind => env.present .getAreaMembind = false
  | .getAreaMemlocation => env.present .getAreaMemlocation = false
  | .alloc | .free | .allocMembind => False          -- these fall back to the heap instead

theorem prologue_go_flags {t : Topo} {e : Entry} {req : Req} {a : Args} (h : prologue t e req = .go a) :
    a.flags = req.flags := by
  unfold prologue at h
  repeat' split at h
  all_goals (cases h <;> rfl)

/-- **P0 enosys_iff_no_hook.**  For arguments that pass validation: the call leaves the effect log untouched iff no
applicable hook exists (PROCESS → the process hook, THREAD → the thread hook, neither → both), and in that case
it returns -1/ENOSYS. -/
theorem C10_enosys_iff_no_hook {σ} (env : Env σ) (t : Topo) (e : Entry) (req : Req) (a : Args) (s : St σ)
    (hp : prologue t e req = .go a) (he : e ≠ .alloc ∧ e ≠ .free ∧ e ≠ .allocMembind) :
    ((callEntry env t e req s).2.log = s.log ↔ NoHook env e req.flags) ∧
    (NoHook env e req.flags → callEntry env t e req s = (failRet .enosys, s)) := by
  have hf := prologue_go_flags hp
  unfold callEntry
  rw [hp]
  simp only
  rw [← hf]
  obtain ⟨h1, h2, h3⟩ := he
  cases e <;> simp only [dispatch, NoHook] <;> (try contradiction)
  all_goals first
    | exact ⟨dispatch3_log_eq_iff _ _ _ _ _ _ _, fun h => by rw [dispatch3_absent _ _ _ _ _ _ _ h]; simp⟩
    | exact ⟨dispatch1_log_eq_iff _ _ _ _, fun h => by rw [dispatch1_absent _ _ _ _ h]; simp⟩

/-- `hwloc_alloc_membind` without alloc_membind and set_area_membind hooks: ENOSYS under STRICT (no hook invoked),
a plain allocation otherwise. -/
theorem C10_enosys_alloc_membind {σ} (env : Env σ) (t : Topo) (req : Req) (a : Args) (s : St σ)
    (hp : prologue t .allocMembind req = .go a)
    (h1 : env.present .allocMembind = false) (h2 : env.present .setAreaMembind = false) :
    callEntry env t .allocMembind req s =
      if req.strict then (failRet .enosys, s) else allocPlain env a s := by
  have hf := prologue_go_flags hp
  unfold callEntry
  rw [hp]
  have hne : ∀ r : Ret, epilogue t .allocMembind req r = r := fun r => epilogue_not_memget _ _ _ _ rfl
  simp only [dispatch, h1, h2, Bool.false_eq_true, if_false, allocFallback, hne]
  by_cases hst : a.flags &&& membindStrict ≠ 0
  · have hs : req.strict = true := by simp only [Req.strict, ← hf]; simpa using hst
    simp [hst, hs]
  · have hs : req.strict = false := by simp only [Req.strict, ← hf]; simpa using hst
    simp [hst, hs]

/-- the fall-through rule of the chain: with neither PROCESS nor THREAD, a present process hook that fails with
ENOSYS hands over to the thread hook (or to -1/ENOSYS when that is missing), on the state the process hook left -/
theorem C10_enosys_fallthrough {σ} (env : Env σ) (pb tb : Nat) (hpk htk : Hook) (a : Args) (s : St σ)
    (h1 : a.flags &&& pb = 0) (h2 : a.flags &&& tb = 0) (hpres : env.present hpk = true)
    (hr : (env.run hpk a s.world).1.rc < 0 ∧ (env.run hpk a s.world).1.err = .enosys) :
    dispatch3 env pb tb hpk htk a s = dispatch1 env htk a (invoke env hpk a s).2 := by
  unfold dispatch3
  have hr' : ¬((invoke env hpk a s).1.rc ≥ 0 ∨ (invoke env hpk a s).1.err ≠ .enosys) := by
    simp only [invoke]
    intro h
    rcases h with h | h
    · omega
    · exact h hr.2
  simp [h1, h2, hpres, hr']

/-- … and any other answer of the process hook (success, or a failure other than ENOSYS) is final: the thread hook
is not consulted -/
theorem C10_no_fallthrough_otherwise {σ} (env : Env σ) (pb tb : Nat) (hpk htk : Hook) (a : Args) (s : St σ)
    (h1 : a.flags &&& pb = 0) (h2 : a.flags &&& tb = 0) (hpres : env.present hpk = true)
    (hr : (env.run hpk a s.world).1.rc ≥ 0 ∨ (env.run hpk a s.world).1.err ≠ .enosys) :
    dispatch3 env pb tb hpk htk a s = invoke env hpk a s := by
  unfold dispatch3
  have hr' : (invoke env hpk a s).1.rc ≥ 0 ∨ (invoke env hpk a s).1.err ≠ .enosys := hr
  simp [h1, h2, hpres, hr']

/-! ## 4. dummy hooks (topology is not this system) -/

/-- a hook table whose behaviours never change the world -/
def Inert {σ} (env : Env σ) : Prop := ∀ h a w, (env.run h a w).2 = w

theorem invoke_world {σ} {env : Env σ} (hi : Inert env) (h : Hook) (a : Args) (s : St σ) :
    (invoke env h a s).2.world = s.world := hi h a s.world

theorem dispatch1_world {σ} {env : Env σ} (hi : Inert env) (h : Hook) (a : Args) (s : St σ) :
    (dispatch1 env h a s).2.world = s.world := by
  unfold dispatch1; split
  · exact invoke_world hi h a s
  · rfl

theorem dispatch3_world {σ} {env : Env σ} (hi : Inert env) (pb tb : Nat) (hp ht : Hook) (a : Args) (s : St σ) :
    (dispatch3 env pb tb hp ht a s).2.world = s.world := by
  unfold dispatch3
  split
  · exact dispatch1_world hi hp a s
  · split
    · exact dispatch1_world hi ht a s
    · split
      · simp only
        split
        · exact invoke_world hi hp a s
        · rw [dispatch1_world hi ht a _]; exact invoke_world hi hp a s
      · exact dispatch1_world hi ht a s

theorem allocPlain_world {σ} {env : Env σ} (hi : Inert env) (a : Args) (s : St σ) :
    (allocPlain env a s).2.world = s.world := by
  unfold allocPlain; split
  · exact invoke_world hi _ a s
  · rfl

theorem allocFallback_world {σ} {env : Env σ} (hi : Inert env) (st : Bool) (err : Errno) (a : Args) (s : St σ) :
    (allocFallback env st err a s).2.world = s.world := by
  unfold allocFallback; split
  · rfl
  · exact allocPlain_world hi a s

theorem dispatch_world {σ} {env : Env σ} (hi : Inert env) (e : Entry) (a : Args) (s : St σ) :
    (dispatch env e a s).2.world = s.world := by
  cases e <;> simp only [dispatch]
  case setCpubind => exact dispatch3_world hi _ _ _ _ _ _
  case getCpubind => exact dispatch3_world hi _ _ _ _ _ _
  case getLastCpuLocation => exact dispatch3_world hi _ _ _ _ _ _
  case setMembind => exact dispatch3_world hi _ _ _ _ _ _
  case getMembind => exact dispatch3_world hi _ _ _ _ _ _
  case setProcCpubind => exact dispatch1_world hi _ _ _
  case getProcCpubind => exact dispatch1_world hi _ _ _
  case setThreadCpubind => exact dispatch1_world hi _ _ _
  case getThreadCpubind => exact dispatch1_world hi _ _ _
  case getProcLastCpuLocation => exact dispatch1_world hi _ _ _
  case setProcMembind => exact dispatch1_world hi _ _ _
  case getProcMembind => exact dispatch1_world hi _ _ _
  case setAreaMembind => exact dispatch1_world hi _ _ _
  case getAreaMembind => exact dispatch1_world hi _ _ _
  case getAreaMemlocation => exact dispatch1_world hi _ _ _
  case alloc => exact allocPlain_world hi _ _
  case free =>
    split
    · exact invoke_world hi _ _ _
    · rfl
  case allocMembind =>
    split
    · exact invoke_world hi _ _ _
    · split
      · split
        · exact allocPlain_world hi _ _
        · split
          · simp only; rw [invoke_world hi]; exact allocPlain_world hi _ _
          · simp only; rw [invoke_world hi]; exact allocPlain_world hi _ _
      · exact allocFallback_world hi _ _ _ _

theorem dummy_inert (σ : Type) (t : Topo) : Inert (dummyEnv σ t) := fun _ _ _ => rfl

/-- **P0 dummy_semantics (no effect).**  With the dummy table no call — whatever its arguments — changes the world. -/
theorem C10_dummy_no_effect {σ} (t : Topo) (e : Entry) (req : Req) (s : St σ) :
    (callEntry (dummyEnv σ t) t e req s).2.world = s.world := by
  unfold callEntry
  cases prologue t e req with
  | ret r => rfl
  | fallback err => exact allocFallback_world (dummy_inert σ t) _ _ _ _
  | go a => exact dispatch_world (dummy_inert σ t) e a s

theorem dummy_dispatch1 {σ} (t : Topo) (h : Hook) (a : Args) (s : St σ) (hh : h ≠ .alloc) :
    (dispatch1 (dummyEnv σ t) h a s).1 = dummyRet t h := by
  unfold dispatch1
  have : (dummyEnv σ t).present h = true := by cases h <;> simp_all [dummyEnv, dummyPresent]
  rw [if_pos this]
  rfl

theorem dummyRet_rc (t : Topo) (h : Hook) : (dummyRet t h).rc = 0 := by cases h <;> rfl

theorem dummy_dispatch3 {σ} (t : Topo) (pb tb : Nat) (hp ht : Hook) (a : Args) (s : St σ)
    (h1 : hp ≠ .alloc) (h2 : ht ≠ .alloc) (heq : dummyRet t ht = dummyRet t hp) :
    (dispatch3 (dummyEnv σ t) pb tb hp ht a s).1 = dummyRet t hp := by
  unfold dispatch3
  have hpp : (dummyEnv σ t).present hp = true := by cases hp <;> simp_all [dummyEnv, dummyPresent]
  split
  · exact dummy_dispatch1 t hp a s h1
  · split
    · rw [dummy_dispatch1 t ht a s h2, heq]
    · simp only [hpp]
      have : (invoke (dummyEnv σ t) hp a s).1 = dummyRet t hp := rfl
      simp [this, dummyRet_rc]

/-- what every entry point returns under the dummy table once its arguments pass validation -/
def dummyAnswer (t : Topo) : Entry → Ret
  | .getCpubind | .getProcCpubind | .getThreadCpubind | .getLastCpuLocation | .getProcLastCpuLocation =>
      { rc := 0, set := t.completeCpuset }
  | .getMembind | .getProcMembind | .getAreaMembind => { rc := 0, set := t.completeNodeset, policy := membindMixed }
  | .getAreaMemlocation => { rc := 0, set := t.completeNodeset }
  | _ => okRet

/-- **P0 dummy_semantics (results).**  With the dummy table every call whose arguments pass validation succeeds:
set-calls, alloc and free return 0 / a pointer; cpubind and last-location get-calls return the complete cpuset;
membind get-calls return the complete nodeset (converted to the cpuset of its NUMA nodes when not BYNODESET) with
policy HWLOC_MEMBIND_MIXED. -/
theorem C10_dummy_semantics {σ} (t : Topo) (e : Entry) (req : Req) (a : Args) (s : St σ)
    (hp : prologue t e req = .go a) :
    (callEntry (dummyEnv σ t) t e req s).1 = epilogue t e req (dummyAnswer t e) := by
  unfold callEntry
  rw [hp]
  simp only
  congr 1
  cases e <;> simp only [dispatch, dummyAnswer]
  case setCpubind => exact dummy_dispatch3 t _ _ _ _ a s (by simp) (by simp) rfl
  case getCpubind => exact dummy_dispatch3 t _ _ _ _ a s (by simp) (by simp) rfl
  case getLastCpuLocation => exact dummy_dispatch3 t _ _ _ _ a s (by simp) (by simp) rfl
  case setMembind => exact dummy_dispatch3 t _ _ _ _ a s (by simp) (by simp) rfl
  case getMembind => exact dummy_dispatch3 t _ _ _ _ a s (by simp) (by simp) rfl
  case setProcCpubind => exact dummy_dispatch1 t _ a s (by simp)
  case getProcCpubind => exact dummy_dispatch1 t _ a s (by simp)
  case setThreadCpubind => exact dummy_dispatch1 t _ a s (by simp)
  case getThreadCpubind => exact dummy_dispatch1 t _ a s (by simp)
  case getProcLastCpuLocation => exact dummy_dispatch1 t _ a s (by simp)
  case setProcMembind => exact dummy_dispatch1 t _ a s (by simp)
  case getProcMembind => exact dummy_dispatch1 t _ a s (by simp)
  case setAreaMembind => exact dummy_dispatch1 t _ a s (by simp)
  case getAreaMembind => exact dummy_dispatch1 t _ a s (by simp)
  case getAreaMemlocation => exact dummy_dispatch1 t _ a s (by simp)
  case alloc => simp [allocPlain, dummyEnv, dummyPresent]
  case free => simp [dummyEnv, dummyPresent, invoke, dummyRet]
  case allocMembind => simp [dummyEnv, dummyPresent, invoke, dummyRet]

/-- **P0 dummy_semantics (support bits, table selection).**  hwloc_set_binding_hooks on a topology that is not this
system installs the dummy table and sets no support bit; on this system it installs the native table and sets
exactly the bits of the hooks that exist (alloc / free_membind have no bit). -/
theorem C10_binding_hooks_support (native : Hook → Bool) :
    (setBindingHooks false native).1 = dummyPresent ∧ (∀ h, (setBindingHooks false native).2 h = false) ∧
    (setBindingHooks true native).1 = native ∧
    (∀ h, (setBindingHooks true native).2 h = true ↔ (h.hasSupportBit = true ∧ native h = true)) := by
  refine ⟨rfl, fun _ => rfl, rfl, fun h => ?_⟩
  simp [setBindingHooks]

/-- which topologies get the dummy table: XML / synthetic (a backend that is not this system) without
HWLOC_TOPOLOGY_FLAG_IS_THISSYSTEM and without environment override is NOT this system; the flag makes it this
system; a native load is this system; HWLOC_THISSYSTEM overrides everything. -/
theorem C10_is_thissystem :
    isThisSystem true false false none = false ∧ (∀ nf, isThisSystem nf true false none = true) ∧
    isThisSystem false false false none = true ∧ (∀ fl, isThisSystem false fl true none = false) ∧
    (∀ nf fl ef x, isThisSystem nf fl ef (some x) = (x != 0)) := by
  refine ⟨rfl, fun nf => by cases nf <;> rfl, rfl, fun fl => by cases fl <;> rfl, fun _ _ _ _ => rfl⟩

/-! ## 5. the Linux hook hands the kernel the set it was given (P1) -/

/-- hwloc_linux_set_tid_cpubind issues exactly one sched_setaffinity whose mask is the set it was handed -/
theorem C10_linux_setaffinity_mask (tid set : Nat) (w : Linux.World) (h : set ≠ 0) :
    (Linux.setTid tid set w).2.slog = w.slog ++ [Linux.Sys.sa tid set] :=
  Linux.setTid_logs_exactly tid set w h

/-! ## non-vacuity -/

/-- a 2-node machine, CPUs 0-7 of which 6-7 are disallowed; node 1 is disallowed -/
def exTopo : Topo :=
  { completeCpuset := 0xff, topologyCpuset := 0x3f, completeNodeset := 3, topologyNodeset := 1,
    nodes := [(0, 0x0f), (1, 0x30)] }

/-- a table with only the thread hooks, whose set hook fails with EPERM -/
def exEnv : Env Nat :=
  { present := fun h => h == .setThisthreadCpubind || h == .setThisthreadMembind,
    run := fun _ _ w => (failRet .eperm, w + 1) }

-- BadArgs is satisfiable and the rejection is observable
example : BadArgs exTopo .setCpubind { set := ⟨0x100, false⟩ } := by
  left; exact ⟨rfl, Or.inr (Or.inr (by decide))⟩
example : callEntry exEnv exTopo .setCpubind { set := ⟨0x100, false⟩ } ⟨0, []⟩ = (failRet .einval, ⟨0, []⟩) := by decide
example : (callEntry exEnv exTopo .setMembind { set := ⟨0, true⟩, policy := 2 } ⟨0, []⟩).1 = failRet .einval := by decide
-- a legal request reaches the hook with the legal set; a covering request is replaced by the complete set
example : (callEntry exEnv exTopo .setCpubind { set := ⟨0x5, false⟩ } ⟨0, []⟩).2.log =
    [⟨.setThisthreadCpubind, { set := 0x5 }⟩] := by decide
example : (callEntry exEnv exTopo .setCpubind { set := ⟨0x7f, false⟩ } ⟨0, []⟩).2.log =
    [⟨.setThisthreadCpubind, { set := 0xff }⟩] := by decide
-- cpuset → nodeset conversion: CPUs 4-5 are local to node 1
example : (callEntry exEnv exTopo .setMembind { set := ⟨0x30, false⟩, policy := 2 } ⟨0, []⟩).2.log =
    [⟨.setThisthreadMembind, { set := 2, policy := 2, len := 1 }⟩] := by decide
-- ENOSYS without a hook, and the hook's own failure otherwise
example : callEntry exEnv exTopo .setCpubind { set := ⟨1, false⟩, flags := 1 } ⟨0, []⟩ = (failRet .enosys, ⟨0, []⟩) := by decide
example : (callEntry exEnv exTopo .setCpubind { set := ⟨1, false⟩, flags := 2 } ⟨0, []⟩).1 = failRet .eperm := by decide
-- dummy table: get_membind by cpuset reports the CPUs of all nodes of the complete nodeset, policy MIXED
example : (callEntry (dummyEnv Nat exTopo) exTopo .getMembind {} ⟨0, []⟩).1 = { rc := 0, set := 0x3f, policy := -1 } := by decide
example : (callEntry (dummyEnv Nat exTopo) exTopo .getCpubind {} ⟨0, []⟩).1 = { rc := 0, set := 0xff } := by decide

end Hw.Props.C10
