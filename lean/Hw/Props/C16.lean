/- C16 — Topology diffs: build/apply/reverse are inverse, failures roll back.
   Property theorems over the model of hwloc/diff.c (Hw.Attr.Diff); lemmas are in Hw.Attr.DiffLemmas, DiffSlots
   (slots, independence, well-formedness hypotheses), DiffCommute (independent entries commute) and DiffBuildApply
   (apply ∘ build over whole trees).

   Reading of the English property over the model:
   * `TopoSame A B`  = nothing that diff_build compares differs;
   * `TopoRepr A B`  = A and B differ at most in names, NUMA local memory and info *values*;
   * `KeysInj`, `InfoNamesDistinct` = the hypotheses under which addressing by (depth, index) and by
     info name is meaningful (C01 well-formedness; no duplicate info names).
   * `KeysNodup`, `DepthsBelowNbl` = the rest of C01 the whole-tree statements need: no two objects of the tree share a
     key, and no object has depth `nb_levels` (the key of the topology infos);
   * `DistinctSlots nbl d` = the entries of `d` address pairwise distinct attributes (kind, info name, object);
   * `SameSkeleton A B`, `MemConsistent T` = what the `total_memory` part of the observation needs: A and B agree object
     by object on key / ancestor chain / NUMA-ness (functions of shape and type in hwloc, data in the model), and
     total_memory is the uint64 sum of the local memories at or below an object.
   The model follows diff.c after the fixes 986f5b5 (name on one side only => TOO_COMPLEX), ad7dbbc (cancel path
   undoes last applied first) and 50d1249 (distances with per-object types compared field by field).
   The XML round trip ("the diff survives diff export/load as XML with the same refname") is proved over the model of the diff
   part of topology-xml.c (Hw.Io.XmlDiff: hwloc__xml_export_diff, hwloc__xml_import_diff_one, hwloc__xml_import_diff and
   their nolibxml / libxml callers at the token level, the nolibxml text layout and attribute scanner at the byte level):
   section "diff XML export / load" at the end of this file.
   REVERSE application in list order is proved for `DistinctSlots` lists (C16_reverse_apply; false without the
   restriction: C16_reverse_apply_chain_witness) and every built diff is one (C16_build_distinct_slots);
   apply ∘ build is proved over whole trees (C16_apply_build). -/
import Hw.Attr.DiffLemmas
import Hw.Attr.DiffCommute
import Hw.Attr.DiffBuildApply
import Hw.Io.XmlDiffLemmas
import Hw.Attr.DiffXmlLink
import Hw.Io.XmlDiffPerm
namespace Hw.Props.C16
open Hw.Diff
variable {σ : Type} [DecidableEq σ]

/-! ## diff_build -/

/-- diff_build (flags 0, loaded topologies) returns 0 or 1 -/
theorem C16_build_ret (A B : Topo σ) : (build A B).1 = 0 ∨ (build A B).1 = 1 := build_ret A B

/-- P0 build_too_complex_iff: 1 is returned exactly when the pair differs in something a diff cannot express
    (`TopoRepr`: same structure, depth, type/sets, attribute bytes, info *names*, names set on both sides or on
    neither, equal allowed sets / distances / memattrs / cpukinds). -/
theorem C16_build_too_complex_iff (A B : Topo σ) : (build A B).1 = 1 ↔ ¬ TopoRepr A B := by
  rw [← build_ret0_iff]
  rcases build_ret A B with h | h <;> simp [h]

/-- ... and 1 is returned exactly when the list holds a TOO_COMPLEX entry -/
theorem C16_build_tc_entry_iff (A B : Topo σ) : (build A B).2.any Entry.isTC = true ↔ (build A B).1 = 1 := by
  rw [build_tc]; simp

/-- P0 build_empty_iff_equal: 0 with a NULL diff iff nothing a diff compares differs -/
theorem C16_build_empty_iff_equal (A B : Topo σ) : build A B = (0, []) ↔ TopoSame A B := build_empty_iff A B

/-- (F13a fixed) build never queues a NAME entry with a NULL string: everything it returns can be handed to
    apply and to the XML export -/
theorem C16_build_no_null_string (A B : Topo σ) : ∀ e ∈ (build A B).2, e.NoNull := build_noNull A B

/-! ## diff_apply -/

/-- every entry applies: the return value is 0 and the topology is the result of the sequential application -/
theorem C16_apply_ok {rev : Bool} {T T' : Topo σ} {d : List (Entry σ)} (h : applyAll rev T d = some T') :
    apply rev T d = (0, T') := apply_ok h

/-- the N-th entry is the first that cannot be applied: the return value is -N (N = |p| + 1) and the
    topology is what the cancel loop makes of the state reached after the prefix `p` -/
theorem C16_apply_fail_index {rev : Bool} {T T1 : Topo σ} {p r : List (Entry σ)} {e : Entry σ}
    (hp : applyAll rev T p = some T1) (he : applyOne rev T1 e = none) :
    apply rev T (p ++ e :: r) = (- ((p.length : Int) + 1), cancel rev T1 p) := apply_fail hp he

/-- there is no third case: the call either applies every entry or stops at a first failing one -/
theorem C16_apply_cases (rev : Bool) (d : List (Entry σ)) (T : Topo σ) :
    (∃ T', applyAll rev T d = some T') ∨
    (∃ p e r T1, d = p ++ e :: r ∧ applyAll rev T p = some T1 ∧ applyOne rev T1 e = none) :=
  applyAll_cases rev d T

/-- one applied entry is undone by the same entry with the REVERSE flag flipped -/
theorem C16_entry_inverse {T T' : Topo σ} {rev : Bool} {e : Entry σ} (hk : KeysInj T) (hn : InfoNamesDistinct T)
    (h : applyOne rev T e = some T') : applyOne (!rev) T' e = some T := applyOne_inv hk hn h

/-- undoing an applied list **in reverse order** restores the topology, whatever the list
    (this is what the cancel loop would achieve with the fix suggested for F13b) -/
theorem C16_reverse_order_undo {rev : Bool} {p : List (Entry σ)} {T T1 : Topo σ} (hk : KeysInj T)
    (hn : InfoNamesDistinct T) (h : applyAll rev T p = some T1) : applyAll (!rev) T1 p.reverse = some T :=
  applyAll_reverse_inv hk hn h

/-- P0 apply_rollback (F13b fixed), full strength: for EVERY list, if entry N = |p|+1 is the first that cannot be
    applied, the result is -N and the topology is exactly the input.  Hypotheses: `KeysInj` (C01: a key names one
    object — needed because the model addresses by key) and `InfoNamesDistinct`.  The latter cannot be dropped:
    an INFO entry that just applied is NOT always undone by its swap when names repeat
    (C16_rollback_needs_distinct_names_witness, the F13c class). -/
theorem C16_apply_rollback {rev : Bool} {T T1 : Topo σ} {p r : List (Entry σ)} {e : Entry σ}
    (hk : KeysInj T) (hn : InfoNamesDistinct T)
    (hp : applyAll rev T p = some T1) (he : applyOne rev T1 e = none) :
    apply rev T (p ++ e :: r) = (- ((p.length : Int) + 1), T) := by
  rw [apply_fail hp he, cancel_applyAll hk hn hp]

/-- the same without naming the failing entry: a non-zero result is -N with 1 ≤ N ≤ |d| and nothing changed -/
theorem C16_apply_rollback_state {rev : Bool} {T : Topo σ} {d : List (Entry σ)} (hk : KeysInj T)
    (hn : InfoNamesDistinct T) (hr : (apply rev T d).1 ≠ 0) :
    (apply rev T d).2 = T ∧ ∃ N : Nat, 1 ≤ N ∧ N ≤ d.length ∧ (apply rev T d).1 = - (N : Int) := by
  rcases applyAll_cases rev d T with ⟨T', h⟩ | ⟨p, e, r, T1, hd, hp, he⟩
  · rw [apply_ok h] at hr; exact absurd rfl hr
  · subst hd
    rw [C16_apply_rollback hk hn hp he]
    refine ⟨rfl, p.length + 1, by omega, by simp, by simp⟩

/-- P0 reverse_apply, full strength for the reversed list: a successfully applied list is undone by applying
    the reversed list with the REVERSE flag flipped -/
theorem C16_reverse_apply_reversed_list {rev : Bool} {T T' : Topo σ} {d : List (Entry σ)} (hk : KeysInj T)
    (hn : InfoNamesDistinct T) (h : applyAll rev T d = some T') : apply (!rev) T' d.reverse = (0, T) :=
  apply_ok (applyAll_reverse_inv hk hn h)

/-- two independent entries commute as Option-valued steps, whatever the two flags: both orders fail together or
    reach the same topology -/
theorem C16_entries_commute {r1 r2 : Bool} {T : Topo σ} {e1 e2 : Entry σ} (hi : Indep T.nbl e1 e2) :
    (applyOne r1 T e1).bind (fun T1 => applyOne r2 T1 e2) = (applyOne r2 T e2).bind (fun T1 => applyOne r1 T1 e1) :=
  applyOne_comm hi

/-- P0 reverse_apply in list order (what hwloc_topology_diff_apply does with the flag), full strength: a
    successfully applied list whose entries address pairwise distinct attributes is undone by THE SAME list with the
    REVERSE flag flipped.  False without `DistinctSlots`: C16_reverse_apply_chain_witness. -/
theorem C16_reverse_apply {rev : Bool} {T T' : Topo σ} {d : List (Entry σ)} (hk : KeysInj T) (hn : InfoNamesDistinct T)
    (hd : DistinctSlots T.nbl d) (h : applyAll rev T d = some T') : apply (!rev) T' d = (0, T) :=
  apply_ok (applyAll_same_order_inv hk hn hd h)

/-- the special case of lists of at most one entry (no hypothesis on the list) -/
theorem C16_reverse_apply_partial {rev : Bool} {T T' : Topo σ} {d : List (Entry σ)}
    (hk : KeysInj T) (hn : InfoNamesDistinct T) (hlen : d.length ≤ 1)
    (h : applyAll rev T d = some T') : apply (!rev) T' d = (0, T) := by
  apply C16_reverse_apply hk hn _ h
  match d, hlen with
  | [], _ => exact List.Pairwise.nil
  | [x], _ => exact List.pairwise_singleton _ _

/-! ## diff_apply ∘ diff_build -/

/-- every diff that build returns with 0 addresses pairwise distinct attributes -/
theorem C16_build_distinct_slots {A B : Topo σ} {d : List (Entry σ)} (hk : KeysNodup A) (hn : InfoNamesDistinct A)
    (hd : DepthsBelowNbl A) (h : build A B = (0, d)) : DistinctSlots A.nbl d := build_distinctSlots hk hn hd h

/-- P0 apply_build over whole trees, the part that needs nothing about total_memory: a diff built with 0 applies
    with 0; the patched topology has the names, the infos and the topology infos of B, the local memory of B on every
    NUMA node (DFS order), and diffing it against B gives 0 and the empty list.
    `KeysNodup` cannot be weakened to `KeysInj` (C16_apply_build_needs_keys_nodup_witness), `InfoNamesDistinct` cannot
    be dropped (C16_F13c_witness). -/
theorem C16_apply_build_core {A B : Topo σ} {d : List (Entry σ)} (hk : KeysNodup A) (hn : InfoNamesDistinct A)
    (hd : DepthsBelowNbl A) (h : build A B = (0, d)) :
    ∃ A', apply false A d = (0, A') ∧ obsCore A' = obsCore B ∧
      (∀ p ∈ A'.flat.zip B.flat, p.1.numa = true → p.1.lmem = p.2.lmem) ∧ build A' B = (0, []) := by
  have hr := (build_ok_form h).1
  exact ⟨applied A B, apply_ok (applyAll_build hk hn hd h), obsCore_applied hk hn hr.1, lmem_applied hk hn hr.1,
    build_applied hk hn hr⟩

/-- P0 apply_build over whole trees, full observation: if moreover total_memory is consistent in A and in B (and the
    two trees agree on keys, ancestor chains and NUMA-ness) the patched topology is observationally equal to B:
    per object key, name, NUMA local_memory, total_memory (the SIZE deltas propagated to the ancestors, uint64
    arithmetic), infos; and the topology infos. -/
theorem C16_apply_build {A B : Topo σ} {d : List (Entry σ)} (hk : KeysNodup A) (hn : InfoNamesDistinct A)
    (hd : DepthsBelowNbl A) (hs : SameSkeleton A B) (hA : MemConsistent A) (hB : MemConsistent B)
    (h : build A B = (0, d)) :
    ∃ A', apply false A d = (0, A') ∧ obs A' = obs B ∧ build A' B = (0, []) := by
  have hr := (build_ok_form h).1
  exact ⟨applied A B, apply_ok (applyAll_build hk hn hd h), obs_applied hk hn hr.1 hs hA hB, build_applied hk hn hr⟩

/-- P0 reverse_apply for built diffs, no hypothesis about the list: applying `build A B` and then the same list with
    the REVERSE flag returns exactly to A -/
theorem C16_reverse_apply_build {A B : Topo σ} {d : List (Entry σ)} (hk : KeysNodup A) (hn : InfoNamesDistinct A)
    (hd : DepthsBelowNbl A) (h : build A B = (0, d)) :
    ∃ A', apply false A d = (0, A') ∧ apply true A' d = (0, A) :=
  ⟨applied A B, apply_ok (applyAll_build hk hn hd h),
    C16_reverse_apply (rev := false) hk.keysInj hn (build_distinctSlots hk hn hd h) (applyAll_build hk hn hd h)⟩

/-- the same diff read backwards (what `hwloc-patch -R` does): REVERSE application of `build A B` to B succeeds with 0
    and yields a topology observationally equal to A, whose diff against A is empty.  (`A.nbl = B.nbl`: build does
    not compare nb_levels, which in hwloc is a function of the depths it does compare.) -/
theorem C16_reverse_apply_to_B {A B : Topo σ} {d : List (Entry σ)} (hk : KeysNodup A) (hn : InfoNamesDistinct A)
    (hd : DepthsBelowNbl A) (hs : SameSkeleton A B) (hnbl : A.nbl = B.nbl) (hA : MemConsistent A) (hB : MemConsistent B)
    (h : build A B = (0, d)) :
    ∃ B', apply true B d = (0, B') ∧ obs B' = obs A ∧ build B' A = (0, []) := by
  have hr := (build_ok_form h).1
  obtain ⟨hkB, hnB, hdB⟩ := hyps_transfer hk hn hd hr hs hnbl
  have hs' : SameSkeleton B A := Eq.symm hs
  refine ⟨applied B A, apply_ok ?_, obs_applied hkB hnB hr.symm.1 hs' hB hA, build_applied hkB hnB hr.symm⟩
  rw [applyAll_true]
  exact applyAll_build hkB hnB hdB (build_swap h hs hnbl)

/-- P0 apply_build, the INFO core on one infos array (kept as a lemma of C16_apply_build): with distinct names the
    INFO entries queued by build turn the old array into the new one when applied in order. -/
theorem C16_apply_build_infos_partial (k : Key) (i1 i2 : List (σ × σ)) (hnd : (i1.map Prod.fst).Nodup)
    (hok : (infosGo k i1 i2).2 = true) : applyInfos i1 (infosGo k i1 i2).1 = some i2 :=
  applyInfos_infosGo k i1 i2 hnd hok

/-! ## statement left unproved (kept visible; covered only by the C-side oracle `xml_roundtrip`)

   -- diff_xml_roundtrip: XML export/import of diffs is not modelled. -/

/-! ## negative facts about the code as it is (concrete witnesses, `σ := Nat`) -/

def leaf (name : Option Nat) (infos : List (Nat × Nat)) : Obj Nat :=
  .mk { depth := 0, lidx := 0, ancs := [], numa := false, shape1 := 0, shape2 := 0, name := name, infos := infos,
        lmem := 0, tmem := 0 } [] [] [] []
def topo (r : Obj Nat) (dists : List (Nat × Bool) := []) : Topo Nat :=
  { root := r, nbl := 1, tinfos := [], allowed := 0, dists := dists, mattrs := 0, kinds := 0 }

/-- F13c: without InfoNamesDistinct apply ∘ build is not the identity: `A=[(X,1),(X,2)]`, `B=[(X,2),(X,3)]`
    gives 0 from build, 0 from apply, and the patched array `[(X,3),(X,2)] ≠ B` -/
theorem C16_F13c_witness :
    let A := topo (leaf none [(7, 1), (7, 2)])
    let B := topo (leaf none [(7, 2), (7, 3)])
    (build A B).1 = 0 ∧ (apply false A (build A B).2).1 = 0 ∧
    (apply false A (build A B).2).2.flat.map (·.infos) = [[(7, 3), (7, 2)]] := by decide

/-- rollback does need InfoNamesDistinct (F13c class): infos `[(X,2),(X,1)]`, list `X:1→2, <failing>`:
    the entry applies on the second pair, its undo `X:2→1` hits the first one; -2 is returned and the array is
    `[(X,1),(X,2)]`, not the input -/
theorem C16_rollback_needs_distinct_names_witness :
    let r := apply false (topo (leaf none [(7, 2), (7, 1)])) [.objAttr (0, 0) (.info 7 1 2), .unknown]
    r.1 = -2 ∧ r.2.flat.map (·.infos) = [[(7, 1), (7, 2)]] := by decide

/-- REVERSE application in list order is not an inverse for lists that touch one attribute twice:
    `X:1→2, X:2→3` applies (X=3); with the flag flipped the first entry (`2→1`) does not match and -1 is returned -/
theorem C16_reverse_apply_chain_witness :
    let d : List (Entry Nat) := [.objAttr (0, 0) (.info 7 1 2), .objAttr (0, 0) (.info 7 2 3)]
    let r := apply false (topo (leaf none [(7, 1)])) d
    r.1 = 0 ∧ (apply true r.2 d).1 = -1 := by decide

/-- `KeysNodup` cannot be weakened to `KeysInj` in C16_apply_build: a tree holding the same object (same key, same
    data) twice satisfies `KeysInj`; build returns 0 with two NAME entries for the one key and apply fails on the
    second one (-2) -/
theorem C16_apply_build_needs_keys_nodup_witness :
    let c (nm : Nat) : Obj Nat := .mk { (leaf (some nm) []).data with depth := -2, ancs := [(0, 0)] } [] [] [] []
    let A := topo (.mk (leaf (some 0) []).data [] [] [] [c 1, c 1])
    let B := topo (.mk (leaf (some 0) []).data [] [] [] [c 2, c 2])
    KeysInj A ∧ InfoNamesDistinct A ∧ DepthsBelowNbl A ∧ ¬ KeysNodup A ∧
    (build A B).1 = 0 ∧ (apply false A (build A B).2).1 = -2 := by decide

/-! ## non-vacuity -/

def numa (lidx : Nat) (m : Nat) : Obj Nat :=
  .mk { depth := -3, lidx := lidx, ancs := [(0, 0)], numa := true, shape1 := 1, shape2 := 0, name := some 5,
        infos := [(1, 1)], lmem := BitVec.ofNat 64 m, tmem := BitVec.ofNat 64 m } [] [] [] []
def machine (n0 n1 : Nat) (nm : Nat) : Topo Nat :=
  { root := .mk { depth := 0, lidx := 0, ancs := [], numa := false, shape1 := 0, shape2 := 0, name := some nm,
                  infos := [(7, 1), (8, 2)], lmem := 0, tmem := BitVec.ofNat 64 (n0 + n1) } [] [numa 0 n0, numa 1 n1] [] [],
    nbl := 1, tinfos := [(9, 9)], allowed := 0, dists := [(3, false)], mattrs := 0, kinds := 0 }

/-- a two-NUMA machine: build is representable, non-empty, applies with 0 to the observation of B
    (incl. total_memory with uint64 wrap), and the REVERSE flag restores A -/
example :
    let A := machine 10 (2 ^ 64 - 1) 1
    let B := machine 4 (2 ^ 64 - 1) 2
    (build A B).1 = 0 ∧ (build A B).2.length = 2 ∧ (apply false A (build A B).2).1 = 0 ∧
    (apply false A (build A B).2).2.flat = B.flat ∧
    (apply true (apply false A (build A B).2).2 (build A B).2).2.flat = A.flat := by decide

/-- the hypotheses of C16_apply_build / C16_reverse_apply_build / C16_build_distinct_slots hold of that pair, whose
    diff is not empty (a NAME entry and a SIZE entry whose delta wraps) -/
example :
    let A := machine 10 (2 ^ 64 - 1) 1
    let B := machine 4 (2 ^ 64 - 1) 2
    KeysNodup A ∧ InfoNamesDistinct A ∧ DepthsBelowNbl A ∧ SameSkeleton A B ∧ MemConsistent A ∧ MemConsistent B ∧
    build A B = (0, [.objAttr (0, 0) (.name (some 1) (some 2)), .objAttr (-3, 0) (.size 10#64 4#64)]) ∧
    DistinctSlots A.nbl (build A B).2 ∧ A.nbl = B.nbl ∧
    (apply true B (build A B).2).1 = 0 ∧ (apply true B (build A B).2).2.flat = A.flat := by decide
/-- a hand-built list on pairwise distinct attributes (two INFO names of one object, the topology infos through two
    aliasing keys would not be accepted): C16_reverse_apply applies to it -/
example :
    let d : List (Entry Nat) := [.objAttr (0, 0) (.info 7 1 5), .objAttr (0, 0) (.info 8 2 6), .objAttr (1, 0) (.info 9 9 0),
      .objAttr (-3, 1) (.size 2#64 7#64)]
    DistinctSlots (machine 1 2 3).nbl d ∧ (applyAll false (machine 1 2 3) d).isSome = true ∧
    ¬ DistinctSlots (1 : Int) [Entry.objAttr (1, 0) (.info 9 9 0), Entry.objAttr (1, 5) (.info (9 : Nat) 0 1)] := by decide

example : TopoSame (machine 1 2 3) (machine 1 2 3) := (build_empty_iff _ _).1 (by decide)
example : ¬ TopoRepr (machine 1 2 3) (topo (leaf none [])) := (C16_build_too_complex_iff _ _).1 (by decide)
example : KeysInj (machine 1 2 3) := by
  intro x hx y hy
  simp [machine, numa, Topo.flat, Obj.flat, flatL] at hx hy
  rcases hx with rfl | rfl | rfl <;> rcases hy with rfl | rfl | rfl <;> simp [Data.key]
/-- a failing entry at position 2 after one applied entry: -2 and nothing changed -/
example : (apply false (machine 1 2 3) [.objAttr (0, 0) (.name (some 3) (some 4)), .unknown]).1 = -2 ∧
    (apply false (machine 1 2 3) [.objAttr (0, 0) (.name (some 3) (some 4)), .unknown]).2.flat = (machine 1 2 3).flat := by
  decide

/-- former F13a input: a name on one side only is TOO_COMPLEX at that object -/
example : build (topo (leaf none [])) (topo (leaf (some 1) [])) = (1, [.tooComplex (0, 0)]) := by decide
/-- former F13b input: `X:1→2, X:2→3, <failing>` returns -3 and restores `X=1` -/
example :
    let r := apply false (topo (leaf none [(7, 1)])) [.objAttr (0, 0) (.info 7 1 2), .objAttr (0, 0) (.info 7 2 3), .unknown]
    r.1 = -3 ∧ r.2.flat.map (·.infos) = [[(7, 1)]] := by decide
/-- former F13d input: identical topologies holding a distances structure with per-object types: empty diff -/
example : build (topo (leaf none []) [(0, true)]) (topo (leaf none []) [(0, true)]) = (0, []) := by decide

/-! ## diff XML export / load (model: Hw.Io.XmlDiff, lemmas: Hw.Io.XmlDiffLemmas)

   `E` = `Entry Bytes` (strings are byte lists); `Exportable e` = an OBJ_ATTR entry of sub-type SIZE / NAME / INFO without NULL
   string whose key fits the C types (`int obj_depth`, `unsigned obj_index`); `Backend` = which parser reads the text. -/
section DiffXml
open Hw.XmlDiff Hw.Xml

/-- P0 diff_xml_roundtrip: for EVERY list of exportable entries (any byte strings, also empty ones and ones full of characters
    that need escaping; any 64-bit values; any int depth incl. the negative special depths; any unsigned index) and every
    refname (or none), exporting succeeds and loading the exported document through either back end returns 0 with exactly
    the same entries in the same order and the same refname, and frees nothing. -/
theorem C16_diffxml_roundtrip (be : Backend) (ref : Option Bytes) (l : List E) (h : ∀ e ∈ l, Exportable e) :
    ∃ d, exportDoc ref l = .ok d ∧ importDoc be d = { ret := 0, diff := l, ref := ref, freed := [] } :=
  roundtrip be ref l h

/-- ... also through the BYTES of the start tags for the nolibxml pair: the attribute scanner of the nolibxml importer
    (Hw.Xml.scanAttrs = the next_attr loop with its un-escaping copy) applied to the text new_prop wrote (Hw.Xml.renderAttrs =
    escaping) gives every token back, for NUL-free strings (C strings); hence loading what was rescanned from the text is the
    identity as well. -/
theorem C16_diffxml_roundtrip_bytes (ref : Option Bytes) (l : List E) (h : ∀ e ∈ l, Exportable e)
    (hr : ∀ r, ref = some r → NulFree r) (hn : ∀ e ∈ l, EntryNulFree e) :
    ∃ d, exportDoc ref l = .ok d ∧ rescan d = d ∧
      importDoc .nolibxml (rescan d) = { ret := 0, diff := l, ref := ref, freed := [] } := by
  obtain ⟨d, hd, hi⟩ := roundtrip .nolibxml ref l h
  have hs := rescan_exportDoc ref l d hr hn hd
  exact ⟨d, hd, hs, by rw [hs]; exact hi⟩

/-- the public export entry points refuse (EINVAL, nothing written) exactly the lists that hold a TOO_COMPLEX entry -/
theorem C16_diffxml_export_too_complex (ref : Option Bytes) (l : List E) :
    exportDoc ref l = .einval ↔ l.any Entry.isTC = true := by
  unfold exportDoc
  by_cases h : l.any Entry.isTC = true
  · simp [h]
  · simp only [h, Bool.false_eq_true, if_false, iff_false]
    cases exportEls l <;> simp

/-- the exporter writes one `<diff>` element per entry, in list order (the i-th element carries the attributes of the i-th entry) -/
theorem C16_diffxml_export_order (ref : Option Bytes) (l : List E) (d : Doc) (h : exportDoc ref l = .ok d) :
    d.root = rootAttrs ref ∧ l.map exportEntry = d.els.map (fun el => some el.2) ∧ ∀ el ∈ d.els, el.1 = nmDiff := by
  unfold exportDoc at h
  split at h
  · cases h
  · cases hels : exportEls l with
    | none => simp [hels] at h
    | some els =>
      simp [hels] at h
      subst h
      exact ⟨rfl, exportEls_positional l els hels⟩

/-- P0 import_total: the importer accepts or rejects EVERY token-level document (any attribute names, values, repetitions,
    element names) without partial state: either it returns 0, frees nothing and hands out every entry it linked; or it
    returns -1, leaves `*firstdiffp` NULL and `*refnamep` untouched, and every entry it had linked is handed to
    hwloc_topology_diff_destroy. -/
theorem C16_diffxml_import_total (be : Backend) (d : Doc) :
    ((importDoc be d).ret = 0 ∧ (importDoc be d).freed = [] ∧ (importDoc be d).diff = linked be d) ∨
    ((importDoc be d).ret = -1 ∧ (importDoc be d).diff = [] ∧ (importDoc be d).ref = none ∧
      (importDoc be d).freed = linked be d) :=
  importDoc_cases be d

/-- P0 order: an accepted document yields exactly the contributions of its elements in DOCUMENT ORDER (the C appends at
    lastdiff); elements that are silently ignored (no `type`, a type other than OBJ_ATTR, a missing mandatory attribute)
    contribute nothing and do not disturb the order of the others. -/
theorem C16_diffxml_import_order (be : Backend) (d : Doc) (h : (importDoc be d).ret = 0) :
    (importDoc be d).diff = d.els.filterMap elEntry :=
  importDoc_ok_order be d h

/-- ... and on the error path what was linked (and is freed) are the contributions of the elements BEFORE the offending one -/
theorem C16_diffxml_import_prefix (els : List (Bytes × AttrL)) (acc : List E) :
    ∃ pre suf, els = pre ++ suf ∧ (importEls acc els).2 = acc ++ pre.filterMap elEntry ∧
      ((importEls acc els).1 = true → suf = []) :=
  importEls_order els acc

/-- the clause of the property as worded: "if hwloc_topology_diff_build(A, B) returns 0 ... the diff survives diff export/load as
    XML with the same refname" — for every pair of topologies over byte strings whose built entries address keys inside the C
    types (every real topology: `int depth`, `unsigned logical_index`), through either back end. -/
theorem C16_diffxml_build_roundtrip (be : Backend) (ref : Option Bytes) (A B : Topo Bytes) (h0 : (build A B).1 = 0)
    (hk : ∀ e ∈ (build A B).2, KeyInRange e.key) :
    ∃ d, exportDoc ref (build A B).2 = .ok d ∧
      importDoc be d = { ret := 0, diff := (build A B).2, ref := ref, freed := [] } :=
  roundtrip be ref _ (build_exportable A B h0 hk)

/-- ... and when it returns 1 the export entry points refuse the list (a TOO_COMPLEX entry is in it) -/
theorem C16_diffxml_build_ret1_einval (ref : Option Bytes) (A B : Topo Bytes) (h1 : (build A B).1 = 1) :
    exportDoc ref (build A B).2 = .einval := by
  rw [C16_diffxml_export_too_complex, build_tc, h1]; decide

/-- the importer does not depend on the ORDER of the attributes of an element as long as no attribute name is repeated
    (the exporter's order is one of many accepted ones) -/
theorem C16_diffxml_import_attr_order {a b : AttrL} (hp : a.Perm b) (hn : (a.map (·.1)).Nodup) :
    importOne a = importOne b :=
  importOne_perm hp hn

/-! non-vacuity and concrete behaviour of the importer model -/
def goodEl : Bytes × AttrL := (nmDiff, [(nmType, str "0"), (nmDepth, str "1"), (nmIndex, str "2"), (nmAType, str "1"),
  (nmOld, str "a"), (nmNew, str "b")])
def goodE : E := .objAttr (1, 2) (.name (some (str "a")) (some (str "b")))

/-- a list inside the hypotheses of the round trip: escaping-heavy strings, an empty string, UINT64_MAX, a special depth -/
example :
    let l : List E := [.objAttr (-3, 4294967295) (.size 0#64 18446744073709551615#64),
      .objAttr (2, 0) (.name (some (str "a<b>&\"c'")) (some [])), .objAttr (-2147483648, 7) (.info (str "K\n") (str "&amp;") (str "\t"))]
    (∀ e ∈ l, Exportable e) ∧ (∀ e ∈ l, EntryNulFree e) := by
  refine ⟨?_, ?_⟩ <;> intro e he <;> simp at he <;> rcases he with rfl | rfl | rfl
  all_goals first
    | (simp [Exportable, KeyInRange])
    | (simp [EntryNulFree, NulFree]; try decide)
/-- the same computed: both back ends read the exported tokens back -/
example :
    let l : List E := [.objAttr (-3, 4294967295) (.size 0#64 77#64), .objAttr (2, 0) (.name (some (str "a<b>")) (some []))]
    (match exportDoc (some (str "r&f")) l with
     | .ok d => decide (importDoc .libxml d = ⟨0, l, some (str "r&f"), []⟩) &&
                decide (importDoc .nolibxml (rescan d) = ⟨0, l, some (str "r&f"), []⟩)
     | _ => false) = true := by decide +kernel
/-- a pair of topologies over byte strings inside the hypotheses of C16_diffxml_build_roundtrip (a rename with characters
    that need escaping and a local-memory change to UINT64_MAX) -/
example :
    let nd (nm : Bytes) (m : Mem) : Obj Bytes := .mk ⟨-3, 0, [(0, 0)], true, [], [], some nm, [], m, m⟩ [] [] [] []
    let mk (nm : Bytes) (m : Mem) : Topo Bytes :=
      ⟨.mk ⟨0, 0, [], false, [], [], some (str "Machine"), [], 0, m⟩ [] [nd nm m] [] [], 2, [], [], [], [], []⟩
    (build (mk (str "a<b") 5) (mk (str "\"&") 18446744073709551615)).1 = 0 ∧
    (build (mk (str "a<b") 5) (mk (str "\"&") 18446744073709551615)).2.length = 2 ∧
    ∀ e ∈ (build (mk (str "a<b") 5) (mk (str "\"&") 18446744073709551615)).2, KeyInRange e.key := by
  refine ⟨by decide +kernel, by decide +kernel, ?_⟩
  have : (build (Topo.mk (.mk ⟨0, 0, [], false, [], [], some (str "Machine"), [], 0, 5⟩ []
      [.mk ⟨-3, 0, [(0, 0)], true, [], [], some (str "a<b"), [], 5, 5⟩ [] [] [] []] [] []) 2 [] [] [] [] [])
      (Topo.mk (.mk ⟨0, 0, [], false, [], [], some (str "Machine"), [], 0, 18446744073709551615⟩ []
      [.mk ⟨-3, 0, [(0, 0)], true, [], [], some (str "\"&"), [], 18446744073709551615, 18446744073709551615⟩ [] [] [] []] [] []) 2 [] [] [] [] [])).2 =
      [.objAttr (-3, 0) (.name (some (str "a<b")) (some (str "\"&"))), .objAttr (-3, 0) (.size 5 18446744073709551615)] := by
    decide +kernel
  intro e he
  simp only [] at he
  rw [this] at he
  simp at he
  rcases he with rfl | rfl <;> simp [Entry.key, KeyInRange]
/-- C16_diffxml_import_attr_order applies to the exporter's own attribute lists (no repeated name) ... -/
example : ([(nmType, str "0"), (nmDepth, str "1"), (nmIndex, str "2")] : AttrL).Perm [(nmDepth, str "1"), (nmType, str "0"), (nmIndex, str "2")] ∧
    (([(nmType, str "0"), (nmDepth, str "1"), (nmIndex, str "2")] : AttrL).map (·.1)).Nodup :=
  ⟨List.Perm.swap _ _ _, by decide⟩
/-- ... and the hypothesis is needed: with a repeated name the last occurrence wins -/
example : importOne (goodEl.2 ++ [(nmDepth, str "-5")]) ≠ importOne ((nmDepth, str "-5") :: goodEl.2) := by decide +kernel
/-- TOO_COMPLEX anywhere: EINVAL -/
example : exportDoc none [.objAttr (0, 0) (.size 1#64 2#64), .tooComplex (0, 0)] = .einval := by decide +kernel
/-- what the importer makes of damaged elements: unknown attribute => -1 and the already linked entry is freed;
    missing mandatory attribute / other type number => ignored; a repeated attribute: the last one wins (nolibxml) or the
    document is rejected (libxml2); `atoi("4294967296") = 0` is OBJ_ATTR; hex / octal SIZE values -/
example : importDoc .nolibxml ⟨[], [goodEl, (nmDiff, [(str "foo", str "1")])]⟩ = ⟨-1, [], none, [goodE]⟩ := by decide +kernel
example : importDoc .nolibxml ⟨[], [(nmDiff, [(nmType, str "0"), (nmDepth, str "1")]), goodEl, (nmDiff, [(nmType, str "1")]),
    (nmDiff, [])]⟩ = ⟨0, [goodE], none, []⟩ := by decide +kernel
example : importDoc .nolibxml ⟨[(nmRefname, str "x"), (nmRefname, str "y")], [(nmDiff, goodEl.2 ++ [(nmDepth, str "-5")])]⟩
    = ⟨0, [.objAttr (-5, 2) (.name (some (str "a")) (some (str "b")))], some (str "y"), []⟩ := by decide +kernel
example : importDoc .libxml ⟨[], [(nmDiff, goodEl.2 ++ [(nmDepth, str "-5")])]⟩ = ⟨-1, [], none, []⟩ := by decide +kernel
example : importDoc .libxml ⟨[], [(str "object", goodEl.2)]⟩ = ⟨-1, [], none, []⟩ := by decide +kernel
example : importDoc .libxml ⟨[], [(nmDiff, [(nmType, str "4294967296"), (nmDepth, str "x"), (nmIndex, str "-1"), (nmAType, str "0"),
    (nmOld, str "0x1f"), (nmNew, str "017")])]⟩ = ⟨0, [.objAttr (0, 4294967295) (.size 31#64 15#64)], none, []⟩ := by decide +kernel

end DiffXml

end Hw.Props.C16
