/-
  Hw.Props.C07 — synthetic descriptions (hwloc/topology-synthetic.c): property theorems over the models
  Hw.Io.Synthetic (parser) and Hw.Io.SyntheticTopo (loaded topology, export).
  See tools/props/c07.py for what is proved, what is partial and what is checked by the differential engine only.
-/
import Hw.Io.SyntheticLemmas
import Hw.Io.SyntheticWidths
import Hw.Io.SyntheticFaithful
import Hw.Io.SyntheticTopo
import Hw.Io.SyntheticDump
import Hw.Io.SyntheticDumpLemmas
import Hw.Io.SyntheticFilter
import Hw.Io.SyntheticFilterLemmas
import Hw.Io.SyntheticWFAll
import Hw.Io.SyntheticWFFull
import Hw.Io.SyntheticOrder4
import Hw.Io.SyntheticOrder6
import Hw.Io.SyntheticWF17
import Hw.Io.SyntheticFix
import Hw.Io.SyntheticFix2
namespace Hw.Props.C07
open Hw Hw.Syn Hw.Topo

/-! ### parse_index_safe: memory safety of hwloc_backend_synthetic_init, for EVERY input string -/

/-- every index used in a `data->level[i]` expression — on accepting runs, on rejecting runs and on runs that end
in a failed assertion alike — is below HWLOC_SYNTHETIC_MAX_DEPTH = 128 -/
theorem C07_parse_index_safe (s : Bytes) : ∀ i ∈ logOf (parse s), i < 128 :=
  parse_log_safe s

/-- every write to the malloc'ed `loops[]` array of hwloc_synthetic_process_indexes is inside its `nr_loops+1`
slots: the guard in front of each modelled write never fires, for any level array, `indexes=` text and total -/
theorem C07_loops_write_safe (levels : List Syn.Level) (ix : Idx) (total : Nat) :
    (processIndexes levels ix total).1 ≠ .err .loopsOverflow :=
  processIndexes_loops_safe levels ix total

/-- ... hence no run of the whole parser ends in such a write -/
theorem C07_parse_no_loops_overflow (s : Bytes) (e : Err) (log : Log) (h : parse s = .error (e, log)) :
    e ≠ .loopsOverflow :=
  parse_errOK s e log h

/-- the type-interleaving walk `for(i=0;;i++) if (!level[i].arity) ...` only reads initialised slots
(the terminating `arity = 0` is written before any walk) -/
theorem C07_scan_reads_initialised (levels : List Syn.Level) (ix : Idx) (total : Nat) (hne : 1 ≤ levels.length)
    (hlast : (lvAt levels (levels.length - 1)).arity = 0) :
    ∀ i ∈ (processIndexes levels ix total).2, i < levels.length :=
  processIndexes_log levels ix total hne hlast

/-- F04 (fixed by 9123eb7): the slots touched by the implicit-NUMA `memmove` are `1..count`; the old expression
(`count` elements instead of `count-1`) touched `count+1`, i.e. `level[128]` for the 126-level descriptions -/
theorem C07_F04_memmove_bounds (levels : List Syn.Level) (count : Nat) (h : count ≤ 127) :
    (∀ i ∈ (insertNuma levels count).2, i < 128) ∧ 128 ∈ (List.range (127 + 2)).drop 1 := by
  refine ⟨?_, by decide⟩
  unfold insertNuma
  split
  · intro i hi
    rcases List.mem_append.1 hi with hi | hi
    · simp only [List.mem_cons, List.not_mem_nil, or_false] at hi; omega
    · have := List.mem_range.1 (List.mem_of_mem_drop hi); omega
  · intro i hi; cases hi

/-! ### no wrap, no division by zero -/

/-- F67 (fixed by c92c5cc): the parser rejects a description whose number of objects does not fit an unsigned long, so in
every accepted result the total widths are exact natural-number products: the root has width 1, every level's width is the
width of the level above times its arity, all are positive, below 2^64 and non-decreasing with the depth -/
theorem C07_widths_no_wrap (s : Bytes) (p : Parsed) (h : parse s = .ok p) :
    (lvAt p.levels 0).width = 1 ∧
    (∀ j, j + 1 < p.levels.length → (lvAt p.levels (j + 1)).width = (lvAt p.levels j).width * (lvAt p.levels j).arity) ∧
    (∀ j, j < p.levels.length → 1 ≤ (lvAt p.levels j).width ∧ (lvAt p.levels j).width < 2 ^ 64) ∧
    (∀ i j, i ≤ j → j < p.levels.length → (lvAt p.levels i).width ≤ (lvAt p.levels j).width) := by
  obtain ⟨T, hw, h0⟩ := parse_widths s p h
  refine ⟨h0, hw.chain, ?_, hw.mono⟩
  intro j hj
  have h1 := hw.le j hj
  have h2 := hw.tlt
  exact ⟨hw.pos j hj, by unfold u64 at h2; omega⟩

/-- **no division by zero**, for every input string (`total / totalwidth` and `totalwidth / totalwidth` in
hwloc_synthetic_process_indexes always divide by a positive width) -/
theorem C07_no_divzero (s : Bytes) (e : Err) (log : Log) (h : parse s = .error (e, log)) : e ≠ .divzero := by
  rcases parse_err_kinds s e log h with rfl | rfl <;> simp

/-- every failing run of the parser is a rejection (EINVAL) or the failed assertion `assert(nbs)`; the latter is
unreachable for the `x*y` notation (C07_xy_never_aborts) and, for the type notation, would need the product of the exact
width ratios of distinct levels to be 0 modulo 2^64 (it telescopes to a width ≤ total < 2^32; that last step is not
formalised) -/
theorem C07_error_kinds (s : Bytes) (e : Err) (log : Log) (h : parse s = .error (e, log)) : e = .einval ∨ e = .abort :=
  parse_err_kinds s e log h

/-- F69 (fixed by 574e2e0): the `x*y` notation never fails an assertion — each accepted loop keeps `nbs * nb ≤ total`, so
the product of the counts never wraps and is never 0 -/
theorem C07_xy_never_aborts (levels : List Syn.Level) (ix : Idx) (total : Nat) (s : Bytes) (len : Nat) (e : Err)
    (hs : ix.str = some (s, len)) (hd : isDig (s.head?.getD 0) = true) : (processIndexes levels ix total).1 ≠ .err e :=
  processIndexes_xy_no_err levels ix total s len e hs hd

/-- with positive non-decreasing widths, `assert(nb)` and `assert(step)` of the type interleaving never fail, for every
total (totals above UINT_MAX are refused before the loops are computed); the only assertion left is `assert(nbs)` -/
theorem C07_type_interleave_asserts_hold (levels : List Syn.Level) (ix : Idx) (total : Nat) (e : Err)
    (hne : 1 ≤ levels.length) (hlast : (lvAt levels (levels.length - 1)).arity = 0)
    (hpos : ∀ j, j < levels.length → 1 ≤ (lvAt levels j).width)
    (hmono : ∀ i j, i ≤ j → j < levels.length → (lvAt levels i).width ≤ (lvAt levels j).width)
    (h : (processIndexes levels ix total).1 = .err e) : e = .abort :=
  processIndexes_err levels ix total e hne hlast hpos hmono h

/-- the former F69 description: accepted, the attribute is ignored -/
theorem C07_F69_ignored :
    (match parse (str "PU:4(indexes=1*65536:1*65536:1*65536:1*65536)") with
     | .ok p => some (p.levels.map (·.idx.arr)) | .error _ => none) = some [none, none, none] := by
  decide

/-- the former F67 description is rejected -/
theorem C07_F67_rejected :
    (match parse (str "Package:2147483648 Die:2147483648 Core:4(indexes=Core) PU:1") with | .error (e, _) => some e | .ok _ => none) = some .einval := by
  decide

/-! ### index arrays -/

/-- an accepted `indexes=` attribute yields exactly one entry per object (so that `array[next++]` in
hwloc_synthetic_next_index stays inside the array) without duplicates -/
theorem C07_indexes_length_nodup (levels : List Syn.Level) (s : Bytes) (len total : Nat) (a : List Nat) (log : Log)
    (h : processIndexes levels { str := some (s, len), arr := none } total = (.arr (some a), log)) :
    a.length = total ∧ a.Nodup :=
  let r := processIndexes_accepts levels _ s len total a log rfl h
  ⟨r.1, r.2.1⟩

/-- **interleave_perm**: an accepted interleaving (`x*y:...` or `type:...` notation) generates a permutation of
`0 .. total-1` -/
theorem C07_interleave_perm (levels : List Syn.Level) (s : Bytes) (len total : Nat) (a : List Nat) (log : Log)
    (h : processIndexes levels { str := some (s, len), arr := none } total = (.arr (some a), log))
    (hint : spnDigComma s ≠ len) : a.Perm (List.range total) :=
  (processIndexes_accepts levels _ s len total a log rfl h).2.2 hint

/-- the step from loops to the array, for any loops: what passes the checks is a permutation -/
theorem C07_loops_perm (total : Nat) (loops : List ILoop) (minstep nbs : Nat) (a : List Nat)
    (h : finishLoops total loops minstep nbs = .ok (some a)) : a.Perm (List.range total) :=
  finishLoops_perm total loops minstep nbs a h

/-- at the level of the whole parser: in the result of every accepted description each index array has exactly one entry
per object of its level (and of the attached NUMA nodes), so `array[next++]` of hwloc_synthetic_next_index is in bounds -/
theorem C07_parse_arrays_ok (s : Bytes) (p : Parsed) (h : parse s = .ok p) :
    (∀ l ∈ p.levels, ∀ a, l.idx.arr = some a → a.length = l.width) ∧
    (∀ a, p.numaIdx.arr = some a → a.length = p.numaNr) :=
  parse_arrays_ok s p h

/-- explicit lists: `indexes=v1,...,vk` on a level of `k` objects is read back as exactly `[v1,...,vk]`
(values below 2^32; what follows the list does not start with a digit) -/
theorem C07_explicit_list_as_written (xs : List Nat) (rest : Bytes) (hne : xs ≠ []) (hlt : ∀ v ∈ xs, v < 2 ^ 32)
    (hrest : NoDigitHead rest) : explicitLoop xs.length xs.length (printList xs ++ rest) [] = some xs := by
  have := explicitLoop_printList xs xs.length rest [] hne (fun v hv => by have := hlt v hv; unfold u32; omega) hrest
  simpa using this

/-! ### parse_faithful -/

/-- a description printed in the exported syntax (canonical type names, decimal arities, single spaces) from a level
list that obeys the documented rules is accepted and parsed into exactly the types and arities written, below a Machine
root and — when no NUMANode level is written — below the implicit NUMANode level -/
theorem C07_parse_faithful (ls : List LSpec) (h : Accepts ls) :
    ∃ p, parse (printDesc ls) = .ok p ∧
      p.levels.map (·.attr.type) = expectedTypes ls ∧ p.levels.map (·.arity) = expectedArities ls :=
  parse_faithful ls h

/-! ### export_contract: hwloc_topology_export_synthetic obeys the snprintf length contract -/

/-- for every topology, flag word and buffer size > 0: the return value is the full length, the buffer holds the
longest prefix that fits followed by a NUL, nothing is written outside `0..cap-1` -/
theorem C07_export_contract (t : Topo) (flags cap : Nat) (hcap : 0 < cap) :
    let cs := (exportChunks t flags).chunks
    let c := emitAll cap cs
    c.ret = (text cs).length ∧ c.pos = min (text cs).length (cap - 1) ∧
    (∀ j, j < c.pos → c.buf.get j = (text cs)[j]?) ∧ c.buf.get c.pos = some 0 ∧
    (∀ j, c.pos < j → c.buf.get j = none) ∧ ∀ w ∈ c.buf.writes, w < cap := by
  intro cs c
  have h := emitAll_inv cap hcap cs
  exact ⟨h.ret_eq, h.pos_eq, h.prefix_ok, h.nul, h.rest, h.inb⟩

/-- with `buflen = 0` nothing is written and the full length is still returned -/
theorem C07_export_contract_zero (t : Topo) (flags : Nat) :
    (emitAll 0 (exportChunks t flags).chunks).buf.writes = [] ∧
    (emitAll 0 (exportChunks t flags).chunks).ret = (text (exportChunks t flags).chunks).length :=
  emitAll_zero _

/-- unknown flag bits are rejected -/
theorem C07_export_rejects_unknown_flags (t : Topo) (flags : Nat) (h : 16 ≤ flags) :
    (exportChunks t flags).ok = false := by
  unfold exportChunks
  have : flags ≥ 16 := h
  simp [this]

/-! ### build_wf — bounded: the complete dump computed by `toDump` is well-formed (C01's `WF`) on a finite family -/

/-- 1-, 2- and 3-level trees (PU / Core+PU / Package+L2+PU), arities 1..2, one NUMA node attached at the root or at any
non-PU level, with or without a memory-side cache, PU indexes in creation order or reversed: 88 topologies -/
def wfShapes : List (List NLevel) :=
  ([1, 2].map (fun a => [({ type := tPU, arity := a } : NLevel)])) ++
  ([1, 2].flatMap (fun a => [1, 2].map (fun b => [({ type := tCORE, arity := a } : NLevel), { type := tPU, arity := b }]))) ++
  ([1, 2].flatMap (fun a => [1, 2].map (fun c =>
    [({ type := tPACKAGE, arity := a } : NLevel), { type := tL2, arity := 2, cdepth := 2, ctype := 0, size := 4194304 }, { type := tPU, arity := c }])))

def wfWithMem (ls : List NLevel) (pos : Nat) (m : MemChild) : List MemChild × List NLevel :=
  if pos = 0 then ([m], ls)
  else ([], (List.range ls.length).map (fun j =>
    let l := ls[j]?.getD { type := 0, arity := 0 }
    if j + 1 = pos then { l with mem := [m] } else l))

def wfFamily : List Topo :=
  wfShapes.flatMap (fun ls =>
    let total := (ls.map (·.arity)).foldl (· * ·) 1
    (List.range ls.length).flatMap (fun pos =>
      [0, 4194304].flatMap (fun msc =>
        [false, true].map (fun rev =>
          let (rm, lv) := wfWithMem ls pos ⟨1073741824, msc⟩
          let pu := if rev then (List.range total).reverse else List.range total
          let lv := lv.map (fun l => if l.type == tPU && rev then { l with os := some pu } else l)
          orderTopo rm lv pu (List.range 64)))))

theorem wfFamily_checked : wfFamily.all (fun t => (wfCheck (toDump t)).isEmpty) = true := by decide +kernel

/-- **build_wf, bounded** (complete finite table, kernel-evaluated): every topology of the family is well-formed.
For all other descriptions `wfCheck` runs on every case, on the real dump and on the model's dump (engine `synthetic`). -/
theorem C07_build_wf_bounded : ∀ t ∈ wfFamily, WF (toDump t) := by
  intro t ht
  rw [← wfCheck_iff]
  have h := wfFamily_checked
  rw [List.all_eq_true] at h
  have := h t ht
  simpa using this

example : wfFamily.length = 88 := by decide

/-! ### build_wf — the clauses proved for EVERY abstract topology -/

/-- for every `t` (Regular or not): the objects of `toDump t` are numbered by their position (WF clause `id-is-position`:
the arithmetic DFS numbering `nid`/`memId`/`numaId` is the emission order), the object count is right and positive, the
root is object 0, a Machine at depth 0 without parent (clauses `nobjs`, `root-is-machine`), and the level table has one
entry per normal depth plus the six special levels, the type-depth table one entry per type (part of `levels-listed`,
`type-depth-inverse`) -/
theorem C07_dump_structure (t : Topo) :
    (toDump t).objs.map (·.id) = List.range (toDump t).nobjs ∧
    (∀ o ∈ (toDump t).objs, ((toDump t).objs[o.id]?).map (·.id) = some o.id) ∧
    ((toDump t).root = 0 ∧ 0 < (toDump t).nobjs ∧ (toDump t).objs.length = (toDump t).nobjs ∧
      ∃ r, (toDump t).objs[0]? = some r ∧ r.type = tMACHINE ∧ r.depth = 0 ∧ r.parent = -1 ∧ r.id = 0) ∧
    ((toDump t).levels.length = (toDump t).depth + 6 ∧ (toDump t).typeDepths.length = tMAX) :=
  ⟨toDump_ids t, toDump_id_is_position t, toDump_root t, toDump_levels_listed t⟩

/-! ### build_wf — general (unbounded depth, arities, memory children, index sequences) -/

/-- **build_wf, clause by clause, for EVERY abstract topology** that satisfies the decidable side condition `topoOK`
(positive arities, normal non-Machine level types, PU level last and only there, no memory on PUs, PU os_indexes = `puIdx`,
cache levels carry the depth/kind of their type), `puOK` (`puIdx` has one distinct entry per PU) and `memOK` (there is a
NUMA node) and `numaOK` (`numaIdx` has one distinct entry per NUMA node) — the driver evaluates all four on every topology `buildTopo` returns and hwloc agrees with: every clause of `Hw.Topo.WF` named in `provedTopClauses` / `provedObjClauses` holds for `toDump t` — the tree
links (parent, children arrays, sibling links and ranks, memory-children lists: heads and doubly linked order), depth and
level tables (root level, PU level deepest, every level listed and non-empty, level types), PU cpusets and NUMA nodesets
are singletons of the os_index, **the cpuset of every normal non-PU object is the disjoint union of its children's cpusets**
(through the real aggregate fold `mkAux`), total_memory = local memory + the children's totals, child counts per kind,
unique PU os_indexes, cpusets and nodesets included in the parent's, the type→depth table is the inverse of the level
table, every object sits in the level of its depth at its logical index with the cousin links of its neighbours (normal
levels and the NUMA / MemCache special levels: the closed-form position `postPos` is the position in the recursive DFS
listing), the levels list exactly as many objects as the dump has, every level entry is an object of that depth with that logical
index, every level is in DFS (tree) order, unique NUMA os_indexes, a NUMA node exists, NUMA nodesets inside the allowed set, memory-side-cache nodesets, PU cpusets inside the allowed
set, memory children share their parent's cpuset, cache and group attributes, allowed sets, unique gp_index, object count.  No bound on the depth, the arities, the number of memory children or the index values. -/
theorem C07_build_wf_clauses (t : Topo) (h : topoOK t = true) (hp : puOK t = true) (hm : memOK t = true)
    (hn : numaOK t = true) :
    (∀ c ∈ topClauses, c.1 ∈ provedTopClauses → c.2 (toDump t) (mkAux (toDump t)) = true) ∧
    (∀ c ∈ objClauses, c.1 ∈ provedObjClauses → ∀ o ∈ (toDump t).objs, c.2 (toDump t) (mkAux (toDump t)) o = true) :=
  ⟨top_clauses_proved t (topoOK_OK t h) hp hm hn, obj_clauses_proved t (topoOK_OK t h) hp⟩

/-- **build_wf, partial**: for every such topology the whole conjunction `WF (toDump t)` follows from the clauses that are
NOT yet proved in general (`restOK`: the executable check of exactly those clauses; they stay table-only —
C07_build_wf_bounded — and oracle-checked per case).  Missing for the full theorem: see `C07_build_wf_unproved_clauses`. -/
theorem C07_build_wf_partial (t : Topo) (h : topoOK t = true) (hp : puOK t = true) (hm : memOK t = true)
    (hn : numaOK t = true) (hr : restOK (toDump t) = true) : WF (toDump t) :=
  wf_of_rest t (topoOK_OK t h) hp hm hn hr

/-- ... and conversely: under the side conditions, `WF (toDump t)` is EQUIVALENT to the two unproved clauses -/
theorem C07_build_wf_reduction (t : Topo) (h : topoOK t = true) (hp : puOK t = true) (hm : memOK t = true)
    (hn : numaOK t = true) : WF (toDump t) ↔ restOK (toDump t) = true :=
  ⟨restOK_of_wf _, C07_build_wf_partial t h hp hm hn⟩

/-- non-vacuity of the `restOK` hypothesis: it holds on the whole bounded family -/
example : ∀ t ∈ wfFamily, restOK (toDump t) = true := fun t ht => restOK_of_wf _ (C07_build_wf_bounded t ht)

/-- exactly which clauses `C07_build_wf_clauses` does not cover (they were unproved in general when it was stated; they are now
proved by `C07_build_wf_rest_clauses` below, `siblings-ordered` under the additional side condition `sibOK`) -/
theorem C07_build_wf_unproved_clauses :
    (topClauses.map (·.1)).filter (fun n => !provedTopClauses.contains n) =
      [] ∧
    (objClauses.map (·.1)).filter (fun n => !provedObjClauses.contains n) =
      ["nodeset-decomposition", "siblings-ordered"] := by
  decide

/-- non-vacuity: the whole bounded family satisfies the side condition, and so does a 5-level topology outside it
(Package:3 [2 NUMA, one with a memory-side cache] / L3:2 / Core:2 / PU:2) -/
example : wfFamily.all (fun t => topoOK t && puOK t && memOK t && numaOK t) = true := by decide
example : (fun t => topoOK t && puOK t && memOK t && numaOK t) (orderTopo [] [{ type := tPACKAGE, arity := 3, mem := [⟨1024, 0⟩, ⟨2048, 512⟩] },
    { type := tL1 + 2, arity := 2, cdepth := 3, ctype := 0, size := 1048576 }, { type := tCORE, arity := 2 }, { type := tPU, arity := 2 }]
    (List.range 24) (List.range 6)) = true := by decide

/-! ### build_wf — the two remaining clauses and the full theorem -/

/-- **the two clauses that `C07_build_wf_clauses` left open, for EVERY abstract topology**:
`nodeset-decomposition` under `topoOK` and `numaOK` — through the real aggregate folds of `Hw.Topo.mkAux`: the memory children's
nodesets of every normal object are pairwise disjoint, the bottom-up fold `below` (nodes attached at or below the object)
accumulates pairwise disjoint parts, the top-down fold `inh` (nodes of the ancestors' memory children) is disjoint from it, and
the object's nodeset is exactly `inh ||| below`;
`siblings-ordered` under `topoOK` and the fifth side condition `sibOK` — consecutive normal siblings are listed by increasing
first bit of their complete_cpuset, memory siblings by increasing first bit of their complete_nodeset.  `sibOK t` is exactly
what is needed on the index sequences: for consecutive normal siblings the smallest PU os_index (`minL` of the slice of `puIdx`)
below the first is smaller than the smallest below the second, and the NUMA os_indexes of the memory children of one object
increase.  It is NOT implied by the other four conditions (see the example below: PU indexes [1, 0] under one root);
it is what the core's reordering of children (`orderTopo`) establishes, and the driver evaluates it on every case. -/
theorem C07_build_wf_rest_clauses (t : Topo) (h : topoOK t = true) :
    (numaOK t = true → ∀ c ∈ objClauses, c.1 = "nodeset-decomposition" → ∀ o ∈ (toDump t).objs, c.2 (toDump t) (mkAux (toDump t)) o = true) ∧
    (sibOK t = true → ∀ c ∈ objClauses, c.1 = "siblings-ordered" → ∀ o ∈ (toDump t).objs, c.2 (toDump t) (mkAux (toDump t)) o = true) := by
  constructor
  · intro hn c hc hname o ho
    unfold objClauses at hc
    simp only [List.mem_cons, List.not_mem_nil, or_false] at hc
    rcases hc with rfl | rfl | rfl | rfl | rfl | rfl | rfl | rfl | rfl | rfl | rfl | rfl | rfl | rfl | rfl | rfl | rfl | rfl | rfl | rfl |
      rfl | rfl | rfl | rfl | rfl | rfl | rfl | rfl | rfl | rfl
    all_goals first
      | exact cl_nodeset_decomposition t (topoOK_OK t h) hn o ho
      | (exfalso; revert hname; decide)
  · intro hs c hc hname o ho
    unfold objClauses at hc
    simp only [List.mem_cons, List.not_mem_nil, or_false] at hc
    rcases hc with rfl | rfl | rfl | rfl | rfl | rfl | rfl | rfl | rfl | rfl | rfl | rfl | rfl | rfl | rfl | rfl | rfl | rfl | rfl | rfl |
      rfl | rfl | rfl | rfl | rfl | rfl | rfl | rfl | rfl | rfl
    all_goals first
      | exact cl_siblings_ordered t (topoOK_OK t h) hs o ho
      | (exfalso; revert hname; decide)

/-- **build_wf, for EVERY abstract topology, no table**: under the five decidable side conditions (`topoOK`, `puOK`, `memOK`,
`numaOK`, `sibOK`; the driver evaluates all five on every topology `buildTopo` returns and hwloc agrees with) the complete dump
`toDump t` satisfies all 47 clauses of `Hw.Topo.WF`.  No bound on the depth, the arities, the number of memory children or the
index values. -/
theorem C07_build_wf (t : Topo) (h : topoOK t = true) (hp : puOK t = true) (hm : memOK t = true) (hn : numaOK t = true)
    (hs : sibOK t = true) : WF (toDump t) :=
  build_wf t h hp hm hn hs

/-- hence the executable check of the two clauses (`restOK`, the hypothesis of `C07_build_wf_partial`) always succeeds -/
theorem C07_build_wf_rest (t : Topo) (h : topoOK t = true) (hn : numaOK t = true) (hs : sibOK t = true) : restOK (toDump t) = true :=
  restOK_toDump t (topoOK_OK t h) hn hs

/-- non-vacuity: the whole bounded family and the 5-level topology satisfy the five side conditions -/
example : wfFamily.all (fun t => topoOK t && puOK t && memOK t && numaOK t && sibOK t) = true := by decide
example : (fun t => topoOK t && puOK t && memOK t && numaOK t && sibOK t) (orderTopo [] [{ type := tPACKAGE, arity := 3, mem := [⟨1024, 0⟩, ⟨2048, 512⟩] },
    { type := tL1 + 2, arity := 2, cdepth := 3, ctype := 0, size := 1048576 }, { type := tCORE, arity := 2 }, { type := tPU, arity := 2 }]
    (List.range 24) (List.range 6)) = true := by decide
/-- ... with interleaved PU indexes, which `orderTopo` sorts into place (Package:2 Core:2 PU:2, indexes 0,4,2,6,1,5,3,7) -/
example : (fun t => topoOK t && puOK t && memOK t && numaOK t && sibOK t) (orderTopo [⟨4096, 0⟩] [{ type := tPACKAGE, arity := 2 },
    { type := tCORE, arity := 2 }, { type := tPU, arity := 2, os := some [0, 4, 2, 6, 1, 5, 3, 7] }] [0, 4, 2, 6, 1, 5, 3, 7] [0]) = true := by decide
/-- `sibOK` is needed: two PUs listed as [1, 0] below the root meet the other four conditions, but the dump is not well-formed
(its only violated clause is `siblings-ordered`) -/
example : (fun t => (topoOK t && puOK t && memOK t && numaOK t, sibOK t, wfCheck (toDump t)))
    { rootMem := [⟨4096, 0⟩], levels := [{ type := tPU, arity := 2, osIdx := [1, 0] }], puIdx := [1, 0], numaIdx := [0] } =
    (true, false, ["siblings-ordered@1"]) := by decide

/-- `sibOK` is EXACTLY the condition the last clause needs: under the other four side conditions the dump is well-formed if and
only if `sibOK t` holds (so no weaker hypothesis on the index sequences can replace it) -/
theorem C07_build_wf_iff_sibOK (t : Topo) (h : topoOK t = true) (hp : puOK t = true) (hm : memOK t = true)
    (hn : numaOK t = true) : WF (toDump t) ↔ sibOK t = true :=
  ⟨fun hw => sibOK_of_clause t (topoOK_OK t h)
      (fun o ho => hw.2 ("siblings-ordered", sibClause) (List.mem_of_getElem? (i := 28) rfl) o ho),
   fun hs => build_wf t h hp hm hn hs⟩

/-! ### the side conditions from `orderTopo` (partial) -/

/-- **what the ordering of children establishes (side conditions from the builder, partial).**  `buildTopo` returns only
topologies of the form `orderTopo rm ls pu numa` (every `some` branch of its definition is `chainOk (orderTopo ...)`, with
`pu` the PU index array of the description after the `Nodup` test).  For EVERY such topology — any memory, any level list, any
duplicate-free index sequence `pu` with at least one entry per PU — the second side condition `puOK` (one distinct os_index per
PU) and the normal-children half of the fifth one (`sibNormalOK`: consecutive normal siblings are in the order of the smallest
PU os_index below them; `sibOK t = (sibNormalOK t && sibMemOK t)` by definition) HOLD: the PU sequence of the result is the leaf
list of `mkNode`, which sorts the children of every object by their smallest leaf (insertion sort on `key`) — `mkNode_spec`: the
leaf list has one entry per PU, is duplicate-free, every node's key is its smallest leaf and the list satisfies the recursive
order predicate `Ord`; `ord_slices` turns `Ord` into the closed form over the slices of `puIdx` that `sibOK` is stated with.
PARTIAL — still hypotheses (evaluated per case by the driver on the result): `topoOK` of the result, `memOK`, `numaOK`, the
memory-children half `sibMemOK` (NUMA os_indexes ascending per object: `buildTopo` tests it on the creation sequence,
`blocksAscending`; its transport through the post-order of `mkNode` is not formalised), that `pu` has at least as many entries as
the result has PUs (follows from the parser's width invariant, not connected here), and the inspection step
"`buildTopo f p = some t` implies `t = orderTopo ...`" itself (`split` exhausts its budget on the 60-line definition). -/
theorem C07_order_establishes_sib_partial (rm : List MemChild) (l0 : List NLevel) (pu numa : List Nat) (hnd : pu.Nodup)
    (hOK : topoOK (orderTopo rm l0 pu numa) = true) (hlen : prodL (arities (orderTopo rm l0 pu numa)) ≤ pu.length) :
    puOK (orderTopo rm l0 pu numa) = true ∧ sibNormalOK (orderTopo rm l0 pu numa) = true :=
  orderTopo_sib rm l0 pu numa hnd hOK hlen

/-- ... hence build_wf for every topology `orderTopo` returns, with `puOK` and the normal half of `sibOK` discharged -/
theorem C07_build_wf_of_order_partial (rm : List MemChild) (l0 : List NLevel) (pu numa : List Nat) (hnd : pu.Nodup)
    (hOK : topoOK (orderTopo rm l0 pu numa) = true) (hlen : prodL (arities (orderTopo rm l0 pu numa)) ≤ pu.length)
    (hm : memOK (orderTopo rm l0 pu numa) = true) (hn : numaOK (orderTopo rm l0 pu numa) = true)
    (hs : sibMemOK (orderTopo rm l0 pu numa) = true) : WF (toDump (orderTopo rm l0 pu numa)) :=
  build_wf_of_order rm l0 pu numa hnd hOK hlen hm hn hs

/-- **side conditions from `buildTopo` (partial): the order property.**  For every accepted parse result `p` and every filter
configuration, a topology returned by `buildTopo` whose PU os_indexes are one per PU and distinct (`puOK`) lists the normal
children of every object in the order of their smallest PU os_index (`sibNormalOK`): `buildTopo f p = some t` implies
`t = orderTopo ..` (`buildTopo_isOrd`: every `some` branch of the definition is `chainOk (orderTopo ..)`), the PU sequence of
`orderTopo` is the leaf list of `mkNode`, and a duplicate-free leaf list of `mkNode` satisfies `Ord` (`mkNode_ord_of_nodup`). -/
theorem C07_buildTopo_sib_normal (f : List Nat) (p : Parsed) (t : Topo) (hb : buildTopo f p = some t)
    (hOK : topoOK t = true) (hp : puOK t = true) : sibNormalOK t = true :=
  buildTopo_sibNormal f p t hb hOK hp

/-- **build_wf_of_parse, strongest partial form**: for every string `s` the parser accepts and every topology `buildTopo` makes of
the result, `WF (toDump t)` holds under `topoOK`, `puOK`, `memOK`, `numaOK` and the memory-children half `sibMemOK` of the fifth
condition — the normal-children half (the order of children by first PU, which is what the core's reordering is about) is
PROVED from `buildTopo`.  MISSING for `parse s = .ok p → buildTopo f p = some t → WF (toDump t)`: `topoOK t` (positive arities,
level types, PU level last, osIdx of the PU level = puIdx: needs the parser's postconditions on types/arities and the `objs`
component of `mkNode`), `puOK t` (available from `C07_order_establishes_sib_partial` once `pu.length` ≥ number of PUs is derived
from the width invariant `C07_widths_no_wrap` through `dropPlain`/`devirt`), `memOK t` / `numaOK t` (NUMA count of `mkNode` =
length of the NUMA level of `toDump`, `numas` is a permutation of the creation numbers), `sibMemOK t` (transport of
`blocksAscending` through the post-order).  The driver evaluates each of them on every case. -/
theorem C07_build_wf_of_parse_partial (s : Bytes) (f : List Nat) (p : Parsed) (t : Topo) (_hparse : parse s = .ok p)
    (hb : buildTopo f p = some t) (hOK : topoOK t = true) (hp : puOK t = true) (hm : memOK t = true) (hn : numaOK t = true)
    (hs : sibMemOK t = true) : WF (toDump t) :=
  build_wf_of_buildTopo f p t hb hOK hp hm hn hs

/-- non-vacuity: "Package:2 Core:2 PU:2(indexes=0,4,2,6,1,5,3,7)" is accepted, built, and meets the hypotheses -/
example : (match parse (str "Package:2 Core:2 PU:2(indexes=0,4,2,6,1,5,3,7)") with
    | .ok p => (match buildTopo defaultFilters p with
      | some t => topoOK t && puOK t && memOK t && numaOK t && sibMemOK t && sibNormalOK t && (t.puIdx == [0, 4, 2, 6, 1, 5, 3, 7])
      | none => false)
    | .error _ => false) = true := by decide

/-- the specification of `mkNode` used above, for every arity list and every duplicate-free index sequence -/
theorem C07_mkNode_orders_leaves (pu : List Nat) (hnd : pu.Nodup) (as : List Nat) (att : List Nat) (osf : List (Nat → Int)) (lp ns : Nat)
    (hpos : ∀ a ∈ as, 1 ≤ a) (hlen : lp + prodL as ≤ pu.length) :
    (mkNode pu as att osf (lp, ns)).1.leaves.length = prodL as ∧ (mkNode pu as att osf (lp, ns)).1.leaves.Nodup ∧
    (∀ x ∈ (mkNode pu as att osf (lp, ns)).1.leaves, ∃ i, lp ≤ i ∧ i < lp + prodL as ∧ pu[i]? = some x) ∧
    (mkNode pu as att osf (lp, ns)).1.key = minL (mkNode pu as att osf (lp, ns)).1.leaves ∧
    Ord as (mkNode pu as att osf (lp, ns)).1.leaves := by
  have := mkNode_spec pu hnd as att osf lp ns hpos hlen
  exact ⟨this.2.1, this.2.2.1, this.2.2.2.1, this.2.2.2.2.1, this.2.2.2.2.2⟩

/-- non-vacuity: the interleaved description Package:2 Core:2 PU:2(indexes=0,4,2,6,1,5,3,7) with one NUMA node at the root meets
every hypothesis of the two theorems above -/
example : (fun (pu : List Nat) t => decide pu.Nodup && topoOK t && decide (prodL (arities t) ≤ pu.length) && memOK t && numaOK t && sibMemOK t)
    [0, 4, 2, 6, 1, 5, 3, 7] (orderTopo [⟨4096, 0⟩] [{ type := tPACKAGE, arity := 2 },
    { type := tCORE, arity := 2 }, { type := tPU, arity := 2, os := some [0, 4, 2, 6, 1, 5, 3, 7] }] [0, 4, 2, 6, 1, 5, 3, 7] [0]) = true := by decide
example : Ord [2, 2] [0, 2, 1, 3] := by
  refine ⟨fun r hr => ⟨fun r' hr' => trivial, fun r' hr' => ?_⟩, fun r hr => ?_⟩
  · have h1 : r = 0 ∨ r = 1 := by omega
    have h2 : r' = 0 := by omega
    subst h2
    rcases h1 with rfl | rfl <;> decide
  · have : r = 0 := by omega
    subst this; decide

/-! ### export_fixpoint — general, for the flag word NO_ATTRS | IGNORE_MEMORY -/

/-- **export / re-import fixpoint, partial.**  For EVERY abstract topology `t` (any depth, arities, memory, indexes) whose
levels carry canonical type names (`specsOf t.levels = some specs`: e.g. every cache level has the depth and kind of its
type) and obey the parser's documented limits (`acceptsB specs`: one PU level, last; at most one Package/Die/Core level;
at most 125 levels; number of PUs fits an unsigned long), under the flags NO_ATTRS | IGNORE_MEMORY:
(1) hwloc_topology_export_synthetic succeeds and writes exactly the canonical description `printDesc specs`;
(2) `parse` accepts that string and reads back exactly the exported level types and arities, below the Machine root and the
    implicit NUMANode level;
(3) the exported string depends on the level structure (type, cache depth/kind, arity per level) only: every topology with
    that structure - in particular the re-imported one - exports to the same string (export∘import∘export = export).
PARTIAL: the other 15 flag words (attributes, memory children, index lists in the exported string) and the step
"`buildTopo` of the re-parsed levels has these level keys" are not proved in general; they are checked per generated
case by the engine (ops `fix`, all flag words), where the three claims above are also re-evaluated against hwloc's string. -/
theorem C07_export_fixpoint_partial (t : Topo) (specs : List LSpec) (hs : specsOf t.levels = some specs)
    (ha : acceptsB specs = true) :
    (exportChunks t fixFlags).ok = true ∧ text (exportChunks t fixFlags).chunks = printDesc specs ∧
    (∃ p, parse (text (exportChunks t fixFlags).chunks) = .ok p ∧
      p.levels.map (·.attr.type) = expectedTypes specs ∧ p.levels.map (·.arity) = expectedArities specs) ∧
    ∀ t' : Topo, t'.levels.map levelKey = t.levels.map levelKey →
      (exportChunks t' fixFlags).ok = true ∧ text (exportChunks t' fixFlags).chunks = text (exportChunks t fixFlags).chunks := by
  obtain ⟨h1, h2⟩ := export_fix_text t specs hs
  refine ⟨h1, h2, ?_, ?_⟩
  · rw [h2]; exact parse_faithful specs (acceptsB_sound specs ha)
  · intro t' hk
    have hs' : specsOf t'.levels = some specs := by rw [specsOf_congr t.levels t'.levels hk]; exact hs
    obtain ⟨h3, h4⟩ := export_fix_text t' specs hs'
    exact ⟨h3, by rw [h4, h2]⟩

/-- non-vacuity: Package:3 [2 NUMA] / L3:2 / Core:2 / PU:2 exports to "Package:3 L3Cache:2 Core:2 PU:2" -/
example : (fun t => (specsOf t.levels).map (fun s => (acceptsB s, printDesc s)))
    (orderTopo [] [{ type := tPACKAGE, arity := 3, mem := [⟨1024, 0⟩, ⟨2048, 512⟩] },
      { type := tL1 + 2, arity := 2, cdepth := 3, ctype := 0, size := 1048576 }, { type := tCORE, arity := 2 }, { type := tPU, arity := 2 }]
      (List.range 24) (List.range 6)) = some (true, str "Package:3 L3Cache:2 Core:2 PU:2") := by decide

/-- the name-stability test depends on the level keys only -/
theorem nameStable_congr (fl : Nat) (ls ls' : List NLevel) (hk : ls'.map levelKey = ls.map levelKey) :
    ls'.all (nameStable fl) = ls.all (nameStable fl) := by
  have e : ∀ l : List NLevel, l.all (nameStable fl) = (l.map levelKey).all (fun k => fl == 10 || (k.1 != tPACKAGE && k.1 != tDIE && (fl == 14 || !isCacheT k.1))) := by
    intro l; rw [List.all_map]; rfl
  rw [e, e, hk]

/-- **export / re-import fixpoint, the other flag words without attributes and memory (partial).**  The statement of
`C07_export_fixpoint_partial` for the four flag words NO_ATTRS | IGNORE_MEMORY [| NO_EXTENDED_TYPES] [| V1] (10, 11, 14, 15:
`fixFlagsB`), for every topology whose level names these flags do not change (`nameStable`: no Package / Die level under V1 or
NO_EXTENDED_TYPES — they are exported as "Socket" / "Group" —, no cache level under NO_EXTENDED_TYPES — exported as "Cache";
these are exactly the situations of the known findings F34 / F35, where the round trip is NOT a fixpoint) and, under V1, whose
NUMA nodes hang from at most one depth (`hv1`, the test hwloc_topology_export_synthetic itself makes before it looks at
IGNORE_MEMORY): export succeeds and is `printDesc specs`; `parse` reads it back as exactly these types and arities; every topology
with the same level keys (and the same V1 restriction) exports to the same string.
PARTIAL: the 12 flag words without NO_ATTRS or without IGNORE_MEMORY (attributes, memory children, index lists in the string;
`parse_faithful` does not cover attributes) and the step "`buildTopo` of the re-parsed levels has these level keys" stay engine
oracles per case. -/
theorem C07_export_fixpoint_flags_partial (fl : Nat) (t : Topo) (specs : List LSpec) (hf : fixFlagsB fl = true)
    (hst : t.levels.all (nameStable fl) = true) (hs : specsOf t.levels = some specs) (ha : acceptsB specs = true)
    (hv1 : hasFlag fl flagV1 = true → (if t.rootMem.isEmpty then 0 else 1) + (t.levels.filter (fun l => !l.mem.isEmpty)).length ≤ 1) :
    (exportChunks t fl).ok = true ∧ text (exportChunks t fl).chunks = printDesc specs ∧
    (∃ p, parse (text (exportChunks t fl).chunks) = .ok p ∧
      p.levels.map (·.attr.type) = expectedTypes specs ∧ p.levels.map (·.arity) = expectedArities specs) ∧
    ∀ t' : Topo, t'.levels.map levelKey = t.levels.map levelKey →
      (hasFlag fl flagV1 = true → (if t'.rootMem.isEmpty then 0 else 1) + (t'.levels.filter (fun l => !l.mem.isEmpty)).length ≤ 1) →
      (exportChunks t' fl).ok = true ∧ text (exportChunks t' fl).chunks = text (exportChunks t fl).chunks := by
  obtain ⟨h1, h2⟩ := export_fix_text_flags fl t specs hf hst hs hv1
  refine ⟨h1, h2, ?_, ?_⟩
  · rw [h2]; exact parse_faithful specs (acceptsB_sound specs ha)
  · intro t' hk hv1'
    have hs' : specsOf t'.levels = some specs := by rw [specsOf_congr t.levels t'.levels hk]; exact hs
    have hst' : t'.levels.all (nameStable fl) = true := by rw [nameStable_congr fl t.levels t'.levels hk]; exact hst
    obtain ⟨h3, h4⟩ := export_fix_text_flags fl t' specs hf hst' hs' hv1'
    exact ⟨h3, by rw [h4, h2]⟩

/-- non-vacuity: Group:3 [2 NUMA] / Core:2 / PU:2 under all four flag words exports to "Group:3 Core:2 PU:2" -/
example : [10, 11, 14, 15].all (fun fl => (fun t => fixFlagsB fl && t.levels.all (nameStable fl) &&
      (specsOf t.levels).map (fun s => (acceptsB s, printDesc s)) == some (true, str "Group:3 Core:2 PU:2") &&
      decide ((if t.rootMem.isEmpty then 0 else 1) + (t.levels.filter (fun l => !l.mem.isEmpty)).length ≤ 1))
    (orderTopo [] [{ type := tGROUP, arity := 3, mem := [⟨1024, 0⟩, ⟨2048, 512⟩] }, { type := tCORE, arity := 2 }, { type := tPU, arity := 2 }]
      (List.range 12) (List.range 6))) = true := by decide

/-! ### attached NUMA nodes and type filters -/

/-- **every NUMA node of the description is present after load, whatever the type filters**: the NUMA nodes an accepted
description describes (`census`, compared on every loaded case with the NUMA nodes of the real topology: os_index, local
memory, memory-side cache, cpuset) are one per object of every level per `[NUMA...]` item attached to it (plus the objects
of a NUMANode level) — no filter of a normal object type appears: a node attached to a level whose objects are not
built (I-caches by default, any type set to KEEP_NONE) is still there -/
theorem C07_attached_numa_present (mc : Bool) (p : Parsed) : (census mc p).length = describedNumas p :=
  census_length mc p

/-- ... and only the memory-side caches depend on a filter (the MemCache one): os_index, local memory and cpuset of every node
are the same under all filters -/
theorem C07_numa_census_filter_independent (a b : Bool) (p : Parsed) :
    (census a p).map (fun r => (r.os, r.mem, r.cpus)) = (census b p).map (fun r => (r.os, r.mem, r.cpus)) :=
  census_filter_indep a b p

/-- hwloc_topology_set_type_filter cannot filter out PUs, NUMA nodes or the Machine, and never removes Groups from KEEP_STRUCTURE
to KEEP_ALL: for every request list -/
theorem C07_unfilterable_types (req : List (Option Nat)) :
    keeps (effFilters req) tPU = true ∧ keeps (effFilters req) tNUMA = true ∧ keeps (effFilters req) tMACHINE = true ∧
    (effFilters req)[tGROUP]?.getD 0 ≠ fKeepAll := by
  refine ⟨?_, ?_, ?_, ?_⟩
  · unfold keeps; rw [effFilters_get req tPU (by decide)]
    cases req[tPU]?.getD none with
    | none => decide
    | some v => simp only [applyReq, setFilter, tPU, true_or, if_true]; split <;> decide
  · unfold keeps; rw [effFilters_get req tNUMA (by decide)]
    cases req[tNUMA]?.getD none with
    | none => decide
    | some v => simp only [applyReq, setFilter, tNUMA, tPU, true_or, or_true, if_true]; split <;> decide
  · unfold keeps; rw [effFilters_get req tMACHINE (by decide)]
    cases req[tMACHINE]?.getD none with
    | none => decide
    | some v => simp only [applyReq, setFilter, tMACHINE, tPU, tNUMA, or_true, if_true]; split <;> decide
  · rw [effFilters_get req tGROUP (by decide)]
    cases req[tGROUP]?.getD none with
    | none => decide
    | some v =>
      by_cases hv : v = fKeepAll ∨ v = fKeepImportant
      · rcases hv with rfl | rfl <;> decide
      · have h1 : setFilter tGROUP (initFilters[tGROUP]?.getD 0) v = v := by
          unfold setFilter
          rw [if_neg (by decide), if_neg (by decide), if_pos rfl, if_neg hv]
        simp only [applyReq, h1]
        intro h0; exact hv (Or.inl h0)

/-- **removing the levels that are not built loses no NUMA node**, for every chain of levels, every marking of levels as
filtered out (`virt`) and every memory attached to them: when `devirt` (the step of `buildTopo` that models what the core does
with the NUMA nodes hwloc__look_synthetic inserts for a level whose objects it does not create) succeeds, the resulting chain
has exactly as many NUMA nodes (memory children per object x objects per level, root included) as the description, and no
unbuilt level is left -/
theorem C07_filtered_levels_keep_numas (ls ls' : List NLevel) (rm rm' : List MemChild)
    (h : devirt ls [] rm 1 [] = some (ls', rm')) :
    rm'.length + numaCountFrom 1 ls' = rm.length + numaCountFrom 1 ls ∧ ∀ l ∈ ls', l.virt = false :=
  ⟨devirt_keeps_numas ls ls' rm rm' h, devirt_no_virt ls [] rm 1 [] (ls', rm') (by simp) h⟩

/-- non-vacuity: "Package:2 L1iCache:2 [NUMA] [NUMA] PU:2" with the I-cache level not built: a Group level takes its place and
carries the four NUMA nodes -/
example : devirt [{ type := tPACKAGE, arity := 2 }, { type := tL1I, arity := 2, virt := true, mem := [⟨1, 0⟩, ⟨2, 0⟩] }, { type := tPU, arity := 2 }]
    [] [] 1 [] = some ([{ type := tPACKAGE, arity := 2 }, { type := tGROUP, arity := 2, memGroup := true, mem := [⟨1, 0⟩, ⟨2, 0⟩] },
      { type := tPU, arity := 2 }], []) := by decide

/-- descriptions with NUMA nodes attached to a level that is not built, with the type-filter requests made before load
(`none` = default): I-cache levels under the default filters, Package / Core / L2 set to KEEP_NONE; every placement rule of
`devirt` (Group in place of the missing level, the only child, the parent, the root, above a PU) -/
def filteredFamily : List (String × List (Option Nat)) :=
  let dflt : List (Option Nat) := []
  let none1 (t : Nat) : List (Option Nat) := (List.range tMAX).map (fun i => if i = t then some fKeepNone else none)
  [ ("Package:2 L1iCache:2 [NUMA(memory=1GB)] PU:2", dflt),
    ("Package:2 [NUMA(memory=1GB)] [NUMA(memory=1MB memorysidecachesize=4kB)] Core:2 PU:2", none1 tPACKAGE),
    ("Package:2 L2Cache:1 [NUMA] Core:2 PU:1", none1 tL2),
    ("Package:2 L1iCache:2 [NUMA] Core:1 PU:2", dflt),
    ("L1iCache:1 [NUMA] Core:2 PU:1", dflt),
    ("Core:2 L1iCache:1 [NUMA] PU:1", dflt),
    ("Core:2 L1iCache:2 [NUMA] PU:1", dflt),
    ("[NUMA] Package:2 L3iCache:2 [NUMA] L2iCache:1 L1iCache:2 Core:1 PU:1", dflt),
    ("Package:2 Core:2 [NUMA(indexes=3,2,1,0)] PU:2", none1 tCORE),
    ("Package:2 L1iCache:2 [NUMA] PU:2", legacyReq) ]

def familyOk (c : String × List (Option Nat)) : Bool :=
  match parse (str c.1) with
  | .ok p =>
    match buildTopo (effFilters c.2) p with
    | some t => numaCount t == describedNumas p && decide (0 < describedNumas p) && (wfCheck (toDump t)).isEmpty &&
                t.levels.all (fun l => keeps (effFilters c.2) l.type)
    | none => false
  | .error _ => false

theorem filteredFamily_checked : filteredFamily.all familyOk = true := by decide +kernel

/-- **attached NUMA nodes survive the filtering of their level, bounded** (complete finite table, kernel-evaluated): each
description of the family is accepted and Regular under its filters, the topology `buildTopo` predicts contains no object
of a filtered-out type, has exactly the NUMA nodes written in the description, and its complete dump is well-formed.  For all
other descriptions and filters the same comparison runs on every generated case (engine `synthetic`, ops `load` / `numas`). -/
theorem C07_attached_numa_survive_filters_bounded : ∀ c ∈ filteredFamily, ∃ p t,
    parse (str c.1) = .ok p ∧ buildTopo (effFilters c.2) p = some t ∧ numaCount t = describedNumas p ∧ 0 < describedNumas p ∧
    WF (toDump t) ∧ ∀ l ∈ t.levels, keeps (effFilters c.2) l.type = true := by
  intro c hc
  have h := filteredFamily_checked
  rw [List.all_eq_true] at h
  have hc' := h c hc
  unfold familyOk at hc'
  split at hc'
  · rename_i p hp
    split at hc'
    · rename_i t ht
      simp only [Bool.and_eq_true, beq_iff_eq, decide_eq_true_eq, List.all_eq_true] at hc'
      refine ⟨p, t, hp, ht, hc'.1.1.1, hc'.1.1.2, ?_, hc'.2⟩
      rw [← wfCheck_iff]; simpa using hc'.1.2
    · cases hc'
  · cases hc'

/-! ### non-vacuity and regression witnesses (the former defect inputs, now ordinary cases) -/

/-- 125 x "Group:1" + "PU:2" (former F04): accepted, the implicit NUMA level makes 128 levels -/
def f04String : Bytes := (List.replicate 125 (str "Group:1 ")).flatten ++ str "PU:2"

set_option maxRecDepth 100000 in
theorem C07_126_levels_accepted :
    (match parse f04String with | .ok p => (p.levels.length, p.log.foldl max 0) | .error _ => (0, 0)) = (128, 127) := by
  decide +kernel

/-- "indexes=<type of a deeper level>" (former assert(step) abort): accepted, the attribute is ignored -/
theorem C07_deeper_level_interleave_ignored :
    (match parse (str "Package:2(indexes=Core) Core:2 PU:2") with
     | .ok p => some (p.levels.map (·.idx.arr)) | .error _ => none) = some [none, none, none, none, none] := by
  decide

/-- white space after a trailing ':' (former heap overflow of `loops[]`): the attribute is ignored -/
theorem C07_trailing_colon_ignored :
    (match parse (str "PU:4(indexes=2*2: 1*2:3*4:5*6)") with
     | .ok p => some (p.levels.map (·.idx.arr)) | .error _ => none) = some [none, none, none] := by
  decide

/-- the loops `1*3:2*2` on 6 objects pass the range test but repeat 1 and 2: rejected by the duplicate check -/
theorem C07_overlapping_strides_rejected :
    genArray 6 [⟨1, 3⟩, ⟨2, 2⟩] = [0, 1, 5, 3, 1, 2] ∧
    (processIndexes [] { str := some (str "1*3:2*2)", 7) } 6).1 = .arr none := by
  decide

/-- a type interleaving naming the PU level itself no longer depends on uninitialised memory -/
theorem C07_interleave_by_pu :
    (match parse (str "Package:2 PU:2(indexes=Package:PU)") with
     | .ok p => some (p.levels.map (·.idx.arr)) | .error _ => none) = some [none, none, none, none] := by
  decide

/-- non-vacuity of C07_parse_faithful: "Package:2 L2Cache:3 Core:1 PU:2" -/
def exLs : List LSpec := [⟨⟨str "Package", { type := tPACKAGE }⟩, 2⟩, ⟨⟨str "L2Cache", { type := tL2, depth := 2, ctype := 0 }⟩, 3⟩,
  ⟨⟨str "Core", { type := tCORE }⟩, 1⟩, ⟨⟨str "PU", { type := tPU }⟩, 2⟩]
example : Accepts exLs where
  ok := by
    intro l hl
    simp only [exLs, List.mem_cons, List.not_mem_nil, or_false] at hl
    rcases hl with rfl | rfl | rfl | rfl <;> exact ⟨by decide, by decide, by decide⟩
  nonempty := by decide
  lastPU := by
    intro l hl
    simp only [exLs, List.getLast?_cons_cons, List.getLast?_singleton, Option.some.injEq] at hl
    subst hl; rfl
  onePU := by decide
  pack := by decide
  die := by decide
  numa := by decide
  core := by decide
  depth := by decide
  fits := by decide
example : printDesc exLs = str "Package:2 L2Cache:3 Core:1 PU:2" ∧
    expectedTypes exLs = [tMACHINE, tNUMA, tPACKAGE, tL2, tCORE, tPU] ∧ expectedArities exLs = [1, 2, 3, 1, 2, 0] := by decide

example : (match parse (str "pack:2 core:2 pu:2(indexes=0,4,2,6,1,5,3,7)") with
    | .ok p => p.levels.map (fun l => (l.attr.type, l.arity, l.width, l.idx.arr)) | _ => []) =
    [(0, 1, 1, none), (14, 2, 1, none), (1, 2, 2, none), (3, 2, 4, none), (4, 0, 8, some [0, 4, 2, 6, 1, 5, 3, 7])] := by decide

example : (match parse (str "node:2 core:2 pu:2(indexes=node:core)") with
    | .ok p => (lvAt p.levels 3).idx.arr | _ => none) = some [0, 4, 2, 6, 1, 5, 3, 7] := by decide

end Hw.Props.C07
