/-
  Property C01 — every successfully loaded topology is a well-formed object tree.

  `WF : Dump → Prop` (Hw.Topo.WF) is the declarative conjunction of every clause of the property over
  the observable content of a topology (the dump the harness reads through the public API).  The
  theorems here: the executable oracle run on every loaded topology is exactly `WF`; and the
  consequences of `WF` that the other properties build on.  What is NOT proved here (partial claim):
  that the C loader establishes `WF` — that is established by running the oracle on every topology the
  `topo-load` engine loads (sources x filters x flags), see DESIGN.md.
-/
import Hw.Topo.WFLemmas0
import Hw.Topo.InsertLemmas
namespace Hw.Props.C01
open Hw.Topo

/-- the oracle neither misses a violated clause nor flags a satisfied one -/
theorem C01_oracle_exact (d : Dump) : wfCheck d = [] ↔ WF d := wfCheck_iff d

theorem C01_gp_index_unique (d : Dump) (h : WF d) : (d.objs.map (·.gp)).Nodup := h.gp_injective
theorem C01_pu_os_index_unique (d : Dump) (h : WF d) :
    ((d.objs.filter (fun o => o.type == tPU)).map (·.osidx)).Nodup := h.pu_osidx_unique
theorem C01_numa_os_index_unique (d : Dump) (h : WF d) :
    ((d.objs.filter (fun o => o.type == tNUMA)).map (·.osidx)).Nodup := h.numa_osidx_unique
theorem C01_single_machine_root (d : Dump) (h : WF d) (o : Obj) (ho : o ∈ d.objs) (ht : o.type = tMACHINE) :
    o.id = 0 := h.machine_is_root o ho ht
theorem C01_no_filtered_type (d : Dump) (h : WF d) (o : Obj) (ho : o ∈ d.objs) :
    (d.filters[o.type]?).getD 0 ≠ 1 := h.not_filtered o ho
theorem C01_set_in_complete (d : Dump) (h : WF d) (o : Obj) (ho : o ∈ d.objs) :
    subset (o.cpuset.getD 0) (o.ccpuset.getD 0) = true ∧ subset (o.nodeset.getD 0) (o.cnodeset.getD 0) = true :=
  h.set_in_complete o ho
theorem C01_pu_cpuset (d : Dump) (h : WF d) (o : Obj) (ho : o ∈ d.objs) (ht : o.type = tPU) :
    0 ≤ o.osidx ∧ o.cpuset = some (single o.osidx.toNat) ∧ o.ccpuset = some (single o.osidx.toNat) :=
  h.pu_cpuset o ho ht
theorem C01_numa_nodeset (d : Dump) (h : WF d) (o : Obj) (ho : o ∈ d.objs) (ht : o.type = tNUMA) :
    0 ≤ o.osidx ∧ o.nodeset = some (single o.osidx.toNat) ∧ o.cnodeset = some (single o.osidx.toNat) :=
  h.numa_nodeset o ho ht
theorem C01_allowed_sets (d : Dump) (h : WF d) : ∃ r, d.objs[0]? = some r ∧
    subset (d.allowedCpuset.getD 0) (r.cpuset.getD 0) = true ∧ subset (d.allowedNodeset.getD 0) (r.nodeset.getD 0) = true ∧
    (flagIncludeDisallowed d = false → d.allowedCpuset = r.cpuset ∧ d.allowedNodeset = r.nodeset) := h.allowed


/-! ### the insertion core of every discovery back end (`hwloc__insert_object_by_cpuset`, model `Hw.Topo.Ins`) -/

open Hw.Topo.Ins in
/-- every loader builds the normal-object tree by calling the insertion routine once per discovered object.  For ANY sequence of
objects (any number, any order, any sets inside the root's — equal, nested, disjoint or intersecting ones included) inserted
into a laminar tree, the routine never loses an object, and the final tree is laminar again: at every level the children's sets
are pairwise disjoint and included in their parent's (the inclusion / disjointness clauses of the property, by construction),
every object present before is still there, and a gp_index appears at most as often as it was inserted -/
theorem C01_discovery_by_insertion (t : T) (objs : List IObj) (hL : Lam t) (hs : ∀ o ∈ objs, sub o.key t.o.key) :
    ∃ t', insAll t objs = some t' ∧ Lam t' ∧ t'.o.key = t.o.key ∧
      ∀ g, cntT g t ≤ cntT g t' ∧ cntT g t' ≤ cntT g t + (objs.map (·.gp)).count g :=
  insAll_good objs t hL hs

/-! non-vacuity: three objects (a package, a PU inside it, an object that intersects the package and is refused) -/
section
open Hw.Topo.Ins
example : (match insAll (.node { gp := 0, type := tMACHINE, key := 0xff } [])
      [{ gp := 1, type := tPACKAGE, key := 0x0f }, { gp := 2, type := tPU, key := 0x1 }, { gp := 3, type := tCORE, key := 0x18 }] with
    | some t' => rows 0 t' | none => []) = [(0, 0, [], []), (1, 0, [], []), (2, 1, [], [])] := by decide +kernel
end

end Hw.Props.C01
