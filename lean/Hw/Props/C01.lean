/-
  Property C01 — every successfully loaded topology is a well-formed object tree.

  `WF : Dump → Prop` (Hw.Topo.WF) is the declarative conjunction of every clause of the property over
  the observable content of a topology (the dump the harness reads through the public API).  The
  theorems here: the executable oracle run on every loaded topology is exactly `WF`; and the
  consequences of `WF` that the other properties build on.  What is NOT proved here (partial claim):
  that the C loader establishes `WF` — that is established by running the oracle on every topology the
  `topo-load` engine loads (sources x filters x flags), see DESIGN.md.
-/
import Hw.Topo.WFLemmas0
namespace Hw.Props.C01
open Hw.Topo

/-- the oracle neither misses a violated clause nor flags a satisfied one -/
theorem C01_oracle_exact (d : Dump) : wfCheck d = [] ↔ WF d := wfCheck_iff d

theorem C01_gp_index_unique (d : Dump) (h : WF d) : (d.objs.map (·.gp)).Nodup := h.gp_injective
theorem C01_pu_os_index_unique (d : Dump) (h : WF d) :
    ((d.objs.filter (fun o => o.type == tPU)).map (·.osidx)).Nodup := h.pu_osidx_unique
theorem C01_numa_os_index_unique (d : Dump) (h : WF d) :
    ((d.objs.filter (fun o => o.type == tNUMA)).map (·.osidx)).Nodup := h.numa_osidx_unique
theorem C01_single_machine_root (d : Dump) (h : WF d) (o : Obj) (ho : o ∈ d.objs) (ht : o.type = tMACHINE) :
    o.id = 0 := h.machine_is_root o ho ht
theorem C01_no_filtered_type (d : Dump) (h : WF d) (o : Obj) (ho : o ∈ d.objs) :
    (d.filters[o.type]?).getD 0 ≠ 1 := h.not_filtered o ho
theorem C01_set_in_complete (d : Dump) (h : WF d) (o : Obj) (ho : o ∈ d.objs) :
    subset (o.cpuset.getD 0) (o.ccpuset.getD 0) = true ∧ subset (o.nodeset.getD 0) (o.cnodeset.getD 0) = true :=
  h.set_in_complete o ho
theorem C01_pu_cpuset (d : Dump) (h : WF d) (o : Obj) (ho : o ∈ d.objs) (ht : o.type = tPU) :
    0 ≤ o.osidx ∧ o.cpuset = some (single o.osidx.toNat) ∧ o.ccpuset = some (single o.osidx.toNat) :=
  h.pu_cpuset o ho ht
theorem C01_numa_nodeset (d : Dump) (h : WF d) (o : Obj) (ho : o ∈ d.objs) (ht : o.type = tNUMA) :
    0 ≤ o.osidx ∧ o.nodeset = some (single o.osidx.toNat) ∧ o.cnodeset = some (single o.osidx.toNat) :=
  h.numa_nodeset o ho ht
theorem C01_allowed_sets (d : Dump) (h : WF d) : ∃ r, d.objs[0]? = some r ∧
    subset (d.allowedCpuset.getD 0) (r.cpuset.getD 0) = true ∧ subset (d.allowedNodeset.getD 0) (r.nodeset.getD 0) = true ∧
    (flagIncludeDisallowed d = false → d.allowedCpuset = r.cpuset ∧ d.allowedNodeset = r.nodeset) := h.allowed

end Hw.Props.C01
