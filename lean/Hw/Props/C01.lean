/-
  Property C01 — every successfully loaded topology is a well-formed object tree.

  `WF : Dump → Prop` (Hw.Topo.WF) is the declarative conjunction of every clause of the property over
  the observable content of a topology (the dump the harness reads through the public API).  The
  theorems here: the executable oracle run on every loaded topology is exactly `WF`; and the
  consequences of `WF` that the other properties build on.  What is NOT proved here (partial claim):
  that the C loader establishes `WF` — that is established by running the oracle on every topology the
  `topo-load` engine loads (sources x filters x flags), see DESIGN.md.
-/
import Hw.Topo.WFLemmas0
import Hw.Topo.InsertLemmas
import Hw.Topo.SetStagePre
import Hw.Topo.SetStageShape
import Hw.Topo.SetStageNested
import Hw.Topo.RenderLemmas
import Hw.Topo.RenderOf
import Hw.Topo.StageCompose
import Hw.Topo.StageDecomp
import Hw.Topo.StageTyping
import Hw.Topo.StageSetsOK
import Hw.Topo.StageRemoveEmptyKept
import Hw.Topo.StageSymmetricLemmas
import Hw.Topo.StageMemoryDump
import Hw.Topo.StageUnique
import Hw.Topo.RenderCover
import Hw.Topo.StageSetsMerge
import Hw.Topo.RestrictMerge
import Hw.Topo.StageNuma
import Hw.Topo.RenderTop
namespace Hw.Props.C01
open Hw.Topo

/-- the oracle neither misses a violated clause nor flags a satisfied one -/
theorem C01_oracle_exact (d : Dump) : wfCheck d = [] ↔ WF d := wfCheck_iff d

theorem C01_gp_index_unique (d : Dump) (h : WF d) : (d.objs.map (·.gp)).Nodup := h.gp_injective
theorem C01_pu_os_index_unique (d : Dump) (h : WF d) :
    ((d.objs.filter (fun o => o.type == tPU)).map (·.osidx)).Nodup := h.pu_osidx_unique
theorem C01_numa_os_index_unique (d : Dump) (h : WF d) :
    ((d.objs.filter (fun o => o.type == tNUMA)).map (·.osidx)).Nodup := h.numa_osidx_unique
theorem C01_single_machine_root (d : Dump) (h : WF d) (o : Obj) (ho : o ∈ d.objs) (ht : o.type = tMACHINE) :
    o.id = 0 := h.machine_is_root o ho ht
theorem C01_no_filtered_type (d : Dump) (h : WF d) (o : Obj) (ho : o ∈ d.objs) :
    (d.filters[o.type]?).getD 0 ≠ 1 := h.not_filtered o ho
theorem C01_set_in_complete (d : Dump) (h : WF d) (o : Obj) (ho : o ∈ d.objs) :
    subset (o.cpuset.getD 0) (o.ccpuset.getD 0) = true ∧ subset (o.nodeset.getD 0) (o.cnodeset.getD 0) = true :=
  h.set_in_complete o ho
theorem C01_pu_cpuset (d : Dump) (h : WF d) (o : Obj) (ho : o ∈ d.objs) (ht : o.type = tPU) :
    0 ≤ o.osidx ∧ o.cpuset = some (single o.osidx.toNat) ∧ o.ccpuset = some (single o.osidx.toNat) :=
  h.pu_cpuset o ho ht
theorem C01_numa_nodeset (d : Dump) (h : WF d) (o : Obj) (ho : o ∈ d.objs) (ht : o.type = tNUMA) :
    0 ≤ o.osidx ∧ o.nodeset = some (single o.osidx.toNat) ∧ o.cnodeset = some (single o.osidx.toNat) :=
  h.numa_nodeset o ho ht
theorem C01_allowed_sets (d : Dump) (h : WF d) : ∃ r, d.objs[0]? = some r ∧
    subset (d.allowedCpuset.getD 0) (r.cpuset.getD 0) = true ∧ subset (d.allowedNodeset.getD 0) (r.nodeset.getD 0) = true ∧
    (flagIncludeDisallowed d = false → d.allowedCpuset = r.cpuset ∧ d.allowedNodeset = r.nodeset) := h.allowed


/-! ### the insertion core of every discovery back end (`hwloc__insert_object_by_cpuset`, model `Hw.Topo.Ins`) -/

open Hw.Topo.Ins in
/-- every loader builds the normal-object tree by calling the insertion routine once per discovered object.  For ANY sequence of
objects (any number, any order, any sets inside the root's — equal, nested, disjoint or intersecting ones included) inserted
into a laminar tree, the routine never loses an object, and the final tree is laminar again: at every level the children's sets
are pairwise disjoint and included in their parent's (the inclusion / disjointness clauses of the property, by construction),
every object present before is still there, and a gp_index appears at most as often as it was inserted -/
theorem C01_discovery_by_insertion (t : T) (objs : List IObj) (hL : Lam t) (hs : ∀ o ∈ objs, sub o.key t.o.key) :
    ∃ t', insAll t objs = some t' ∧ Lam t' ∧ t'.o.key = t.o.key ∧
      ∀ g, cntT g t ≤ cntT g t' ∧ cntT g t' ≤ cntT g t + (objs.map (·.gp)).count g :=
  insAll_good objs t hL hs

/-! non-vacuity: three objects (a package, a PU inside it, an object that intersects the package and is refused) -/
section
open Hw.Topo.Ins
example : (match insAll (.node { gp := 0, type := tMACHINE, key := 0xff } [])
      [{ gp := 1, type := tPACKAGE, key := 0x0f }, { gp := 2, type := tPU, key := 0x1 }, { gp := 3, type := tCORE, key := 0x18 }] with
    | some t' => rows 0 t' | none => []) = [(0, 0, [], []), (1, 0, [], []), (2, 1, [], [])] := by decide +kernel
end

/-! ### the set pipeline of `hwloc_discover` ("Fixup root sets", `propagate_nodeset`, `fixup_sets`, `remove_unused_sets`; model
`Hw.Topo.SetStage.stage`, tied to the code by the `set-stage` engine, which runs it on the tree that the library dumps before the
stage and compares with the tree dumped after it)

For ANY tree satisfying the decidable precondition `PreSets` (evaluated by the engine on every real input), at EVERY node of the
output (`AllN P t` = `P o kids mem` holds at every node `o` with normal children `kids` and memory children `mem`): -/
section SetStage
open Hw.Topo.SetStage

/-- the precondition is decidable: the executable check the driver runs is exactly `PreSets` -/
theorem C01_setstage_pre_decidable (i : In) : preSets i = true ↔ PreSets i := preSets_iff i

/-- WF clauses "sets-presence" and "set-in-complete": after the stage every object has its four sets, cpuset ⊆ complete_cpuset and
nodeset ⊆ complete_nodeset -/
theorem C01_setstage_set_in_complete (i : In) (h : PreSets i) :
    AllN (fun o _ _ => ∃ cc cn, o.ccpuset = some cc ∧ o.cnodeset = some cn ∧ Sub o.cpuset cc ∧ Sub o.nodeset cn) (stage i).root :=
  AllN.imp (fun _ _ _ hp => hp.1) _ (stage_post i h)

/-- WF clause "set-in-parent": each of the four sets of every normal or memory child lies inside the parent's -/
theorem C01_setstage_set_in_parent (i : In) (h : PreSets i) :
    AllN (fun o kids mem => ∀ c ∈ kids ++ mem, Sub c.o.cpuset o.cpuset ∧ Sub (c.o.ccpuset.getD 0) (o.ccpuset.getD 0) ∧
                                               Sub c.o.nodeset o.nodeset ∧ Sub (c.o.cnodeset.getD 0) (o.cnodeset.getD 0)) (stage i).root :=
  AllN.imp (fun _ _ _ hp c hc => by
    rcases List.mem_append.1 hc with hc | hc
    · exact hp.2.1 c hc
    · exact (hp.2.2.1 c hc).1) _ (stage_post i h)

/-- WF clause "memory-child-shares-cpuset": memory children carry their parent's cpuset and complete_cpuset -/
theorem C01_setstage_memory_child_shares_cpuset (i : In) (h : PreSets i) :
    AllN (fun o _ mem => ∀ m ∈ mem, m.o.cpuset = o.cpuset ∧ m.o.ccpuset = o.ccpuset) (stage i).root :=
  AllN.imp (fun _ _ _ hp m hm => (hp.2.2.1 m hm).2) _ (stage_post i h)

/-- the laminar structure built by the insertion routine survives: the cpusets of the normal children of every object stay pairwise
disjoint (and, by `C01_setstage_set_in_parent`, inside the parent's) -/
theorem C01_setstage_siblings_disjoint (i : In) (h : PreSets i) :
    AllN (fun _ kids _ => (kids.map (·.o.cpuset)).Pairwise Dj) (stage i).root :=
  AllN.imp (fun _ _ _ hp => hp.2.2.2) _ (stage_post i h)

/-- WF clause "nodeset-decomposition": the nodeset of every normal object is the union of what it inherits from the memory children of
its ancestors (`inh`, empty at the root), of its own memory children and of what is attached below its normal children, and these parts
are pairwise disjoint (`Decomp`, Hw/Topo/SetStageDecomp.lean, spells out the five conditions) -/
theorem C01_setstage_nodeset_decomposition (i : In) (h : PreSets i) : Decomp 0 (stage i).root := stage_decomp i h

/-- WF clause "allowed-sets": the allowed sets lie inside the root sets, and are equal to them when INCLUDE_DISALLOWED is not set -/
theorem C01_setstage_allowed_sets (i : In) (h : PreSets i) :
    Sub (stage i).allowedC (stage i).root.o.cpuset ∧ Sub (stage i).allowedN (stage i).root.o.nodeset ∧
    (i.includeDisallowed = false → (stage i).root.o.cpuset = (stage i).allowedC ∧ (stage i).root.o.nodeset = (stage i).allowedN) :=
  stage_allowed i h.covered

/-- WF clauses "pu-allowed" and "numa-allowed" (for every object, not only PUs and NUMA nodes, and without any precondition): when
INCLUDE_DISALLOWED is not set, every cpuset lies inside the allowed cpuset and every nodeset inside the allowed nodeset -/
theorem C01_setstage_within_allowed (i : In) (hf : i.includeDisallowed = false) :
    AllN (fun o _ _ => Sub o.cpuset (stage i).allowedC ∧ Sub o.nodeset (stage i).allowedN) (stage i).root :=
  stage_within_allowed i hf

/-- the stage loses no object and invents none (in this source tree `remove_unused_sets` only intersects sets; objects that become empty
are unlinked later by `remove_empty`): the objects of the output — (gp_index of the parent, in a memory list, gp_index, type, os_index),
depth-first — are a permutation of the input's; only the order of normal children may change.  No precondition. -/
theorem C01_setstage_no_object_lost (i : In) : (ids (-1) false (stage i).root).Perm (ids (-1) false i.root) := stage_ids_perm i

/-! non-vacuity: a machine with an offline processor (bit 6 only in the complete cpuset), two packages each with a NUMA node, the
second package wider than the root cpuset (processors 6 and 7), processor 3 not allowed.  The precondition holds; the stage clips the
second package to the root, gives every object its complete sets and nodesets, hands the parent's cpusets to the NUMA nodes, and
empties the disallowed PU.  Rows: [gp_index, parent (0 for the root), in the memory list, cpuset, complete_cpuset, nodeset, complete_nodeset]. -/
def exPU (gp os : Nat) : ST := .node ⟨gp, tPU, os, 1 <<< os, none, 0, none⟩ [] []
def exNUMA (gp os cpuset : Nat) : ST := .node ⟨gp, tNUMA, os, cpuset, none, 1 <<< os, some (1 <<< os)⟩ [] []
def exIn : In := ⟨false, ⟨false, 0x37⟩, ⟨true, 0⟩,
  .node ⟨1, tMACHINE, 0, 0x3f, some 0x7f, 3, some 7⟩
    [ .node ⟨2, tPACKAGE, 0, 0x07, none, 0, none⟩ [exPU 3 0, exPU 4 1, exPU 5 2] [exNUMA 10 0 0x07],
      .node ⟨6, tPACKAGE, 1, 0xf8, none, 0, none⟩ [exPU 7 3, exPU 8 4, exPU 9 5] [exNUMA 11 1 0xf8] ] []⟩

example : PreSets exIn := (preSets_iff exIn).1 (by decide +kernel)
example : (stage exIn).allowedC = 0x37 ∧ (stage exIn).allowedN = 3 ∧
    (rows (-1) false (stage exIn).root).map
      (fun r => [r.2.2.gp, r.1.toNat, r.2.1.toNat, r.2.2.cpuset, r.2.2.ccpuset.getD 0, r.2.2.nodeset, r.2.2.cnodeset.getD 0]) =
    [[1, 0, 0, 0x37, 0x7f, 3, 7],
     [2, 1, 0, 7, 7, 1, 1], [3, 2, 0, 1, 1, 1, 1], [4, 2, 0, 2, 2, 1, 1], [5, 2, 0, 4, 4, 1, 1], [10, 2, 1, 7, 7, 1, 1],
     [6, 1, 0, 0x30, 0x38, 2, 2], [7, 6, 0, 0, 8, 2, 2], [8, 6, 0, 0x10, 0x10, 2, 2], [9, 6, 0, 0x20, 0x20, 2, 2],
     [11, 6, 1, 0x30, 0x38, 2, 2]] := by decide +kernel
/-! #### memory hierarchies of any depth (a NUMA node behind one or several memory-side caches)

`MemBelow t m`: `m` is a memory child of `t`, or a memory child of a memory child of `t`, and so on.  The clauses above speak about a
node and its direct children; these two state what every memory object inherits from the object its hierarchy is attached to, however
deep it is nested — `remove_unused_sets` has to recurse into memory children for that (engines `topo-load` / `set-stage`: derived
sources with disallowed PUs / NUMA nodes below kept memory-side caches, evidence counters `*nested_memory_and_disallowed_removed`). -/

/-- WF clauses "memory-child-shares-cpuset" and "set-in-parent" along memory chains of any length: every memory object below `o`
carries exactly the cpuset and complete_cpuset of `o`, and its nodeset / complete_nodeset lie inside those of `o` -/
theorem C01_setstage_nested_memory_shares_cpuset (i : In) (h : PreSets i) :
    AllN (fun o kids mem => ∀ m, MemBelow (.node o kids mem) m →
      m.o.cpuset = o.cpuset ∧ m.o.ccpuset = o.ccpuset ∧ Sub m.o.nodeset o.nodeset ∧ Sub (m.o.cnodeset.getD 0) (o.cnodeset.getD 0))
      (stage i).root :=
  AllN.imp (fun _ _ _ hp m hb => ⟨(hp m hb).1, (hp m hb).2.1, (hp m hb).2.2.1, (hp m hb).2.2.2.1⟩) _ (stage_nested_memory i h)

/-- WF clauses "pu-allowed" / "numa-allowed" / "memcache-nodeset" for nested memory objects: when INCLUDE_DISALLOWED is not set, a
memory object at ANY depth below `o` has the (already clipped) cpuset of `o`, inside the allowed cpuset, and a nodeset inside the
allowed nodeset: a disallowed NUMA node behind a memory-side cache ends with an empty nodeset (and is then unlinked by `remove_empty`),
and no disallowed PU survives in its locality -/
theorem C01_setstage_nested_memory_within_allowed (i : In) (h : PreSets i) (hf : i.includeDisallowed = false) :
    AllN (fun o kids mem => ∀ m, MemBelow (.node o kids mem) m →
      m.o.cpuset = o.cpuset ∧ Sub m.o.cpuset (stage i).allowedC ∧ Sub m.o.nodeset (stage i).allowedN) (stage i).root :=
  AllN.imp (fun _ _ _ hp m hb => ⟨(hp m hb).1, (hp m hb).2.2.2.2.1, (hp m hb).2.2.2.2.2⟩) _ (stage_nested_memory_allowed i h hf)

/-! non-vacuity: two packages of four processors; package 0 has a NUMA node behind TWO nested memory-side caches (gp 20 > 21 > 22),
package 1 a NUMA node behind one (gp 23 > 24); processors 3 and 7 and NUMA node 1 are not allowed.  The precondition holds; the stage
gives every nested memory object the clipped cpuset of its package and empties the nodeset of the disallowed node at every depth.
The shallow variant `removeUnusedShallow` (clip the memory children inline, do not recurse: the seeded change C01-r2) leaves the
disallowed processors in gp 21, 22, 24 and the disallowed node in gp 24. -/
def exMem (gp type os cpuset node : Nat) (mem : List ST) : ST := .node ⟨gp, type, os, cpuset, none, 1 <<< node, some (1 <<< node)⟩ [] mem
def exNested : In := ⟨false, ⟨false, 0x77⟩, ⟨false, 1⟩,
  .node ⟨1, tMACHINE, 0, 0xff, some 0xff, 3, some 3⟩
    [ .node ⟨2, tPACKAGE, 0, 0x0f, none, 0, none⟩ [exPU 3 0, exPU 4 1, exPU 5 2, exPU 6 3]
        [exMem 20 tMEMCACHE 0xffffffff 0x0f 0 [exMem 21 tMEMCACHE 0xffffffff 0x0f 0 [exMem 22 tNUMA 0 0x0f 0 []]]],
      .node ⟨7, tPACKAGE, 1, 0xf0, none, 0, none⟩ [exPU 8 4, exPU 9 5, exPU 10 6, exPU 11 7]
        [exMem 23 tMEMCACHE 0xffffffff 0xf0 1 [exMem 24 tNUMA 1 0xf0 1 []]] ] []⟩
def exFmt (t : ST) : List (List Nat) :=
  (rows (-1) false t).map (fun r => [r.2.2.gp, r.1.toNat, r.2.2.cpuset, r.2.2.ccpuset.getD 0, r.2.2.nodeset, r.2.2.cnodeset.getD 0])

example : PreSets exNested := (preSets_iff exNested).1 (by decide +kernel)
example : MemBelow (exMem 20 tMEMCACHE 0 0xf 0 [exMem 21 tMEMCACHE 0 0xf 0 [exMem 22 tNUMA 0 0xf 0 []]]) (exMem 22 tNUMA 0 0xf 0 []) :=
  .deeper (c := exMem 21 tMEMCACHE 0 0xf 0 [exMem 22 tNUMA 0 0xf 0 []]) (List.mem_singleton.2 rfl) (.child (List.mem_singleton.2 rfl))
example : (stage exNested).allowedC = 0x77 ∧ (stage exNested).allowedN = 1 ∧
    exFmt (stage exNested).root =
    [[1, 0, 0x77, 0xff, 1, 3],
     [2, 1, 7, 0xf, 1, 1], [3, 2, 1, 1, 1, 1], [4, 2, 2, 2, 1, 1], [5, 2, 4, 4, 1, 1], [6, 2, 0, 8, 1, 1],
     [20, 2, 7, 0xf, 1, 1], [21, 20, 7, 0xf, 1, 1], [22, 21, 7, 0xf, 1, 1],
     [7, 1, 0x70, 0xf0, 0, 2], [8, 7, 0x10, 0x10, 0, 2], [9, 7, 0x20, 0x20, 0, 2], [10, 7, 0x40, 0x40, 0, 2], [11, 7, 0, 0x80, 0, 2],
     [23, 7, 0x70, 0xf0, 0, 2], [24, 23, 0x70, 0xf0, 0, 2]] := by decide +kernel
example : (exFmt (removeUnusedShallow 0x77 1 (fixupSets (propagate 0 (fixupRoot exNested.root))))).filter (fun r => r[0]! ≥ 20) =
    [[20, 2, 7, 0xf, 1, 1], [21, 20, 0xf, 0xf, 1, 1], [22, 21, 0xf, 0xf, 1, 1], [23, 7, 0x70, 0xf0, 0, 2], [24, 23, 0xf0, 0xf0, 2, 2]] := by
  decide +kernel
end SetStage

/-! ### links and levels of a loaded topology follow from the renderer equality -/

open Hw.Topo.Restrict in
/-- C01_links_of_render: let `d` be any dump that is a fixed point of the renderer for some typed tree with a normal root
    (`render t hdr ex = d`, PUs are leaves; the engine `topo-load` checks exactly this on every loaded topology with `t = treeOf d`,
    `hdr = hdrOf d`, `ex` = the fields carried by gp from `d` itself: `renderCheck d = []`).  Then the 18 link and level clauses
    of well-formedness hold for `d`: they are consequences of the equality, by the theorems about `render` (which hold for
    ALL trees), not bounded evaluations.  (level0-is-root additionally uses that the root is a Machine.) -/
theorem C01_links_of_render (d : Dump) (t : Tree) (hdr : Hdr) (ex : RObj → Extra) (heq : render t hdr ex = d)
    (ht : typedT t = true) (hpu : puLeafT t = true) (hr : isNormal t.obj.type = true) :
    (∀ o ∈ d.objs,
      objClause "id-is-position" d (mkAux d) o = true ∧ objClause "root-or-parent" d (mkAux d) o = true ∧
      objClause "parent-kind" d (mkAux d) o = true ∧ objClause "normal-child-slot" d (mkAux d) o = true ∧
      objClause "children-array" d (mkAux d) o = true ∧ objClause "special-list-heads" d (mkAux d) o = true ∧
      objClause "special-list-links" d (mkAux d) o = true ∧ objClause "no-children-where-forbidden" d (mkAux d) o = true ∧
      objClause "depth-by-type" d (mkAux d) o = true ∧ objClause "depth-increases" d (mkAux d) o = true ∧
      objClause "in-its-level" d (mkAux d) o = true) ∧
    topClause "nobjs" d (mkAux d) = true ∧ topClause "levels-listed" d (mkAux d) = true ∧
    topClause "level-entries-valid" d (mkAux d) = true ∧ topClause "levels-in-tree-order" d (mkAux d) = true ∧
    topClause "normal-levels-nonempty" d (mkAux d) = true ∧ topClause "depth-le-objects" d (mkAux d) = true ∧
    (t.obj.type = tMACHINE → topClause "level0-is-root" d (mkAux d) = true) := by
  subst heq
  refine ⟨fun o ho => ?_, render_nobjs t hdr ex, render_levels_listed t hdr ex, render_level_entries_valid t ht hr hdr ex,
    render_levels_in_tree_order t hdr ex, render_normal_levels_nonempty t hdr ex, render_depth_le_objects t hdr ex,
    fun hm => render_level0_is_root t hm hdr ex⟩
  exact ⟨render_id_is_position t hdr ex o ho, render_root_or_parent t ht hdr ex o ho, render_parent_kind t ht hdr ex o ho,
    render_normal_child_slot t ht hdr ex o ho, render_children_array t ht hdr ex o ho, render_special_list_heads t ht hdr ex o ho,
    render_special_list_links t ht hdr ex o ho, render_no_children_where_forbidden t ht hpu hdr ex o ho,
    render_depth_by_type t ht hr hdr ex o ho, render_depth_increases t ht hr hdr ex o ho, render_in_its_level t ht hr hdr ex o ho⟩

open Hw.Topo.Restrict in
/-- … in the form the engine uses: an empty `renderCheck d` gives the hypotheses of C01_links_of_render for `treeOf d` -/
theorem C01_renderCheck_sound (d : Dump) (h : renderCheck d = []) :
    ∃ t, treeOf d = .ok t ∧ typedT t = true ∧ puLeafT t = true ∧ isNormal t.obj.type = true ∧
      render t (hdrOf d) (extraOf (gpTable d) (gpTable d)) = d := by
  unfold renderCheck at h
  cases ht : treeOf d with
  | error e => rw [ht] at h; simp at h
  | ok t =>
    rw [ht] at h
    simp only [List.append_eq_nil_iff] at h
    have hc : (typedT t && puLeafT t && isNormal t.obj.type) = true := by
      have := h.1
      by_cases hc : (typedT t && puLeafT t && isNormal t.obj.type) = true
      · exact hc
      · rw [if_neg hc] at this; simp at this
    simp only [Bool.and_eq_true] at hc
    refine ⟨t, rfl, hc.1.1, hc.1.2, hc.2, ?_⟩
    · have := h.2
      cases hd : dumpDiff (render t (hdrOf d) (extraOf (gpTable d) (gpTable d))) d with
      | none => exact dumpDiff_none _ _ hd
      | some s => rw [hd] at this; simp at this

/-! ### the later stages of `hwloc_discover`: `remove_empty`, `propagate_total_memory`, `hwloc_set_group_depth`, and the composition

Models `Hw.Topo.Restrict.Stage.removeEmpty / totalsT / setGroupDepth` over the four-list tree of `render`; tied to the code by the
`set-stage` engine through the second part of the HWLOC_VERIF hook (hooks/stage-dump-2.patch): the library dumps the tree after
hwloc_filter_bridges, after remove_empty, after hwloc__reconnect(KEEPSTRUCTURE), after propagate_total_memory and after
hwloc_set_group_depth, and each model run on the previous dump must reproduce the next one exactly. -/
section Stages
open Hw.Topo.Restrict Hw.Topo.Restrict.Stage Hw.Topo.SetStage

/-- **remove_empty, the C rule**: in the tree it leaves, every object it visits (the root and everything reachable through normal and
memory children lists) still has a normal child, a memory child or an I/O child, or its set is not empty — the cpuset for an object of a
normal type, the nodeset otherwise (`alive`; Misc children do not count).  For EVERY tree. -/
theorem C01_remove_empty_rule (t t' : Tree) (h : removeEmpty t = some t') : allAlive t' = true := removeEmpty_alive t t' h

/-- … it removes nothing else: a tree in which every visited object is alive comes back unchanged (same objects, same lists, same
order), and therefore a second run changes nothing -/
theorem C01_remove_empty_fixpoint (t : Tree) (h : allAlive t = true) : removeEmpty t = some t := removeEmpty_fix t h
theorem C01_remove_empty_idempotent (t t' : Tree) (h : removeEmpty t = some t') : removeEmpty t' = some t' := removeEmpty_idem t t' h

/-- … the root is removed ("Topology became empty", the load fails) only if its own set is empty -/
theorem C01_remove_empty_root_removed (t : Tree) (h : removeEmpty t = none) : emptySet t.obj = true := removeEmpty_none t h

/-- … it never removes an object whose own set is not empty (every PU with a non-empty cpuset, every NUMA node with a non-empty nodeset
survives, wherever it is), and every survivor is an object of the input, unmodified (`objsNM` = the objects reachable through normal and
memory children lists) -/
theorem C01_remove_empty_keeps_nonempty (t t' : Tree) (h : removeEmpty t = some t') :
    (∀ x ∈ objsNM t, emptySet x = false → x ∈ objsNM t') ∧ (∀ x ∈ objsNM t', x ∈ objsNM t) := removeEmpty_objs t t' h

/-- **remove_empty preserves every clause that tolerates dropping empty children**: `Q o ns ms` speaks about an object and the OBJECTS
of its normal and memory children; `Stable Q` = it survives when children whose set is empty are dropped from the two lists.  If `Q`
holds at every visited object before, it does after (objects are never modified, survivors keep their order). -/
theorem C01_remove_empty_preserves (Q : RObj → List RObj → List RObj → Prop) (hQ : Stable Q) (t t' : Tree)
    (h : removeEmpty t = some t') (ht : AllQ Q t) : AllQ Q t' := removeEmpty_preserves Q hQ t t' h ht

/-- … in particular the set clauses the set stage established (`SetQ`: set-in-complete, set-in-parent for all four sets,
memory-child-shares-cpuset, normal siblings pairwise disjoint) -/
theorem C01_remove_empty_preserves_set_clauses (t t' : Tree) (h : removeEmpty t = some t') (ht : AllQ SetQ t) : AllQ SetQ t' :=
  removeEmpty_preserves SetQ SetQ_stable t t' h ht

/-- … and the object-kind discipline of the four lists (hypothesis of the link theorems), the root object is unchanged -/
theorem C01_remove_empty_typed (t t' : Tree) (h : removeEmpty t = some t') (ht : typedT t = true) :
    typedT t' = true ∧ t'.obj = t.obj := removeEmpty_typed t t' h ht

/-- … and the nodeset decomposition (WF clause `nodeset-decomposition`; `DecompT` = `SetStage.Decomp` on the four-list tree) on typed
trees: an unlinked memory object has an empty nodeset and an unlinked normal object has no NUMA node attached at or below it, so the
unions and the disjointness conditions at every surviving object are unchanged -/
theorem C01_remove_empty_preserves_nodeset_decomposition (t t' : Tree) (inh : Nat) (h : removeEmpty t = some t')
    (ht : typedT t = true) (hd : DecompT inh t) : DecompT inh t' := removeEmpty_decomp t t' inh h ht hd

/-- **typing through the set stage**: if the INPUT of the set stage obeys the object-kind discipline (`typedST`, decidable: normal
children below normal objects only, memory children below normal objects or memory-side caches, each list holding its own kind) and the
decoration is well-kinded (`DecoTyped`), then the tree handed to `remove_empty` is typed and its root has the type of the input root: the
typing hypotheses of `C01_pipeline_compose` follow from the input -/
theorem C01_pipeline_typing (i : In) (dc : Deco) (h : typedST i.root = true) (hdc : DecoTyped dc) :
    typedT (toTree dc (stage i).root) = true ∧ (toTree dc (stage i).root).obj.type = i.root.o.type := pipeline_typed i dc h hdc

/-- **the set clauses that survive level merging**: SetsOK (`Restrict.okT`: set ⊆ complete set at every object, the complete sets of
normal and memory children inside the parent's, no sets on I/O and Misc objects) holds for the tree handed to `remove_empty` when the
decoration carries no sets (`DecoZero`), is preserved by `remove_empty` and by `hwloc_filter_levels_keep_structure` (C08,
`ok_keepStructure`); so the FINAL tree is SetsOK and EVERY object of its rendered dump satisfies the WF clause `set-in-complete`.
(The other set clauses — cpuset / nodeset inside the parent's, memory-child-shares-cpuset — cannot be carried through a merge from what the
modelled stages establish: a memory child handed from a merged child to its parent shares the parent's cpuset only if parent and single
child have equal cpusets, which is the clause cpuset-is-disjoint-union-of-children that the insertion, not these stages, provides.) -/
theorem C01_pipeline_sets_through_merging (i : In) (dc : Deco) (filters : List Nat) (hdr : Hdr) (ex : RObj → Extra)
    (hpre : PreSets i) (hz : DecoZero dc) (t1 : Tree) (h1 : removeEmpty (toTree dc (stage i).root) = some t1) :
    okT t1 = true ∧ okT (keepStructure filters t1) = true ∧
    ∀ o ∈ (render (keepStructure filters t1) hdr ex).objs,
      objClause "set-in-complete" (render (keepStructure filters t1) hdr ex) (mkAux (render (keepStructure filters t1) hdr ex)) o = true := by
  have h0 := okT_toTree dc hz _ (stage_post i hpre)
  have ht1 := removeEmpty_ok _ t1 h1 h0
  have ht2 := ok_keepStructure filters t1 ht1
  exact ⟨ht1, ht2, fun o ho => render_set_in_complete _ ht2 hdr ex o ho⟩

/-- **propagate_total_memory**: as long as the local memory of all NUMA nodes of the tree sums to less than 2^64, the value left in
`total_memory` of every object the function visits is exactly the sum of the local memory of the NUMA nodes at or below that object
(`subNM t` = the visited subtrees, depth-first).  Without the bound the C sums wrap (`addW`), and so does the model. -/
theorem C01_total_memory_stage (loc : RObj → Nat) (t : Tree) (h : sumLocalT loc t < W64) :
    totalsT loc t = (subNM t).map (fun s => (s.obj.gp, sumLocalT loc s)) := totalsT_exact loc t h

/-- … in the form of the WF clause `total-memory` (Hw/Topo/WF.lean): total = own local memory (NUMA nodes only) + the totals of the normal
and memory children, with no wrap -/
theorem C01_total_memory_clause (loc : RObj → Nat) (o : RObj) (ns ms ios mis : List Tree)
    (h : sumLocalT loc (.node o ns ms ios mis) < W64) :
    totalT loc (.node o ns ms ios mis) = (if o.type == tNUMA then loc o else 0) + (sumTotals loc ns + sumTotals loc ms) :=
  totalT_clause loc o ns ms ios mis h

/-- **hwloc_set_group_depth**: the levels whose first object is a Group are numbered 0, 1, 2, … from the root level downwards, every
object of the k-th such level gets depth k, nothing else is written; every depth written is below the number of levels (so it is never
`(unsigned) -1`, WF clause `group-depth`) -/
theorem C01_group_depth_stage (t : Tree) :
    setGroupDepth t = (((connectLevels t).filter isGroupLevel).zipIdx 0).flatMap (fun p => p.1.map (fun o => (o.gp, p.2))) ∧
    ∀ p ∈ setGroupDepth t, p.2 < (connectLevels t).length :=
  ⟨groupDepthsFrom_spec _ 0, setGroupDepth_lt t⟩

/-- **composition**.  `i` = the input of the set stage, `dc` = ANY decoration (the I/O and Misc subtrees and Group attributes that the
unmodelled discovery phases between the set stage and `remove_empty` attach), `t0` = the four-list tree `remove_empty` receives.
Hypotheses: the decidable precondition `PreSets i` and the typing of `t0` (`typedT`, evaluated by the engine on every rm_before dump).
If `remove_empty` keeps the root (`t1`; otherwise the load fails), then
  (a) after `remove_empty`: the C rule holds everywhere, the set clauses of the set stage still hold (`SetQ`; every cpuset / nodeset
      lies inside the allowed sets when INCLUDE_DISALLOWED is unset; the nodeset decomposition `DecompT`; the allowed sets lie inside the
      root sets and are equal to them when INCLUDE_DISALLOWED is unset), the tree is typed and its root object is the one of `t0`;
  (b) after level merging (`t2 = keepStructure filters t1`) the dump `render t2 hdr ex` (for any header and any attribute carrier)
      satisfies the WF clauses id-is-position, root-or-parent, parent-kind, normal-child-slot, children-array, special-list-heads,
      special-list-links, depth-by-type, depth-increases, in-its-level, nobjs, levels-listed, level-entries-valid, levels-in-tree-order,
      normal-levels-nonempty, depth-le-objects; level0-is-root if the root is still the Machine; no-children-where-forbidden if PUs are
      leaves in `t2`;
  (c) `propagate_total_memory` on `t2` leaves the exact NUMA sums (when they fit in 64 bits) and `hwloc_set_group_depth` numbers the Group
      levels of `t2` consecutively.
NOT covered by this theorem (judged by the oracle on every loaded topology): the set clauses THROUGH level merging (they are stated for
`t1`; they carry over to `t2` whenever merging changes nothing, `keepStructure filters t1 = t1`; the part that does survive any merge —
SetsOK and the dump clause set-in-complete — is C01_pipeline_sets_through_merging), cpuset-is-disjoint-union-of-children,
children-counts, and nodeset-decomposition / total-memory in their dump form (they go through `mkAux`), pu-cpuset,
numa-nodeset, the uniqueness clauses, pu-level-deepest, numa-exists, type-depth-inverse, normal-level-types, levels-cover-objects,
not-filtered-out, cache-attrs, siblings-ordered, symmetric_subtree. -/
theorem C01_pipeline_compose (i : In) (dc : Deco) (filters : List Nat) (hdr : Hdr) (ex : RObj → Extra) (loc : RObj → Nat)
    (hpre : PreSets i) (hty : typedT (toTree dc (stage i).root) = true) (hroot : (toTree dc (stage i).root).obj.type = tMACHINE)
    (t1 : Tree) (h1 : removeEmpty (toTree dc (stage i).root) = some t1) :
    (allAlive t1 = true ∧ AllQ SetQ t1 ∧
      (i.includeDisallowed = false → AllQ (AllowedQ (stage i).allowedC (stage i).allowedN) t1) ∧
      typedT t1 = true ∧ t1.obj = (toTree dc (stage i).root).obj ∧ DecompT 0 t1 ∧
      Sub (stage i).allowedC t1.obj.cpuset ∧ Sub (stage i).allowedN t1.obj.nodeset ∧
      (i.includeDisallowed = false → t1.obj.cpuset = (stage i).allowedC ∧ t1.obj.nodeset = (stage i).allowedN)) ∧
    pipeline i dc filters = some (keepStructure filters t1) ∧
    (∀ o ∈ (render (keepStructure filters t1) hdr ex).objs,
      objClause "id-is-position" (render (keepStructure filters t1) hdr ex) (mkAux (render (keepStructure filters t1) hdr ex)) o = true ∧
      objClause "root-or-parent" (render (keepStructure filters t1) hdr ex) (mkAux (render (keepStructure filters t1) hdr ex)) o = true ∧
      objClause "parent-kind" (render (keepStructure filters t1) hdr ex) (mkAux (render (keepStructure filters t1) hdr ex)) o = true ∧
      objClause "normal-child-slot" (render (keepStructure filters t1) hdr ex) (mkAux (render (keepStructure filters t1) hdr ex)) o = true ∧
      objClause "children-array" (render (keepStructure filters t1) hdr ex) (mkAux (render (keepStructure filters t1) hdr ex)) o = true ∧
      objClause "special-list-heads" (render (keepStructure filters t1) hdr ex) (mkAux (render (keepStructure filters t1) hdr ex)) o = true ∧
      objClause "special-list-links" (render (keepStructure filters t1) hdr ex) (mkAux (render (keepStructure filters t1) hdr ex)) o = true ∧
      objClause "depth-by-type" (render (keepStructure filters t1) hdr ex) (mkAux (render (keepStructure filters t1) hdr ex)) o = true ∧
      objClause "depth-increases" (render (keepStructure filters t1) hdr ex) (mkAux (render (keepStructure filters t1) hdr ex)) o = true ∧
      objClause "in-its-level" (render (keepStructure filters t1) hdr ex) (mkAux (render (keepStructure filters t1) hdr ex)) o = true ∧
      (puLeafT (keepStructure filters t1) = true →
        objClause "no-children-where-forbidden" (render (keepStructure filters t1) hdr ex) (mkAux (render (keepStructure filters t1) hdr ex)) o = true)) ∧
    (topClause "nobjs" (render (keepStructure filters t1) hdr ex) (mkAux (render (keepStructure filters t1) hdr ex)) = true ∧
      topClause "levels-listed" (render (keepStructure filters t1) hdr ex) (mkAux (render (keepStructure filters t1) hdr ex)) = true ∧
      topClause "level-entries-valid" (render (keepStructure filters t1) hdr ex) (mkAux (render (keepStructure filters t1) hdr ex)) = true ∧
      topClause "levels-in-tree-order" (render (keepStructure filters t1) hdr ex) (mkAux (render (keepStructure filters t1) hdr ex)) = true ∧
      topClause "normal-levels-nonempty" (render (keepStructure filters t1) hdr ex) (mkAux (render (keepStructure filters t1) hdr ex)) = true ∧
      topClause "depth-le-objects" (render (keepStructure filters t1) hdr ex) (mkAux (render (keepStructure filters t1) hdr ex)) = true ∧
      ((keepStructure filters t1).obj.type = tMACHINE →
        topClause "level0-is-root" (render (keepStructure filters t1) hdr ex) (mkAux (render (keepStructure filters t1) hdr ex)) = true)) ∧
    (sumLocalT loc (keepStructure filters t1) < W64 →
      totalsT loc (keepStructure filters t1) = (subNM (keepStructure filters t1)).map (fun s => (s.obj.gp, sumLocalT loc s))) ∧
    (setGroupDepth (keepStructure filters t1) =
        (((connectLevels (keepStructure filters t1)).filter isGroupLevel).zipIdx 0).flatMap (fun p => p.1.map (fun o => (o.gp, p.2))) ∧
      ∀ p ∈ setGroupDepth (keepStructure filters t1), p.2 < (connectLevels (keepStructure filters t1)).length) := by
  have hs0 : AllQ SetQ (toTree dc (stage i).root) := allQ_toTree dc (fun o k m h => setQ_of_post dc o k m h) _ (stage_post i hpre)
  have ht1 := removeEmpty_typed _ t1 h1 hty
  have hn1 : isNormal t1.obj.type = true := by rw [ht1.2, hroot]; decide
  have ht2 := typed_keepStructure filters t1 ht1.1 hn1
  have hal := stage_allowed i hpre.covered
  have hobj : t1.obj = robj dc (stage i).root.o := by rw [ht1.2, toTree_obj]
  refine ⟨⟨removeEmpty_alive _ t1 h1, removeEmpty_preserves SetQ SetQ_stable _ t1 h1 hs0, fun hf => ?_, ht1.1, ht1.2,
      removeEmpty_decomp _ t1 0 h1 hty (decompT_toTree dc _ 0 (stage_decomp i hpre)),
      by rw [hobj]; exact hal.1, by rw [hobj]; exact hal.2.1, fun hf => by rw [hobj]; exact hal.2.2 hf⟩, ?_, fun o ho => ?_, ?_,
    fun hb => totalsT_exact loc _ hb, groupDepthsFrom_spec _ 0, setGroupDepth_lt _⟩
  · refine removeEmpty_preserves _ (AllowedQ_stable _ _) _ t1 h1 (allQ_toTree dc (fun o k m h => ?_) _ (stage_within_allowed i hf))
    exact h
  · unfold pipeline; rw [h1]; rfl
  · exact ⟨render_id_is_position _ hdr ex o ho, render_root_or_parent _ ht2.1 hdr ex o ho, render_parent_kind _ ht2.1 hdr ex o ho,
      render_normal_child_slot _ ht2.1 hdr ex o ho, render_children_array _ ht2.1 hdr ex o ho, render_special_list_heads _ ht2.1 hdr ex o ho,
      render_special_list_links _ ht2.1 hdr ex o ho, render_depth_by_type _ ht2.1 ht2.2 hdr ex o ho,
      render_depth_increases _ ht2.1 ht2.2 hdr ex o ho, render_in_its_level _ ht2.1 ht2.2 hdr ex o ho,
      fun hpu => render_no_children_where_forbidden _ ht2.1 hpu hdr ex o ho⟩
  · exact ⟨render_nobjs _ hdr ex, render_levels_listed _ hdr ex, render_level_entries_valid _ ht2.1 ht2.2 hdr ex,
      render_levels_in_tree_order _ hdr ex, render_normal_levels_nonempty _ hdr ex, render_depth_le_objects _ hdr ex,
      fun hm => render_level0_is_root _ hm hdr ex⟩

/-! non-vacuity.  `exIn` (above): two packages, PU 3 (gp 7) not allowed.  The set stage empties the cpuset of gp 7; with a Misc object
(gp 40) hanging below that PU and an I/O device (gp 41) below an otherwise empty, CPU-less Group... the decoration `exDc` attaches the
Misc object to gp 7.  All hypotheses of the composition hold; `remove_empty` unlinks gp 7 and hands its Misc child to package gp 6. -/
def exLeaf (gp ty : Nat) : Tree := .node ⟨gp, ty, 0, 0, 0, 0, 0, false, 0, 0, 0⟩ [] [] [] []
def exDc : Deco := ⟨fun _ => [], fun o => if o.gp = 7 then [exLeaf 40 tMISC] else [], fun _ => 0, fun _ => 0, fun _ => 0⟩
def exRows (t : Tree) : List (Nat × List Nat) := (subNM t).map (fun s => (s.obj.gp, (s.mis.map (·.obj.gp))))

example : PreSets exIn ∧ typedT (toTree exDc (stage exIn).root) = true ∧ (toTree exDc (stage exIn).root).obj.type = tMACHINE ∧
    (removeEmpty (toTree exDc (stage exIn).root)).map exRows =
      some [(1, []), (2, []), (3, []), (4, []), (5, []), (10, []), (6, [40]), (8, []), (9, []), (11, [])] :=
  ⟨(preSets_iff exIn).1 (by decide +kernel), by decide +kernel, by decide +kernel, by decide +kernel⟩
/-- the set clauses hold before `remove_empty` (hypothesis of C01_remove_empty_preserves_set_clauses) -/
example : AllQ SetQ (toTree exDc (stage exIn).root) :=
  allQ_toTree exDc (fun o k m h => setQ_of_post exDc o k m h) _ (stage_post exIn ((preSets_iff exIn).1 (by decide +kernel)))
/-- the typing hypotheses follow from the input (C01_pipeline_typing), the nodeset decomposition holds before `remove_empty` -/
example : typedST exIn.root = true := by decide +kernel
example : DecoTyped exDc := fun o => ⟨rfl, by unfold exDc; simp only; split <;> decide, Or.inr rfl⟩
example : DecompT 0 (toTree exDc (stage exIn).root) :=
  decompT_toTree exDc _ 0 (stage_decomp exIn ((preSets_iff exIn).1 (by decide +kernel)))
example : DecoZero exDc := fun o => ⟨fun x hx => by simp [exDc, objsL] at hx, fun x hx => by
  unfold exDc at hx; simp only at hx; split at hx
  · simp [exLeaf, objsL, objsT] at hx; subst hx; decide
  · simp [objsL] at hx⟩
/-- the whole pipeline on `exIn` with Package filtered KEEP_STRUCTURE (nothing to merge here) and 100 / 200 bytes on the two NUMA nodes:
totals per object, no Group -/
def exLoc (o : RObj) : Nat := if o.gp = 10 then 100 else if o.gp = 11 then 200 else 0
example : ((pipeline exIn exDc (List.replicate 20 0)).map (fun t => (decide (sumLocalT exLoc t < W64), totalsT exLoc t, setGroupDepth t))) =
    some (true, [(1, 300), (2, 100), (3, 0), (4, 0), (5, 0), (10, 100), (6, 200), (8, 0), (9, 0), (11, 200)], []) := by decide +kernel

/-- `remove_empty` alone: a Machine with (gp 2) a Package without PU but with a NUMA node — kept; (gp 4) a CPU-less Group kept by its
I/O child; (gp 6) a Package whose only PU (gp 7, with Misc child gp 8) has an empty cpuset — both removed, the Misc object climbs to the
root; (gp 9) a Core with PU 0.  Rows: (gp_index, Misc children). -/
def exN (gp ty cpuset nodeset : Nat) (ns ms ios mis : List Tree) : Tree := .node ⟨gp, ty, 0, cpuset, cpuset, nodeset, nodeset, true, 0, 0, 0⟩ ns ms ios mis
def exRm : Tree := exN 1 tMACHINE 1 1 [exN 2 tPACKAGE 0 1 [] [exN 3 tNUMA 0 1 [] [] [] []] [] [], exN 4 tGROUP 0 0 [] [] [exLeaf 5 tPCI] [],
  exN 6 tPACKAGE 0 0 [exN 7 tPU 0 0 [] [] [] [exLeaf 8 tMISC]] [] [] [], exN 9 tCORE 1 0 [exN 10 tPU 1 0 [] [] [] []] [] [] []] [] [] []
example : allAlive exRm = false ∧ (removeEmpty exRm).map exRows = some [(1, [8]), (2, []), (3, []), (4, []), (9, []), (10, [])] ∧
    (removeEmpty exRm).map allAlive = some true ∧ typedT exRm = true := by decide +kernel
/-- an empty root is removed -/
example : removeEmpty (exN 1 tMACHINE 0 0 [exN 2 tPU 0 0 [] [] [] []] [] [] []) |>.isNone := by decide +kernel

/-- total memory: two NUMA nodes below a package and one behind a memory-side cache; the bound holds -/
def exMemT : Tree := exN 1 tMACHINE 3 7 [exN 2 tPACKAGE 3 3 [exN 3 tPU 1 3 [] [] [] [], exN 4 tPU 2 3 [] [] [] []]
    [exN 5 tNUMA 3 1 [] [] [] [], exN 6 tNUMA 3 2 [] [] [] []] [] []] [exN 7 tMEMCACHE 3 4 [] [exN 8 tNUMA 3 4 [] [] [] []] [] []] [] []
def exMemLoc (o : RObj) : Nat := 1000 * o.gp
example : sumLocalT exMemLoc exMemT < W64 ∧
    totalsT exMemLoc exMemT = [(1, 19000), (2, 11000), (3, 0), (4, 0), (5, 5000), (6, 6000), (7, 8000), (8, 8000)] := by decide +kernel
/-- … and the sums really wrap at 2^64 when the bound fails -/
example : totalT (fun _ => W64 - 1) exMemT = W64 - 3 := by decide +kernel

/-- group depths: Machine > Group > Package > Group > PU: the two Group levels get 0 and 1 -/
def exGrp : Tree := exN 1 tMACHINE 3 0 [exN 2 tGROUP 3 0 [exN 3 tPACKAGE 3 0 [exN 4 tGROUP 1 0 [exN 5 tPU 1 0 [] [] [] []] [] [] [],
  exN 6 tGROUP 2 0 [exN 7 tPU 2 0 [] [] [] []] [] [] []] [] [] []] [] [] []] [] [] []
example : setGroupDepth exGrp = [(2, 0), (4, 1), (6, 1)] ∧ (connectLevels exGrp).length = 5 := by decide +kernel


/-! ### hwloc_propagate_symmetric_subtree (Hw/Topo/StageSymmetric.lean; `dep` = the depth field, any function) -/

/-- **the loop**: the `while (1)` walk over the array of children (fuel = number of objects below, which always suffices) answers
"identical" iff every entry has the same first-children spine — (depth, arity) of the entry, of its first child, of the first child of
that, … down to an object without normal child — as entry 0 -/
theorem C01_symmetric_walk (dep : RObj → Int) (arr : List Tree) :
    walk dep (sizeL arr) arr = true ↔ ∀ a ∈ arr, spineT dep a = spineL dep arr :=
  walk_iff dep _ _ (spineL_length_le dep arr)

/-- **the rule** for every object of every tree: `symmetric_subtree` is set iff the object has no normal child, or all normal children
are symmetric and have the same first-children spine as the first child (trivially true for a single child: the `arity == 1` shortcut) -/
theorem C01_symmetric_rule (dep : RObj → Int) (o : RObj) (ns ms ios mis : List Tree) :
    symT dep (.node o ns ms ios mis) = true ↔
      ns = [] ∨ ((∀ c ∈ ns, symT dep c = true) ∧ ∀ c ∈ ns, spineT dep c = spineL dep ns) := symT_iff dep o ns ms ios mis

/-- leaves (PUs) are symmetric whatever memory / I/O / Misc children they carry -/
theorem C01_symmetric_leaf (dep : RObj → Int) (o : RObj) (ms ios mis : List Tree) : symT dep (.node o [] ms ios mis) = true :=
  symT_leaf dep o ms ios mis

/-- the flags of ALL visited objects depend only on the normal-children skeleton: two trees that differ in memory, I/O or Misc children
(anywhere) get the same flags -/
theorem C01_symmetric_ignores_other_children (dep : RObj → Int) (t t' : Tree) (h : skelT t = skelT t') :
    symsT dep t = symsT dep t' := symsT_congr_skel dep t t' h

/-- **meaning**: the flag is set iff the subtree is uniform row by row: every object at distance k (through normal children) has the
depth and arity at position k of the spine and every branch ends on the last row -/
theorem C01_symmetric_meaning (dep : RObj → Int) (t : Tree) : symT dep t = true ↔ uniformT dep t (spineT dep t) :=
  symT_iff_uniform dep t

/-- **in the composition**: on the tree `t2` that level merging leaves (any tree), the stage writes exactly one flag per normal object, in
depth-first order, and the flag of each visited subtree `s` is the rule / the uniformity of `s`, with the depths of `connectLevels t2` -/
theorem C01_pipeline_symmetric (i : In) (dc : Deco) (filters : List Nat) (t2 : Tree) (_h : pipeline i dc filters = some t2) :
    symmetricStage t2 = (subsN t2).map (fun s => (s.obj.gp, symT (depthIn (connectLevels t2)) s)) ∧
    (symmetricStage t2).length = sizeT (skelT t2) ∧
    ∀ s ∈ subsN t2, (symT (depthIn (connectLevels t2)) s = true ↔
      uniformT (depthIn (connectLevels t2)) s (spineT (depthIn (connectLevels t2)) s)) :=
  ⟨symsT_eq_map _ t2, symsT_length _ t2, fun s _ => symT_iff_uniform _ s⟩

/-- non-vacuity: Machine > 2 Packages; package gp 2 has two Cores with 1 PU each, package gp 3 has two Cores with 1 and 2 PUs: gp 3 and
the Machine are not symmetric, everything else is; with the second PU of gp 9 removed everything is symmetric; a NUMA node and a Misc
object change nothing -/
def exSymA : Tree := exN 1 tMACHINE 0 0 [exN 2 tPACKAGE 0 0 [exN 4 tCORE 0 0 [exN 5 tPU 0 0 [] [] [] []] [] [] [], exN 6 tCORE 0 0 [exN 7 tPU 0 0 [] [] [] []] [] [] []] [] [] [],
  exN 3 tPACKAGE 0 0 [exN 8 tCORE 0 0 [exN 10 tPU 0 0 [] [] [] []] [] [] [], exN 9 tCORE 0 0 [exN 11 tPU 0 0 [] [] [] [], exN 12 tPU 0 0 [] [] [] []] [] [] []]
    [exN 20 tNUMA 0 0 [] [] [] []] [] [exLeaf 21 tMISC]] [] [] []
example : symmetricStage exSymA = [(1, false), (2, true), (4, true), (5, true), (6, true), (7, true), (3, false), (8, true), (10, true),
    (9, true), (11, true), (12, true)] ∧ (connectLevels exSymA).length = 4 ∧
    spineT (depthIn (connectLevels exSymA)) exSymA = [(0, 2), (1, 2), (2, 1), (3, 0)] := by decide +kernel
example : ∃ t2, pipeline exIn exDc (List.replicate 20 0) = some t2 ∧ (symmetricStage t2).length = 8 := ⟨_, rfl, by decide +kernel⟩
/-- the depth matters: two children of equal arity but different depth (a Core next to an L2 holding a Core) are not "same shape" -/
def exSymB : Tree := exN 1 tMACHINE 0 0 [exN 2 tCORE 0 0 [exN 3 tPU 0 0 [] [] [] []] [] [] [],
  exN 4 5 0 0 [exN 5 tCORE 0 0 [exN 6 tPU 0 0 [] [] [] []] [] [] []] [] [] []] [] [] []
example : symmetricStage exSymB = [(1, false), (2, true), (3, true), (4, true), (5, true), (6, true)] := by decide +kernel


/-! ### dump-form clauses (through `mkAux`) and uniqueness clauses for the composed pipeline -/

/-- **total-memory in dump form**, any typed tree: if the NUMA local memory fits in 64 bits and the carried fields hold the output of
`propagate_total_memory` (`MemEx`: total_memory = `totalT` of the subtree, attrs[0] of a NUMA node = its local memory), every object of
`render t` satisfies the WF clause `total-memory` exactly as the oracle evaluates it (through the `totSum` fold of `mkAux`) -/
theorem C01_total_memory_dump_clause (loc : RObj → Nat) (t : Tree) (ht : typedT t = true) (hb : sumLocalT loc t < W64)
    (hdr : Hdr) (ex : RObj → Extra) (hex : MemEx loc t ex) (o : Obj) (ho : o ∈ (render t hdr ex).objs) :
    objClause "total-memory" (render t hdr ex) (mkAux (render t hdr ex)) o = true :=
  render_total_memory loc t ht hb hdr ex hex o ho

/-- … and `MemEx` holds for the fields written from the stage's own output (`exOfMem`: total by gp_index) whenever gp_index values are
pairwise distinct -/
theorem C01_total_memory_fields (loc : RObj → Nat) (t : Tree) (base : RObj → Extra) (hu : ((objsT t).map (·.gp)).Nodup) :
    MemEx loc t (exOfMem loc t base) := by
  apply memEx_exOfMem
  rw [← occs_map_obj, List.map_map] at hu
  exact hu

/-- **the composed pipeline, dump-form clauses**: with the hypotheses of `C01_pipeline_compose`, the dump rendered from the final tree
`t2 = keepStructure filters t1` satisfies, for any header and carried fields: children-counts (every object; the four counters of
`mkAux`), type-depth-inverse, levels-cover-objects; and total-memory (every object) when the local memory fits in 64 bits and the
fields carry the output of propagate_total_memory. -/
theorem C01_pipeline_dump_clauses (i : In) (dc : Deco) (filters : List Nat) (hdr : Hdr) (ex : RObj → Extra) (loc : RObj → Nat)
    (hty : typedT (toTree dc (stage i).root) = true) (hroot : (toTree dc (stage i).root).obj.type = tMACHINE)
    (t1 : Tree) (h1 : removeEmpty (toTree dc (stage i).root) = some t1) :
    (∀ o ∈ (render (keepStructure filters t1) hdr ex).objs,
      objClause "children-counts" (render (keepStructure filters t1) hdr ex) (mkAux (render (keepStructure filters t1) hdr ex)) o = true ∧
      (sumLocalT loc (keepStructure filters t1) < W64 → MemEx loc (keepStructure filters t1) ex →
        objClause "total-memory" (render (keepStructure filters t1) hdr ex) (mkAux (render (keepStructure filters t1) hdr ex)) o = true)) ∧
    topClause "type-depth-inverse" (render (keepStructure filters t1) hdr ex) (mkAux (render (keepStructure filters t1) hdr ex)) = true ∧
    topClause "levels-cover-objects" (render (keepStructure filters t1) hdr ex) (mkAux (render (keepStructure filters t1) hdr ex)) = true := by
  have ht1 := removeEmpty_typed _ t1 h1 hty
  have hn1 : isNormal t1.obj.type = true := by rw [ht1.2, hroot]; decide
  have ht2 := typed_keepStructure filters t1 ht1.1 hn1
  exact ⟨fun o ho => ⟨render_children_counts _ ht2.1 hdr ex o ho, fun hb hex => render_total_memory loc _ ht2.1 hb hdr ex hex o ho⟩,
    render_type_depth_inverse _ hdr ex, render_levels_cover _ ht2.1 ht2.2 hdr ex⟩

/-- **no stage creates an object**: for ANY key of an object that the complete-set update of a merge leaves alone (gp_index, type,
os_index, cpuset, …), no key value occurs more often among the objects of the final tree than in the tree handed to `remove_empty` -/
theorem C01_pipeline_no_new_object {α : Type} [DecidableEq α] (f : RObj → α) (hm : ∀ o co, f (absorb o co) = f co) (filters : List Nat)
    (t0 t1 : Tree) (h1 : removeEmpty t0 = some t1) (a : α) :
    cnt f a (objsT (keepStructure filters t1)) ≤ cnt f a (objsT t0) := nodup_pipeline f hm filters t0 t1 h1 a

/-- **uniqueness clauses of the composed render**: if gp_index values (resp. PU os_index, NUMA os_index values) are pairwise distinct in
the tree `t0` handed to `remove_empty`, the dump rendered from the final tree satisfies gp-index-unique (resp. pu-osindex-unique,
numa-osindex-unique) -/
theorem C01_pipeline_unique (filters : List Nat) (hdr : Hdr) (ex : RObj → Extra) (t0 t1 : Tree) (h1 : removeEmpty t0 = some t1) :
    (((objsT t0).map (·.gp)).Nodup →
      topClause "gp-index-unique" (render (keepStructure filters t1) hdr ex) (mkAux (render (keepStructure filters t1) hdr ex)) = true) ∧
    ((((objsT t0).filter (fun o => o.type == tPU)).map (·.osidx)).Nodup →
      topClause "pu-osindex-unique" (render (keepStructure filters t1) hdr ex) (mkAux (render (keepStructure filters t1) hdr ex)) = true) ∧
    ((((objsT t0).filter (fun o => o.type == tNUMA)).map (·.osidx)).Nodup →
      topClause "numa-osindex-unique" (render (keepStructure filters t1) hdr ex) (mkAux (render (keepStructure filters t1) hdr ex)) = true) := by
  refine ⟨fun h => render_gp_unique _ (gp_nodup_of_cnt _ _ (fun k => nodup_pipeline (·.gp) (fun _ _ => rfl) filters t0 t1 h1 k) h) hdr ex,
    fun h => ?_, fun h => ?_⟩
  · rw [clause_pu_unique]; simp only [decide_eq_true_eq]; rw [render_os_of_type]
    exact os_nodup_of_cnt tPU _ _ (fun k => nodup_pipeline tyOs (fun _ _ => rfl) filters t0 t1 h1 (tPU, k)) h
  · rw [clause_numa_unique]; simp only [decide_eq_true_eq]; rw [render_os_of_type]
    exact os_nodup_of_cnt tNUMA _ _ (fun k => nodup_pipeline tyOs (fun _ _ => rfl) filters t0 t1 h1 (tNUMA, k)) h

/-- non-vacuity: `exMemT` (two NUMA nodes below a package, one behind a memory-side cache) rendered with the fields of the stage:
all hypotheses hold and (evaluated) every object passes total-memory and children-counts -/
example : typedT exMemT = true ∧ sumLocalT exMemLoc exMemT < W64 ∧ ((objsT exMemT).map (·.gp)).Nodup ∧
    (let d := render exMemT ⟨0, [], none, none⟩ (exOfMem exMemLoc exMemT (fun _ => {}))
     d.objs.all (fun o => objClause "total-memory" d (mkAux d) o && objClause "children-counts" d (mkAux d) o) = true ∧
     (d.objs.map (·.totalMem)) = [19000, 11000, 0, 0, 5000, 6000, 8000, 8000]) := by decide +kernel
example : ((objsT (toTree exDc (stage exIn).root)).map (·.gp)).Nodup ∧
    (((objsT (toTree exDc (stage exIn).root)).filter (fun o => o.type == tPU)).map (·.osidx)).Nodup := by decide +kernel


/-! ### the set clauses through level merging -/

/-- **what hwloc_compare_levels_structure requires, and what makes merging harmless for the sets.**  The C condition for merging two
adjacent levels is purely structural (`sameStructure`: both levels have the same number of objects, every object of the upper level
has exactly ONE normal child, which is the object of the lower level at the same position, and no memory children if the lower level
is the PU level); the sets are not looked at.  If every object with exactly one normal child has the cpuset and the nodeset of that
child (`tightT`: decidable, a consequence of the WF clauses cpuset-is-disjoint-union-of-children and nodeset-decomposition,
evaluated by the engine on every rm_after tree) and the clauses `SetQ` of the set stage hold everywhere (they do after `remove_empty`:
C01_pipeline_compose (a)), then after level merging — any filters, both merge branches, the re-sorting of memory children and the final
re-sorting of children included — every normal / memory object still satisfies
  set-in-complete, set-in-parent (cpuset, complete_cpuset, nodeset, complete_nodeset; normal and memory children),
  memory-child-shares-cpuset, normal siblings pairwise disjoint   (`SetW`),
the single-child property holds again, and the root keeps its cpuset and nodeset. -/
theorem C01_sets_through_level_merging (filters : List Nat) (t : Tree) (hs : AllQ SetQ t) (ht : tightT t = true) :
    AllQ SetW (keepStructure filters t) ∧ AllQ (fun o ns _ => TightQ o ns) (keepStructure filters t) ∧
    (keepStructure filters t).obj.cpuset = t.obj.cpuset ∧ (keepStructure filters t).obj.nodeset = t.obj.nodeset :=
  setW_keepStructure filters t hs ht

/-- one merge step in isolation (`mergeNode`, the body of both branches of hwloc_filter_levels_keep_structure): the merged subtree keeps the
clauses, and the object now at its root has the old cpuset and nodeset and complete sets that are not larger -/
theorem C01_merge_step_sets (rc : Bool) (o : RObj) (ns ms ios mis : List Tree) (h : AllQ WQ (.node o ns ms ios mis)) :
    AllQ WQ (mergeNode rc o ns ms ios mis) ∧ Rel o (mergeNode rc o ns ms ios mis).obj := WQ_mergeNode rc o ns ms ios mis h

/-- **in the composition**: with `PreSets i` and the single-child hypothesis on the tree `t1` that `remove_empty` leaves, the final tree of
the pipeline satisfies the set clauses `SetW` at every normal / memory object -/
theorem C01_pipeline_sets_through_level_merging (i : In) (dc : Deco) (filters : List Nat) (hpre : PreSets i)
    (t1 : Tree) (h1 : removeEmpty (toTree dc (stage i).root) = some t1) (ht : tightT t1 = true) :
    pipeline i dc filters = some (keepStructure filters t1) ∧ AllQ SetW (keepStructure filters t1) ∧
    setWT (keepStructure filters t1) = true ∧
    (keepStructure filters t1).obj.cpuset = t1.obj.cpuset ∧ (keepStructure filters t1).obj.nodeset = t1.obj.nodeset := by
  have hs0 : AllQ SetQ (toTree dc (stage i).root) := allQ_toTree dc (fun o k m h => setQ_of_post dc o k m h) _ (stage_post i hpre)
  have hs1 := removeEmpty_preserves SetQ SetQ_stable _ t1 h1 hs0
  have h := setW_keepStructure filters t1 hs1 ht
  exact ⟨by unfold pipeline; rw [h1]; rfl, h.1, (setWT_iff _).2 h.1, h.2.2.1, h.2.2.2⟩

/-- non-vacuity: Machine > Package > 2 Cores > 1 PU each, a NUMA node on the Package; Package and Core filtered KEEP_STRUCTURE: the Package
is merged into the Machine (the NUMA node moves up) and each Core into its PU; hypotheses and conclusion evaluated -/
def exKs : Tree := exN 1 tMACHINE 3 1 [exN 2 tPACKAGE 3 1 [exN 3 tCORE 1 1 [exN 4 tPU 1 1 [] [] [] []] [] [] [],
  exN 5 tCORE 2 1 [exN 6 tPU 2 1 [] [] [] []] [] [] []] [exN 7 tNUMA 3 1 [] [] [] []] [] []] [] [] []
def exKsFilters : List Nat := [0, 2, 0, 2] ++ List.replicate 16 0
example : setQT exKs = true ∧ tightT exKs = true ∧ (objsT (keepStructure exKsFilters exKs)).map (·.gp) = [1, 4, 6, 7] ∧
    setWT (keepStructure exKsFilters exKs) = true := by decide +kernel
/-- the single-child hypothesis is needed: a Package whose only Core has a smaller cpuset and a NUMA node of its own — the NUMA node
(cpuset of the Core) lands below the Machine after the merge and no longer shares its parent's cpuset -/
def exKsBad : Tree := exN 1 tMACHINE 3 1 [exN 2 tPACKAGE 3 1 [exN 3 tCORE 1 1 [exN 4 tPU 1 1 [] [] [] []] [exN 7 tNUMA 1 1 [] [] [] []] [] []] [] [] []] [] [] []
example : setQT exKsBad = true ∧ tightT exKsBad = false ∧ setWT (keepStructure exKsFilters exKsBad) = false := by decide +kernel


/-- **`puLeafT` and the Machine root through level merging** (the two conditional parts of C01_pipeline_compose (b), discharged): if PU and
Machine are not filtered KEEP_STRUCTURE (hwloc_topology_set_type_filter refuses it), gp_index values are pairwise distinct in the tree
`t0` handed to `remove_empty`, `t0` is typed with a Machine root and PUs are leaves in the tree `t1` that `remove_empty` leaves, then in the
final tree PUs are still leaves and the root object is still the one of `t0`; so EVERY object of the rendered dump satisfies
no-children-where-forbidden, and root-is-machine and level0-is-root hold. -/
theorem C01_pipeline_pu_leaf_and_root (filters : List Nat) (hdr : Hdr) (ex : RObj → Extra) (t0 t1 : Tree)
    (hPU : filterOf filters tPU ≠ Hw.Gen.Restrict.filterKeepStructure) (hM : filterOf filters tMACHINE ≠ Hw.Gen.Restrict.filterKeepStructure)
    (hu : ((objsT t0).map (·.gp)).Nodup) (hty : typedT t0 = true) (hroot : t0.obj.type = tMACHINE)
    (h1 : removeEmpty t0 = some t1) (hl : puLeafT t1 = true) :
    puLeafT (keepStructure filters t1) = true ∧ (keepStructure filters t1).obj = t0.obj ∧
    (∀ o ∈ (render (keepStructure filters t1) hdr ex).objs,
      objClause "no-children-where-forbidden" (render (keepStructure filters t1) hdr ex) (mkAux (render (keepStructure filters t1) hdr ex)) o = true) ∧
    topClause "root-is-machine" (render (keepStructure filters t1) hdr ex) (mkAux (render (keepStructure filters t1) hdr ex)) = true ∧
    topClause "level0-is-root" (render (keepStructure filters t1) hdr ex) (mkAux (render (keepStructure filters t1) hdr ex)) = true := by
  have ht1 := removeEmpty_typed _ t1 h1 hty
  have hr1 : t1.obj.type = tMACHINE := by rw [ht1.2, hroot]
  have hn1 : isNormal t1.obj.type = true := by rw [hr1]; decide
  have hu1 : ((objsT t1).map (·.gp)).Nodup := gp_nodup_of_cnt _ _ (fun k => cnt_removeEmpty (·.gp) k t0 t1 h1) hu
  have hk := keepStructure_pu filters hPU t1 (by rw [hr1]; exact hM) hu1 ht1.1 hn1 hl
  have ht2 := typed_keepStructure filters t1 ht1.1 hn1
  have hm2 : (keepStructure filters t1).obj.type = tMACHINE := by rw [hk.2.1, hr1]
  exact ⟨hk.1, hk.2.1.trans ht1.2, fun o ho => render_no_children_where_forbidden _ ht2.1 hk.1 hdr ex o ho,
    render_root_is_machine _ hm2 hdr ex, render_level0_is_root _ hm2 hdr ex⟩

/-- non-vacuity of C01_pipeline_pu_leaf_and_root on `exKs` (nothing is removed by remove_empty; two levels are merged) -/
example : filterOf exKsFilters tPU ≠ Hw.Gen.Restrict.filterKeepStructure ∧ filterOf exKsFilters tMACHINE ≠ Hw.Gen.Restrict.filterKeepStructure ∧
    ((objsT exKs).map (·.gp)).Nodup ∧ typedT exKs = true ∧ exKs.obj.type = tMACHINE ∧ (removeEmpty exKs).map (fun t => puLeafT t) = some true ∧
    puLeafT (keepStructure exKsFilters exKs) = true := by decide +kernel
/-- the key hypothesis of C01_pipeline_no_new_object for the keys used here -/
example : (∀ o co : RObj, (absorb o co).gp = co.gp) ∧ (∀ o co : RObj, tyOs (absorb o co) = tyOs co) := ⟨fun _ _ => rfl, fun _ _ => rfl⟩

/-- **numa-exists for the composed pipeline**: a NUMA node with a non-empty nodeset in the (typed, normal-rooted) tree handed to `remove_empty`
is neither removed by `remove_empty` nor by level merging, so the NUMA level of the final render is not empty -/
theorem C01_pipeline_numa_exists (filters : List Nat) (hdr : Hdr) (ex : RObj → Extra) (t0 t1 : Tree) (hty : typedT t0 = true)
    (hr : isNormal t0.obj.type = true) (h1 : removeEmpty t0 = some t1) (hn : ∃ x ∈ objsNM t0, x.type = tNUMA ∧ x.nodeset ≠ 0) :
    topClause "numa-exists" (render (keepStructure filters t1) hdr ex) (mkAux (render (keepStructure filters t1) hdr ex)) = true :=
  pipeline_numa_exists filters hdr ex t0 t1 hty hr h1 hn
example : typedT exKs = true ∧ isNormal exKs.obj.type = true ∧ (removeEmpty exKs).isSome ∧
    (∃ x ∈ objsNM exKs, x.type = tNUMA ∧ x.nodeset ≠ 0) := by decide +kernel

end Stages

end Hw.Props.C01
