/-
  Hw.Props.C20 — command-line tools compute what the library API defines (model: Hw/Io/Calc.lean).

  The theorems are about the model of hwloc-calc / hwloc-distrib; the differential engine `tools` ties the model to the real
  tools (stdout and exit-status class of every generated run).  Sets are the representation-exact bitmaps of C03, so "the
  set" is always `Bitmap.mem`.
-/
import Hw.Io.CalcLemmas
import Hw.Io.CalcStdin
import Hw.Io.CalcAttrLemmas
import Hw.Io.CalcAttrRefine
import Hw.Io.CalcAttrBest
import Hw.Bitmap.Order
import Hw.Bitmap.CompareFirst
namespace Hw.Props.C20
open Hw Hw.Topo Hw.Calc

/-- the documented meaning of the four operator prefixes (none = union, `~` removal, `x` intersection, `^` xor) -/
def opBool : Mode → Bool → Bool → Bool
  | .add, a, b => a || b
  | .clr, a, b => a && !b
  | .and, a, b => a && b
  | .xor, a, b => a != b

theorem mem_applyMode (m : Mode) (acc new : Bitmap) (i : Nat) :
    (applyMode m acc new).mem i = opBool m (acc.mem i) (new.mem i) := by
  cases m <;> simp [applyMode, opBool, Bitmap.mem_or, Bitmap.mem_andnot, Bitmap.mem_and, Bitmap.mem_xor]

/-- the input options a location is read under -/
structure InOpts where
  logical : Bool
  nodesetIn : Bool
  cif : Option Fmt

def inOptsOf (s : St) : InOpts := ⟨s.logicalI, s.nodesetI, s.cif⟩

/-- specification: left fold of the documented operators over the cpusets (`pick = true`) or nodesets of the named objects /
    raw sets; arguments the grammar does not accept are skipped ("ignored unrecognized argument") -/
def specFold (c : Ctx) (o : InOpts) (pick : Bool) (i : Nat) : Bool → List Bytes → Bool
  | acc, [] => acc
  | acc, a :: r =>
    match locSets c o.logical o.nodesetIn o.cif (splitMode a).2 with
    | .sets cs ns => specFold c o pick i (opBool (splitMode a).1 acc ((if pick then cs else ns).mem i)) r
    | _ => specFold c o pick i acc r

/-- the model's processing of a list of location arguments (command line between two options, or one stdin line) -/
def locFold (c : Ctx) : St → List Bytes → Except Res St
  | s, [] => .ok s
  | s, a :: r => match stepLoc c s a with
    | .error e => .error e
    | .ok s' => locFold c s' r

theorem stepLoc_inOpts {c : Ctx} {s s' : St} {a : Bytes} (h : stepLoc c s a = .ok s') : inOptsOf s' = inOptsOf s := by
  unfold stepLoc at h
  cases hl : locSets c s.logicalI s.nodesetI s.cif (splitMode a).2 <;> simp only [hl] at h <;> cases h <;> rfl

theorem stepLoc_sets {c : Ctx} {s s' : St} {a : Bytes} (h : stepLoc c s a = .ok s') (pick : Bool) (i : Nat) :
    (if pick then s'.cpuset else s'.nodeset).mem i =
      (match locSets c s.logicalI s.nodesetI s.cif (splitMode a).2 with
       | .sets cs ns => opBool (splitMode a).1 ((if pick then s.cpuset else s.nodeset).mem i) ((if pick then cs else ns).mem i)
       | _ => (if pick then s.cpuset else s.nodeset).mem i) := by
  unfold stepLoc at h
  cases hl : locSets c s.logicalI s.nodesetI s.cif (splitMode a).2 with
  | sets cs ns =>
    simp only [hl] at h
    cases h
    cases pick <;> simp [mem_applyMode]
  | ignored => simp only [hl] at h; cases h; rfl
  | unmodelled => simp only [hl] at h; cases h

theorem locFold_spec (c : Ctx) (pick : Bool) (i : Nat) :
    ∀ (args : List Bytes) (s s' : St), locFold c s args = .ok s' →
      (if pick then s'.cpuset else s'.nodeset).mem i =
        specFold c (inOptsOf s) pick i ((if pick then s.cpuset else s.nodeset).mem i) args := by
  intro args
  induction args with
  | nil => intro s s' h; simp only [locFold] at h; cases h; rfl
  | cons a r ih =>
    intro s s' h
    simp only [locFold] at h
    cases hs : stepLoc c s a with
    | error e => rw [hs] at h; cases h
    | ok s1 =>
      rw [hs] at h
      have h1 := ih s1 s' h
      have ho := stepLoc_inOpts hs
      have hm := stepLoc_sets hs pick i
      rw [h1, ho, hm]
      simp only [specFold, inOptsOf]
      cases locSets c s.logicalI s.nodesetI s.cif (splitMode a).2 <;> rfl

/-- P0 calc_fold: the cpuset hwloc-calc holds after a list of locations is the left fold of the documented operators over the
    cpusets of the named objects, for every argument list (arguments outside the grammar are skipped, as the tool reports) -/
theorem C20_calc_fold (c : Ctx) (args : List Bytes) (s s' : St) (i : Nat) (h : locFold c s args = .ok s') :
    s'.cpuset.mem i = specFold c (inOptsOf s) true i (s.cpuset.mem i) args := by
  have := locFold_spec c true i args s s' h
  simpa using this

/-- … and the nodeset is the same fold over the nodesets -/
theorem C20_calc_fold_nodeset (c : Ctx) (args : List Bytes) (s s' : St) (i : Nat) (h : locFold c s args = .ok s') :
    s'.nodeset.mem i = specFold c (inOptsOf s) false i (s.nodeset.mem i) args := by
  have := locFold_spec c false i args s s' h
  simpa using this

/-- an argument the grammar rejects changes nothing (not even the count of accepted locations) -/
theorem C20_calc_ignored_is_identity (c : Ctx) (s : St) (a : Bytes)
    (h : locSets c s.logicalI s.nodesetI s.cif (splitMode a).2 = .ignored) : stepLoc c s a = .ok s := by
  unfold stepLoc; simp only [h]

/-- P0 calc_N_eq_len_I: the number `-N` prints is the number of objects `-I` lists (same set, same level) -/
theorem C20_calc_N_eq_len_I (c : Ctx) (cm nm : Nat) (l : Calc.Level) :
    numberOfCount c cm nm l = (intersectObjs c cm nm l).length := by
  unfold numberOfCount intersectObjs
  exact List.countP_eq_length_filter

/-- P0 calc_single: `--single` keeps a subset of the set with at most one element, and that element is the first one -/
theorem C20_calc_single (b : Bitmap) :
    (∀ i, b.singlify.mem i = true → b.mem i = true) ∧
    (∀ i j, b.singlify.mem i = true → b.singlify.mem j = true → i = j) ∧
    (∀ i, b.mem i = true → (∀ m, m < i → b.mem m = false) → b.singlify.mem i = true) := by
  refine ⟨?_, ?_, ?_⟩
  · intro i h
    rw [Bitmap.mem_singlify] at h
    exact Bitmap.first_mem b i (of_decide_eq_true h)
  · intro i j hi hj
    rw [Bitmap.mem_singlify] at hi hj
    have h1 := of_decide_eq_true hi
    have h2 := of_decide_eq_true hj
    rw [h1] at h2
    exact Int.ofNat.inj h2
  · intro i hi hl
    rw [Bitmap.mem_singlify]
    exact decide_eq_true (Bitmap.first_eq_of b i hi hl)

/-- P0 calc_largest_roundtrip (full strength): on a well-formed topology (`Tree`, derived from `WF` in Hw/Topo/WFTree.lean), for
    every finite set inside the root's cpuset the `--largest` loop ends normally, lists normal objects of the topology, and the
    union of their cpusets is exactly the set — so feeding the listed objects back yields the same set.  (That the printed
    `Type:index` names denote these objects again is the C11 name round trip, exercised by every `LRT` run of the engine.) -/
theorem C20_calc_largest_roundtrip (c : Ctx) (ht : Tree c.d) {r : Obj} (hr : c.d.rootObj? = some r) (S : Bitmap)
    (hfin : S.inf = false) (hsub : ∀ i, S.mem i = true → (cs r).testBit i = true) :
    (largestLoop c (weight (c.mask S) + 2) S []).2 = true ∧
    (∀ o ∈ (largestLoop c (weight (c.mask S) + 2) S []).1, o ∈ c.d.objs ∧ isNormal o.type = true) ∧
    (∀ i, S.mem i = true ↔ ∃ o ∈ (largestLoop c (weight (c.mask S) + 2) S []).1, (cs o).testBit i = true) := by
  have hterm := largestLoop_terminates c ht hr (weight (c.mask S) + 2) S [] hfin hsub (by omega)
  have heq : largestLoop c (weight (c.mask S) + 2) S [] = ((largestLoop c (weight (c.mask S) + 2) S []).1, true) := by
    rw [← hterm]
  obtain ⟨new, hobjs, hin, hcov⟩ := largestLoop_spec c ht _ _ _ _ heq
  simp only [List.nil_append] at hobjs
  refine ⟨hterm, ?_, ?_⟩
  · intro o ho
    rw [hobjs] at ho
    exact ⟨(hin o ho).1, (hin o ho).2.1⟩
  · intro i
    constructor
    · intro hi
      obtain ⟨o, ho, hoi⟩ := hcov i hi
      exact ⟨o, by rw [hobjs]; exact ho, hoi⟩
    · intro ⟨o, ho, hoi⟩
      rw [hobjs] at ho
      exact (hin o ho).2.2 i hoi

/-- the first argument is not one of the topology options (`-i`, `--restrict`, … are consumed before the model starts) -/
def NoTopoHead (argv : List Bytes) : Prop := ∀ a, argv.head? = some a → isOpt topoOpts a = false

/-- P0 calc_rejects, at the level of the whole command line.  WHICH arguments make hwloc-calc fail is a function of the
    argument list alone (`optScan`, Hw/Io/CalcLemmas.lean): an argument starting with '-' that is not an option of the tool, an
    option whose value is missing, an unknown `--cof` / `--cif` / `--nof` format name, `--cif systemd-dbus-api`.  Then, for every
    topology and every stdin, the run ends with a non-zero status; stdout is empty unless `-v` was given (`quietArgs`).
    Arguments that do not start with '-' never make the tool fail: an invalid location (unknown type, rejected range, bad
    set) is skipped with the warning "ignored unrecognized argument" (`C20_calc_ignored_is_identity`,
    `C20_calc_rejected_range_ignored`).  The `skip` alternative is the model declining a run whose earlier location uses a
    feature it does not follow. -/
theorem C20_calc_rejects (d : Dump) (argv : List Bytes) (stdin : Bytes) (hhead : NoTopoHead argv)
    (hscan : optScan argv = .fails) :
    (∃ w, calcMain d argv stdin = .skip w) ∨
    (∃ out, calcMain d argv stdin = .exit 1 out ∧ (out = some [] ∨ out = none) ∧ (quietArgs argv → out = some [])) := by
  have hgo : calcMain d argv stdin = calcMain.go stdin (mkCtx d) argv := by
    unfold calcMain
    cases argv with
    | nil => rfl
    | cons a r => simp only; rw [if_neg]; simp [hhead a rfl]
  rw [hgo]
  unfold calcMain.go
  rcases argLoop_fails (mkCtx d) argv.length argv {} (Nat.le_refl _) hscan with ⟨w, hw⟩ | ⟨s', hs', hk⟩
  · rw [hw]; exact Or.inl ⟨w, rfl⟩
  · rw [hs']
    refine Or.inr ⟨_, rfl, ?_, ?_⟩
    · cases s'.outKnown <;> simp
    · intro q
      rw [hk q (Int.le_refl _) rfl]
      rfl

theorem outCfg_nodesetO (d : Dump) (s : St) (b : Bool) : outCfg d { s with nodesetO := b } = outCfg d s := rfl

/-- … and so does a `-N` / `-I` / `-H` argument that is not a usable level (after fix F42): whenever the option loop itself
    succeeds and the level parsing fails, the run ends with a non-zero status and (without `-v`) nothing on stdout -/
theorem C20_calc_rejects_bad_level (d : Dump) (argv : List Bytes) (stdin : Bytes) (s : St) (hhead : NoTopoHead argv)
    (hloop : argLoop (mkCtx d) {} argv = .ok s) (hbad : (match outCfg d s with | .out => true | _ => false) = true) :
    calcMain d argv stdin = .exit 1 (if s.outKnown then some [] else none) := by
  have hgo : calcMain d argv stdin = calcMain.go stdin (mkCtx d) argv := by
    unfold calcMain
    cases argv with
    | nil => rfl
    | cons a r => simp only; rw [if_neg]; simp [hhead a rfl]
  rw [hgo]
  unfold calcMain.go
  rw [hloop]
  simp only
  split
  · rename_i h1
    rw [show (mkCtx d).d = d from rfl] at h1
    split at h1
    · rw [outCfg_nodesetO] at h1; rw [h1] at hbad; cases hbad
    · rw [h1] at hbad; cases hbad
  · split <;> rfl
  · rename_i h1
    rw [show (mkCtx d).d = d from rfl] at h1
    split at h1
    · rw [outCfg_nodesetO] at h1; rw [h1] at hbad; cases hbad
    · rw [h1] at hbad; cases hbad

/-- the level parsing fails as soon as the `-N` argument is not a level of the topology -/
theorem C20_calc_bad_number_of (d : Dump) (s : St) (t : Bytes) (hs : s.numberOf = some t)
    (hp : parseOutLevel d t = some none) : (match outCfg d s with | .out => true | _ => false) = true := by
  unfold outCfg
  simp [hs, hp]

/-- a range the parser rejects (reversed `N-M`, non-positive width `N:M`, junk; fixes F40/F41) makes
    hwloc_calc_append_object_range return -1 before any loop runs: the argument is ignored, nothing is added -/
theorem C20_calc_rejected_range_ignored (d : Dump) (hbm : Int) (logical : Bool) (fuel rc rn : Nat) (level : Calc.Level)
    (s : Bytes) (hp : parseRange (splitDot s).1 = .err) :
    appendObjectRange d hbm logical (fuel + 1) rc rn level s = .ok true [] := by
  unfold appendObjectRange
  simp [hp]

/-- TERMINATION BOUND (replaces the pre-fix negative facts F40/F41): for every accepted range the loop of
    hwloc_calc_append_object_range over a level of `width` objects runs `rangeIters r width` times (by definition of the model),
    and that is at most `width` for an open-ended range (0 when `first ≥ width`), exactly the requested positive count
    (≤ 2^31) otherwise; an open-ended range never has wrap-around, so the C assertion `amount != -1 || !wrap` holds -/
theorem C20_calc_range_loop_bound {s : Bytes} {r : Range} (h : parseRange s = .ok r) (width : Nat) :
    (r.amount = -1 → r.wrap = false ∧ rangeIters r width ≤ width ∧ (width ≤ r.first → rangeIters r width = 0)) ∧
    (r.amount ≠ -1 → 1 ≤ r.amount ∧ rangeIters r width = r.amount.toNat ∧ rangeIters r width ≤ 2 ^ 31) := by
  obtain ⟨b1, b2⟩ := rangeIters_bound h width
  refine ⟨fun hm => ⟨?_, b1 hm⟩, b2⟩
  obtain ⟨_, _, _, ha⟩ := parseRange_amount h
  rcases ha with ⟨_, hw⟩ | ⟨h1, _⟩
  · exact hw
  · omega

/-- hwloc-distrib: on a well-formed topology, with normal roots of positive total weight and 0 < n, hwloc_distrib fills exactly
    the `n` sets the tool prints, none of them empty and all inside the roots (C09) -/
theorem C20_distrib_prints_n {d : Dump} (ht : Tree d) (s : DSt) (n : Nat) (fromD toD : Int)
    (hgood : ∀ r ∈ levelObjs d fromD, r ∈ d.objs ∧ isNormal r.type = true)
    (hn : 0 < n) (htot : 0 < totWeight (levelObjs d fromD)) (hsmall : n * totWeight (levelObjs d fromD) + totWeight (levelObjs d fromD) < 2 ^ 32) :
    ∃ sets, distribSets d s n fromD toD = some sets ∧ sets.length = n ∧ ∀ x ∈ sets, x ≠ 0 := by
  obtain ⟨sets, h1, h2, h3, _⟩ := distrib_count ht (levelObjs d fromD) n toD (if s.reverse then 1 else 0) hgood hn
    (by split <;> omega) htot
  refine ⟨sets, ?_, h2, fun x hx => (h3 x hx).1⟩
  unfold distribSets
  have h4 : ¬ (n * totWeight (levelObjs d fromD) + totWeight (levelObjs d fromD) ≥ 2 ^ 32) := by omega
  have h5 : totWeight (levelObjs d fromD) ≠ 0 := by omega
  simp [h4, h5, h1]

/-- hwloc-distrib rejects an unknown option with a non-zero status and no output -/
theorem C20_distrib_rejects (s : DSt) (a : Bytes) (rest : List Bytes) (hne : a ≠ str "--")
    (hdash : a.head? = some 45) (h1 : isOpt dSkipOpts a = false) (h2 : isOpt dFlagOpts a = false) (h3 : isOpt dArgOpts a = false) :
    dArgLoop s (a :: rest) = .error (.exit 1 (some [])) := by
  have f1 : a ≠ str "--single" := by intro e; subst e; simp [isOpt, dFlagOpts] at h2
  have f2 : a ≠ str "--taskset" := by intro e; subst e; simp [isOpt, dFlagOpts] at h2
  have f3 : a ≠ str "-v" := by intro e; subst e; simp [isOpt, dFlagOpts] at h2
  have f4 : a ≠ str "--verbose" := by intro e; subst e; simp [isOpt, dFlagOpts] at h2
  have f5 : a ≠ str "--reverse" := by intro e; subst e; simp [isOpt, dFlagOpts] at h2
  unfold dArgLoop
  simp [hne, hdash, h1, h3, f1, f2, f3, f4, f5]

/-- … and (after fix F44) a number argument that is not a non-negative decimal number, or a second number -/
theorem C20_distrib_invalid_number (s : DSt) (a : Bytes) (rest : List Bytes) (hne : a ≠ str "--")
    (hdash : a.head? ≠ some 45) (hbad : s.n.isSome = true ∨ numberArg a = some none) :
    dArgLoop s (a :: rest) = .error (.exit 1 (some [])) := by
  unfold dArgLoop
  have hd : (a.head? == some 45) = false := by simp [hdash]
  simp only [hne, beq_iff_eq, hd, Bool.false_eq_true, if_false]
  cases hn : s.n with
  | some k => rfl
  | none =>
    rcases hbad with h | h
    · rw [hn] at h; cases h
    · simp only [h]

/-! ### stdin mode (no location on the command line): line by line, every line from a fresh state -/

/-- a stdin line is computed from a fresh state: the cpuset and the nodeset the state holds when the line starts (what the command
    line or an earlier line left there) are not read — under every option, in particular without `-n`, `--ni`, `--no`, `--nof` -/
theorem C20_calc_stdin_line_fresh (c : Ctx) (s : St) (cfg : OutCfg) (line : Bytes) (a b : Bitmap) :
    lineOut c { s with cpuset := a, nodeset := b } cfg line = lineOut c s cfg line := rfl

/-- the output of line k depends only on line k and the options: a successful stdin run prints exactly the concatenation of what
    the lines before, the line itself and the lines after print when each is the whole input -/
theorem C20_calc_stdin_lines_independent (c : Ctx) (s : St) (cfg : OutCfg) (l1 : List Bytes) (l : Bytes) (l2 : List Bytes)
    (acc out : Bytes) (h : stdinLoop c s cfg (l1 ++ l :: l2) acc = .exit 0 (some out)) :
    ∃ o1 o o2, out = acc ++ o1 ++ o ++ o2 ∧ stdinLoop c s cfg l1 [] = .exit 0 (some o1) ∧
      stdinLoop c s cfg [l] [] = .exit 0 (some o) ∧ stdinLoop c s cfg l2 [] = .exit 0 (some o2) :=
  stdinLoop_split c s cfg l1 l l2 acc out h

/-- … and it is what the command line computes: for an option list `opts` without accepted location (`nlocs = 0`) and with `-q`
    (no banner), a successful stdin run prints one block per input line, and block k equals the stdout of
    `hwloc-calc opts <locations of line k>` whenever that run succeeds and prints something (a command line whose locations are all
    ignored reads its own stdin instead).  This is the relation the `SL` runs of the engine check on the real tool. -/
theorem C20_calc_stdin_line_eq_cmdline (d : Dump) (opts : List Bytes) (s : St) (stdin out : Bytes)
    (hloop : argLoop (mkCtx d) {} opts = .ok s) (hn : s.nlocs = 0) (hq : s.verbose < 0)
    (h1 : calcMain d opts stdin = .exit 0 (some out)) :
    ∃ outs : List Bytes, outs.length = (linesOf stdin).length ∧ out = outs.flatten ∧
      ∀ (k : Nat) (hk : k < (linesOf stdin).length) (hk' : k < outs.length) (o : Bytes),
        (∀ t ∈ tokensOf (linesOf stdin)[k], t.head? ≠ some 45) →
        calcMain d (opts ++ tokensOf (linesOf stdin)[k]) [] = .exit 0 (some o) → o ≠ [] → outs[k] = o :=
  stdin_eq_cmdline d opts s stdin out hloop hn hq h1

/-! ### non-vacuity -/

/-- the dump of the synthetic topology `core:2 pu:1` (Machine, 2 Cores, 2 PUs, 1 NUMANode), as printed by harness/dump.h -/
def exDump : Dump :=
  { flags := 0, depth := 3, root := 0, nobjs := 6, allowedCpuset := some 0x3, allowedNodeset := some 0x1,
    filters := [0, 0, 0, 0, 0, 0, 0, 0, 0, 0, 1, 1, 1, 2, 0, 1, 1, 1, 1, 1],
    objs := [
    { id := 0, type := 0, depth := 0, lidx := 0, osidx := 0, gp := 1, parent := (-1), rank := 0, arity := 2, marity := 1, ioarity := 0, miscarity := 0,
      nextSib := (-1), prevSib := (-1), nextCousin := (-1), prevCousin := (-1), firstChild := 1, lastChild := 3, memFirst := 5, ioFirst := (-1), miscFirst := (-1), symm := 1,
      cpuset := some 0x3, ccpuset := some 0x3, nodeset := some 0x1, cnodeset := some 0x1, totalMem := 1073741824, attrs := [0, 0, 0, 0, 0, 0], children := [1, 3], subtype := none, name := none, infos := [] },
    { id := 1, type := 3, depth := 1, lidx := 0, osidx := 0, gp := 3, parent := 0, rank := 0, arity := 1, marity := 0, ioarity := 0, miscarity := 0,
      nextSib := 3, prevSib := (-1), nextCousin := 3, prevCousin := (-1), firstChild := 2, lastChild := 2, memFirst := (-1), ioFirst := (-1), miscFirst := (-1), symm := 1,
      cpuset := some 0x1, ccpuset := some 0x1, nodeset := some 0x1, cnodeset := some 0x1, totalMem := 0, attrs := [0, 0, 0, 0, 0, 0], children := [2], subtype := none, name := none, infos := [] },
    { id := 2, type := 4, depth := 2, lidx := 0, osidx := 0, gp := 2, parent := 1, rank := 0, arity := 0, marity := 0, ioarity := 0, miscarity := 0,
      nextSib := (-1), prevSib := (-1), nextCousin := 4, prevCousin := (-1), firstChild := (-1), lastChild := (-1), memFirst := (-1), ioFirst := (-1), miscFirst := (-1), symm := 1,
      cpuset := some 0x1, ccpuset := some 0x1, nodeset := some 0x1, cnodeset := some 0x1, totalMem := 0, attrs := [0, 0, 0, 0, 0, 0], children := [], subtype := none, name := none, infos := [] },
    { id := 3, type := 3, depth := 1, lidx := 1, osidx := 1, gp := 5, parent := 0, rank := 1, arity := 1, marity := 0, ioarity := 0, miscarity := 0,
      nextSib := (-1), prevSib := 1, nextCousin := (-1), prevCousin := 1, firstChild := 4, lastChild := 4, memFirst := (-1), ioFirst := (-1), miscFirst := (-1), symm := 1,
      cpuset := some 0x2, ccpuset := some 0x2, nodeset := some 0x1, cnodeset := some 0x1, totalMem := 0, attrs := [0, 0, 0, 0, 0, 0], children := [4], subtype := none, name := none, infos := [] },
    { id := 4, type := 4, depth := 2, lidx := 1, osidx := 1, gp := 4, parent := 3, rank := 0, arity := 0, marity := 0, ioarity := 0, miscarity := 0,
      nextSib := (-1), prevSib := (-1), nextCousin := (-1), prevCousin := 2, firstChild := (-1), lastChild := (-1), memFirst := (-1), ioFirst := (-1), miscFirst := (-1), symm := 1,
      cpuset := some 0x2, ccpuset := some 0x2, nodeset := some 0x1, cnodeset := some 0x1, totalMem := 0, attrs := [0, 0, 0, 0, 0, 0], children := [], subtype := none, name := none, infos := [] },
    { id := 5, type := 14, depth := (-3), lidx := 0, osidx := 0, gp := 6, parent := 0, rank := 0, arity := 0, marity := 0, ioarity := 0, miscarity := 0,
      nextSib := (-1), prevSib := (-1), nextCousin := (-1), prevCousin := (-1), firstChild := (-1), lastChild := (-1), memFirst := (-1), ioFirst := (-1), miscFirst := (-1), symm := 0,
      cpuset := some 0x3, ccpuset := some 0x3, nodeset := some 0x1, cnodeset := some 0x1, totalMem := 1073741824, attrs := [1073741824, 1, 0, 0, 0, 0], children := [], subtype := none, name := none, infos := [] }],
    levels := [⟨0, 0, [0]⟩, ⟨1, 3, [1, 3]⟩, ⟨2, 4, [2, 4]⟩, ⟨(-3), 14, [5]⟩, ⟨(-4), 16, []⟩, ⟨(-5), 17, []⟩, ⟨(-6), 18, []⟩, ⟨(-7), 19, []⟩, ⟨(-8), 15, []⟩],
    typeDepths := [0, (-1), (-1), 1, 2, (-1), (-1), (-1), (-1), (-1), (-1), (-1), (-1), (-1), (-3), (-8), (-4), (-5), (-6), (-7)] }

/-- stdin mode on `core:2 pu:1` (one NUMA node): `-q -N numa` fed "pu:0", "0x0", "" and "zzz:0 pu:1" prints 1, 0, 0, 1 — the node
    selected by the first line is not counted for the second and third — and each block is the command-line output -/
example : calcMain exDump [str "-q", str "-N", str "numa"] (str "pu:0\n0x0\n\nzzz:0 pu:1\n") = .exit 0 (some (str "1\n0\n0\n1\n")) := by decide
example : calcMain exDump [str "-q", str "-N", str "numa", str "pu:0"] [] = .exit 0 (some (str "1\n")) := by decide
example : calcMain exDump [str "-q", str "-N", str "numa", str "0x0"] [] = .exit 0 (some (str "0\n")) := by decide
example : calcMain exDump [str "-q", str "-N", str "numa", str "zzz:0", str "pu:1"] [] = .exit 0 (some (str "1\n")) := by decide
/-- the hypotheses of `C20_calc_stdin_line_eq_cmdline` on that option list: no accepted location, no banner -/
example : (match argLoop (mkCtx exDump) {} [str "-q", str "-N", str "numa"] with
    | .ok s => s.nlocs == 0 && decide (s.verbose < 0)
    | .error _ => false) = true := by decide
example : linesOf (str "pu:0\n0x0\n\nzzz:0 pu:1\n") = [str "pu:0", str "0x0", [], str "zzz:0 pu:1"] ∧ linesOf (str "a\nb") = [str "a", str "b"] ∧
    tokensOf (str " zzz:0  pu:1 ") = [str "zzz:0", str "pu:1"] := by decide
/-- the operators on concrete sets: `0x0f ~0x03 x0x0e ^0x18` -/
example : (applyMode .xor (applyMode .and (applyMode .clr (applyMode .add Bitmap.alloc (ofMask 0x0f)) (ofMask 0x03)) (ofMask 0x0e)) (ofMask 0x18)).mem 4 = true := by decide
example : parseRange (str "3-0") = .err := by decide
example : parseRange (str "2:-1") = .err := by decide
example : parseRange (str "2:0") = .err := by decide
example : parseRange (str "3-3") = .ok ⟨3, 1, 1, false⟩ := by decide
example : parseRange (str "1-") = .ok ⟨1, -1, 1, false⟩ := by decide
example : parseRange (str "odd") = .ok ⟨1, -1, 2, false⟩ := by decide
example : rangeIters ⟨9, -1, 1, false⟩ 8 = 0 ∧ rangeIters ⟨1, -1, 2, false⟩ 8 = 4 ∧ rangeIters ⟨2, 3, 1, true⟩ 8 = 3 := by decide
example : optScan [str "all", str "--foo"] = .fails ∧ optScan [str "--cof"] = .fails ∧ optScan [str "--cof", str "bogus", str "all"] = .fails ∧
    optScan [str "--cif", str "systemd-dbus-api"] = .fails ∧ optScan [str "--sep", str "--foo", str "zzz:0"] = .accepts := by decide
example : numberArg (str "abc") = some none ∧ numberArg (str "3x") = some none ∧ numberArg (str "+3") = some (some 3) := by decide
example : splitMode (str "~core:0") = (.clr, str "core:0") := by decide
example : (Bitmap.singlify (ofMask 0x18)).mem 3 = true := by decide

/-! ### B9: `--cpukind`, `--default-nodes`, `--local-memory` (model: Hw/Io/CalcAttr.lean) -/

/-- the `--cpukind` filter is the intersection with the kind's cpuset (no `--cpukind`: nothing changes) -/
theorem C20_calc_cpukind_filter (k : Option Nat) (S : Bitmap) (i : Nat) :
    (cpusetAfterKind k S).mem i = (S.mem i && (match k with | none => true | some m => m.testBit i)) :=
  mem_cpusetAfterKind k S i

/-- the cpuset of `--cpukind <n>` is the cpuset `hwloc_cpukinds_get_info` reports for kind `n` (empty beyond the last kind), the one
    of `--cpukind <name>=<value>` is the union of the kinds carrying that info pair; an index wins over a pair -/
theorem C20_calc_cpukind_set (x : Extra) (ks : KSel) :
    kindSet x ks = (match ks.index, ks.info with
      | some n, _ => some (((x.kinds[n]?).map (·.cpuset)).getD 0)
      | none, some (nm, vl) => some ((x.kinds.filter (kindMatches nm vl)).foldl (fun acc kd => acc ||| kd.cpuset) 0)
      | none, none => none) := by
  cases ks with
  | mk idx info =>
    cases idx with
    | some n => cases h : x.kinds[n]? <;> simp [kindSet, h]
    | none => cases info with
      | none => rfl
      | some p => rfl

/-- the filter commutes with the operator fold: hwloc-calc folds the location sets first (C20_calc_fold) and intersects ONCE in
    hwloc_calc_output; the result has the members of the fold of the filtered location sets from the filtered start set, for all
    four operators and every location list -/
theorem C20_calc_cpukind_commutes_fold (K acc : Bitmap) (l : List (Mode × Bitmap)) (i : Nat) :
    ((foldModes acc l).and K).mem i = (foldModes (acc.and K) (l.map (fun p => (p.1, p.2.and K)))).mem i :=
  foldModes_and K i l acc

/-- the exact order inside hwloc_calc_output: cpuset ∩ kind and nodeset ∩ default nodes FIRST, then --no-smt, --single and the output
    mode (`output` of Hw.Io.Calc), whenever no cpukind / memorytier pseudo level and no --local-memory* / --best-memattr is given -/
theorem C20_calc_attr_filters_first (c : Ctx) (x : Extra) (k : Option Nat) (s : St) (xs : XSt) (cfg : OutCfg) (cpuset nodeset : Bitmap)
    (hl : xs.localMem = false) :
    outputX c x k s xs cfg {} cpuset nodeset = output c s cfg (cpusetAfterKind k cpuset) (nodesetAfterDefault c.d xs nodeset) :=
  outputX_eq_output c x k s xs cfg cpuset nodeset hl

/-- `--default-nodes` intersects the nodeset with the C14 default nodeset of the topology (`Hw.MemAttrs.defaultNodeset`, flags 0) -/
theorem C20_calc_default_nodes (d : Dump) (xs : XSt) (N : Bitmap) (i : Nat) :
    MemAttrs.defaultNodeset (envOf d) 0 = .ok (defaultNodes d) ∧
    (nodesetAfterDefault d xs N).mem i = (N.mem i && (!xs.defaultNodes || (defaultNodes d).testBit i)) :=
  ⟨defaultNodes_eq d, mem_nodesetAfterDefault d xs N i⟩

/-- `--local-memory[-flags f]` starts from exactly the NUMA nodes the flags select for the CPUSET location — the C14 model of
    `hwloc_get_local_numanode_objs` (`localNodes_cpuset_spec`, `matchLocal_iff`) on the NUMA level of the dump, in logical order —
    and from nothing (only the newline is printed) when the flags have a bit above 4 -/
theorem C20_calc_local_memory (d : Dump) (cs flags : Nat) :
    (flags < 8 →
      localNumaObjs d cs flags = some ((numaObjs d).filter (fun o => MemAttrs.matchLocal flags cs (maObj o))) ∧
      MemAttrs.localNodes (envOf d) (.cpuset cs) flags (numaObjs d).length false =
        .ok (((numaObjs d).filter (fun o => MemAttrs.matchLocal flags cs (maObj o))).length,
             ((numaObjs d).filter (fun o => MemAttrs.matchLocal flags cs (maObj o))).map maObj)) ∧
    (8 ≤ flags → localNumaObjs d cs flags = none) :=
  ⟨localNumaObjs_spec d cs flags, localNumaObjs_badflags d cs flags⟩

/-- the widened option loop is the old one wherever the old one goes through (the four memory options made the old one `skip`) -/
theorem C20_calc_attr_loop_extends (c : Ctx) (argv : List Bytes) (s s' : St) (xs : XSt) (h : argLoop c s argv = .ok s') :
    argLoopX c s xs argv = .ok (s', xs) :=
  argLoopX_of_argLoop c argv.length argv s s' xs (Nat.le_refl _) h

/-- conservative extension: without `--cpukind`, without the four memory options (the old loop goes through) and without the
    cpukind / memorytier pseudo levels, the widened model `calcMainX` is the old `calcMain` whatever CPU kinds and memory attribute
    values the topology has — C20_calc_fold … C20_calc_stdin_line_eq_cmdline keep describing what the driver answers -/
theorem C20_calc_attr_conservative (d : Dump) (x : Extra) (argv : List Bytes) (stdin : Bytes) (s : St)
    (h0 : ∀ a, argv.head? = some a → isOpt topoOpts a = false)
    (hs : argLoop (mkCtx d) {} argv = .ok s)
    (hn : pseudoOf s.numberOf = none) (hi : pseudoOf s.intersect = none) :
    calcMainX d x argv stdin = calcMain d argv stdin :=
  calcMainX_eq_calcMain d x argv stdin s h0 hs hn hi

/-- non-vacuity: `-q -N numa` (stdin mode) meets the hypotheses -/
example : (∀ a, [str "-q", str "-N", str "numa"].head? = some a → isOpt topoOpts a = false) ∧
    (match argLoop (mkCtx exDump) {} [str "-q", str "-N", str "numa"] with
     | .ok s => pseudoOf s.numberOf == none && pseudoOf s.intersect == none
     | .error _ => false) = true := by
  refine ⟨?_, by decide⟩
  intro a h; cases h; decide

/-- `--best-memattr <attr>` for an attribute without initiator, when at least one local node has a value: the filter is exactly
    the set of os_indexes of the local nodes whose value is the best one (highest for HIGHER_FIRST, lowest otherwise; ties are all
    kept), whatever the DEFAULT / STRICT flags -/
theorem C20_calc_best_memattr_values (a : XAttr) (nodes : List Obj) (dflt strict : Bool) (cs : Nat) (inf : Bool) (dns : Nat)
    (hni : a.flags.testBit 2 = false) (p : Nat × Nat) (r : List (Nat × Nat)) (hv : valuePairs a nodes = p :: r) :
    bestNodeFilter a dflt strict cs inf dns nodes = (bestValueLoop a nodes).2 ∧
    (∃ q ∈ valuePairs a nodes, q.2 = (bestValueLoop a nodes).1) ∧
    (∀ q ∈ valuePairs a nodes, asGood (a.flags.testBit 0) (bestValueLoop a nodes).1 q.2) ∧
    (∀ j, (bestValueLoop a nodes).2.testBit j = true ↔ ∃ q ∈ valuePairs a nodes, q.1 = j ∧ q.2 = (bestValueLoop a nodes).1) := by
  have inv := bestFold_spec (a.flags.testBit 0) p r
  rw [← hv, ← bestValueLoop_eq] at inv
  refine ⟨?_, inv.attained, inv.best, inv.set⟩
  unfold bestNodeFilter
  have hnz : ((bestValueLoop a nodes).2 != 0) = true := by simpa using inv.nz
  simp only [hni, Bool.false_eq_true, if_false, hnz, if_true]

/-- non-vacuity: two nodes with values 5 and 7 under a HIGHER_FIRST attribute: the second one is kept -/
example : bestFold true (0, 0) [(0, 5), (1, 7), (2, 7)] = (7, 6) := by decide

/-- non-vacuity / tests on `core:2 pu:1` with two registered kinds {PU0} (CoreType=big) and {PU1}, and a `Speed` attribute -/
def exExtra : Extra :=
  { kinds := [⟨1, 0, [(str "CoreType", str "big")]⟩, ⟨2, 1, []⟩],
    attrs := [⟨str "Capacity", 1, [(6, 0)], []⟩, ⟨str "Locality", 2, [(6, 2)], []⟩, ⟨str "Bandwidth", 5, [], [(6, some [(.cpuset 3, 10)])]⟩] }
example : calcMainX exDump exExtra [str "--cpukind", str "1", str "all"] [] = .exit 0 (some (str "0x00000002\n")) := by decide
example : calcMainX exDump exExtra [str "--cpukind", str "CoreType=big", str "all"] [] = .exit 0 (some (str "0x00000001\n")) := by decide
example : calcMainX exDump exExtra [str "--cpukind", str "7", str "all"] [] = .exit 0 (some (str "0x0\n")) := by decide
example : calcMainX exDump exExtra [str "--cpukind", str "x", str "all"] [] = .exit 1 (some []) := by decide
example : calcMainX exDump exExtra [str "-I", str "cpukind", str "--oo", str "pu:1"] [] = .exit 0 (some (str "cpukind:1\n")) := by decide
example : calcMainX exDump exExtra [str "--local-memory", str "pu:0"] [] = .exit 0 (some (str "0\n")) := by decide
example : calcMainX exDump exExtra [str "--local-memory-flags", str "smaller", str "pu:0"] [] = .exit 0 (some (str "\n")) := by decide
example : calcMainX exDump exExtra [str "--best-memattr", str "bandwidth,strict", str "--oo", str "pu:0"] [] = .exit 0 (some (str "NUMANode:0\n")) := by decide
example : calcMainX exDump exExtra [str "--best-memattr", str "nosuch", str "pu:0"] [] = .exit 1 (some []) := by decide
example : calcMainX exDump exExtra [str "-n", str "--default-nodes", str "all"] [] = .exit 0 (some (str "0x00000001\n")) := by decide
example : (parseFlags localFlagTable (str "larger|flag_all")).toOption = some (some 5) ∧ (parseFlags localFlagTable (str "all")).toOption = some none ∧ (parseFlags localFlagTable (str "locality")).toOption = some none ∧
    (parseFlags localFlagTable (str "ALL$")).toOption = some (some 4) ∧ (parseFlags localFlagTable (str "none")).toOption = some (some 0) := by decide
example : (foldModes Bitmap.alloc [(.add, ofMask 0x0f), (.clr, ofMask 0x03), (.xor, ofMask 0x18)]).mem 4 = true := by decide

end Hw.Props.C20
