/-
  Hw.Props.C20 — command-line tools compute what the library API defines (model: Hw/Io/Calc.lean).

  The theorems are about the model of hwloc-calc / hwloc-distrib; the differential engine `tools` ties the model to the real
  tools (stdout and exit-status class of every generated run).  Sets are the representation-exact bitmaps of C03, so "the
  set" is always `Bitmap.mem`.
-/
import Hw.Io.Calc
import Hw.Bitmap.Combine
import Hw.Bitmap.Order
import Hw.Bitmap.CompareFirst
import Hw.Bitmap.Queries
import Hw.Topo.DistribLemmas
namespace Hw.Props.C20
open Hw Hw.Topo Hw.Calc

/-- the documented meaning of the four operator prefixes (none = union, `~` removal, `x` intersection, `^` xor) -/
def opBool : Mode → Bool → Bool → Bool
  | .add, a, b => a || b
  | .clr, a, b => a && !b
  | .and, a, b => a && b
  | .xor, a, b => a != b

theorem mem_applyMode (m : Mode) (acc new : Bitmap) (i : Nat) :
    (applyMode m acc new).mem i = opBool m (acc.mem i) (new.mem i) := by
  cases m <;> simp [applyMode, opBool, Bitmap.mem_or, Bitmap.mem_andnot, Bitmap.mem_and, Bitmap.mem_xor]

/-- the input options a location is read under -/
structure InOpts where
  logical : Bool
  nodesetIn : Bool
  cif : Option Fmt

def inOptsOf (s : St) : InOpts := ⟨s.logicalI, s.nodesetI, s.cif⟩

/-- specification: left fold of the documented operators over the cpusets (`pick = true`) or nodesets of the named objects /
    raw sets; arguments the grammar does not accept are skipped ("ignored unrecognized argument") -/
def specFold (c : Ctx) (o : InOpts) (pick : Bool) (i : Nat) : Bool → List Bytes → Bool
  | acc, [] => acc
  | acc, a :: r =>
    match locSets c o.logical o.nodesetIn o.cif (splitMode a).2 with
    | .sets cs ns => specFold c o pick i (opBool (splitMode a).1 acc ((if pick then cs else ns).mem i)) r
    | _ => specFold c o pick i acc r

/-- the model's processing of a list of location arguments (command line between two options, or one stdin line) -/
def locFold (c : Ctx) : St → List Bytes → Except Res St
  | s, [] => .ok s
  | s, a :: r => match stepLoc c s a with
    | .error e => .error e
    | .ok s' => locFold c s' r

theorem stepLoc_inOpts {c : Ctx} {s s' : St} {a : Bytes} (h : stepLoc c s a = .ok s') : inOptsOf s' = inOptsOf s := by
  unfold stepLoc at h
  cases hl : locSets c s.logicalI s.nodesetI s.cif (splitMode a).2 <;> simp only [hl] at h <;> cases h <;> rfl

theorem stepLoc_sets {c : Ctx} {s s' : St} {a : Bytes} (h : stepLoc c s a = .ok s') (pick : Bool) (i : Nat) :
    (if pick then s'.cpuset else s'.nodeset).mem i =
      (match locSets c s.logicalI s.nodesetI s.cif (splitMode a).2 with
       | .sets cs ns => opBool (splitMode a).1 ((if pick then s.cpuset else s.nodeset).mem i) ((if pick then cs else ns).mem i)
       | _ => (if pick then s.cpuset else s.nodeset).mem i) := by
  unfold stepLoc at h
  cases hl : locSets c s.logicalI s.nodesetI s.cif (splitMode a).2 with
  | sets cs ns =>
    simp only [hl] at h
    cases h
    cases pick <;> simp [mem_applyMode]
  | ignored => simp only [hl] at h; cases h; rfl
  | unmodelled => simp only [hl] at h; cases h
  | hang => simp only [hl] at h; cases h
  | abort => simp only [hl] at h; cases h
  | nullName => simp only [hl] at h; cases h

theorem locFold_spec (c : Ctx) (pick : Bool) (i : Nat) :
    ∀ (args : List Bytes) (s s' : St), locFold c s args = .ok s' →
      (if pick then s'.cpuset else s'.nodeset).mem i =
        specFold c (inOptsOf s) pick i ((if pick then s.cpuset else s.nodeset).mem i) args := by
  intro args
  induction args with
  | nil => intro s s' h; simp only [locFold] at h; cases h; rfl
  | cons a r ih =>
    intro s s' h
    simp only [locFold] at h
    cases hs : stepLoc c s a with
    | error e => rw [hs] at h; cases h
    | ok s1 =>
      rw [hs] at h
      have h1 := ih s1 s' h
      have ho := stepLoc_inOpts hs
      have hm := stepLoc_sets hs pick i
      rw [h1, ho, hm]
      simp only [specFold, inOptsOf]
      cases locSets c s.logicalI s.nodesetI s.cif (splitMode a).2 <;> rfl

/-- P0 calc_fold: the cpuset hwloc-calc holds after a list of locations is the left fold of the documented operators over the
    cpusets of the named objects, for every argument list (arguments outside the grammar are skipped, as the tool reports) -/
theorem C20_calc_fold (c : Ctx) (args : List Bytes) (s s' : St) (i : Nat) (h : locFold c s args = .ok s') :
    s'.cpuset.mem i = specFold c (inOptsOf s) true i (s.cpuset.mem i) args := by
  have := locFold_spec c true i args s s' h
  simpa using this

/-- … and the nodeset is the same fold over the nodesets -/
theorem C20_calc_fold_nodeset (c : Ctx) (args : List Bytes) (s s' : St) (i : Nat) (h : locFold c s args = .ok s') :
    s'.nodeset.mem i = specFold c (inOptsOf s) false i (s.nodeset.mem i) args := by
  have := locFold_spec c false i args s s' h
  simpa using this

/-- an argument the grammar rejects changes nothing (not even the count of accepted locations) -/
theorem C20_calc_ignored_is_identity (c : Ctx) (s : St) (a : Bytes)
    (h : locSets c s.logicalI s.nodesetI s.cif (splitMode a).2 = .ignored) : stepLoc c s a = .ok s := by
  unfold stepLoc; simp only [h]

/-- P0 calc_N_eq_len_I: the number `-N` prints is the number of objects `-I` lists (same set, same level) -/
theorem C20_calc_N_eq_len_I (c : Ctx) (cm nm : Nat) (l : Calc.Level) :
    numberOfCount c cm nm l = (intersectObjs c cm nm l).length := by
  unfold numberOfCount intersectObjs
  exact List.countP_eq_length_filter

/-- P0 calc_single: `--single` keeps a subset of the set with at most one element, and that element is the first one -/
theorem C20_calc_single (b : Bitmap) :
    (∀ i, b.singlify.mem i = true → b.mem i = true) ∧
    (∀ i j, b.singlify.mem i = true → b.singlify.mem j = true → i = j) ∧
    (∀ i, b.mem i = true → (∀ m, m < i → b.mem m = false) → b.singlify.mem i = true) := by
  refine ⟨?_, ?_, ?_⟩
  · intro i h
    rw [Bitmap.mem_singlify] at h
    exact Bitmap.first_mem b i (of_decide_eq_true h)
  · intro i j hi hj
    rw [Bitmap.mem_singlify] at hi hj
    have h1 := of_decide_eq_true hi
    have h2 := of_decide_eq_true hj
    rw [h1] at h2
    exact Int.ofNat.inj h2
  · intro i hi hl
    rw [Bitmap.mem_singlify]
    exact decide_eq_true (Bitmap.first_eq_of b i hi hl)

/-- P0 calc_largest_roundtrip, PARTIAL: every element of the set is covered by one of the objects `--largest` lists (whenever
    the loop ends normally).  Missing for the full round trip: (1) the converse inclusion, which needs "the object returned by
    hwloc_get_first_largest_obj_inside_cpuset is inside the remaining set" (true on well-formed topologies, not proved here);
    (2) that the printed `Type:index` names parse back to the same objects (C11 round trip + level lookup).  Both are checked
    on every `LRT` run of the engine (real tool and model). -/
theorem C20_calc_largest_roundtrip_partial (c : Ctx) :
    ∀ (fuel : Nat) (rem : Bitmap) (acc objs : List Obj), largestLoop c fuel rem acc = (objs, true) →
      ∀ i, rem.mem i = true → ∃ o ∈ objs, (ofMask (cs o)).mem i = true := by
  intro fuel
  induction fuel with
  | zero => intro rem acc objs h; simp [largestLoop] at h
  | succ f ih =>
    intro rem acc objs h i hi
    unfold largestLoop at h
    by_cases hz : rem.iszero = true
    · have := (Bitmap.iszero_iff rem).mp hz i
      rw [this] at hi; cases hi
    · simp only [hz, Bool.false_eq_true, if_false] at h
      cases hf : firstLargest c.d (c.mask rem) with
      | none => rw [hf] at h; simp at h
      | some o =>
        rw [hf] at h
        simp only at h
        by_cases ho : (ofMask (cs o)).mem i = true
        · -- `o` itself was appended to the accumulator, which only grows
          have hacc : ∀ (f : Nat) (r : Bitmap) (a l : List Obj), largestLoop c f r a = (l, true) → ∀ x ∈ a, x ∈ l := by
            intro f
            induction f with
            | zero => intro r a l h; simp [largestLoop] at h
            | succ f ih2 =>
              intro r a l h x hx
              unfold largestLoop at h
              by_cases hz2 : r.iszero = true
              · simp only [hz2, if_true] at h; cases h; exact hx
              · simp only [hz2, Bool.false_eq_true, if_false] at h
                cases hf2 : firstLargest c.d (c.mask r) with
                | none => rw [hf2] at h; simp at h
                | some o2 =>
                  rw [hf2] at h
                  exact ih2 _ _ _ h x (List.mem_append_left _ hx)
          exact ⟨o, hacc f _ _ _ h o (List.mem_append_right _ (List.mem_singleton.mpr rfl)), ho⟩
        · have hrem : (rem.andnot (ofMask (cs o))).mem i = true := by
            rw [Bitmap.mem_andnot, hi]
            cases hm : (ofMask (cs o)).mem i
            · rfl
            · exact absurd hm ho
          exact ih _ _ _ h i hrem

/-- P0 calc_rejects: an argument that starts with '-' and is not an option of the tool ends the run with a non-zero status;
    nothing has been printed unless `-v` was given before (`out = some []`) -/
theorem C20_calc_rejects (c : Ctx) (s : St) (a : Bytes) (rest : List Bytes)
    (hdash : a.head? = some 45) (h1 : isOpt skipOpts a = false) (h2 : startsWith a (str "--no-smt=") = false)
    (h3 : isOpt flagOpts a = false) (h4 : isOpt argOpts a = false) :
    argLoop c s (a :: rest) = .error (.exit 1 (if s.outKnown then some [] else none)) := by
  unfold argLoop
  simp [hdash, h1, h2, h3, h4]

/-- … and so does an option whose value is missing -/
theorem C20_calc_rejects_missing_value (c : Ctx) (s : St) (a : Bytes)
    (hdash : a.head? = some 45) (h1 : isOpt skipOpts a = false) (h2 : startsWith a (str "--no-smt=") = false)
    (h3 : isOpt flagOpts a = false) (h4 : isOpt argOpts a = true) :
    argLoop c s [a] = .error (.exit 1 (if s.outKnown then some [] else none)) := by
  unfold argLoop
  simp [hdash, h1, h2, h3, h4]

/-- NEGATIVE fact (defect F42): when the `-N` level cannot be parsed the model — like the C (`goto out` with `ret` still
    EXIT_SUCCESS) — leaves with status 0 and prints nothing, whereas the property demands a non-zero status -/
theorem C20_calc_bad_level_exits_zero (d : Dump) (s : St) (t : Bytes) (hs : s.numberOf = some t)
    (hp : parseOutLevel d t = some none) : (match outCfg d s with | .out => true | _ => false) = true := by
  unfold outCfg
  simp [hs, hp]

/-- NEGATIVE fact (defect F40): a reversed range `N-M` with `M + 1 < N` gives the loop `j < (unsigned) amount` at least 2^31
    iterations (each one a level walk and a line on stderr) -/
theorem C20_calc_reversed_range_hangs (first last : Int) (h0 : 0 ≤ last) (h1 : last + 1 < first) (h2 : first < 2 ^ 31) :
    hangLimit ≤ ((last - first + 1) % 2 ^ 32).toNat := by
  unfold hangLimit
  omega

/-- NEGATIVE fact (defect F41): `type:N:-1` reaches `assert(amount != -1 || !wrap)` with amount = -1 and wrap = 1 -/
theorem C20_calc_negative_wrap_aborts (d : Dump) (hbm : Int) (logical : Bool) (fuel rc rn : Nat) (level : Calc.Level) (s : Bytes)
    (r : Range) (hp : parseRange (splitDot s).1 = .ok r) (ha : r.amount = -1) (hw : r.wrap = true) :
    appendObjectRange d hbm logical (fuel + 1) rc rn level s = .abort := by
  unfold appendObjectRange
  simp [hp, ha, hw]

/-- hwloc-distrib: on a well-formed topology, with normal roots of positive total weight and 0 < n, hwloc_distrib fills exactly
    the `n` sets the tool prints, none of them empty and all inside the roots (C09) -/
theorem C20_distrib_prints_n {d : Dump} (ht : Tree d) (s : DSt) (n : Nat) (fromD toD : Int)
    (hgood : ∀ r ∈ levelObjs d fromD, r ∈ d.objs ∧ isNormal r.type = true)
    (hn : 0 < n) (htot : 0 < totWeight (levelObjs d fromD)) (hsmall : n * totWeight (levelObjs d fromD) + totWeight (levelObjs d fromD) < 2 ^ 32) :
    ∃ sets, distribSets d s n fromD toD = some sets ∧ sets.length = n ∧ ∀ x ∈ sets, x ≠ 0 := by
  obtain ⟨sets, h1, h2, h3, _⟩ := distrib_count ht (levelObjs d fromD) n toD (if s.reverse then 1 else 0) hgood hn
    (by split <;> omega) htot
  refine ⟨sets, ?_, h2, fun x hx => (h3 x hx).1⟩
  unfold distribSets
  have h4 : ¬ (n * totWeight (levelObjs d fromD) + totWeight (levelObjs d fromD) ≥ 2 ^ 32) := by omega
  have h5 : totWeight (levelObjs d fromD) ≠ 0 := by omega
  simp [h4, h5, h1]

/-- hwloc-distrib rejects an unknown option with a non-zero status and no output -/
theorem C20_distrib_rejects (s : DSt) (a : Bytes) (rest : List Bytes) (hne : a ≠ str "--")
    (hdash : a.head? = some 45) (h1 : isOpt dSkipOpts a = false) (h2 : isOpt dFlagOpts a = false) (h3 : isOpt dArgOpts a = false) :
    dArgLoop s (a :: rest) = .error (.exit 1 (some [])) := by
  have f1 : a ≠ str "--single" := by intro e; subst e; simp [isOpt, dFlagOpts] at h2
  have f2 : a ≠ str "--taskset" := by intro e; subst e; simp [isOpt, dFlagOpts] at h2
  have f3 : a ≠ str "-v" := by intro e; subst e; simp [isOpt, dFlagOpts] at h2
  have f4 : a ≠ str "--verbose" := by intro e; subst e; simp [isOpt, dFlagOpts] at h2
  have f5 : a ≠ str "--reverse" := by intro e; subst e; simp [isOpt, dFlagOpts] at h2
  unfold dArgLoop
  simp [hne, hdash, h1, h3, f1, f2, f3, f4, f5]

/-! ### non-vacuity -/

/-- the operators on concrete sets: `0x0f ~0x03 x0x0e ^0x18` -/
example : (applyMode .xor (applyMode .and (applyMode .clr (applyMode .add Bitmap.alloc (ofMask 0x0f)) (ofMask 0x03)) (ofMask 0x0e)) (ofMask 0x18)).mem 4 = true := by decide
example : parseRange (str "3-0") = .ok ⟨3, -2, 1, false⟩ := by decide
example : parseRange (str "2:-1") = .ok ⟨2, -1, 1, true⟩ := by decide
example : parseRange (str "1-") = .ok ⟨1, -1, 1, false⟩ := by decide
example : parseRange (str "odd") = .ok ⟨1, -1, 2, false⟩ := by decide
example : isOpt flagOpts (str "--foo") = false ∧ isOpt argOpts (str "--foo") = false ∧ isOpt skipOpts (str "--foo") = false := by decide
example : splitMode (str "~core:0") = (.clr, str "core:0") := by decide
example : (Bitmap.singlify (ofMask 0x18)).mem 3 = true := by decide

end Hw.Props.C20
