/-
  C09 — Traversal and locality helpers agree with their set-theoretic definitions.

  Model: Hw/Topo/Helpers.lean, Hw/Topo/Distrib.lean (helper.h, inlines.h, traversal.c 172-264, 846-961).
  All theorems are stated for a dump `d` under `WFT d` = `WF d` (C01 well-formedness, Hw/Topo/WF.lean) together
  with `T_order d` (DFS numbering of the dump: a parent's id is smaller than its children's — a property of how
  harness/dump.h numbers objects, not of the topology).  The proofs go through `Tree d` (Hw/Topo/WFLemmas.lean: the
  structural consequences of WF in quantified form), which Hw/Topo/WFTree.lean derives from `WF d ∧ T_order d`
  (`Tree_of_wf_partial`).  Both oracles (`wfCheck`, `treeCheck`) are evaluated by the `helpers` driver on every
  topology of every differential run.  Lemmas live in Hw/Topo/Helpers{Basic,Cover,Iter,Anc,Local}.lean and DistribLemmas.lean.
-/
import Hw.Topo.HelpersIter
import Hw.Topo.HelpersLocal
import Hw.Topo.HelpersAnc
import Hw.Topo.DistribLemmas
import Hw.Topo.HelpersCover
import Hw.Topo.LevelDisjoint
import Hw.Topo.WFTree
namespace Hw.Props.C09
open Hw.Topo

/-- hypothesis of every theorem: well-formed (C01) and numbered in DFS order -/
structure WFT (d : Dump) : Prop where
  wf : WF d
  order : T_order d

/-- every structural consequence used by the proofs follows -/
theorem WFT.tree {d : Dump} (h : WFT d) : Tree d := Tree_of_wf_partial h.wf h.order

instance (d : Dump) : Decidable (WFT d) :=
  decidable_of_iff (WF d ∧ T_order d) ⟨fun h => ⟨h.1, h.2⟩, fun h => ⟨h.wf, h.order⟩⟩

/-- the two executable oracles run by the driver on every dump decide the hypothesis -/
theorem C09_oracle (d : Dump) : (wfCheck d = [] ∧ treeCheck d = []) ↔ WFT d :=
  ⟨fun h => ⟨(wfCheck_iff d).1 h.1, ((treeCheck_iff d).1 h.2).order⟩,
   fun h => ⟨(wfCheck_iff d).2 h.wf, (treeCheck_iff d).2 h.tree⟩⟩

/-- `Tree` is derived: under well-formedness it is equivalent to the DFS numbering alone -/
theorem C09_tree_of_wf {d : Dump} (hw : WF d) : Tree d ↔ T_order d :=
  ⟨fun t => t.order, fun o => Tree_of_wf_partial hw o⟩

/-! ### covering -/

/-- hwloc_get_obj_covering_cpuset: for a non-empty `S` included in the root the result includes `S`, and every
    normal object whose cpuset includes `S` is the result or one of its ancestors (so the result is the deepest) -/
theorem C09_covering_deepest {d : Dump} (h : WFT d) {S : Nat} {r : Obj} (hS : S ≠ 0) (hr : d.rootObj? = some r)
    (hsub : subset S (cs r) = true) :
    ∃ c, objCovering d S = some c ∧ c ∈ d.objs ∧ isNormal c.type = true ∧ subset S (cs c) = true ∧
      (∀ o ∈ d.objs, isNormal o.type = true → subset S (cs o) = true → AncSelf d o c) ∧
      (∀ o ∈ d.objs, isNormal o.type = true → subset S (cs o) = true → o.depth ≤ c.depth) := by
  obtain ⟨c, h1, h2, h3, h4, h5⟩ := covering_deepest h.tree hS hr hsub
  obtain ⟨c', h1', _, _, _, h6⟩ := covering_is_deepest h.tree hS hr hsub
  rw [h1] at h1'; cases h1'
  exact ⟨c, h1, h2, h3, h4, h5, h6⟩

/-- `S = ∅` or `S ⊄ root` → NULL -/
theorem C09_covering_none {d : Dump} {S : Nat} {r : Obj} (hr : d.rootObj? = some r)
    (h : S = 0 ∨ subset S (cs r) = false) : objCovering d S = none := covering_none hr h

/-- the model agrees with the brute-force definition (deepest normal object including `S`) for every `S` -/
theorem C09_covering_eq_brute {d : Dump} (h : WFT d) (S : Nat) : objCovering d S = bruteObjCovering d S :=
  covering_eq_brute h.tree S

/-! ### largest objects inside -/

/-- hwloc_get_largest_objs_inside_cpuset with a large enough array: pairwise disjoint, each inside `S` and maximal
    (its parent is not inside `S`), union exactly `S` -/
theorem C09_largest_partition {d : Dump} (h : WFT d) {S : Nat} {r : Obj} (hr : d.rootObj? = some r)
    (hsub : subset S (cs r) = true) (max : Int) (hmax : max ≥ d.objs.length) (hpos : 0 < max) :
    (largestObjs d S max).1 = ((largestObjs d S max).2.length : Int) ∧
    (largestObjs d S max).2.Pairwise (fun a b => disjoint (cs a) (cs b) = true) ∧
    (∀ o ∈ (largestObjs d S max).2, o ∈ d.objs ∧ isNormal o.type = true ∧ subset (cs o) S = true ∧
      (∀ p, d.obj? o.parent = some p → subset (cs p) S = false)) ∧
    orAll ((largestObjs d S max).2.map cs) = S :=
  largest_partition h.tree hr hsub max hmax hpos

/-- `S ⊄ root` → -1 -/
theorem C09_largest_not_included {d : Dump} {S : Nat} {r : Obj} (max : Int) (hr : d.rootObj? = some r)
    (h : subset S (cs r) = false) : (largestObjs d S max).1 = -1 := largest_not_included max hr h

/-- with a small `max` exactly the first `max` objects of the full answer are returned -/
theorem C09_largest_max (d : Dump) (S : Nat) {m M : Int} (hm : 0 < m) (hmM : m ≤ M) :
    (largestObjs d S m).2 = ((largestObjs d S M).2).take m.toNat ∧
    (largestObjs d S m).1 = min m (largestObjs d S M).1 := largestObjs_max d S hm hmM

/-- the full answer is (a permutation of) the brute-force filter over all objects -/
theorem C09_largest_eq_brute {d : Dump} (h : WFT d) {S : Nat} {r : Obj} (hr : d.rootObj? = some r)
    (hsub : subset S (cs r) = true) (max : Int) (hmax : max ≥ d.objs.length) (hpos : 0 < max) (hr0 : cs r ≠ 0) :
    (largestObjs d S max).2.Perm (bruteLargest d S) := (largest_eq_brute h.tree hr hsub max hmax hpos hr0).2

/-! ### iterators -/

/-- a level lists exactly the objects of its depth, in logical order; it is the brute-force level -/
theorem C09_level_spec {d : Dump} (h : WFT d) (depth : Int) :
    (∀ o, o ∈ levelObjs d depth ↔ (o ∈ d.objs ∧ o.depth = depth)) ∧
    (levelObjs d depth).map (·.lidx) = List.range (levelObjs d depth).length ∧
    levelObjs d depth = bruteLevel d depth :=
  ⟨fun _ => level_spec_mem h.tree, level_spec_order h.tree depth, level_spec_brute h.tree depth⟩

/-- iterating hwloc_get_next_obj_inside_cpuset_by_depth from NULL yields exactly the level's objects with non-empty
    cpuset ⊆ S, in logical order; count / index / by-index variants are consistent with it -/
theorem C09_iter_inside {d : Dump} (h : WFT d) (S : Nat) (depth : Int) :
    iterNext (nextInsideByDepth d S depth) d.fuel none = (levelObjs d depth).filter (insideOk S) ∧
    iterNext (nextInsideByDepth d S depth) d.fuel none = bruteInside d S depth ∧
    nbobjsInsideByDepth d S depth = ((levelObjs d depth).filter (insideOk S)).length ∧
    (∀ idx, objInsideByDepth d S depth idx = ((levelObjs d depth).filter (insideOk S))[idx]?) :=
  ⟨iter_inside h.tree S depth, iter_inside_brute h.tree S depth, nbobjs_inside h.tree S depth,
   fun idx => obj_inside h.tree S depth idx⟩

theorem C09_index_inside {d : Dump} (h : WFT d) {o : Obj} (ho : o ∈ d.objs) (S : Nat) :
    (insideOk S o = true → 0 ≤ indexInside d S o ∧
      ((levelObjs d o.depth).filter (insideOk S))[(indexInside d S o).toNat]? = some o) ∧
    (subset (cs o) S = false → indexInside d S o = -1) :=
  ⟨fun hin => index_inside h.tree ho S hin, fun hn => index_inside_notsub d S o hn⟩

/-- hwloc_get_next_obj_covering_cpuset_by_depth: exactly the level's objects intersecting `S`, in logical order -/
theorem C09_iter_covering {d : Dump} (h : WFT d) (S : Nat) (depth : Int) :
    iterNext (nextCoveringByDepth d S depth) d.fuel none = (levelObjs d depth).filter (coverOk S) ∧
    iterNext (nextCoveringByDepth d S depth) d.fuel none = bruteCovering d S depth :=
  ⟨iter_covering h.tree S depth, iter_covering_brute h.tree S depth⟩

/-- the by-type iterators are the by-depth ones on the type's single level, and empty otherwise -/
theorem C09_iter_by_type {d : Dump} (h : WFT d) (S : Nat) (t : Int) :
    iterNext (nextInsideByType d S t) d.fuel none
      = (if isSingleDepth (typeDepth d t) = true then (levelObjs d (typeDepth d t)).filter (insideOk S) else []) ∧
    iterNext (nextCoveringByType d S t) d.fuel none
      = (if isSingleDepth (typeDepth d t) = true then (levelObjs d (typeDepth d t)).filter (coverOk S) else []) :=
  ⟨iter_inside_by_type h.tree S t, iter_covering_by_type h.tree S t⟩

/-! ### ancestors -/

/-- hwloc_get_common_ancestor_obj (the depth-free double loop of helper.h after fix 82dfc45), for ALL objects of the
    dump — normal, memory, I/O or Misc in any mix: the loops terminate, the result is never NULL, it is a common
    ancestor-or-self of both arguments and every common ancestor is an ancestor-or-self of it (the deepest common
    ancestor); the call is symmetric and equals the brute-force filter over all objects -/
theorem C09_common_ancestor {d : Dump} (h : WFT d) {o1 o2 : Obj} (h1 : o1 ∈ d.objs) (h2 : o2 ∈ d.objs) :
    ∃ a, commonAncestor d o1 o2 = some a ∧ commonAncestor d o2 o1 = some a ∧ a ∈ d.objs ∧
      AncSelf d a o1 ∧ AncSelf d a o2 ∧ (∀ b, AncSelf d b o1 → AncSelf d b o2 → AncSelf d b a) ∧
      commonAncestor d o1 o2 = bruteCommonAncestor d o1 o2 := by
  obtain ⟨a, e1, ha, a1, a2, hmax⟩ := common_ancestor_all h.tree h1 h2
  exact ⟨a, e1, (common_ancestor_comm h.tree h1 h2) ▸ e1, ha, a1, a2, hmax, common_ancestor_all_eq_brute h.tree h1 h2⟩

/-- for normal arguments the result is normal and no common ancestor is deeper -/
theorem C09_common_ancestor_normal_depth {d : Dump} (h : WFT d) {o1 o2 : Obj} (h1 : o1 ∈ d.objs) (h2 : o2 ∈ d.objs)
    (n1 : isNormal o1.type = true) (n2 : isNormal o2.type = true) :
    ∃ a, commonAncestor d o1 o2 = some a ∧ isNormal a.type = true ∧ a.depth ≤ o1.depth ∧ a.depth ≤ o2.depth ∧
      ∀ b, AncSelf d b o1 → AncSelf d b o2 → b.depth ≤ a.depth := by
  obtain ⟨a, e1, _, hn, d1, d2, hd⟩ := common_ancestor_normal_depth h.tree h1 h2 n1 n2
  exact ⟨a, e1, hn, d1, d2, hd⟩

/-- hwloc_get_ancestor_obj_by_depth on a normal object, for a depth in `[0, obj.depth]`: the deepest ancestor-or-self
    not deeper than `k`; deeper `k` → NULL -/
theorem C09_ancestor_by_depth {d : Dump} (h : WFT d) {o : Obj} (ho : o ∈ d.objs) (hn : isNormal o.type = true) {k : Int} :
    (0 ≤ k → k ≤ o.depth → ∃ a, ancestorByDepth d k o = some a ∧ a ∈ d.objs ∧ AncSelf d a o ∧ a.depth ≤ k ∧
      (o.depth = k → a = o) ∧ ∀ b, AncSelf d b o → b.depth ≤ k → AncSelf d b a) ∧
    (o.depth < k → ancestorByDepth d k o = none) := by
  refine ⟨fun hk0 hk => ?_, fun hk => ancestor_by_depth_deeper d o hk⟩
  obtain ⟨a, e, ha, _, h1, h2, h3, h4⟩ := ancestor_by_depth_spec h.tree ho hn hk0 hk
  exact ⟨a, e, ha, h1, h2, h3, h4⟩

/-! ### closest objects -/

/-- hwloc_get_closest_objs (`src` normal or memory: every object with a cpuset): at most `max` objects of src's level,
    never `src`, no duplicates, ordered by ancestor distance (an ancestor of `src` that excludes an earlier result
    excludes every later one) -/
theorem C09_closest_order {d : Dump} (h : WFT d) {src : Obj} (hsrc : src ∈ d.objs)
    (hn : isNormal src.type = true ∨ isMemory src.type = true) (max : Nat) :
    (closestObjs d src max).length ≤ max ∧ src ∉ closestObjs d src max ∧ (closestObjs d src max).Nodup ∧
    (∀ o ∈ closestObjs d src max, o ∈ levelObjs d src.depth ∧ subset (cs o) (cs src) = false) ∧
    (closestObjs d src max).Pairwise (fun x y =>
      ∀ a, AncSelf d a src → subset (cs x) (cs a) = false → subset (cs y) (cs a) = false) :=
  ⟨closest_length d src max, closest_not_src h.tree hsrc hn max, closest_nodup h.tree hsrc hn max,
   closest_members h.tree hsrc hn max, closest_order h.tree hsrc hn max⟩

/-! ### cpuset <-> nodeset -/

/-- hwloc_cpuset_to_nodeset = os indexes of the NUMA nodes whose cpuset intersects `S`; hwloc_cpuset_from_nodeset = union
    of the cpusets of the NUMA nodes whose os index is in `N`; both equal their brute-force definitions; round trip
    covers every bit of `S` that lies in some node's cpuset -/
theorem C09_nodeset_conv {d : Dump} (h : WFT d) :
    (∀ S i, (cpusetToNodeset d S).testBit i = true ↔
      ∃ o ∈ d.objs, o.type = tNUMA ∧ o.osidx = (i : Int) ∧ intersects S (cs o) = true) ∧
    (∀ N i, (cpusetFromNodeset d N).testBit i = true ↔
      ∃ o ∈ d.objs, o.type = tNUMA ∧ N.testBit o.osidx.toNat = true ∧ (cs o).testBit i = true) ∧
    (∀ S, cpusetToNodeset d S = bruteCpusetToNodeset d S) ∧ (∀ N, cpusetFromNodeset d N = bruteCpusetFromNodeset d N) ∧
    (∀ S i, S.testBit i = true → (∃ o ∈ d.objs, o.type = tNUMA ∧ (cs o).testBit i = true) →
      (cpusetFromNodeset d (cpusetToNodeset d S)).testBit i = true) :=
  ⟨nodeset_conv_to h.tree, nodeset_conv_from h.tree, nodeset_conv_to_brute h.tree, nodeset_conv_from_brute h.tree,
   nodeset_galois h.tree⟩

/-! ### same locality -/

/-- hwloc_get_obj_with_same_locality, normal/memory branch: the result has the requested type, equal cpuset and nodeset,
    matching subtype / name prefix, and is the first such object in level order; ENOENT means there is none;
    non-zero flags are EINVAL -/
theorem C09_same_locality {d : Dump} (h : WFT d) {src : Obj} {t : Int} {subtype pre : Option String}
    (hsrc : (isNormal src.type || isMemory src.type) = true) :
    (∀ o, sameLocality d src t subtype pre 0 = .ok o →
      o ∈ d.objs ∧ (o.type : Int) = t ∧ o.cpuset = src.cpuset ∧ o.nodeset = src.nodeset ∧
      subtypeOk subtype o.subtype = true ∧ prefixOk pre o.name = true ∧
      ∀ o' ∈ d.objs, (o'.type : Int) = t → o'.cpuset = src.cpuset → o'.nodeset = src.nodeset →
        subtypeOk subtype o'.subtype = true → prefixOk pre o'.name = true → o.lidx ≤ o'.lidx) ∧
    (sameLocality d src t subtype pre 0 = .error .ENOENT → isSingleDepth (typeDepth d t) = true →
      ¬ ∃ o' ∈ d.objs, (o'.type : Int) = t ∧ o'.cpuset = src.cpuset ∧ o'.nodeset = src.nodeset ∧
        subtypeOk subtype o'.subtype = true ∧ prefixOk pre o'.name = true) ∧
    (∀ flags, flags ≠ 0 → sameLocality d src t subtype pre flags = .error .EINVAL) :=
  ⟨fun _ ho => same_locality_ok h.tree hsrc ho, fun he hs => same_locality_enoent h.tree hsrc he hs,
   fun _ hf => same_locality_flags d src t subtype pre hf⟩

/-! ### hwloc_distrib -/

/-- if some root is non-empty the call fills exactly `n` sets, none empty, each inside the union of the roots, and
    their union is the union of the roots (normal roots; Nat arithmetic = the C's unsigned arithmetic as long as
    `n * totalWeight + totalWeight < 2^32`) -/
theorem C09_distrib_count {d : Dump} (h : WFT d) (roots : List Obj) (n : Nat) (untl : Int) (flags : Nat)
    (hgood : ∀ r ∈ roots, r ∈ d.objs ∧ isNormal r.type = true)
    (hn : 0 < n) (hf : flags ≤ 1) (htot : 0 < totWeight roots) :
    ∃ sets, distrib d roots n untl flags = some sets ∧ sets.length = n ∧
      (∀ s ∈ sets, s ≠ 0 ∧ subset s (orAll (roots.map cs)) = true) ∧
      orAll sets = orAll (roots.map cs) := distrib_count h.tree roots n untl flags hgood hn hf htot

/-- pairwise disjoint when the roots are disjoint, `n` does not exceed the number of PUs below the roots and `until`
    is below every splitting point (`until ≥ topology depth`) -/
theorem C09_distrib_disjoint {d : Dump} (h : WFT d) (roots : List Obj) (n : Nat) (untl : Int) (flags : Nat)
    (hgood : ∀ r ∈ roots, r ∈ d.objs ∧ isNormal r.type = true)
    (hn : 0 < n) (hf : flags ≤ 1)
    (hpw : roots.Pairwise (fun a b => disjoint (cs a) (cs b) = true))
    (hu : (d.depth : Int) ≤ untl) (hntot : n ≤ totWeight roots) :
    ∃ sets, distrib d roots n untl flags = some sets ∧ sets.Pairwise (fun a b => disjoint a b = true) :=
  distrib_disjoint h.tree roots n untl flags hgood hn hf hpw hu hntot

/-- `n = 0` or flags other than REVERSE → -1; all roots empty → 0 and nothing is written -/
theorem C09_distrib_degenerate (d : Dump) (roots : List Obj) (n : Nat) (untl : Int) (flags : Nat) :
    ((n = 0 ∨ (flags ≠ 0 ∧ flags ≠ 1)) → distrib d roots n untl flags = none) ∧
    (totWeight roots = 0 → 0 < n → flags ≤ 1 → distrib d roots n untl flags = some []) :=
  ⟨distrib_einval d roots n untl flags, distrib_all_empty d roots n untl flags⟩

/-- the chunk sizes telescope to exactly `n` -/
theorem C09_distrib_chunks {n tot : Nat} {ws : List Nat} (htot : 0 < tot) (hs : ws.sum = tot) :
    (chunkFold n tot ws (0, 0)).1 = n := (chunk_telescope htot hs).1

/-! ### singlify per core -/

/-- hwloc_bitmap_singlify_per_core: result ⊆ input; bits outside every core untouched; inside each core exactly the
    `which`-th PU of the input (if any) survives, hence at most one PU per core -/
theorem C09_singlify_per_core {d : Dump} (h : WFT d) (S which : Nat)
    (hs : isSingleDepth (typeDepth d (tCORE : Nat)) = true) (hk : 0 ≤ typeDepth d (tCORE : Nat)) :
    subset (singlifyPerCore d S which) S = true ∧
    (∀ i, (∀ c ∈ levelObjs d (typeDepth d (tCORE : Nat)), (cs c).testBit i = false) →
       (singlifyPerCore d S which).testBit i = S.testBit i) ∧
    (∀ c ∈ levelObjs d (typeDepth d (tCORE : Nat)),
      (match ((bits (cs c)).filter (fun i => S.testBit i))[which]? with
       | some pu => singlifyPerCore d S which &&& cs c = single pu
       | none    => singlifyPerCore d S which &&& cs c = 0)) ∧
    (∀ c ∈ levelObjs d (typeDepth d (tCORE : Nat)), weight (singlifyPerCore d S which &&& cs c) ≤ 1) := by
  have hd := h.tree.level_disjoint hk
  obtain ⟨a, b, c⟩ := singlify_per_core h.tree S which hs hd
  exact ⟨a, b, c, singlify_at_most_one h.tree S which hs hd⟩

/-- no single Core level → the set is left unchanged -/
theorem C09_singlify_no_core_level (d : Dump) (S which : Nat)
    (h : isSingleDepth (typeDepth d (tCORE : Nat)) = false) : singlifyPerCore d S which = S :=
  singlify_no_core_level d S which h

/-! ### type <-> depth -/

/-- hwloc_get_type_depth and hwloc_get_depth_type are mutually inverse; a normal type has type depth
    HWLOC_TYPE_DEPTH_MULTIPLE exactly when it sits at two or more depths (any normal type, not only Groups), and a type
    with a non-negative type depth has exactly that one level -/
theorem C09_type_depth_inverse {d : Dump} (h : WFT d) :
    (∀ t : Int, 0 ≤ typeDepth d t → depthType d (typeDepth d t) = t) ∧
    (∀ (t : Nat) (sd : Int), specialDepth t = some sd → typeDepth d (t : Int) = sd ∧ depthType d sd = (t : Int)) ∧
    (∀ k : Int, 0 ≤ k → k < (d.depth : Int) →
      typeDepth d (depthType d k) = k ∨ typeDepth d (depthType d k) = depthMultiple) ∧
    (∀ t : Nat, t < tMAX → specialDepth t = none →
      (typeDepth d (t : Int) = depthMultiple ↔
        2 ≤ (d.levels.filter (fun l => decide (0 ≤ l.depth) && l.type == (t : Int))).length)) ∧
    (∀ t : Int, 0 ≤ typeDepth d t → ∀ l ∈ d.levels, 0 ≤ l.depth → l.type = t → l.depth = typeDepth d t) :=
  ⟨fun t ht => type_depth_inverse_a h.tree t ht, fun _ _ hs => type_depth_inverse_b h.tree hs,
   fun _ h0 hk => type_depth_inverse_c h.tree h0 hk, fun _ ht hs => type_depth_multiple_iff h.tree ht hs,
   fun t ht => type_depth_single h.tree t ht⟩

/-! ### non-vacuity: a concrete well-formed dump and concrete instances of the hypotheses -/

/-- the dump of the synthetic topology `core:2 pu:1` (Machine, 2 Cores, 2 PUs, 1 NUMANode), as printed by harness/dump.h -/
def exDump : Dump :=
  { flags := 0, depth := 3, root := 0, nobjs := 6, allowedCpuset := some 0x3, allowedNodeset := some 0x1,
    filters := [0, 0, 0, 0, 0, 0, 0, 0, 0, 0, 1, 1, 1, 2, 0, 1, 1, 1, 1, 1],
    objs := [
    { id := 0, type := 0, depth := 0, lidx := 0, osidx := 0, gp := 1, parent := (-1), rank := 0, arity := 2, marity := 1, ioarity := 0, miscarity := 0,
      nextSib := (-1), prevSib := (-1), nextCousin := (-1), prevCousin := (-1), firstChild := 1, lastChild := 3, memFirst := 5, ioFirst := (-1), miscFirst := (-1), symm := 1,
      cpuset := some 0x3, ccpuset := some 0x3, nodeset := some 0x1, cnodeset := some 0x1, totalMem := 1073741824, attrs := [0, 0, 0, 0, 0, 0], children := [1, 3], subtype := none, name := none, infos := [] },
    { id := 1, type := 3, depth := 1, lidx := 0, osidx := 0, gp := 3, parent := 0, rank := 0, arity := 1, marity := 0, ioarity := 0, miscarity := 0,
      nextSib := 3, prevSib := (-1), nextCousin := 3, prevCousin := (-1), firstChild := 2, lastChild := 2, memFirst := (-1), ioFirst := (-1), miscFirst := (-1), symm := 1,
      cpuset := some 0x1, ccpuset := some 0x1, nodeset := some 0x1, cnodeset := some 0x1, totalMem := 0, attrs := [0, 0, 0, 0, 0, 0], children := [2], subtype := none, name := none, infos := [] },
    { id := 2, type := 4, depth := 2, lidx := 0, osidx := 0, gp := 2, parent := 1, rank := 0, arity := 0, marity := 0, ioarity := 0, miscarity := 0,
      nextSib := (-1), prevSib := (-1), nextCousin := 4, prevCousin := (-1), firstChild := (-1), lastChild := (-1), memFirst := (-1), ioFirst := (-1), miscFirst := (-1), symm := 1,
      cpuset := some 0x1, ccpuset := some 0x1, nodeset := some 0x1, cnodeset := some 0x1, totalMem := 0, attrs := [0, 0, 0, 0, 0, 0], children := [], subtype := none, name := none, infos := [] },
    { id := 3, type := 3, depth := 1, lidx := 1, osidx := 1, gp := 5, parent := 0, rank := 1, arity := 1, marity := 0, ioarity := 0, miscarity := 0,
      nextSib := (-1), prevSib := 1, nextCousin := (-1), prevCousin := 1, firstChild := 4, lastChild := 4, memFirst := (-1), ioFirst := (-1), miscFirst := (-1), symm := 1,
      cpuset := some 0x2, ccpuset := some 0x2, nodeset := some 0x1, cnodeset := some 0x1, totalMem := 0, attrs := [0, 0, 0, 0, 0, 0], children := [4], subtype := none, name := none, infos := [] },
    { id := 4, type := 4, depth := 2, lidx := 1, osidx := 1, gp := 4, parent := 3, rank := 0, arity := 0, marity := 0, ioarity := 0, miscarity := 0,
      nextSib := (-1), prevSib := (-1), nextCousin := (-1), prevCousin := 2, firstChild := (-1), lastChild := (-1), memFirst := (-1), ioFirst := (-1), miscFirst := (-1), symm := 1,
      cpuset := some 0x2, ccpuset := some 0x2, nodeset := some 0x1, cnodeset := some 0x1, totalMem := 0, attrs := [0, 0, 0, 0, 0, 0], children := [], subtype := none, name := none, infos := [] },
    { id := 5, type := 14, depth := (-3), lidx := 0, osidx := 0, gp := 6, parent := 0, rank := 0, arity := 0, marity := 0, ioarity := 0, miscarity := 0,
      nextSib := (-1), prevSib := (-1), nextCousin := (-1), prevCousin := (-1), firstChild := (-1), lastChild := (-1), memFirst := (-1), ioFirst := (-1), miscFirst := (-1), symm := 0,
      cpuset := some 0x3, ccpuset := some 0x3, nodeset := some 0x1, cnodeset := some 0x1, totalMem := 1073741824, attrs := [1073741824, 1, 0, 0, 0, 0], children := [], subtype := none, name := none, infos := [] }],
    levels := [⟨0, 0, [0]⟩, ⟨1, 3, [1, 3]⟩, ⟨2, 4, [2, 4]⟩, ⟨(-3), 14, [5]⟩, ⟨(-4), 16, []⟩, ⟨(-5), 17, []⟩, ⟨(-6), 18, []⟩, ⟨(-7), 19, []⟩, ⟨(-8), 15, []⟩],
    typeDepths := [0, (-1), (-1), 1, 2, (-1), (-1), (-1), (-1), (-1), (-1), (-1), (-1), (-1), (-3), (-8), (-4), (-5), (-6), (-7)] }


example : WFT exDump := by decide
example : objCovering exDump 0x2 = exDump.objs[4]? := by decide
example : (largestObjs exDump 0x3 10).1 = 1 ∧ (largestObjs exDump 0x2 10).1 = 1 ∧ (largestObjs exDump 0x4 10).1 = -1 := by decide
example : (iterNext (nextInsideByDepth exDump 0x3 1) exDump.fuel none).map (·.id) = [1, 3] := by decide
example : cpusetToNodeset exDump 0x2 = 0x1 ∧ cpusetFromNodeset exDump 0x1 = 0x3 := by decide
example : distrib exDump (exDump.objs.take 1) 2 1000 0 = some [0x1, 0x2] ∧ 0 < totWeight (exDump.objs.take 1) := by decide
example : (closestObjs exDump (exDump.objs[2]?.getD default) 4).map (·.id) = [4] := by decide
example : singlifyPerCore exDump 0x3 0 = 0x3 ∧ singlifyPerCore exDump 0x3 1 = 0 := by decide
example : (commonAncestor exDump (exDump.objs[2]?.getD default) (exDump.objs[4]?.getD default)).map (·.id) = some 0 ∧
    (commonAncestor exDump (exDump.objs[2]?.getD default) (exDump.objs[5]?.getD default)).map (·.id) = some 0 := by decide   -- (PU, PU), (PU, NUMANode)
example : (closestObjs exDump (exDump.objs[5]?.getD default) 4).map (·.id) = [] := by decide   -- memory source

end Hw.Props.C09
