/- Hw.Attr.DiffXmlLink — what hwloc_topology_diff_build returns can be handed to the XML exporter: a list built with return
   value 0 holds only OBJ_ATTR entries of the three known sub-types without NULL strings, i.e. `Exportable` entries
   (Hw.Io.XmlDiff) as soon as the keys fit the C types. -/
import Hw.Attr.DiffLemmas
import Hw.Io.XmlDiffLemmas
namespace Hw.Diff
variable {σ : Type} [DecidableEq σ]

/-- an entry whose types are inside the enums -/
def Entry.Known : Entry σ → Prop
  | .unknown => False
  | .objAttr _ .unknown => False
  | _ => True

def Entry.key : Entry σ → Key
  | .objAttr k _ => k
  | .tooComplex k => k
  | .unknown => (0, 0)

theorem infosDiff_known (k : Key) (i1 i2 : List (σ × σ)) : ∀ e ∈ (infosDiff k i1 i2).1, e.Known := by
  intro e he
  unfold infosDiff at he
  split at he
  · simp at he
  · obtain ⟨nm, o, n, rfl, _⟩ := infosGo_entries k i1 i2 e he
    trivial

mutual
theorem diffTrees_known : ∀ (x y : Obj σ), ∀ e ∈ diffTrees x y, e.Known
  | .mk a a0 a1 a2 a3, .mk b b0 b1 b2 b3 => by
    intro e he
    unfold diffTrees at he
    split at he
    · simp only [List.mem_singleton] at he; subst he; trivial
    · rcases mem_stage he with he | he | rfl
      · simp only [List.mem_append] at he
        rcases he with he | he
        · unfold nameDiff at he
          split at he
          · simp only [List.mem_singleton] at he; subst he; trivial
          · simp at he
        · unfold sizeDiff at he
          split at he
          · simp only [List.mem_singleton] at he; subst he; trivial
          · simp at he
      · rcases mem_stage he with he | he | rfl
        · exact infosDiff_known _ _ _ e he
        · rcases mem_stage he with he | he | rfl
          · exact diffKids_known a0 b0 e he
          · rcases mem_stage he with he | he | rfl
            · exact diffKids_known a1 b1 e he
            · rcases mem_stage he with he | he | rfl
              · exact diffKids_known a2 b2 e he
              · rcases mem_stage he with he | he | rfl
                · exact diffKids_known a3 b3 e he
                · simp at he
                · trivial
              · trivial
            · trivial
          · trivial
        · trivial
      · trivial
theorem diffKids_known : ∀ (l1 l2 : List (Obj σ)), ∀ e ∈ (diffKids l1 l2).1, e.Known
  | [], [] => by simp [diffKids]
  | _ :: _, [] => by simp [diffKids]
  | [], _ :: _ => by simp [diffKids]
  | x :: xs, y :: ys => by
    intro e he
    unfold diffKids at he
    simp only [List.mem_append] at he
    rcases he with he | he
    · exact diffTrees_known x y e he
    · exact diffKids_known xs ys e he
end

theorem build_known (A B : Topo σ) : ∀ e ∈ (build A B).2, e.Known := by
  intro e he
  have hi := infosDiff_known (A.nbl, 0) A.tinfos B.tinfos
  unfold build at he
  simp only at he
  repeat' split at he
  all_goals
    simp only [List.mem_append, List.mem_singleton, List.append_assoc] at he
    first
    | exact diffTrees_known _ _ e he
    | (rcases he with h | h | h <;> first | exact diffTrees_known _ _ e h | exact hi e h | (subst h; trivial))
    | (rcases he with h | h <;> first | exact diffTrees_known _ _ e h | exact hi e h | (subst h; trivial))

open Hw.XmlDiff in
theorem exportable_of_known (e : E) (h1 : e.Known) (h2 : e.NoNull) (h3 : e.isTC = false) (hk : KeyInRange e.key) :
    Exportable e := by
  cases e with
  | unknown => exact absurd h1 (by simp [Entry.Known])
  | tooComplex k => simp [Entry.isTC] at h3
  | objAttr k a =>
    cases a with
    | unknown => exact absurd h1 (by simp [Entry.Known])
    | size o n => exact hk
    | info nm o n => exact hk
    | name o n =>
      obtain ⟨ho, hn⟩ : o.isSome = true ∧ n.isSome = true := h2
      cases o with
      | none => simp at ho
      | some o =>
        cases n with
        | none => simp at hn
        | some n => exact hk

open Hw.XmlDiff in
/-- a list built with return value 0 is exportable entry by entry (keys inside the C types) -/
theorem build_exportable (A B : Topo Bytes) (h0 : (build A B).1 = 0) (hk : ∀ e ∈ (build A B).2, KeyInRange e.key) :
    ∀ e ∈ (build A B).2, Exportable e := by
  intro e he
  have htc : (build A B).2.any Entry.isTC = false := by rw [build_tc, h0]; decide
  rw [List.any_eq_false] at htc
  exact exportable_of_known e (build_known A B e he) (build_noNull A B e he) (by simpa using htc e he) (hk e he)

end Hw.Diff
