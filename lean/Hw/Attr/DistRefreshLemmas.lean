/-
  Lemmas about the pointer-level model `Hw.DistRefresh` of `hwloc_internal_distances_refresh()`.

  Proof device: a ZIPPER view of the list.  `Inv h rk rest` says that the topology's list is
  `rk.reverse ++ rest`, described from the loop cursor: `rest` is a forward chain (`Chain`) whose first node
  has predecessor `rk.head?`, `rk` is a backward chain (`Back`) whose first node has successor `rest.head?`.
  Moving the cursor (`Inv.shift`) is a re-bracketing; unlinking the node under the cursor (`unlink_inv`)
  touches only the two heads, everything else is a frame argument.
-/
import Hw.Attr.DistRefresh
namespace Hw.DistRefresh

/-- backward chain: the nodes of `l` are live and linked in REVERSE order, the first one having successor `nx` -/
def Back (h : Heap) : Option Nat → List Nat → Prop
  | _, [] => True
  | nx, a :: l => h.freed a = false ∧ h.next a = nx ∧ h.prev a = l.head? ∧ Back h (some a) l

theorem Chain.frame {h h' : Heap} : ∀ {l : List Nat} {p : Option Nat},
    (∀ a ∈ l, h'.freed a = h.freed a ∧ h'.prev a = h.prev a ∧ h'.next a = h.next a) →
    Chain h p l → Chain h' p l
  | [], _, _, _ => trivial
  | a :: l, p, hf, hc => by
      simp only [Chain] at hc ⊢
      obtain ⟨h1, h2, h3, h4⟩ := hc
      obtain ⟨f1, f2, f3⟩ := hf a (List.mem_cons_self ..)
      exact ⟨f1 ▸ h1, f2 ▸ h2, f3 ▸ h3, Chain.frame (fun b hb => hf b (List.mem_cons_of_mem _ hb)) h4⟩

theorem Back.frame {h h' : Heap} : ∀ {l : List Nat} {p : Option Nat},
    (∀ a ∈ l, h'.freed a = h.freed a ∧ h'.prev a = h.prev a ∧ h'.next a = h.next a) →
    Back h p l → Back h' p l
  | [], _, _, _ => trivial
  | a :: l, p, hf, hc => by
      simp only [Back] at hc ⊢
      obtain ⟨h1, h2, h3, h4⟩ := hc
      obtain ⟨f1, f2, f3⟩ := hf a (List.mem_cons_self ..)
      exact ⟨f1 ▸ h1, f3 ▸ h2, f2 ▸ h3, Back.frame (fun b hb => hf b (List.mem_cons_of_mem _ hb)) h4⟩

/-- zipper invariant: the list is `rk.reverse ++ rest`, seen from the cursor between `rk` and `rest` -/
def Inv (h : Heap) (rk rest : List Nat) : Prop :=
  (rk.Nodup ∧ rest.Nodup ∧ ∀ a ∈ rk, ∀ b ∈ rest, a ≠ b) ∧
  h.first = rk.getLast?.or rest.head? ∧ h.last = rest.getLast?.or rk.head? ∧
  Back h rest.head? rk ∧ Chain h rk.head? rest

theorem Inv_nil_iff (h : Heap) (l : List Nat) : Inv h [] l ↔ Linked h l := by
  simp [Inv, Linked, Back]

theorem getLast?_cons_or (a : Nat) (rk : List Nat) (o : Option Nat) :
    (a :: rk).getLast?.or o = rk.getLast?.or (some a) := by
  cases rk with
  | nil => simp
  | cons b rk => rw [List.getLast?_cons_cons]; simp [List.getLast?_cons]

/-- moving the cursor over one node -/
theorem Inv.shift (h : Heap) (rk rest : List Nat) (d : Nat) : Inv h rk (d :: rest) ↔ Inv h (d :: rk) rest := by
  simp only [Inv, Back, Chain, List.head?_cons, List.nodup_cons, List.mem_cons, getLast?_cons_or]
  constructor
  · rintro ⟨⟨n1, ⟨n2, n3⟩, n4⟩, f, l, b, c1, c2, c3, c4⟩
    refine ⟨⟨⟨fun hm => n4 d hm d (Or.inl rfl) rfl, n1⟩, n3, ?_⟩, f, l, ⟨c1, c3, c2, b⟩, c4⟩
    intro a ha b hb
    rcases ha with rfl | ha
    · intro e; exact n2 (e ▸ hb)
    · exact n4 a ha b (Or.inr hb)
  · rintro ⟨⟨⟨n1, n2⟩, n3, n4⟩, f, l, ⟨c1, c3, c2, b⟩, c4⟩
    refine ⟨⟨n2, ⟨fun hm => n4 d (Or.inl rfl) d hm rfl, n3⟩, ?_⟩, f, l, b, c1, c2, c3, c4⟩
    intro a ha b hb
    rcases hb with rfl | hb
    · intro e; exact n1 (e ▸ ha)
    · exact n4 a (Or.inr ha) b hb

theorem Inv.shifts (h : Heap) : ∀ (pre rk rest : List Nat), Inv h rk (pre ++ rest) ↔ Inv h (pre.reverse ++ rk) rest
  | [], rk, rest => by simp
  | d :: pre, rk, rest => by
      rw [List.cons_append, Inv.shift, Inv.shifts h pre (d :: rk) rest]
      simp

theorem Inv.linked {h : Heap} {rk : List Nat} (hi : Inv h rk []) : Linked h rk.reverse := by
  have := (Inv.shifts h rk.reverse [] []).2 (by simpa using hi)
  simpa [Inv_nil_iff] using this

theorem Linked.inv {h : Heap} {pre rest : List Nat} (hl : Linked h (pre ++ rest)) : Inv h pre.reverse rest := by
  have := (Inv.shifts h pre [] rest).1 ((Inv_nil_iff ..).2 hl)
  simpa using this

/-- the heap after unlinking + freeing `d` whose neighbours are `pv` and `nx` -/
def unlinked (h : Heap) (d : Nat) (pv nx : Option Nat) : Heap :=
  { next := fun q => if some q = pv then nx else h.next q
    prev := fun q => if some q = nx then pv else h.prev q
    freed := fun q => if q = d then true else h.freed q
    first := if pv = none then nx else h.first
    last := if nx = none then pv else h.last }

theorem unlink_eq (h : Heap) (d : Nat) (pv nx : Option Nat)
    (hp : ∀ p, pv = some p → h.freed p = false) (hn : ∀ n, nx = some n → h.freed n = false)
    (hd : h.freed d = false) : unlink h d pv nx = .ok (unlinked h d pv nx) := by
  cases pv with
  | none =>
    cases nx with
    | none => simp [unlink, free, unlinked, hd, bind, Except.bind, pure, Except.pure]
    | some n =>
      have := hn n rfl
      simp [unlink, free, wrPrev, unlinked, hd, this, bind, Except.bind, pure, Except.pure, eq_comm]
  | some p =>
    have hp' := hp p rfl
    cases nx with
    | none => simp [unlink, free, wrNext, unlinked, hd, hp', bind, Except.bind, pure, Except.pure, eq_comm]
    | some n =>
      have := hn n rfl
      simp [unlink, free, wrNext, wrPrev, unlinked, hd, hp', this, bind, Except.bind, eq_comm]

theorem unlinked_frame (h : Heap) (d : Nat) (pv nx : Option Nat) (a : Nat)
    (h1 : a ≠ d) (h2 : some a ≠ pv) (h3 : some a ≠ nx) :
    (unlinked h d pv nx).freed a = h.freed a ∧ (unlinked h d pv nx).prev a = h.prev a ∧
    (unlinked h d pv nx).next a = h.next a := by
  simp [unlinked, h1, h2, h3]

/-- unlinking the node under the cursor: safe, and the zipper closes over it -/
theorem unlink_inv {h : Heap} {rk rest : List Nat} {d : Nat} (hi : Inv h rk (d :: rest)) :
    unlink h d rk.head? rest.head? = .ok (unlinked h d rk.head? rest.head?) ∧
    Inv (unlinked h d rk.head? rest.head?) rk rest := by
  obtain ⟨⟨n1, n2, n3⟩, hf, hl, hb, hc⟩ := hi
  simp only [Chain] at hc
  obtain ⟨fd, pd, nd, hc⟩ := hc
  rw [List.nodup_cons] at n2
  obtain ⟨n2, n4⟩ := n2
  cases rk with
  | nil =>
    cases rest with
    | nil => 
      refine ⟨unlink_eq _ _ _ _ (by simp) (by simp) fd, ?_⟩
      simp [Inv, unlinked, Back, Chain]
    | cons n r =>
      simp only [Chain] at hc
      obtain ⟨fn, pn, nn, hc⟩ := hc
      refine ⟨unlink_eq _ _ _ _ (by simp) (by simpa using fn) fd, ?_⟩
      have hnd : n ≠ d := fun e => n2 (e ▸ List.mem_cons_self ..)
      rw [List.nodup_cons] at n4
      refine ⟨⟨n1, List.nodup_cons.2 n4, by simp⟩, by simp [unlinked], ?_, trivial, ?_⟩
      · simpa [unlinked, List.getLast?_cons_cons] using hl
      · simp only [Chain, List.head?_cons, List.head?_nil]
        refine ⟨by simpa [unlinked, hnd] using fn, by simp [unlinked], by simpa [unlinked] using nn, ?_⟩
        refine Chain.frame (fun a ha => unlinked_frame _ _ _ _ _ ?_ (by simp) ?_) hc
        · intro e; exact n2 (e ▸ List.mem_cons_of_mem _ ha)
        · intro e; exact n4.1 (Option.some.inj e ▸ ha)
  | cons p rk =>
    simp only [Back] at hb
    obtain ⟨fp, np, pp, hb⟩ := hb
    rw [List.nodup_cons] at n1
    have hpd : p ≠ d := fun e => n3 p (List.mem_cons_self ..) d (List.mem_cons_self ..) e
    have hfirst : (unlinked h d (p :: rk).head? rest.head?).first = (p :: rk).getLast?.or rest.head? := by
      simpa [unlinked, List.getLast?_cons] using hf
    have hback : ∀ nx, (∀ n, nx = some n → n ∉ rk ∧ n ≠ p) → Back (unlinked h d (some p) nx) nx (p :: rk) := by
      intro nx hnx
      simp only [Back]
      refine ⟨by simpa [unlinked, hpd] using fp, by simp [unlinked], ?_, ?_⟩
      · have : some p ≠ nx := fun e => (hnx p e.symm).2 rfl
        simpa [unlinked, this] using pp
      · refine Back.frame (fun a ha => unlinked_frame _ _ _ _ _ ?_ ?_ ?_) hb
        · intro e; exact n3 a (List.mem_cons_of_mem _ ha) d (List.mem_cons_self ..) e
        · intro e; exact n1.1 (Option.some.inj e ▸ ha)
        · intro e; exact (hnx a e.symm).1 ha
    cases rest with
    | nil =>
      refine ⟨unlink_eq _ _ _ _ (by simpa using fp) (by simp) fd, ?_⟩
      refine ⟨⟨List.nodup_cons.2 n1, n4, by simp⟩, hfirst, by simp [unlinked], ?_, trivial⟩
      exact hback none (by simp)
    | cons n r =>
      simp only [Chain] at hc
      obtain ⟨fn, pn, nn, hc⟩ := hc
      have hnd : n ≠ d := fun e => n2 (e ▸ List.mem_cons_self ..)
      have hpn : p ≠ n := n3 p (List.mem_cons_self ..) n (List.mem_cons_of_mem _ (List.mem_cons_self ..))
      rw [List.nodup_cons] at n4
      refine ⟨unlink_eq _ _ _ _ (by simpa using fp) (by simpa using fn) fd, ?_⟩
      refine ⟨⟨List.nodup_cons.2 n1, List.nodup_cons.2 n4,
               fun a ha b hb => n3 a ha b (List.mem_cons_of_mem _ hb)⟩, hfirst, ?_, ?_, ?_⟩
      · simpa [unlinked, List.getLast?_cons_cons, List.getLast?_cons] using hl
      · refine hback (some n) ?_
        intro n' e
        cases e
        exact ⟨fun hm => n3 n (List.mem_cons_of_mem _ hm) n (List.mem_cons_of_mem _ (List.mem_cons_self ..)) rfl,
               fun e => hpn e.symm⟩
      · simp only [Chain, List.head?_cons]
        refine ⟨by simpa [unlinked, hnd] using fn, by simp [unlinked], ?_, ?_⟩
        · have : n ≠ p := fun e => hpn e.symm
          simpa [unlinked, this] using nn
        · refine Chain.frame (fun a ha => unlinked_frame _ _ _ _ _ ?_ ?_ ?_) hc
          · intro e; exact n2 (e ▸ List.mem_cons_of_mem _ ha)
          · intro e
            exact n3 p (List.mem_cons_self ..) a (List.mem_cons_of_mem _ (List.mem_cons_of_mem _ ha))
              (Option.some.inj e).symm
          · intro e; exact n4.1 (Option.some.inj e ▸ ha)

/-- the real loop from the cursor: safe, enough fuel, closes the zipper over exactly the dropped nodes -/
theorem loop_false_inv (drop : Nat → Bool) : ∀ (rest rk : List Nat) (h : Heap) (pl : Option Nat),
    Inv h rk rest →
    ∃ h', loop false drop rest.length h pl rest.head? = .ok h' ∧
          Linked h' (rk.reverse ++ rest.filter (fun d => !drop d)) ∧
          (∀ p, h'.freed p = (h.freed p || (decide (p ∈ rest) && drop p)))
  | [], rk, h, pl, hi => ⟨h, by simp [loop], by simpa using hi.linked, by simp⟩
  | d :: rest, rk, h, pl, hi => by
      have hc := hi.2.2.2.2
      simp only [Chain] at hc
      obtain ⟨fd, pd, nd, -⟩ := hc
      simp only [List.length_cons, List.head?_cons, loop, rdNext, rdPrev, fd, bind, Except.bind, pure, Except.pure]
      cases hd : drop d with
      | false =>
        obtain ⟨h', e, hl, hfr⟩ := loop_false_inv drop rest (d :: rk) h (some d) ((Inv.shift ..).1 hi)
        refine ⟨h', by simpa [nd] using e, by simpa [List.filter_cons, hd] using hl, ?_⟩
        intro p
        rw [hfr p]
        by_cases hp : p = d
        · subst hp; simp [hd]
        · simp [hp]
      | true =>
        obtain ⟨e1, hi'⟩ := unlink_inv hi
        obtain ⟨h', e, hl, hfr⟩ := loop_false_inv drop rest rk _ (some d) hi'
        refine ⟨h', ?_, by simpa [List.filter_cons, hd] using hl, ?_⟩
        · simp [nd, pd, e1, e]
        · intro p
          rw [hfr p]
          by_cases hp : p = d
          · subst hp; simp [hd, unlinked]
          · simp [hp, unlinked]

/-- (A) the loop of the source: never touches freed memory, stops within `l.length` iterations, leaves
    exactly the kept nodes, in order, linked both ways with first/last right, and frees exactly the dropped -/
theorem refresh_spec (h : Heap) (l : List Nat) (hl : Linked h l) (drop : Nat → Bool) :
    ∃ h', refresh false drop h l.length = .ok h' ∧
          Linked h' (l.filter (fun d => !drop d)) ∧
          (∀ p, h'.freed p = (h.freed p || (decide (p ∈ l) && drop p))) := by
  obtain ⟨h', e, hl', hf⟩ := loop_false_inv drop l [] h none ((Inv_nil_iff ..).2 hl)
  refine ⟨h', ?_, by simpa using hl', hf⟩
  rw [refresh, hl.2.1]; exact e

theorem walk_chain (h : Heap) : ∀ (l : List Nat) (p : Option Nat) (n : Nat), Chain h p l → l.length ≤ n →
    walk h n l.head? = .ok l
  | [], _, n, _, _ => by cases n <;> simp [walk]
  | a :: l, p, 0, _, hn => by simp at hn
  | a :: l, p, n + 1, hc, hn => by
      simp only [Chain] at hc
      obtain ⟨fa, -, na, hc⟩ := hc
      have := walk_chain h l (some a) n hc (by simpa using hn)
      simp [walk, rdNext, fa, na, this, bind, Except.bind, pure, Except.pure]

/-- (B) a later consumer walking first → next sees exactly `l` and never touches freed memory -/
theorem walk_linked' (h : Heap) (l : List Nat) (hl : Linked h l) (n : Nat) (hn : l.length ≤ n) :
    walk h n h.first = .ok l := by
  rw [hl.2.1]; exact walk_chain h l none n hl.2.2.2 hn

theorem walk_linked (h : Heap) (l : List Nat) (hl : Linked h l) : walk h l.length h.first = .ok l :=
  walk_linked' h l hl _ (Nat.le_refl _)

theorem refresh_then_walk (h : Heap) (l : List Nat) (hl : Linked h l) (drop : Nat → Bool) :
    ∃ h', refresh false drop h l.length = .ok h' ∧
          walk h' l.length h'.first = .ok (l.filter (fun d => !drop d)) := by
  obtain ⟨h', e, hl', -⟩ := refresh_spec h l hl drop
  exact ⟨h', e, walk_linked' h' _ hl' _ (List.length_filter_le ..)⟩

/-- the `running` variant walks over a prefix of kept nodes like the real loop, its local predecessor being right -/
theorem loop_true_skip (drop : Nat → Bool) (h : Heap) : ∀ (pre rest : List Nat) (p pl : Option Nat) (k : Nat),
    Chain h p (pre ++ rest) → (∀ x ∈ pre, drop x = false) →
    loop true drop (pre.length + k) h pl (pre ++ rest).head? = loop true drop k h (pre.getLast?.or pl) rest.head?
  | [], rest, p, pl, k, _, _ => by simp
  | d :: pre, rest, p, pl, k, hc, hk => by
      simp only [List.cons_append, Chain] at hc
      obtain ⟨fd, -, nd, hc⟩ := hc
      have hd : drop d = false := hk d (List.mem_cons_self ..)
      have ih := loop_true_skip drop h pre rest (some d) (some d) k hc
        (fun x hx => hk x (List.mem_cons_of_mem _ hx))
      have e : (d :: pre).length + k = (pre.length + k) + 1 := by simp only [List.length_cons]; omega
      rw [e, getLast?_cons_or, ← ih]
      simp [loop, rdNext, fd, nd, hd, bind, Except.bind]

/-- (C) the variant with a loop-local predecessor: as soon as two ADJACENT nodes are dropped (the first such
    pair being `a`, `b`), unlinking `b` writes `a->next` after `a` was freed -/
theorem running_uaf (h : Heap) (a b : Nat) (pre post : List Nat) (hl : Linked h (pre ++ a :: b :: post))
    (drop : Nat → Bool) (hk : ∀ x ∈ pre, drop x = false) (ha : drop a = true) (hb : drop b = true) :
    refresh true drop h (pre ++ a :: b :: post).length = .error (.uaf a) := by
  have hi := hl.inv
  have e : (pre ++ a :: b :: post).length = pre.length + ((post.length + 1) + 1) := by simp
  rw [refresh, hl.2.1, e, loop_true_skip drop h pre _ none none _ hl.2.2.2 hk]
  have hc := hi.2.2.2.2
  simp only [Chain] at hc
  obtain ⟨fa, -, na, -⟩ := hc
  obtain ⟨e1, hi'⟩ := unlink_inv hi
  have hc' := hi'.2.2.2.2
  simp only [Chain] at hc'
  obtain ⟨fb, -, -, -⟩ := hc'
  have hpv : pre.getLast?.or none = pre.reverse.head? := by simp
  rw [hpv]
  simp only [List.head?_cons] at e1 fb ⊢
  have ffa : ∀ pv, (unlinked h a pv (some b)).freed a = true := by simp [unlinked]
  simp only [loop, rdNext, fa, na, ha, List.head?_cons, e1, bind, Except.bind, pure, Except.pure, if_true,
    Bool.false_eq_true, if_false, fb, hb]
  simp [unlink, wrNext, ffa, bind, Except.bind]

/-! ### (D) exhaustive finite check: every drop pattern on every list of at most 5 nodes -/

/-- the nodes of `0..n-1` that the mask `m` keeps (bit `d` set = node `d` is dropped) -/
def keptOf (n m : Nat) : List Nat := (List.range n).filter (fun d => !m.testBit d)

/-- the mask drops two adjacent nodes among `0..n-1` -/
def adjacentDrops (n m : Nat) : Bool :=
  (List.range n).any fun i => decide (i + 1 < n) && m.testBit i && m.testBit (i + 1)

/-- the run returned `.ok h'` and walking `h'` from `first` gives exactly `l` (no freed node touched) -/
def okWalks (r : M Heap) (n : Nat) (l : List Nat) : Bool :=
  match r with
  | .ok h' => (match walk h' n h'.first with | .ok l' => l' == l | .error _ => false)
  | .error _ => false

def isError {α} (r : M α) : Bool := match r with | .ok _ => false | .error _ => true

def errOf {α} (r : M α) : Option Err := match r with | .ok _ => none | .error e => some e

/-- the first node that is dropped together with its successor -/
def firstAdjacent (n m : Nat) : Option Nat :=
  (List.range n).find? fun i => decide (i + 1 < n) && m.testBit i && m.testBit (i + 1)

/-- one pattern: the real loop is safe and leaves the kept nodes; the `running` variant fails IFF two adjacent
    nodes are dropped (the error being the write into the first such node, already freed), and otherwise
    leaves the kept nodes too -/
def checkOne (n m : Nat) : Bool :=
  okWalks (refresh false (fun d => m.testBit d) (mk (List.range n)) n) n (keptOf n m) &&
  (isError (refresh true (fun d => m.testBit d) (mk (List.range n)) n) == adjacentDrops n m) &&
  (adjacentDrops n m || okWalks (refresh true (fun d => m.testBit d) (mk (List.range n)) n) n (keptOf n m)) &&
  (errOf (refresh true (fun d => m.testBit d) (mk (List.range n)) n) == (firstAdjacent n m).map Err.uaf)

def checkAll : Bool := (List.range 6).all fun n => (List.range (2 ^ n)).all fun m => checkOne n m

theorem all_patterns_le5 : checkAll = true := by decide

theorem okWalks_iff (r : M Heap) (n : Nat) (l : List Nat) :
    okWalks r n l = true ↔ ∃ h', r = .ok h' ∧ walk h' n h'.first = .ok l := by
  cases r with
  | error e => simp [okWalks]
  | ok h' =>
    simp only [okWalks, Except.ok.injEq, exists_eq_left']
    cases walk h' n h'.first with
    | error e => simp
    | ok l' => simp

theorem isError_iff {α} (r : M α) : isError r = true ↔ ∃ e, r = .error e := by
  cases r <;> simp [isError]

theorem adjacentDrops_iff (n m : Nat) :
    adjacentDrops n m = true ↔ ∃ i, i + 1 < n ∧ m.testBit i = true ∧ m.testBit (i + 1) = true := by
  simp only [adjacentDrops, List.any_eq_true, List.mem_range, Bool.and_eq_true, decide_eq_true_eq]
  constructor
  · rintro ⟨i, -, ⟨h1, h2⟩, h3⟩; exact ⟨i, h1, h2, h3⟩
  · rintro ⟨i, h1, h2, h3⟩; exact ⟨i, by omega, ⟨h1, h2⟩, h3⟩

/-- (D) unpacked: what `checkAll = true` says for one `n ≤ 5` and one mask `m < 2^n` -/
theorem all_patterns_le5_spec (n m : Nat) (hn : n ≤ 5) (hm : m < 2 ^ n) :
    (∃ h', refresh false (fun d => m.testBit d) (mk (List.range n)) n = .ok h' ∧
           walk h' n h'.first = .ok (keptOf n m)) ∧
    ((∃ e, refresh true (fun d => m.testBit d) (mk (List.range n)) n = .error e) ↔
      ∃ i, i + 1 < n ∧ m.testBit i = true ∧ m.testBit (i + 1) = true) ∧
    (∀ h', refresh true (fun d => m.testBit d) (mk (List.range n)) n = .ok h' →
           walk h' n h'.first = .ok (keptOf n m)) := by
  have h := all_patterns_le5
  simp only [checkAll, List.all_eq_true, List.mem_range] at h
  have h1 := h n (by omega) m hm
  simp only [checkOne, Bool.and_eq_true, Bool.or_eq_true, beq_iff_eq] at h1
  obtain ⟨⟨⟨a, b⟩, c⟩, -⟩ := h1
  refine ⟨(okWalks_iff ..).1 a, ?_, ?_⟩
  · rw [← isError_iff, ← adjacentDrops_iff, b]
  · intro h' e
    rcases c with c | c
    · rw [← b, e] at c; simp [isError] at c
    · obtain ⟨h'', e', w⟩ := (okWalks_iff ..).1 c
      rw [e] at e'; cases e'; exact w

theorem all_patterns_le5_err (n m : Nat) (hn : n ≤ 5) (hm : m < 2 ^ n) :
    errOf (refresh true (fun d => m.testBit d) (mk (List.range n)) n) = (firstAdjacent n m).map Err.uaf := by
  have h := all_patterns_le5
  simp only [checkAll, List.all_eq_true, List.mem_range] at h
  have h1 := h n (by omega) m hm
  simp only [checkOne, Bool.and_eq_true, beq_iff_eq] at h1
  exact h1.2

/-- non-vacuity of the hypothesis of (A)-(C): `mk` builds linked heaps -/
theorem linked_mk_0123 : Linked (mk [0, 1, 2, 3]) [0, 1, 2, 3] := by
  refine ⟨by decide, rfl, rfl, ?_⟩
  simp only [Chain]
  decide

example : ∃ h', refresh false (fun d => d == 1 || d == 2) (mk [0, 1, 2, 3]) 4 = .ok h' ∧ Linked h' [0, 3] ∧
    h'.freed 1 = true ∧ h'.freed 2 = true ∧ h'.freed 0 = false ∧ h'.freed 3 = false := by
  obtain ⟨h', e, l, f⟩ := refresh_spec _ _ linked_mk_0123 (fun d => d == 1 || d == 2)
  exact ⟨h', e, l, by simp [f, mk], by simp [f, mk], by simp [f, mk], by simp [f, mk]⟩

example : refresh true (fun d => d == 1 || d == 2) (mk [0, 1, 2, 3]) 4 = .error (.uaf 1) :=
  running_uaf (mk [0, 1, 2, 3]) 1 2 [0] [3] linked_mk_0123 _ (by simp) rfl rfl

example : checkOne 3 3 = true := by decide
example : errOf (refresh true (fun d => (3).testBit d) (mk [0, 1, 2]) 3) = some (.uaf 0) := by decide
example : errOf (refresh true (fun d => (6).testBit d) (mk [0, 1, 2]) 3) = some (.uaf 1) := by decide
example : isError (refresh true (fun d => (5).testBit d) (mk [0, 1, 2]) 3) = false := by decide
example : okWalks (refresh false (fun d => (3).testBit d) (mk [0, 1, 2]) 3) 3 [2] = true := by decide
example : okWalks (refresh false (fun d => (3).testBit d) (mk [0, 1, 2]) 3) 3 [1, 2] = false := by decide

end Hw.DistRefresh
