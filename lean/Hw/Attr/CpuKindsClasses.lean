/-
  Hw.Attr.CpuKindsClasses — WHICH PUs share a kind (C15, strengthening).  Core Lean only.

  The abstract map PU ↦ (forced, infos) of CpuKindsRefine.lean does not say how PUs are grouped (two kinds may
  carry equal cells).  The grouping is a partial equivalence `same p q` folded over the history:
    register cs :  two PUs of `cs` stay / become together iff they were together or were both uncovered;
                   two PUs outside `cs` stay together iff they were; a PU inside and one outside are separated;
    restrict r  :  together iff they were and both survive.
  `Together ks p q` (some kind contains both) is proved equal to that fold after every history, so the kinds
  array is, up to order / eff / dupd, determined by the abstract state (map + classes).
-/
import Hw.Attr.CpuKindsRefine
namespace Hw
namespace CpuKinds

/-- some kind of the array contains both PUs -/
def Together (ks : List Kind) (p q : Nat) : Prop :=
  ∃ k ∈ ks, k.cpuset.testBit p = true ∧ k.cpuset.testBit q = true

abbrev Same := Nat → Nat → Prop

def regSame (S : Same) (cs : Nat) : Same := fun p q =>
  (cs.testBit p = true ∧ cs.testBit q = true ∧ (S p q ∨ (¬ S p p ∧ ¬ S q q))) ∨
  (cs.testBit p = false ∧ cs.testBit q = false ∧ S p q)

def restrictSame (S : Same) (r : Nat) : Same := fun p q =>
  S p q ∧ r.testBit p = true ∧ r.testBit q = true

theorem together_self {ks : List Kind} {p : Nat} : Together ks p p ↔ Covers ks p := by
  unfold Together Covers
  constructor
  · rintro ⟨k, hk, h, _⟩; exact ⟨k, hk, h⟩
  · rintro ⟨k, hk, h⟩; exact ⟨k, hk, h, h⟩

theorem together_append {a b : List Kind} {p q : Nat} :
    Together (a ++ b) p q ↔ Together a p q ∨ Together b p q := by
  simp only [Together, List.mem_append]
  constructor
  · rintro ⟨k, hk | hk, h⟩
    · exact Or.inl ⟨k, hk, h⟩
    · exact Or.inr ⟨k, hk, h⟩
  · rintro (⟨k, hk, h⟩ | ⟨k, hk, h⟩)
    · exact ⟨k, Or.inl hk, h⟩
    · exact ⟨k, Or.inr hk, h⟩

theorem Together.transfer {l l' : List Kind} (h : SameCore l l') {p q : Nat} :
    Together l' p q ↔ Together l p q :=
  ⟨fun hh => exists_core h.symm (P := fun c => c.1.testBit p = true ∧ c.1.testBit q = true) hh,
   fun hh => exists_core h (P := fun c => c.1.testBit p = true ∧ c.1.testBit q = true) hh⟩

theorem cls_ne_diff_of_bits {cs x p : Nat} (h1 : cs.testBit p = true) (h2 : x.testBit p = true) :
    cls cs x ≠ .diff := by
  intro h
  have := cls_diff_bits h h2
  rw [h1] at this; cases this

/-- ONE internal registration (any flags): the grouping of the new array is `regSame` of the old grouping -/
theorem internalRegister_together {st : State} {S : Same} (hne : NonEmpty st.kinds) (hdj : Disjoint st.kinds)
    (T : ∀ p q, Together st.kinds p q ↔ S p q)
    (cs : Nat) (f : Int) (infos : List Info) (fl : Nat) (hcs : cs ≠ 0) (hfl : fl / 2 = 0) :
    ∀ p q, Together (internalRegister st cs f infos fl).1.kinds p q ↔ regSame S cs p q := by
  rw [internalRegister_kinds_flat st cs f infos fl hcs hfl hne hdj]
  generalize decide (fl % 2 = 1) = o
  intro p q
  have hcov : ∀ p, S p p ↔ Covers st.kinds p := fun p => by rw [← T p p, together_self]
  constructor
  · rintro ⟨k', hk', hp, hq⟩
    rcases List.mem_append.mp hk' with hk' | hk'
    · obtain ⟨k, hk, e⟩ := List.mem_map.mp hk'
      subst e
      unfold flatOld at hp hq
      cases hc : cls cs k.cpuset
      · -- split: k \ cs
        simp only [hc] at hp hq
        rw [testBit_andnot, Nat.testBit_and] at hp hq
        have hpk : k.cpuset.testBit p = true := by cases h : k.cpuset.testBit p <;> simp_all
        have hqk : k.cpuset.testBit q = true := by cases h : k.cpuset.testBit q <;> simp_all
        have hpc : cs.testBit p = false := by cases h : cs.testBit p <;> simp_all
        have hqc : cs.testBit q = false := by cases h : cs.testBit q <;> simp_all
        exact Or.inr ⟨hpc, hqc, (T p q).mp ⟨k, hk, hpk, hqk⟩⟩
      · -- merge: k ⊆ cs
        simp only [hc] at hp hq
        have hsub := (and_eq_right_iff_bits cs k.cpuset).mp (cls_merge_bits hc)
        exact Or.inl ⟨hsub p hp, hsub q hq, Or.inl ((T p q).mp ⟨k, hk, hp, hq⟩)⟩
      · -- disjoint
        simp only [hc] at hp hq
        exact Or.inr ⟨cls_diff_bits hc hp, cls_diff_bits hc hq, (T p q).mp ⟨k, hk, hp, hq⟩⟩
    · rcases List.mem_append.mp hk' with hk' | hk'
      · obtain ⟨k, hk, e⟩ := List.mem_filterMap.mp hk'
        obtain ⟨_, e⟩ := mem_flatNew e
        subst e
        have hp' : (cs &&& k.cpuset).testBit p = true := hp
        have hq' : (cs &&& k.cpuset).testBit q = true := hq
        rw [Nat.testBit_and, Bool.and_eq_true] at hp' hq'
        exact Or.inl ⟨hp'.1, hq'.1, Or.inl ((T p q).mp ⟨k, hk, hp'.2, hq'.2⟩)⟩
      · split at hk'
        · cases hk'
        · rw [List.mem_singleton.mp hk'] at hp hq
          have hp' : (flatRem cs st.kinds).testBit p = true := hp
          have hq' : (flatRem cs st.kinds).testBit q = true := hq
          rw [flatRem_bits] at hp' hq'
          exact Or.inl ⟨hp'.1, hq'.1, Or.inr ⟨fun h => hp'.2 ((hcov p).mp h), fun h => hq'.2 ((hcov q).mp h)⟩⟩
  · rintro (⟨hpc, hqc, hS | ⟨hnp, hnq⟩⟩ | ⟨hpc, hqc, hS⟩)
    · -- both inside cs, together before
      obtain ⟨k, hk, hp, hq⟩ := (T p q).mpr hS
      rw [together_append, together_append]
      cases hc : cls cs k.cpuset
      · right; left
        refine ⟨{ cpuset := cs &&& k.cpuset, eff := -1, forced := f,
                  infos := addInfos (addInfos [] k.infos) infos },
          List.mem_filterMap.mpr ⟨k, hk, by simp only [flatNew, hc]⟩, ?_, ?_⟩
        · show (cs &&& k.cpuset).testBit p = true
          rw [Nat.testBit_and, hpc, hp]; rfl
        · show (cs &&& k.cpuset).testBit q = true
          rw [Nat.testBit_and, hqc, hq]; rfl
      · left
        refine ⟨flatOld f infos o cs k, List.mem_map_of_mem hk, ?_, ?_⟩
        · simp only [flatOld, hc]; exact hp
        · simp only [flatOld, hc]; exact hq
      · exact absurd hc (cls_ne_diff_of_bits hpc hp)
    · -- both inside cs, both uncovered before: the remainder kind
      rw [together_append, together_append]
      right; right
      have hb : (flatRem cs st.kinds).testBit p = true :=
        (flatRem_bits _ _ _).mpr ⟨hpc, fun h => hnp ((hcov p).mpr h)⟩
      have hb' : (flatRem cs st.kinds).testBit q = true :=
        (flatRem_bits _ _ _).mpr ⟨hqc, fun h => hnq ((hcov q).mpr h)⟩
      have hz : flatRem cs st.kinds ≠ 0 := (ne_zero_iff_bits _).mpr ⟨p, hb⟩
      rw [if_neg hz]
      exact ⟨_, List.mem_singleton.mpr rfl, hb, hb'⟩
    · -- both outside cs, together before
      obtain ⟨k, hk, hp, hq⟩ := (T p q).mpr hS
      rw [together_append]
      left
      refine ⟨flatOld f infos o cs k, List.mem_map_of_mem hk, ?_⟩
      cases hc : cls cs k.cpuset
      · simp only [flatOld, hc, testBit_andnot, Nat.testBit_and, hp, hq, hpc, hqc]; exact ⟨rfl, rfl⟩
      · simp only [flatOld, hc]; exact ⟨hp, hq⟩
      · simp only [flatOld, hc]; exact ⟨hp, hq⟩

theorem restrict_together {ks : List Kind} {S : Same} (T : ∀ p q, Together ks p q ↔ S p q) (r : Nat) :
    ∀ p q, Together ((ks.map (fun k => { k with cpuset := k.cpuset &&& r })).filter
        (fun k => decide (k.cpuset ≠ 0))) p q ↔ restrictSame S r p q := by
  intro p q
  constructor
  · rintro ⟨k, hk, hp, hq⟩
    simp only [List.mem_filter, List.mem_map] at hk
    obtain ⟨⟨k0, hk0, e⟩, _⟩ := hk
    subst e
    have hp' : (k0.cpuset &&& r).testBit p = true := hp
    have hq' : (k0.cpuset &&& r).testBit q = true := hq
    rw [Nat.testBit_and, Bool.and_eq_true] at hp' hq'
    exact ⟨(T p q).mp ⟨k0, hk0, hp'.1, hq'.1⟩, hp'.2, hq'.2⟩
  · rintro ⟨hS, hrp, hrq⟩
    obtain ⟨k, hk, hp, hq⟩ := (T p q).mpr hS
    have hb : (k.cpuset &&& r).testBit p = true := by rw [Nat.testBit_and, hp, hrp]; rfl
    have hb' : (k.cpuset &&& r).testBit q = true := by rw [Nat.testBit_and, hq, hrq]; rfl
    refine ⟨{ k with cpuset := k.cpuset &&& r }, ?_, hb, hb'⟩
    simp only [List.mem_filter, List.mem_map, decide_eq_true_eq]
    exact ⟨⟨k, hk, rfl⟩, (ne_zero_iff_bits _).mpr ⟨p, hb⟩⟩

/-! ### histories -/

structure Cl where
  root : Nat
  same : Same := fun _ _ => False

def clStep (a : Cl) : Op → Cl
  | .register (some cs) _ _ 0 => if cs = 0 then a else { a with same := regSame a.same cs }
  | .register _ _ _ _ => a
  | .restrict set =>
    if a.root &&& set = 0 then a
    else { root := a.root &&& set, same := restrictSame a.same (a.root &&& set) }
  | _ => a

def clRun (root : Nat) (h : List Op) : Cl := h.foldl clStep { root := root }

theorem step_together (strat : Strategy) {st : State} {g : Ghost} (H : Inv st g) {a : Cl}
    (T : ∀ p q, Together st.kinds p q ↔ a.same p q) (hr : a.root = st.root) (op : Op) :
    (∀ p q, Together (step strat st op).kinds p q ↔ (clStep a op).same p q) ∧
      (clStep a op).root = (step strat st op).root := by
  cases op with
  | register cs f infos fl =>
    show (∀ p q, Together (register strat st cs f infos fl).1.kinds p q ↔ _) ∧
      _ = (register strat st cs f infos fl).1.root
    by_cases hfl : fl = 0
    · subst hfl
      cases cs with
      | none => simpa [register, clStep] using ⟨T, hr⟩
      | some c =>
        by_cases hc : c = 0
        · subst hc; simpa [register, clStep] using ⟨T, hr⟩
        · have hg : clStep a (.register (some c) f infos 0) = { a with same := regSame a.same c } := by
            simp [clStep, hc]
          have hs : (register strat st (some c) f infos 0).1 =
              { (internalRegister st c (if f < 0 then -1 else f) infos 1).1 with
                kinds := rank strat (internalRegister st c (if f < 0 then -1 else f) infos 1).1.kinds } := by
            simp [register, hc]
          rw [hg, hs]
          have K := internalRegister_together H.k.ne H.k.dj T c (if f < 0 then -1 else f) infos 1 hc (by decide)
          refine ⟨fun p q => (Together.transfer (rank_sameCore strat _)).trans (K p q), ?_⟩
          show a.root = (internalRegister st c (if f < 0 then -1 else f) infos 1).1.root
          rw [internalRegister_root]; exact hr
    · have hs : (register strat st cs f infos fl).1 = st := by simp [register, hfl]
      have hg : clStep a (.register cs f infos fl) = a := by
        cases cs with
        | none => rfl
        | some c => cases fl with
          | zero => exact absurd rfl hfl
          | succ n => rfl
      rw [hs, hg]; exact ⟨T, hr⟩
  | restrict set =>
    show (∀ p q, Together (restrict strat st set).1.kinds p q ↔ _) ∧ _ = (restrict strat st set).1.root
    by_cases h : st.root &&& set = 0
    · have h1 : (restrict strat st set).1 = st := by simp [restrict, h]
      have h2 : clStep a (.restrict set) = a := by
        show (if a.root &&& set = 0 then a else _) = _
        rw [hr, if_pos h]
      rw [h1, h2]; exact ⟨T, hr⟩
    · have h1 : (restrict strat st set).1 = restrictKinds strat st (st.root &&& set) := by simp [restrict, h]
      have h2 : clStep a (.restrict set) =
          { root := st.root &&& set, same := restrictSame a.same (st.root &&& set) } := by
        show (if a.root &&& set = 0 then a else _) = _
        rw [hr, if_neg h]
      rw [h1, h2]
      refine ⟨?_, (restrictKinds_root strat st _).symm⟩
      have K := restrict_together T (st.root &&& set)
      unfold restrictKinds
      simp only []
      split
      · exact K
      · exact fun p q => (Together.transfer (rank_sameCore strat _)).trans (K p q)
  | dup =>
    exact ⟨fun p q => (Together.transfer
      (SameCore.of_map (fun k => { k with dupd := true }) (fun _ => rfl))).trans (T p q), hr⟩
  | xml =>
    have ⟨h1, _, _, h4⟩ := xmlReload_eq strat H
    show (∀ p q, Together (xmlReload strat st).kinds p q ↔ a.same p q) ∧ a.root = (xmlReload strat st).root
    rw [h1, h4]
    exact ⟨fun p q => (Together.transfer
      ((SameCore.of_map fresh (fun _ => rfl)).trans (rank_sameCore strat _))).trans (T p q), hr⟩
  | refresh =>
    exact ⟨fun p q => (Together.transfer (rank_sameCore strat _)).trans (T p q), hr⟩

/-- after any history of public calls, two PUs share a kind iff the abstract grouping says so -/
theorem run_together (strat : Strategy) (root : Nat) (h : List Op) :
    ∀ p q, Together (run strat root h).kinds p q ↔ (clRun root h).same p q := by
  unfold run clRun
  suffices H : ∀ (st : State) (g : Ghost) (a : Cl), Inv st g → (∀ p q, Together st.kinds p q ↔ a.same p q) →
      a.root = st.root →
      (∀ p q, Together (h.foldl (step strat) st).kinds p q ↔ (h.foldl clStep a).same p q) ∧
        (h.foldl clStep a).root = (h.foldl (step strat) st).root from
    (H _ _ _ (init_inv root) (fun p q => by simp [Together]) rfl).1
  induction h with
  | nil => intro st g a _ T hr; exact ⟨T, hr⟩
  | cons op ops ih =>
    intro st g a H T hr
    have ⟨T', hr'⟩ := step_together strat H T hr op
    exact ih _ _ _ (step_inv strat H op) T' hr'

/-- a partition is determined by its grouping relation: the kind containing `p` is `{q | Together p q}` -/
theorem kind_bits_of_together {ks : List Kind} (hdj : Disjoint ks) {k : Kind} (hk : k ∈ ks) {p : Nat}
    (hp : k.cpuset.testBit p = true) (q : Nat) : k.cpuset.testBit q = true ↔ Together ks p q := by
  constructor
  · intro hq; exact ⟨k, hk, hp, hq⟩
  · rintro ⟨k', hk', hp', hq'⟩
    rw [kind_unique hdj hk hk' hp hp']; exact hq'

end CpuKinds
end Hw
