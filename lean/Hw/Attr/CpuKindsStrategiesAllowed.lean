/-
  Hw.Attr.CpuKindsStrategiesAllowed — C15, task A7: histories in which HWLOC_CPUKINDS_RANKING changes between the calls, on
  topologies loaded with INCLUDE_DISALLOWED and with `hwloc_topology_allow` calls mixed in, reduce to the plain
  env-switching histories of `CpuKindsStrategies.runE` (as `runT_eq_run` does for one fixed strategy).  Core Lean only.
-/
import Hw.Attr.CpuKindsAllowedLemmas
import Hw.Attr.CpuKindsStrategies
namespace Hw
namespace CpuKinds

/-- one topology-level call together with the strategy in force when it runs -/
abbrev ETOp := Strategy × TOp

def stepTE (t : TState) (p : ETOp) : TState := stepT p.1 t p.2

def runTE (root : Nat) (d : Bool) (h : List ETOp) : TState := h.foldl stepTE (tinit root d)

/-- the history as the cpukinds code sees it: `allow` calls vanish, a restrict refused because its set misses the allowed
    cpuset becomes a restrict to the empty set (refused as well); every call keeps its strategy -/
def traceTE : TState → List ETOp → List EOp
  | _, [] => []
  | t, (s, .allow cs fl) :: r => traceTE (stepT s t (.allow cs fl)) r
  | t, (s, .op (.restrict set)) :: r =>
      (s, .restrict (if t.allowed &&& set = 0 then 0 else set)) :: traceTE (stepT s t (.op (.restrict set))) r
  | t, (s, .op o) :: r => (s, o) :: traceTE (stepT s t (.op o)) r

theorem foldTE_wf (h : List ETOp) : ∀ {t : TState}, WfT t → WfT (h.foldl stepTE t) := by
  induction h with
  | nil => intro t W; exact W
  | cons p r ih => intro t W; exact ih (stepT_wf p.1 W p.2)

theorem runTE_wf (root : Nat) (d : Bool) (h : List ETOp) : WfT (runTE root d h) := foldTE_wf h (tinit_wf root d)

theorem foldTE_eq (h : List ETOp) : ∀ {t : TState}, WfT t →
    (h.foldl stepTE t).st = (traceTE t h).foldl stepE t.st := by
  induction h with
  | nil => intro t _; rfl
  | cons p r ih =>
    intro t W
    obtain ⟨s, o⟩ := p
    have W' := stepT_wf s W o
    cases o with
    | allow cs fl =>
      show (r.foldl stepTE (stepT s t (.allow cs fl))).st = _
      rw [ih W']
      show _ = (traceTE (stepT s t (.allow cs fl)) r).foldl stepE t.st
      congr 1
      exact allow_st t cs fl
    | op o =>
      cases o with
      | restrict set =>
        show (r.foldl stepTE (stepT s t (.op (.restrict set)))).st = _
        rw [ih W']
        show _ = (traceTE (stepT s t (.op (.restrict set))) r).foldl stepE
                  (step s t.st (.restrict (if t.allowed &&& set = 0 then 0 else set)))
        congr 1
        exact restrictT_st s W set
      | register cs f i fl =>
        show (r.foldl stepTE (stepT s t (.op (.register cs f i fl)))).st = _
        rw [ih W']; rfl
      | dup =>
        show (r.foldl stepTE (stepT s t (.op .dup))).st = _
        rw [ih W']; rfl
      | xml =>
        show (r.foldl stepTE (stepT s t (.op .xml))).st = _
        rw [ih W']; rfl
      | refresh =>
        show (r.foldl stepTE (stepT s t (.op .refresh))).st = _
        rw [ih W']; rfl

/-- kinds array and root cpuset after an env-switching history with `allow` calls = those of the plain env-switching
    history `traceTE`: every theorem about `runE` / `runET` holds for `runTE` -/
theorem runTE_eq_runE (root : Nat) (d : Bool) (h : List ETOp) :
    (runTE root d h).st = runE root (traceTE (tinit root d) h) :=
  foldTE_eq h (tinit_wf root d)

end CpuKinds
end Hw
