/-
  Hw.Attr.CpuKindsRank — the ranking of CPU kinds (C15, strengthening): the array is strictly sorted by the
  ranking value the code chose, efficiencies are the positions, over all histories.  Core Lean only.

  `hwloc__cpukinds_finalize_ranking` calls libc `qsort` (not a hand-written sort) and is only reached after
  `hwloc__cpukinds_check_duplicate_rankings` returned 0, i.e. with pairwise distinct ranking values.  The
  model sorts by insertion; `sorted_perm_unique` shows that ANY sorting algorithm returns the same array on
  such inputs, so neither the algorithm nor its (in)stability is observable.
-/
import Hw.Attr.CpuKindsLemmas
namespace Hw
namespace CpuKinds

/-! ### insertion sort: sorted, strictly sorted on distinct keys, unique -/

abbrev SortedBy (key : Kind → Nat) (l : List Kind) : Prop := l.Pairwise (fun a b => key a ≤ key b)
abbrev StrictBy (key : Kind → Nat) (l : List Kind) : Prop := l.Pairwise (fun a b => key a < key b)

theorem insertBy_sorted (key : Kind → Nat) (k : Kind) (l : List Kind) (h : SortedBy key l) :
    SortedBy key (insertBy key k l) := by
  induction l with
  | nil => simp [insertBy, SortedBy]
  | cons x xs ih =>
    have hx := List.pairwise_cons.mp h
    unfold insertBy
    split
    · rename_i hlt
      apply List.pairwise_cons.mpr
      refine ⟨?_, h⟩
      intro y hy
      rcases List.mem_cons.mp hy with rfl | hy
      · omega
      · have := hx.1 y hy; omega
    · rename_i hnlt
      apply List.pairwise_cons.mpr
      refine ⟨?_, ih hx.2⟩
      intro y hy
      have : y ∈ k :: xs := (insertBy_perm key k xs).mem_iff.mp hy
      rcases List.mem_cons.mp this with rfl | hy
      · omega
      · exact hx.1 y hy

theorem sortBy_sorted (key : Kind → Nat) (l : List Kind) : SortedBy key (sortBy key l) := by
  induction l with
  | nil => exact List.Pairwise.nil
  | cons x xs ih => unfold sortBy; exact insertBy_sorted key x _ ih

theorem dupFree_iff_nodup (l : List Nat) : dupFree l = true ↔ l.Nodup := by
  induction l with
  | nil => simp [dupFree]
  | cons x xs ih =>
    rw [List.nodup_cons, ← ih]
    simp [dupFree]

theorem strict_of_sorted_nodup (key : Kind → Nat) (l : List Kind) (hs : SortedBy key l)
    (hn : (l.map key).Nodup) : StrictBy key l := by
  induction l with
  | nil => exact List.Pairwise.nil
  | cons x xs ih =>
    have hs' := List.pairwise_cons.mp hs
    rw [List.map_cons, List.nodup_cons] at hn
    apply List.pairwise_cons.mpr
    refine ⟨?_, ih hs'.2 hn.2⟩
    intro y hy
    have h1 := hs'.1 y hy
    have h2 : key x ≠ key y := by
      intro e; apply hn.1; rw [e]; exact List.mem_map_of_mem hy
    omega

theorem sortBy_strict (key : Kind → Nat) (l : List Kind) (h : dupFree (l.map key) = true) :
    StrictBy key (sortBy key l) := by
  apply strict_of_sorted_nodup key _ (sortBy_sorted key l)
  exact (((sortBy_perm key l).map key).nodup_iff).mpr ((dupFree_iff_nodup _).mp h)

/-- a strictly sorted arrangement of a given multiset of kinds is unique -/
theorem strict_perm_unique (key : Kind → Nat) :
    ∀ (l l' : List Kind), StrictBy key l → StrictBy key l' → l'.Perm l → l' = l := by
  intro l
  induction l with
  | nil => intro l' _ _ hp; exact hp.eq_nil
  | cons x xs ih =>
    intro l' hl hl' hp
    cases l' with
    | nil => exact absurd hp.symm.eq_nil (by simp)
    | cons y ys =>
      have hx := List.pairwise_cons.mp hl
      have hy := List.pairwise_cons.mp hl'
      have hyx : y = x := by
        have h1 : y ∈ x :: xs := hp.mem_iff.mp List.mem_cons_self
        have h2 : x ∈ y :: ys := hp.mem_iff.mpr List.mem_cons_self
        rcases List.mem_cons.mp h1 with e | h1
        · exact e
        · rcases List.mem_cons.mp h2 with e | h2
          · exact e.symm
          · have a := hx.1 y h1
            have b := hy.1 x h2
            omega
      subst hyx
      rw [ih ys hx.2 hy.2 hp.cons_inv]

/-- ANY permutation of `l` that is sorted (even non-strictly) by pairwise distinct keys is the array the
    model computes: the choice of sorting algorithm (libc `qsort`) and its stability are unobservable. -/
theorem sorted_perm_unique (key : Kind → Nat) (l l' : List Kind) (hd : dupFree (l.map key) = true)
    (hp : l'.Perm l) (hs : SortedBy key l') : l' = sortBy key l := by
  apply strict_perm_unique key
  · exact sortBy_strict key l hd
  · apply strict_of_sorted_nodup key l' hs
    exact ((hp.map key).nodup_iff).mpr ((dupFree_iff_nodup _).mp hd)
  · exact hp.trans (sortBy_perm key l).symm

/-! ### the chosen ranking value depends only on (forced efficiency, infos), not on order / cpuset / eff -/

abbrev FI := Int × List Info
def Kind.fi (k : Kind) : FI := (k.forced, k.infos)

def KeyOK (key : Kind → Nat) : Prop := ∀ a b : Kind, a.fi = b.fi → key a = key b

theorem fi_eq {a b : Kind} (h : a.fi = b.fi) : a.forced = b.forced ∧ a.infos = b.infos := by
  unfold Kind.fi at h
  exact ⟨congrArg Prod.fst h, congrArg Prod.snd h⟩

theorem summarize_congr {a b : Kind} (h : a.fi = b.fi) : summarize a = summarize b := by
  unfold summarize; rw [(fi_eq h).2]

theorem forcedKey_ok : KeyOK forcedKey := fun a b h => by unfold forcedKey; rw [(fi_eq h).1]
theorem ctFreqKey_ok (hb : Bool) : KeyOK (ctFreqKey hb) := fun a b h => by
  simp only [ctFreqKey, summarize_congr h]
theorem ctKey_ok : KeyOK ctKey := fun a b h => by simp only [ctKey, summarize_congr h]
theorem freqKey_ok (hb : Bool) : KeyOK (freqKey hb) := fun a b h => by
  simp only [freqKey, summarize_congr h]

theorem all_fi_perm {ks ks' : List Kind} (P : Kind → Bool) (hP : ∀ a b : Kind, a.fi = b.fi → P a = P b)
    (hp : (ks'.map Kind.fi).Perm (ks.map Kind.fi)) : ks'.all P = ks.all P := by
  have key : ∀ (l l' : List Kind), (l'.map Kind.fi).Perm (l.map Kind.fi) → l.all P = true → l'.all P = true := by
    intro l l' hp h
    rw [List.all_eq_true] at h ⊢
    intro x hx
    have : x.fi ∈ l.map Kind.fi := hp.mem_iff.mp (List.mem_map_of_mem hx)
    obtain ⟨y, hy, e⟩ := List.mem_map.mp this
    rw [← hP y x e]; exact h y hy
  rw [Bool.eq_iff_iff]
  exact ⟨key ks' ks hp.symm, key ks ks' hp⟩

def ofFI (c : FI) : Kind := { cpuset := 0, eff := 0, forced := c.1, infos := c.2 }

theorem map_key_fi {key : Kind → Nat} (hk : KeyOK key) (l : List Kind) :
    l.map key = (l.map Kind.fi).map (fun c => key (ofFI c)) := by
  rw [List.map_map]
  apply List.map_congr_left
  intro a _
  exact hk a (ofFI a.fi) rfl

theorem map_key_perm {key : Kind → Nat} (hk : KeyOK key) {ks ks' : List Kind}
    (hp : (ks'.map Kind.fi).Perm (ks.map Kind.fi)) : (ks'.map key).Perm (ks.map key) := by
  rw [map_key_fi hk, map_key_fi hk]; exact hp.map _

theorem dupFree_fi_perm {key : Kind → Nat} (hk : KeyOK key) {ks ks' : List Kind}
    (hp : (ks'.map Kind.fi).Perm (ks.map Kind.fi)) : dupFree (ks'.map key) = dupFree (ks.map key) := by
  rw [Bool.eq_iff_iff, dupFree_iff_nodup, dupFree_iff_nodup]
  exact (map_key_perm hk hp).nodup_iff

theorem tryForced_perm {ks ks' : List Kind} (hp : (ks'.map Kind.fi).Perm (ks.map Kind.fi)) :
    tryForced ks' = tryForced ks := by
  unfold tryForced
  rw [all_fi_perm (fun k => decide (k.forced ≠ -1)) (fun a b h => by simp only [(fi_eq h).1]) hp,
    dupFree_fi_perm forcedKey_ok hp]

theorem tryInfo_perm (s : Strategy) {ks ks' : List Kind} (hp : (ks'.map Kind.fi).Perm (ks.map Kind.fi)) :
    tryInfo s ks' = tryInfo s ks := by
  have hM := all_fi_perm (fun k => decide ((summarize k).maxFreq ≠ 0))
    (fun a b h => by simp only [summarize_congr h]) hp
  have hB := all_fi_perm (fun k => decide ((summarize k).baseFreq ≠ 0))
    (fun a b h => by simp only [summarize_congr h]) hp
  have hC := all_fi_perm (fun k => decide ((summarize k).coreType ≠ 0))
    (fun a b h => by simp only [summarize_congr h]) hp
  unfold tryInfo
  simp only [List.all_map, Function.comp_def]
  rw [hM, hB, hC]
  cases s <;> simp only [dupFree_fi_perm (ctFreqKey_ok _) hp, dupFree_fi_perm ctKey_ok hp,
    dupFree_fi_perm (freqKey_ok _) hp]

theorem chooseKey_perm (strat : Strategy) {ks ks' : List Kind}
    (hp : (ks'.map Kind.fi).Perm (ks.map Kind.fi)) : chooseKey strat ks' = chooseKey strat ks := by
  unfold chooseKey
  cases strat <;> simp only [tryForced_perm hp, tryInfo_perm _ hp]

/-! ### what a successful choice guarantees -/

theorem tryForced_some {ks : List Kind} {key : Kind → Nat} (h : tryForced ks = some key) :
    key = forcedKey ∧ (∀ k ∈ ks, k.forced ≠ -1) ∧ dupFree (ks.map forcedKey) = true := by
  unfold tryForced at h
  split at h
  · rename_i hc
    rw [Bool.and_eq_true, List.all_eq_true] at hc
    injection h with h
    exact ⟨h.symm, fun k hk => by simpa using hc.1 k hk, hc.2⟩
  · cases h

theorem tryForced_of {ks : List Kind} (h1 : ∀ k ∈ ks, k.forced ≠ -1) (h2 : dupFree (ks.map forcedKey) = true) :
    tryForced ks = some forcedKey := by
  unfold tryForced
  rw [if_pos]
  rw [Bool.and_eq_true, List.all_eq_true]
  exact ⟨fun k hk => by simpa using h1 k hk, h2⟩

def finKey (ks : List Kind) (ok : Bool) (key : Kind → Nat) : Option (Kind → Nat) :=
  if ok && dupFree (ks.map key) then some key else none

theorem finKey_some {ks : List Kind} {ok : Bool} {key key' : Kind → Nat} (h : finKey ks ok key = some key') :
    key' = key ∧ ok = true ∧ dupFree (ks.map key) = true := by
  unfold finKey at h
  split at h
  · rename_i hc
    rw [Bool.and_eq_true] at hc
    injection h with h
    exact ⟨h.symm, hc.1, hc.2⟩
  · cases h

theorem tryInfo_cases (s : Strategy) (ks : List Kind) :
    tryInfo s ks = none ∨ ∃ ok key, KeyOK key ∧ tryInfo s ks = finKey ks ok key := by
  cases s
  case coretypeFreqStrict => exact Or.inr ⟨_, _, ctFreqKey_ok _, rfl⟩
  case coretypeFreq => exact Or.inr ⟨_, _, ctFreqKey_ok _, rfl⟩
  case coretype => exact Or.inr ⟨_, _, ctKey_ok, rfl⟩
  case frequency => exact Or.inr ⟨_, _, freqKey_ok _, rfl⟩
  case freqMax => exact Or.inr ⟨_, _, freqKey_ok _, rfl⟩
  case freqBase => exact Or.inr ⟨_, _, freqKey_ok _, rfl⟩
  all_goals exact Or.inl rfl

theorem tryInfo_some {s : Strategy} {ks : List Kind} {key : Kind → Nat} (h : tryInfo s ks = some key) :
    KeyOK key ∧ dupFree (ks.map key) = true := by
  rcases tryInfo_cases s ks with e | ⟨ok, key0, hok, e⟩
  · rw [e] at h; cases h
  · rw [e] at h
    obtain ⟨e1, _, hd⟩ := finKey_some h
    subst e1; exact ⟨hok, hd⟩

theorem chooseKey_some {strat : Strategy} {ks : List Kind} {key : Kind → Nat}
    (h : chooseKey strat ks = some key) : KeyOK key ∧ dupFree (ks.map key) = true := by
  have hf : ∀ {key}, tryForced ks = some key → KeyOK key ∧ dupFree (ks.map key) = true := by
    intro key h
    obtain ⟨e, _, hd⟩ := tryForced_some h
    subst e; exact ⟨forcedKey_ok, hd⟩
  unfold chooseKey at h
  cases strat <;> simp only [] at h
  · split at h
    · rename_i k hk; injection h with h; subst h; exact hf hk
    · exact tryInfo_some h
  all_goals first
    | exact tryInfo_some h
    | exact hf h
    | cases h

/-! ### `Ranked`: the array is strictly sorted by the chosen ranking value and efficiencies are positions -/

/-- what `hwloc_internal_cpukinds_rank` establishes (and every later public call keeps) -/
def Ranked (strat : Strategy) (ks : List Kind) : Prop :=
  (ks.length = 1 → ∀ k ∈ ks, k.eff = 0) ∧
  (2 ≤ ks.length →
    match chooseKey strat ks with
    | some key => StrictBy key ks ∧ ∀ (i : Nat) (h : i < ks.length), ks[i].eff = (i : Int)
    | none => ∀ k ∈ ks, k.eff = -1)

theorem fi_perm_of_sameCore {l l' : List Kind} (h : SameCore l l') :
    (l'.map Kind.fi).Perm (l.map Kind.fi) := by
  have := List.Perm.map (fun c : Core => ((c.2.1, c.2.2) : FI)) h
  rw [List.map_map, List.map_map] at this
  exact this

theorem strictBy_iff_map (key : Kind → Nat) (l : List Kind) :
    StrictBy key l ↔ (l.map key).Pairwise (· < ·) := List.pairwise_map.symm

theorem renumber_fi (i : Nat) (l : List Kind) : (renumber i l).map Kind.fi = l.map Kind.fi := by
  induction l generalizing i with
  | nil => rfl
  | cons x xs ih => simp only [renumber, List.map_cons, ih (i + 1)]; rfl

theorem rank_ranked (strat : Strategy) (ks : List Kind) : Ranked strat (rank strat ks) := by
  have hlen := (rank_sameCore strat ks).length
  have hck := chooseKey_perm strat (fi_perm_of_sameCore (rank_sameCore strat ks))
  match ks, hlen, hck with
  | [], _, _ => exact ⟨by simp [rank], by simp [rank]⟩
  | [k], _, _ => exact ⟨by simp [rank], by simp [rank]⟩
  | a :: b :: t, hlen, hck =>
    refine ⟨by intro h; rw [hlen] at h; simp at h, ?_⟩
    intro _
    rw [hck]
    have hr : rank strat (a :: b :: t) = match chooseKey strat (a :: b :: t) with
        | some key => finalize key (a :: b :: t)
        | none => clearEff (a :: b :: t) := rfl
    rw [hr]
    cases hc : chooseKey strat (a :: b :: t) with
    | none =>
      simp only []
      intro k hk
      obtain ⟨k0, _, e⟩ := List.mem_map.mp hk
      rw [← e]
    | some key =>
      simp only []
      obtain ⟨hok, hd⟩ := chooseKey_some hc
      refine ⟨?_, ?_⟩
      · unfold finalize
        rw [strictBy_iff_map, map_key_fi hok, renumber_fi, ← map_key_fi hok, ← strictBy_iff_map]
        exact sortBy_strict key _ hd
      · intro i h
        unfold finalize at h ⊢
        rw [renumber_eff]; simp

/-- `Ranked` only looks at the sequence of (forced, infos) and the sequence of efficiencies -/
theorem Ranked.congr {strat : Strategy} {ks ks' : List Kind} (h : Ranked strat ks)
    (hfi : ks'.map Kind.fi = ks.map Kind.fi) (heff : ks'.map (·.eff) = ks.map (·.eff)) : Ranked strat ks' := by
  have hlen : ks'.length = ks.length := by
    have := congrArg List.length hfi; simpa using this
  have hE : ∀ (i : Nat) (h' : i < ks'.length), ks'[i].eff = (ks[i]'(hlen ▸ h')).eff := by
    intro i h'
    have h1 : (ks'.map (·.eff))[i]'(by simpa using h') = ks'[i].eff := by simp
    have h2 : (ks.map (·.eff))[i]'(by simp; omega) = (ks[i]'(hlen ▸ h')).eff := by simp
    rw [← h1, ← h2]
    simp only [heff]
  have hmem : ∀ k ∈ ks', ∃ k0 ∈ ks, k.eff = k0.eff := by
    intro k hk
    have : k.eff ∈ ks.map (·.eff) := heff ▸ List.mem_map_of_mem (f := (·.eff)) hk
    obtain ⟨k0, hk0, e⟩ := List.mem_map.mp this
    exact ⟨k0, hk0, e.symm⟩
  refine ⟨?_, ?_⟩
  · intro h1 k hk
    obtain ⟨k0, hk0, e⟩ := hmem k hk
    rw [e]; exact h.1 (by omega) k0 hk0
  · intro h2
    have H := h.2 (by omega)
    rw [chooseKey_perm strat (ks := ks) (ks' := ks') (by rw [hfi])]
    cases hc : chooseKey strat ks with
    | none =>
      rw [hc] at H
      simp only [] at H ⊢
      intro k hk
      obtain ⟨k0, hk0, e⟩ := hmem k hk
      rw [e]; exact H k0 hk0
    | some key =>
      rw [hc] at H
      simp only [] at H ⊢
      obtain ⟨hok, _⟩ := chooseKey_some hc
      refine ⟨?_, ?_⟩
      · rw [strictBy_iff_map, map_key_fi hok, hfi, ← map_key_fi hok, ← strictBy_iff_map]
        exact H.1
      · intro i h'
        rw [hE i h', H.2 i (hlen ▸ h')]

/-! ### every public call keeps `Ranked` -/

theorem register_ranked (strat : Strategy) (st : State) (h : Ranked strat st.kinds)
    (cs : Option Nat) (f : Int) (infos : List Info) (fl : Nat) :
    Ranked strat (register strat st cs f infos fl).1.kinds := by
  unfold register
  split
  · exact h
  · split
    · exact h
    · split
      · exact h
      · exact rank_ranked strat _

theorem restrict_ranked (strat : Strategy) (st : State) (h : Ranked strat st.kinds) (set : Nat) :
    Ranked strat (restrict strat st set).1.kinds := by
  unfold restrict
  split
  · exact h
  · simp only [restrictKinds]
    split
    · rename_i hrem
      have hle := List.length_filter_le (fun k : Kind => decide (k.cpuset ≠ 0))
        (st.kinds.map (fun k => { k with cpuset := k.cpuset &&& (st.root &&& set) }))
      have hall := List.length_filter_eq_length_iff.mp (by omega :
        ((st.kinds.map (fun k => ({ k with cpuset := k.cpuset &&& (st.root &&& set) } : Kind))).filter
          (fun k => decide (k.cpuset ≠ 0))).length =
          (st.kinds.map (fun k => ({ k with cpuset := k.cpuset &&& (st.root &&& set) } : Kind))).length)
      show Ranked strat (List.filter _ _)
      rw [List.filter_eq_self.mpr hall]
      apply h.congr
      · rw [List.map_map]; rfl
      · rw [List.map_map]; rfl
    · exact rank_ranked strat _

theorem step_ranked (strat : Strategy) (st : State) (h : Ranked strat st.kinds) (op : Op) :
    Ranked strat (step strat st op).kinds := by
  cases op with
  | register cs f i fl => exact register_ranked strat st h cs f i fl
  | restrict set => exact restrict_ranked strat st h set
  | dup =>
    show Ranked strat (st.kinds.map _)
    apply h.congr
    · rw [List.map_map]; rfl
    · rw [List.map_map]; rfl
  | xml => exact rank_ranked strat _
  | refresh => exact rank_ranked strat _

theorem run_ranked (strat : Strategy) (root : Nat) (h : List Op) : Ranked strat (run strat root h).kinds := by
  unfold run
  suffices H : ∀ st : State, Ranked strat st.kinds → Ranked strat (h.foldl (step strat) st).kinds from
    H _ ⟨by simp, by simp⟩
  induction h with
  | nil => intro st H; exact H
  | cons op ops ih => intro st H; exact ih _ (step_ranked strat st H op)

/-! ### consequences of `Ranked` -/

/-- ranked with a key, or at most one kind: efficiency = position -/
theorem Ranked.eff_idx {strat : Strategy} {ks : List Kind} (h : Ranked strat ks)
    (hr : ¬ (2 ≤ ks.length ∧ chooseKey strat ks = none)) :
    ∀ (i : Nat) (hi : i < ks.length), ks[i].eff = (i : Int) := by
  intro i hi
  by_cases h2 : 2 ≤ ks.length
  · have H := h.2 h2
    cases hc : chooseKey strat ks with
    | none => exact absurd ⟨h2, hc⟩ hr
    | some key => rw [hc] at H; exact H.2 i hi
  · have h1 : ks.length = 1 := by omega
    have : i = 0 := by omega
    subst this
    exact h.1 h1 _ (List.getElem_mem hi)

theorem Ranked.eff_unknown {strat : Strategy} {ks : List Kind} (h : Ranked strat ks)
    (hr : 2 ≤ ks.length ∧ chooseKey strat ks = none) : ∀ k ∈ ks, k.eff = -1 := by
  have H := h.2 hr.1
  rw [hr.2] at H
  exact H

/-- the list of public efficiencies is exactly `[-1, .., -1]` (unranked) or `[0, 1, .., nr-1]` -/
theorem Ranked.effs {strat : Strategy} {ks : List Kind} (h : Ranked strat ks) :
    ((2 ≤ ks.length ∧ chooseKey strat ks = none) → ks.map (·.eff) = List.replicate ks.length (-1)) ∧
    (¬ (2 ≤ ks.length ∧ chooseKey strat ks = none) →
      ks.map (·.eff) = (List.range ks.length).map (fun (i : Nat) => (i : Int))) := by
  constructor
  · intro hr
    rw [List.eq_replicate_iff]
    refine ⟨by simp, ?_⟩
    intro b hb
    obtain ⟨k, hk, e⟩ := List.mem_map.mp hb
    rw [← e]; exact h.eff_unknown hr k hk
  · intro hr
    apply List.ext_getElem
    · simp
    · intro i h1 h2
      simp only [List.getElem_map, List.getElem_range]
      exact h.eff_idx hr i (by simpa using h1)

theorem forcedKey_of_range {k : Kind} (h0 : 0 ≤ k.forced) (h1 : k.forced < 18446744073709551616) :
    forcedKey k = k.forced.toNat := by
  unfold forcedKey
  rw [Int.emod_eq_of_lt h0 h1]

/-- forced efficiencies all known, pairwise distinct and in the range of a C `int`: the default and the
    `forced_efficiency` strategies rank by them -/
theorem ranked_forced_consistent {strat : Strategy} (hs : strat = .dflt ∨ strat = .forced) {ks : List Kind}
    (h : Ranked strat ks) (hb : ∀ k ∈ ks, -1 ≤ k.forced ∧ k.forced < 2147483648)
    (hk : ∀ k ∈ ks, k.forced ≠ -1) (hd : (ks.map (·.forced)).Pairwise (· ≠ ·)) :
    (∀ (i : Nat) (hi : i < ks.length), ks[i].eff = (i : Int)) ∧ (ks.map (·.forced)).Pairwise (· < ·) := by
  have hkey : ∀ k ∈ ks, forcedKey k = k.forced.toNat ∧ 0 ≤ k.forced := by
    intro k hkm
    have := hb k hkm
    have := hk k hkm
    exact ⟨forcedKey_of_range (by omega) (by omega), by omega⟩
  have hdup : dupFree (ks.map forcedKey) = true := by
    rw [dupFree_iff_nodup]
    unfold List.Nodup
    rw [List.pairwise_map]
    rw [List.pairwise_map] at hd
    apply hd.imp_of_mem
    intro a b ha hb' hne e
    rw [(hkey a ha).1, (hkey b hb').1] at e
    have := (hkey a ha).2
    have := (hkey b hb').2
    omega
  have hck : 2 ≤ ks.length → chooseKey strat ks = some forcedKey := by
    intro _
    rcases hs with rfl | rfl
    · simp only [chooseKey, tryForced_of hk hdup]
    · simp only [chooseKey, tryForced_of hk hdup]
  have hr : ¬ (2 ≤ ks.length ∧ chooseKey strat ks = none) := by
    rintro ⟨h2, hn⟩
    rw [hck h2] at hn; cases hn
  refine ⟨h.eff_idx hr, ?_⟩
  by_cases h2 : 2 ≤ ks.length
  · have H := h.2 h2
    rw [hck h2] at H
    rw [List.pairwise_map]
    apply H.1.imp_of_mem
    intro a b ha hb' hlt
    rw [(hkey a ha).1, (hkey b hb').1] at hlt
    have := (hkey a ha).2
    have := (hkey b hb').2
    omega
  · match ks, h2 with
    | [], _ => exact List.Pairwise.nil
    | [k], _ => simp
    | _ :: _ :: _, h2 => simp at h2

/-- with a key chosen and at least two kinds, `rank` is "any correct sort, then number" -/
theorem rank_eq_of_sorted (strat : Strategy) {ks ks' : List Kind} {key : Kind → Nat}
    (hk : chooseKey strat ks = some key) (h2 : 2 ≤ ks.length)
    (hp : ks'.Perm ks) (hs : SortedBy key ks') : rank strat ks = renumber 0 ks' := by
  rw [sorted_perm_unique key ks ks' (chooseKey_some hk).2 hp hs]
  match ks, h2, hk with
  | a :: b :: t, _, hk =>
    show (match chooseKey strat (a :: b :: t) with
        | some key => finalize key (a :: b :: t)
        | none => clearEff (a :: b :: t)) = _
    rw [hk]; rfl

/-- strictly sorted: comparing positions is comparing keys -/
theorem strictBy_lt_iff {key : Kind → Nat} {ks : List Kind} (h : StrictBy key ks) (i j : Nat)
    (hi : i < ks.length) (hj : j < ks.length) : i < j ↔ key ks[i] < key ks[j] := by
  have H := List.pairwise_iff_getElem.mp h
  constructor
  · intro hij; exact H i j hi hj hij
  · intro hlt
    rcases Nat.lt_trichotomy i j with hij | hij | hij
    · exact hij
    · subst hij; omega
    · have := H j i hj hi hij; omega

/-- no ranking value: the array order is left alone (only efficiencies are cleared) -/
theorem rank_unranked_order (strat : Strategy) (ks : List Kind) (h : chooseKey strat ks = none) :
    (rank strat ks).map Kind.core = ks.map Kind.core := by
  match ks, h with
  | [], _ => rfl
  | [k], _ => rfl
  | a :: b :: t, h =>
    show (match chooseKey strat (a :: b :: t) with
        | some key => finalize key (a :: b :: t)
        | none => clearEff (a :: b :: t)).map Kind.core = _
    rw [h]
    show (List.map _ (a :: b :: t)).map Kind.core = _
    rw [List.map_map]; rfl

end CpuKinds
end Hw
